"""Run the real CLexer standalone and render its behaviour in the model driver's event format."""
from .common import rec, req


def py_scan(text, types=(), file="", limit=None):
    from pycparser.c_lexer import CLexer

    evs = []
    tset = set(types)

    def err(msg, line, col):
        evs.append(rec(["E", msg, str(line), str(col)]))

    lx = CLexer(error_func=err, on_lbrace_func=lambda: None, on_rbrace_func=lambda: None,
                type_lookup_func=lambda n: n in tset)
    lx.input(text, file)
    cap = limit if limit is not None else 4 * len(text) + 16
    n = 0
    while True:
        n += 1
        if n > cap:
            evs.append("STUCK")
            break
        tok = lx.token()
        if tok is None:
            evs.append(rec(["EOF", lx.filename]))
            break
        evs.append(rec(["T", tok.type, tok.value, str(tok.lineno), str(tok.column), lx.filename]))
    return "\t".join(evs)


def scan_req(text, types=(), file=""):
    return req("scan", ",".join(types), file, text)
