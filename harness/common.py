"""Shared plumbing of the correspondence harness: line protocol, model driver, paths, PRNG."""
import os, sys, subprocess, json, time, random, hashlib

VERIF = os.path.dirname(os.path.dirname(os.path.abspath(__file__)))
REPO = os.environ.get("VERIF_REPO", "/repo")
LEAN = os.path.join(VERIF, "lean")
DRIVER = os.path.join(LEAN, ".lake", "build", "bin", "pycmodel")
US = "\x1f"

if REPO not in sys.path:
    sys.path.insert(0, REPO)


def esc(s):
    return (
        s.replace("\\", "\\\\")
        .replace("\t", "\\t")
        .replace("\n", "\\n")
        .replace("\r", "\\r")
        .replace(US, "\\u")
    )


def unesc(s):
    out = []
    i = 0
    n = len(s)
    while i < n:
        c = s[i]
        if c == "\\" and i + 1 < n:
            d = s[i + 1]
            m = {"\\": "\\", "t": "\t", "n": "\n", "r": "\r", "u": US}.get(d)
            if m is not None:
                out.append(m)
                i += 2
                continue
        out.append(c)
        i += 1
    return "".join(out)


def rec(fields):
    return US.join(esc(f) for f in fields)


def req(*fields):
    return "\t".join(esc(f) for f in fields)


class ModelError(Exception):
    pass


def model_ok_text(s):
    """Inputs the line protocol / Lean `Char` cannot carry (lone surrogates, NUL-free is fine)."""
    try:
        s.encode("utf-8")
    except UnicodeEncodeError:
        return False
    return True


def run_model(lines, timeout=int(os.environ.get("VERIF_MODEL_TIMEOUT", "900")), chunk=None):
    """Send request lines to the compiled model driver; returns one response line per request."""
    if not os.path.exists(DRIVER):
        raise ModelError("model driver not built: " + DRIVER)
    if not lines:
        return []
    nproc = min(16, max(1, len(lines) // 2000))
    if nproc == 1:
        return _run_model_one(lines, timeout)
    size = (len(lines) + nproc - 1) // nproc
    parts = [lines[i : i + size] for i in range(0, len(lines), size)]
    procs = []
    for p in parts:
        pr = subprocess.Popen([DRIVER], stdin=subprocess.PIPE, stdout=subprocess.PIPE)
        procs.append(pr)
    import threading

    outs = [None] * len(parts)

    def work(i):
        data = ("\n".join(parts[i]) + "\n").encode("utf-8")
        o, _ = procs[i].communicate(data, timeout=timeout)
        outs[i] = o

    ths = [threading.Thread(target=work, args=(i,)) for i in range(len(parts))]
    for t in ths:
        t.start()
    for t in ths:
        t.join()
    res = []
    for i, o in enumerate(outs):
        if o is None or procs[i].returncode != 0:
            raise ModelError("model driver failed (exit %r)" % procs[i].returncode)
        ls = o.decode("utf-8").split("\n")
        if ls and ls[-1] == "":
            ls.pop()
        if len(ls) != len(parts[i]):
            raise ModelError("model driver returned %d lines for %d requests" % (len(ls), len(parts[i])))
        res.extend(ls)
    return res


def _run_model_one(lines, timeout):
    data = ("\n".join(lines) + "\n").encode("utf-8")
    p = subprocess.run([DRIVER], input=data, stdout=subprocess.PIPE, stderr=subprocess.PIPE, timeout=timeout)
    if p.returncode != 0:
        raise ModelError("model driver failed: " + p.stderr.decode("utf-8", "replace")[:500])
    ls = p.stdout.decode("utf-8").split("\n")
    if ls and ls[-1] == "":
        ls.pop()
    if len(ls) != len(lines):
        raise ModelError("model driver returned %d lines for %d requests" % (len(ls), len(lines)))
    return ls


def seed_from_env():
    try:
        return int(os.environ.get("VERIF_SEED", "0"))
    except ValueError:
        return 0


def rng_for(seed, label):
    h = hashlib.sha256(("%d/%s" % (seed, label)).encode()).digest()
    return random.Random(int.from_bytes(h[:8], "big"))


def pmap(fn, items, procs=16, chunksize=None):
    """Order-preserving multiprocessing map (fork), falling back to serial for small inputs."""
    if len(items) < 2000:
        return [fn(x) for x in items]
    import multiprocessing as mp

    ctx = mp.get_context("fork")
    with ctx.Pool(procs) as pool:
        return pool.map(fn, items, chunksize or max(1, len(items) // (procs * 8)))


def run_killable(fn, arg, budget_s):
    """fn(arg) in a forked child that is killed after budget_s seconds; None when it had to be killed.
    (A signal-based budget does not interrupt a single call into C code, e.g. a catastrophic regex match.)"""
    import multiprocessing as mp
    ctx = mp.get_context("fork")
    recv, send = ctx.Pipe(False)

    def target():
        try:
            send.send(fn(arg))
        except BaseException as e:  # noqa
            send.send(("__error__", repr(e)))

    p = ctx.Process(target=target)
    p.start()
    try:
        if recv.poll(budget_s):
            r = recv.recv()
            p.join(5)
            return r
        return None
    finally:
        if p.is_alive():
            p.kill()
            p.join()
