"""C08 — regenerated C means the same as the original to a C compiler."""
import os, re, subprocess, tempfile, shutil

from ..common import pmap, unesc
from ..pyparse import py_parse_obj, py_gen_text
from ..findings import still_fails
from .. import semgen, corpus, meaning
from .. import speccases as S

ID = "C08"
LEAN_MODULES = ["PycModel.Properties.C08"]
NAMESPACES = ["PycModel.C08", "PycModel.TablesG"]
REQUIRED_THEOREMS = ["PycModel.C08.designator_encoding_not_injective", "PycModel.TablesG.impl_gen_prec_is_parser_prec"]
LEVEL = "other"
EXPLANATION = ("A C compiler's code generation has no executable model that could be tied to Lean; what is machine-checked for this property is "
               "(a) the obligation that the generator's precedence table is the parser's and C99's (so grouping is re-emitted faithfully), "
               "(b) a proved counter-example showing that the AST encoding is not injective on designators ('[N] = 1' and '.N = 1' give the same node): the "
               "property is *false* of the current tree on that class (known finding). Everything else is differential evidence with the property's own oracle: "
               "gcc -std=c11 -S at -O0 and -O1 on original vs regenerated text of type-correct generated programs and the corpus, assembly compared with the file name normalised.")
TRUSTED = ["gcc as the oracle of meaning; harness/semgen.py as the source of type-correct programs"]
ASSUMPTIONS = ["not a proof of the property: differential evidence + one proved counter-example class"]


def asm(text, opt, tmp, tag):
    path = os.path.join(tmp, tag + ".c")
    with open(path, "w") as f:
        f.write(text)
    p = subprocess.run(["gcc", "-std=c11", "-w", opt, "-S", "-o", "-", path], stdout=subprocess.PIPE, stderr=subprocess.PIPE, timeout=60)
    if p.returncode != 0:
        return None, p.stderr.decode("utf-8", "replace")[:300]
    out = p.stdout.decode("utf-8", "replace")
    out = re.sub(r'^\s*\.file\s.*$', "", out, flags=re.M)
    out = re.sub(r'^\s*\.ident\s.*$', "", out, flags=re.M)
    return out, ""


ONLY_IF_ACCEPTED = [
    "int sz1(void) { return sizeof(\"ab\" L\"cd\"); }",
    "int sz2(void) { return sizeof(\"ab\" u\"cd\" \"ef\") + 100 * sizeof(L\"a\" \"b\") + 10000 * sizeof(\"a\" U\"b\"); }",
    "const void *ws = \"id=\" L\"x\"; const void *w2 = u8\"a\" \"b\";",
    "int mc(void) { return L'ab' + 3; }",
    "struct SA { int a; _Static_assert(sizeof(int) > 1, \"m\"); int b; }; int ssa = sizeof(struct SA);",
]


def check(args):
    text, idx, tmpdir, quick = args
    r = py_parse_obj(text, "")
    if r[0] != "OK":
        return ("skip", "pycparser rejects: %s" % (r[1] if r[0] == "PE" else r[0]))
    tmp = os.path.join(tmpdir, "j%d" % idx)
    os.makedirs(tmp, exist_ok=True)
    try:
        a0, err = asm(text, "-O0", tmp, "orig")
        if a0 is None:
            return ("skip", "gcc rejects the original: " + err)
        opts = ("-O0",) if quick else ("-O0", "-O1")
        base = {"-O0": a0}
        for rp in (False, True):
            g = py_gen_text(r[1], rp)
            if not g.startswith("T:"):
                return ("bad", "generator raised " + g)
            gen = unesc(g[2:])
            for opt in opts:
                if opt not in base:
                    base[opt], _ = asm(text, opt, tmp, "orig")
                b, err = asm(gen, opt, tmp, "orig")      # same file name => same .file / labels
                if b is None:
                    return ("bad", "gcc rejects the regenerated text (reduce_parentheses=%s): %s" % (rp, err))
                if base[opt] != b:
                    return ("bad", "assembly differs at %s (reduce_parentheses=%s)" % (opt, rp))
        return ("ok", "")
    finally:
        shutil.rmtree(tmp, ignore_errors=True)


def classify(replay):
    t = replay.get("text", "")
    if re.search(r"\[\s*[A-Za-z_]\w*\s*\]\s*(=|\.|\[)", t) and "{" in t:
        return "F-designator-id-index-gcc"
    if re.search(r"(struct|union|enum)\s*\w*\s*\{[^}]*\}\s*[\w*\s(\[\])]+,", t):
        return "F-struct-body-duplicated"
    if re.search(r'"\s*"', t) and re.search(r'\\[0-7x]', t):
        return "F-string-concat-escape"
    return None


def run(ctx):
    rng = ctx.rng("sem")
    g = semgen.Gen(rng)
    n = 40 if ctx.quick() else 1500
    progs_ = [g.program() for _ in range(n)]
    corp = [t for t in corpus.valid_programs() if "#" not in t and len(t) < 6000]
    if ctx.quick():
        corp = corp[::4]
    tmpdir = tempfile.mkdtemp(prefix="c08_")
    try:
        jobs = [(t, i, tmpdir, ctx.quick()) for i, t in enumerate(progs_ + corp)]
        # hand-written programs in which every token matters: always at -O0 and -O1
        jobs += [(t, len(jobs) + i, tmpdir, False) for i, t in enumerate(meaning.PROGRAMS)]
        # valid C that the unchanged parser rejects (recorded under C01) is skipped here - but should a
        # change make it accepted, what comes out must still mean the same to the compiler
        jobs += [(t, len(jobs) + i, tmpdir, False) for i, t in enumerate(ONLY_IF_ACCEPTED)]
        # the declaration shapes of the C03 specification (every derivation sequence x context x base
        # specifier, incl. several declarators sharing `_Atomic(T)`): what gcc accepts is compared
        spec_decl = []
        if ctx.model_available:
            reqs = [("c03", "enum", "0", "0", "10"), ("c03", "enum", "1", "0", "100"),
                    ("c03", "enum", "2", "0", "150" if ctx.quick() else "1000"),
                    ("c03", "rand", str(ctx.seed), "80" if ctx.quick() else "3000", "5")]
            spec_decl = sorted({c[0] for c in S.fetch(reqs)})
        jobs += [(t, len(jobs) + i, tmpdir, True) for i, t in enumerate(spec_decl)]
        res = pmap_small(check, jobs)
    finally:
        shutil.rmtree(tmpdir, ignore_errors=True)
    ok = skip = 0
    skipped_gen = 0
    for (t, i, _, _q), (st, why) in zip(jobs, res):
        if st == "ok":
            ok += 1
        elif st == "skip":
            skip += 1
            if i < len(progs_):
                skipped_gen += 1
                if skipped_gen <= 3:
                    print("NOTE: generated program skipped: %s" % why[:200])
        else:
            ctx.violation("%s for %r" % (why, t[:160]), {"kind": "text", "text": t}, classify)
    ctx.extra["explanation"] = EXPLANATION
    ctx.extra["programs_compared"] = ok
    ctx.extra["spec_declaration_shapes_offered"] = len(spec_decl)
    ctx.extra["programs_skipped_not_compilable_or_not_parsed"] = skip
    ctx.rule("%d type-correct programs from the semantic generator (all statement kinds, all integer operators, structs/unions/enums/bit-fields, function pointers, designated initializers, compound literals, qualifiers, storage classes, C11 specifiers) + the compilable programs of the repository corpus + %d hand-written programs in which every token matters to the compiler (qualifiers in every position incl. inside array brackets, conversions, literal suffixes and escapes, initializer bracing and designators, bit-fields and alignment, every operator pair whose grouping matters, enum values, storage classes and function specifiers, fall-through, declarator shapes, K&R definitions, compound literals); + the declaration shapes of the C03 specification (derivation sequences x contexts x base specifiers incl. multi-declarator `_Atomic(T)`), those gcc accepts; gcc -std=c11 -S at -O0 and -O1, original vs regenerated (both generator configurations), .file/.ident normalised" % (n, len(meaning.PROGRAMS)))
    ctx.count(len(jobs), nontrivial_n=ok)
    ctx.sample({"kind": "program", "text": progs_[0][:600]})


def pmap_small(fn, items):
    import multiprocessing as mp
    ctxm = mp.get_context("fork")
    with ctxm.Pool(16) as pool:
        return pool.map(fn, items, chunksize=1)


def replay(ctx, payload):
    tmpdir = tempfile.mkdtemp(prefix="c08_")
    try:
        r = check((payload["input"]["text"], 0, tmpdir, False))
    finally:
        shutil.rmtree(tmpdir, ignore_errors=True)
    print(r)
    return r[0] != "bad"


def replay_finding(ctx, f):
    w = f["witness"]
    if w["kind"] == "gcc_diff":
        tmpdir = tempfile.mkdtemp(prefix="c08_")
        try:
            return check((w["text"], 0, tmpdir, True))[0] == "bad"
        finally:
            shutil.rmtree(tmpdir, ignore_errors=True)
    return still_fails(w)
