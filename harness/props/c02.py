"""C02 — expression ASTs follow C precedence, associativity and operator binding.

Spec oracle: Lean `Spec/Expr.lean` renders every expression tree (minimal / redundant / full
parenthesisation, ten expression contexts) together with the AST the C grammar assigns it.
The real parser must return exactly that AST; the Lean parser model must agree with the real one.
"""
from .. import speccases as S
from ..findings import still_fails

ID = "C02"
LEAN_MODULES = ["PycModel.Properties.C02"]
NAMESPACES = ["PycModel.C02", "PycModel.Tables", "PycModel.Climb", "PycModel.ClimbSim", "PycModel.ClimbConcrete", "PycModel.View", "PycModel.OperandId", "PycModel.ParenExpr", "PycModel.FullExpr", "PycModel.TypeName"]
REQUIRED_THEOREMS = ["PycModel.Tables.impl_prec_is_c99", "PycModel.Tables.impl_assign_ops_c99",
                     "PycModel.Tables.model_binary_precedence", "PycModel.Tables.model_assignment_ops",
                     "PycModel.Tables.model_starts_expression",
                     "PycModel.C02.binary_operators_group_as_the_grammar_says", "PycModel.C02.precedence_climbing_correct",
                     "PycModel.C02.grammar_tree_unique", "PycModel.Climb.climb_correct", "PycModel.ClimbSim.sim",
                     "PycModel.View.peek_spec", "PycModel.View.advance_spec", "PycModel.View.peek_end",
                     "PycModel.ParenExpr.operand_spec", "PycModel.ParenExpr.parse_ok", "PycModel.View.fill_spec", "PycModel.View.peekK_spec",
                     "PycModel.C02.expressions_parse_as_the_grammar_says",
                     "PycModel.FullExpr.parse_full", "PycModel.FullExpr.all_ok", "PycModel.FullExpr.cps_post", "PycModel.FullExpr.cps_index", "PycModel.FullExpr.cps_call", "PycModel.FullExpr.cps_member", "PycModel.FullExpr.un_pre", "PycModel.FullExpr.un_szof", "PycModel.FullExpr.un_of_cps", "PycModel.FullExpr.cast_of_un", "PycModel.FullExpr.cast_cast", "PycModel.FullExpr.un_szofT", "PycModel.TypeName.typeName_ok", "PycModel.TypeName.tryParen_type", "PycModel.TypeName.sql_loop", "PycModel.TypeName.fixTypename_ok", "PycModel.FullExpr.pConstant_ok", "PycModel.C02.expression_skeleton_parses_as_the_grammar_says"]
LEVEL = "proof"
TRUSTED = ["Spec/Expr.lean: our reading of C99 6.5 (strata, associativity) and of the documented AST shapes"]
ASSUMPTIONS = ["of the expressions that contain a type name, casts and sizeof(type) over qualifier / keyword / typedef-name specifiers and pointers are inside the theorem and the generators; compound literals, _Alignof, offsetof and type names with array / function parts are exercised by C03/C04/C01"]


def run(ctx):
    reqs = [("c02", "enum", "1", "0", "100000"), ("c02", "enum", "2", "0", "100000")]
    if not ctx.quick():
        # all trees with 3 operator nodes: ~640k; enumerate in slices
        step = 20000
        reqs += [("c02", "enum", "3", str(lo), str(lo + step)) for lo in range(0, 700000, step)]
    reqs.append(("c02", "rand", str(ctx.seed), "3000" if ctx.quick() else "60000", "4"))
    reqs.append(("c02", "rand", str(ctx.seed + 1000003), "300" if ctx.quick() else "6000", "7"))
    cases = S.fetch(reqs)
    ctx.rule("all expression trees with <=%d operator nodes over the full operator set (exhaustive, Lean enumerator) x {minimal, random redundant, full} parenthesisation x 10 expression contexts (rotating), plus random trees of depth 4 and 7; distinct by program text" % (2 if ctx.quick() else 3))
    S.check_against_spec(ctx, cases, "C02")


def replay(ctx, payload):
    return S.replay_spec(ctx, payload)


def replay_finding(ctx, f):
    return still_fails(f["witness"])
