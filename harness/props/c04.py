"""C04 — an identifier is a type name exactly where C scoping makes it one."""
from ..common import run_model, req, pmap, unesc, US
from ..pyparse import py_parse_obj, parse_req
from ..findings import still_fails
from .. import speccases as S

ID = "C04"
LEAN_MODULES = ["PycModel.Properties.C04"]
NAMESPACES = ["PycModel.C04"]
REQUIRED_THEOREMS = ["PycModel.C04.declared_innermost_decides", "PycModel.C04.declared_innermost_other",
                     "PycModel.C04.open_block_transparent", "PycModel.C04.inner_hides_outer_until_close", "PycModel.C04.lookup_refines_spec",
                     "PycModel.C04.classification", "PycModel.C04.typedef_name_makes_a_declaration", "PycModel.C04.ordinary_name_makes_an_expression", "PycModel.C04.typedef_name_makes_a_cast", "PycModel.C04.ordinary_name_makes_a_call"]
LEVEL = "proof"
TRUSTED = ["Spec/Scoping.lean: our reading of C99 6.2.1 / 6.2.3 (scope of ordinary identifiers; tags, members and prototype parameters do not affect it)",
           "partial: the refinement is proved for the scope-stack operations; *when* the parser performs them is compared with the spec by exhaustive histories, and the known deviations are listed as findings"]
ASSUMPTIONS = ["the generated history language leaves out the constructs of the open findings (enumerators / labels spelled like a visible typedef name, a name used again inside the declaration that re-declares it, for-init declarations, prototype parameters shadowing inside the same parameter list)"]


def probe_classes(text):
    r = py_parse_obj(text, "")
    if r[0] != "OK":
        return "REJECTED: " + (r[1] if r[0] == "PE" else r[0])
    out = []

    def stmt_class(n):
        c = type(n).__name__
        if c == "UnaryOp":
            return "UnaryOp:" + type(n.expr).__name__
        return c

    def walk_items(items):
        for it in items or []:
            c = type(it).__name__
            if c == "Compound":
                walk_items(it.block_items)
                continue
            # probes use the reserved spellings pq*/xq/yq*/sizeof
            if c == "Decl" and it.name and (it.name.startswith("pq") or it.name.startswith("yq")):
                out.append("Decl")
            elif c == "BinaryOp" and getattr(it.right, "name", "").startswith("pq"):
                out.append("BinaryOp")
            elif c == "Cast":
                out.append("Cast")
            elif c == "FuncCall" and it.args is not None and getattr(it.args.exprs[0], "name", "") == "xq":
                out.append("FuncCall")
            elif c == "FuncCall" and it.args is not None and getattr(it.args.exprs[0], "name", "").startswith("yq"):
                out.append("FuncCall")
            elif c == "UnaryOp" and it.op == "sizeof":
                out.append(stmt_class(it))

    fd = [e for e in r[1].ext if type(e).__name__ == "FuncDef"]
    if fd:
        walk_items(fd[-1].body.block_items)
    return " ".join(out)


def run(ctx):
    reqs = [("c04", "enum", "1", "0", "100000"), ("c04", "enum", "2", "0", "100000")]
    if not ctx.quick():
        reqs += [("c04", "enum", "3", str(lo), str(lo + 2000)) for lo in range(0, 18000, 2000)]
        reqs += [("c04", "enum", "4", str(lo), str(lo + 4000)) for lo in range(0, 264000, 4000)]
    else:
        # windows spread over the whole enumeration (the first event is the most significant digit)
        reqs += [("c04", "enum", "3", str(lo), str(lo + 500)) for lo in range(0, 16384, 2731)]
    cases = S.fetch(reqs)
    ctx.rule("all well-formed histories of <=%d declarations / scope openings / closings (typedef, object, object declared with a struct / union specifier, function, tag, member, prototype parameter) of 2 names, nesting depth <= 2, after 4 file-scope prefixes, inside a function definition whose parameter list rotates through 7 forms (none, a hiding parameter, unnamed parameters before / after it, two parameters), with both names probed after every event and after every scope exit (4 probe forms: 'T * x;', '(T)(x);', 'sizeof(T);', 'T (x);'); the expected classification comes from Spec.isType" % (3 if ctx.quick() else 4))
    texts = [c[0] for c in cases]
    got = pmap(probe_classes, texts)
    keys = set()
    for (text, want), g in zip(cases, got):
        keys.add(text)
        if g != want:
            ctx.violation("classification differs from C scoping: got [%s] expected [%s] on %r" % (g[:120], want[:120], text[:200]), {"kind": "history", "text": text, "expected": want})
    ctx.count(len(cases), nontrivial_keys=keys)
    ctx.sample({"kind": "history", "text": cases[len(cases) // 2][0][:300], "expected": cases[len(cases) // 2][1][:200]})
    # histories with for-init declarations.  The specification says the loop is a scope of its own; the
    # open finding F-c04-forinit-leak is that pycparser registers the name in the enclosing block.
    # The Lean spec predicts *both* answers, so that any third behaviour is a new violation.
    freqs = [("c04", "forenum", "1", "0", "100"), ("c04", "forenum", "2", "0", "1000"), ("c04", "forenum", "3", "0", "1539" if ctx.quick() else "100000")]
    if not ctx.quick():
        freqs += [("c04", "forenum", "4", str(lo), str(lo + 4000)) for lo in range(0, 16000, 4000)]
    fcases = S.fetch(freqs)
    ctx.rule("all well-formed histories of <=%d events that contain a for-init declaration ('for (int T = 0;;) ;' or with an else-less if as body, which makes the parser look one token past the loop), followed directly or after probes by blocks / typedefs / objects of the same names, after 3 file-scope prefixes: the answer must be the specification's (the loop is a scope of its own); the one tolerated deviation is exactly what the open finding F-c04-forinit-leak predicts (name registered in the enclosing block), also computed by the Lean spec" % (3 if ctx.quick() else 4))
    fgot = pmap(probe_classes, [c[0] for c in fcases])
    fkeys = set()
    for (text, both), g in zip(fcases, fgot):
        want, leaky = both.split("|||")
        fkeys.add(text)
        if g == want:
            continue
        is_leak = (g == leaky) or (leaky == "REJECTED" and g.startswith("REJECTED") and "previously declared" in g)
        ctx.violation("classification differs from C scoping (and from the known for-init leak): got [%s] expected [%s] on %r" % (g[:120], want[:120], text[:200]),
                      {"kind": "history", "text": text, "expected": want, "leak": is_leak},
                      lambda rp: "F-c04-forinit-leak" if rp.get("leak") else None)
    ctx.count(len(fcases), nontrivial_keys=fkeys)
    # C11 6.7.6.3p11: in a parameter declaration an identifier that can be a typedef name or a parameter
    # name is a typedef name - the parameter is unnamed and the name stays a type in the body; a plain
    # declarator of that name is a parameter and hides the typedef
    TYPE, OBJ = "Decl Cast UnaryOp:Typename", "BinaryOp FuncCall UnaryOp:ID"
    amb = [("int (T)", TYPE), ("int *(T)", TYPE), ("int (*(T))", TYPE), ("int (* const (T))", TYPE), ("int (**(T))", TYPE),
           ("int (T), int n", TYPE), ("char c, int (*(T))", TYPE),
           ("int T", OBJ), ("int *T", OBJ), ("int T[3]", OBJ), ("int n, int * const T", OBJ)]
    acases = [("typedef int T; int xq; void f(%s) { T * pq1; (T)(xq); sizeof(T); }" % p, want) for p, want in amb]
    agot = pmap(probe_classes, [c[0] for c in acases])
    for (text, want), g in zip(acases, agot):
        if g != want:
            ctx.violation("typedef name or parameter name? got [%s] expected [%s] on %r" % (g[:120], want, text), {"kind": "history", "text": text, "expected": want})
    ctx.count(len(acases), nontrivial_n=len(acases))
    # the model agrees with the real parser on every one of them (AST level)
    if ctx.model_available:
        from ..pyparse import py_parse_nocoord, norm_model_parse
        sample = texts[:: max(1, len(texts) // 5000)]
        a = pmap(py_parse_nocoord, sample)
        b = [norm_model_parse(x) for x in run_model([parse_req(t, "") for t in sample])]
        for t, x, y in zip(sample, a, b):
            if x.split("\t")[:2] != y.split("\t")[:2]:
                ctx.violation("real parser and Lean model differ on a scoping history %r" % t[:160], {"kind": "history", "text": t, "expected": ""})


def replay(ctx, payload):
    i = payload["input"]
    g = probe_classes(i["text"])
    print("got     :", g)
    print("expected:", i["expected"])
    return g == i["expected"] or not i["expected"]


def replay_finding(ctx, f):
    return still_fails(f["witness"])
