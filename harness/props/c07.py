"""C07 — generated C re-parses to the same AST (parse . generate . parse = parse), both generator
configurations; second generation reproduces the first character for character."""
import re

from ..common import run_model, pmap, unesc, req
from ..pyparse import py_parse_obj, dump, py_gen_text, gen_req, py_gen
from ..findings import still_fails
from .. import progs, corpus

ID = "C07"
LEAN_MODULES = ["PycModel.Properties.C07"]
NAMESPACES = ["PycModel.C07", "PycModel.Tables", "PycModel.TablesG", "PycModel.GenParen", "PycModel.GenExpr"]
REQUIRED_THEOREMS = ["PycModel.TablesG.impl_gen_prec_is_parser_prec", "PycModel.TablesG.model_gen_precedence",
                     "PycModel.TablesG.model_gen_visit_methods",
                     "PycModel.C07.binary_parenthesisation_sufficient", "PycModel.GenParen.wf_genP", "PycModel.GenParen.toVal_genP",
                     "PycModel.C07.generated_expression_reparses", "PycModel.GenExpr.wf_G", "PycModel.GenExpr.shape_G"]
LEVEL = "proof"
TRUSTED = ["Generator.lean is a hand-written model of c_generator.py, tied by differential runs (text equality on every program of the pool, both configurations)"]
ASSUMPTIONS = []


def roundtrip(text):
    """returns None if the property holds on this program, else a description"""
    r = py_parse_obj(text, "")
    if r[0] != "OK":
        return "skip"
    d1 = dump(r[1], False)
    for rp in (False, True):
        g = py_gen_text(r[1], rp)
        if not g.startswith("T:"):
            return "generator raised %s (reduce_parentheses=%s)" % (g[2:], rp)
        t1 = unesc(g[2:])
        r2 = py_parse_obj(t1, "")
        if r2[0] != "OK":
            return "generated text does not parse (reduce_parentheses=%s): %s" % (rp, (r2[1] if r2[0] == "PE" else r2[0]))
        if dump(r2[1], False) != d1:
            return "re-parsed AST differs (reduce_parentheses=%s)" % rp
        g2 = py_gen_text(r2[1], rp)
        if g2 != g:
            return "second generation differs from the first (reduce_parentheses=%s)" % rp
    return None


def classify(replay):
    """open known-finding classes of C07 (each a decidable predicate on the input)"""
    t = replay.get("text", "")
    r = py_parse_obj(t, "")
    if r[0] != "OK":
        return None
    d = dump(r[1], False)
    # an object declared with the spelling of a typedef name that the same program also uses as a type
    objs = set(re.findall(r'\(Decl "([A-Za-z_]\w*)"', d))
    types = set(re.findall(r'\(IdentifierType \[ "([A-Za-z_]\w*)"\]\)', d))
    tdefs = set(re.findall(r'\(Typedef "([A-Za-z_]\w*)"', d))
    if objs & types & tdefs:
        return "F-late-registration-roundtrip"
    if re.search(r"_Atomic\s*\(", t) and re.search(r"\b(const|volatile|restrict)\b|_Atomic\b(?!\s*\()", t):
        return "F-atomic-spec-roundtrip"
    return None


def run(ctx):
    texts = progs.pool(ctx)
    # accepted token mutants of a sample of them
    from .c06 import mutants
    rng = ctx.rng("mutants")
    sample = [t for t in texts if len(t) < 600]
    rng.shuffle(sample)
    muts = []
    for t in sample[: (150 if ctx.quick() else 3000)]:
        muts.extend(mutants(rng, corpus.lex_tokens(t), 4))
    texts = list(dict.fromkeys(texts + muts))
    ctx.rule(progs.RULE + "; plus accepted token-level mutants of a sample; both generator configurations; distinct by text, counted when accepted; for every maximal expression node of every accepted program the tokens CGenerator prints = the tokens of GenExpr.G on the same AST (tie of C07.generated_expression_reparses to the real generator)")
    res = pmap(roundtrip, texts)
    # generator model vs real generator *on the same tree*: the real AST is dumped and handed to the
    # Lean generator model, so this correspondence does not depend on the parser (model or real)
    acc = [t for t, r in zip(texts, res) if r != "skip"]
    pg = pmap(_pygen_and_dump, acc) if ctx.model_available else None
    md = run_model([req("genast", d) for (_, d) in pg]) if pg is not None else None
    if pg is not None:
        pg = [g for (g, _) in pg]
    keys = set()
    j = 0
    for t, r in zip(texts, res):
        if r == "skip":
            continue
        keys.add(t)
        if r is not None:
            ctx.violation("round trip fails: %s on %r" % (r, t[:160]), {"kind": "text", "text": t}, classify)
        elif md is not None and md[j] != pg[j]:
            ctx.violation("generated text of the real generator differs from the Lean generator model on %r" % t[:160], {"kind": "text", "text": t}, classify)
        j += 1
    ctx.count(len(texts), nontrivial_keys=keys)
    # the tie of the round-trip theorem (C07.generated_expression_reparses) to the real generator: for
    # every maximal expression node of every accepted program, the tokens of what CGenerator prints
    # are the tokens of GenExpr.G on the same AST, for both settings of reduce_parentheses
    if ctx.model_available:
        et = pmap(_expr_tokens, acc)
        ok = [(t, e) for t, e in zip(acc, et) if e is not None]
        gx = run_model([req("gx", e[0]) for _, e in ok])
        n_nodes = n_conv = 0
        for (t, (_, rows)), line in zip(ok, gx):
            f = line.split("\t")
            if f[0] != "OK":
                ctx.violation("Lean driver could not read the AST of %r (%s)" % (t[:100], f[0]), {"kind": "gx", "text": t})
                continue
            mine = [unesc(x) for x in f[1:] if x != ""]
            if len(mine) != len(rows):
                ctx.violation("expression nodes found by the harness (%d) and by the Lean driver (%d) differ on %r" % (len(rows), len(mine), t[:100]), {"kind": "gx", "text": t})
                continue
            for a, b in zip(rows, mine):
                n_nodes += 1
                if b == "-" or a is None:
                    continue
                n_conv += 1
                if a != b:
                    ctx.violation("tokens printed by CGenerator for an expression differ from GenExpr.G (the parenthesisation the round-trip theorem is about): real %r, model %r, in %r" % (a[:150], b[:150], t[:100]), {"kind": "gx", "text": t}, classify)
                    break
        ctx.count(n_conv, nontrivial_n=n_conv)
        ctx.extra["expression_nodes"] = n_nodes
        ctx.extra["expression_nodes_in_theorem_fragment"] = n_conv
    ctx.sample({"kind": "roundtrip", "text": acc[len(acc) // 2] if acc else ""})
    ctx.extra["accepted_programs"] = len(acc)


EXPR_CLASSES = {"ID", "Constant", "UnaryOp", "ArrayRef", "StructRef", "FuncCall", "BinaryOp", "TernaryOp", "Assignment", "ExprList", "Cast"}


def _expr_tokens(t):
    """(dump of the AST, per maximal expression node in slot order: the token spellings of what the real
    generator prints for it, 'reduce_parentheses' off | on) - the Lean side computes the same list from
    the same dump with GenExpr.G, the function the round-trip theorem is about"""
    r = py_parse_obj(t, "")
    if r[0] != "OK":
        return None
    from pycparser import c_ast
    from pycparser.c_generator import CGenerator
    out = []

    def walk(v):
        if isinstance(v, (list, tuple)):
            for x in v:
                walk(x)
            return
        if not isinstance(v, c_ast.Node):
            return
        if type(v).__name__ in EXPR_CLASSES:
            row = []
            for rp in (False, True):
                try:
                    txt = CGenerator(reduce_parentheses=rp).visit(v)
                    row.append(" ".join(val for _, val in corpus.lex_tokens(txt)))
                except RecursionError:
                    row = None
                    break
                except Exception as e:  # noqa
                    row.append("<%s>" % type(e).__name__)
            out.append(None if row is None else "|".join(row))
            return
        for slot in v.__slots__[:-2]:
            walk(getattr(v, slot))
    try:
        walk(r[1])
        return (dump(r[1], False), out)
    except RecursionError:
        return None


def _pygen_and_dump(t):
    r = py_parse_obj(t, "")
    if r[0] != "OK":
        return ("-", "~")
    return ("OK\t" + py_gen_text(r[1], False) + "\t" + py_gen_text(r[1], True), dump(r[1], False))


def replay(ctx, payload):
    if payload["input"].get("kind") == "gx":
        e = _expr_tokens(payload["input"]["text"])
        if e is None:
            return True
        f = run_model([req("gx", e[0])])[0].split("\t")
        mine = [unesc(x) for x in f[1:] if x != ""]
        print(e[1], mine)
        return f[0] == "OK" and len(mine) == len(e[1]) and all(a is None or b == "-" or a == b for a, b in zip(e[1], mine))
    r = roundtrip(payload["input"]["text"])
    print("round trip:", r)
    return r is None or r == "skip"


def replay_finding(ctx, f):
    return still_fails(f["witness"])
