"""C19 — every fake libc header preprocesses and parses via parse_file."""
import os, re, subprocess, tempfile, shutil

from ..common import REPO, run_model, req, pmap
from ..findings import still_fails

ID = "C19"
LEAN_MODULES = ["PycModel.Properties.C19"]
NAMESPACES = ["PycModel.C19", "PycModel.Cpp"]
REQUIRED_THEOREMS = ["PycModel.C19.impl_shape", "PycModel.C19.impl_single_headers", "PycModel.C19.impl_guarded_bodies", "PycModel.C19.impl_bodies", "PycModel.C19.any_header_list", "PycModel.C19.any_header_list_length", "PycModel.Cpp.pp_nodup_bodies"]
LEVEL = "proof"
TRUSTED = ["partial: cpp, the OS process and the file system are exercised, not modelled; Cpp.lean models include/guard expansion on the regenerated header tree and is compared with the real cpp on header lists"]
ASSUMPTIONS = ["tools/extract.py's reading of each header (guard, includes, own content) is regenerated on every run"]

INC = INC0 = os.path.join(REPO, "utils", "fake_libc_include")
DIALECTS = ["-std=c99", "-std=c11", "-std=gnu99", "-std=gnu11"]


def headers():
    out = []
    for d, _, fs in sorted(os.walk(INC)):
        for f in sorted(fs):
            out.append(os.path.relpath(os.path.join(d, f), INC))
    return out


def typedef_names():
    """names declared by _fake_typedefs.h, read independently of pycparser: the last identifier of
    every top-level `typedef ... ;`"""
    src = open(os.path.join(INC, "_fake_typedefs.h")).read()
    src = re.sub(r"/\*.*?\*/", " ", src, flags=re.S)
    src = "\n".join(l for l in src.split("\n") if not l.strip().startswith("#"))
    names = []
    depth = 0
    cur = []
    for ch in src:
        if ch == "{":
            depth += 1
        elif ch == "}":
            depth -= 1
        if ch == ";" and depth == 0:
            stmt = "".join(cur).strip()
            cur = []
            if stmt.startswith("typedef"):
                ids = re.findall(r"[A-Za-z_]\w*", re.sub(r"\{.*\}", " ", stmt, flags=re.S))
                if ids:
                    names.append(ids[-1])
        else:
            cur.append(ch)
    return names


def job(args):
    hs, dialect, as_list, tmp, idx = args[:5]
    spaced = len(args) > 5 and args[5]
    preamble = args[6] if len(args) > 6 else ""
    from pycparser import parse_file, c_ast
    from pycparser.c_parser import CParser
    INC = INC0
    if spaced:
        # the same header tree under a directory whose path contains blanks (and the source file too)
        INC = os.path.join(tmp, "inc dir %d" % idx, "fake libc include")
        if not os.path.isdir(INC):
            shutil.copytree(INC0, INC)
        os.makedirs(os.path.join(tmp, "src dir"), exist_ok=True)
    fixed = args[7] if len(args) > 7 else None       # one scratch file rewritten between calls
    path = os.path.join(tmp, "src dir" if spaced else "", fixed or ("t%d.c" % idx))
    names = typedef_names()
    with open(path, "w") as f:
        f.write(preamble)
        for h in hs:
            f.write('#include "%s"\n' % h)
        # the central typedef list is only promised by the public headers (the `_fake_*` helper files
        # themselves may be included alone, without it)
        with_uses = any(not os.path.basename(h).startswith("_") for h in hs) or "_fake_typedefs.h" in hs
        if with_uses:
            for i, n in enumerate(names):
                f.write("%s use_%d;\n" % (n, i))
    cpp_args = [dialect, "-nostdinc", "-I" + INC] if as_list else "%s -nostdinc -I%s" % (dialect, INC) if False else None
    if not as_list:
        # a single string can only carry one argument (no shell splitting in preprocess_file)
        cpp_args = "-I" + INC
    try:
        ast = parse_file(path, use_cpp=True, cpp_path="cpp", cpp_args=cpp_args)
    except Exception as e:  # noqa
        return "parse_file raised %s: %s" % (type(e).__name__, str(e)[:200])
    tds = {e.name for e in ast.ext if isinstance(e, c_ast.Typedef)}
    missing = [n for n in names if n not in tds] if with_uses else []
    if missing:
        return "typedef names missing from the AST: %s" % missing[:5]
    used = [e for e in ast.ext if isinstance(e, c_ast.Decl) and e.name and e.name.startswith("use_")]
    if with_uses and len(used) != len(names):
        return "declarations using the typedef names: %d of %d" % (len(used), len(names))
    # identical to preprocessing and parsing by hand
    argv = ["cpp"] + (cpp_args if isinstance(cpp_args, list) else [cpp_args]) + [path]
    text = subprocess.run(argv, stdout=subprocess.PIPE, stderr=subprocess.DEVNULL, universal_newlines=True).stdout
    from ..pyparse import dump
    ast2 = CParser().parse(text, path)
    if dump(ast, True) != dump(ast2, True):
        return "parse_file result differs from preprocessing and parsing by hand"
    # which guarded bodies appeared, in order (for the correspondence with Cpp.lean): by the position of
    # a typedef that only that body declares
    marks = {"_fake_typedefs.h": "size_t", "zlib.h": "uInt", "X11/_X11_fake_typedefs.h": "XPointer"}
    seq = [e.name for e in ast.ext if isinstance(e, c_ast.Typedef)]
    pos = sorted((seq.index(n), f) for f, n in marks.items() if n in seq)
    order = [f for _, f in pos]
    return ("OK", order)


BODY_FILES = {"_fake_defines.h", "_fake_typedefs.h", "X11/_X11_fake_defines.h", "X11/_X11_fake_typedefs.h", "zlib.h"}


def run(ctx):
    hs = headers()
    tmp = tempfile.mkdtemp(prefix="c19_")
    try:
        jobs = []
        k = 0
        dialects = DIALECTS if not ctx.quick() else DIALECTS[:2]
        for h in hs:
            for d in (dialects if (not ctx.quick() or h in ("stdio.h", "zlib.h", "X11/Xlib.h", "stdlib.h", "string.h")) else dialects[:1]):
                for as_list in ((True, False) if (not ctx.quick() or h in ("stdio.h", "zlib.h", "X11/Xlib.h")) else (k % 2 == 0,)):
                    jobs.append(([h], d, as_list, tmp, k))
                    k += 1
        rng = ctx.rng("subsets")
        nrand = 40 if ctx.quick() else 600
        special = ["zlib.h", "X11/Xlib.h", "X11/Intrinsic.h", "X11/_X11_fake_typedefs.h", "_fake_typedefs.h"]
        for _ in range(nrand):
            n = rng.choice([2, 3, 5, 8, 20])
            sub = [rng.choice(hs if rng.random() < 0.7 else special) for _ in range(n)]
            jobs.append((sub, rng.choice(DIALECTS), True, tmp, k))
            k += 1
        # the finite quotient of the reduction: every order of first need of the three body groups
        for combo in (["stdio.h"], ["zlib.h"], ["X11/Xlib.h"], ["zlib.h", "X11/Xlib.h"], ["X11/Xlib.h", "zlib.h"], ["stdio.h", "zlib.h", "X11/Intrinsic.h"],
                      ["X11/Intrinsic.h", "stdlib.h", "zlib.h"]):
            for d in DIALECTS:
                jobs.append((combo, d, True, tmp, k))
                k += 1
        # paths with blanks, both argument forms (a string is ONE argument: it must not be split)
        for h in ("stdio.h", "X11/Xlib.h", "zlib.h"):
            for as_list in (True, False):
                jobs.append(([h], "-std=c99", as_list, tmp, k, True))
                k += 1
        # sources on which cpp succeeds but prints warnings (a macro of _fake_defines.h defined differently
        # before the include, #warning, an apostrophe in a skipped block): diagnostics are not program text
        for pre in ("#define NULL ((void *)0)\n", "#warning take care\n", "#if 0\nit's skipped\n#endif\n", "#define EOF (-2)\n#define BUFSIZ 7\n"):
            for h, as_list in (("stdio.h", True), ("stdlib.h", False), ("X11/Xlib.h", True)):
                jobs.append(([h], "-std=c99", as_list, tmp, k, False, pre))
                k += 1
        # one file name, rewritten between calls with the same arguments: every call sees the current text
        for hset in (["stdio.h"], ["zlib.h"], ["X11/Xlib.h"], ["stdlib.h", "zlib.h"], ["stdio.h"], ["X11/Intrinsic.h"]):
            for as_list in (True, False):
                jobs.append((hset, "-std=c99", as_list, tmp, k, False, "", "reused_%s.c" % ("l" if as_list else "s")))
                k += 1
        res = pmap(job, jobs)
        md = run_model([req("cpp", ",".join(j[0])) for j in jobs]) if ctx.model_available else None
        keys = set()
        for i, (j, r) in enumerate(zip(jobs, res)):
            keys.add((tuple(j[0]), j[1], j[2]))
            if not (isinstance(r, tuple) and r[0] == "OK"):
                ctx.violation("%s for headers %r with %s (%s)" % (r, j[0][:6], j[1], "list" if j[2] else "str"), {"kind": "headers", "headers": j[0], "dialect": j[1], "as_list": j[2], "spaced": len(j) > 5 and j[5], "preamble": j[6] if len(j) > 6 else ""})
                continue
            if md is not None:
                got = [f for f in r[1] if f in BODY_FILES and f != "_fake_defines.h" and f != "X11/_X11_fake_defines.h"]
                want = [f for f in md[i].split(" ") if f and f != "_fake_defines.h" and f != "X11/_X11_fake_defines.h"]
                if got != want:
                    ctx.violation("real cpp emitted bodies %r, Cpp.lean predicts %r for headers %r" % (got, want, j[0][:6]), {"kind": "headers", "headers": j[0], "dialect": j[1], "as_list": j[2]})
        ctx.count(len(jobs), nontrivial_keys={repr(k_) for k_ in keys})
        ctx.rule("all %d header files alone x dialects %s x {list, str} cpp_args, random subsets/orders/repetitions of headers, header tree and source under paths containing blanks (list and str form), every order of first need of the three body groups, one scratch file rewritten between calls with unchanged arguments (each call must see the current text), and sources on which cpp prints warnings while succeeding (macro redefinition, #warning, apostrophe in a skipped block); each generated .c file includes the headers and then declares a variable of every one of the %d typedef names; parse_file(use_cpp=True) must succeed, contain all typedefs and uses, equal preprocessing+parsing by hand, and emit the bodies Cpp.lean predicts" % (len(hs), dialects, len(typedef_names())))
        ctx.sample({"kind": "headers", "headers": jobs[-1][0], "dialect": jobs[-1][1]})
    finally:
        shutil.rmtree(tmp, ignore_errors=True)


def replay(ctx, payload):
    i = payload["input"]
    tmp = tempfile.mkdtemp(prefix="c19_")
    try:
        r = job((i["headers"], i["dialect"], i["as_list"], tmp, 0, bool(i.get("spaced")), i.get("preamble", "")))
    finally:
        shutil.rmtree(tmp, ignore_errors=True)
    print(r if not isinstance(r, tuple) else r[0])
    return isinstance(r, tuple)


def replay_finding(ctx, f):
    return still_fails(f["witness"])
