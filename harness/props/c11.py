"""C11 — coordinates point at the real source location of every construct and error."""
import re

from ..common import pmap, run_model, unesc
from ..pyparse import py_parse_obj, parse_req, py_parse
from ..findings import still_fails
from .. import progs, layout

ID = "C11"
LEAN_MODULES = ["PycModel.Properties.C11"]
NAMESPACES = ["PycModel.C11", "PycModel.LexPos"]
REQUIRED_THEOREMS = ["PycModel.C11.resolved_position_is_event_position", "PycModel.C11.lex_error_location", "PycModel.C11.token_coord_file", "PycModel.C11.coord_is_true_token_position", "PycModel.C11.declared_name_coordinate_is_its_token", "PycModel.C11.decl_typedecl_names_its_token", "PycModel.C11.here_is_next_token", "PycModel.C11.invalid_expression_is_located"]
LEVEL = "proof"
TRUSTED = ["span membership (the token lies inside the construct) is not modelled; checked are: real token, right file/line, exact spelling for leaf nodes, coordinates present, and full agreement of every coordinate with the Lean parser model"]
ASSUMPTIONS = []

MUST_HAVE = {"Decl", "Typedef", "FuncDef", "Compound", "If", "While", "DoWhile", "For", "Switch", "Case", "Default",
             "Label", "Goto", "Break", "Continue", "Return", "EmptyStatement", "ID", "Constant", "BinaryOp", "UnaryOp",
             "Assignment", "TernaryOp", "ArrayRef", "FuncCall", "StructRef", "Cast", "ExprList", "Pragma", "StaticAssert"}
SPELLED = {"ID": "name", "Constant": "value", "Goto": None, "Label": "name", "Enumerator": "name"}


def walk(node, out):
    out.append(node)
    for _, c in node.children():
        walk(c, out)


def check_variant(args):
    text, seed, change_file = args
    import random
    rng = random.Random(seed)
    us = layout.units(text)
    rec = []
    if change_file:
        v = layout.render(us, "markers", rng, record=rec)
    else:
        v = layout.render(us, rng.choice(["indent", "line"]), rng, record=rec)
    r = py_parse_obj(v, "f.c")
    if r[0] != "OK":
        return (v, None, change_file)
    pos = {}        # (line, col) -> list of (spelling, file) of the tokens laid out there
    for sp, line, col, f in rec:
        pos.setdefault((line, col), []).append((sp, f if f is not None else "f.c"))
    nodes = []
    walk(r[1], nodes)
    problems = []
    for n in nodes:
        cls = type(n).__name__
        c = n.coord
        if c is None:
            if cls in MUST_HAVE:
                problems.append("%s without coordinate" % cls)
            continue
        if cls == "Pragma":
            continue
        key = (c.line, c.column)
        if key not in pos:
            problems.append("%s at %s: no token starts there" % (cls, c))
            continue
        cands = [(sp, f) for sp, f in pos[key] if f == c.file]
        if not cands:
            problems.append("FILE %s at %s: the token(s) there are in file %r" % (cls, c, sorted({f for _, f in pos[key]})))
            continue
        attr = SPELLED.get(cls)
        if attr and isinstance(getattr(n, attr), str):
            want = getattr(n, attr)
            if cls == "Constant" and n.type == "string":
                if not any(want.startswith(sp[:-1]) for sp, _ in cands):      # concatenated literals start with the first one
                    problems.append("Constant %r at %s: tokens there are %r" % (want, c, cands))
            elif not any(sp == want for sp, _ in cands):
                problems.append("%s %r at %s: tokens there are %r" % (cls, want, c, cands))
    return (v, problems, change_file)


def error_injection(args):
    text, seed = args
    import random
    rng = random.Random(seed)
    us = layout.units(text)
    if any(k == "pragma" for k, _ in us) or not us:
        return None
    if py_parse_obj(text, "f.c")[0] != "OK":      # only accepted programs: the injected character is the one error
        return None
    j = rng.randrange(len(us) + 1)
    # characters that are not C tokens; the control characters are line boundaries for str.splitlines()
    # but not for C (only '\n' ends a line): lines after them must still be counted as C counts them
    bad = rng.choice(["@", "`", "@", "`", "\x0c", "\x0b", "\x1c", "\x1d", "\x1e", "\x85", "\u2028", "\u2029"])
    us2 = us[:j] + [("tok", bad)] + us[j:]
    rec = []
    v = layout.render(us2, rng.choice(["indent", "line", "markers"]), rng, record=rec)
    sp, line, col, f = [x for x in rec if x[0] == bad][0]
    r = py_parse_obj(v, "f.c")
    want = "%s:%d:%d: Illegal character" % (f if f is not None else "f.c", line, col)
    if r[0] != "PE":
        return (v, "not rejected with ParseError: %s" % (r[0],))
    if not r[1].startswith(want):
        return (v, "error location %r, expected prefix %r" % (r[1][:60], want))
    return (v, None)


MUT_TOKENS = [";", ")", "(", "}", "{", "]", "[", ",", "=", "+", "*", ":", "int", "x", "1", "case", "else", "typedef", ".", "->", "?", "return", "struct", "sizeof"]
_LOC = re.compile(r"^(.*?):(\d+):(\d+): (.*)$", re.S)


def syntax_error_location(args):
    """a token-level mutant of an accepted program, laid out with recorded token positions: when it is
    rejected, the location of the ParseError must be the start of a token of the input, in the file the
    linemarkers establish; a message with a file name only is acceptable only at the end of the input
    (decided from outside: then, and only then, appending a token changes the outcome)"""
    text, seed = args
    import random
    rng = random.Random(seed)
    us = layout.units(text)
    if not us or len(us) > 400:
        return None
    op = rng.choice(["delete", "insert", "replace", "truncate", "insert", "replace"])
    j = rng.randrange(len(us))
    if op == "delete":
        us2 = us[:j] + us[j + 1:]
    elif op == "insert":
        us2 = us[:j] + [("tok", rng.choice(MUT_TOKENS))] + us[j:]
    elif op == "replace":
        us2 = us[:j] + [("tok", rng.choice(MUT_TOKENS))] + us[j + 1:]
    else:
        us2 = us[:j]
    if not us2:
        return None
    rec = []
    v = layout.render(us2, rng.choice(["indent", "line", "markers", "single"]), rng, record=rec)
    r = py_parse_obj(v, "f.c")
    if r[0] != "PE":
        return (v, None, False)
    msg = r[1]
    m = _LOC.match(msg)
    if m and not m.group(1).count("\n"):
        f, line, col = m.group(1), int(m.group(2)), int(m.group(3))
        here = [(sp, ff if ff is not None else "f.c") for sp, l, c, ff in rec if (l, c) == (line, col)]
        if not here:
            return (v, "ParseError %r: no token of the input starts at that line and column" % msg[:70], True)
        if not any(ff == f for _, ff in here):
            return (v, "ParseError %r: the token there is in file %r" % (msg[:70], sorted({ff for _, ff in here})), True)
        return (v, None, True)
    # file name only: legitimate only when the parser ran out of input
    files = {"f.c"} | {ff for _, _, _, ff in rec if ff is not None}
    # ... or set by a directive that no token follows (a linemarker at the very end of the text)
    files |= set(re.findall(r'^[ \t]*#[ \t]*(?:line[ \t]+)?\d+[ \t]+"([^"\n]*)"', v, re.M))
    if not any(msg.startswith(ff + ": ") for ff in files):
        return (v, "ParseError %r does not start with a location" % msg[:70], True)
    at_end = False
    for extra in (" ;", " x", " )", " }"):
        r2 = py_parse_obj(v + extra, "f.c")
        if r2[0] != "PE" or r2[1] != msg:
            at_end = True
            break
    if not at_end:
        return (v, "ParseError %r names no line and column although the parser had not reached the end of the input (appending tokens changes nothing)" % msg[:70], True)
    return (v, None, True)


def classify(replay):
    if replay.get("only_file_problems"):
        return "F-coord-file-lookahead"
    return None


def run(ctx):
    texts = [t for t in progs.pool(ctx, scale=0.4) if len(t) < 4000]
    rng = ctx.rng("variants")
    args = [(t, rng.randrange(1 << 30), cf) for t in texts for cf in (False, True)]
    ctx.rule(progs.RULE + "; each re-laid out twice by a renderer that records (line, column, file) of every token: once with random blanks/newlines, once with linemarkers that change line and file between arbitrary tokens; every node coordinate must be a recorded token start in the right file, leaf nodes must spell that token, required classes must carry a coordinate; plus single illegal-character injections whose reported location must be exact; plus token-level mutants (delete / insert / replace / truncate) under recorded layouts: the location of a ParseError must be the start of a token of the input in the right file, a file-only location is accepted only at the end of the input; plus full coordinate agreement with the Lean model")
    res = pmap(check_variant, args)
    keys = set()
    variants = []
    for (t, _, cf), (v, problems, _) in zip(args, res):
        if problems is None:
            continue
        keys.add(v)
        variants.append(v)
        if problems:
            only_file = all(p.startswith("FILE ") for p in problems)
            ctx.violation("coordinate problem: %s in %r" % (problems[0], v[:120]), {"kind": "variant", "text": v, "only_file_problems": only_file}, classify)
    ctx.count(len(variants), nontrivial_keys=keys)
    if variants:
        ctx.sample({"kind": "variant", "text": variants[-1][:300]})
    # error locations
    eargs = [(t, rng.randrange(1 << 30)) for t in texts]
    eres = pmap(error_injection, eargs)
    n = 0
    for r in eres:
        if r is None:
            continue
        n += 1
        if r[1] is not None:
            ctx.violation("illegal-character error location: %s in %r" % (r[1], r[0][:120]), {"kind": "errloc", "text": r[0]})
    ctx.count(n, nontrivial_n=n)
    # locations of syntax errors
    k = 3 if ctx.quick() else 30
    sargs = [(t, rng.randrange(1 << 30)) for t in texts if len(t) < 1500 for _ in range(k)]
    sres = pmap(syntax_error_location, sargs)
    n = nrej = 0
    for r in sres:
        if r is None:
            continue
        n += 1
        nrej += 1 if r[2] else 0
        if r[1] is not None:
            ctx.violation("syntax-error location: %s in %r" % (r[1], r[0][:120]), {"kind": "synloc", "text": r[0]})
    ctx.extra["syntax_error_mutants"] = {"generated": n, "rejected": nrej}
    ctx.count(n, nontrivial_n=nrej)
    # ... and the whole message (location and text) of every rejected mutant is the Lean model's
    if ctx.model_available:
        rej = [r[0] for r in sres if r is not None and r[2]]
        rej = rej[:: max(1, len(rej) // 3000)]
        py = pmap(_pyp, rej)
        md = run_model([parse_req(v, "f.c") for v in rej])
        for v, a, b in zip(rej, py, md):
            if a != b and not (a == "FUEL" or b == "FUEL"):
                ctx.violation("ParseError of the real parser %r differs from the Lean model's %r on %r" % (a[:90], b[:90], v[:120]), {"kind": "synloc-model", "text": v})
        ctx.count(len(rej), nontrivial_n=len(rej))
    # model agreement on every coordinate (this is what carries the theorems to the code)
    if ctx.model_available and variants:
        sample = variants[:: max(1, len(variants) // 4000)]
        py = pmap(_pyp, sample)
        md = run_model([parse_req(v, "f.c") for v in sample])
        for v, a, b in zip(sample, py, md):
            if a != b and not (a == "FUEL" or b == "FUEL"):
                ctx.violation("coordinates / AST of the real parser differ from the Lean model on %r" % v[:120], {"kind": "variant", "text": v, "only_file_problems": False})
        ctx.count(len(sample), nontrivial_n=0)


def _pyp(v):
    return py_parse(v, "f.c")


def replay(ctx, payload):
    i = payload["input"]
    print("re-run of recorded layouts is not supported for C11 replays; showing the parse outcome only")
    r = py_parse_obj(i["text"], "f.c")
    print(r[0])
    return True


def replay_finding(ctx, f):
    w = f["witness"]
    if w["kind"] == "coord_file":
        r = py_parse_obj(w["text"], "f.c")
        if r[0] != "OK":
            return False
        nodes = []
        walk(r[1], nodes)
        return any(type(n).__name__ == w["cls"] and n.coord is not None and n.coord.file == w["wrong_file"] for n in nodes)
    return still_fails(w)
