"""C09 — tokenisation is lossless, longest-match and position-exact.

Lean side: PycModel.Properties.C09 (termination / never-stuck for all texts and all well-formed
tables, table obligations against the standard's token vocabulary).
Correspondence: real CLexer vs the compiled model `scan` (regexes regenerated from the source) on
  (1) all strings up to length k over a 20-character alphabet,
  (2) random valid token sequences x layouts x directive placements, where the expected stream comes
      from the layout's own bookkeeping (spec oracle), not from the model.
"""
import itertools

from ..common import run_model, pmap, rec, unesc, US
from ..pylex import py_scan, scan_req
from .. import gen_tokens as G

ID = "C09"
LEAN_MODULES = ["PycModel.Properties.C09"]
NAMESPACES = ["PycModel.C09", "PycModel.LexPos"]
REQUIRED_THEOREMS = [
    "PycModel.C09.impl_lex_wf", "PycModel.C09.impl_keywords", "PycModel.C09.impl_punctuators",
    "PycModel.C09.impl_master_is_rules", "PycModel.C09.scan_terminates_never_stuck",
    "PycModel.C09.scan_position_exact", "PycModel.C09.scan_line_is_newline_count", "PycModel.LexPos.scanLoop_exact",
]
LEVEL = "proof"
TRUSTED = [
    "Python `re` is modelled, not verified: PycModel.Regex.ends re-implements its backtracking semantics for the constructs the lexer uses; tied by exhaustive short strings",
    "Spec/Tokens.lean: our reading of C99 6.4.1/6.4.6",
]
ASSUMPTIONS = ["theorems speak about the Lean scanner model instantiated with tables regenerated from c_lexer.py"]

ALPHABET20 = "a1 0.x'\"\\\n#+-*/=<&;("  # 20 characters


def project(line):
    """what C09 constrains of an event stream: tokens fully, errors by position only, termination."""
    out = []
    for e in line.split("\t"):
        f = [unesc(x) for x in e.split(US)]
        if f[0] == "T":
            out.append(("T", f[1], f[2], f[3], f[4], f[5]))
        elif f[0] == "E":
            out.append(("E", f[2], f[3]))
        else:
            out.append(tuple(f))
    return out


def holds_arbitrary(text, proj):
    """Progress + 'never silently skips' on arbitrary text, judged on the real lexer's output:
    the lexer terminated, and when no directive / error is involved every non-blank character
    belongs to exactly one reported token (spans are contiguous up to blanks)."""
    if any(p[0] == "STUCK" for p in proj):
        return False, "lexer did not terminate within the call budget"
    if not proj or proj[-1][0] != "EOF":
        return False, "no end-of-input"
    if "#" in text or any(p[0] == "E" for p in proj):
        return True, ""
    # offsets from (line, col)
    starts = [0]
    for i, ch in enumerate(text):
        if ch == "\n":
            starts.append(i + 1)
    pos = 0
    for p in proj:
        if p[0] != "T":
            continue
        line, col = int(p[3]), int(p[4])
        if line - 1 >= len(starts):
            return False, "token on a line that does not exist"
        off = starts[line - 1] + col - 1
        val = p[2]
        if off < pos:
            return False, "overlapping tokens"
        if text[pos:off].strip(" \t\n") != "":
            return False, "characters %r skipped without report" % text[pos:off]
        if text[off : off + len(val)] != val:
            return False, "token value %r is not the text at its position" % val
        pos = off + len(val)
    if text[pos:].strip(" \t\n") != "":
        return False, "trailing characters %r skipped without report" % text[pos:]
    return True, ""


def gen_case(rng, idx):
    """a random valid token sequence with a random layout and directives; returns (text, types, expected)"""
    typedefs = tuple(sorted({G.gen_ident(rng) for _ in range(rng.randrange(0, 3))}))
    file0 = rng.choice(["f.c", "", "dir/x.c"])
    lay = G.Layout(file=file0)
    n = rng.choice([1, 2, 3, 5, 8, 13, 21])
    prev = None
    lay.sep(G.random_sep(rng, need=False))
    for i in range(n):
        r = rng.random()
        if r < 0.06:
            lay.line_directive(rng, rng.randrange(1, 5000), rng.choice([None, "g.h", "a b.h", "x\\\\y.h"]))
            prev = None
            continue
        if r < 0.10:
            lay.pragma(rng, rng.choice(["", "once", "omp parallel for", "pack(push, 1)"]))
            prev = None
            continue
        sp, cls = G.gen_token(rng, typedefs)
        if prev is not None:
            if G.needs_sep(prev, sp):
                lay.sep(G.random_sep(rng, need=True))
            else:
                lay.sep(G.random_sep(rng, need=False))
        lay.token(sp, cls)
        prev = sp
    lay.sep(G.random_sep(rng, need=False))
    return lay.text(), typedefs, lay.expected, file0


def run(ctx):
    # ---- (1) exhaustive short strings ------------------------------------------------------
    k = 3 if ctx.quick() else 5
    texts = ["".join(p) for n in range(0, k + 1) for p in itertools.product(ALPHABET20, repeat=n)]
    # directive arguments of extreme size (CPython's int() refuses more than 4300 digits)
    for n in (1, 20, 4300, 4301):
        for d in "19":
            texts += ["#line " + d * n + "\nab c", "# " + d * n + ' "g.h"\nab', "x\n#line " + d * n, "# " + d * n + ' "g.h" ' + d * n + "\nq",
                      "#line " + d * n + "u\nab"]
    # a word that merely begins like a directive name is an identifier after a '#', not a directive:
    # '#' and the whole word must come out as tokens, and what follows keeps its line
    lookalikes = []
    for name in ("pragma_once", "pragmatic", "pragma2", "pragmas", "line5", "lineno", "lines", "line_", "linex", "line7"):
        for fmt in ("#%s\nx", "# %s 3\nx", "#%s \"o.c\"\nx", "  #\t%s\nx", "a ;\n#%s\nx"):
            lookalikes.append((fmt % name, name))
    for t, name in lookalikes:
        pp = project(py_scan(t))
        toks = [p for p in pp if p[0] == "T"]
        line_x = str(t.count("\n") + 1)
        if not any(p[1] == "PPHASH" for p in toks) or not any(p[1] == "ID" and p[2] == name for p in toks) \
                or not any(p[1] == "ID" and p[2] == "x" and p[3] == line_x for p in toks):
            ctx.violation("'#' followed by the identifier %r (not a directive name) is not returned as '#', %r and the following tokens on their lines: %r" % (name, name, [p[1:4] for p in toks][:6]), {"kind": "arbitrary", "text": t})
    ctx.count(len(lookalikes), nontrivial_n=len(lookalikes))
    ctx.rule("all strings of length <= %d over the 20-character alphabet %r (exhaustive) + #line / linemarker directives whose numbers have 1..4301 digits + '#' followed by 10 identifiers that begin like 'pragma' / 'line' in 5 layouts; non-trivial = contains a non-blank character" % (k, ALPHABET20))
    py = pmap(py_scan, texts)
    nontriv = sum(1 for t in texts if t.strip(" \t\n"))
    ctx.count(len(texts), nontrivial_n=nontriv)
    ctx.sample({"kind": "short-string", "text": texts[len(texts) // 2], "impl": py[len(texts) // 2]})
    md = run_model([scan_req(t) for t in texts]) if ctx.model_available else None
    for i, t in enumerate(texts):
        pp = project(py[i])
        ok, why = holds_arbitrary(t, pp)
        if not ok:
            ctx.violation("lexer on arbitrary text: %s (text %r)" % (why, t), {"kind": "arbitrary", "text": t})
            continue
        if md is not None and project(md[i]) != pp:
            ctx.violation("token stream of the real lexer differs from the proved model on %r: impl=%r model=%r" % (t, pp[:6], project(md[i])[:6]),
                          {"kind": "arbitrary", "text": t})
    # ---- (2) valid token sequences x layouts x directives ------------------------------------
    n_cases = 3000 if ctx.quick() else 60000
    rng = ctx.rng("layouts")
    cases = [gen_case(rng, i) for i in range(n_cases)]
    ctx.rule("%d random token sequences (all keyword/punctuator/literal classes) x random layouts (blank/tab/newline, adjacency where safe) x #line/#pragma placements; expected stream from the layout's own bookkeeping; distinct by text" % n_cases)
    pys = pmap(_scan_case, cases)
    mds = run_model([scan_req(c[0], c[1], _file0(c)) for c in cases]) if ctx.model_available else None
    seen = set()
    for i, (text, types, exp, _f0) in enumerate(cases):
        seen.add(text)
        got = [p for p in project(pys[i])]
        want = [("T", c, s, str(l), str(cl), f) for (c, s, l, cl, f) in exp]
        got_t = [g for g in got if g[0] != "EOF"]
        if got_t != want:
            j = next((j for j in range(min(len(got_t), len(want))) if got_t[j] != want[j]), min(len(got_t), len(want)))
            ctx.violation("valid token sequence not returned exactly: at token %d impl=%r expected=%r" % (j, got_t[j:j + 1], want[j:j + 1]),
                          {"kind": "layout", "text": text, "types": list(types), "file": _file0(cases[i]), "expected": [list(w) for w in want]})
            continue
        if mds is not None and project(mds[i]) != got:
            ctx.violation("real lexer and model disagree on a laid-out token sequence", {"kind": "layout", "text": text, "types": list(types), "file": _file0(cases[i]), "expected": [list(w) for w in want]})
    ctx.count(len(cases), nontrivial_keys=seen)
    ctx.sample({"kind": "layout", "text": cases[0][0], "typedefs": list(cases[0][1]), "expected": [list(e) for e in cases[0][2]][:6]})
    # ---- (3) all ordered pairs of punctuators, adjacent ---------------------------------------
    puncts = list(G.PUNCT)
    pairs = [a + b for a in puncts for b in puncts if "/*" not in a + b and "//" not in a + b]  # comment openers are C10's business
    pyp = [py_scan(p) for p in pairs]
    ctx.rule("all %d ordered pairs of punctuators written adjacent: result must be the maximal-munch split" % len(pairs))
    mdp = run_model([scan_req(p) for p in pairs]) if ctx.model_available else None
    for i, p in enumerate(pairs):
        want = munch(p)
        got = [g[2] for g in project(pyp[i]) if g[0] == "T"]
        if got != want:
            ctx.violation("punctuator pair %r split as %r, maximal munch gives %r" % (p, got, want), {"kind": "arbitrary", "text": p})
        elif mdp is not None and project(mdp[i]) != project(pyp[i]):
            ctx.violation("punctuator pair %r: impl/model differ" % p, {"kind": "arbitrary", "text": p})
    ctx.count(len(pairs), nontrivial_n=len(pairs))


def munch(s):
    """maximal munch over the C99 punctuator set (spec oracle)"""
    out = []
    i = 0
    ps = sorted(G.PUNCT, key=len, reverse=True)
    while i < len(s):
        for p in ps:
            if s.startswith(p, i):
                out.append(p)
                i += len(p)
                break
        else:
            out.append(s[i])
            i += 1
    return out


def _file0(case):
    return case[3]


def case_file(case):
    return case[3]


def _scan_case(c):
    return py_scan(c[0], c[1], case_file(c))


def replay(ctx, payload):
    inp = payload["input"]
    text = inp["text"]
    types = tuple(inp.get("types", ()))
    file = inp.get("file", "")
    pp = project(py_scan(text, types, file))
    if inp.get("kind") == "layout":
        want = [tuple(w) for w in inp["expected"]]
        ok = [g for g in pp if g[0] != "EOF"] == want
    else:
        ok, _ = holds_arbitrary(text, pp)
    md = project(run_model([scan_req(text, types, file)])[0])
    print("impl :", pp[:12])
    print("model:", md[:12])
    return ok and md == pp


def replay_finding(ctx, f):
    return False
