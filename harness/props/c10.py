"""C10 — literals are accepted iff well-formed and classified by their spelling."""
import itertools

from ..common import run_model, req, pmap, unesc, US
from ..pylex import py_scan, scan_req
from ..pyparse import py_parse_obj
from ..findings import still_fails
from .. import gen_tokens as G

ID = "C10"
LEAN_MODULES = ["PycModel.Properties.C10"]
NAMESPACES = ["PycModel.C10"]
REQUIRED_THEOREMS = ["PycModel.C10.int_suffix_type", "PycModel.C10.suffix_types_wellformed", "PycModel.C10.countP_take_append"]
LEVEL = "proof"
TRUSTED = ["Spec/Lexical.lean: our reading of C99 6.4.4 / 6.4.5 plus the documented extensions (binary integers, u8/u/U prefixes, lenient escape letters, decimal escapes of any length)",
           "the equivalence 'regex rule table = Spec.Lex.classify' for all strings is not proved; it is checked exhaustively on short strings and on random long literals (spec vs real lexer vs Lean scanner model)"]
ASSUMPTIONS = []

ALPHA1 = "0189aexXbBuUlLfFpP.+-"
ALPHA2 = "01a'\"\\xLu8 ?n"
ALPHA3 = "'\\xAf07u"      # character constants with hex / octal escapes in both letter cases
ALPHA4 = "\"\\xAg08L"     # the same for string literals
NONASCII = ["\u0663", "\uff13", "\u00e9", "\u00b2", "\u0967", "\uff21"]
NONASCII_TEMPLATES = ["1e3", "1.5e+3f", "0x1p3", "0x1f", "017", "123u", "0b11", "1.3", ".3", "3.", "'\\3'", "'\\x3'", "'\\n'", "'a3'",
                      "L'3'", '"\\3"', '"\\x3"', '"\\n"', '"a3"', 'u8"3"']
MALFORMED = ["08", "0129", "''", "'a", "'ab", "\"abc", "'\\@'", "\"a\\@b\"", "/* c */", "// c", "'\\", "\"\\", "'\n'", "\"a\nb\"", "'a\nb'"]


def impl_class(t):
    evs = py_scan(t).split("\t")
    if len(evs) == 2 and evs[0].startswith("T" + US):
        f = [unesc(x) for x in evs[0].split(US)]
        if f[2] == t and ("CONST" in f[1] or "LITERAL" in f[1]):
            return f[1]
    return "-"


def classify(replay):
    t = replay.get("text", "")
    import re
    if re.match(r"^'([^'\\\n]|\\.){5,}'$", t):
        return "F-long-multichar-c10"
    if re.match(r"^(L|u8|u|U)'([^'\\\n]|\\.){2,}'$", t):
        return "F-c10-prefixed-multichar"
    return None


def const_type(spelling):
    r = py_parse_obj("int x = %s;" % spelling, "")
    if r[0] != "OK":
        return None
    init = r[1].ext[0].init
    return (type(init).__name__, getattr(init, "type", None), getattr(init, "value", None))


def expected_type(spelling, cls):
    if cls.startswith("INT_CONST") and cls != "INT_CONST_CHAR":
        suf = ""
        s = spelling
        while s and s[-1] in "uUlL":
            suf = s[-1] + suf
            s = s[:-1]
        u = sum(1 for c in suf if c in "uU")
        l = sum(1 for c in suf if c in "lL")
        return ("unsigned " if u else "") + ("long long " if l == 2 else "long " if l == 1 else "") + "int"
    if cls == "INT_CONST_CHAR":
        return "int"
    if "FLOAT" in cls:
        return "float" if spelling[-1] in "fF" else "long double" if spelling[-1] in "lL" else "double"
    if "CHAR" in cls:
        return "char"
    return "string"


def run(ctx):
    k1, k2 = (4, 4) if ctx.quick() else (5, 6)
    texts = ["".join(p) for n in range(1, k1 + 1) for p in itertools.product(ALPHA1, repeat=n)]
    texts += ["".join(p) for n in range(1, k2 + 1) for p in itertools.product(ALPHA2, repeat=n)]
    k3 = 5 if ctx.quick() else 6
    texts += ["".join(p) for n in range(1, k3 + 1) for p in itertools.product(ALPHA3, repeat=n)]
    texts += ["".join(p) for n in range(1, k3 + 1) for p in itertools.product(ALPHA4, repeat=n)]
    # numeric constants assembled from their grammatical parts, every part present or absent
    texts += [a + b + c + d + e + f for a in ("", "0", "0x", "0X", "0b", "1", "9") for b in ("", "1", "f", "8") for c in ("", ".")
              for d in ("", "8", "a") for e in ("", "e", "e1", "e+1", "p", "p1", "p-1", "P+") for f in ("", "f", "L", "u", "ul", "fl")]
    # characters outside ASCII that Unicode calls digits / letters: in a literal they may only be
    # ordinary members of a string or character constant, never digits, escapes, prefixes or suffixes
    for tpl in NONASCII_TEMPLATES:
        for i in range(len(tpl) + 1):
            for c in NONASCII:
                texts.append(tpl[:i] + c + tpl[i:])
                if i < len(tpl):
                    texts.append(tpl[:i] + c + tpl[i + 1:])
    texts = list(dict.fromkeys(t for t in texts if t))
    ctx.rule("numeric constants assembled from prefix x digits x point x fraction x exponent x suffix with every part present or absent (8064 spellings); 20 literal templates with one of 6 non-ASCII digits / letters substituted or inserted at every position; all strings of length <=%d over %r, <=%d over %r, <=%d over %r and %r (exhaustive): the real lexer returns the whole string as one literal token of class K iff Spec.Lex.classify says it is a well-formed literal of class K; the Lean scanner model must agree token for token; plus random long literals of every kind with random suffixes (class and Constant.type/value through the parser), plus malformed families that must be reported through the error callback" % (k1, ALPHA1, k2, ALPHA2, k3, ALPHA3, ALPHA4))
    py = pmap(impl_class, texts)
    sp = run_model([req("c10", t) for t in texts]) if ctx.model_available else None
    nontriv = 0
    for i, t in enumerate(texts):
        if py[i] != "-" or (sp is not None and sp[i] != "-"):
            nontriv += 1
        if sp is not None and py[i] != sp[i]:
            ctx.violation("literal classification: %r is %s for the lexer but %s for the C99 specification" % (t, py[i], sp[i]), {"kind": "literal", "text": t}, classify)
    ctx.count(len(texts), nontrivial_n=nontriv)
    # scanner model agrees on a sample of the same strings (full event stream)
    if ctx.model_available:
        sample = texts[:: max(1, len(texts) // 40000)]
        a = pmap(py_scan, sample)
        b = run_model([scan_req(t) for t in sample])
        for t, x, y in zip(sample, a, b):
            if x != y:
                ctx.violation("lexer and Lean scanner model differ on %r" % t, {"kind": "literal", "text": t}, classify)
        ctx.count(len(sample), nontrivial_n=0)
    # random long literals
    rng = ctx.rng("literals")
    n = 2000 if ctx.quick() else 40000
    lits = []
    for _ in range(n):
        g = rng.choice([G.gen_int, G.gen_int, G.gen_float, G.gen_float, G.gen_char, G.gen_string])
        lits.append(g(rng))
    got = pmap(impl_class, [l[0] for l in lits])
    sp2 = run_model([req("c10", l[0]) for l in lits]) if ctx.model_available else None
    types = pmap(const_type, [l[0] for l in lits])
    for i, (spelling, cls) in enumerate(lits):
        if got[i] != cls:
            ctx.violation("literal %r lexed as %s, the C99 grammar makes it %s" % (spelling, got[i], cls), {"kind": "literal", "text": spelling}, classify)
        elif sp2 is not None and sp2[i] != cls:
            ctx.violation("SPEC: Spec.Lex.classify gives %s for generated %s %r" % (sp2[i], cls, spelling), {"kind": "literal", "text": spelling}, classify)
        else:
            t = types[i]
            want = ("Constant", expected_type(spelling, cls), spelling)
            if t != want:
                ctx.violation("Constant built from %r is %r, expected %r" % (spelling, t, want), {"kind": "literal-type", "text": spelling}, classify)
    ctx.count(len(lits), nontrivial_keys={l[0] for l in lits})
    ctx.sample({"kind": "literal", "text": lits[0][0], "class": lits[0][1]})
    # malformed families
    for m in MALFORMED:
        evs = py_scan(m).split("\t")
        if not any(e.startswith("E" + US) for e in evs):
            ctx.violation("malformed literal %r is not reported through the error callback: %r" % (m, evs), {"kind": "malformed", "text": m})
    ctx.count(len(MALFORMED), nontrivial_n=len(MALFORMED))
    # a quoted literal with one invalid escape: reported as ONE malformed literal - the first event is an
    # error located at the opening quote, and nothing of the literal's interior comes out as a token of
    # its own.  Every printable character after the backslash that is not an escape letter of the
    # (documented, lenient) escape grammar, in strings and character constants, alone and with context.
    import string
    bad_after = [c for c in string.punctuation + " " if c not in "\\'\"?._~!=&^-"]
    bad_lits = []
    for c in bad_after:
        bad_lits += ['"a\\%sb"' % c, '"\\%s"' % c, "'\\%s'" % c, 'L"x\\%sy"' % c, '"a\\%s", "b"' % c, "f('\\%s', 1)" % c]
    n_bad = 0
    for m in bad_lits:
        sp = run_model([req("c10", m)])[0] if False else None
        evs = [e for e in py_scan(m).split("\t") if e]
        q = min(i for i in (m.find('"'), m.find("'")) if i >= 0)
        first_bad = next((e for e in evs if e.startswith("E" + US) or (e.startswith("T" + US) and unesc(e.split(US)[2]) not in ("f", "(", "L"))), None)
        n_bad += 1
        if first_bad is None or not first_bad.startswith("E" + US):
            ctx.violation("a literal with the invalid escape in %r is not reported as one malformed literal: first event after the prefix is %r" % (m, first_bad), {"kind": "malformed", "text": m})
            continue
        col = int(first_bad.split(US)[3])
        if col != q + 1 and not (m.startswith("L") and col == q):
            ctx.violation("the malformed literal in %r is reported at column %d, its opening quote is at column %d" % (m, col, q + 1), {"kind": "malformed", "text": m})
        interior = [unesc(e.split(US)[2]) for e in evs if e.startswith("T" + US)]
        if any(t in ("a", "b", "x", "y", c) for t in interior for c in ";,%@#$") and not m.endswith(', "b"') and not m.startswith("f("):
            ctx.violation("the interior of the malformed literal in %r comes out as tokens %r" % (m, interior), {"kind": "malformed", "text": m})
    ctx.count(n_bad, nontrivial_n=n_bad)


def replay(ctx, payload):
    t = payload["input"]["text"]
    a = impl_class(t)
    b = run_model([req("c10", t)])[0]
    print("lexer:", a, "spec:", b)
    return a == b


def replay_finding(ctx, f):
    w = f["witness"]
    if w["kind"] == "class_mismatch":
        return impl_class(w["text"]) != w["spec"]
    return still_fails(w)
