"""C05 — statement ASTs mirror C's statement nesting and source order.

Spec oracle: Lean `Spec/Stmt.lean` — statement syntax with dangling-else discipline, the documented
AST, the switch-block regrouping written from the property's wording, pragma placement.
"""
from .. import speccases as S
from ..findings import still_fails

ID = "C05"
LEAN_MODULES = ["PycModel.Properties.C05"]
NAMESPACES = ["PycModel.C05", "PycModel.SwitchRefine", "PycModel.Tables"]
REQUIRED_THEOREMS = ["PycModel.C05.regroup_no_labels", "PycModel.C05.regroupGo_prefix",
                     "PycModel.C05.fixSwitchLoop_eq_regroup", "PycModel.C05.fixSwitchCases_eq_spec",
                     "PycModel.C05.fixSwitchCases_empty_block", "PycModel.C05.labeled_statement_shape",
                     "PycModel.SwitchRefine.peel_extract", "PycModel.SwitchRefine.loop_refines",
                     "PycModel.Tables.model_starts_statement"]
LEVEL = "proof"
TRUSTED = ["Spec/Stmt.lean: our reading of C99 6.8 and of the documented AST; the `;` after a block-level _Static_assert is an EmptyStatement (pinned by the repository's own test_static_assert)"]
ASSUMPTIONS = []


def run(ctx):
    reqs = [("c05", "enum", "8", "25", "1", "0", "100000"), ("c05", "enum", "3", "25", "2", "0", "100000")]
    if not ctx.quick():
        reqs += [("c05", "enum", "2", "12", "3", str(lo), str(lo + 20000)) for lo in range(0, 900000, 20000)]
    reqs.append(("c05", "rand", str(ctx.seed), "3000" if ctx.quick() else "60000", "3"))
    reqs.append(("c05", "rand", str(ctx.seed + 77), "500" if ctx.quick() else "10000", "5"))
    cases = S.fetch(reqs)
    ctx.rule("all statement trees of depth <=%s over the reduced alphabet (Lean enumerator: 25 one-child wrappers: if/while/do/switch/case/default/label/block/pragma + all 16 for-forms (4 init forms x condition x step), if-else with dangling-else discipline, two-item blocks) + random function bodies of depth 3 and 5 with declarations, static assertions, pragma lines at every boundary and switch blocks with label chains; distinct by text" % ("2" if ctx.quick() else "3 (2 atoms, 12 wrappers)"))
    S.check_against_spec(ctx, cases, "C05")


def replay(ctx, payload):
    return S.replay_spec(ctx, payload)


def replay_finding(ctx, f):
    return still_fails(f["witness"])
