"""C05 — statement ASTs mirror C's statement nesting and source order.

Spec oracle: Lean `Spec/Stmt.lean` — statement syntax with dangling-else discipline, the documented
AST, the switch-block regrouping written from the property's wording, pragma placement.
"""
from .. import speccases as S
from ..findings import still_fails

ID = "C05"
LEAN_MODULES = ["PycModel.Properties.C05"]
NAMESPACES = ["PycModel.C05", "PycModel.SwitchRefine", "PycModel.StmtSkel", "PycModel.Tables", "PycModel.TransUnit"]
REQUIRED_THEOREMS = ["PycModel.C05.block_items_in_source_order", "PycModel.C05.block_items_concat", "PycModel.TransUnit.compound_ok", "PycModel.StmtSkel.slok_consD", "PycModel.StmtSkel.sok_forD", "PycModel.StmtSkel.all_sl", "PycModel.C05.regroup_no_labels", "PycModel.C05.regroupGo_prefix",
                     "PycModel.C05.fixSwitchLoop_eq_regroup", "PycModel.C05.fixSwitchCases_eq_spec",
                     "PycModel.C05.fixSwitchCases_empty_block", "PycModel.C05.labeled_statement_shape",
                     "PycModel.SwitchRefine.peel_extract", "PycModel.SwitchRefine.loop_refines",
                     "PycModel.C05.statements_nest_as_the_grammar_says", "PycModel.StmtSkel.parse_stmt", "PycModel.StmtSkel.all_s", "PycModel.StmtSkel.svals_shaped", "PycModel.StmtSkel.fixSwitch_sval", "PycModel.StmtSkel.sok_switch", "PycModel.StmtSkel.sok_case", "PycModel.StmtSkel.sok_for", "PycModel.StmtSkel.sok_goto", "PycModel.StmtSkel.sok_label",
                     "PycModel.Tables.model_starts_statement"]
LEVEL = "proof"
TRUSTED = ["Spec/Stmt.lean: our reading of C99 6.8 and of the documented AST; the `;` after a block-level _Static_assert is an EmptyStatement (pinned by the repository's own test_static_assert)"]
ASSUMPTIONS = []


# pycparser's documented extension: _Static_assert where a statement is expected. The property's
# nesting rules apply to it as to any statement (the label / case / loop owns the assertion that
# follows it); the `;` that closes it is an EmptyStatement of the enclosing block (pinned by the
# repository's own test for block-level assertions).
SA = '_Static_assert(1, "m");'
EXT_CASES = [
    ("L: " + SA + " x;", "Compound(Label(StaticAssert(Constant,Constant)),EmptyStatement,ID)"),
    ("L: M: " + SA, "Compound(Label(Label(StaticAssert(Constant,Constant))),EmptyStatement)"),
    ("switch (a) { case 1: " + SA + " x; default: " + SA + " }",
     "Compound(Switch(ID,Compound(Case(Constant,StaticAssert(Constant,Constant),EmptyStatement,ID),Default(StaticAssert(Constant,Constant),EmptyStatement))))"),
    ("switch (a) { case 1: case 2: " + SA + " }",
     "Compound(Switch(ID,Compound(Case(Constant),Case(Constant,StaticAssert(Constant,Constant),EmptyStatement))))"),
    ("while (a) " + SA + " x;", "Compound(While(ID,StaticAssert(Constant,Constant)),EmptyStatement,ID)"),
    ("if (a) " + SA + " x;", "Compound(If(ID,StaticAssert(Constant,Constant)),EmptyStatement,ID)"),
    ("for (;;) L: " + SA, "Compound(For(Label(StaticAssert(Constant,Constant))),EmptyStatement)"),
    (SA + " L: x;", "Compound(StaticAssert(Constant,Constant),EmptyStatement,Label(ID))"),
    ("{ " + SA + " } x;", "Compound(Compound(StaticAssert(Constant,Constant),EmptyStatement),ID)"),
]


def shape_of_body(body):
    from ..pyparse import py_parse_obj
    r = py_parse_obj("void f(void) { %s }" % body, "f.c")
    if r[0] != "OK":
        return r[0] + ":" + str(r[1])[:80]

    def sh(n):
        c = [sh(x) for _, x in n.children()]
        return type(n).__name__ + ("(" + ",".join(c) + ")" if c else "")

    return sh(r[1].ext[0].body)


def run(ctx):
    ctx.rule("%d hand-written bodies using the _Static_assert-as-statement extension under labels, case/default chains, loops and blocks: nesting must be that of the statement grammar" % len(EXT_CASES))
    for body, want in EXT_CASES:
        got = shape_of_body(body)
        if got != want:
            ctx.violation("statement nesting of %r is %s, expected %s" % (body, got, want), {"kind": "extbody", "body": body, "want": want})
    ctx.count(len(EXT_CASES), nontrivial_n=len(EXT_CASES))
    reqs = [("c05", "enum", "8", "26", "1", "0", "100000"), ("c05", "enum", "3", "26", "2", "0", "100000")]
    if not ctx.quick():
        reqs += [("c05", "enum", "2", "12", "3", str(lo), str(lo + 20000)) for lo in range(0, 900000, 20000)]
    reqs.append(("c05", "rand", str(ctx.seed), "3000" if ctx.quick() else "60000", "3"))
    reqs.append(("c05", "rand", str(ctx.seed + 77), "500" if ctx.quick() else "10000", "5"))
    cases = S.fetch(reqs)
    ctx.rule("all statement trees of depth <=%s over the reduced alphabet (Lean enumerator: 26 one-child wrappers: if/while/do/switch/case/default/label/block/#pragma line/_Pragma operator + all 16 for-forms (4 init forms x condition x step), if-else with dangling-else discipline, two-item blocks) + random function bodies of depth 3 and 5 with declarations, static assertions, pragma lines at every boundary and switch blocks with label chains; distinct by text" % ("2" if ctx.quick() else "3 (2 atoms, 12 wrappers)"))
    S.check_against_spec(ctx, cases, "C05")


def replay(ctx, payload):
    i = payload["input"]
    if i.get("kind") == "extbody":
        got = shape_of_body(i["body"])
        print(got)
        return got == i["want"]
    return S.replay_spec(ctx, payload)


def replay_finding(ctx, f):
    return still_fails(f["witness"])
