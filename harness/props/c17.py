"""C17 — the AST (minus coordinates) depends only on the token sequence."""
from ..common import pmap, run_model, unesc
from ..pyparse import py_parse_obj, dump, py_gen_text, parse_req
from ..findings import still_fails
from .. import progs, layout

ID = "C17"
LEAN_MODULES = ["PycModel.Properties.C17", "PycModel.Properties.C09"]
NAMESPACES = ["PycModel.C17", "PycModel.ParenExpr", "PycModel.FullExpr", "PycModel.TypeName"]
REQUIRED_THEOREMS = ["PycModel.C17.layout_independence", "PycModel.C17.layout_independence_text", "PycModel.C17.erase_mapCoords", "PycModel.C17.redundant_parentheses_change_only_coordinates", "PycModel.ParenExpr.paren_transparent", "PycModel.C17.erase_val_indep", "PycModel.C17.redundant_parentheses_change_only_coordinates_full"]
LEVEL = "proof"
TRUSTED = ["the factorisation parse = finish . parseCore . strip of the Lean parser model is faithful to c_parser.py (tied by the whole-pipeline correspondence incl. coordinates)",
           "that re-laid-out texts scan to the same (class, spelling) sequence is checked per case, not proved (C09 round-trip theorem pending)"]
ASSUMPTIONS = []

STYLES = ["line", "single", "tight", "indent", "markers", "samemarker", "litmarker"]


def variants_obs(args):
    text, seed = args
    import random
    rng = random.Random(seed)
    r0 = py_parse_obj(text, "f.c")
    if r0[0] != "OK":
        return None
    d0 = dump(r0[1], False)
    g0 = py_gen_text(r0[1], False)
    us = layout.units(text)
    out = []
    for st in STYLES:
        v = layout.render(us, st, rng)
        r = py_parse_obj(v, "other.c")
        if r[0] != "OK":
            out.append((st, v, "variant rejected: %s" % (r[1] if r[0] == "PE" else r[0])))
            continue
        if dump(r[1], False) != d0:
            out.append((st, v, "AST differs"))
        elif py_gen_text(r[1], False) != g0:
            out.append((st, v, "generated text differs"))
        else:
            out.append((st, v, None))
    # a long run of directive lines between two tokens (no bound on how many may stand in one gap)
    toks = [val for kind, val in us if kind == "tok"]
    if toks and all(kind == "tok" for kind, _ in us):
        j = rng.randrange(len(toks) + 1)
        n = rng.choice([2, 17, 300, 1500, 1500])
        run_ = "".join(rng.choice(['# %d "g.h"\n', '#line %d "g.h"\n', '# %d "g.h" 1 3\n', '\n# %d\n']) % (i + 1) for i in range(n))
        v = " ".join(toks[:j]) + "\n" + run_ + " ".join(toks[j:]) + "\n"
        r = py_parse_obj(v, "other.c")
        if r[0] != "OK":
            out.append(("markerrun", v, "variant with %d consecutive directive lines rejected: %s" % (n, r[1] if r[0] == "PE" else r[0])))
        elif dump(r[1], False) != d0:
            out.append(("markerrun", v, "AST differs"))
        elif py_gen_text(r[1], False) != g0:
            out.append(("markerrun", v, "generated text differs"))
        else:
            out.append(("markerrun", v, None))
    return out


def run(ctx):
    texts = [t for t in progs.pool(ctx, scale=0.5) if len(t) < 5000]
    rng = ctx.rng("seeds")
    args = [(t, rng.randrange(1 << 30)) for t in texts]
    ctx.rule(progs.RULE + " x 8 re-layouts each (one token per line, single line, no blank wherever adjacency is allowed, random blanks/tabs/newlines, linemarkers changing line and file between arbitrary tokens, the same linemarker before every token so that all tokens share one coordinate, file-less directives in front of literals that stand alone on their line, a run of 2..1500 consecutive directive lines in one gap); AST dump without coordinates and generated text must be identical; redundant-parenthesis variants are covered by C02's three parenthesisations against one expected AST")
    res = pmap(variants_obs, args)
    vtexts = []
    keys = set()
    for (t, _), r in zip(args, res):
        if r is None:
            continue
        keys.add(t)
        for st, v, why in r:
            if why is not None:
                ctx.violation("re-layout '%s' changes the result (%s) for %r" % (st, why, t[:120]), {"kind": "layout", "text": t, "variant": v, "style": st})
            vtexts.append((t, v))
    ctx.count(len(vtexts), nontrivial_keys=keys)
    if vtexts:
        ctx.sample({"kind": "relayout", "original": vtexts[0][0][:200], "variant": vtexts[0][1][:200]})
    # model: the variant and the original must also agree in the Lean model (instance of the theorem)
    if ctx.model_available and vtexts:
        sample = vtexts[:: max(1, len(vtexts) // 3000)]
        a = run_model([parse_req(t, "f.c") for t, _ in sample])
        b = run_model([parse_req(v, "other.c") for _, v in sample])
        for (t, v), x, y in zip(sample, a, b):
            if x.split("\t")[:2] != y.split("\t")[:2]:
                ctx.violation("Lean model: variant and original differ (theorem instance fails => scan of the variant differs) on %r" % t[:100], {"kind": "layout", "text": t, "variant": v, "style": "?"})


def replay(ctx, payload):
    i = payload["input"]
    a = py_parse_obj(i["text"], "f.c")
    b = py_parse_obj(i["variant"], "other.c")
    ok = a[0] == "OK" and b[0] == "OK" and dump(a[1], False) == dump(b[1], False) and py_gen_text(a[1], False) == py_gen_text(b[1], False)
    print("same AST and text:", ok)
    return ok


def replay_finding(ctx, f):
    return still_fails(f["witness"])
