"""C12 — a parser's result depends only on (text, filename), never on its history."""
from ..common import pmap
from ..pyparse import py_parse_obj, dump, py_gen_text
from ..findings import still_fails
from .. import progs, corpus

ID = "C12"
LEAN_MODULES = ["PycModel.Properties.C12"]
NAMESPACES = ["PycModel.C12"]
REQUIRED_THEOREMS = ["PycModel.C12.reinit_forgets", "PycModel.C12.parse_history_indep", "PycModel.C12.nth_call_eq_fresh",
                     "PycModel.C12.same_text_twice", "PycModel.C12.impl_fields_accounted"]
LEVEL = "proof"
TRUSTED = ["object identity (no node shared between two returned ASTs) is not expressible in the model: runtime check only",
           "that parse() really re-initialises every field is the model's reinit; tied by the call-sequence runs below and the field inventory obligation"]
ASSUMPTIONS = []

# programs that exercise every place where CGenerator changes indent_level (a reused generator must
# come back to level 0 after each of them, whatever follows)
GEN_STATE = [
    "struct E {};", "union U {} u;", "typedef struct {} unit_t;", "struct S { struct {} in; int a; } s;", "enum { A0 };", "enum Em { };",
    "void f(void) {}", "void f(void) { {} { ; } }", "void f(int x) { switch (x) { } }", "void f(int x) { switch (x) { case 1: ; } }",
    "void f(void) { for (;;) ; while (1) ; do ; while (0); if (1) ; else ; }", "struct T { int a; } t = { 1 };", "int a[] = { };",
    "void f(void) { L: ; }", "void f(void) { if (1) { } else { } }", "struct P { int x; struct Q { int y; } q; } p;",
    "void f(void) {\n#pragma omp x\n}", "_Static_assert(1, \"m\");", "void f(void) { struct L { int a; } l; union { int b; } m; }",
]

CLASH = [
    "typedef int T; T x;", "int T; int y = T * 2;", "typedef char T; void f(void) { T T; }", "void f(void) { { { typedef int U; U u;",
    "typedef int A; typedef A B; B b", "struct S { int a; ", "int f(int T) { return T; }", "typedef int T; int g(T);", "T * x;", "(T)(x);",
    "void f(void) { T (x); }", "# 5 \"other.h\"\nint z;", "int q = @;", "void f( {", "typedef int T, U; T a; U b;", "enum E { T, U }; int v = T;",
]


# systematic histories: what a previous call may leave behind x what the next call would notice
def _setups():
    out = []
    decls = ["typedef int T;", "int T;", "typedef int T; typedef int U;", "enum { T };", "int T(void);", "struct T { int a; };"]
    tails = ["", " int ok;", " int x = ;", " void f(void) { T x; x = ; }", " void f(void) { { { int y = @; } } }",
             " void f(int T) { { T = ; } }", " void f(void) { { typedef int U; { U u = ; } } }", " struct S { int m; ",
             " void f(void) { for (int T = 0;;) { ; ", " int a[] = { 1, { 2, ", " void f(void) { switch (T) { case 1: { ",
             "\n# 7 \"h.h\"\n void f(void) { int z = ; }", " void f(void) {\n#pragma p\n", " _Pragma(", " void f(void) { if (1) { typedef char T; T c = ; } }"]
    for d in decls:
        for t in tails:
            out.append(d + t)
    return out


PROBES = ["T * x;", "void g(void) { T * y; }", "void g(void) { (T)(y); }", "void g(void) { T (y); }", "int T;", "T a;", "typedef int T; T b;",
          "int v = sizeof(T);", "void g(int T) { T = 1; }", "U * u;", "void g(void) { U * w; }", "int q = 1;\n#pragma tail", "void g(void) { x = 1; }",
          "struct T t;", "enum E { U = 1 }; int r = U;"]


def result_key(r):
    if r[0] == "OK":
        return ("OK", dump(r[1], True))
    if r[0] == "PE":
        return ("PE", r[1])
    if r[0] == "FUEL":
        return ("FUEL",)
    return ("CRASH", r[1])


def node_ids(ast):
    out = set()

    def w(n):
        out.add(id(n))
        for _, c in n.children():
            w(c)

    w(ast)
    return out


def run_sequence(args):
    texts, = args
    from pycparser.c_parser import CParser
    from pycparser.c_generator import CGenerator
    p = CParser()
    g = CGenerator()
    problems = []
    prev_ids = set()
    keep = []
    for k, t in enumerate(texts):
        used = py_parse_obj(t, "f%d.c" % (k % 3), parser=p)
        fresh = py_parse_obj(t, "f%d.c" % (k % 3))
        a, b = result_key(used), result_key(fresh)
        if a[0] == "FUEL" or b[0] == "FUEL":
            continue
        if a != b:
            problems.append((k, "call %d on a used parser differs from a fresh parser: %r vs %r" % (k, a[:2][-1][:80] if len(a) > 1 else a, b[:2][-1][:80] if len(b) > 1 else b)))
            continue
        if used[0] == "OK":
            ids = node_ids(used[1])
            if ids & prev_ids:
                problems.append((k, "AST of call %d shares node objects with an earlier AST" % k))
            prev_ids |= ids
            keep.append(used[1])    # keep alive so ids stay unique
            # generator reuse after successful visits
            try:
                t1 = g.visit(used[1])
            except Exception:
                g = CGenerator()
                continue
            t2 = CGenerator().visit(used[1])
            if t1 != t2:
                problems.append((k, "a reused CGenerator produced different text at call %d (indent_level=%r)" % (k, g.indent_level)))
            elif g.indent_level != 0:
                problems.append((k, "after a successful visit the reused CGenerator is left at indent_level=%r (a fresh one is at 0): the next visit will differ" % g.indent_level))
                g = CGenerator()
            else:
                why = generator_history(g, used[1], k)
                if why:
                    problems.append((k, why))
                    g = CGenerator()
    return problems


def _visit_outcome(gen, node):
    try:
        return ("OK", gen.visit(node))
    except RecursionError:
        return ("FUEL",)
    except Exception as e:  # noqa
        return ("EXC", type(e).__name__)


def generator_history(g, ast, k):
    """what a generator prints for a node depends on the node only, not on what the same generator
    printed before: after the whole tree, sub-trees visited on their own (they were reached at another
    indentation before) and the tree again after an edit must come out as from a fresh generator"""
    import copy
    from pycparser import c_ast
    from pycparser.c_generator import CGenerator
    nodes = []

    def walk(n, depth):
        if depth > 60:
            return
        nodes.append(n)
        for _, c in n.children():
            walk(c, depth + 1)
    walk(ast, 0)
    step = max(1, len(nodes) // 25)
    for sub in nodes[1::step]:
        a = _visit_outcome(g, sub)
        b = _visit_outcome(CGenerator(), sub)
        if a[0] == "FUEL" or b[0] == "FUEL":
            continue
        g.indent_level = 0          # a failed visit may leave the level anywhere; that is not what is tested here
        if a != b:
            return "call %d: a %s node visited on its own after the whole tree prints differently with the generator that printed the tree: %r vs %r (fresh)" % (k, type(sub).__name__, a[-1][:60], b[-1][:60])
    # edit the tree in place, visit again
    edited = False
    for n in nodes:
        if isinstance(n, (c_ast.Struct, c_ast.Union)) and n.decls:
            extra = copy.deepcopy(n.decls[0])
            n.decls.append(extra)
            edited = True
            break
        if isinstance(n, c_ast.Enum) and n.values is not None and n.values.enumerators:
            n.values.enumerators.append(c_ast.Enumerator("ADDED_LATER", None))
            edited = True
            break
    if not edited:
        for n in nodes:
            if isinstance(n, c_ast.Compound) and n.block_items:
                n.block_items.append(c_ast.EmptyStatement())
                edited = True
                break
    if edited:
        a = _visit_outcome(g, ast)
        b = _visit_outcome(CGenerator(), ast)
        if a[0] != "FUEL" and b[0] != "FUEL" and a != b:
            return "call %d: after the tree was edited in place the generator that printed it before prints something else than a fresh one" % k
    return None


def lexer_reuse(args):
    texts, = args
    from ..pylex import py_scan
    from pycparser.c_lexer import CLexer
    problems = []
    errs = []
    lx = CLexer(lambda m, l, c: errs.append((m, l, c)), lambda: None, lambda: None, lambda n: False)
    import random
    rng = random.Random(len(texts))
    for k, t in enumerate(texts):
        lx.input(t, "f.c")
        got = []
        del errs[:]
        n = rng.randrange(0, 40)         # abandon the input after n tokens
        for _ in range(n):
            tok = lx.token()
            if tok is None:
                break
            got.append((tok.type, tok.value, tok.lineno, tok.column))
        errs_used = list(errs)
        fresh = CLexer(lambda m, l, c: errs.append((m, l, c)), lambda: None, lambda: None, lambda n: False)
        fresh.input(t, "f.c")
        want = []
        del errs[:]
        for _ in range(n):
            tok = fresh.token()
            if tok is None:
                break
            want.append((tok.type, tok.value, tok.lineno, tok.column))
        if got != want or errs_used != list(errs):
            problems.append((k, "a reused CLexer differs from a fresh one after input() at call %d" % k))
    return problems


def run(ctx):
    rng = ctx.rng("seq")
    pool = [t for t in progs.pool(ctx, scale=0.2) if len(t) < 2500]
    # failing variants: truncate accepted programs at arbitrary tokens (often inside open scopes)
    failing = []
    for t in pool[:: max(1, len(pool) // 400)]:
        toks = [v for _, v in corpus.lex_tokens(t)]
        if len(toks) > 2:
            failing.append(" ".join(toks[: rng.randrange(1, len(toks))]))
    items = pool + failing + CLASH * 20
    nseq = 150 if ctx.quick() else 3000
    seqs = [([rng.choice(items) for _ in range(rng.choice([2, 3, 5, 8, 12]))],) for _ in range(nseq)]
    # always include: same text twice, clash sequences in order
    setups = _setups()
    for a in setups:
        seqs.append(([a] + PROBES,))                      # every probe right after the setup? no: see below
    for a in setups:
        for pr in PROBES:
            seqs.append(([a, pr],))
    for a in rng.sample(setups, 12 if ctx.quick() else len(setups)):
        for b in rng.sample(setups, 6 if ctx.quick() else 30):
            seqs.append(([a, b] + rng.sample(PROBES, 4),))
    for a in GEN_STATE:                       # each generator-state probe, followed by programs whose text shows the indent
        seqs.append(([a, "struct V { int a; struct { int b; } c; }; void g(void) { if (1) { x = 1; } }", a, pool[0]],))
    # parses abandoned exactly at a directive (a syntax error just in front of a #pragma line with text, a
    # pragma where no rule takes one, an error on a #line line), then ordinary programs: whatever the
    # lexer had ready for the next call must be gone
    ABANDON = ["int x\n#pragma pack(1)\n", "int a[] = {\n#pragma GCC diagnostic push\n 1, 2 };", "struct S { int a\n#pragma pack(2)\n };",
               "int f(int a,\n#pragma omp x y z\n int b);", "int q = 1 +\n#pragma p q\n 2;", "int w\n#line 7 \"o.c\"\n@", "int v = (\n#pragma one\n#pragma two three\n"]
    FOLLOW = ["int y;", "typedef int T; T x;", "void g(void) { y = 1; }", "#pragma last\nint z;"]
    for a in ABANDON:
        for f in FOLLOW:
            seqs.append(([a, f],))
        seqs.append(([a, a, FOLLOW[0], a, FOLLOW[1]],))
    # the same directive text under different file names (the file name of call k is f<k mod 3>.c): what a
    # directive without a file name means depends on the parse it stands in, not on an earlier one
    BARE = ["int a;\n#line 7\nint b;\n", "# 9\nint c;", "int d;\n# 1 \"inc.h\"\nint e;\n#line 7\nint f;\n", "#line 7\nint g = @;"]
    seqs.append((BARE + BARE + BARE[:2],))
    seqs.append(([BARE[2], BARE[0], BARE[0], BARE[3], BARE[1], BARE[3]],))
    seqs.append((GEN_STATE + GEN_STATE,))
    seqs.append((CLASH + CLASH,))
    seqs.append(([pool[0], pool[0], CLASH[3], pool[0]],))
    ctx.rule("%d sequences of 2-16 parse calls on one CParser instance (systematic: 6 file-scope declarations of a name x 15 continuations that succeed or fail at nesting depth 0-3 / inside a struct, for-init, initializer, switch, pragma, after a linemarker, each followed by each of 15 probes whose parse depends on what the name is; pairs of such setups; 19 generator-state probes (empty / nested struct, union, enum bodies, empty blocks and switches, pragmas) each followed by programs whose text shows the indentation; 7 programs abandoned exactly at a directive x 4 ordinary programs after them; random: valid programs of the pool, programs truncated at arbitrary tokens - leaving scopes open -, programs with clashing typedef/variable names, linemarkers, lexer errors), each call compared (AST incl. coordinates, or exception message) with a fresh instance; ASTs of different calls must share no node object; the same CGenerator instance is reused across the successful calls, then for sub-trees visited on their own and for the tree again after an edit in place; a CLexer is reused through input() after being abandoned mid-stream" % len(seqs))
    res = pmap(run_sequence, seqs)
    for (texts,), probs in zip(seqs, res):
        for k, why in probs:
            ctx.violation(why, {"kind": "sequence", "texts": texts[: k + 1]})
    res2 = pmap(lexer_reuse, seqs)
    for (texts,), probs in zip(seqs, res2):
        for k, why in probs:
            ctx.violation(why, {"kind": "lexer-sequence", "texts": texts[: k + 1]})
    ncalls = sum(len(s[0]) for s in seqs)
    ctx.count(2 * ncalls, nontrivial_keys={"\x00".join(s[0]) for s in seqs})
    ctx.sample({"kind": "sequence", "texts": [t[:80] for t in seqs[0][0]]})


def replay(ctx, payload):
    i = payload["input"]
    fn = run_sequence if i["kind"] == "sequence" else lexer_reuse
    probs = fn((i["texts"],))
    print(probs)
    return not probs


def replay_finding(ctx, f):
    return still_fails(f["witness"])
