"""C01 — every valid C99 / supported-C11 translation unit is accepted."""
import subprocess, re

from ..common import pmap, run_model
from ..pyparse import py_parse_obj, parse_req
from ..findings import still_fails
from .. import speccases as S
from .. import progs, features

ID = "C01"
LEAN_MODULES = ["PycModel.Properties.C01"]
NAMESPACES = ["PycModel.C01", "PycModel.Tables", "PycModel.C09", "PycModel.FullExpr", "PycModel.TypeName", "PycModel.StmtSkel", "PycModel.DeclParse", "PycModel.BuildDecl", "PycModel.TransUnit", "PycModel.Params"]
REQUIRED_THEOREMS = ["PycModel.C01.wellformed_translation_units_are_accepted", "PycModel.TransUnit.parse_translation_unit", "PycModel.TransUnit.tu_loop", "PycModel.TransUnit.funcDef_ok", "PycModel.TransUnit.funcDefP_ok", "PycModel.Params.fdeclarator_ok", "PycModel.Params.functionDeclP_ok", "PycModel.Params.param_ok", "PycModel.Params.params_loop", "PycModel.Params.registerParams_ok", "PycModel.TransUnit.extDcl_ok", "PycModel.TransUnit.compound_ok", "PycModel.StmtSkel.slok_consD", "PycModel.StmtSkel.sok_forD", "PycModel.StmtSkel.all_sl", "PycModel.DeclParse.parse_declaration", "PycModel.C09.impl_keywords", "PycModel.C09.impl_punctuators", "PycModel.Tables.model_decl_start",
                     "PycModel.Tables.model_starts_expression", "PycModel.Tables.model_starts_statement",
                     "PycModel.C01.wellformed_expressions_are_accepted", "PycModel.C01.wellformed_statements_are_accepted"]
LEVEL = "proof"
TRUSTED = ["validity of the generated programs: they are renderings of the Lean specifications of C99 6.5 / 6.7.5 / 6.8 (Spec/*.lean); the hand-written feature list is validated with gcc -fsyntax-only -pedantic-errors"]
ASSUMPTIONS = ["acceptance theorem for all derivable translation units (C01.Full) is not proved; proved for inputs of any size: acceptance of every expression above type names and of every statement without declarations (C01.wellformed_*_are_accepted); kernel-checked besides: the vocabulary / FIRST-set obligations"]


def accepts(text):
    r = py_parse_obj(text, "f.c")
    if r[0] == "OK":
        return None
    return r[1] if r[0] == "PE" else "%s" % (r[0],)


def gcc_ok(text):
    for std in ("c11",):
        try:
            p = subprocess.run(["gcc", "-fsyntax-only", "-std=" + std, "-pedantic-errors", "-w", "-x", "c", "-"],
                               input=text.encode(), stdout=subprocess.PIPE, stderr=subprocess.PIPE, timeout=20)
        except (OSError, subprocess.TimeoutExpired):
            return None
        if p.returncode != 0:
            return False
    return True


def classify(replay):
    t = replay.get("text", "")
    if re.search(r"\)\s*\{[^;]*\}\s*(\+\+|--|\.|->|\[|\()", t) and re.search(r"\(\s*(struct|int|char|long|unsigned|T\b)", t):
        return "F-postfix-after-compound-literal"
    if re.search(r"sizeof\s*\(\s*[^()]*\)\s*\{", t):
        return "F-sizeof-compound-literal"
    if re.search(r"(struct|union)\s*\w*\s*\{[^}]*_Static_assert", t):
        return "F-static-assert-in-struct"
    if re.search(r"(L|u8|u|U)\"[^\"]*\"\s*\"|\"[^\"]*\"\s*(L|u8|u|U)\"", t):
        return "F-mixed-prefix-string-concat"
    if re.search(r"'[^'\\\\]{5,}'", t):
        return "F-long-multichar"
    return None


def run(ctx):
    texts = progs.pool(ctx, with_corpus=False)
    ctx.rule(progs.RULE.replace(", plus the accepted programs of the repository corpus", "") + "; plus %d hand-written one-feature C99/C11 programs validated with gcc -std=c11 -pedantic-errors; a program counts when the specification says it is valid C" % len(features.PROGRAMS))
    res = pmap(accepts, texts)
    md = run_model([parse_req(t, "f.c") for t in texts]) if ctx.model_available else None
    for i, (t, r) in enumerate(zip(texts, res)):
        if r is not None:
            ctx.violation("valid C (rendered from the Lean grammar spec) rejected: %s on %r" % (r, t[:140]), {"kind": "text", "text": t}, classify)
        elif md is not None and not md[i].startswith("OK"):
            ctx.violation("Lean parser model rejects a program the real parser accepts: %r" % t[:140], {"kind": "text", "text": t}, classify)
    ctx.count(len(texts), nontrivial_keys=texts)
    drift = 0
    for t in features.PROGRAMS:
        g = gcc_ok(t)
        if g is False:
            print("SPEC-DRIFT: gcc rejects feature program %r" % t[:80])
            drift += 1
            continue
        r = accepts(t)
        if r is not None:
            ctx.violation("valid C11 feature program rejected: %s on %r" % (r, t[:140]), {"kind": "text", "text": t}, classify)
    ctx.count(len(features.PROGRAMS), nontrivial_keys=features.PROGRAMS)
    ctx.extra["gcc_spec_drift"] = drift
    # translation units generated over the inductive types of TransUnit.parse_translation_unit; the expected
    # FileAST is the right-hand side of that theorem (a function of the grammar tree, no parser involved):
    # the real parser must accept them AND return exactly that tree (and so must the model)
    if ctx.model_available:
        tu = S.fetch([("c01", "tu", str(ctx.seed), "400" if ctx.quick() else "8000", "2", "3"),
                      ("c01", "tu", str(ctx.seed + 5), "100" if ctx.quick() else "2000", "3", "4")])
        ctx.rule("random translation units over the inductive types of the theorem C01.wellformed_translation_units_are_accepted (file-scope declarations, function definitions with and without prototype parameter lists, bodies mixing declarations and statements of depth <= 3, expressions of depth <= 3): the real parser must return exactly the FileAST on the theorem's right-hand side")
        S.check_against_spec(ctx, tu, "C01-translation-unit")
    ctx.sample({"kind": "feature-program", "text": features.PROGRAMS[7]})
    ctx.sample({"kind": "spec-rendered", "text": texts[len(texts) // 2]})


def replay(ctx, payload):
    if payload["input"].get("kind") == "spec":
        return S.replay_spec(ctx, payload)
    r = accepts(payload["input"]["text"])
    print("real parser:", "accepted" if r is None else r)
    return r is None


def replay_finding(ctx, f):
    return still_fails(f["witness"])
