"""C03 — declaration ASTs encode C declarator semantics for every declared name.

Spec oracle: Lean `Spec/Decl.lean` — declarator syntax, C99 6.7.5 inside-out denotation, documented
AST; derivation sequences are enumerated exhaustively (small alphabet, length <= 3 quick / 4
thorough) in 11 declaration contexts with rotating base specifiers, and sampled over the full alphabet.
"""
from .. import speccases as S
from ..findings import still_fails

ID = "C03"
LEAN_MODULES = ["PycModel.Properties.C03"]
NAMESPACES = ["PycModel.C03", "PycModel.Tables", "PycModel.TypeModify", "PycModel.DeclSkel", "PycModel.BuildDecl", "PycModel.DeclParse", "PycModel.Init", "PycModel.View"]
REQUIRED_THEOREMS = ["PycModel.C03.declarations_parse_as_the_grammar_says", "PycModel.C03.one_decl_per_declared_name", "PycModel.Init.init_ok", "PycModel.DeclParse.parse_declaration", "PycModel.DeclParse.parse_declBody", "PycModel.DeclParse.specs_loop", "PycModel.DeclParse.anyDeclarator_ok", "PycModel.DeclParse.initDeclarator_ok", "PycModel.DeclParse.initList_loop", "PycModel.BuildDecl.buildDeclarations_ok", "PycModel.BuildDecl.fixDeclNameType_ok", "PycModel.BuildDecl.fixAtomicSpecifiers_noop", "PycModel.View.reset_to", "PycModel.View.addIdentifier_spec", "PycModel.C03.denote_ofDerivs", "PycModel.C03.ident_ofDerivs", "PycModel.C03.type_modify_appends", "PycModel.C03.declarators_are_read_inside_out", "PycModel.C03.chain_is_denote", "PycModel.TypeModify.typeModify_chain", "PycModel.DeclSkel.parse_declarator", "PycModel.DeclSkel.all_d", "PycModel.DeclSkel.pointer_ok", "PycModel.DeclSkel.suffix_arr", "PycModel.DeclSkel.suffix_fn0",
                     "PycModel.Tables.model_decl_start", "PycModel.Tables.model_type_qualifier",
                     "PycModel.Tables.model_storage_class", "PycModel.Tables.model_type_spec_simple"]
LEVEL = "proof"
TRUSTED = ["Spec/Decl.lean: our reading of C99 6.7.5 and of the documented AST shapes"]
ASSUMPTIONS = ["proved for the parser model, any size: _type_modify_decl appends chains; named declarators of pointers(+qualifiers) / array suffixes with optional bound / empty function suffixes / parentheses parse to the chain denote prescribes (C03.declarators_are_read_inside_out, chain_is_denote). Not a theorem: parameter lists, abstract declarators, static/qualifiers/* in brackets, and the declaration around the declarator - those rest on the exhaustive comparison"]


def gen_multi(rng):
    """a declaration / member list with several declarators, each with its own derivations, bit-field
    width or initializer; returns (text, context, expected list of (name, chain, bitsize, init))"""
    ctxk = rng.choice(["file", "member", "block", "typedef"])
    base = rng.choice(["int", "unsigned", "long", "char"])
    n = rng.choice([2, 2, 3, 4, 5])
    parts, want = [], []
    for i in range(n):
        nm = "v%d" % i
        ptr = rng.choice([0, 0, 1, 2])
        dims = [rng.randrange(1, 9) for _ in range(rng.choice([0, 0, 1, 2]))]
        bits = init = None
        if ctxk == "member" and ptr == 0 and not dims and rng.random() < 0.6:
            bits = rng.randrange(0 if rng.random() < 0.2 else 1, 9)
            if bits == 0:
                nm = None
        elif ctxk in ("file", "block") and not dims and rng.random() < 0.5:
            init = rng.randrange(0, 99)
        d = "*" * ptr + (nm or "") + "".join("[%d]" % k for k in dims)
        if bits is not None:
            d += " : %d" % bits
        if init is not None:
            d += " = %d" % init
        parts.append(d)
        want.append((nm, ["Ptr"] * 0 + ["Array:%d" % k for k in dims] + ["Ptr"] * ptr, None if bits is None else str(bits), None if init is None else str(init)))
    decl = ("typedef " if ctxk == "typedef" else "") + base + " " + ", ".join(parts) + ";"
    text = {"file": decl, "typedef": decl, "member": "struct S { %s };" % decl, "block": "void f(void) { %s }" % decl}[ctxk]
    return text, ctxk, want


def observe_multi(args):
    text, ctxk = args
    from ..pyparse import py_parse_obj
    r = py_parse_obj(text, "f.c")
    if r[0] != "OK":
        return "REJECT:" + str(r[1])[:80]
    ast = r[1]
    if ctxk == "member":
        decls = ast.ext[0].type.decls
    elif ctxk == "block":
        decls = ast.ext[0].body.block_items
    else:
        decls = ast.ext
    out = []
    for d in decls:
        chain, t = [], d.type
        while type(t).__name__ != "TypeDecl":
            if type(t).__name__ == "PtrDecl":
                chain.append("Ptr")
            elif type(t).__name__ == "ArrayDecl":
                chain.append("Array:%s" % getattr(t.dim, "value", "?"))
            else:
                chain.append(type(t).__name__)
            t = t.type
        bits = getattr(d, "bitsize", None)
        init = getattr(d, "init", None)
        out.append((d.name, chain, None if bits is None else bits.value, None if init is None else init.value, t.declname))
    return out


def run(ctx):
    rng = ctx.rng("multi")
    cases_m = [gen_multi(rng) for _ in range(600 if ctx.quick() else 12000)]
    obs = [observe_multi((t, k)) for t, k, _ in cases_m]
    ctx.rule("%d declarations / member lists / typedefs with 2-5 declarators sharing one specifier list, each declarator with its own pointer levels, array bounds, bit-field width (incl. unnamed ':0') or initializer: every declared entity must carry exactly its own name, derivations (outermost first: arrays of pointers), width and initializer" % len(cases_m))
    for (text, ctxk, want), got in zip(cases_m, obs):
        exp = [(nm, ch, b, i, nm) for nm, ch, b, i in want]
        if got != exp:
            ctx.violation("declarators sharing a specifier list: got %r, expected %r for %r" % (got, exp, text), {"kind": "multi", "text": text, "ctx": ctxk, "want": [list(w) for w in want]})
    ctx.count(len(cases_m), nontrivial_keys={t for t, _, _ in cases_m})
    reqs = [("c03", "enum", "0", "0", "10"), ("c03", "enum", "1", "0", "100"), ("c03", "enum", "2", "0", "1000"),
            ("c03", "enum", "3", "0", "1000")]
    if not ctx.quick():
        reqs.append(("c03", "enum", "4", "0", "5000"))
    reqs.append(("c03", "rand", str(ctx.seed), "4000" if ctx.quick() else "80000", "7"))
    reqs.append(("c03", "specs", str(ctx.seed), "2500" if ctx.quick() else "50000"))
    cases = S.fetch(reqs)
    ctx.rule("all derivation sequences of length <=%d over {*, * const, [], [3], [*], (), (int a, char *b), (a, b)} x 11 contexts (file, typedef, block, parameter, member, for-init, cast, sizeof, _Alignof, compound literal, multi-declarator) with rotating base specifiers (exhaustive, Lean enumerator) + random sequences up to length 7 over the full alphabet (3 pointer-qualifier sets, 9 array forms, 6 parameter forms); + declaration specifiers (storage class, function specifier, qualifiers, multi-keyword type specifiers) in every order; distinct by text" % (3 if ctx.quick() else 4))
    S.check_against_spec(ctx, cases, "C03")


def replay(ctx, payload):
    if payload["input"].get("kind") == "multi":
        i = payload["input"]
        got = observe_multi((i["text"], i["ctx"]))
        exp = [(w[0], w[1], w[2], w[3], w[0]) for w in i["want"]]
        print(got)
        return got == exp
    if payload["input"].get("finding"):
        return not still_fails(payload["input"]["witness"])
    return S.replay_spec(ctx, payload)


def replay_finding(ctx, f):
    return still_fails(f["witness"])
