"""C03 — declaration ASTs encode C declarator semantics for every declared name.

Spec oracle: Lean `Spec/Decl.lean` — declarator syntax, C99 6.7.5 inside-out denotation, documented
AST; derivation sequences are enumerated exhaustively (small alphabet, length <= 3 quick / 4
thorough) in 11 declaration contexts with rotating base specifiers, and sampled over the full alphabet.
"""
from .. import speccases as S
from ..findings import still_fails

ID = "C03"
LEAN_MODULES = ["PycModel.Properties.C03"]
NAMESPACES = ["PycModel.C03", "PycModel.Tables"]
REQUIRED_THEOREMS = ["PycModel.C03.denote_ofDerivs", "PycModel.C03.ident_ofDerivs",
                     "PycModel.Tables.model_decl_start", "PycModel.Tables.model_type_qualifier",
                     "PycModel.Tables.model_storage_class", "PycModel.Tables.model_type_spec_simple"]
LEVEL = "proof"
TRUSTED = ["Spec/Decl.lean: our reading of C99 6.7.5 and of the documented AST shapes"]
ASSUMPTIONS = ["the theorem that the *parser model* returns chainVal(denote D) for all D is not yet proved; the universal part proved so far is about the specification (every derivation list is denoted, names and redundant parentheses) and the tables"]


def run(ctx):
    reqs = [("c03", "enum", "0", "0", "10"), ("c03", "enum", "1", "0", "100"), ("c03", "enum", "2", "0", "1000"),
            ("c03", "enum", "3", "0", "1000")]
    if not ctx.quick():
        reqs.append(("c03", "enum", "4", "0", "5000"))
    reqs.append(("c03", "rand", str(ctx.seed), "4000" if ctx.quick() else "80000", "7"))
    reqs.append(("c03", "specs", str(ctx.seed), "2500" if ctx.quick() else "50000"))
    cases = S.fetch(reqs)
    ctx.rule("all derivation sequences of length <=%d over {*, * const, [], [3], [*], (), (int a, char *b), (a, b)} x 11 contexts (file, typedef, block, parameter, member, for-init, cast, sizeof, _Alignof, compound literal, multi-declarator) with rotating base specifiers (exhaustive, Lean enumerator) + random sequences up to length 7 over the full alphabet (3 pointer-qualifier sets, 9 array forms, 6 parameter forms); + declaration specifiers (storage class, function specifier, qualifiers, multi-keyword type specifiers) in every order; distinct by text" % (3 if ctx.quick() else 4))
    S.check_against_spec(ctx, cases, "C03")


def replay(ctx, payload):
    if payload["input"].get("finding"):
        return not still_fails(payload["input"]["witness"])
    return S.replay_spec(ctx, payload)


def replay_finding(ctx, f):
    return still_fails(f["witness"])
