"""C14 — node classes and tree traversal conform to the declarative AST specification."""
import io

from ..common import pmap, run_model, req
from ..pyparse import py_parse_obj
from ..findings import still_fails
from .. import progs

ID = "C14"
LEAN_MODULES = ["PycModel.Properties.C14"]
NAMESPACES = ["PycModel.C14"]
REQUIRED_THEOREMS = ["PycModel.C14.impl_classes", "PycModel.C14.impl_cfg", "PycModel.C14.impl_astgen", "PycModel.C14.impl_children",
                     "PycModel.C14.visit_once", "PycModel.C14.show_one_line_per_node",
                     "PycModel.C14.visitWith_intercepts_only", "PycModel.C14.visitWith_generic_never_X"]
LEVEL = "proof"
TRUSTED = ["tools/extract.py observes the live classes with sentinel values (every subset of absent children) and dumps the observations; the kernel compares them with the generic model"]
ASSUMPTIONS = []

OVERRIDE = ["BinaryOp", "Decl", "Compound"]


def observe(text):
    from pycparser import c_ast
    r = py_parse_obj(text, "")
    if r[0] != "OK":
        return None
    ast = r[1]

    # independent node count: walk __slots__ of every object
    def count(n):
        k = 1
        for _, c in n.children():
            k += count(c)
        return k

    trace = []

    class V(c_ast.NodeVisitor):
        def generic_visit(self, node):
            trace.append(type(node).__name__)
            c_ast.NodeVisitor.generic_visit(self, node)

    V().visit(ast)
    hits = {"x": 0, "g": 0}

    class W(c_ast.NodeVisitor):
        def generic_visit(self, node):
            hits["g"] += 1
            c_ast.NodeVisitor.generic_visit(self, node)

    for cls in OVERRIDE:
        def mk(name):
            def visit_X(self, node):
                assert type(node).__name__ == name
                hits["x"] += 1
            return visit_X
        setattr(W, "visit_" + cls, mk(cls))
    W().visit(ast)
    # what a visit_X method returns must not influence the traversal: methods that return truthy /
    # falsy values of several kinds, on leaf classes and (calling generic_visit themselves) on inner ones
    retproblem = None
    want = {}

    def walk(n):
        want[type(n).__name__] = want.get(type(n).__name__, 0) + 1
        for _, c in n.children():
            walk(c)

    walk(ast)
    for values in ([True, 1, "x", [0], 2.5], [None, 0, "", [], False], [True, None, "v", 0, object()]):
        got = {}

        class RV(c_ast.NodeVisitor):
            pass

        def mkr(name, inner):
            def visit_X(self, node):
                got[name] = got.get(name, 0) + 1
                if inner:
                    self.generic_visit(node)
                v = values[(got[name] + len(name)) % len(values)]
                return node if v is True else v
            return visit_X
        for name, inner in (("ID", False), ("Constant", False), ("IdentifierType", False), ("Decl", True), ("BinaryOp", True), ("Return", True)):
            setattr(RV, "visit_" + name, mkr(name, inner))
        RV().visit(ast)
        exp = {k: want[k] for k in ("ID", "Constant", "IdentifierType", "Decl", "BinaryOp", "Return") if k in want}
        if got != exp:
            retproblem = "visitor whose visit_X methods return values %r intercepted %r, the tree has %r" % (values, got, exp)
            break
    buf = io.StringIO()
    ast.show(buf=buf)
    lines = buf.getvalue().count("\n")
    from ..pyparse import dump
    return ("OK\t%d\t%s\t%d\t%d\t%d" % (count(ast), " ".join(trace), lines, hits["x"], hits["g"]), dump(ast, False), retproblem)


def show_history(text):
    """show() must print the receiver's tree, whatever show() calls came before it: calls that failed
    half-way (the stream raised at the k-th write), calls with other options, a show() of another tree
    made from inside the stream's write()"""
    import io
    r1 = py_parse_obj(text, "")
    r2 = py_parse_obj("int other = 1; char tab[3];", "")
    if r1[0] != "OK" or r2[0] != "OK":
        return None
    a, b = r1[1], r2[1]

    def shown(tree, **kw):
        buf = io.StringIO()
        tree.show(buf=buf, **kw)
        return buf.getvalue()
    ref_a, ref_b = shown(a), shown(b)
    ref_ac = shown(a, attrnames=True, nodenames=True, showcoord=True)
    if shown(a) != ref_a or shown(b) != ref_b:
        return ["show() of an unchanged tree differs between two calls"]
    bad = []

    class Failing(io.StringIO):
        def __init__(self, k):
            io.StringIO.__init__(self)
            self.k = k

        def write(self, x):
            if self.k <= 0:
                raise OSError("stream closed")
            self.k -= 1
            return io.StringIO.write(self, x)
    for k in (0, 1, 2, 5):
        try:
            a.show(buf=Failing(k))
        except OSError:
            pass
        got = shown(b)
        if got != ref_b:
            bad.append("after a show() that failed at write %d of another tree, show() printed %d lines instead of %d" % (k, got.count("\n"), ref_b.count("\n")))
            break
        if shown(a, attrnames=True, nodenames=True, showcoord=True) != ref_ac or shown(a) != ref_a:
            bad.append("show() output depends on the options of an earlier call / on a failed earlier call (k=%d)" % k)
            break

    class Reentrant(io.StringIO):
        inner = None
        done = False

        def write(self, x):
            if not self.done:
                self.done = True
                self.inner = shown(b)
            return io.StringIO.write(self, x)
    re_buf = Reentrant()
    try:
        a.show(buf=re_buf)
        if re_buf.inner != ref_b or re_buf.getvalue() != ref_a:
            bad.append("a show() of another tree made while a show() is writing changes what either prints")
    except Exception as e:  # noqa
        bad.append("re-entrant show() raised %r" % e)
    return bad


def instance_handlers(text):
    """a visit_X handler intercepts the nodes of class X however it came to be an attribute of the
    visitor: defined in the class body, bound on the instance in __init__, attached later with
    types.MethodType, or supplied by __getattr__; an instance-level generic_visit is used too"""
    import types
    from pycparser import c_ast
    r = py_parse_obj(text, "")
    if r[0] != "OK":
        return None
    ast = r[1]
    want = {}

    def walk(n):
        want[type(n).__name__] = want.get(type(n).__name__, 0) + 1
        for _, c in n.children():
            walk(c)
    try:
        walk(ast)
    except RecursionError:
        return None
    names = [k for k in ("ID", "Constant", "Decl", "BinaryOp", "TypeDecl", "IdentifierType") if k in want]
    if not names:
        return None
    bad = []

    def check(label, got):
        exp = {k: want[k] for k in names}
        if got != exp:
            bad.append("visitor whose visit_X handlers are %s intercepted %r, the tree has %r" % (label, got, exp))

    class InInit(c_ast.NodeVisitor):
        def __init__(self):
            self.got = {}
            for k in names:
                setattr(self, "visit_" + k, self._collect)

        def _collect(self, node):
            k = type(node).__name__
            self.got[k] = self.got.get(k, 0) + 1
            self.generic_visit(node)
    v = InInit()
    v.visit(ast)
    check("bound on the instance in __init__", v.got)

    class Plain(c_ast.NodeVisitor):
        pass
    v2 = Plain()
    got2 = {}

    def handler(self, node):
        k = type(node).__name__
        got2[k] = got2.get(k, 0) + 1
        self.generic_visit(node)
    for k in names:
        setattr(v2, "visit_" + k, types.MethodType(handler, v2))
    v2.visit(ast)
    check("attached to the instance with types.MethodType", got2)

    class ViaGetattr(c_ast.NodeVisitor):
        def __init__(self):
            self.got = {}

        def __getattr__(self, name):
            if name.startswith("visit_") and name[6:] in names:
                def h(node, _k=name[6:]):
                    self.got[_k] = self.got.get(_k, 0) + 1
                    self.generic_visit(node)
                return h
            raise AttributeError(name)
    v3 = ViaGetattr()
    v3.visit(ast)
    check("supplied by __getattr__", v3.got)
    # an instance-level generic_visit
    v4 = Plain()
    seen = []

    def gv(self, node):
        seen.append(type(node).__name__)
        for _, c in node.children():
            self.visit(c)
    v4.generic_visit = types.MethodType(gv, v4)
    v4.visit(ast)
    if len(seen) != sum(want.values()):
        bad.append("an instance-level generic_visit saw %d nodes of %d" % (len(seen), sum(want.values())))
    return bad


def handler_after_use(text):
    """a visit_X handler that the visitor acquires after it has already been used (set on the instance or
    on its class) intercepts the nodes of class X from then on - what a visitor does depends on the
    handlers it has now, not on what it visited before"""
    import types
    from pycparser import c_ast
    r = py_parse_obj(text, "")
    if r[0] != "OK":
        return None
    ast = r[1]
    n_id = [0]

    def walk(n):
        if type(n).__name__ == "ID":
            n_id[0] += 1
        for _, c in n.children():
            walk(c)
    try:
        walk(ast)
    except RecursionError:
        return None
    if not n_id[0]:
        return None
    bad = []
    for level in ("instance", "class"):
        class Late(c_ast.NodeVisitor):
            pass
        v = Late()
        v.visit(ast)
        hits = []

        def h(self, node):
            hits.append(node.name)
        if level == "instance":
            v.visit_ID = types.MethodType(h, v)
        else:
            Late.visit_ID = h
        v.visit(ast)
        if len(hits) != n_id[0]:
            bad.append("a visit_ID handler set on the %s after the visitor's first use intercepted %d of %d ID nodes" % (level, len(hits), n_id[0]))
    return bad


def visitor_history(text):
    """visitor classes related by inheritance, used one after the other on the same AST: what a visit_X
    method intercepts must depend only on the class of the visitor, not on which visitors ran before"""
    from pycparser import c_ast
    r = py_parse_obj(text, "")
    if r[0] != "OK":
        return None
    ast = r[1]
    want = {}

    def walk(n):
        want[type(n).__name__] = want.get(type(n).__name__, 0) + 1
        for _, c in n.children():
            walk(c)

    walk(ast)

    def mkcls(base, names):
        ns = {"__init__": lambda self: setattr(self, "hits", {})}
        for nm in names:
            def visit_X(self, node, nm=nm):
                assert type(node).__name__ == nm
                self.hits[nm] = self.hits.get(nm, 0) + 1
                self.generic_visit(node)
            ns["visit_" + nm] = visit_X
        return type("V_" + "_".join(names), (base,), ns)

    problems = []
    for order in (["A", "B", "A", "C", "B"], ["C", "B", "A"], ["B", "A"]):
        A = mkcls(c_ast.NodeVisitor, ["ID"])
        B = mkcls(A, ["Constant"])
        C = mkcls(B, ["BinaryOp", "ID"])
        classes = {"A": (A, ["ID"]), "B": (B, ["ID", "Constant"]), "C": (C, ["ID", "Constant", "BinaryOp"])}
        for step, key in enumerate(order):
            cls, names = classes[key]
            v = cls()
            v.visit(ast)
            exp = {nm: want[nm] for nm in names if nm in want}
            if v.hits != exp:
                problems.append("visitor class %s (methods %s) used as step %d of %s intercepted %r, expected %r" % (key, names, step, order, v.hits, exp))
    # a copy of a used visitor is a visitor of its own: its visit_X methods intercept for the copy, not for the original
    import copy
    for how in (copy.copy, copy.deepcopy):
        A = mkcls(c_ast.NodeVisitor, ["ID", "Constant"])
        v = A()
        v.visit(ast)
        exp = {nm: want[nm] for nm in ("ID", "Constant") if nm in want}
        w = how(v)
        w.hits = {}
        w.visit(ast)
        if w.hits != exp or v.hits != exp:
            problems.append("%s of a used visitor: the copy intercepted %r and the original now has %r, expected %r for both" % (how.__name__, w.hits, v.hits, exp))
    return problems


def cfg_classes():
    """_c_ast.cfg read independently of _ast_gen.py: [(class, [(field, kind)])], kind in attr/child/seq"""
    import os, re
    import pycparser
    out = []
    for line in open(os.path.join(os.path.dirname(pycparser.__file__), "_c_ast.cfg")):
        line = line.split("#")[0].strip()
        m = re.match(r"^(\w+)\s*:\s*\[(.*)\]$", line)
        if not m:
            continue
        fields = []
        for f in [x.strip() for x in m.group(2).split(",") if x.strip()]:
            if f.endswith("**"):
                fields.append((f[:-2], "seq"))
            elif f.endswith("*"):
                fields.append((f[:-1], "child"))
            else:
                fields.append((f, "attr"))
        out.append((m.group(1), fields))
    return out


def class_case(name, fields, present):
    """the property's class-level clause on ONE class and ONE set of present node-valued fields;
    returns None or a description of the deviation"""
    from pycparser import c_ast

    class S(c_ast.Node):
        __slots__ = ("tag", "coord", "__weakref__")

        def __init__(self, tag):
            self.tag = tag
            self.coord = None

        def children(self):
            return ()

    cls = getattr(c_ast, name, None)
    if cls is None:
        return "class %s does not exist" % name
    args, expect = [], []
    objs = {}
    for f, k in fields:
        if k == "attr":
            args.append("A_" + f)
        elif f in present:
            objs[f] = S(f) if k == "child" else [S(f + "0"), S(f + "1"), S(f + "2")]
            args.append(objs[f])
        else:
            args.append(None)
    for f, k in fields:
        if k == "child" and f in present:
            expect.append((f, objs[f]))
    for f, k in fields:
        if k == "seq" and f in present:
            expect += [("%s[%d]" % (f, i), o) for i, o in enumerate(objs[f])]
    co = object()
    try:
        inst = cls(*(args + [co]))            # positional: fields in cfg order, then coord
    except Exception as e:
        return "constructor does not accept the cfg's fields positionally followed by coord: %r" % e
    if inst.coord is not co:
        return "last positional argument is not coord"
    for (f, k), a in zip(fields, args):
        if getattr(inst, f, co) is not a:
            return "field %s does not hold the argument given in its cfg position" % f
    if list(cls.attr_names) != [f for f, k in fields if k == "attr"]:
        return "attr_names %r are not the plain-value fields" % (cls.attr_names,)
    ch = list(inst.children())
    if [n for n, _ in ch] != [n for n, _ in expect] or any(a is not b for (_, a), (_, b) in zip(ch, expect)):
        return "children() = %r, expected %r" % ([n for n, _ in ch], [n for n, _ in expect])
    it = list(iter(inst))
    if len(it) != len(expect) or any(a is not b for a, (_, b) in zip(it, expect)):
        return "iteration yields %r, children() order is %r" % ([getattr(x, "tag", x) for x in it], [n for n, _ in expect])
    return None


def class_level(ctx):
    import itertools
    n = 0
    for name, fields in cfg_classes():
        nodef = [f for f, k in fields if k != "attr"]
        for mask in itertools.product([False, True], repeat=len(nodef)):
            present = [f for f, m in zip(nodef, mask) if m]
            why = class_case(name, fields, present)
            n += 1
            if why:
                ctx.violation("class %s with present node fields %r: %s" % (name, present, why), {"kind": "class", "class": name, "present": present})
    return n


def classify(replay):
    t = replay.get("text", "")
    return "F-align-attr-nodes" if ("_Alignas" in t or "_Pragma" in t) else None


def run(ctx):
    texts = [t for t in progs.pool(ctx, scale=0.3) if len(t) < 6000]
    ctx.rule("class-level part: 49 classes x every subset of absent node-valued fields, exhaustive, as kernel-checked obligations on regenerated observations and, to name a concrete failing class/field set, evaluated on the live classes against _c_ast.cfg read independently of _ast_gen.py (positional constructor order, attr_names, children() names/objects/order, iteration = children()); tree-level part: visitor classes related by inheritance used in several orders on one AST (interception must not depend on history), copy.copy / copy.deepcopy of a used visitor (the copy intercepts for itself), visit_X handlers that are attributes of the instance (bound in __init__, attached with types.MethodType, supplied by __getattr__) and an instance-level generic_visit; for the programs of the pool (" + progs.RULE + ") a counting NodeVisitor, a visitor overriding visit_BinaryOp/visit_Decl/visit_Compound, visitors whose visit_X methods return truthy / falsy values of several kinds (the traversal must not depend on them) and show() on the real AST vs the generic model; show() after show() calls that failed at the k-th write, with other options, and re-entrantly from the stream's write()")
    ncls = class_level(ctx)
    ctx.count(ncls, nontrivial_n=ncls)
    hist_texts = [t for t in texts if "1" in t and "+" in t][:40]
    for t in hist_texts:
        for why in visitor_history(t) or []:
            ctx.violation(why + " on %r" % t[:80], {"kind": "visitor-history", "text": t})
    ctx.count(len(hist_texts), nontrivial_n=len(hist_texts))
    for t in hist_texts:
        for why in instance_handlers(t) or []:
            ctx.violation(why + " on %r" % t[:80], {"kind": "instance-handlers", "text": t})
    for t in hist_texts[:10]:
        for why in handler_after_use(t) or []:
            ctx.violation(why + " on %r" % t[:80], {"kind": "handler-after-use", "text": t}, lambda rp: "F-c14-handler-added-after-use")
    for t in hist_texts:
        for why in show_history(t) or []:
            ctx.violation(why + " on %r" % t[:80], {"kind": "show-history", "text": t})
    ctx.count(len(hist_texts), nontrivial_n=len(hist_texts))
    both = pmap(observe, texts)
    obs = [b[0] if b else None for b in both]
    # the real AST (dumped) is handed to the generic model: no dependence on the parser model
    md = run_model([req("reflectast", b[1] if b else "~", ",".join(OVERRIDE)) for b in both]) if ctx.model_available else None
    keys = set()
    for i, (t, o) in enumerate(zip(texts, obs)):
        if o is None:
            continue
        keys.add(t)
        f = o.split("\t")
        n, trace, lines = int(f[1]), f[2].split(), int(f[3])
        if both[i][2]:
            ctx.violation(both[i][2] + " on %r" % t[:100], {"kind": "text", "text": t})
        elif len(trace) != n:
            ctx.violation("generic traversal visited %d nodes of %d on %r" % (len(trace), n, t[:100]), {"kind": "text", "text": t})
        elif lines != n:
            ctx.violation("show() printed %d lines for %d nodes on %r" % (lines, n, t[:100]), {"kind": "text", "text": t}, classify)
        elif md is not None and md[i] != o:
            ctx.violation("traversal of the real classes differs from the generic model (trace / counts) on %r" % t[:100], {"kind": "text", "text": t})
    ctx.count(len(texts), nontrivial_keys=keys)
    ctx.sample({"kind": "traversal", "text": texts[0][:200], "observation": (obs[0] or "")[:200]})


def replay(ctx, payload):
    if payload["input"].get("kind") == "visitor-history":
        pr = visitor_history(payload["input"]["text"])
        print(pr)
        return not pr
    if payload["input"].get("kind") == "instance-handlers":
        pr = instance_handlers(payload["input"]["text"])
        print(pr)
        return not pr
    if payload["input"].get("kind") == "handler-after-use":
        pr = handler_after_use(payload["input"]["text"])
        print(pr)
        return not pr
    if payload["input"].get("kind") == "show-history":
        pr = show_history(payload["input"]["text"])
        print(pr)
        return not pr
    if payload["input"].get("kind") == "class":
        i = payload["input"]
        why = class_case(i["class"], dict(cfg_classes())[i["class"]], i["present"])
        print(why)
        return why is None
    ob = observe(payload["input"]["text"])
    o = ob[0]
    print(o, ob[2])
    f = o.split("\t")
    return int(f[1]) == len(f[2].split()) == int(f[3]) and not ob[2]


def replay_finding(ctx, f):
    w = f["witness"]
    if w["kind"] == "show_lines":
        o = observe(w["text"])[0]
        f2 = o.split("\t")
        return int(f2[1]) != int(f2[3])
    if w["kind"] == "handler_after_use":
        return bool(handler_after_use(w["text"]))
    if w["kind"] == "visitor_copy":
        return any("of a used visitor" in pr for pr in (visitor_history(w["text"]) or []))
    return still_fails(w)
