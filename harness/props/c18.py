"""C18 — structurally malformed input is always rejected."""
import itertools

from ..common import pmap, run_model
from ..pyparse import py_parse_obj, parse_req
from ..findings import still_fails
from .. import progs, corpus

ID = "C18"
LEAN_MODULES = ["PycModel.Properties.C18"]
NAMESPACES = ["PycModel.C18"]
REQUIRED_THEOREMS = ["PycModel.C18.balanced_counts", "PycModel.C18.delete_breaks_balance",
                     "PycModel.C18.duplicate_breaks_balance", "PycModel.C18.unbalanced_of_counts", "PycModel.C18.ok_no_lex_error", "PycModel.C18.lex_error_rejects", "PycModel.C18.impl_directive_patterns"]
LEVEL = "proof"
TRUSTED = ["'parse ok => token brackets balanced' over the parser model is not yet proved; kernel-checked are the soundness of the mutation oracle (all sequences) and the lexer-error lemmas; rejection itself is observed on the real parser and compared with the Lean parser model"]
ASSUMPTIONS = []

BR = {"(": ")", "[": "]", "{": "}"}
OPEN = set(BR)
CLOSE = set(BR.values())
ALLB = sorted(OPEN | CLOSE)
INJECT = ["@", "`", "\\", "\\\n", "\\\n\t", "\\ \n", "\\\r\n", "/* c */", "// c\n", "'", '"', "\n#include <x.h>\n", "\n#define X 1\n", "\n#if 1\n", "$$@", "\\n",
          # directives whose name merely resembles a supported one, and every other common directive
          "\n#pragmatic once\n", "\n#pragma_pack(1)\n", "\n# pragma2 foo\n", "\n#pragmas )]{ @\n", "\n#linex 5\n", "\n#line5\n",
          "\n#lineage\n", "\n# lines 3\n", "\n#ident \"x\"\n", "\n#error x\n", "\n#undef X\n", "\n#endif\n", "\n#else\n", "\n#warning w\n",
          "\n#\n", "\n#!\n", "\n#include_next <x.h>\n", "\n#elif 1\n", "\n#ifdef X\n",
          # a '#' that is not the first thing on its line introduces no directive (C99 6.10p2): stray text
          "\0# 7\n", "\0# 5 \"x.c\"\n", "\0#line 9\n", "\0#pragma p\n"]      # \0: only after a token


def classify(replay):
    """open finding: a '#' in the middle of a line is taken as the start of a directive"""
    import re
    t = replay.get("text", "")
    if re.search(r"[^\s#][ \t]*#[ \t]*(line\b|pragma\b|\d)", t):
        return "F-c18-midline-directive"
    return None


def rejected(text):
    r = py_parse_obj(text, "f.c")
    if r[0] == "OK":
        return False
    return True   # ParseError; crashes are C06's business but still "not accepted"


def mutants_of(args):
    text, seed, cap = args
    import random
    rng = random.Random(seed)
    toks = [v for _, v in corpus.lex_tokens(text)]
    if "#" in text:          # keep pragma lines intact: operate on pragma-free programs only
        return []
    idx = [i for i, t in enumerate(toks) if t in OPEN or t in CLOSE]
    out = []
    if len(idx) > cap:
        idx = rng.sample(idx, cap)
    for i in idx:
        d = toks[:i] + toks[i + 1:]
        out.append(("delete", " ".join(d)))
        out.append(("duplicate", " ".join(toks[:i] + [toks[i]] + toks[i:])))
        for alt in ALLB:
            if alt != toks[i] and (alt in OPEN) == (toks[i] in OPEN):
                out.append(("swap-kind", " ".join(toks[:i] + [alt] + toks[i + 1:])))
    # injections of non-token text at token boundaries
    for _ in range(min(cap, len(toks) + 1)):
        j = rng.randrange(len(toks) + 1)
        inj = rng.choice(INJECT)
        if inj.startswith("\0"):
            if not toks:
                continue
            j = max(1, j)
            inj = inj[1:]
        out.append(("inject", " ".join(toks[:j]) + " " + inj + " " + " ".join(toks[j:])))
    return out


def balanced(s):
    st = []
    for ch in s:
        if ch in OPEN:
            st.append(ch)
        elif ch in CLOSE:
            if not st or BR[st.pop()] != ch:
                return False
    return not st


CONTEXTS = [("int v = a %s ;", "expression"), ("int x %s ;", "declarator"), ("void f ( ) { %s }", "statement"),
            ("int v = %s 1 ;", "expression-prefix"), ("void g ( int %s ) ;", "parameter")]


def run(ctx):
    texts = [t for t in progs.pool(ctx, scale=0.4) if len(t) < 3000]
    rng = ctx.rng("mut")
    cap = 6 if ctx.quick() else 40
    args = [(t, rng.randrange(1 << 30), cap) for t in texts]
    lists = pmap(mutants_of, args)
    muts = [(t, k, m) for (t, _, _), l in zip(args, lists) for (k, m) in l]
    ctx.rule("for every accepted program of the pool (" + progs.RULE + "): single-bracket deletions, duplications and kind swaps (all bracket positions up to %d per program) and injections of non-token text (stray characters - a backslash in the middle and at the end of a line -, comments, lone quotes, foreign directives) at random token boundaries; plus all bracket strings of length <=%d in 5 contexts; plus 8 forms of #line / linemarker directives followed on their line by 24 kinds of stray text (brackets, characters, comments, tokens) in 4 places" % (cap, 5 if ctx.quick() else 8))
    res = pmap(_rej, [m for _, _, m in muts])
    md = run_model([parse_req(m, "f.c") for _, _, m in muts]) if ctx.model_available else None
    keys = set()
    for i, ((t, k, m), r) in enumerate(zip(muts, res)):
        keys.add(m)
        if not r:
            ctx.violation("%s mutant of an accepted program is accepted: %r" % (k, m[:160]), {"kind": "text", "text": m, "mutation": k}, classify)
        elif md is not None and md[i].startswith("OK"):
            ctx.violation("Lean parser model accepts a %s mutant that the real parser rejects: %r" % (k, m[:160]), {"kind": "text", "text": m, "mutation": k})
    ctx.count(len(muts), nontrivial_keys=keys)
    if muts:
        ctx.sample({"kind": muts[0][1], "original": muts[0][0][:160], "mutant": muts[0][2][:160]})
    # bracket strings
    n = 5 if ctx.quick() else 8
    strs = ["".join(p) for k in range(1, n + 1) for p in itertools.product("()[]{}", repeat=k)]
    cases = [(fmt % " ".join(s), s) for s in strs for fmt, _ in CONTEXTS]
    cases = [c for c in cases if not balanced(c[0])]      # the whole text must be unbalanced
    bad = cases
    res = pmap(_rej, [c[0] for c in cases])
    for (text, s), r in zip(cases, res):
        if not r:
            ctx.violation("unbalanced bracket string %r accepted in %r" % (s, text), {"kind": "text", "text": text, "mutation": "bracket-string"})
    ctx.count(len(cases), nontrivial_n=len(cases))
    ctx.extra["unbalanced_bracket_strings"] = len(bad)
    # text on the line of a #line / linemarker directive, after what the directive grammar allows, is
    # neither literal nor #pragma text: brackets, stray characters, comments, tokens there must be rejected
    heads = ['# 7 "a.c"', '# 7 "a.c" 1', '#line 7 "a.c"', "#line 7", "# 7", '# 7 "a.c" 1 3 4', '#   12   "x y.h"  2', '#line 9 "q.h" 2 4']
    junk = ["@", ")", "}", "[", "(", "]", "{", "/* c */", "// c", "`", "\\", "'", "x", "+", "1.5", ".", "int", "# 3", "#", "-1", "0x1", "1 @", '"a" )', ";"]
    wrap = ["int a ;\n%s\nint b ;", "int f ( void ) {\n%s\n return ( 1 ) ;\n}", "%s\n", "struct S { int a ;\n%s\nint b ; } ;"]
    dcases = [(w % (h + " " + j)) for h in heads for j in junk for w in wrap if not (j.startswith('"') and '"' not in h)]
    dres = pmap(_rej, dcases)
    dmd = run_model([parse_req(m, "f.c") for m in dcases]) if ctx.model_available else None
    for i, (text, r) in enumerate(zip(dcases, dres)):
        if not r:
            ctx.violation("text after a #line / linemarker directive on its line is accepted: %r" % text, {"kind": "text", "text": text, "mutation": "directive-tail"})
        elif dmd is not None and dmd[i].startswith("OK"):
            ctx.violation("Lean parser model accepts a directive tail that the real parser rejects: %r" % text, {"kind": "text", "text": text, "mutation": "directive-tail"})
    ctx.count(len(dcases), nontrivial_n=len(dcases))


def _rej(m):
    return rejected(m)


def replay(ctx, payload):
    r = rejected(payload["input"]["text"])
    print("rejected by the real parser:", r)
    return r


def replay_finding(ctx, f):
    return still_fails(f["witness"])
