"""C15 — ASTs survive repr/eval, pickle and deepcopy unchanged."""
import copy, pickle

from ..common import pmap, run_model, req, esc
from ..pyparse import py_parse_obj, dump, py_gen_text
from ..findings import still_fails
from .. import progs

ID = "C15"
LEAN_MODULES = ["PycModel.Properties.C15"]
NAMESPACES = ["PycModel.C15"]
REQUIRED_THEOREMS = ["PycModel.C15.repr_mapCoords"]
LEVEL = "proof"
TRUSTED = ["eval, pickle and copy.deepcopy are the interpreter's: exercised on the real objects, not modelled",
           "Python's repr of str is modelled for ASCII strings only (pyReprStr); non-ASCII ASTs are checked on the real code but not compared with the model"]
ASSUMPTIONS = ["the interpreter's nesting limits (RecursionError of eval / pickle / deepcopy, and the compiler's 'too many nested parentheses' for eval of a repr nested deeper than 200) are resource limits outside the property, as the RecursionError exemption of C06: trees nested that deep are skipped",
               "partial: the theorem covers the pycparser-specific __repr__ (coordinate-independence for all trees); the rebuild itself is checked by execution"]

EXTRA = [
    'char *s = "quote \\" backslash \\\\ tab \\t";',
    "char c = '\\''; char d = '\"'; char e = '\\\\';",
    'char *u = "café 中文";  int é = 1;' if False else 'char *u = "café 中文";',
    "struct S { int a; struct { int b; } in; } s = { .a = 1, .in = { 2 } };",
    "void f(void) { {} ; }",
    "int a[] = {}; void g() { return; }" if False else "void g() { return; }",
    "typedef int T; T f(T (*p)(T), ...);",
    'char *w = L"wide" L"r";  char *m = "a" "b\'c";',
    # coordinates far beyond everyday sizes: a 70 000-character line, huge line numbers, long file names
    "int t[] = {" + "0x00, " * 14000 + "0};\nint after_table;",
    "# 65536 \"f.c\"\nint a;\n# 4294967296 \"g.h\"\nint b;\n# 1099511627776 \"" + "d/" * 300 + "h.h\"\nint c;\n# 0 \"z\"\nint d;",
    " " * 65535 + "int x;" + " " * 70000 + "int y;",
]


_IMMUTABLE = (str, int, float, bool, bytes, type(None), complex, frozenset)


def mutable_ids(root):
    """id -> type name of every mutable object reachable from `root` through slots, attributes,
    list / tuple / dict / set elements"""
    seen = {}
    stack = [root]
    while stack:
        o = stack.pop()
        if isinstance(o, _IMMUTABLE) or isinstance(o, type) or id(o) in seen:
            continue
        if isinstance(o, tuple):
            stack.extend(o)
            continue
        seen[id(o)] = type(o).__name__
        if isinstance(o, (list, set)):
            stack.extend(o)
        elif isinstance(o, dict):
            stack.extend(o.keys())
            stack.extend(o.values())
        else:
            for klass in type(o).__mro__:
                for s in getattr(klass, "__slots__", ()):
                    if s != "__weakref__" and hasattr(o, s):
                        stack.append(getattr(o, s))
            if hasattr(o, "__dict__"):
                stack.extend(vars(o).values())
    return seen


def alias_sig(root):
    """the sharing pattern of the mutable objects reachable from `root`: objects are numbered in the
    order a fixed traversal first meets them; the signature is the sequence of numbers met (a second
    reference to an object repeats its number).  deepcopy and pickle preserve it."""
    num = {}
    sig = []
    stack = [root]
    while stack:
        o = stack.pop()
        if isinstance(o, _IMMUTABLE) or isinstance(o, type):
            continue
        if isinstance(o, tuple):
            stack.extend(reversed(o))
            continue
        if id(o) in num:
            sig.append(num[id(o)])
            continue
        num[id(o)] = len(num)
        sig.append(num[id(o)])
        if isinstance(o, list):
            stack.extend(reversed(o))
        elif isinstance(o, (set, dict)):
            continue
        else:
            vals = []
            for klass in type(o).__mro__:
                for sl in getattr(klass, "__slots__", ()):
                    if sl != "__weakref__" and hasattr(o, sl):
                        vals.append(getattr(o, sl))
            stack.extend(reversed(vals))
    return sig


def same(a, b, coords):
    return dump(a, coords) == dump(b, coords)


def check(text):
    """returns (repr_text or None, problem or None)"""
    r = py_parse_obj(text, "f.c")
    if r[0] != "OK":
        return None
    ast = r[1]
    from pycparser import c_ast
    ns = {n: getattr(c_ast, n) for n in dir(c_ast)}
    rp = repr(ast)
    try:
        back = eval(rp, ns)
    except RecursionError:
        return (rp, None)
    except SyntaxError as e:
        if "too many nested parentheses" in str(e):      # the interpreter's own nesting limit (like RecursionError)
            return (rp, None)
        return (rp, "eval(repr()) raised SyntaxError: %s" % e)
    except Exception as e:  # noqa
        return (rp, "eval(repr()) raised %s: %s" % (type(e).__name__, e))
    if not same(ast, back, False):
        return (rp, "eval(repr()) rebuilt a different tree")
    g0 = py_gen_text(ast, False)
    if py_gen_text(back, False) != g0:
        return (rp, "tree rebuilt by eval(repr()) generates different C")
    p = None
    for proto in range(2, pickle.HIGHEST_PROTOCOL + 1):
        try:
            p = pickle.loads(pickle.dumps(ast, protocol=proto))
        except RecursionError:
            continue
        except Exception as e:  # noqa
            return (rp, "pickle protocol %d raised %s: %s" % (proto, type(e).__name__, e))
        if not same(ast, p, True):
            return (rp, "pickle protocol %d rebuilt a different tree (coordinates included)" % proto)
        if py_gen_text(p, False) != g0:
            return (rp, "pickled tree generates different C")
    try:
        d = copy.deepcopy(ast)
    except RecursionError:
        return (rp, None)
    if not same(ast, d, True):
        return (rp, "deepcopy differs")
    if py_gen_text(d, False) != g0:
        return (rp, "deep copy generates different C")
    # the same with weak references to the nodes alive (a WeakKeyDictionary side table is why the node
    # classes carry a __weakref__ slot): the weak reference must neither end up in the copy nor break it
    import weakref
    nodes = []

    def walk(n):
        nodes.append(n)
        for _, c in n.children():
            walk(c)

    try:
        walk(ast)
    except RecursionError:
        nodes = []
    refs = [weakref.ref(n) for n in nodes[:2000]]
    side = weakref.WeakKeyDictionary((n, i) for i, n in enumerate(nodes[:200]))
    for proto in (2, pickle.HIGHEST_PROTOCOL):
        try:
            pw = pickle.loads(pickle.dumps(ast, protocol=proto))
        except RecursionError:
            continue
        except Exception as e:  # noqa
            return (rp, "pickle protocol %d of a tree whose nodes are weakly referenced raised %s: %s" % (proto, type(e).__name__, e))
        if not same(ast, pw, True):
            return (rp, "pickle protocol %d of a weakly referenced tree rebuilt a different tree" % proto)
    try:
        dw = copy.deepcopy(ast)
        if not same(ast, dw, True):
            return (rp, "deepcopy of a weakly referenced tree differs")
    except RecursionError:
        pass
    except Exception as e:  # noqa
        return (rp, "deepcopy of a tree whose nodes are weakly referenced raised %s: %s" % (type(e).__name__, e))
    if repr(ast) != rp:
        return (rp, "repr changes when weak references to the nodes exist")
    del refs, side
    # independence: no mutable object (node, list, Coord, ...) reachable from the copy is reachable from
    # the original, and mutating the copy leaves the original alone
    ids = mutable_ids(ast)
    for what, tree in (("deep copy", d), ("tree rebuilt by pickle", p), ("tree rebuilt by eval(repr())", back)):
        if tree is None:
            continue
        sh = [k for i, k in mutable_ids(tree).items() if i in ids]
        if sh:
            return (rp, "%s shares mutable objects with the original: %s" % (what, sorted(set(sh))[:3]))
    # rebuilt trees are independent of each other too, and have the sharing pattern of the original
    # (an object referenced twice in the original is referenced twice in the copy, two objects stay two)
    try:
        d2 = copy.deepcopy(ast)
        blob = pickle.dumps(ast, protocol=pickle.HIGHEST_PROTOCOL)
        p2 = pickle.loads(blob)
    except RecursionError:
        d2 = p2 = blob = None
    if d2 is not None:
        trees = [("deep copy", d), ("second deep copy", d2), ("tree rebuilt by pickle", p), ("second tree rebuilt by pickle", p2)]
        trees = [(w, t) for w, t in trees if t is not None]
        idsets = [(w, mutable_ids(t)) for w, t in trees]
        for i in range(len(idsets)):
            for j in range(i + 1, len(idsets)):
                sh = [k for x, k in idsets[j][1].items() if x in idsets[i][1]]
                if sh:
                    return (rp, "%s and %s share mutable objects: %s" % (idsets[i][0], idsets[j][0], sorted(set(sh))[:3]))
        sig0 = alias_sig(ast)
        for w, t in trees:
            if alias_sig(t) != sig0:
                return (rp, "%s does not have the sharing pattern of the original (objects that were distinct became one, or the reverse)" % w)
    before = dump(ast, True)
    if d.ext:
        d.ext.pop()
    for n in d.ext[:1]:
        for slot in n.__slots__[:-2]:
            v = getattr(n, slot)
            if isinstance(v, list):
                v.append("MUTATED")
            elif isinstance(v, str):
                setattr(n, slot, "MUTATED")
    if dump(ast, True) != before:
        return (rp, "mutating the deep copy changed the original")
    if d2 is not None:
        if dump(d2, True) != before or dump(p2, True) != before:
            return (rp, "mutating one rebuilt tree changed another rebuilt tree")
        if dump(pickle.loads(blob), True) != before:
            return (rp, "a pickle written before a copy was mutated loads as a different tree afterwards")
    return (rp, None)


def threaded(text):
    """repr / pickle / deepcopy of one AST from several threads at once must give what one thread gives"""
    import sys, threading
    r = py_parse_obj(text, "f.c")
    if r[0] != "OK":
        return None
    ast = r[1]
    want = (repr(ast), dump(ast, True))
    out = {}

    def work(i):
        try:
            a = repr(ast)
            b = dump(pickle.loads(pickle.dumps(ast, protocol=2)), True)
            c = dump(copy.deepcopy(ast), True)
            out[i] = (a == want[0], b == want[1], c == want[1])
        except RecursionError:
            out[i] = (True, True, True)
        except Exception as e:  # noqa
            out[i] = ("%s: %s" % (type(e).__name__, e),)

    old = sys.getswitchinterval()
    sys.setswitchinterval(1e-6)
    try:
        for _ in range(3):
            ths = [threading.Thread(target=work, args=(i,)) for i in range(4)]
            for t in ths:
                t.start()
            for t in ths:
                t.join()
            for i, v in out.items():
                if v != (True, True, True):
                    return "thread %d: repr / pickle / deepcopy of a shared AST from 4 threads at once differs from the single-threaded result: %r" % (i, v)
    finally:
        sys.setswitchinterval(old)
    return None


def _dump_of(t):
    r = py_parse_obj(t, "f.c")
    return dump(r[1], False) if r[0] == "OK" else "~"


def run(ctx):
    texts = [t for t in progs.pool(ctx, scale=0.3) if len(t) < 5000] + EXTRA
    ctx.rule(progs.RULE + "; plus programs with quotes, backslashes and non-ASCII characters in literals, empty blocks and absent children, and coordinates beyond 16 / 32 bits (a 70 000-character line, line numbers up to 2^40, a 600-character file name): eval(repr(ast)) in the namespace of c_ast (structural equality, generated text), pickle protocols 2..HIGHEST and copy.deepcopy (equality incl. coordinates, generated text, no mutable object - node, list or coordinate - shared with the original, mutation independence; two copies / two unpickles share nothing with each other, every rebuilt tree has the sharing pattern of the original, mutating one leaves the others and earlier pickles alone), again with weak references to every node alive (weakref.ref and a WeakKeyDictionary side table); repr text compared with the Lean model of __repr__ for ASCII programs; repr / pickle / deepcopy of one AST from 4 threads at once (switch interval 1e-6 s) must equal the single-threaded results")
    res = pmap(check, texts)
    ascii_idx = [i for i, t in enumerate(texts) if res[i] is not None and t.isascii()]
    dumps = pmap(_dump_of, [texts[i] for i in ascii_idx])
    md = run_model([req("reprast", d) for d in dumps]) if ctx.model_available else None
    keys = set()
    for i, (t, r) in enumerate(zip(texts, res)):
        if r is None:
            continue
        keys.add(t)
        if r[1] is not None:
            ctx.violation("%s on %r" % (r[1], t[:120]), {"kind": "text", "text": t})
    if md is not None:
        for k, i in enumerate(ascii_idx):
            if res[i][1] is None and md[k] != "OK\t" + esc(res[i][0]):
                ctx.violation("repr() of the real AST differs from the Lean model of __repr__ on %r" % texts[i][:120], {"kind": "text", "text": texts[i]})
    # the same observations from several threads at once (the functions must not keep process-wide state)
    big = sorted([t for t in texts if len(t) > 300], key=len)[-12:] + ["int v%d = %d + a * (b - %d);\n" % (i, i, i) * 1 for i in range(3)] + ["".join("int g%d(int a) { return a + %d; }\n" % (i, i) for i in range(150))]
    for t in big:
        pr = threaded(t)
        if pr is not None:
            ctx.violation("%s on %r" % (pr, t[:100]), {"kind": "threaded", "text": t})
    ctx.count(len(texts) + len(big), nontrivial_keys=keys)
    ctx.sample({"kind": "repr", "text": EXTRA[0], "repr": (check(EXTRA[0]) or ("",))[0][:300]})


def replay(ctx, payload):
    if payload["input"].get("kind") == "threaded":
        pr = threaded(payload["input"]["text"])
        print(pr)
        return pr is None
    r = check(payload["input"]["text"])
    print(r[1] if r else "not parsed")
    return r is None or r[1] is None


def replay_finding(ctx, f):
    return still_fails(f["witness"])
