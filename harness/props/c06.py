"""C06 — parse() either returns a FileAST or raises ParseError with a location prefix."""
import itertools, re

from ..common import run_model, pmap
from ..pyparse import py_parse_obj, parse_req, py_parse
from ..findings import still_fails
from .. import corpus

ID = "C06"
LEAN_MODULES = ["PycModel.Properties.C06"]
NAMESPACES = ["PycModel.C06"]
REQUIRED_THEOREMS = ["PycModel.C06.lexer_pull_never_crashes", "PycModel.C06.lex_error_has_full_location",
                     "PycModel.C06.scanner_terminates", "PycModel.C06.scope_stack_never_empty"]
LEVEL = "proof"
TRUSTED = ["whole-parser crash-freedom (C06.Full) is stated but only the lexer / error-channel part is proved; the rest rests on the exhaustive token-sequence correspondence"]
ASSUMPTIONS = ["RecursionError is tolerated (property text)"]

FILE = "f.c"
ALPHA = ["int", "T", "x", "typedef", "struct", "enum", "union", "const", "static", "_Atomic", "_Alignas", "(", ")",
         "{", "}", "[", "]", "*", ",", ";", "=", ":", "1", "'a'", '"s"', "...", ".", "->", "+", "++", "?",
         "sizeof", "if", "else", "for", "while", "do", "switch", "case", "default", "return", "goto", "break",
         "_Static_assert", "#pragma p\n", "_Pragma", "__int128", "inline", "void", "unsigned", "&", "<<=",
         "offsetof", "_Alignof", "0x1p3", "L'a'", 'L"w"', "'ab'", "1.5f", "@", "# 3 \"g.h\"\n", "continue", "_Noreturn"]
REDUCED = ["int", "T", "x", "typedef", "struct", "_Atomic", "(", ")", "{", "}", "[", "]", "*", ",", ";", "=", ":", "1",
           "sizeof", "case", "enum", "_Alignas", "."]
PREFIXES = ["", "typedef int T; ", "void f(void) { ", "typedef int T; void f(int x) { ", "struct S { ", "int a = ",
            "typedef int T; int f(", "enum E { ", "typedef int T; T a[] = { "]


FILES = (FILE, "g.h")     # the name passed to parse() and the one the linemarker token sets


def good_prefix(m, text=""):
    """'file:line:column: ' or 'file: ' with a real file name (not None / ?): the name passed to parse()
    or one that a #line / linemarker directive of the text sets"""
    named = re.findall(r'(?m)^[ \t]*#[^\n"]*"([^"\n]*)"', text) if '"' in text and "#" in text else []
    for f in list(FILES) + named:
        if re.match("^" + re.escape(f) + r":\d+:\d+: ", m) or m.startswith(f + ": "):
            return True
    return False


def verdict_py(text):
    r = py_parse_obj(text, FILE)
    if r[0] == "OK" or r[0] == "FUEL":
        return "good"
    if r[0] == "PE":
        m = r[1]
        if good_prefix(m, text):
            return "good"
        return "badprefix:" + m[:60]
    return "crash:" + r[1] + ":" + type(r[2]).__name__ + ": " + str(r[2])[:80]


def verdict_model(line, text=""):
    f = line.split("\t")
    if f[0] in ("OK", "FUEL"):
        return "good"
    if f[0] == "PE":
        from ..common import unesc
        m = unesc(f[1])
        if good_prefix(m, text):
            return "good"
        return "badprefix"
    return "crash:" + f[1]


def classify(replay):
    t = replay.get("text", "")
    if re.search(r"_Atomic\s*\(", t):
        return "F-atomic-nonqual-type"
    return None


def check_batch(ctx, texts, label):
    vs = pmap(verdict_py, texts)
    md = run_model([parse_req(t, FILE) for t in texts]) if ctx.model_available else None
    keys = set()
    for i, t in enumerate(texts):
        keys.add(t)
        v = vs[i]
        if v != "good":
            ctx.violation("%s: parse() escaped with %s on %r" % (label, v, t[:100]), {"kind": "text", "text": t}, classify)
        elif md is not None:
            mv = verdict_model(md[i], t)
            if mv.split(":")[0] != "good":
                # the proved model says the code should have crashed here but it did not: correspondence broken
                ctx.violation("%s: model predicts %s but the real parser is fine on %r" % (label, mv, t[:100]), {"kind": "text", "text": t}, classify)
    ctx.count(len(texts), nontrivial_keys=keys)
    if texts:
        ctx.sample({"kind": label, "text": texts[len(texts) // 2]})


def mutants(rng, toks, n):
    out = []
    sp = [t[1] for t in toks]
    if not sp:
        return out
    for _ in range(n):
        s = list(sp)
        op = rng.choice(["delete", "insert", "replace", "swap", "duplicate", "truncate"])
        i = rng.randrange(len(s))
        if op == "delete":
            del s[i]
        elif op == "insert":
            s.insert(i, rng.choice(ALPHA))
        elif op == "replace":
            s[i] = rng.choice(ALPHA)
        elif op == "swap" and len(s) > 1:
            j = rng.randrange(len(s))
            s[i], s[j] = s[j], s[i]
        elif op == "duplicate":
            s.insert(i, s[i])
        else:
            s = s[:i]
        out.append(" ".join(s))
    return out


def run(ctx):
    quick = ctx.quick()
    texts = []
    k_full = 2 if quick else 3
    for pre in PREFIXES:
        for n in range(0, k_full + 1):
            for p in itertools.product(ALPHA, repeat=n):
                texts.append(pre + " ".join(p))
    ctx.rule("all sequences of <=%d tokens over a %d-token alphabet (every keyword class, punctuator and literal kind, directives, an illegal character) after %d context prefixes (exhaustive)" % (k_full, len(ALPHA), len(PREFIXES)))
    check_batch(ctx, texts, "token-sequences")
    k_red = 3 if quick else 4
    texts = []
    for pre in PREFIXES[:6]:
        for p in itertools.product(REDUCED, repeat=k_red):
            texts.append(pre + " ".join(p))
    ctx.rule("all sequences of exactly %d tokens over the reduced %d-token alphabet after 6 prefixes (exhaustive)" % (k_red, len(REDUCED)))
    check_batch(ctx, texts, "reduced-sequences")
    # token-level mutants of valid programs
    rng = ctx.rng("mutants")
    progs = [p for p in corpus.valid_programs() if len(p) < 4000]
    texts = []
    per = 4 if quick else 40
    for p in progs:
        texts.extend(mutants(rng, corpus.lex_tokens(p), per))
    ctx.rule("%d token-level mutants (delete/insert/replace/swap/duplicate/truncate) of the %d accepted corpus programs" % (len(texts), len(progs)))
    check_batch(ctx, texts, "mutants")
    # end of input at every character position: unterminated last lines of directives, literals, comments
    SEEDS = ["int x;\n#pragma pack(1)\nint y;\n", "#pragma once\n", "# pragma  omp parallel for\nint a;", "void f(void) {\n#pragma omp barrier\n x; }\n",
             "#line 7 \"g.h\"\nint x;\n", "# 3 \"g.h\" 1 3\nint y;\n", "void f(void) { _Pragma(\"omp x\") y; }\n", "#pragma\nint z;\n",
             "char *s = \"a\\n\" L\"b\";\n", "int c = 'x'; /* c */ // d\nint e;\n", "#pragma a\n#pragma b\n# 5\n", "int x = 0x1.8p+3f, y = 1e-5L;\n",
             "#line 2\n#pragma p q r\n", "\t#  pragma\tweak f\n"]
    texts = sorted({sd[:i] for sd in SEEDS for i in range(len(sd) + 1)})
    cut = 6 if quick else 60
    for p in progs:
        for _ in range(cut):
            texts.append(p[:rng.randrange(len(p) + 1)])
    ctx.rule("%d character-level truncations: every prefix of %d directive / literal / comment seeds (input ending inside or right after a #pragma, #line, linemarker, _Pragma, string, character constant, comment, with and without the final newline) and %d random cut points in each corpus program" % (len(texts), len(SEEDS), cut))
    check_batch(ctx, texts, "truncations")
    # raw character noise
    noise_alpha = "ab1 \n\t(){}[];,*=+-<>!&|^~?:.#\"'\\/%@$`_xuUlL0"
    texts = ["".join(rng.choice(noise_alpha) for _ in range(rng.choice([1, 2, 3, 5, 8, 13, 40]))) for _ in range(2000 if quick else 50000)]
    ctx.rule("%d random character strings over %r" % (len(texts), noise_alpha))
    check_batch(ctx, texts, "noise")
    # declaration specifiers in every combination, with and without declarators, wherever a declaration
    # or a type name may stand (the specifier loops have the densest population of special cases)
    SPECS = ["const", "int", "T", "_Atomic(int)", "_Atomic", "_Alignas(8)", "_Alignas(int)", "struct S", "struct { int a; }",
             "enum E", "static", "typedef", "inline", "unsigned", "_Thread_local", "_Noreturn", "void", "_Atomic(T)"]
    TAILS = [";", "x;", ":3;", "x:3;", "*;", "(x);", ")", "[2];", "= 1;", ", y;", "{}", "*x, y;", "(*)(void);", "x(int);", ""]
    CTX = [("typedef int T; ", ""), ("typedef int T; struct S0 { ", " };"), ("typedef int T; void f(void) { ", " }"),
           ("typedef int T; void g(", ");"), ("typedef int T; int v = sizeof(", ");"), ("typedef int T; int w = (", ")1;"),
           ("typedef int T; void h(void) { for (", ";;) ; }")]
    depth = 2 if quick else 3
    texts = []
    for n in range(1, depth + 1):
        for sp in itertools.product(SPECS, repeat=n):
            if n == 3 and rng.random() > 0.25:
                continue
            for tl in TAILS:
                for a, b in CTX:
                    texts.append(a + " ".join(sp) + " " + tl + b)
    ctx.rule("%d declarations / type names made of <=%d declaration specifiers (18 forms incl. _Atomic(T), _Alignas, anonymous struct) x 15 declarator tails x 7 contexts (file scope after a typedef, struct body, block, parameter list, sizeof, cast, for-init)%s" % (len(texts), depth, "" if quick else "; a quarter of the 3-specifier combinations"))
    check_batch(ctx, texts, "specifier-lists")
    # literal spellings with every suffix combination (well-formed or not): the parser's constant typing
    # must never raise anything but ParseError whatever the lexer lets through
    texts = []
    sufs = ["".join(p) for n in range(0, 4) for p in itertools.product("uUlL", repeat=n)]
    fsufs = ["".join(p) for n in range(0, 3) for p in itertools.product("fFlLuU", repeat=n)]
    for body in ("1", "0", "017", "0x1F", "0b101", "08"):
        for sf in sufs:
            for a, b in (("int x = ", ";"), ("int a[", "];"), ("void f(void) { return ", "; }")):
                texts.append(a + body + sf + b)
    for body in ("1.5", "1e3", ".5", "0x1.8p1", "1."):
        for sf in fsufs:
            texts.append("double d = " + body + sf + ";")
    for lit in ("'a'", "'ab'", "'abcd'", "'abcde'", "''", "'\\x'", "'\\xZ'", "'\\8'", "L'a'", "u8'a'", "u'ab'", "U'a'", "'\\", "'a", '"a', '"\\', '"\\q"', 'L"a" "b"', '"a" L"b"', 'u8"a" u8"b"'):
        for a, b in (("int x = ", ";"), ("char *s = ", ";"), ("void f(void) { g(", "); }")):
            texts.append(a + lit + b)
    ctx.rule("%d literal spellings: 6 integer bodies x every string of <=3 suffix letters x 3 contexts, 5 floating bodies x <=2 suffix letters, 20 character / string forms incl. empty, unterminated, bad escapes and mixed-prefix concatenations" % len(texts))
    check_batch(ctx, texts, "literal-suffixes")
    # size extremes: directive arguments, literals and identifiers far beyond everyday lengths
    texts = []
    for n in (1, 9, 19, 20, 400, 4300, 4301):
        for d in ("1", "9"):
            num = d * n
            small = d * min(n, 400)
            texts += ["#line %s\nint x;\n" % num, "# %s \"g.h\" 1\nint x;\n" % num, "int a;\n#line %s" % num,
                      "# 1 \"g.h\" %s\nint x;" % num, "#line %s \"g.h\"\nint x = @;" % num, "#line %suL\nint x;" % num,
                      "int x = %s;" % small, "int x = 0x%s;" % small, "int x = 0%s;" % ("7" * min(n, 400)), "double d = %s.%se%s;" % (small, small, small),
                      "int a[%s];" % small, "struct S { int b : %s; };" % small, "enum E { A = %s };" % small,
                      "int %s;" % ("v" * min(n, 400)), "char *s = \"%s\";" % ("s" * min(n, 400)), "char c = '\\x%s';" % ("f" * min(n, 400)),
                      "char *s = \"%s\";" % ("\\\\" * min(n, 400)), "#pragma %s\nint x;" % ("p" * min(n, 400)), "int x = %s;" % ("-" * min(n, 400) + "1"),
                      "int x %s" % ("@" * min(n, 400))]
    ctx.rule("%d size-extreme inputs: #line / linemarker numbers, flags, integer / floating / character / string literals, identifiers, pragma text (directive numbers with 1..4301 digits, around CPython's 4300-digit int() limit; other literals up to 400 characters)" % len(texts))
    check_batch(ctx, texts, "extremes")


def replay(ctx, payload):
    t = payload["input"]["text"]
    v = verdict_py(t)
    print("verdict on real code:", v)
    return v == "good"


def replay_finding(ctx, f):
    return still_fails(f["witness"])
