"""C16 — parsing work grows linearly with input size, no backtracking blow-up."""
import sys, time

from ..common import run_model, req, pmap
from ..pyparse import py_parse_obj
from ..findings import still_fails

ID = "C16"
LEAN_MODULES = ["PycModel.Properties.C16"]
NAMESPACES = ["PycModel.C16", "PycModel.ParenExpr", "PycModel.FullExpr", "PycModel.StmtSkel", "PycModel.TuFuel"]
REQUIRED_THEOREMS = ["PycModel.C16.translation_unit_fuel_linear", "PycModel.TuFuel.extsFuel_linear", "PycModel.C16.scanner_linear_iterations", "PycModel.C16.each_token_lexed_once", "PycModel.C16.speculation_never_relexes", "PycModel.C16.whole_parse_lexes_each_token_once", "PycModel.C16.production_keeps_buffer_invariant", "PycModel.C16.expression_fuel_linear", "PycModel.C16.statement_fuel_linear", "PycModel.FullExpr.fuel_linear", "PycModel.TuFuel.S.fuel_linear", "PycModel.C16.precedence_climbing_fuel_linear", "PycModel.ParenExpr.fuel_linear", "PycModel.C16.impl_star_height"]
LEVEL = "proof"
TRUSTED = ["partial: CPython's re engine cost and wall-clock time are outside any model; a parser-level linear bound (ticks <= a*tokens + b for all inputs) is not proved - the model's tick counter is tied exactly to the real _TokenStream call counts and growth is measured on the families below"]
ASSUMPTIONS = []


def rep(unit, k, pre="", post=""):
    return pre + unit * k + post


def nest(open_, close, k, core):
    return open_ * k + core + close * k


def _nest_atomic(k):
    inner = "int z;"
    for i in range(k):
        inner = "_Atomic(struct { %s }) a%d, b%d;" % (inner, i, i)
    return inner


FAMILIES = {
    # repetition
    "rep-decl": lambda k: rep("int a%d;\n" % 0, k).replace("a0", "a") if False else "".join("int a%d;\n" % i for i in range(k)),
    "rep-typedef": lambda k: "".join("typedef int T%d; T%d v%d;\n" % (i, i, i) for i in range(k)),
    "rep-func": lambda k: "".join("int f%d(int x) { return x + %d; }\n" % (i, i) for i in range(k)),
    "rep-stmt": lambda k: "void f(void) {" + "x = x + 1;" * k + "}",
    "rep-struct-member": lambda k: "struct S {" + "".join("int m%d;" % i for i in range(k)) + "};",
    "rep-enum": lambda k: "enum E {" + ",".join("K%d" % i for i in range(k)) + "};",
    "rep-init": lambda k: "int a[] = {" + ",".join("1" for _ in range(k)) + "};",
    "rep-args": lambda k: "int v = f(" + ",".join("a" for _ in range(k)) + ");",
    "rep-binop": lambda k: "int v = " + " + ".join("a" for _ in range(k)) + ";",
    "rep-case": lambda k: "void f(int x) { switch (x) {" + "".join("case %d: x++;" % i for i in range(k)) + "} }",
    "rep-string": lambda k: "char *s = " + " ".join('"ab"' for _ in range(k)) + ";",
    "rep-params": lambda k: "void f(" + ",".join("int p%d" % i for i in range(k)) + ");",
    # nesting (depth bounded by the interpreter's recursion limit: k is scaled down)
    "nest-paren": lambda k: "int v = " + nest("(", ")", k, "a") + ";",
    "nest-cast": lambda k: "int v = " + "(int)" * k + "a;",
    "nest-sizeof": lambda k: "int v = " + "sizeof " * k + "a;",
    "nest-call": lambda k: "int v = " + "f(" * k + "a" + ")" * k + ";",
    "nest-subscript": lambda k: "int v = " + "a[" * k + "0" + "]" * k + ";",
    "nest-initbrace": lambda k: "int a = " + nest("{", "}", k, "1") + ";",
    "nest-block": lambda k: "void f(void) " + nest("{", "}", k, "x;"),
    "nest-ifelse": lambda k: "void f(void) { " + "if (a) x; else " * k + "y; }",
    "nest-ternary": lambda k: "int v = " + "a ? b : " * k + "c;",
    "nest-ptrdecl": lambda k: "int " + "*" * k + "p;",
    "nest-arrdecl": lambda k: "int a" + "[2]" * k + ";",
    "nest-fndecl": lambda k: "int " + "(*" * k + "f" + ")(int)" * k + ";",
    "nest-struct": lambda k: "struct S0 {" * 1 + "".join("struct S%d {" % i for i in range(1, k)) + "int x;" + "} m;" * (k - 1) + "};",
    "nest-complit": lambda k: "int v = " + "(int){" * k + "0" + "}" * k + ";",
    "nest-typename-in-bound": lambda k: "int v = " + "sizeof(int[" * k + "1" + "])" * k + ";",
    "nest-complit-in-bound": lambda k: "int v = " + "((int[" * k + "0" + "]){0})" * k + ";",
    "nest-unary": lambda k: "int v = " + "- " * k + "a;",
    "nest-declparen": lambda k: "int " + "(" * k + "x" + ")" * k + ";",
    # every place where the parser decides "type name or expression?" after a '(' nested inside itself
    "nest-sizeof-complit-in-bound": lambda k: "unsigned long v = " + "sizeof (int[" * k + "1" + "]){0}" * k + ";",
    "nest-alignof-in-bound": lambda k: "unsigned long v = " + "_Alignof(int[" * k + "1" + "])" * k + ";",
    "nest-cast-in-bound": lambda k: "void *v = " + "(int(*)[" * k + "1" + "])p" * k + ";",
    "nest-alignas-in-bound": lambda k: "_Alignas(" + "sizeof(int[" * k + "1" + "])" * k + ") int x;",
    "nest-offsetof": lambda k: "unsigned long v = " + "offsetof(struct S, a[" * k + "0" + "])" * k + ";",
    "nest-fnptr-param": lambda k: "void f(" + "void (*g)(" * k + "int" + ")" * k + ");",
    "nest-struct-in-sizeof": lambda k: "unsigned long v = " + "sizeof(struct {int a[" * k + "1" + "];})" * k + ";",
    "nest-typedef-cast-paren": lambda k: "typedef int T; int v = " + "(T)(" * k + "x" + ")" * k + ";",
    "nest-paren-callee": lambda k: "int v = " + "(f)(" * k + "x" + ")" * k + ";",
    "nest-designator-member": lambda k: "struct S s = " + "{ .a = " * k + "1" + " }" * k + ";",
    "nest-designator-index": lambda k: "int a[] = " + "{ [0] = " * k + "1" + " }" * k + ";",
    "nest-atomic-typename": lambda k: "int v = " + "sizeof(_Atomic(int(*)[" * k + "1" + "]))" * k + ";",
    "nest-static-assert": lambda k: "_Static_assert(" + "sizeof(int[" * k + "1" + "])" * k + ", \"m\");",
    "nest-abstract-declarator": lambda k: "int v = sizeof(int " + "(*" * k + ")" * k + ");",
    "nest-complit-postfix": lambda k: "int v = " + "(int[" * k + "1" + "]){0}[0]" * k + ";",
    # statement nesting
    "nest-while": lambda k: "void f(void) { " + "while (a) " * k + "x; }",
    "nest-for": lambda k: "void f(void) { " + "for (int i = 0; i < n; i++) " * k + "x; }",
    "nest-do": lambda k: "void f(void) { " + "do " * k + "x;" + " while (a);" * k + " }",
    "nest-switch-case": lambda k: "void f(void) { " + "switch (a) case 1: " * k + "x; }",
    "nest-label": lambda k: "void f(void) { " + "".join("L%d: " % i for i in range(k)) + "x; }",
    "nest-if-compound": lambda k: "void f(void) { " + "if (a) { " * k + "x;" + " }" * k + " }",
    "rep-kr-params": lambda k: "int f(" + ",".join("p%d" % i for i in range(k)) + ") " + "".join("int p%d;" % i for i in range(k)) + " { return 0; }",
    "rep-declarators": lambda k: "int " + ",".join("*v%d[2]" % i for i in range(k)) + ";",
    "rep-pragma": lambda k: "void f(void) {" + "\n#pragma omp x\n x;" * k + "}",
    "rep-designators": lambda k: "struct S s = {" + ",".join(".m%d = %d" % (i, i) for i in range(k)) + "};",
    "rep-static-assert": lambda k: "_Static_assert(1, \"a\");" * k,
    "rep-compound-literal": lambda k: "void f(void) {" + "g((struct P){1, 2});" * k + "}",
    # derivations of ONE declarator (not nested in the recursion sense: sizes as for repetition)
    "rep-array-suffix": lambda k: "int a" + "[1]" * k + ";",
    "nest-abstract-fn-param": lambda k: "void f(int " + "(int " * k + ")" * k + ");",
    # one specifier shared by several declarators (the parser must not copy it per declarator)
    "nest-struct-multi-declarator": lambda k: "struct {" * k + "int x;" + "} a, b;" * k,
    "rep-struct-members-declarators": lambda k: "struct S {" + "".join("int m%d;" % i for i in range(k)) + "} " + ",".join("v%d" % i for i in range(k)) + ";",
    "rep-enum-declarators": lambda k: "enum E {" + ",".join("K%d" % i for i in range(k)) + "} " + ",".join("*e%d" % i for i in range(k)) + ";",
    "nest-atomic-struct-multi-declarator": lambda k: _nest_atomic(k),
    "rep-atomic-declarators": lambda k: "_Atomic(int *) " + ",".join("a%d" % i for i in range(k)) + ";",
    # k specifiers in front of k declarators: every Decl gets its own IdentifierType with all k names
    "rep-specifiers-x-declarators": lambda k: "long " * k + ",".join("a%d" % i for i in range(k)) + ";",
    # definitions / blocks that open and close scopes: whatever a construct leaves behind (a scope, a
    # table entry) makes every later identifier lookup dearer
    "rep-knr-func": lambda k: "".join("int f%d(a, b) int a; char *b; { return a + %d; }\n" % (i, i) for i in range(k)),
    "rep-knr-func-nodecls": lambda k: "".join("int f%d(a, b) { return a + %d; }\n" % (i, i) for i in range(k)),
    "rep-func-locals": lambda k: "".join("int f%d(int x) { int y = x; { typedef int T; T z = y; return z + v; } }\n" % i for i in range(k)),
    "rep-block": lambda k: "void f(void) {" + "{ int t = v; v = t + w; }" * k + "}",
    "rep-struct-def": lambda k: "".join("struct S%d { int a; struct { int b; } in; } v%d;\n" % (i, i) for i in range(k)),
    "rep-for-decl": lambda k: "void f(void) {" + "for (int i = 0; i < n; i++) v += i;" * k + "}",
    "rep-sizeof-complit": lambda k: "void f(void) {" + "n += sizeof (int[2]){1, 2};" * k + "}",
}
NESTING = {n for n in FAMILIES if n.startswith("nest-")}


class Counter:
    """deterministic amount of work: source lines executed during the parse, in pycparser and in every
    library module it calls into (so that loops inside one function and copies made by the standard
    library count, not only calls) + token-stream and lexer calls"""

    def __init__(self):
        self.calls = 0      # executed lines
        self.ts = 0
        self.lex = 0

    def run(self, text):
        from pycparser import c_parser
        from pycparser.c_parser import CParser, _TokenStream
        self.calls = self.ts = self.lex = 0
        p = CParser()

        def local(frame, event, arg):
            if event == "line":
                self.calls += 1
            return local

        def glob(frame, event, arg):
            fn = frame.f_code.co_filename
            # lines of every module run on behalf of the parse count (copy.deepcopy, re wrappers, ...),
            # not only those inside pycparser
            self.calls += 1
            if "pycparser" not in fn:
                return local
            nm = frame.f_code.co_name
            if fn.endswith("c_parser.py") and nm in ("peek", "next", "reset") and "self" in frame.f_locals and isinstance(frame.f_locals["self"], _TokenStream):
                self.ts += 1
            elif fn.endswith("c_lexer.py") and nm == "token":
                self.lex += 1
            return local

        sys.settrace(glob)
        try:
            r = py_parse_obj(text, "f.c", parser=p)
        finally:
            sys.settrace(None)
        return r[0], self.calls, self.ts, self.lex


BUDGET_S = 20


class _Timeout(BaseException):
    pass


def measure(args):
    """one family instance under a wall-clock budget (an exponential blow-up must not hang the check): the
    measurement runs in a child process that is killed when the budget is exceeded by more than a few
    seconds - a signal alone cannot interrupt a single regex match"""
    from ..common import run_killable
    r = run_killable(_measure_inner, args, 6 * BUDGET_S)
    if r is None or (isinstance(r, tuple) and r and r[0] == "__error__"):
        name, k = args
        text = FAMILIES[name](k)
        return (name, k, len(text), "TIMEOUT", 0, 0, 0, float(BUDGET_S + 8), text)
    return r


def _measure_inner(args):
    import signal
    name, k = args
    text = FAMILIES[name](k)
    c = Counter()
    t0 = time.process_time()   # processor time: independent of the load of the machine

    def onalarm(sig, frm):
        raise _Timeout()

    old = signal.signal(signal.SIGPROF, onalarm)
    signal.setitimer(signal.ITIMER_PROF, BUDGET_S)
    try:
        st, calls, ts, lex = c.run(text)
    except _Timeout:
        sys.settrace(None)
        st, calls, ts, lex = "TIMEOUT", c.calls, c.ts, c.lex
    finally:
        signal.setitimer(signal.ITIMER_PROF, 0)
        signal.signal(signal.SIGPROF, old)
    return (name, k, len(text), st, calls, ts, lex, time.process_time() - t0, text)


def too_fast(a, b):
    """work of instance b vs the smaller instance a of the same family grows faster than ~linearly"""
    return b[4] / max(1, a[4]) > (b[2] / max(1, a[2])) * 1.35 + 0.2


CHAIN_FAMILIES = {"rep-array-suffix", "nest-arrdecl", "nest-fndecl", "nest-abstract-declarator", "nest-cast-in-bound", "nest-fnptr-param"}


def classify_growth(replay):
    """the two open findings are quadratic: anything growing faster than size^2 is a new violation"""
    if replay.get("kind") != "family" or "ratio_size" not in replay:
        return None
    if replay["ratio_work"] > replay["ratio_size"] ** 2 * 1.15:
        return None
    if replay["family"] == "nest-abstract-fn-param":
        return "F-c16-nested-abstract-params-quadratic"
    if replay["family"] in CHAIN_FAMILIES:
        return "F-c16-declarator-chain-quadratic"
    if replay["family"] == "rep-specifiers-x-declarators":
        return "F-c16-specifiers-times-declarators"
    return None


def measure_family(args):
    """sizes in ascending order; stop at the first size that times out or grows too fast.  The whole family
    runs in one killable child; only if that child had to be killed (a hang inside C code) are the
    instances repeated one by one, each in a child of its own"""
    from ..common import run_killable
    name, ks = args
    r = run_killable(_measure_family_inner, (name, ks, False), 6 * BUDGET_S * len(ks))
    if r is not None and not (isinstance(r, tuple) and r and r[0] == "__error__"):
        return r
    return _measure_family_inner((name, ks, True))


def _measure_family_inner(args):
    name, ks, isolated = args
    rows = []
    for k in ks:
        r = measure((name, k)) if isolated else _measure_inner((name, k))
        rows.append(r)
        if r[3] == "TIMEOUT" or (len(rows) > 1 and rows[-2][3] == "OK" and r[3] == "OK" and too_fast(rows[-2], r)):
            break
    return rows


def measure_text(text):
    c = Counter()
    return c.run(text)


REGEX_FAMILIES = {
    "long-escape-run": lambda n: 'char *s = "' + "\\x41" * n + '";',
    "long-decimal-escape": lambda n: 'char *s = "' + "\\1" * n + '";',
    "long-digit-run": lambda n: "int v = " + "1" * n + ";",
    "long-hex-float-digits": lambda n: "double v = 0x" + "f" * n + ".8p1;",
    "long-hex-int": lambda n: "unsigned long long v = 0x" + "F" * n + "ULL;",
    "long-hex-int-then-ident": lambda n: "int v = 0x" + "a" * n + " g;",
    "long-octal-int": lambda n: "int v = 0" + "7" * n + "u;",
    "long-bin-int": lambda n: "int v = 0b" + "10" * (n // 2) + ";",
    "long-float-no-exp": lambda n: "double v = " + "1" * n + "f;",
    "long-char-const": lambda n: "int c = '" + "a" * n + "';",
    "long-wide-string": lambda n: 'int *s = L"' + "\\\\x" * (n // 3) + '";',
    "long-ident-then-quote": lambda n: "int " + "u8" * (n // 2) + "'a';",
    "unterminated-string": lambda n: 'char *s = "' + "a" * n,
    "unterminated-char": lambda n: "int c = '" + "a" * n,
    "bad-escape-string": lambda n: 'char *s = "' + "ab" * n + "\\q" + "cd" * n + '";',
    "many-backslashes": lambda n: 'char *s = "' + "\\\\" * n + '";',
    "char-const-escapes": lambda n: "int c = '" + "\\123" * (n // 4 or 1),
    "long-identifier": lambda n: "int " + "a" * n + ";",
    "float-digits": lambda n: "double d = " + "9" * n + "." + "9" * n + "e+" + "9" * 5 + ";",
    "nested-quote-mix": lambda n: "int c = '" + "\\x" * n + "';",
    "line-directive-long": lambda n: "# 1 \"" + "a\\\\" * n + "\"\nint x;",
    "pragma-long": lambda n: "#pragma " + "x " * n + "\nint x;",
    # one long run of blanks / tabs inside and at the end of directive lines and between tokens
    "pragma-blank-run-inside": lambda n: "#pragma omp parallel" + " " * n + "for\nint x;",
    "pragma-tab-run-inside": lambda n: "#pragma a" + "\t " * (n // 2) + "b" + " " * 3 + "\nint x;",
    "pragma-blank-run-end": lambda n: "#pragma once" + " " * n + "\nint x;",
    "line-blank-run": lambda n: "#line" + " " * n + "7" + " " * n + "\"f.c\"" + " " * n + "\nint x;",
    "hash-blank-run": lambda n: "#" + " " * n + "pragma p\nint x;\n#" + "\t" * n + "3\nint y;",
    "blank-run-between-tokens": lambda n: "int" + " " * n + "x" + "\t" * n + ";" + "\n" * n + "int y;",
    "blank-lines-run": lambda n: "int x;" + ("\n" + " " * 3) * n + "\nint y;",
}


LEX_BUDGET_S = 10


def lex_time(args):
    """wall time of lexing one adversarial literal, under a budget (a catastrophic regex must not hang the
    check: the scan runs in a child process that is killed when it exceeds the budget)"""
    from ..common import run_killable
    r = run_killable(_lex_time_inner, args, 6 * LEX_BUDGET_S)
    if r is None or (isinstance(r, tuple) and r and r[0] == "__error__"):
        name, n = args
        return name, n, len(REGEX_FAMILIES[name](n)), float(LEX_BUDGET_S) + 3
    return r


def _lex_time_inner(args):
    import signal
    name, n = args
    from ..pylex import py_scan
    text = REGEX_FAMILIES[name](n)

    def onalarm(sig, frm):
        raise _Timeout()

    # processor time of this process, not wall time: the margin must not depend on what else the
    # machine is doing (a loaded machine once stretched 0.24 s of work to 4.3 s of wall time)
    old = signal.signal(signal.SIGPROF, onalarm)
    signal.setitimer(signal.ITIMER_PROF, LEX_BUDGET_S)
    t0 = time.process_time()
    try:
        py_scan(text, limit=10 * len(text) + 100)
        wall = time.process_time() - t0
    except _Timeout:
        wall = float(LEX_BUDGET_S) + 1
    finally:
        signal.setitimer(signal.ITIMER_PROF, 0)
        signal.signal(signal.SIGPROF, old)
    return name, n, len(text), wall


def run(ctx):
    ks_rep = [40, 80, 160] if ctx.quick() else [50, 100, 200, 400, 800]
    ks_nest = [10, 20, 40] if ctx.quick() else [10, 20, 40, 60]
    ks_choice = [4, 8, 16] if ctx.quick() else [4, 8, 16, 24]      # 'type name or expression?' decisions nested in themselves
    CHOICE = {n for n in FAMILIES if n in NESTING and any(w in n for w in ("-in-bound", "sizeof", "alignof", "offsetof", "complit", "atomic", "static-assert", "typedef-cast", "paren-callee", "abstract", "fnptr"))}
    fam_jobs = [(n, ks_choice if n in CHOICE else (ks_nest if n in NESTING else ks_rep)) for n in FAMILIES]
    res = [r for rows in pmap(measure_family, fam_jobs) for r in rows]
    by = {}
    for r in res:
        by.setdefault(r[0], []).append(r)
    md_lines = run_model([req("cost", "f.c", r[8]) for r in res]) if ctx.model_available else None
    n_eval = 0
    for i, r in enumerate(res):
        name, k, size, st, calls, ts, lex, wall, text = r
        n_eval += 1
        if st == "FUEL":
            continue
        if st == "TIMEOUT":
            ctx.violation("family %s size %d (%d characters) did not finish within %d s (%d lines executed so far)" % (name, k, size, BUDGET_S, calls),
                          {"kind": "family", "family": name, "k": k})
            continue
        if st != "OK":
            print("NOTE: family %s size %d is not accepted (%s); skipped" % (name, k, st))
            continue
        if md_lines is not None:
            f = md_lines[i].split("\t")
            if f[0] != "OK" or int(f[1]) != ts or int(f[2]) != lex:
                ctx.violation("cost correspondence: real parser made %d token-stream calls / %d lexer calls on family %s(k=%d), the Lean model counts %s" % (ts, lex, name, k, md_lines[i]),
                              {"kind": "family", "family": name, "k": k})
    for name, rows in by.items():
        rows = [r for r in rows if r[3] == "OK"]
        rows.sort(key=lambda r: r[1])
        for a, b in zip(rows, rows[1:]):
            ratio_size = b[2] / max(1, a[2])
            ratio_calls = b[4] / max(1, a[4])
            # doubling the size may at most roughly double the work (a logarithmic factor is allowed)
            if too_fast(a, b):
                ctx.violation("work grows faster than linearly on family %s: size x%.2f (k=%d->%d) but executed lines x%.2f (%d -> %d)" % (name, ratio_size, a[1], b[1], ratio_calls, a[4], b[4]),
                              {"kind": "family", "family": name, "k": b[1], "ratio_size": ratio_size, "ratio_work": ratio_calls}, classify_growth)
        # three sizes k, 2k, 4k: the second difference isolates a quadratic term c*k^2 whatever the
        # linear and constant parts are (line counts are deterministic); it may not carry a quarter of
        # the work at the largest size - this sees a quadratic term while it is still small
        if not any(too_fast(a, b) for a, b in zip(rows, rows[1:])):
            for a, b, c in zip(rows, rows[1:], rows[2:]):
                if b[1] == 2 * a[1] and c[1] == 2 * b[1]:
                    d2 = (c[4] - b[4]) - 2 * (b[4] - a[4])
                    share = (16.0 / 6.0) * d2 / max(1, c[4])
                    # repetition families are exactly linear on the unchanged code (share 0.000 .. 0.005);
                    # nesting families carry the depth of the scope chain (up to 0.13)
                    if share > (0.25 if name in NESTING else 0.03):
                        ctx.violation("work has a quadratic component on family %s: k=%d/%d/%d executed %d/%d/%d lines; the k^2 term carries %.0f%% of the work at k=%d" % (name, a[1], b[1], c[1], a[4], b[4], c[4], 100 * share, c[1]),
                                      {"kind": "family", "family": name, "k": c[1], "ratio_size": c[2] / max(1, b[2]), "ratio_work": c[4] / max(1, b[4])}, classify_growth)
                        break
        if rows and rows[-1][7] > 5.0:
            ctx.violation("family %s size %d (%d characters) took %.1f s" % (name, rows[-1][1], rows[-1][2], rows[-1][7]), {"kind": "family", "family": name, "k": rows[-1][1]})
    # tick equality on every program of the pool: any construct whose token-stream traffic differs from
    # the model's (e.g. a second speculative parse) shows here even at nesting depth 1
    from .. import progs
    ptexts = [t for t in progs.pool(ctx, scale=0.15) if len(t) < 1500]
    pres = pmap(measure_text, ptexts)
    pmd = run_model([req("cost", "f.c", t) for t in ptexts]) if ctx.model_available else None
    if pmd is not None:
        for t, r, m in zip(ptexts, pres, pmd):
            n_eval += 1
            if r[0] != "OK":
                continue
            f = m.split("\t")
            if f[0] != "OK" or int(f[1]) != r[2] or int(f[2]) != r[3]:
                ctx.violation("cost correspondence: real parser made %d token-stream calls / %d lexer calls, the Lean model counts %s on %r" % (r[2], r[3], m[:40], t[:120]),
                              {"kind": "costtext", "text": t})
    ctx.extra["pool_programs_tick_equal"] = len(ptexts)
    ctx.extra["families"] = {name: [(r[1], r[2], r[4], r[5]) for r in sorted(rows, key=lambda r: r[1]) if r[3] == "OK"] for name, rows in by.items()}
    # adversarial literal families: wall time with wide margins, and linear growth of time is not asserted
    sizes = [24, 200, 2000, 20000] if ctx.quick() else [24, 200, 2000, 20000, 100000]
    lres = []
    for fam in REGEX_FAMILIES:      # serial; a family is abandoned at the first size that exhausts the budget
        for sz in sizes:
            r = lex_time((fam, sz))
            lres.append(r)
            if r[3] > LEX_BUDGET_S:
                break
    for name, n, size, wall in lres:
        n_eval += 1
        limit = 2.0 if size < 5000 else 8.0
        if wall > limit:
            ctx.violation("lexer took %.1f s of processor time on %d characters of family %s" % (wall, size, name), {"kind": "regex-family", "family": name, "n": n})
    # growth between the two largest sizes that finished: ten times the text may cost about ten times
    # the processor time; a quadratic scan costs a hundred times (the absolute margins above only see it
    # when the text is already very long)
    byfam = {}
    for name, n, size, wall in lres:
        byfam.setdefault(name, []).append((size, wall))
    for name, rows in byfam.items():
        rows.sort()
        if len(rows) >= 2:
            (sa, ta), (sb, tb) = rows[-2], rows[-1]
            if tb > 0.25 and tb / max(ta, 0.004) > 4.0 * (sb / max(1, sa)):
                ctx.violation("lexer time grows faster than the text on family %s: %d characters %.3f s, %d characters %.3f s of processor time" % (name, sa, ta, sb, tb),
                              {"kind": "regex-family", "family": name, "n": 20000})
    ctx.extra["regex_families_max_wall_s"] = round(max(w for _, _, _, w in lres), 3)
    ctx.rule("%d scalable families (k-fold repetition of every declaration/statement kind; depth-k nesting of parentheses, casts, sizeof, calls, subscripts, initializer braces, blocks, if/else and ?: chains, pointer/array/function declarators, structs, compound literals, type names and compound literals inside array bounds, every 'type name or expression?' decision nested inside itself: sizeof / _Alignof / cast / _Alignas / offsetof / _Atomic( / _Static_assert / compound literal with and without postfix, function-pointer parameters, designators; loops, switch/case, labels) at 3-5 sizes: deterministic amount of work (source lines executed during the parse in pycparser and in every library module it calls, via sys.settrace - loops inside a function and standard-library copies count), struct / enum specifiers shared by k declarators, must grow at most ~linearly between consecutive sizes and, over three sizes k / 2k / 4k, have no quadratic term carrying 3 percent (repetition) or 25 percent (nesting) of the work, token-stream and lexer call counts must equal the Lean model's tick counters exactly, on the families and on every program of the pool; %d adversarial literal families for the lexer regexes with processor-time margins" % (len(FAMILIES), len(REGEX_FAMILIES)))
    ctx.count(n_eval, nontrivial_n=n_eval)
    ctx.sample({"kind": "family", "name": "nest-complit-in-bound", "k": 3, "text": FAMILIES["nest-complit-in-bound"](3)})


def replay(ctx, payload):
    i = payload["input"]
    if i["kind"] == "costtext":
        r = measure_text(i["text"])
        m = run_model([req("cost", "f.c", i["text"])])[0].split("\t")
        print(r, m)
        return r[0] != "OK" or (m[0] == "OK" and int(m[1]) == r[2] and int(m[2]) == r[3])
    if i["kind"] == "family":
        a = measure((i["family"], max(2, i["k"] // 2)))
        b = measure((i["family"], i["k"]))
        print(a[:8], b[:8])
        if b[3] == "TIMEOUT" or too_fast(a, b):
            return False
        if i["k"] % 4 == 0:
            a0 = measure((i["family"], i["k"] // 4))
            share = (16.0 / 6.0) * ((b[4] - a[4]) - 2 * (a[4] - a0[4])) / max(1, b[4])
            print("quadratic share at k=%d: %.3f" % (i["k"], share))
            return share <= (0.25 if i["family"] in NESTING else 0.03)
        return True
    r = lex_time((i["family"], i["n"]))
    r0 = lex_time((i["family"], max(1, i["n"] // 10)))
    print(r0, r)
    return r[3] < 8 and not (r[3] > 0.25 and r[3] / max(r0[3], 0.004) > 4.0 * (r[2] / max(1, r0[2])))


def replay_finding(ctx, f):
    w = f["witness"]
    if w["kind"] == "line_growth":
        a = measure((w["family"], w["sizes"][0]))
        b = measure((w["family"], w["sizes"][1]))
        return a[3] == "OK" and b[3] == "OK" and too_fast(a, b)
    if w["kind"] == "cost_doubling":
        a = measure(("nest-complit-in-bound", w["depths"][0]))
        b = measure(("nest-complit-in-bound", w["depths"][1]))
        return b[4] / max(1, a[4]) > (b[2] / max(1, a[2])) * 1.35 + 0.2
    return still_fails(w)
