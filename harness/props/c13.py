"""C13 — separate parser/generator instances never influence each other."""
import itertools, os, sys, threading

from ..pyparse import py_parse_obj, dump, py_gen_text
from ..findings import still_fails
from .. import progs
from .c12 import result_key, CLASH

ID = "C13"
LEAN_MODULES = ["PycModel.Properties.C13"]
NAMESPACES = ["PycModel.C13"]
REQUIRED_THEOREMS = ["PycModel.C13.interleave_proj", "PycModel.C13.impl_no_shared_mutable_state"]
LEVEL = "proof"
TRUSTED = ["partial: the theorem covers interleavings at step granularity of deterministic machines over disjoint state, plus the kernel-checked inventory that no module-level object is written after import; CPython's bytecode-level thread switching and the thread-safety of `re` are runtime behaviour the model cannot exhibit - they are only exercised (free-running threads, minimal switch interval)"]
ASSUMPTIONS = ["write-site scan of module globals is syntactic (tools/extract.py); dynamic writes (setattr/globals/exec) make the obligation fail"]


def make_sched_lexer(gate):
    from pycparser.c_lexer import CLexer

    class SchedLexer(CLexer):
        def token(self):
            gate.wait_turn(threading.current_thread())
            try:
                return CLexer.token(self)
            finally:
                gate.step_done()

    return SchedLexer


class Gate:
    """strict hand-off: exactly one parser advances by one lexer call per scheduler step"""

    def __init__(self):
        self.cv = threading.Condition()
        self.turn = None
        self.waiting = set()
        self.busy = False

    def wait_turn(self, th):
        with self.cv:
            self.waiting.add(th)
            self.cv.notify_all()
            while self.turn is not th:
                self.cv.wait()
            self.turn = None
            self.waiting.discard(th)
            self.busy = True

    def step_done(self):
        with self.cv:
            self.busy = False
            self.cv.notify_all()


def process_state():
    """interpreter state that belongs to the whole process: a parse must leave it as it found it, however
    the parses of different instances overlap (otherwise one instance's parse changes the conditions
    under which another one runs)"""
    import gc, locale, os, signal, warnings
    return (("recursionlimit", sys.getrecursionlimit()), ("switchinterval", sys.getswitchinterval()), ("cwd", os.getcwd()),
            ("environ", hash(frozenset(os.environ.items()))), ("locale", locale.setlocale(locale.LC_ALL)),
            ("warnings.filters", len(warnings.filters)), ("gc", gc.isenabled()), ("trace", sys.gettrace() is None),
            ("profile", sys.getprofile() is None), ("sigint", repr(signal.getsignal(signal.SIGINT))), ("path", len(sys.path)),
            ("stdout", id(sys.stdout)), ("excepthook", id(sys.excepthook)))


def entry_parse(path):
    """pycparser.parse_file with every default (its own parser), in py_parse_obj's result format"""
    import pycparser
    from pycparser.c_parser import ParseError
    try:
        return ("OK", pycparser.parse_file(path, use_cpp=False))
    except ParseError as e:
        return ("PE", str(e))
    except RecursionError:
        return ("FUEL",)
    except Exception as e:  # noqa
        return ("CRASH", type(e).__name__, e)


def run_schedule(texts, schedule, entry=None):
    before = process_state()
    r = _run_schedule(texts, schedule, entry)
    after = process_state()
    if r is not None and after != before:
        diff = [(a[0], a[1], b[1]) for a, b in zip(before, after) if a != b]
        # put things back so that one report does not cascade, and report
        sys.setrecursionlimit(dict(before)["recursionlimit"])
        return [("PROCESS-STATE-CHANGED", diff)] + r[1:]
    return r


def _run_schedule(texts, schedule, entry=None):
    """run len(texts) parsers under the given schedule (list of parser indices; when a parser is
    finished or the list is exhausted, remaining parsers run round-robin). Returns result keys.
    entry: list of file paths - every parse goes through pycparser.parse_file(path) with its defaults
    instead of through an explicit CParser; the gate then sits in CLexer.token itself."""
    from pycparser.c_parser import CParser
    from pycparser.c_lexer import CLexer
    gate = Gate()
    Lx = make_sched_lexer(gate)
    mine = set()
    orig_token = CLexer.token
    if entry is not None:
        def gated_token(self):
            th = threading.current_thread()
            if th not in mine:
                return orig_token(self)
            gate.wait_turn(th)
            try:
                return orig_token(self)
            finally:
                gate.step_done()
        CLexer.token = gated_token
    try:
        return _drive(texts, schedule, entry, gate, Lx, mine)
    finally:
        CLexer.token = orig_token


def _drive(texts, schedule, entry, gate, Lx, mine):
    from pycparser.c_parser import CParser
    results = [None] * len(texts)
    raw = [None] * len(texts)
    done = [False] * len(texts)

    def work(i):
        try:
            # the start of a parse (construction of the parser, the resets at the top of parse()) is a
            # schedulable step of its own: it may come after another parser is half-way through
            gate.wait_turn(threading.current_thread())
            gate.step_done()
            if entry is not None:
                raw[i] = entry_parse(entry[i])
            else:
                p = CParser(lexer=Lx)
                raw[i] = py_parse_obj(texts[i], "p%d.c" % i, parser=p)
            results[i] = result_key(raw[i])
        finally:
            with gate.cv:
                done[i] = True
                gate.cv.notify_all()

    ths = [threading.Thread(target=work, args=(i,), daemon=True) for i in range(len(texts))]
    mine.update(ths)
    for t in ths:
        t.start()
    sched = list(schedule)
    rr = 0
    while True:
        with gate.cv:
            # wait until every live parser is parked at the gate (or finished) and nobody is mid-step
            while gate.busy or any((not done[i]) and (ths[i] not in gate.waiting) for i in range(len(ths))):
                if not gate.cv.wait(timeout=180):
                    return None
            live = [i for i in range(len(ths)) if not done[i]]
            if not live:
                break
            pick = None
            while sched:
                c = sched.pop(0)
                if c in live:
                    pick = c
                    break
            if pick is None:
                pick = live[rr % len(live)]
                rr += 1
            gate.turn = ths[pick]
            gate.busy = True
            gate.cv.notify_all()
    for t in ths:
        t.join(timeout=5)
    # a result must not change after it was returned (no node shared with a parser still running),
    # and two results must not share node objects
    seen = {}
    for i, r in enumerate(raw):
        if r is None:
            continue
        if result_key(r) != results[i]:
            results[i] = ("MUTATED-AFTER-RETURN", results[i], result_key(r))
        elif r[0] == "OK":
            for nid in node_ids(r[1]):
                if nid in seen and seen[nid] != i:
                    results[i] = ("SHARES-NODES-WITH", seen[nid])
                    break
                seen[nid] = i
    return results


def node_ids(ast):
    out = set()
    stack = [ast]
    while stack:
        n = stack.pop()
        out.add(id(n))
        for sl in type(n).__slots__:
            v = getattr(n, sl, None)
            vs = v if isinstance(v, list) else [v]
            for x in vs:
                if hasattr(x, "children") and hasattr(type(x), "__slots__"):
                    stack.append(x)
    return out


def free_running(texts, rounds):
    from pycparser.c_parser import CParser
    from pycparser.c_generator import CGenerator
    old = sys.getswitchinterval()
    sys.setswitchinterval(1e-6)
    bad = []
    try:
        solo = []
        for i, t in enumerate(texts):
            r = py_parse_obj(t, "p%d.c" % i)
            solo.append((result_key(r), py_gen_text(r[1], False) if r[0] == "OK" else None))
        for _ in range(rounds):
            out = [None] * len(texts)

            def work(i):
                p = CParser()
                g = CGenerator()
                r = py_parse_obj(texts[i], "p%d.c" % i, parser=p)
                gen = None
                if r[0] == "OK":
                    try:
                        gen = "T:" + __import__("harness.common", fromlist=["esc"]).esc(g.visit(r[1]))
                    except Exception as e:  # noqa
                        gen = "X:" + type(e).__name__
                out[i] = (result_key(r), gen)

            ths = [threading.Thread(target=work, args=(i,)) for i in range(len(texts))]
            for t in ths:
                t.start()
            for t in ths:
                t.join()
            for i in range(len(texts)):
                if out[i] != solo[i]:
                    bad.append(i)
    finally:
        sys.setswitchinterval(old)
    return bad


GEN_SNIPPET = r"""
import sys
sys.path.insert(0, %(repo)r)
from pycparser import c_parser, c_generator, c_ast
src = %(src)r
ast = c_parser.CParser().parse(src, "g.c")

class PrefixGen(c_generator.CGenerator):
    def visit_ID(self, n):
        return "my_" + n.name

class UpperConst(c_generator.CGenerator):
    def visit_Constant(self, n):
        return n.value.upper()

class Counting(c_ast.NodeVisitor):
    def __init__(self):
        self.n = 0
    def visit_ID(self, n):
        self.n += 1

KINDS = {"plain": c_generator.CGenerator, "prefix": PrefixGen, "upper": UpperConst}
for k in %(order)r:
    if k == "count":
        v = Counting(); v.visit(ast); print("count", v.n)
    elif k == "bare":
        c_ast.NodeVisitor().visit(ast); print("bare")
    else:
        print(k, repr(KINDS[k]().visit(ast)))
"""


def generator_orders(src):
    """instances of different generator / visitor classes used one after the other in one process must
    each produce what they produce alone (own process)"""
    import subprocess, sys as _sys
    from ..common import REPO

    def runp(order):
        code = GEN_SNIPPET % {"repo": REPO, "src": src, "order": order}
        p = subprocess.run(["/venv/bin/python", "-c", code], stdout=subprocess.PIPE, stderr=subprocess.PIPE, timeout=120)
        return p.returncode, p.stdout.decode("utf-8", "replace").split("\n")

    alone = {}
    for k in ("plain", "prefix", "upper", "count"):
        rc, out = runp([k])
        alone[k] = out[0] if rc == 0 and out else "FAILED"
    bad = []
    for order in (["plain", "prefix"], ["prefix", "plain"], ["upper", "prefix", "plain"], ["plain", "upper", "prefix", "plain"],
                  ["bare", "count", "prefix"], ["count", "plain", "upper"], ["prefix", "prefix", "plain", "plain"]):
        rc, out = runp(order)
        if rc != 0:
            bad.append((order, "exit status %d" % rc))
            continue
        for k, line in zip(order, out):
            if k != "bare" and line != alone[k]:
                bad.append((order, "%s produced %s, alone it produces %s" % (k, line[:120], alone[k][:120])))
                break
    return bad


SHORT = ["struct a { int x : 3; int : 0; };", "struct b { const unsigned char : 7; char c; };", "typedef int T; T a;", "int T; int b = T * 2;", "T * x;", "typedef char T; T c", "# 7 \"h.h\"\nint z;", "void f(void) { { typedef int U;",
         "int q = @;", "enum E { T }; int v = T;"]


def run(ctx):
    n = 0
    # systematic: all interleavings of two short parses (schedules over lexer calls)
    pairs = list(itertools.combinations(range(len(SHORT)), 2))
    if ctx.quick():
        pairs = pairs[::3]
    solo = {t: result_key(py_parse_obj(t, "p%d.c" % 0)) for t in SHORT}
    for a, b in pairs:
        ta, tb = SHORT[a], SHORT[b]
        sa = result_key(py_parse_obj(ta, "p0.c"))
        sb = result_key(py_parse_obj(tb, "p1.c"))
        # number of lexer calls of each is at most tokens+2; enumerate schedules of length 8 over {0,1}
        L = 6 if ctx.quick() else 9
        for bits in itertools.product([0, 1], repeat=L):
            r = run_schedule([ta, tb], bits)
            n += 1
            if r is None:
                ctx.violation("scheduler dead-lock (parsers did not reach the lexer gate)", {"kind": "schedule", "texts": [ta, tb], "schedule": list(bits)})
                break
            if isinstance(r[0], tuple) and r[0] and r[0][0] == "PROCESS-STATE-CHANGED":
                ctx.violation("overlapping parses of two instances left process-wide interpreter state changed %r under schedule %r for %r / %r" % (r[0][1], bits, ta, tb), {"kind": "schedule", "texts": [ta, tb], "schedule": list(bits)})
            elif r[0] != sa or r[1] != sb:
                ctx.violation("interleaved parse differs from solo run under schedule %r for %r / %r" % (bits, ta, tb), {"kind": "schedule", "texts": [ta, tb], "schedule": list(bits)})
    # random schedules, 2-4 longer programs with clashing names
    rng = ctx.rng("sched")
    pool = [t for t in progs.pool(ctx, scale=0.1) if 20 < len(t) < 1200] + CLASH
    for _ in range(40 if ctx.quick() else 1500):
        k = rng.choice([2, 3, 4])
        texts = [rng.choice(pool) for _ in range(k)]
        sched = [rng.randrange(k) for _ in range(rng.choice([10, 50, 400]))]
        want = [result_key(py_parse_obj(t, "p%d.c" % i)) for i, t in enumerate(texts)]
        r = run_schedule(texts, sched)
        n += 1
        if r is None:
            ctx.violation("scheduler dead-lock", {"kind": "schedule", "texts": texts, "schedule": sched})
        elif isinstance(r[0], tuple) and r[0] and r[0][0] == "PROCESS-STATE-CHANGED":
            ctx.violation("overlapping parses left process-wide interpreter state changed %r (random schedule) for %r" % (r[0][1], [t[:40] for t in texts]), {"kind": "schedule", "texts": texts, "schedule": sched})
        elif r != want:
            ctx.violation("interleaved parses differ from solo runs (random schedule) for %r" % [t[:40] for t in texts], {"kind": "schedule", "texts": texts, "schedule": sched})
    # the same through the public entry point with all its defaults: calls of pycparser.parse_file that
    # overlap in time must not influence each other either (each creates what it needs)
    import tempfile, shutil
    tmpd = tempfile.mkdtemp(prefix="c13_entry_")
    try:
        for rnd in range(12 if ctx.quick() else 300):
            k = rng.choice([2, 2, 3])
            texts = [rng.choice(SHORT + CLASH) if rnd % 2 == 0 else rng.choice(pool) for _ in range(k)]
            paths = []
            for i, t in enumerate(texts):
                pth = os.path.join(tmpd, "e%d.c" % i)
                with open(pth, "w") as fh:
                    fh.write(t)
                paths.append(pth)
            want = [result_key(entry_parse(pth)) for pth in paths]
            sched = [rng.randrange(k) for _ in range(rng.choice([4, 10, 60]))]
            r = run_schedule(texts, sched, entry=paths)
            n += 1
            if r is None:
                ctx.violation("scheduler dead-lock (parse_file)", {"kind": "entry_schedule", "texts": texts, "schedule": sched})
            elif isinstance(r[0], tuple) and r[0] and r[0][0] == "PROCESS-STATE-CHANGED":
                ctx.violation("overlapping parse_file calls left process-wide interpreter state changed %r" % (r[0][1],), {"kind": "entry_schedule", "texts": texts, "schedule": sched})
            elif r != want:
                ctx.violation("overlapping calls of pycparser.parse_file (default parser) differ from the same calls made one after the other, schedule %r, for %r" % (sched[:12], [t[:40] for t in texts]), {"kind": "entry_schedule", "texts": texts, "schedule": sched})
    finally:
        shutil.rmtree(tmpd, ignore_errors=True)
    # free-running threads
    for _ in range(3 if ctx.quick() else 60):
        texts = [rng.choice(pool) for _ in range(4)]
        bad = free_running(texts, 5 if ctx.quick() else 20)
        n += 1
        if bad:
            ctx.violation("free-running threads: parser/generator %r produced a result different from its solo run" % bad, {"kind": "threads", "texts": texts})
    # generator / visitor instances of different classes, one after the other in one process
    for src in ("int f(int a, int b) { return a + b * 0x1f; }", "struct S { int m; } s = { .m = 0xab }; int g(void) { return s.m ? s.m : 0xff; }"):
        n += 1
        for order, why in generator_orders(src):
            ctx.violation("instances of different generator classes influence each other: order %r: %s" % (order, why), {"kind": "genorder", "src": src})
    ctx.rule("all schedules of length 6 (thorough 9) over two parsers at lexer-call granularity (the start of each parse - parser construction and the resets at the top of parse() - being a step of its own) for pairs of short clashing-name inputs (scheduling lexer injected through lexer=, strict hand-off), random schedules for 2-4 longer programs, the same for overlapping calls of pycparser.parse_file with its default parser (gate inside CLexer.token), and free-running threads (4 parsers + generators, switch interval 1e-6 s); generator / visitor instances of different classes (CGenerator, two subclasses overriding visit_ID / visit_Constant, NodeVisitor subclasses) used in 7 orders in one process vs each alone in its own process; every result compared with the solo run, process-wide interpreter state (recursion limit, switch interval, cwd, environment, locale, warning filters, trace / profile hooks, ...) compared before and after every scheduled run, re-dumped after all parsers have finished (a returned AST must not change afterwards) and checked to share no node object with another parser's result")
    ctx.count(n, nontrivial_n=n)
    ctx.sample({"kind": "schedule", "texts": SHORT[:2], "schedule": [0, 1, 1, 0, 0, 1]})


def replay(ctx, payload):
    i = payload["input"]
    if i["kind"] == "genorder":
        bad = generator_orders(i["src"])
        print(bad)
        return not bad
    if i["kind"] == "threads":
        return not free_running(i["texts"], 20)
    if i["kind"] == "entry_schedule":
        import tempfile, shutil
        tmpd = tempfile.mkdtemp(prefix="c13_entry_")
        try:
            paths = []
            for k, t in enumerate(i["texts"]):
                pth = os.path.join(tmpd, "e%d.c" % k)
                with open(pth, "w") as fh:
                    fh.write(t)
                paths.append(pth)
            want = [result_key(entry_parse(pth)) for pth in paths]
            r = run_schedule(i["texts"], i["schedule"], entry=paths)
            print(r == want)
            return r == want
        finally:
            shutil.rmtree(tmpd, ignore_errors=True)
    want = [result_key(py_parse_obj(t, "p%d.c" % k)) for k, t in enumerate(i["texts"])]
    r = run_schedule(i["texts"], i["schedule"])
    print(r == want)
    return r == want


def replay_finding(ctx, f):
    return still_fails(f["witness"])
