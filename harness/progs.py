"""Program pool shared by the whole-pipeline properties (C01, C07, C08, C11, C17, C18):
programs rendered by the Lean specifications (C02/C03/C05 generators) plus the repository corpus."""
from . import speccases as S
from . import corpus


def spec_programs(ctx, scale=1.0):
    """(text, expected_dump) pairs from the Lean enumerators / generators; deterministic in ctx.seed"""
    q = ctx.quick()
    n = lambda a, b: str(int((a if q else b) * scale))
    reqs = [
        ("c02", "enum", "1", "0", "100000"),
        ("c02", "rand", str(ctx.seed + 1), n(1500, 20000), "4"),
        ("c03", "enum", "1", "0", "100"), ("c03", "enum", "2", "0", "1000"),
        ("c03", "rand", str(ctx.seed + 2), n(1500, 20000), "6"),
        ("c03", "specs", str(ctx.seed + 5), n(800, 10000)),
        ("c05", "enum", "8", "25", "1", "0", "100000"),
        ("c05", "rand", str(ctx.seed + 3), n(1500, 20000), "3"),
        ("c05", "rand", str(ctx.seed + 4), n(200, 3000), "5"),
    ]
    return S.fetch(reqs)


RULE = ("programs rendered by the Lean specifications: expressions (all 1-operator trees x 3 parenthesisations + random depth 4) in 10 contexts, "
        "declarators (all derivation sequences <=2 + random <=6) in 11 contexts, declaration specifiers in random order, statement bodies (depth-1 exhaustive + random depth 3/5 with "
        "declarations, pragmas, switch label chains), plus hand-written programs (one-feature C99/C11 programs, 119 small functions in which every token matters to a compiler) and the accepted programs of the repository corpus")


EXTRA = [
    "enum E { A = -1, B = -0x10, C = +2, D = ~0 }; int a[3] = { [-0] = 1, [+1] = 2 };",
    "void f(int x) { switch (x) { case -2: ; case +3: ; case !0: ; case -1u: ; } }",
    "struct S { int b : +3; unsigned c : -(-2); }; _Static_assert(-1, \"m\"); _Alignas(+8) int al;",
    "int v = -1; double d = -1.5; int w = -(1); int u = - -1; int t = a - -1; int s = a+-1;",
    "int *p = &x; int q = *p**p; int r = a&&b; int m = a&-b; int n = x--- -y;",
    "char *s1 = \"a\"\"b\"; char *s2 = \"a\" \"b\"; int c1 = 'a'+'b';",
    "int a1[]={1,2,3};struct T{int x;}t={.x=1};int(*fp)(int)=0;",
    # GNU statement expressions (which the parser accepts) in every place where an expression stands
    # alone between delimiters of the enclosing construct
    "int f(int a) { return ({ a + 1; }); }",
    "void g(int a) { if (({ a; })) a = 1; while (({ a--; })) ; do ; while (({ a; })); switch (({ a; })) { case 1: ; } }",
    "void h(int *v, int n) { for (({ n = 0; }); ({ n < 3; }); ({ n++; })) v[({ n; })] = sizeof(({ n; })); }",
    "int k(int a) { a = ({ int t = a; t * 2; }); return ({ 1; }) , ({ 2; }); }",
]


def pool(ctx, scale=1.0, with_corpus=True):
    from . import features, meaning
    texts = [t for t, _ in spec_programs(ctx, scale)] + EXTRA + [p for p in features.PROGRAMS if "#" not in p] + meaning.PROGRAMS
    if with_corpus:
        texts += corpus.valid_programs()
    return list(dict.fromkeys(texts))
