"""Re-laying out an accepted program: same tokens, different blanks / newlines / linemarkers."""
from . import corpus


def units(text):
    """the program as a list of layout units: ('tok', spelling) or ('pragma', body)"""
    toks = corpus.lex_tokens(text)
    out = []
    i = 0
    while i < len(toks):
        ty, val = toks[i]
        if ty == "PPPRAGMA":
            body = ""
            if i + 1 < len(toks) and toks[i + 1][0] == "PPPRAGMASTR":
                body = toks[i + 1][1]
                i += 1
            out.append(("pragma", body))
        else:
            out.append(("tok", val))
        i += 1
    return out


_ADJ_CACHE = {}


def adjacent_ok(a, b):
    """may spellings a, b be written with nothing in between and still lex as exactly a, b?"""
    k = (a, b)
    if k not in _ADJ_CACHE:
        t = corpus.lex_tokens(a + b)
        _ADJ_CACHE[k] = [v for _, v in t] == [a, b] and "\"" not in a + b and "'" not in a + b
    return _ADJ_CACHE[k]


def render(us, style, rng, record=None):
    """style: 'line' (one token per line), 'single' (one line, pragmas excepted), 'tight' (no blank
    wherever two tokens may be adjacent), 'indent' (random
    blanks/tabs/newlines), 'markers' (linemarkers between arbitrary tokens), 'samemarker' (the *same*
    linemarker before every token: all tokens get one and the same file:line:column), 'litmarker' (a
    file-less #line / # N directive in front of literals, each of which then stands alone on its line).  In the random
    styles a #pragma line gets random blanks before '#', after it, before its text and at its end.
    record: optional list receiving (spelling, line, col, file) per token as laid out."""
    parts = []
    line, col, file = 1, 1, None
    state = {"line": 1, "col": 1, "file": None}

    def put(s):
        parts.append(s)
        for ch in s:
            if ch == "\n":
                state["line"] += 1
                state["col"] = 1
            else:
                state["col"] += 1

    for k, (kind, val) in enumerate(us):
        if kind == "pragma":
            if state["col"] != 1:
                put("\n")
            # blanks before '#', between '#' and 'pragma', before the text and at the end of the line are layout
            if style in ("line", "single", "tight", "samemarker"):
                lead, gap1, gap2, trail = "", "", " ", ""
            else:
                lead = rng.choice(["", "", " ", "\t", "  "])
                gap1 = rng.choice(["", "", " ", "\t"])
                gap2 = rng.choice([" ", " ", "\t", "  "])
                trail = rng.choice(["", "", " ", "\t", " \t "])
            if style == "markers" and rng.random() < 0.5:
                # a linemarker directly in front of the #pragma line (what a header that begins with a
                # pragma looks like after cpp): a directive line ends at its newline, the next one is
                # looked at afresh
                n = rng.randrange(1, 900)
                f = rng.choice(["a.h", "dir/b.c", "f.c"])
                parts.append(rng.choice(['# %d "%s"\n', '#line %d "%s"\n', '# %d "%s" 1\n']) % (n, f))
                state["line"], state["col"], state["file"] = n, 1, f
                if rng.random() < 0.6:
                    lead = ""
            c0 = state["col"] + len(lead) + 1 + len(gap1)
            if record is not None:
                record.append(("pragma", state["line"], c0, state["file"]))
                if val:
                    record.append((val, state["line"], c0 + 6 + len(gap2), state["file"]))
            put(lead + "#" + gap1 + "pragma" + (gap2 + val if val else "") + trail + "\n")
            if style == "markers" and rng.random() < 0.4:       # ... and one directly after it
                n = rng.randrange(1, 900)
                f = rng.choice(["a.h", "dir/b.c", "f.c"])
                parts.append('# %d "%s"\n' % (n, f))
                state["line"], state["col"], state["file"] = n, 1, f
            continue
        if style == "samemarker":
            if state["col"] != 1:
                put("\n")
            parts.append('# 1 "t.c"\n')
            state["line"], state["col"], state["file"] = 1, 1, "t.c"
        if style == "markers" and rng.random() < 0.25:
            if state["col"] != 1:
                put("\n")
            n = rng.randrange(1, 900)
            f = rng.choice(["a.h", "dir/b.c", "f.c"])
            form = rng.random()
            if form < 0.4:
                parts.append('# %d "%s"\n' % (n, f))
            elif form < 0.6:      # gcc linemarker with flags
                parts.append('# %d "%s" %s\n' % (n, f, " ".join(str(rng.randrange(1, 5)) for _ in range(rng.randrange(1, 4)))))
            elif form < 0.75:
                parts.append('#line %d "%s"\n' % (n, f))
            else:                 # no file name: the line changes, the file stays
                parts.append(rng.choice(['# %d\n', '#line %d\n', '#  line  %d \n']) % n)
                f = state["file"]
            state["line"], state["col"], state["file"] = n, 1, f
        lit = style == "litmarker" and (val[0] in "\"'0123456789" or (val[0] in "LuU" and ("\"" in val or "'" in val)))
        if lit and rng.random() < 0.6:
            # a directive without file name, then the literal alone on its line: the directive ends at
            # its own newline, whatever the next line looks like
            if state["col"] != 1:
                put("\n")
            n = rng.randrange(1, 900)
            parts.append(rng.choice(['# %d\n', '#line %d\n', '# %d \n', '#line %d\t\n']) % n)
            state["line"], state["col"] = n, 1
            if record is not None:
                record.append((val, state["line"], state["col"], state["file"]))
            put(val)
            put("\n")
            continue
        if record is not None:
            record.append((val, state["line"], state["col"], state["file"]))
        put(val)
        if style in ("line", "samemarker"):
            put("\n")
        elif style == "single":
            put(" ")
        elif style == "tight":
            nxt = us[k + 1] if k + 1 < len(us) else None
            if nxt is not None and nxt[0] == "tok" and adjacent_ok(val, nxt[1]) and rng.random() < 0.85:
                pass
            else:
                put(" ")
        elif style == "indent":
            put(rng.choice([" ", "  ", "\t", "\n", "\n    ", " \n\t", "\n\n"]))
        else:
            put(rng.choice([" ", "\n", " "]))
    return "".join(parts)
