"""Front end of every check:  ./check <id> <quick|thorough> [--replay file]

Decision procedure (DESIGN.md §5):
  1. regenerate Generated/*.lean from /repo's working tree (tools/extract.py)
  2. lake build the property's Lean modules (theorems + table obligations) and the model driver
  3. audit: axioms of every theorem of the property, source grep for escape hatches
  4. replay known findings (open ones -> KNOWN-FINDING line; fixed ones must pass)
  5. correspondence / failing-input search of the property module (real code vs Lean model/spec)
  6. verdict + evidence file
Exit codes: 0 held, 1 violation (VIOLATION line printed), 2 tool failure / timeout.
"""
import os, sys, json, time, subprocess, importlib, fcntl, hashlib, re, traceback

from . import common
from .common import VERIF, LEAN, REPO

ALLOWED_AXIOMS = {"propext", "Classical.choice", "Quot.sound"}
FORBIDDEN_SRC = re.compile(r"sorry|admit|^axiom |native_decide|bv_decide|implemented_by|unsafe |maxHeartbeats 0|ofReduceBool")


class Ctx:
    def __init__(self, pid, tier, seed):
        self.pid = pid
        self.tier = tier
        self.seed = seed
        self.t0 = time.time()
        self.violations = []  # dicts
        self.known_hits = {}  # finding id -> what
        self.evaluations = 0
        self.distinct = set()
        self.distinct_count = 0
        self.samples = []
        self.rules = []
        self.extra = {}
        self.assumptions = []
        self.broken = []  # broken obligations / correspondences (names)
        self.findings = load_findings(pid)
        self.deadline = None
        self.model_available = True

    def rng(self, label):
        return common.rng_for(self.seed, self.pid + "/" + label)

    def quick(self):
        return self.tier == "quick"

    # -- coverage accounting ------------------------------------------------
    def count(self, n_eval, nontrivial_keys=(), nontrivial_n=0):
        self.evaluations += n_eval
        for k in nontrivial_keys:
            self.distinct.add(k if isinstance(k, (str, int)) else repr(k))
        self.distinct_count += nontrivial_n

    def sample(self, s, cap=12):
        if len(self.samples) < cap:
            self.samples.append(s)

    def rule(self, text):
        if text not in self.rules:
            self.rules.append(text)

    # -- results ---------------------------------------------------------------
    def violation(self, what, replay, finding_classifier=None):
        """Report an input on which the property fails on the real code.
        If it falls in an *open* known-finding class, it is attributed to that finding."""
        fid = None
        if finding_classifier is not None:
            fid = finding_classifier(replay)
        if fid is not None:
            f = self.findings.get(fid)
            if f is not None and f.get("status") == "open":
                self.known_hits.setdefault(fid, f["what"])
                return False
        if len(self.violations) < 25:
            self.violations.append({"what": what, "replay": replay})
        return True

    def broken_obligation(self, name, detail=""):
        self.broken.append({"name": name, "detail": detail[-2000:]})


def load_findings(pid):
    path = os.path.join(VERIF, "known_findings.json")
    out = {}
    if os.path.exists(path):
        with open(path) as f:
            for e in json.load(f)["findings"]:
                if e["property"] == pid:
                    out[e["id"]] = e
    return out


def sh(cmd, timeout, cwd=None, env=None):
    try:
        p = subprocess.run(cmd, cwd=cwd, env=env, stdout=subprocess.PIPE, stderr=subprocess.STDOUT, timeout=timeout)
        return p.returncode, p.stdout.decode("utf-8", "replace")
    except subprocess.TimeoutExpired as e:
        return 124, (e.stdout or b"").decode("utf-8", "replace") + "\nTIMEOUT"


class BuildLock:
    def __enter__(self):
        self.f = open(os.path.join(LEAN, ".buildlock"), "w")
        fcntl.flock(self.f, fcntl.LOCK_EX)
        return self

    def __exit__(self, *a):
        fcntl.flock(self.f, fcntl.LOCK_UN)
        self.f.close()


def extract_and_build(ctx, modules, need_driver=True):
    """Returns dict(ok_modules, failed_modules, log)."""
    info = {"extract": None, "built": [], "failed": {}, "driver": False}
    with BuildLock():
        rc, out = sh(["/venv/bin/python", os.path.join(VERIF, "tools", "extract.py")], 300)
        try:
            info["extract"] = json.loads(out.strip().splitlines()[-1])
        except Exception:
            info["extract"] = {"errors": {"extract.py": out[-1500:]}, "changed": []}
        for name, err in (info["extract"].get("errors") or {}).items():
            ctx.broken_obligation("extract:" + name, err)
        if need_driver:
            rc, out = sh(["lake", "build", "pycmodel"], 1500, cwd=LEAN)
            info["driver"] = rc == 0
            if rc != 0:
                ctx.model_available = False
                ctx.broken_obligation("build:pycmodel", out)
        for m in modules:
            rc, out = sh(["lake", "build", m], 2400, cwd=LEAN)
            if rc == 0:
                info["built"].append(m)
            else:
                info["failed"][m] = out
                # name the failing declarations
                errs = re.findall(r"error: ([^\n]*)", out)
                ctx.broken_obligation("build:" + m, "\n".join(errs[:20]) or out)
        # thorough tier: the compiled property modules are replayed by leanchecker, the toolchain's
        # independent re-checker of .olean files (a second kernel run outside the elaborator)
        if not ctx.quick() and info["built"]:
            rc, out = sh(["lake", "env", "leanchecker"] + list(info["built"]), 1800, cwd=LEAN)
            info["leanchecker"] = rc == 0
            if rc != 0:
                ctx.broken_obligation("leanchecker:" + ",".join(info["built"]), out[-1500:])
    return info


def audit(ctx, modules, namespaces):
    """#print-axioms style audit of every theorem in the property's namespaces."""
    res = {"theorems": {}, "bad_axioms": {}, "src_hits": []}
    ok_modules = [m for m in modules]
    if not ok_modules:
        return res
    path = os.path.join(LEAN, ".lake", "audit_%s_%d.lean" % (ctx.pid, os.getpid()))
    os.makedirs(os.path.dirname(path), exist_ok=True)
    with open(path, "w") as f:
        f.write("import PycModel.AuditTool\n")
        for m in ok_modules:
            f.write("import %s\n" % m)
        for ns in namespaces:
            f.write("#audit_ns %s\n" % ns)
    rc, out = sh(["lake", "env", "lean", path], 900, cwd=LEAN)
    try:
        os.remove(path)
    except OSError:
        pass
    for line in out.splitlines():
        m = re.match(r".*AXIOMS (\S+) : (.*)$", line)
        if m:
            axs = m.group(2).split()
            res["theorems"][m.group(1)] = axs
            bad = [a for a in axs if a not in ALLOWED_AXIOMS]
            if bad:
                res["bad_axioms"][m.group(1)] = bad
    if rc != 0:
        ctx.broken_obligation("audit", out)
    # source grep (comments stripped)
    for root, _, files in os.walk(os.path.join(LEAN, "PycModel")):
        for fn in files:
            if not fn.endswith(".lean") or fn == "AuditTool.lean":
                continue
            p = os.path.join(root, fn)
            with open(p, encoding="utf-8") as f:
                src = f.read()
            src = re.sub(r"/-.*?-/", "", src, flags=re.S)
            for i, line in enumerate(src.splitlines()):
                code = line.split("--")[0]
                if FORBIDDEN_SRC.search(code):
                    res["src_hits"].append("%s: %s" % (os.path.relpath(p, LEAN), code.strip()[:120]))
    for t, bad in res["bad_axioms"].items():
        ctx.broken_obligation("axioms:" + t, " ".join(bad))
    for h in res["src_hits"]:
        ctx.broken_obligation("source-grep", h)
    return res


def write_replay(ctx, idx, payload):
    d = os.path.join(VERIF, "replays")
    os.makedirs(d, exist_ok=True)
    blob = json.dumps(payload, sort_keys=True, ensure_ascii=True)
    h = hashlib.sha256(blob.encode()).hexdigest()[:12]
    path = os.path.join(d, "%s-%s.json" % (ctx.pid, h))
    with open(path, "w") as f:
        json.dump(payload, f, indent=1, sort_keys=True, ensure_ascii=True)
    return os.path.relpath(path, VERIF)


def write_evidence(ctx, prop, build_info, audit_info, n_violations, wall):
    theorems = audit_info.get("theorems", {}) if audit_info else {}
    n_obl = len(theorems)
    n_broken = len(ctx.broken)
    distinct = len(ctx.distinct) + ctx.distinct_count
    cov = {
        "obligations": n_obl + n_broken if (n_obl + n_broken) > 0 else 1,
        "discharged": n_obl if not ctx.broken else max(0, n_obl - len(audit_info.get("bad_axioms", {}))),
        "checker_cmd": "cd lean && lake build %s && lake env lean <audit: #audit_ns %s>%s" % (" ".join(prop.LEAN_MODULES), " ".join(prop.NAMESPACES),
                                                                                                  "" if ctx.quick() else " && lake env leanchecker " + " ".join(prop.LEAN_MODULES)),
        "trusted_base": [
            "Lean 4.33.0 kernel",
            "axioms used: " + ", ".join(sorted({a for axs in theorems.values() for a in axs}) or ["none"]),
            "tools/extract.py (regenerates Generated/*.lean from /repo)",
            "harness correspondence check (differential run of real code vs compiled Lean model)",
        ] + list(getattr(prop, "TRUSTED", [])),
        "theorems": {k: v for k, v in sorted(theorems.items())},
        "broken_obligations": ctx.broken,
        "evaluations": ctx.evaluations,
        "distinct_nontrivial": distinct,
        "rule": " | ".join(ctx.rules) or "n/a",
        "samples": ctx.samples or ["(none)"],
        "known_findings_reproduced": sorted(ctx.known_hits),
        "extract": (build_info or {}).get("extract"),
    }
    cov.update(ctx.extra)
    ev = {
        "property_id": ctx.pid,
        "tier": ctx.tier,
        "seed": ctx.seed,
        "level": getattr(prop, "LEVEL", "proof"),
        "coverage": cov,
        "assumptions": list(getattr(prop, "ASSUMPTIONS", [])) + ctx.assumptions,
        "wall_s": round(wall, 2),
        "violations": n_violations,
    }
    # VERIF_EVIDENCE_DIR: used by tools/seed.sh so that runs against a seeded change never overwrite
    # the evidence of the unchanged tree
    evdir = os.environ.get("VERIF_EVIDENCE_DIR") or os.path.join(VERIF, "evidence")
    os.makedirs(evdir, exist_ok=True)
    with open(os.path.join(evdir, ctx.pid + ".json"), "w") as f:
        json.dump(ev, f, indent=1, ensure_ascii=True)


def main(argv):
    if len(argv) < 2:
        print("usage: check <id> <quick|thorough> [--replay file]")
        return 2
    pid = argv[0].upper()
    tier = argv[1]
    if tier not in ("quick", "thorough"):
        tier = os.environ.get("VERIF_TIER", "quick")
    replay = None
    if "--replay" in argv:
        replay = argv[argv.index("--replay") + 1]
    seed = common.seed_from_env()
    try:
        prop = importlib.import_module("harness.props." + pid.lower())
    except ImportError as e:
        print("no such property module: %s (%s)" % (pid, e))
        return 2
    ctx = Ctx(pid, tier, seed)
    t0 = time.time()
    try:
        if replay:
            with open(replay if os.path.isabs(replay) else os.path.join(VERIF, replay)) as f:
                payload = json.load(f)
            ok = prop.replay(ctx, payload)
            print("REPLAY %s: %s" % (replay, "property holds on this input" if ok else "property FAILS on this input"))
            return 0 if ok else 1
        build_info = extract_and_build(ctx, prop.LEAN_MODULES, need_driver=getattr(prop, "NEED_DRIVER", True))
        audit_info = audit(ctx, build_info["built"], prop.NAMESPACES)
        expected = set(getattr(prop, "REQUIRED_THEOREMS", []))
        missing = [t for t in expected if t not in audit_info["theorems"]]
        for t in missing:
            ctx.broken_obligation("missing-theorem:" + t)
        # known findings
        for fid, f in sorted(ctx.findings.items()):
            try:
                still = prop.replay_finding(ctx, f)
            except Exception as e:  # a finding whose replay crashes is reported, not hidden
                still = None
                ctx.broken_obligation("finding-replay:" + fid, "%s: %s" % (type(e).__name__, e))
            if f.get("status") == "open":
                if still:
                    ctx.known_hits.setdefault(fid, f["what"])
            else:  # fixed: must pass now
                if still:
                    ctx.violation("regression of fixed finding %s: %s" % (fid, f["what"]), {"finding": fid, "witness": f.get("witness")})
        try:
            prop.run(ctx)
        except subprocess.TimeoutExpired as e:
            # the Lean model (its tables are regenerated from the source) did not answer in time: the
            # correspondence is broken, not the property - search the implementation alone for a failing input
            ctx.broken_obligation("model-driver-timeout", str(e)[:300])
            ctx.model_available = False
            prop.run(ctx)
    except common.ModelError as e:
        print("TOOL-FAILURE: %s" % e)
        return 2
    except subprocess.TimeoutExpired as e:
        print("TIMEOUT: %s" % e)
        return 2
    except Exception:
        traceback.print_exc()
        print("TOOL-FAILURE: unexpected exception in check machinery")
        return 2
    wall = time.time() - t0
    for fid, what in sorted(ctx.known_hits.items()):
        print("KNOWN-FINDING: property=%s %s [%s]" % (pid, what, fid))
    rc = 0
    nviol = 0
    if ctx.violations:
        for i, v in enumerate(ctx.violations):
            payload = {"property": pid, "seed": seed, "tier": tier, "what": v["what"], "input": v["replay"],
                       "replay_cmd": "./check %s --replay <this file>" % pid}
            path = write_replay(ctx, i, payload)
            print("VIOLATION property=%s replay=%s" % (pid, path))
            print("  " + v["what"][:300])
            nviol += 1
        rc = 1
    elif ctx.broken:
        payload = {"property": pid, "seed": seed, "tier": tier,
                   "what": "proof obligation / correspondence no longer checks; failing-input search found nothing",
                   "broken": ctx.broken}
        path = write_replay(ctx, 0, payload)
        print("VIOLATION property=%s replay=%s no-failing-input-found" % (pid, path))
        for b in ctx.broken[:5]:
            print("  broken: %s %s" % (b["name"], b["detail"][:200].replace("\n", " | ")))
        nviol = 1
        rc = 1
    write_evidence(ctx, prop, locals().get("build_info"), locals().get("audit_info"), nviol, wall)
    if rc == 0:
        print("OK property=%s tier=%s theorems=%d evaluations=%d wall=%.1fs" % (
            pid, tier, len((locals().get("audit_info") or {}).get("theorems", {})), ctx.evaluations, wall))
    return rc


if __name__ == "__main__":
    sys.exit(main(sys.argv[1:]))
