"""Semantic generator: small self-contained, type-correct C99/C11 programs (no headers) covering
all statement kinds, all operators on integers, structs/unions/enums/bit-fields, function pointers,
designated initializers, compound literals, qualifiers and storage classes."""

BINOPS = ["+", "-", "*", "&", "|", "^", "<<", ">>", "<", ">", "<=", ">=", "==", "!=", "&&", "||"]
DIVOPS = ["/", "%"]
ASSIGN = ["=", "+=", "-=", "*=", "&=", "|=", "^=", "<<=", ">>="]


class Gen:
    def __init__(self, rng):
        self.rng = rng
        self.uid = 0

    def fresh(self, p):
        self.uid += 1
        return "%s%d" % (p, self.uid)

    def expr(self, vars_, depth):
        r = self.rng
        if depth == 0 or r.random() < 0.25:
            c = r.random()
            if c < 0.5 and vars_:
                return r.choice(vars_)
            if c < 0.8:
                return str(r.randrange(0, 100)) + r.choice(["", "", "u", "L", "UL"])
            return r.choice(["'a'", "0x1F", "017", "sizeof(int)", "(int)sizeof(long)", "g1", "garr[1]", "gs.a", "gp->b", "E1"])
        k = r.randrange(10)
        a = self.expr(vars_, depth - 1)
        b = self.expr(vars_, depth - 1)
        if k < 4:
            op = r.choice(BINOPS)
            if op in ("<<", ">>"):
                return "(%s %s (%s & 7))" % (a, op, b)
            return "(%s %s %s)" % (a, op, b) if r.random() < 0.6 else "%s %s %s" % (self.atomic(a), op, self.atomic(b))
        if k == 4:
            return "(%s %s ((%s) | 1))" % (a, r.choice(DIVOPS), b)
        if k == 5:
            return "(%s ? %s : %s)" % (a, b, self.expr(vars_, depth - 1))
        if k == 6:
            return "%s(%s)" % (r.choice(["-", "~", "!", "+"]), a)
        if k == 7:
            return "f0(%s, %s)" % (a, b)
        if k == 8:
            return "(%s, %s)" % (a, b)
        return "(%s)(%s)" % (r.choice(["int", "long", "unsigned", "char", "short"]), a)

    def atomic(self, e):
        return e if (e.isalnum() or e.startswith("(")) else "(" + e + ")"

    def stmt(self, vars_, depth, in_loop=False, in_switch=False):
        r = self.rng
        e = lambda: self.expr(vars_, 2)
        if depth == 0:
            k = r.randrange(6)
            if k == 0 and vars_:
                return "%s %s %s;" % (r.choice(vars_), r.choice(ASSIGN), e())
            if k == 1 and vars_:
                return r.choice(["%s++;", "++%s;", "%s--;", "--%s;"]) % r.choice(vars_)
            if k == 2:
                return "g1 = %s;" % e()
            if k == 3 and in_loop:
                return r.choice(["break;", "continue;"])
            if k == 4:
                return ";"
            return "garr[%s & 3] = %s;" % (e(), e())
        k = r.randrange(11)
        s = lambda **kw: self.stmt(vars_, depth - 1, **kw)
        if k == 0:
            return "if (%s) %s" % (e(), self.block(vars_, depth - 1, in_loop, in_switch))
        if k == 1:
            return "if (%s) %s else %s" % (e(), self.block(vars_, depth - 1, in_loop, in_switch), s(in_loop=in_loop, in_switch=in_switch))
        if k == 2:
            v = self.fresh("i")
            return "for (int %s = 0; %s < %d; %s++) %s" % (v, v, r.randrange(1, 5), v, self.block(vars_ + [v], depth - 1, True, False))
        if k == 3:
            v = self.fresh("w")
            return "{ int %s = %d; while (%s-- > 0) %s }" % (v, r.randrange(1, 4), v, self.block(vars_ + [v], depth - 1, True, False))
        if k == 4:
            v = self.fresh("d")
            return "{ int %s = 0; do %s while (++%s < %d); }" % (v, self.block(vars_ + [v], depth - 1, True, False), v, r.randrange(1, 4))
        if k == 5:
            cases = "".join("case %d: %s %s" % (i, s(in_loop=in_loop, in_switch=True), r.choice(["break;", ""])) for i in range(r.randrange(1, 4)))
            return "switch (%s & 3) { %s default: %s }" % (e(), cases, s(in_loop=in_loop, in_switch=True))
        if k == 6:
            return self.block(vars_, depth - 1, in_loop, in_switch)
        if k == 7:
            lbl = self.fresh("L")
            return "{ if (%s) goto %s; %s %s: ; }" % (e(), lbl, s(in_loop=in_loop, in_switch=in_switch), lbl)
        if k == 8:
            v = self.fresh("p")
            return "{ int *%s = &g1; *%s = %s; %s }" % (v, v, e(), s(in_loop=in_loop, in_switch=in_switch))
        if k == 9:
            return "{ struct S1 ls = { .b = %s, .a = %s }; gs = ls; gs = (struct S1){ %s, %s }; }" % (e(), e(), e(), e())
        return "for (;;) { %s break; }" % s(in_loop=True, in_switch=False)

    def block(self, vars_, depth, in_loop=False, in_switch=False):
        r = self.rng
        items = []
        vs = list(vars_)
        for _ in range(r.randrange(1, 4)):
            if r.random() < 0.3:
                v = self.fresh("v")
                q = r.choice(["int", "unsigned", "long", "const int", "volatile int", "short", "static int", "register int"])
                init = str(r.randrange(0, 50)) if "static" in q else self.expr(vs, 2)
                items.append("%s %s = %s;" % (q, v, init))
                if "const" not in q:
                    vs.append(v)
            else:
                items.append(self.stmt(vs, depth, in_loop, in_switch))
        return "{ " + " ".join(items) + " }"

    def program(self):
        r = self.rng
        self.uid = 0
        parts = [
            "enum E0 { E1 = 1, E2, E3 = E1 + 4 };",
            "struct S1 { int a; int b; };",
            "struct S2 { unsigned f1 : 3; int f2 : 5; unsigned : 0; unsigned f3 : 1; struct S1 in; union { int u1; char u2; }; };",
            "typedef int (*fn_t)(int, int);",
            "typedef struct S1 s1_t;",
            "int g1 = 3;",
            "static int g2 = 4;",
            "int garr[4] = { [2] = 5, [0] = 1 };",
            "struct S1 gs = { .b = 2, .a = 1 };",
            "struct S1 *gp = &gs;",
            "const char *gstr = \"a\" \"b\\n\";",
            "int f0(int x, int y) { return x + y; }",
            "static inline int f1(int x) { return x * 2; }",
            "fn_t gfp = f0;",
            "extern int gext;",
            "_Static_assert(sizeof(int) >= 2, \"int\");",
        ]
        if r.random() < 0.5:
            parts.append("_Alignas(16) int gal;")
        if r.random() < 0.5:
            parts.append("_Noreturn void die(void);")
        if r.random() < 0.5:
            parts.append("struct S2 g22 = { .f1 = 1, .in = { 1, 2 }, .u1 = 3 };")
        if r.random() < 0.5:
            parts.append("int (*gtab[2])(int, int) = { f0, f0 };")
        if r.random() < 0.3:
            parts.append("_Thread_local int gtl;")
        for i in range(r.randrange(1, 4)):
            nm = "fn%d" % i
            parts.append("int %s(int a, int b) %s" % (nm, self.body(["a", "b"], r.randrange(1, 3))))
        parts.append("int main(void) { return fn0(1, 2) + gfp(1, 2) + f1(2) + gs.a; }")
        return "\n".join(parts) + "\n"

    def body(self, vars_, depth):
        b = self.block(vars_, depth)
        return b[:-1] + " return %s; }" % self.expr(vars_, 2)
