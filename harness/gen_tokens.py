"""Generators of valid C token spellings (written from C99 6.4, independent of pycparser's tables)
and of layouts that record where each token was placed."""

KEYWORDS = [
    "auto", "break", "case", "char", "const", "continue", "default", "do", "double", "else", "enum",
    "extern", "float", "for", "goto", "if", "inline", "int", "long", "register", "restrict", "return",
    "short", "signed", "sizeof", "static", "struct", "switch", "typedef", "union", "unsigned", "void",
    "volatile", "while", "_Bool", "_Complex", "_Noreturn", "_Thread_local", "_Static_assert", "_Atomic",
    "_Alignof", "_Alignas", "_Pragma", "__int128", "offsetof",
]

PUNCT = {
    "[": "LBRACKET", "]": "RBRACKET", "(": "LPAREN", ")": "RPAREN", "{": "LBRACE", "}": "RBRACE",
    ".": "PERIOD", "->": "ARROW", "++": "PLUSPLUS", "--": "MINUSMINUS", "&": "AND", "*": "TIMES",
    "+": "PLUS", "-": "MINUS", "~": "NOT", "!": "LNOT", "/": "DIVIDE", "%": "MOD", "<<": "LSHIFT",
    ">>": "RSHIFT", "<": "LT", ">": "GT", "<=": "LE", ">=": "GE", "==": "EQ", "!=": "NE", "^": "XOR",
    "|": "OR", "&&": "LAND", "||": "LOR", "?": "CONDOP", ":": "COLON", ";": "SEMI", "...": "ELLIPSIS",
    "=": "EQUALS", "*=": "TIMESEQUAL", "/=": "DIVEQUAL", "%=": "MODEQUAL", "+=": "PLUSEQUAL",
    "-=": "MINUSEQUAL", "<<=": "LSHIFTEQUAL", ">>=": "RSHIFTEQUAL", "&=": "ANDEQUAL", "^=": "XOREQUAL",
    "|=": "OREQUAL", ",": "COMMA",
}

# punctuators that can never merge with a neighbour under maximal munch (no longer token contains them)
SAFE_ADJ = {"(", ")", "[", "]", "{", "}", ",", ";", "~", "?"}

INT_SUFFIXES = ["", "u", "U", "l", "L", "ul", "uL", "Ul", "UL", "lu", "lU", "Lu", "LU", "ll", "LL",
                "ull", "uLL", "Ull", "ULL", "llu", "llU", "LLu", "LLU"]

IDENT_START = "abcdefghijklmnopqrstuvwxyzABCDEFGHIJKLMNOPQRSTUVWXYZ_$"
IDENT_CONT = IDENT_START + "0123456789"


def kw_class(k):
    return k.upper()


def near_keyword(rng):
    """an identifier that merely resembles a keyword: other case, a prefix, an extension, a wrapped form"""
    k = rng.choice(KEYWORDS)
    return rng.choice([k.lower(), k.upper(), k.capitalize(), k.swapcase(), k + rng.choice("x_0$"), rng.choice("x_$") + k, k[:-1], k[1:], k + k,
                       k[:2].upper() + k[2:].lower(), k.replace("_", "__", 1), k.strip("_"), "_" + k.strip("_").lower(), "__" + k.strip("_") + "__"])


def gen_ident(rng):
    while True:
        n = rng.choice([1, 1, 2, 3, 5, 8])
        s = rng.choice(IDENT_START) + "".join(rng.choice(IDENT_CONT) for _ in range(n - 1))
        if rng.random() < 0.25:
            s = near_keyword(rng)
            if not s or s[0] in "0123456789":
                continue
        if s not in KEYWORDS and s not in ("L", "u", "U", "u8"):
            return s


def gen_int(rng):
    kind = rng.choice(["dec", "dec", "oct", "hex", "bin", "zero"])
    suf = rng.choice(INT_SUFFIXES)
    if kind == "dec":
        s = rng.choice("123456789") + "".join(rng.choice("0123456789") for _ in range(rng.randrange(0, 6)))
        return s + suf, "INT_CONST_DEC"
    if kind == "zero":
        # pycparser classifies a lone 0 (with suffix) as octal (rule order); C99 agrees: 0 is octal
        return "0" + suf, "INT_CONST_OCT"
    if kind == "oct":
        s = "0" + "".join(rng.choice("01234567") for _ in range(rng.randrange(1, 6)))
        return s + suf, "INT_CONST_OCT"
    if kind == "hex":
        s = rng.choice(["0x", "0X"]) + "".join(rng.choice("0123456789abcdefABCDEF") for _ in range(rng.randrange(1, 7)))
        return s + suf, "INT_CONST_HEX"
    s = rng.choice(["0b", "0B"]) + "".join(rng.choice("01") for _ in range(rng.randrange(1, 7)))
    return s + suf, "INT_CONST_BIN"


def gen_float(rng):
    digs = lambda a, b: "".join(rng.choice("0123456789") for _ in range(rng.randrange(a, b)))
    hdigs = lambda a, b: "".join(rng.choice("0123456789abcdefABCDEF") for _ in range(rng.randrange(a, b)))
    suf = rng.choice(["", "", "f", "F", "l", "L"])
    if rng.random() < 0.3:
        # hexadecimal floating constant: 0x (hexdigits | hexfrac) p[+-]digits
        form = rng.choice(["int", "frac", "dot"])
        if form == "int":
            m = hdigs(1, 5)
        elif form == "frac":
            m = hdigs(0, 4) + "." + hdigs(1, 4)
        else:
            m = hdigs(1, 4) + "."
        e = rng.choice("pP") + rng.choice(["", "+", "-"]) + digs(1, 4)
        return rng.choice(["0x", "0X"]) + m + e + suf, "HEX_FLOAT_CONST"
    form = rng.choice(["frac", "dot", "exp"])
    exp = rng.choice("eE") + rng.choice(["", "+", "-"]) + digs(1, 4)
    if form == "frac":
        s = digs(0, 4) + "." + digs(1, 4) + (exp if rng.random() < 0.5 else "")
    elif form == "dot":
        s = digs(1, 4) + "." + (exp if rng.random() < 0.5 else "")
    else:
        s = digs(1, 4) + exp
    return s + suf, "FLOAT_CONST"


SIMPLE_ESC = ["\\n", "\\t", "\\\\", "\\'", '\\"', "\\?", "\\a", "\\b", "\\f", "\\r", "\\v", "\\0", "\\12", "\\x41", "\\xfF"]
PLAIN = "abcXYZ 019_+-*/%&|^~!=<>()[]{}.,;:?#@$`"


def gen_cchar(rng, quote):
    if rng.random() < 0.3:
        return rng.choice(SIMPLE_ESC)
    while True:
        c = rng.choice(PLAIN + ('"' if quote == "'" else "'"))
        if c != quote:
            return c


def gen_char(rng):
    pre, cls = rng.choice([("", "CHAR_CONST"), ("", "CHAR_CONST"), ("L", "WCHAR_CONST"), ("u8", "U8CHAR_CONST"),
                           ("u", "U16CHAR_CONST"), ("U", "U32CHAR_CONST")])
    return pre + "'" + gen_cchar(rng, "'") + "'", cls


def gen_string(rng):
    pre, cls = rng.choice([("", "STRING_LITERAL"), ("", "STRING_LITERAL"), ("L", "WSTRING_LITERAL"),
                           ("u8", "U8STRING_LITERAL"), ("u", "U16STRING_LITERAL"), ("U", "U32STRING_LITERAL")])
    body = "".join(gen_cchar(rng, '"') for _ in range(rng.randrange(0, 8)))
    return pre + '"' + body + '"', cls


def gen_token(rng, typedefs=()):
    """returns (spelling, expected class)"""
    r = rng.random()
    if r < 0.25:
        p = rng.choice(list(PUNCT))
        return p, PUNCT[p]
    if r < 0.40:
        k = rng.choice(KEYWORDS)
        return k, kw_class(k)
    if r < 0.55:
        if typedefs and rng.random() < 0.3:
            return rng.choice(list(typedefs)), "TYPEID"
        while True:
            s = gen_ident(rng)
            if s not in typedefs:
                return s, "ID"
    if r < 0.70:
        return gen_int(rng)
    if r < 0.82:
        return gen_float(rng)
    if r < 0.91:
        return gen_char(rng)
    return gen_string(rng)


class Layout:
    """Places tokens into a text, keeping its own record of (line, column, file) for each."""

    def __init__(self, file="f.c"):
        self.parts = []
        self.line = 1
        self.col = 1
        self.file = file
        self.expected = []  # (class, spelling, line, col, file)
        self.at_line_start = True

    def put(self, s):
        self.parts.append(s)
        for ch in s:
            if ch == "\n":
                self.line += 1
                self.col = 1
            else:
                self.col += 1
        if s:
            self.at_line_start = s.endswith("\n")

    def sep(self, s):
        self.put(s)

    def token(self, spelling, cls):
        self.expected.append((cls, spelling, self.line, self.col, self.file))
        self.put(spelling)
        self.at_line_start = False

    def newline_if_needed(self):
        if not self.at_line_start_strict():
            self.put("\n")

    def at_line_start_strict(self):
        return self.col == 1

    def line_directive(self, rng, n, fname=None, style=None):
        """a `#line` / linemarker on a line of its own; following text is on line n (of fname)."""
        self.newline_if_needed()
        style = style or rng.choice(["line", "marker"])
        lead = rng.choice(["", " ", "\t"])
        s = lead + "#" + rng.choice(["", " ", "  "])
        if style == "line":
            s += "line" + rng.choice([" ", "\t", "  "]) + str(n)
        else:
            s += str(n)
        if fname is not None:
            s += rng.choice([" ", "\t"]) + '"' + fname + '"'
            if style == "marker" and rng.random() < 0.5:
                s += " " + " ".join(str(rng.randrange(1, 5)) for _ in range(rng.randrange(1, 3)))
        s += rng.choice(["", " ", "\t"])
        self.parts.append(s + "\n")
        self.line = n
        self.col = 1
        if fname is not None:
            self.file = fname
        self.at_line_start = True

    def pragma(self, rng, body):
        self.newline_if_needed()
        lead = rng.choice(["", " ", "\t"])
        self.put(lead + "#" + rng.choice(["", " "]))
        self.expected.append(("PPPRAGMA", "pragma", self.line, self.col, self.file))
        self.put("pragma")
        if body:
            self.put(rng.choice([" ", "\t", "  "]))
            self.expected.append(("PPPRAGMASTR", body, self.line, self.col, self.file))
            self.put(body)
        # blanks between the last token of the line and the newline are layout
        self.put(rng.choice(["", "", " ", "\t", "  \t"]) + "\n")

    def text(self):
        return "".join(self.parts)


def random_sep(rng, need=True):
    choices = [" ", " ", "\t", "\n", "  ", " \n", "\n\n", "\n\t", " \t "]
    if not need and rng.random() < 0.6:
        return ""
    return rng.choice(choices)


def needs_sep(a, b):
    """conservative: may tokens with spellings a, b be written adjacent without merging?"""
    return not (a in SAFE_ADJ or b in SAFE_ADJ)
