"""Repository corpus: every C text in the repo's tests/examples that the parser accepts or rejects."""
import ast as pyast, glob, os, functools
from .common import REPO, model_ok_text


@functools.lru_cache(maxsize=1)
def all_texts():
    srcs = []
    for pat in ("tests/c_files/*.c", "tests/c_files/*.h", "examples/c_files/*.c", "examples/c_files/*.ppout", "tests/c_files/*.ppout"):
        for f in sorted(glob.glob(os.path.join(REPO, pat))):
            try:
                srcs.append(open(f, errors="replace").read())
            except OSError:
                pass
    for f in sorted(glob.glob(os.path.join(REPO, "tests/test_c_*.py"))):
        try:
            tree = pyast.parse(open(f).read())
        except SyntaxError:
            continue
        for n in pyast.walk(tree):
            if isinstance(n, pyast.Constant) and isinstance(n.value, str) and len(n.value) > 3:
                srcs.append(n.value)
    return [s for s in dict.fromkeys(srcs) if model_ok_text(s) and "\x00" not in s]


@functools.lru_cache(maxsize=1)
def valid_programs():
    from .pyparse import py_parse_obj
    return [s for s in all_texts() if py_parse_obj(s, "f.c")[0] == "OK"]


def lex_tokens(text):
    """token spellings of a text with the real lexer (used only to build mutants)"""
    from pycparser.c_lexer import CLexer
    out = []
    lx = CLexer(lambda *a: None, lambda: None, lambda: None, lambda n: False)
    lx.input(text)
    for _ in range(len(text) + 5):
        t = lx.token()
        if t is None:
            break
        out.append((t.type, t.value))
    return out
