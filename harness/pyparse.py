"""Run the real CParser / CGenerator and render results in the model driver's formats."""
import sys
from .common import req, esc

_CRASH = {"AssertionError": "assertion", "AttributeError": "attribute", "ValueError": "value",
          "IndexError": "index", "TypeError": "type", "KeyError": "key"}


def quote(s):
    return '"' + s.replace("\\", "\\\\").replace('"', '\\"').replace("\n", "\\n").replace(" ", "\\s") + '"'


def _fix_quote_order():
    # Lean's quoteStr escapes char by char: '"'->\" , '\\'->\\\\ ; the replace chain above must
    # escape backslashes first (done) so both agree.
    pass


def dump(v, with_coord=False):
    from pycparser import c_ast
    out = []
    _dump(v, with_coord, out, c_ast.Node)
    return "".join(out)


def _dump(v, wc, out, Node):
    if v is None:
        out.append("~")
    elif isinstance(v, str):
        out.append(quote(v))
    elif isinstance(v, (list, tuple)):
        out.append("[")
        for x in v:
            out.append(" ")
            _dump(x, wc, out, Node)
        out.append("]")
    elif isinstance(v, Node):
        out.append("(" + v.__class__.__name__)
        if wc:
            c = v.coord
            out.append("@" + ("~" if c is None else str(c)))
        for slot in v.__slots__[:-2]:
            out.append(" ")
            _dump(getattr(v, slot), wc, out, Node)
        out.append(")")
    else:
        out.append("<%s:%r>" % (type(v).__name__, v))


def py_parse_obj(text, file="", parser=None):
    """returns ('OK', ast) | ('PE', msg) | ('CRASH', kind, exc) | ('FUEL',)"""
    from pycparser.c_parser import CParser, ParseError
    p = parser or CParser()
    try:
        ast = p.parse(text, file)
        return ("OK", ast)
    except ParseError as e:
        return ("PE", str(e))
    except RecursionError:
        return ("FUEL",)
    except Exception as e:  # noqa
        return ("CRASH", _CRASH.get(type(e).__name__, type(e).__name__), e)


def py_parse(text, file="", coords=True):
    """one line in the model driver's `parse` response format"""
    r = py_parse_obj(text, file)
    if r[0] == "OK":
        try:
            a = dump(r[1], False)
            b = dump(r[1], True) if coords else ""
        except RecursionError:
            return "FUEL"
        return "OK\t" + esc(a) + "\t" + esc(b)
    if r[0] == "PE":
        return "PE\t" + esc(r[1])
    if r[0] == "FUEL":
        return "FUEL"
    return "CRASH\t" + r[1]


def parse_req(text, file=""):
    return req("parse", file, text)


def norm_model_parse(line):
    """drop the crash-site detail the real code cannot report"""
    if line.startswith("CRASH\t"):
        return "\t".join(line.split("\t")[:2])
    return line


def py_gen_text(ast, rp):
    from pycparser.c_generator import CGenerator
    try:
        return "T:" + esc(CGenerator(reduce_parentheses=rp).visit(ast))
    except RecursionError:
        return "X:fuel"
    except Exception as e:  # noqa
        return "X:" + _CRASH.get(type(e).__name__, type(e).__name__)


def py_gen(text, file=""):
    """one line in the model driver's `gen` response format"""
    r = py_parse_obj(text, file)
    if r[0] == "OK":
        return "OK\t" + py_gen_text(r[1], False) + "\t" + py_gen_text(r[1], True)
    if r[0] == "PE":
        return "PE\t" + esc(r[1])
    if r[0] == "FUEL":
        return "FUEL"
    return "CRASH\t" + r[1]


def gen_req(text, file=""):
    return req("gen", file, text)


def py_parse_nocoord(text):
    return py_parse(text, "", coords=False)
