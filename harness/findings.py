"""Replay of known-finding witnesses against the real code (generic witness kinds)."""
from .common import unesc
from .pyparse import py_parse_obj, dump, py_gen_text


def still_fails(w):
    """True iff the defect described by witness `w` is still present in /repo's working tree."""
    kind = w["kind"]
    r = py_parse_obj(w["text"], w.get("file", ""))
    if kind == "rejects_valid":          # valid C that must be accepted
        return r[0] != "OK"
    if kind == "crash":                  # must be FileAST or ParseError (C06)
        return r[0] == "CRASH"
    if kind == "bad_prefix":             # ParseError whose message lacks a location prefix
        import re
        return r[0] == "PE" and not re.match(r"^(.*:\d+:\d+|[^:?]*): ", r[1]) or (r[0] == "PE" and (r[1].startswith("?:") or r[1].startswith("None:")))
    if kind == "dump_lacks":             # accepted, but the AST lacks what the spec requires
        return r[0] != "OK" or w["needle"] not in dump(r[1], False)
    if kind == "dump_has":               # accepted with a wrong construct in the AST
        return r[0] == "OK" and w["needle"] in dump(r[1], False)
    if kind == "coord_dump_has":
        return r[0] == "OK" and w["needle"] in dump(r[1], True)
    if kind == "roundtrip":              # parse . generate . parse = parse
        if r[0] != "OK":
            return False
        g = py_gen_text(r[1], False)
        if not g.startswith("T:"):
            return True
        r2 = py_parse_obj(unesc(g[2:]), "")
        return r2[0] != "OK" or dump(r2[1], False) != dump(r[1], False)
    if kind == "bad_location":           # rejected, with exactly this (insufficiently located) message
        r = py_parse_obj(w["text"], w.get("file", "f.c"))
        return r[0] == "PE" and r[1] == w["message"]
    if kind == "accepts_invalid":
        return r[0] == "OK"
    raise ValueError("unknown witness kind " + kind)
