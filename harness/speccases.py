"""Cases whose expected observation comes from the Lean specification (driver `c0x ...` ops)."""
from .common import run_model, req, unesc, US, pmap
from .pyparse import py_parse_nocoord, parse_req, norm_model_parse


def fetch(requests):
    """requests: list of argument tuples for the driver; returns list of (text, expected_dump)"""
    out = []
    for line in run_model([req(*r) for r in requests]):
        fields = line.split("\t")
        if fields and fields[0].isdigit():
            fields = fields[1:]
        for c in fields:
            if not c:
                continue
            parts = c.split(US)
            if len(parts) != 2:
                raise RuntimeError("bad spec case record: %r" % c[:80])
            out.append((unesc(parts[0]), unesc(parts[1])))
    return out


def check_against_spec(ctx, cases, label, finding_classifier=None, model_too=True):
    """impl must return exactly the AST the specification assigns; the model must agree with impl."""
    texts = [c[0] for c in cases]
    py = pmap(py_parse_nocoord, texts)
    md = None
    if model_too and ctx.model_available:
        md = [norm_model_parse(x) for x in run_model([parse_req(t, "") for t in texts])]
    keys = set()
    for i, (text, want) in enumerate(cases):
        keys.add(text)
        pf = py[i].split("\t")
        got = unesc(pf[1]) if pf[0] == "OK" else py[i]
        if got != want:
            ctx.violation("%s: AST differs from the specification for %r: got %s" % (label, text[:120], got[:160]),
                          {"kind": "spec", "text": text, "expected": want}, finding_classifier)
        elif md is not None:
            mf = md[i].split("\t")
            mgot = unesc(mf[1]) if mf[0] == "OK" else md[i]
            if mgot != got:
                ctx.violation("%s: real parser and Lean model disagree on %r" % (label, text[:120]),
                              {"kind": "spec", "text": text, "expected": want}, finding_classifier)
    ctx.count(len(cases), nontrivial_keys=keys)
    if cases:
        ctx.sample({"kind": label, "text": cases[len(cases) // 3][0], "expected_ast": cases[len(cases) // 3][1][:300]})


def replay_spec(ctx, payload):
    inp = payload["input"]
    got = py_parse_nocoord(inp["text"])
    pf = got.split("\t")
    g = unesc(pf[1]) if pf[0] == "OK" else got
    print("impl    :", g[:400])
    print("expected:", inp["expected"][:400])
    return g == inp["expected"]
