#!/bin/bash
# tools/seed.sh confirm <wt>            : confirm a seeded change in its scratch worktree (tests green, demo fails with / passes without)
# tools/seed.sh run <patch> <ids...>    : apply patch to /repo, run the given checks (quick), undo
set -u
cmd=$1; shift
if [ "$cmd" = confirm ]; then
  wt=$1
  cd $wt || exit 2
  echo "== tests with change"; PYTHONPATH=$wt /venv/bin/python -m pytest -q -p no:cacheprovider tests 2>&1 | tail -1
  echo "== demo with change (must fail)"; /venv/bin/python demo.py >/dev/null 2>&1; echo "rc=$?"
  git diff -- pycparser | diff -q - patch.diff >/dev/null || echo "WARNING: worktree diff differs from patch.diff"
  git apply -R patch.diff
  echo "== demo without change (must pass)"; /venv/bin/python demo.py >/dev/null 2>&1; echo "rc=$?"
  git apply patch.diff
  git diff --stat -- pycparser | tail -1
elif [ "$cmd" = run ]; then
  patch=$1; shift
  cd /repo && git diff --quiet || { echo "/repo not clean"; exit 2; }
  git -C /repo apply $patch || exit 2
  cd /verif
  for id in "$@"; do
    out=$(VERIF_EVIDENCE_DIR=/tmp/seed_evidence VERIF_SEED=${VERIF_SEED:-0} ./check $id ${TIER:-quick} 2>&1); rc=$?
    echo "$id rc=$rc $(echo "$out" | grep -E '^(OK|VIOLATION)' | head -2 | cut -c1-220)"
    echo "$out" | grep -A1 '^VIOLATION' | grep -v '^VIOLATION\|^--' | head -1 | cut -c1-300
  done
  git -C /repo checkout -- .
  cd /repo && git status --short | head -3
fi
