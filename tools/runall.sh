#!/bin/bash
# run every check's quick (or given tier) command once; print the verdict lines
cd "$(dirname "$0")/.."
tier=${1:-quick}
for p in C01 C02 C03 C04 C05 C06 C07 C08 C09 C10 C11 C12 C13 C14 C15 C16 C17 C18 C19; do
  s=$(date +%s)
  out=$(./check $p $tier 2>&1)
  rc=$?
  echo "$p rc=$rc $(( $(date +%s) - s ))s $(echo "$out" | grep -E '^(OK|VIOLATION|TOOL-FAILURE|TIMEOUT)' | head -2 | cut -c1-200)"
done
