#!/usr/bin/env python3
"""Writes MANIFEST.json from the table below (single source of truth for what is claimed)."""
import json, os
HERE = os.path.dirname(os.path.dirname(os.path.abspath(__file__)))

CHECKS = {
 "C09": dict(cat="proof", tech="Lean 4 theorems over a scanner model whose regexes/tables are regenerated from c_lexer.py + differential correspondence",
   text="Lean theorems (termination/never-stuck for every text and every well-formed table; table obligations against C99 6.4.1/6.4.6 re-checked by the kernel on the regenerated tables) about an executable scanner model whose regexes are machine-translated from the compiled patterns of c_lexer.py on every run; the model is tied to the real CLexer by exhaustive short-string and random layout correspondence.",
   note="Trusted: Lean kernel; axioms propext/Classical.choice/Quot.sound; tools/extract.py regex translation; PycModel.Regex as a model of Python's re (backtracking order, lookahead, $); harness. Position theorems speak about the model.", ref="§6 C09"),
 "C02": dict(cat="proof", tech="Lean 4 spec of C99 expression grammar + table obligations on regenerated precedence tables + spec-vs-code and model-vs-code correspondence",
   text="The C99 expression grammar, its renderer and the documented AST are a Lean specification (Spec/Expr.lean); kernel-checked obligations tie the precedence / assignment-operator tables regenerated from c_parser.py to C99's ten levels and to the tables of the Lean parser model; the real parser is compared with the specification on every tree with <=2 (thorough: <=3) operator nodes x 3 parenthesisations x 10 contexts and with the Lean parser model.",
   note="The round-trip theorem over the parser model (C02.Full) is work in progress: what is kernel-checked today are the table obligations; the universal claim for all trees rests on the exhaustive/differential comparison with the Lean spec. Trusted: Lean kernel, Spec/Expr.lean, extractor, harness.", ref="§6 C02"),
 "C06": dict(cat="proof", tech="Lean 4 theorems on the lexer/error channel of the parser model + exhaustive token-sequence correspondence of real parser vs Lean model",
   text="Theorems: the scanner model is total and never spins on any text; pulling a token never raises anything but the lexer's own error; lexer errors always surface with a file:line:col prefix. The complete parser model (every production, every Python crash site explicit) is compared with the real parser on all <=2 (thorough <=3) token sequences over a 66-token alphabet x 9 prefixes, reduced-alphabet sequences of length 3 (4), token mutants of the corpus and character noise; any escape other than ParseError-with-location is a violation.",
   note="Whole-parser crash-freedom (C06.Full) is stated in Lean but proved only for the lexer side; the rest is differential. RecursionError tolerated. Trusted: Lean kernel, extractor, harness.", ref="§6 C06"),
 "C03": dict(cat="proof", tech="Lean 4 spec of C99 6.7.5 declarators (denotation) + theorems on the spec + table obligations + spec-vs-code / model-vs-code correspondence",
   text="Declarator syntax, the inside-out denotation of C99 6.7.5 and the documented AST are a Lean specification (Spec/Decl.lean); theorems: every derivation list is denoted by the declarator the enumerator builds (so enumerating derivation lists enumerates all declarator meanings), names and redundant parentheses; table obligations tie the specifier tables of c_parser.py to the model. The real parser is compared with the specification on all derivation sequences of length <=3 (thorough 4) x 11 contexts and on random longer ones, and with the Lean parser model.",
   note="The theorem that the parser model returns chainVal(denote D) for all D is not yet proved; the universal claim rests on exhaustive/differential comparison with the Lean spec. Trusted: Lean kernel, Spec/Decl.lean, extractor, harness.", ref="§6 C03"),
 "C05": dict(cat="proof", tech="Lean 4 spec of C99 6.8 statements incl. switch regrouping + theorems on the regrouping spec + spec-vs-code / model-vs-code correspondence",
   text="Statement syntax, the documented AST and the switch-block regrouping (written from the property's wording) are a Lean specification (Spec/Stmt.lean); theorems about the regrouping (label-free blocks untouched, statements before the first label stay in order). The real parser is compared with the specification on all statement trees of depth <=2 (thorough 3) over the reduced alphabet and random function bodies with declarations, pragmas and label chains, and with the Lean parser model (which mirrors fix_switch_cases line by line).",
   note="The refinement theorem fix_switch model = regroup spec for all parser-shaped blocks is not yet proved. Trusted: Lean kernel, Spec/Stmt.lean, extractor, harness.", ref="§6 C05"),
 "C07": dict(cat="proof", tech="Lean 4 generator+parser model with table obligations (generator precedence = parser precedence) + round-trip search on real code + generator-model correspondence",
   text="Kernel-checked obligations: the generator's precedence map equals the parser's table and the model's copies equal the code's; the complete generator model (every visit_* method) is compared text-for-text with the real generator on every program of the pool; the property itself (parse.generate.parse = parse, both configurations, second generation identical) is evaluated on the real code for all programs rendered by the Lean specs, the corpus and accepted token mutants.",
   note="The round-trip theorem over the models is not yet proved; the kernel-checked part is the table obligations. Trusted: Lean kernel, extractor, harness.", ref="§6 C07"),
 "C01": dict(cat="proof", tech="Lean 4 grammar specs (expressions, declarators, statements) + kernel-checked vocabulary/FIRST-set obligations + acceptance search on real parser and Lean parser model",
   text="Programs are renderings of the Lean specifications of C99 6.5 / 6.7.5 / 6.8 (valid by construction) plus gcc-validated one-feature C99/C11 programs; the real parser and the complete Lean parser model must accept all of them. Kernel-checked: keyword / punctuator tables against the standard, FIRST-set tables of the model against the code.",
   note="partial: the acceptance theorem for all derivable translation units is not proved; acceptance is observed on the real code. Open findings (valid C rejected) are listed in known_findings.json. Trusted: Lean kernel, Spec/*.lean, gcc for the feature list, extractor, harness.", ref="§6 C01"),
 "C04": dict(cat="proof", tech="Lean 4 spec of C99 block scoping + refinement theorems for the parser model's scope stack + exhaustive history correspondence",
   text="Spec/Scoping.lean defines when a name is a type from C99 6.2.1 alone; theorems: the parser model's scope-stack operations refine the specification's scope map (declaration in the innermost scope decides, other names untouched, opening a block is transparent, inner hides outer until close, lookup = spec lookup) for all stacks and names. All well-formed histories of <=3 (thorough 4) events over 2 names x nesting depth 2 x 4 prefixes, both names probed after every event with 4 probe forms, are run on the real parser and compared with Spec.isType.",
   note="partial: the theorems cover the scope data structure; the *timing* of registrations is covered by the exhaustive histories, and its known deviations are open findings (late registration, enumerator/label shadowing, for-init leak, prototype parameters, self-reference in initializer). Trusted: Lean kernel, Spec/Scoping.lean, harness.", ref="§6 C04"),
 "C08": dict(cat="other", tech="Lean 4 proved counter-example (designator encoding not injective) + precedence obligations + gcc -S differential on generated type-correct programs",
   text="A compiler's code generation cannot be modelled in Lean. Machine-checked: precedence obligations (generator = parser = C99) and a proved counter-example to the property (two different token sequences, '[N] = 1' and '.N = 1', get the same AST in the parser model; replayed on the real code as a known finding). The property's own oracle - gcc -std=c11 -S at -O0/-O1 on original vs regenerated text, both generator configurations - is run on type-correct programs from a semantic generator and on the corpus.",
   note="Not a proof of the property: differential evidence plus one proved counter-example class; level 'other'. Trusted: gcc, harness/semgen.py.", ref="§6 C08, §10"),
 "C10": dict(cat="proof", tech="Lean 4 lexical spec of C99 literals + suffix-typing theorem for all spellings + exhaustive spec-vs-lexer-vs-model classification",
   text="Spec/Lexical.lean recognises C99 6.4.4/6.4.5 literals (+ documented extensions). Theorem (all digit strings, all 23 suffixes): the type the parser model attaches to an integer constant is the one its suffix implies. Every string of length <=4 (thorough 5/6) over two literal alphabets is classified by the real lexer, by the specification and by the Lean scanner model (regexes regenerated from the source); random long literals of every kind are checked for class, value and Constant.type; malformed families must be reported through the error callback.",
   note="The equivalence regex-table = spec for all strings is not proved (exhaustive on short strings instead). Trusted: Lean kernel, Spec/Lexical.lean, regex translation, harness.", ref="§6 C10"),
 "C11": dict(cat="proof", tech="Lean 4 parser model with coordinates as token indices resolved from lexer events + theorems on resolution + recorded-layout oracle on real parser",
   text="In the parser model a coordinate is (token index, file reference) and is turned into (file, line, column) by copying from the lexer event it indexes: theorems state that line/column/file of every token coordinate are those of that event and that lexer errors are reported at the scanner's position. The real parser is run on programs re-laid out by a renderer that records every token's (line, column, file), with linemarkers between arbitrary tokens: every node coordinate must be a recorded token start in the right file, leaf nodes must spell that token, required classes must carry a coordinate, illegal-character errors must be exact; all coordinates are also compared with the Lean model.",
   note="Span membership (token lies inside its construct) is not modelled. Trusted: Lean kernel, layout renderer, harness.", ref="§6 C11"),
 "C12": dict(cat="proof", tech="Lean 4 instance state machine: parse() re-initialises all state (theorem) + field-inventory obligation + call-sequence runs on real instances",
   text="Theorems over the parser model: parse() overwrites every field of the instance state, hence the result of a call is independent of the prior state, the n-th result of any call sequence equals a fresh instance's, and the same text twice gives equal results. Kernel-checked inventory: every instance attribute the live CParser/CLexer/_TokenStream/CGenerator ever hold is one the model accounts for. Real instances are driven through random call sequences (valid, failing mid-scope, clashing names) and compared call by call with fresh ones, incl. CLexer.input() reuse, CGenerator reuse, and node-identity disjointness.",
   note="Object identity is a runtime check only. Trusted: Lean kernel, extractor inventory, harness.", ref="§6 C12"),
 "C13": dict(cat="proof", tech="Lean 4 non-interference theorem for interleaved deterministic machines + no-shared-mutable-state obligation from a write-site scan + scheduling-lexer runs",
   text="Theorem (all schedules, any number of machines): the projection of an interleaved run on machine i equals its solo run. Kernel-checked obligation on the regenerated inventory: no module-level / class-level / default-argument object of c_parser, c_lexer, c_generator, c_ast is written after import. Real parsers are interleaved at lexer-call granularity through a scheduling lexer injected via lexer= (all schedules of length 6/9 for short inputs, random for long) and run in free-running threads with a 1e-6 s switch interval; every result is compared with the solo run.",
   note="partial: CPython's bytecode-level thread switching and the thread-safety of re are exercised, not modelled. Trusted: Lean kernel, syntactic write-site scan, harness.", ref="§6 C13"),
 "C14": dict(cat="proof", tech="Lean 4 generic reflection model + kernel-checked obligations on behaviourally extracted class tables (49 classes x every absent-subset) + traversal theorems",
   text="tools/extract.py observes every live node class with sentinel values (constructor signature, __slots__, attr_names, children() and iteration for every subset of absent node-valued fields) and dumps _c_ast.cfg as _ast_gen.py parses it; the kernel checks that all observations equal the generic model driven by the class table, and that _ast_gen reproduces the checked-in classes. Theorems for all trees: generic traversal visits each reachable node exactly once, show() prints one line per reachable node, a visit_X method intercepts only class-X nodes and generic_visit never sees one.",
   note="Open finding: attributes that hold nodes (Decl.align, Pragma.string of _Pragma). Trusted: Lean kernel, extractor, harness.", ref="§6 C14"),
 "C15": dict(cat="proof", tech="Lean 4 model of Node.__repr__/_repr with coordinate-independence theorem + text correspondence + execution of eval/pickle/deepcopy",
   text="The pycparser-specific part of the property - __repr__ and the list pretty-printer - is modelled in Lean and compared text-for-text with the real repr on every ASCII AST; theorem: repr is independent of coordinates for all trees. eval(repr), pickle protocols 2..HIGHEST and copy.deepcopy are executed on all ASTs of the pool (structural equality, coordinates, generated text, no shared nodes, mutation independence).",
   note="partial: eval, pickle and copy are the interpreter's; exercised, not modelled. Trusted: Lean kernel, harness.", ref="§6 C15"),
 "C16": dict(cat="proof", tech="Lean 4 theorems on scanner progress and token-stream buffering + exact tick correspondence model vs real call counts + growth measurement on scalable families",
   text="Theorems: every scanner loop iteration consumes at least one character (all texts, all well-formed tables); filling the token buffer calls the lexer once per new entry and never moves the read index; mark/reset never touch buffer or lexer (speculation never re-lexes). The Lean parser model's tick counters must equal the real _TokenStream / lexer call counts exactly on 30 scalable families; the deterministic Python call count must grow at most ~linearly between sizes; adversarial literal families are timed with wide margins.",
   note="partial: a parser-level linear bound for all inputs is not proved; re engine cost and wall-clock are outside the model. Trusted: Lean kernel, sys.setprofile counter, harness.", ref="§6 C16"),
 "C17": dict(cat="proof", tech="Lean 4 theorem: parser model factored as finish . parseCore . strip, so the coordinate-free AST depends only on (class, spelling) sequence",
   text="Theorem (all event streams, all file names): two lexer event streams with the same sequence of token classes and spellings give the same coordinate-free AST or are both rejected - by construction of the parser model, whose core never sees a position, file name or directive. Real parser: every program of the pool re-laid out 4 ways (one token per line, single line, random blanks, linemarkers changing line and file) must give identical AST dump and generated text; variants also run through the Lean model.",
   note="That a re-laid-out text scans to the same (class, spelling) sequence is checked per case. Redundant parentheses are covered by C02's three parenthesisations. Trusted: Lean kernel, harness.", ref="§6 C17"),
 "C18": dict(cat="proof", tech="Lean 4 soundness theorems for the bracket-mutation oracle + lexer-error lemmas + mutation search on real parser and Lean model",
   text="Theorems (all token sequences): a balanced bracket sequence has equal opener/closer counts per kind, so deleting, duplicating (or re-kinding) a single bracket of a balanced sequence never yields a balanced one - the oracle 'mutant must be rejected' is sound. Real parser and Lean parser model: all single-bracket deletions/duplications/kind swaps and injections of non-token text into the pool programs, and all unbalanced bracket strings of length <=5 (thorough 8) in 5 contexts, must be rejected.",
   note="'parse ok => brackets balanced' over the parser model is not yet proved. Trusted: Lean kernel, harness.", ref="§6 C18"),
 "C19": dict(cat="proof", tech="Lean 4 include/guard model of cpp on the regenerated header tree with kernel-checked shape obligations + exhaustive single headers + random subsets on the real pipeline",
   text="tools/extract.py regenerates the fake header tree as an abstract file system; kernel-checked: every file with own content is include-guarded, guards are distinct, include targets exist, includes precede content, no macro occurs in a text line, and every one of the 129 headers expands to one of the expected body sequences in the Cpp.lean model. Real pipeline (cpp + parse_file, 4 dialects, list/str arguments): all 129 headers alone, random subsets/orders/repetitions, all orders of first need of the three body groups; every typedef name must be usable; result must equal manual preprocess+parse; emitted bodies must match Cpp.lean.",
   note="partial: cpp, the process and the file system are exercised, not modelled; the reduction of all header lists to the finite quotient is not yet a theorem. Trusted: Lean kernel, extractor, harness.", ref="§6 C19"),
}
NOT_YET = {}

def main():
    props = [json.loads(l) for l in open(os.path.join(HERE, "properties.jsonl"))]
    checks = []
    na = []
    for p in props:
        pid = p["id"]
        if pid in CHECKS:
            c = CHECKS[pid]
            checks.append({
                "property_id": pid,
                "quick_cmd": "./check %s quick" % pid,
                "thorough_cmd": "./check %s thorough" % pid,
                "evidence_file": "evidence/%s.json" % pid,
                "replay_cmd_template": "./check %s --replay {path}" % pid,
                "engine": "lean-pycmodel",
                "level_claimed": {"category": c["cat"], "text": c["text"], "design_ref": c["ref"]},
                "level_note": c["note"],
                "technique": c["tech"],
            })
        else:
            na.append({"property_id": pid, "reason": NOT_YET.get(pid, "check not built yet in this revision (Lean model for this property is still under construction); no claim is made")})
    m = {
        "version": 1,
        "setup_cmd": "cd lean && lake build PycModel pycmodel",
        "hooks": {"guard": "PYCPARSER_VERIF", "enable": "no source hooks are needed: the harness drives the public API in-process (lexer= parameter, subclassing, sys.setprofile)", "baseline_off_cmd": "cd /repo && /venv/bin/python -m pytest -ra -q -p no:cacheprovider --timeout=900 --continue-on-collection-errors", "source_commits": [], "add_only": True},
        "engines": [{"name": "lean-pycmodel", "path": "lean/", "serves_properties": sorted(CHECKS), "kind_free_text": "Lean 4 library PycModel (model + specs + theorems) and compiled driver pycmodel; Python harness harness/ runs the real code and diffs"}],
        "checks": checks,
        "not_applicable": na,
        "notes": "See DESIGN.md. ./check <id> <tier> regenerates tables from /repo, rebuilds the Lean obligations, audits axioms, replays known findings, then runs the correspondence / failing-input search.",
    }
    with open(os.path.join(HERE, "MANIFEST.json"), "w") as f:
        json.dump(m, f, indent=1)
        f.write("\n")

if __name__ == "__main__":
    main()
