#!/usr/bin/env python3
"""Writes MANIFEST.json from the table below (single source of truth for what is claimed)."""
import json, os
HERE = os.path.dirname(os.path.dirname(os.path.abspath(__file__)))

CHECKS = {
 "C09": dict(cat="proof", tech="Lean 4 theorems over a scanner model whose regexes/tables are regenerated from c_lexer.py + differential correspondence",
   text="Lean theorems (termination/never-stuck for every text and every well-formed table; table obligations against C99 6.4.1/6.4.6 re-checked by the kernel on the regenerated tables) about an executable scanner model whose regexes are machine-translated from the compiled patterns of c_lexer.py on every run; the model is tied to the real CLexer by exhaustive short-string and random layout correspondence.",
   note="Trusted: Lean kernel; axioms propext/Classical.choice/Quot.sound; tools/extract.py regex translation; PycModel.Regex as a model of Python's re (backtracking order, lookahead, $); harness. Position theorems speak about the model.", ref="§6 C09"),
 "C02": dict(cat="proof", tech="Lean 4 spec of C99 expression grammar + table obligations on regenerated precedence tables + spec-vs-code and model-vs-code correspondence",
   text="The C99 expression grammar, its renderer and the documented AST are a Lean specification (Spec/Expr.lean); kernel-checked obligations tie the precedence / assignment-operator tables regenerated from c_parser.py to C99's ten levels and to the tables of the Lean parser model; the real parser is compared with the specification on every tree with <=2 (thorough: <=3) operator nodes x 3 parenthesisations x 10 contexts and with the Lean parser model.",
   note="The round-trip theorem over the parser model (C02.Full) is work in progress: what is kernel-checked today are the table obligations; the universal claim for all trees rests on the exhaustive/differential comparison with the Lean spec. Trusted: Lean kernel, Spec/Expr.lean, extractor, harness.", ref="§6 C02"),
 "C06": dict(cat="proof", tech="Lean 4 theorems on the lexer/error channel of the parser model + exhaustive token-sequence correspondence of real parser vs Lean model",
   text="Theorems: the scanner model is total and never spins on any text; pulling a token never raises anything but the lexer's own error; lexer errors always surface with a file:line:col prefix. The complete parser model (every production, every Python crash site explicit) is compared with the real parser on all <=2 (thorough <=3) token sequences over a 66-token alphabet x 9 prefixes, reduced-alphabet sequences of length 3 (4), token mutants of the corpus and character noise; any escape other than ParseError-with-location is a violation.",
   note="Whole-parser crash-freedom (C06.Full) is stated in Lean but proved only for the lexer side; the rest is differential. RecursionError tolerated. Trusted: Lean kernel, extractor, harness.", ref="§6 C06"),
 "C03": dict(cat="proof", tech="Lean 4 spec of C99 6.7.5 declarators (denotation) + theorems on the spec + table obligations + spec-vs-code / model-vs-code correspondence",
   text="Declarator syntax, the inside-out denotation of C99 6.7.5 and the documented AST are a Lean specification (Spec/Decl.lean); theorems: every derivation list is denoted by the declarator the enumerator builds (so enumerating derivation lists enumerates all declarator meanings), names and redundant parentheses; table obligations tie the specifier tables of c_parser.py to the model. The real parser is compared with the specification on all derivation sequences of length <=3 (thorough 4) x 11 contexts and on random longer ones, and with the Lean parser model.",
   note="The theorem that the parser model returns chainVal(denote D) for all D is not yet proved; the universal claim rests on exhaustive/differential comparison with the Lean spec. Trusted: Lean kernel, Spec/Decl.lean, extractor, harness.", ref="§6 C03"),
 "C05": dict(cat="proof", tech="Lean 4 spec of C99 6.8 statements incl. switch regrouping + theorems on the regrouping spec + spec-vs-code / model-vs-code correspondence",
   text="Statement syntax, the documented AST and the switch-block regrouping (written from the property's wording) are a Lean specification (Spec/Stmt.lean); theorems about the regrouping (label-free blocks untouched, statements before the first label stay in order). The real parser is compared with the specification on all statement trees of depth <=2 (thorough 3) over the reduced alphabet and random function bodies with declarations, pragmas and label chains, and with the Lean parser model (which mirrors fix_switch_cases line by line).",
   note="The refinement theorem fix_switch model = regroup spec for all parser-shaped blocks is not yet proved. Trusted: Lean kernel, Spec/Stmt.lean, extractor, harness.", ref="§6 C05"),
 "C07": dict(cat="proof", tech="Lean 4 generator+parser model with table obligations (generator precedence = parser precedence) + round-trip search on real code + generator-model correspondence",
   text="Kernel-checked obligations: the generator's precedence map equals the parser's table and the model's copies equal the code's; the complete generator model (every visit_* method) is compared text-for-text with the real generator on every program of the pool; the property itself (parse.generate.parse = parse, both configurations, second generation identical) is evaluated on the real code for all programs rendered by the Lean specs, the corpus and accepted token mutants.",
   note="The round-trip theorem over the models is not yet proved; the kernel-checked part is the table obligations. Trusted: Lean kernel, extractor, harness.", ref="§6 C07"),
}
NOT_YET = {}

def main():
    props = [json.loads(l) for l in open(os.path.join(HERE, "properties.jsonl"))]
    checks = []
    na = []
    for p in props:
        pid = p["id"]
        if pid in CHECKS:
            c = CHECKS[pid]
            checks.append({
                "property_id": pid,
                "quick_cmd": "./check %s quick" % pid,
                "thorough_cmd": "./check %s thorough" % pid,
                "evidence_file": "evidence/%s.json" % pid,
                "replay_cmd_template": "./check %s --replay {path}" % pid,
                "engine": "lean-pycmodel",
                "level_claimed": {"category": c["cat"], "text": c["text"], "design_ref": c["ref"]},
                "level_note": c["note"],
                "technique": c["tech"],
            })
        else:
            na.append({"property_id": pid, "reason": NOT_YET.get(pid, "check not built yet in this revision (Lean model for this property is still under construction); no claim is made")})
    m = {
        "version": 1,
        "setup_cmd": "cd lean && lake build PycModel pycmodel",
        "hooks": {"guard": "PYCPARSER_VERIF", "enable": "no source hooks are needed: the harness drives the public API in-process (lexer= parameter, subclassing, sys.setprofile)", "baseline_off_cmd": "cd /repo && /venv/bin/python -m pytest -ra -q -p no:cacheprovider --timeout=900 --continue-on-collection-errors", "source_commits": [], "add_only": True},
        "engines": [{"name": "lean-pycmodel", "path": "lean/", "serves_properties": sorted(CHECKS), "kind_free_text": "Lean 4 library PycModel (model + specs + theorems) and compiled driver pycmodel; Python harness harness/ runs the real code and diffs"}],
        "checks": checks,
        "not_applicable": na,
        "notes": "See DESIGN.md. ./check <id> <tier> regenerates tables from /repo, rebuilds the Lean obligations, audits axioms, replays known findings, then runs the correspondence / failing-input search.",
    }
    with open(os.path.join(HERE, "MANIFEST.json"), "w") as f:
        json.dump(m, f, indent=1)
        f.write("\n")

if __name__ == "__main__":
    main()
