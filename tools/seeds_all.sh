#!/bin/bash
# apply every seeded change to /repo in turn and run the checks its meta.json names
cd /verif
for d in seeded/*/; do
  id=$(basename $d)
  rep=$(python3 -c "import json;m=json.load(open('$d/meta.json'));print(' '.join(m['checks_that_report_it']))")
  quiet=$(python3 -c "import json;m=json.load(open('$d/meta.json'));print(' '.join(m['checks_that_stay_quiet_as_they_should']))")
  echo "=== $id  (must report: $rep; must stay quiet: $quiet)"
  tools/seed.sh run /verif/$d/patch.diff $rep $quiet 2>&1 | grep -E "^C[0-9]+ rc=" | cut -c1-120
done
