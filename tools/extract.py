#!/venv/bin/python
"""Regenerate PycModel/Generated/*.lean from /repo's *current* working tree.

Everything in the Python sources that is data (tables, compiled regexes, class layouts, the fake
header file system) is dumped here as Lean definitions; the Lean leaf modules discharge their
obligations against these definitions, so the kernel re-checks them against what the code says now.

Files are only rewritten when their content changes (keeps `lake build` incremental).
"""
import os, sys, re, json, importlib, inspect, hashlib

REPO = os.environ.get("VERIF_REPO", "/repo")
OUT = os.path.join(os.path.dirname(os.path.abspath(__file__)), "..", "lean", "PycModel", "Generated")
sys.path.insert(0, REPO)


def lean_str(s):
    out = ['"']
    for ch in s:
        o = ord(ch)
        if ch == '"':
            out.append('\\"')
        elif ch == "\\":
            out.append("\\\\")
        elif ch == "\n":
            out.append("\\n")
        elif ch == "\t":
            out.append("\\t")
        elif ch == "\r":
            out.append("\\r")
        elif o < 32 or o == 127:
            out.append("\\x%02x" % o)
        else:
            out.append(ch)
    out.append('"')
    return "".join(out)


def lean_char(c):
    return "(Char.ofNat %d)" % (c if isinstance(c, int) else ord(c))


def lean_list(items, per_line=False):
    if per_line:
        return "[\n  " + ",\n  ".join(items) + "]"
    return "[" + ", ".join(items) + "]"


def write_if_changed(name, text):
    os.makedirs(OUT, exist_ok=True)
    path = os.path.join(OUT, name)
    old = None
    if os.path.exists(path):
        with open(path, encoding="utf-8") as f:
            old = f.read()
    if old != text:
        with open(path, "w", encoding="utf-8") as f:
            f.write(text)
        return True
    return False


# ---------------------------------------------------------------------------
# regex translation (re._parser parse tree -> PycModel.Re)
# ---------------------------------------------------------------------------
class Untranslatable(Exception):
    pass


def tr_class_item(op, av):
    import re._constants as C

    if op is C.LITERAL:
        return ".ch %s" % lean_char(av)
    if op is C.RANGE:
        return ".range %s %s" % (lean_char(av[0]), lean_char(av[1]))
    if op is C.CATEGORY:
        if av is C.CATEGORY_DIGIT:
            return ".digit"
        if av is C.CATEGORY_WORD:
            return ".word"
        if av is C.CATEGORY_NOT_WORD:
            return ".notWord"
    raise Untranslatable("class item %r %r" % (op, av))


def tr_seq(items):
    if not items:
        return ".eps"
    parts = [tr_item(op, av) for op, av in items]
    r = parts[-1]
    for p in reversed(parts[:-1]):
        r = "(.seq %s %s)" % (p, r)
    return r


def tr_item(op, av):
    import re._constants as C

    if op is C.LITERAL:
        return "(.cls false [.ch %s])" % lean_char(av)
    if op is C.NOT_LITERAL:
        return "(.cls true [.ch %s])" % lean_char(av)
    if op is C.ANY:
        return "(.cls true [.ch %s])" % lean_char(10)
    if op is C.IN:
        neg = False
        items = []
        for o, a in av:
            if o is C.NEGATE:
                neg = True
            else:
                items.append(tr_class_item(o, a))
        return "(.cls %s %s)" % ("true" if neg else "false", lean_list(items))
    if op is C.BRANCH:
        alts = [tr_seq(list(a)) for a in av[1]]
        r = alts[-1]
        for p in reversed(alts[:-1]):
            r = "(.alt %s %s)" % (p, r)
        return r
    if op is C.SUBPATTERN:
        group, add_flags, del_flags, p = av
        if add_flags or del_flags:
            raise Untranslatable("inline flags")
        return tr_seq(list(p))
    if op is C.MAX_REPEAT:
        mn, mx, p = av
        mxs = "none" if mx is C.MAXREPEAT else "(some %d)" % mx
        return "(.rep %d %s %s)" % (mn, mxs, tr_seq(list(p)))
    if op is C.ASSERT_NOT:
        direction, p = av
        if direction != 1:
            raise Untranslatable("look-behind")
        return "(.nla %s)" % tr_seq(list(p))
    if op is C.AT:
        if av is C.AT_END:
            return ".eos"
    if op is C.CATEGORY:
        return "(.cls false [%s])" % tr_class_item(op, av)
    raise Untranslatable("op %r %r" % (op, av))


def tr_pattern(pat):
    import re._parser as P

    if isinstance(pat, re.Pattern):
        if pat.flags & ~re.UNICODE:
            raise Untranslatable("flags %r" % pat.flags)
        pat = pat.pattern
    tree = P.parse(pat)
    return tr_seq(list(tree))


def ranges_of(pred):
    out = []
    start = None
    prev = None
    for c in range(0x110000):
        if 0xD800 <= c <= 0xDFFF:
            ok = False
        else:
            ok = pred(chr(c))
        if ok:
            if start is None:
                start = c
            prev = c
        else:
            if start is not None:
                out.append((start, prev))
                start = None
    if start is not None:
        out.append((start, prev))
    return out


def gen_lex():
    lx = importlib.import_module("pycparser.c_lexer")
    L = []
    L.append("import PycModel.Lexer")
    L.append("/-! GENERATED by tools/extract.py from pycparser/c_lexer.py — do not edit. -/")
    L.append("namespace PycModel.Generated")
    L.append("open PycModel")
    L.append("set_option maxRecDepth 100000")
    # unicode tables
    d = re.compile(r"\d")
    w = re.compile(r"\w")
    nd = [r for r in ranges_of(lambda ch: d.match(ch) is not None) if r[0] >= 128]
    wd = [r for r in ranges_of(lambda ch: w.match(ch) is not None) if r[0] >= 128]
    L.append("def ndRanges : Array (Nat × Nat) := #" + lean_list(["(%d,%d)" % r for r in nd]))
    L.append("def wordRanges : Array (Nat × Nat) := #" + lean_list(["(%d,%d)" % r for r in wd]))
    L.append("def inRanges (t : Array (Nat × Nat)) (n : Nat) : Bool := t.any fun (lo, hi) => lo ≤ n && n ≤ hi")
    L.append("def uni : UniCfg where")
    L.append("  isNd c := if c.val < 128 then c.isDigit else inRanges ndRanges c.toNat")
    L.append("  isWord c := if c.val < 128 then (c.isAlphanum || c == '_') else inRanges wordRanges c.toNat")
    # rules
    rules = []
    for r in lx._regex_rules:
        act = {"TOKEN": ".token", "ID": ".ident", "ERROR": ".error"}[r.action.name]
        msg = "none" if r.error_message is None else "(some %s)" % lean_str(r.error_message)
        rules.append("{ name := %s, re := %s, action := %s, msg := %s }" % (lean_str(r.tok_type), tr_pattern(r.regex_pattern), act, msg))
    L.append("def rules : List Rule := " + lean_list(rules, True))
    # the master pattern must be the ordered alternation of exactly these rules
    master = "|".join("(?P<%s>%s)" % (r.tok_type, r.regex_pattern) for r in lx._regex_rules)
    master_ok = lx._regex_master.pattern == master and (lx._regex_master.flags & ~re.UNICODE) == 0
    L.append("def masterIsRuleAlternation : Bool := %s" % ("true" if master_ok else "false"))
    actions_ok = all(lx._regex_actions.get(r.tok_type) == (r.action, r.error_message) for r in lx._regex_rules) and len(lx._regex_actions) == len(lx._regex_rules)
    L.append("def actionsMatchRules : Bool := %s" % ("true" if actions_ok else "false"))
    buckets = []
    for ch, b in lx._fixed_tokens_by_first.items():
        ents = ["{ name := %s, lit := %s.toList }" % (lean_str(e.tok_type), lean_str(e.literal)) for e in b]
        buckets.append("(%s, %s)" % (lean_char(ch), lean_list(ents)))
    L.append("def buckets : List (Char × List Fixed) := " + lean_list(buckets, True))
    L.append("def fixedTokens : List (String × String) := " + lean_list(["(%s, %s)" % (lean_str(e.tok_type), lean_str(e.literal)) for e in lx._fixed_tokens], True))
    L.append("def keywords : List (String × String) := " + lean_list(["(%s, %s)" % (lean_str(k), lean_str(v)) for k, v in lx._keyword_map.items()], True))
    L.append("def linePat : Re := " + tr_pattern(lx._line_pattern))
    L.append("def pragmaPat : Re := " + tr_pattern(lx._pragma_pattern))
    L.append("def decConst : Re := " + tr_pattern(lx._decimal_constant))
    L.append("def strLit : Re := " + tr_pattern(lx._string_literal))
    L.append("def lexCfg : LexCfg := LexCfg.mk uni rules buckets keywords linePat pragmaPat decConst strLit")
    L.append("end PycModel.Generated")
    return "\n".join(L) + "\n"


def str_list(xs):
    return lean_list([lean_str(x) for x in xs])


def gen_parser_tables():
    cp = importlib.import_module("pycparser.c_parser")
    cg = importlib.import_module("pycparser.c_generator")
    L = ["/-! GENERATED by tools/extract.py from pycparser/c_parser.py and c_generator.py — do not edit. -/",
         "namespace PycModel.Generated"]

    def table(name, obj):
        L.append("def %s : List String := %s" % (name, str_list(sorted(obj))))

    L.append("def binaryPrecedence : List (String × Nat) := " + lean_list(
        ["(%s, %d)" % (lean_str(k), v) for k, v in sorted(cp._BINARY_PRECEDENCE.items())]))
    L.append("def genPrecedence : List (String × Nat) := " + lean_list(
        ["(%s, %d)" % (lean_str(k), v) for k, v in sorted(cg.CGenerator.precedence_map.items())]))
    table("assignmentOps", cp._ASSIGNMENT_OPS)
    table("storageClass", cp._STORAGE_CLASS)
    table("functionSpec", cp._FUNCTION_SPEC)
    table("typeQualifier", cp._TYPE_QUALIFIER)
    table("typeSpecSimple", cp._TYPE_SPEC_SIMPLE)
    table("declStart", cp._DECL_START)
    table("exprStart", cp._EXPR_START)
    table("intConst", cp._INT_CONST)
    table("floatConst", cp._FLOAT_CONST)
    table("charConst", cp._CHAR_CONST)
    table("stringLiteral", cp._STRING_LITERAL)
    table("wstrLiteral", cp._WSTR_LITERAL)
    table("startsExpression", cp._STARTS_EXPRESSION)
    table("startsStatement", cp._STARTS_STATEMENT)
    # spelling of each binary / assignment operator token (kind -> literal), from the lexer
    lx = importlib.import_module("pycparser.c_lexer")
    lit = {e.tok_type: e.literal for e in lx._fixed_tokens}
    L.append("def opSpelling : List (String × String) := " + lean_list(
        ["(%s, %s)" % (lean_str(k), lean_str(lit.get(k, "?"))) for k in sorted(set(cp._BINARY_PRECEDENCE) | set(cp._ASSIGNMENT_OPS))]))
    # generator: which classes have a visit_ method
    from pycparser import c_ast
    classes = sorted(n for n, c in vars(c_ast).items() if inspect.isclass(c) and issubclass(c, c_ast.Node) and c is not c_ast.Node)
    L.append("def genVisitMethods : List String := " + str_list([n for n in classes if hasattr(cg.CGenerator, "visit_" + n)]))
    L.append("def genStmtSemiClasses : List String := " + str_list([]))
    L.append("end PycModel.Generated")
    return "\n".join(L) + "\n"


def gen_classes():
    """live node classes, observed behaviourally with sentinel values, and the cfg file"""
    import itertools
    from pycparser import c_ast
    from pycparser._ast_gen import ASTCodeGenerator
    classes = [(n, c) for n, c in vars(c_ast).items() if inspect.isclass(c) and issubclass(c, c_ast.Node) and c is not c_ast.Node]
    L = ["/-! GENERATED by tools/extract.py from pycparser/c_ast.py, _c_ast.cfg, _ast_gen.py — do not edit. -/",
         "namespace PycModel.Generated"]

    class S(c_ast.Node):          # sentinel child
        __slots__ = ("tag", "coord", "__weakref__")
        def __init__(self, tag):
            self.tag = tag
            self.coord = None
        def children(self):
            return ()

    rows = []
    obs = []
    for name, cls in classes:
        params = [p for p in inspect.signature(cls.__init__).parameters][1:]
        slots = list(cls.__slots__)
        fields = params[:-1] if params and params[-1] == "coord" else params
        sig_ok = params == fields + ["coord"] and slots == fields + ["coord", "__weakref__"] and \
            inspect.signature(cls.__init__).parameters["coord"].default is None
        kinds = []
        for f in fields:
            kw = {g: None for g in fields}
            sent = S(f)
            kw[f] = sent
            try:
                ch = cls(**kw).children()
            except Exception:
                ch = ()
            kw[f] = [S(f + "0"), S(f + "1")]
            try:
                chl = cls(**kw).children()
            except Exception:
                chl = ()
            if f in cls.attr_names:
                kinds.append((f, "attr"))
            elif tuple(ch) == ((f, sent),):
                kinds.append((f, "child"))
            elif [n for n, _ in chl] == [f + "[0]", f + "[1]"]:
                kinds.append((f, "seq"))
            else:
                kinds.append((f, "unknown"))
        attr_ok = list(cls.attr_names) == [f for f, k in kinds if k == "attr"]
        rows.append("(%s, %s, %s, %s)" % (lean_str(name), lean_list(["(%s, .%s)" % (lean_str(f), k if k != "unknown" else "attr") for f, k in kinds]),
                                        "true" if sig_ok and attr_ok and all(k != "unknown" for _, k in kinds) else "false", lean_list([lean_str(a) for a in cls.attr_names])))
        # every subset of node-valued fields present/absent
        nodef = [f for f, k in kinds if k in ("child", "seq")]
        for mask in itertools.product([False, True], repeat=len(nodef)):
            kw = {g: None for g in fields}
            for f, k in kinds:
                if k == "attr":
                    kw[f] = "A"
            sentinels = {}
            for f, m in zip(nodef, mask):
                if m:
                    k = dict(kinds)[f]
                    kw[f] = S(f) if k == "child" else [S(f + "0"), S(f + "1")]
            inst = cls(**kw)
            ch = list(inst.children())
            it = list(iter(inst))
            iter_ok = [c for _, c in ch] == it and all(a is b for (_, a), b in zip(ch, it))
            obs.append("(%s, %s, %s, %s)" % (lean_str(name), lean_list(["true" if m else "false" for m in mask]),
                                            lean_list([lean_str(n) for n, _ in ch]), "true" if iter_ok else "false"))
    L.append("inductive FK | attr | child | seq deriving DecidableEq, Repr")
    L.append("/-- (class, fields with observed kind, constructor/slots/attr_names consistent, attr_names) -/")
    L.append("def liveClasses : List (String × List (String × FK) × Bool × List String) := " + lean_list(rows, True))
    L.append("/-- (class, which node-valued fields are present, names returned by children(), iter() agrees) -/")
    L.append("def childrenObs : List (String × List Bool × List String × Bool) := " + lean_list(obs, True))
    # the cfg file as parsed by _ast_gen itself
    cfgpath = os.path.join(REPO, "pycparser", "_c_ast.cfg")
    gen = ASTCodeGenerator(cfgpath)
    cfgrows = []
    for name, contents in gen.parse_cfgfile(cfgpath):
        ents = []
        for e in contents:
            if e.endswith("**"):
                ents.append("(%s, .seq)" % lean_str(e[:-2]))
            elif e.endswith("*"):
                ents.append("(%s, .child)" % lean_str(e[:-1]))
            else:
                ents.append("(%s, .attr)" % lean_str(e))
        cfgrows.append("(%s, %s)" % (lean_str(name), lean_list(ents)))
    L.append("def cfgClasses : List (String × List (String × FK)) := " + lean_list(cfgrows, True))
    # does _ast_gen applied to the cfg reproduce the checked-in c_ast.py?
    import io
    buf = io.StringIO()
    gen.generate(buf)
    import ast as pyast

    def class_defs(src):
        tree = pyast.parse(src)
        return {n.name: pyast.dump(n) for n in tree.body if isinstance(n, pyast.ClassDef) and n.name not in ("Node", "NodeVisitor")}

    with open(os.path.join(REPO, "pycparser", "c_ast.py")) as f:
        checked_in = f.read()
    # formatting differs (the checked-in file is auto-formatted); compare the class definitions as syntax trees
    same = class_defs(buf.getvalue()) == class_defs(checked_in)
    L.append("def astGenReproducesCheckedIn : Bool := %s" % ("true" if same else "false"))
    L.append("end PycModel.Generated")
    return "\n".join(L) + "\n"


def gen_state_inventory():
    """instance attributes of the four stateful classes (fresh, after a successful and after a
    failing use) and the module-level objects of the modules with a write-site scan"""
    import ast as pyast
    cp = importlib.import_module("pycparser.c_parser")
    lx = importlib.import_module("pycparser.c_lexer")
    cg = importlib.import_module("pycparser.c_generator")
    ca = importlib.import_module("pycparser.c_ast")
    L = ["/-! GENERATED by tools/extract.py (state inventory of c_parser / c_lexer / c_generator / c_ast) — do not edit. -/",
         "namespace PycModel.Generated"]

    def attrs(o):
        names = set()
        if hasattr(o, "__dict__"):
            names |= set(vars(o))
        for k in type(o).__mro__:
            for sl in getattr(k, "__slots__", ()) or ():
                if hasattr(o, sl):
                    names.add(sl)
        return names

    p = cp.CParser()
    sets = {"CParser": set(attrs(p)), "CLexer": set(attrs(p.clex)), "TokenStream": set(attrs(p._tokens))}
    for text in ["typedef int T; T f(T x) { return x; }", "int a = ;", "void f() { { int x = @", "struct S { int a; } s;"]:
        try:
            p.parse(text, "f.c")
        except Exception:
            pass
        sets["CParser"] |= attrs(p)
        sets["CLexer"] |= attrs(p.clex)
        sets["TokenStream"] |= attrs(p._tokens)
    g = cg.CGenerator()
    sets["CGenerator"] = set(attrs(g))
    try:
        g.visit(cp.CParser().parse("int f(int a) { if (a) { return 1; } return 0; } struct S { int x; };"))
    except Exception:
        pass
    sets["CGenerator"] |= attrs(g)
    v = ca.NodeVisitor()
    sets["NodeVisitor"] = set(attrs(v))
    v.visit(cp.CParser().parse("int a;"))
    sets["NodeVisitor"] |= attrs(v)
    for k in sorted(sets):
        L.append("def fields%s : List String := %s" % (k, str_list(sorted(sets[k]))))
    # module-level objects: name, type, mutable?, written after import?
    rows = []
    for mod in (cp, lx, cg, ca):
        src = open(mod.__file__).read()
        tree = pyast.parse(src)
        # names assigned/mutated inside function bodies through `global`, attribute/subscript stores on module names,
        # or calls of mutating methods on module-level names
        module_names = {n for n, o in vars(mod).items() if not n.startswith("__")}
        written = set()
        dynamic = False
        MUT = {"append", "extend", "insert", "pop", "remove", "clear", "update", "setdefault", "add", "discard", "sort", "reverse", "popitem"}
        for fn in pyast.walk(tree):
            if isinstance(fn, (pyast.FunctionDef, pyast.AsyncFunctionDef, pyast.Lambda)):
                params = set()
                if not isinstance(fn, pyast.Lambda):
                    params = {a.arg for a in fn.args.args + fn.args.kwonlyargs}
                    if fn.args.vararg:
                        params.add(fn.args.vararg.arg)
                local = set(params)
                for n in pyast.walk(fn):
                    if isinstance(n, pyast.Name) and isinstance(n.ctx, pyast.Store):
                        local.add(n.id)
                globs = set()
                for n in pyast.walk(fn):
                    if isinstance(n, pyast.Global):
                        globs |= set(n.names)
                for n in pyast.walk(fn):
                    if isinstance(n, pyast.Name) and isinstance(n.ctx, pyast.Store) and n.id in globs:
                        written.add(n.id)
                    if isinstance(n, (pyast.Attribute, pyast.Subscript)) and isinstance(n.ctx, (pyast.Store, pyast.Del)):
                        b = n.value
                        while isinstance(b, (pyast.Attribute, pyast.Subscript)):
                            b = b.value
                        if isinstance(b, pyast.Name) and b.id in module_names and b.id not in (local - globs):
                            written.add(b.id)
                    if isinstance(n, pyast.Call) and isinstance(n.func, pyast.Attribute) and n.func.attr in MUT:
                        b = n.func.value
                        while isinstance(b, (pyast.Attribute, pyast.Subscript)):
                            b = b.value
                        if isinstance(b, pyast.Name) and b.id in module_names and b.id not in (local - globs):
                            written.add(b.id)
                    if isinstance(n, pyast.Call) and isinstance(n.func, pyast.Name) and n.func.id in ("setattr", "globals", "exec", "eval", "vars", "delattr"):
                        dynamic = True
        for name, obj in sorted(vars(mod).items()):
            if name.startswith("__") or inspect.ismodule(obj) or inspect.isclass(obj) or inspect.isfunction(obj) or inspect.isbuiltin(obj):
                continue
            if getattr(obj, "__module__", None) == "typing" or type(obj).__module__ == "typing":
                continue
            mutable = isinstance(obj, (list, dict, set, bytearray))
            rows.append("(%s, %s, %s, %s)" % (lean_str(mod.__name__.split(".")[-1] + "." + name), lean_str(type(obj).__name__),
                                            "true" if mutable else "false", "true" if name in written else "false"))
        rows.append("(%s, \"dynamic-write-scan\", false, %s)" % (lean_str(mod.__name__.split(".")[-1] + ".<dynamic>"), "true" if dynamic else "false"))
        # class-level mutable attributes and mutable default arguments
        for cname, cls in sorted(vars(mod).items()):
            if not inspect.isclass(cls) or cls.__module__ != mod.__name__:
                continue
            for an, av in sorted(vars(cls).items()):
                if an.startswith("__"):
                    continue
                if isinstance(av, (list, dict, set)):
                    w = False
                    # written if any method stores into self.<an>[...] / calls a mutator on it / assigns cls.<an>
                    for n in pyast.walk(tree):
                        if isinstance(n, pyast.Call) and isinstance(n.func, pyast.Attribute) and n.func.attr in MUT:
                            b = n.func.value
                            if isinstance(b, pyast.Attribute) and b.attr == an:
                                w = True
                        if isinstance(n, pyast.Subscript) and isinstance(n.ctx, (pyast.Store, pyast.Del)) and isinstance(n.value, pyast.Attribute) and n.value.attr == an:
                            w = True
                    rows.append("(%s, %s, true, %s)" % (lean_str("%s.%s.%s" % (mod.__name__.split(".")[-1], cname, an)), lean_str("class-attr " + type(av).__name__), "true" if w else "false"))
                if inspect.isfunction(av):
                    for dflt in (av.__defaults__ or ()):
                        if isinstance(dflt, (list, dict, set)):
                            # mutated if the parameter name is target of a mutator call / subscript store in the function
                            fsrc = pyast.parse(inspect.getsource(av).lstrip() if False else "pass")
                            pn = [p_ for p_, d_ in zip(list(inspect.signature(av).parameters)[-len(av.__defaults__):], av.__defaults__) if d_ is dflt][0]
                            w = False
                            for fn in pyast.walk(tree):
                                if isinstance(fn, pyast.FunctionDef) and fn.name == an:
                                    for n in pyast.walk(fn):
                                        if isinstance(n, pyast.Call) and isinstance(n.func, pyast.Attribute) and n.func.attr in MUT and isinstance(n.func.value, pyast.Name) and n.func.value.id == pn:
                                            w = True
                                        if isinstance(n, pyast.Subscript) and isinstance(n.ctx, (pyast.Store, pyast.Del)) and isinstance(n.value, pyast.Name) and n.value.id == pn:
                                            w = True
                                        if isinstance(n, pyast.AugAssign) and isinstance(n.target, pyast.Name) and n.target.id == pn:
                                            w = True
                            rows.append("(%s, %s, true, %s)" % (lean_str("%s.%s.%s(%s=)" % (mod.__name__.split(".")[-1], cname, an, pn)), lean_str("default-arg " + type(dflt).__name__), "true" if w else "false"))
    L.append("/-- (object, type, is a mutable container, some function of the module writes to it after import) -/")
    L.append("def moduleState : List (String × String × Bool × Bool) := " + lean_list(rows, True))
    L.append("end PycModel.Generated")
    return "\n".join(L) + "\n"


def gen_fake_headers():
    """the fake libc include tree as an abstract file system"""
    root = os.path.join(REPO, "utils", "fake_libc_include")
    L = ["/-! GENERATED by tools/extract.py from utils/fake_libc_include — do not edit. -/",
         "namespace PycModel.Generated"]
    rows = []
    macro_names = set()
    text_words = set()
    odd = []
    for dirpath, _, files in sorted(os.walk(root)):
        for fn in sorted(files):
            path = os.path.join(dirpath, fn)
            rel = os.path.relpath(path, root)
            src = open(path, errors="replace").read()
            src = re.sub(r"/\*.*?\*/", " ", src, flags=re.S)
            lines = [l.strip() for l in src.split("\n")]
            lines = [l for l in lines if l]
            guard = None
            if len(lines) >= 3 and re.match(r"#\s*ifndef\s+(\w+)$", lines[0]) and re.match(r"#\s*define\s+(\w+)$", lines[1]) and re.match(r"#\s*endif", lines[-1]):
                g1 = re.match(r"#\s*ifndef\s+(\w+)$", lines[0]).group(1)
                g2 = re.match(r"#\s*define\s+(\w+)$", lines[1]).group(1)
                if g1 == g2:
                    guard = g1
                    lines = lines[2:-1]
            includes = []
            has_body = False
            includes_first = True
            for l in lines:
                m = re.match(r'#\s*include\s+"([^"]+)"$', l)
                if m:
                    # quote include: resolved relative to the including file's directory first, then -I root
                    cand = os.path.normpath(os.path.join(os.path.dirname(rel), m.group(1)))
                    if not os.path.exists(os.path.join(root, cand)):
                        cand = m.group(1)
                    includes.append(cand)
                    if has_body:
                        includes_first = False
                    continue
                if re.match(r"#\s*include", l):
                    odd.append(rel + ": " + l)
                    continue
                has_body = True
                m = re.match(r"#\s*define\s+(\w+)", l)
                if m:
                    macro_names.add(m.group(1))
                elif not l.startswith("#"):
                    text_words |= set(re.findall(r"[A-Za-z_]\w*", l))
            rows.append("{ name := %s, guard := %s, includes := %s, hasBody := %s, includesFirst := %s }" % (
                lean_str(rel), "none" if guard is None else "(some %s)" % lean_str(guard), str_list(includes),
                "true" if has_body else "false", "true" if includes_first else "false"))
    L.append("structure FileDesc where\n  name : String\n  guard : Option String\n  includes : List String\n  hasBody : Bool\n  includesFirst : Bool\n  deriving Repr, DecidableEq")
    L.append("def fakeFS : List FileDesc := " + lean_list(rows, True))
    L.append("/-- identifiers that are both an object-like/function-like macro of the tree and a word of a text line -/")
    L.append("def macroWordsInText : List String := " + str_list(sorted(macro_names & text_words)))
    L.append("def oddIncludes : List String := " + str_list(odd))
    L.append("end PycModel.Generated")
    return "\n".join(L) + "\n"


def main():
    changed = []
    errors = {}
    for name, fn in [("LexTables.lean", gen_lex), ("ParserTables.lean", gen_parser_tables), ("Classes.lean", gen_classes), ("StateInventory.lean", gen_state_inventory), ("FakeHeaders.lean", gen_fake_headers)]:
        try:
            if write_if_changed(name, fn()):
                changed.append(name)
        except Exception as e:  # the obligation consuming this table is then *broken*
            errors[name] = "%s: %s" % (type(e).__name__, e)
            write_if_changed(name, "/-! extraction failed: %s -/\n#eval (throw (IO.userError \"extraction failed\") : IO Unit)\n" % str(e).replace("-/", "- /"))
    print(json.dumps({"changed": changed, "errors": errors}))
    return 0


if __name__ == "__main__":
    sys.exit(main())
