/-! Bracket balance (the structural well-formedness C18 speaks about), as a stack machine. -/
namespace PycModel.Spec

inductive BK | paren | brack | brace
  deriving DecidableEq, Repr, Inhabited

/-- a token as far as bracket structure is concerned -/
inductive BTok
  | op (k : BK)      -- ( [ {
  | cl (k : BK)      -- ) ] }
  | other
  deriving DecidableEq, Repr, Inhabited

/-- run the stack machine; `none` = a closer without matching opener -/
def bstep : List BK → List BTok → Option (List BK)
  | st, [] => some st
  | st, .other :: r => bstep st r
  | st, .op k :: r => bstep (k :: st) r
  | [], .cl _ :: _ => none
  | k' :: st, .cl k :: r => if k = k' then bstep st r else none

def balanced (l : List BTok) : Bool := bstep [] l == some []

def opens (k : BK) (l : List BTok) : Nat := l.countP (· == .op k)
def closes (k : BK) (l : List BTok) : Nat := l.countP (· == .cl k)

end PycModel.Spec
