import PycModel.Ast
/-!
# Specification of C expressions (C99 6.5), independent of the parser model

`Expr` is the abstract syntax the standard's grammar assigns; `render` prints a tree as a token
list with the *minimum* parentheses the stratified grammar requires plus `extra` redundant pairs
chosen by a decoration; `toVal` is the AST pycparser documents for it.
-/
namespace PycModel.Spec

inductive Expr where
  | id (n : String)
  | const (ty : String) (spelling : String)       -- `Constant(type, value)`
  | bin (op : String) (l r : Expr)
  | assign (op : String) (l r : Expr)
  | cond (c t f : Expr)
  | comma (es : List Expr)                         -- at least two
  | pre (op : String) (e : Expr)                   -- ++ -- & * + - ~ ! sizeof
  | post (op : String) (e : Expr)                  -- ++ --
  | index (a i : Expr)
  | call (f : Expr) (args : List Expr)
  | member (e : Expr) (op : String) (field : String)
  | cast (ty : List String) (e : Expr)             -- `( type-name ) cast-expression`; `ty`: type keywords then `*`s
  deriving Repr, Inhabited

/-- C99 6.5.5–6.5.14: the ten precedence levels of binary operators (higher binds tighter) -/
def binLevel : String → Nat
  | "||" => 0 | "&&" => 1 | "|" => 2 | "^" => 3 | "&" => 4
  | "==" => 5 | "!=" => 5
  | "<" => 6 | ">" => 6 | "<=" => 6 | ">=" => 6
  | "<<" => 7 | ">>" => 7
  | "+" => 8 | "-" => 8
  | "*" => 9 | "/" => 9 | "%" => 9
  | _ => 0

def binOps : List String :=
  ["||", "&&", "|", "^", "&", "==", "!=", "<", ">", "<=", ">=", "<<", ">>", "+", "-", "*", "/", "%"]
def assignOps : List String := ["=", "*=", "/=", "%=", "+=", "-=", "<<=", ">>=", "&=", "^=", "|="]
def prefixOps : List String := ["++", "--", "&", "*", "+", "-", "~", "!", "sizeof"]

/-! grammar strata: 0 expression (comma) · 1 assignment · 2 conditional · 3+k binary level k ·
13 cast · 14 unary · 15 postfix · 16 primary -/
def lvComma := 0
def lvAssign := 1
def lvCond := 2
def lvBin (k : Nat) := 3 + k
def lvCast := 13
def lvUnary := 14
def lvPostfix := 15
def lvPrimary := 16

def Expr.level : Expr → Nat
  | .id _ => lvPrimary
  | .const .. => lvPrimary
  | .bin op .. => lvBin (binLevel op)
  | .assign .. => lvAssign
  | .cond .. => lvCond
  | .comma _ => lvComma
  | .pre .. => lvUnary
  | .post .. => lvPostfix
  | .index .. => lvPostfix
  | .call .. => lvPostfix
  | .member .. => lvPostfix
  | .cast .. => lvCast

/-- decoration: how many redundant parenthesis pairs to add around each node (consumed in
pre-order); `[]` = minimal parenthesisation -/
abbrev Deco := List Nat

def wrapN : Nat → List String → List String
  | 0, ts => ts
  | n+1, ts => "(" :: wrapN n ts ++ [")"]

def joinComma : List (List String) → List String
  | [] => []
  | [t] => t
  | t :: ts => t ++ [","] ++ joinComma ts

mutual
/-- render `e` where the grammar expects a stratum-`q` expression; returns tokens and the
unused part of the decoration -/
def render (q : Nat) (e : Expr) (d : Deco) : List String × Deco :=
  let (extra, d) := match d with | [] => (0, []) | x :: r => (x, r)
  -- a comma expression is never given *redundant* parentheses (they would be visible in the AST
  -- when it sits inside another comma expression)
  let (body, d) := renderBody e d
  let need := if e.level < q then 1 else 0
  let extra := match e with | .comma _ => 0 | _ => extra
  (wrapN (need + extra) body, d)

def renderBody (e : Expr) (d : Deco) : List String × Deco :=
  match e with
  | .id n => ([n], d)
  | .const _ s => ([s], d)
  | .bin op l r =>
    let k := binLevel op
    let (lt, d) := render (lvBin k) l d
    let (rt, d) := render (lvBin k + 1) r d
    (lt ++ [op] ++ rt, d)
  | .assign op l r =>
    let (lt, d) := render lvUnary l d
    let (rt, d) := render lvAssign r d
    (lt ++ [op] ++ rt, d)
  | .cond c t f =>
    let (ct, d) := render (lvCond + 1) c d
    let (tt, d) := render lvComma t d
    let (ft, d) := render lvCond f d
    (ct ++ ["?"] ++ tt ++ [":"] ++ ft, d)
  | .comma es =>
    let (parts, d) := renderList lvAssign es d
    (joinComma parts, d)
  | .pre op e1 =>
    -- `++`/`--`/`sizeof` take a unary-expression, the others a cast-expression (C99 6.5.3)
    let (t, d) := render (if op == "++" || op == "--" || op == "sizeof" then lvUnary else lvCast) e1 d
    (op :: t, d)
  | .post op e1 =>
    let (t, d) := render lvPostfix e1 d
    (t ++ [op], d)
  | .index a i =>
    let (at_, d) := render lvPostfix a d
    let (it, d) := render lvComma i d
    (at_ ++ ["["] ++ it ++ ["]"], d)
  | .call f args =>
    let (ft, d) := render lvPostfix f d
    let (parts, d) := renderList lvAssign args d
    (ft ++ ["("] ++ joinComma parts ++ [")"], d)
  | .member e1 op fld =>
    let (t, d) := render lvPostfix e1 d
    (t ++ [op, fld], d)
  | .cast ty e1 =>
    -- C99 6.5.4: the operand of a cast is a cast-expression: casts nest to the right
    let (t, d) := render lvCast e1 d
    (["("] ++ ty ++ [")"] ++ t, d)

def renderList (q : Nat) (es : List Expr) (d : Deco) : List (List String) × Deco :=
  match es with
  | [] => ([], d)
  | e :: rest =>
    let (t, d) := render q e d
    let (ts, d) := renderList q rest d
    (t :: ts, d)
end

open PycModel in
mutual
/-- the AST pycparser documents for the expression (coordinates absent) -/
def Expr.toVal : Expr → Val
  | .id n => .node .ID none [.str n]
  | .const ty s => .node .Constant none [.str ty, .str s]
  | .bin op l r => .node .BinaryOp none [.str op, l.toVal, r.toVal]
  | .assign op l r => .node .Assignment none [.str op, l.toVal, r.toVal]
  | .cond c t f => .node .TernaryOp none [c.toVal, t.toVal, f.toVal]
  | .comma es => .node .ExprList none [.list (toValL es)]
  | .pre op e => .node .UnaryOp none [.str op, e.toVal]
  | .post op e => .node .UnaryOp none [.str ("p" ++ op), e.toVal]
  | .index a i => .node .ArrayRef none [a.toVal, i.toVal]
  | .call f args =>
    .node .FuncCall none [f.toVal, if args.isEmpty then .none else .node .ExprList none [.list (toValL args)]]
  | .member e op fld => .node .StructRef none [e.toVal, .str op, .node .ID none [.str fld]]
  | .cast ty e =>
    -- `Cast(Typename(None, [], None, PtrDecl* (TypeDecl(None, [], None, IdentifierType(names)))), expr)`
    let names := ty.filter (· != "*")
    let stars := (ty.filter (· == "*")).length
    let base : Val := .node .TypeDecl none [.none, .list [], .none, .node .IdentifierType none [.list (names.map .str)]]
    let chain := (List.range stars).foldl (fun t _ => Val.node .PtrDecl none [.list [], t]) base
    .node .Cast none [.node .Typename none [.none, .list [], .none, chain], e.toVal]
def toValL : List Expr → List Val
  | [] => []
  | e :: es => e.toVal :: toValL es
end

/-! ## generators over `Expr` (deterministic: everything derives from one LCG state) -/

def lcg (s : Nat) : Nat := (s * 6364136223846793005 + 1442695040888963407) % 18446744073709551616
def pick {α} [Inhabited α] (l : List α) (s : Nat) : α := l[(s / 65536) % l.length]!

def castTypes : List (List String) :=
  [["int"], ["unsigned", "char"], ["void", "*"], ["long", "long"], ["double"], ["char", "*", "*"], ["short"]]

def atoms : List Expr :=
  [.id "a", .id "b", .id "x1", .const "int" "1", .const "int" "0x2F", .const "unsigned long int" "7UL",
   .const "double" "1.5", .const "float" "2.f", .const "char" "'c'", .const "long double" "3e2L"]

/-- integer constants: every body with every suffix; the type is what the suffix says (C99 6.4.4.1,
in the AST's wording: `unsigned` for `u`, `long` per `l`) -/
def intBodies : List String := ["1", "42", "0x2F", "0X1F", "017", "0b101", "0B11", "0xabcdef", "0XFFE", "0"]
def intSuffixes : List (String × String) :=
  [("", "int"), ("u", "unsigned int"), ("U", "unsigned int"), ("l", "long int"), ("L", "long int"),
   ("ul", "unsigned long int"), ("UL", "unsigned long int"), ("lu", "unsigned long int"), ("Lu", "unsigned long int"),
   ("uL", "unsigned long int"), ("ll", "long long int"), ("LL", "long long int"),
   ("ull", "unsigned long long int"), ("ULL", "unsigned long long int"), ("llu", "unsigned long long int"),
   ("LLU", "unsigned long long int"), ("uLL", "unsigned long long int"), ("LLu", "unsigned long long int")]

/-- constants of every kind, with the type their spelling implies -/
def richAtoms : List Expr :=
  (intBodies.flatMap fun b => intSuffixes.map fun sf => Expr.const sf.2 (b ++ sf.1)) ++
  [.const "double" "1.5", .const "float" "2.f", .const "long double" "3e2L", .const "double" "0x1p3",
   .const "float" "0X1.8P+1f", .const "double" ".5e-3", .const "float" "1.F", .const "long double" "1.l",
   .const "long double" "0x.8p0L", .const "double" "1E+2", .const "float" "1e1f",
   .const "char" "'c'", .const "char" "L'c'", .const "char" "u'c'", .const "char" "U'c'", .const "char" "u8'c'",
   .const "char" "'\\n'", .const "char" "'\\x41'", .const "char" "'\\0'", .const "int" "'ab'", .const "int" "'ul'",
   .const "string" "\"ab\"", .const "string" "L\"ab\"", .const "string" "u8\"ul\""]

/-- random tree of at most `depth` levels -/
def randExpr : Nat → Nat → Expr × Nat
  | 0, s => (if (s / 7) % 2 == 0 then pick atoms s else pick richAtoms s, lcg s)
  | depth+1, s =>
    let s1 := lcg s
    match (s / 65536) % 15 with
    | 13 | 14 =>
      let (e, s2) := randExpr depth s1
      (.cast (pick castTypes s2) e, lcg s2)
    | 0 | 1 | 2 | 3 =>
      let (l, s2) := randExpr depth s1
      let (r, s3) := randExpr depth s2
      (.bin (pick binOps s3) l r, lcg s3)
    | 4 =>
      let (l, s2) := randExpr depth s1
      let (r, s3) := randExpr depth s2
      (.assign (pick assignOps s3) l r, lcg s3)
    | 5 =>
      let (c, s2) := randExpr depth s1
      let (t, s3) := randExpr depth s2
      let (f, s4) := randExpr depth s3
      (.cond c t f, s4)
    | 6 =>
      let (a, s2) := randExpr depth s1
      let (b, s3) := randExpr depth s2
      if (s3 / 65536) % 2 == 0 then (.comma [a, b], lcg s3)
      else
        let (c, s4) := randExpr depth (lcg s3)
        (.comma [a, b, c], s4)
    | 7 | 8 =>
      let (e, s2) := randExpr depth s1
      (.pre (pick prefixOps s2) e, lcg s2)
    | 9 =>
      let (e, s2) := randExpr depth s1
      (.post (pick ["++", "--"] s2) e, lcg s2)
    | 10 =>
      let (a, s2) := randExpr depth s1
      let (i, s3) := randExpr depth s2
      (.index a i, s3)
    | 11 =>
      let (f, s2) := randExpr depth s1
      match (s2 / 65536) % 3 with
      | 0 => (.call f [], lcg s2)
      | 1 => let (a, s3) := randExpr depth (lcg s2); (.call f [a], s3)
      | _ =>
        let (a, s3) := randExpr depth (lcg s2)
        let (b, s4) := randExpr depth s3
        (.call f [a, b], s4)
    | _ =>
      let (e, s2) := randExpr depth s1
      (.member e (pick [".", "->"] s2) (pick ["m", "next", "T"] (lcg s2)), lcg (lcg s2))

def randDeco : Nat → Nat → Deco
  | 0, _ => []
  | n+1, s => ((s / 65536) % 5 / 3) :: randDeco n (lcg s)   -- mostly 0, sometimes 1


/-! ## exhaustive enumeration: all trees with exactly `n` operator nodes (leaves relabelled) -/

def leaf : Expr := .id "a"

/-- all ways of building one operator node from already-built operands -/
def unaryCtors : List (Expr → Expr) :=
  prefixOps.map (fun op => fun e => Expr.pre op e) ++
  [fun e => .post "++" e, fun e => .post "--" e, fun e => .call e [],
   fun e => .member e "." "m", fun e => .member e "->" "m", fun e => .cast ["int"] e, fun e => .cast ["void", "*"] e]

def binaryCtors : List (Expr → Expr → Expr) :=
  binOps.map (fun op => fun l r => Expr.bin op l r) ++
  assignOps.map (fun op => fun l r => Expr.assign op l r) ++
  [fun a b => .comma [a, b], fun a i => .index a i, fun f a => .call f [a]]

def ternaryCtors : List (Expr → Expr → Expr → Expr) :=
  [fun c t f => .cond c t f, fun a b c => .comma [a, b, c], fun f a b => .call f [a, b]]

def splits2 (n : Nat) : List (Nat × Nat) := (List.range (n + 1)).map fun i => (i, n - i)
def splits3 (n : Nat) : List (Nat × Nat × Nat) :=
  (List.range (n + 1)).flatMap fun i => (List.range (n - i + 1)).map fun j => (i, j, n - i - j)

def enumExpr : Nat → List Expr
  | 0 => [leaf]
  | n+1 =>
    let sub (k : Nat) : List Expr := if h : k ≤ n then enumExpr k else []
    (unaryCtors.flatMap fun c => (sub n).map c) ++
    ((splits2 n).flatMap fun (i, j) =>
      binaryCtors.flatMap fun c => (sub i).flatMap fun l => (sub j).map fun r => c l r) ++
    ((splits3 n).flatMap fun (i, j, k) =>
      ternaryCtors.flatMap fun c =>
        (sub i).flatMap fun a => (sub j).flatMap fun b => (sub k).map fun d => c a b d)
termination_by n => n
decreasing_by all_goals omega

/-- give the leaves distinct spellings, left to right -/
def leafNames : List Expr :=
  [.id "a", .const "int" "1", .id "b", .const "double" "2.5", .id "c", .const "unsigned int" "3u", .id "d"]

mutual
def relabel (e : Expr) (k : Nat) : Expr × Nat :=
  match e with
  | .id _ => (leafNames[k % leafNames.length]!, k + 1)
  | .const .. => (leafNames[k % leafNames.length]!, k + 1)
  | .bin op l r => let (l', k) := relabel l k; let (r', k) := relabel r k; (.bin op l' r', k)
  | .assign op l r => let (l', k) := relabel l k; let (r', k) := relabel r k; (.assign op l' r', k)
  | .cond c t f =>
    let (c', k) := relabel c k; let (t', k) := relabel t k; let (f', k) := relabel f k; (.cond c' t' f', k)
  | .comma es => let (es', k) := relabelL es k; (.comma es', k)
  | .pre op e => let (e', k) := relabel e k; (.pre op e', k)
  | .post op e => let (e', k) := relabel e k; (.post op e', k)
  | .index a i => let (a', k) := relabel a k; let (i', k) := relabel i k; (.index a' i', k)
  | .call f args => let (f', k) := relabel f k; let (a', k) := relabelL args k; (.call f' a', k)
  | .member e op fld => let (e', k) := relabel e k; (.member e' op fld, k)
  | .cast ty e => let (e', k) := relabel e k; (.cast ty e', k)
def relabelL (es : List Expr) (k : Nat) : List Expr × Nat :=
  match es with
  | [] => ([], k)
  | e :: rest => let (e', k) := relabel e k; let (r', k) := relabelL rest k; (e' :: r', k)
end

mutual
def Expr.nodes : Expr → Nat
  | .id _ => 1 | .const .. => 1
  | .bin _ l r => 1 + l.nodes + r.nodes
  | .assign _ l r => 1 + l.nodes + r.nodes
  | .cond c t f => 1 + c.nodes + t.nodes + f.nodes
  | .comma es => 1 + nodesL es
  | .pre _ e => 1 + e.nodes
  | .post _ e => 1 + e.nodes
  | .index a i => 1 + a.nodes + i.nodes
  | .call f args => 1 + f.nodes + nodesL args
  | .member e _ _ => 1 + e.nodes
  | .cast _ e => 1 + e.nodes
def nodesL : List Expr → Nat
  | [] => 0
  | e :: es => e.nodes + nodesL es
end

/-- expression contexts: (name, text before, text after, stratum the context expects,
documented AST of the frame with the hole `(ID "HOLE")`) -/
def frames : List (String × String × String × Nat × String) := [
  ("statement", "void f ( ) { ", " ; }", 0, "(FileAST [ (FuncDef (Decl \"f\" [] [] [] [] (FuncDecl ~ (TypeDecl \"f\" [] ~ (IdentifierType [ \"void\"]))) ~ ~) ~ (Compound [ (ID \"HOLE\")]))])"),
  ("initializer", "int v = ", " ;", 1, "(FileAST [ (Decl \"v\" [] [] [] [] (TypeDecl \"v\" [] ~ (IdentifierType [ \"int\"])) (ID \"HOLE\") ~)])"),
  ("condition", "void f ( ) { if ( ", " ) ; }", 0, "(FileAST [ (FuncDef (Decl \"f\" [] [] [] [] (FuncDecl ~ (TypeDecl \"f\" [] ~ (IdentifierType [ \"void\"]))) ~ ~) ~ (Compound [ (If (ID \"HOLE\") (EmptyStatement) ~)]))])"),
  ("argument", "void f ( ) { g ( ", " , 0 ) ; }", 1, "(FileAST [ (FuncDef (Decl \"f\" [] [] [] [] (FuncDecl ~ (TypeDecl \"f\" [] ~ (IdentifierType [ \"void\"]))) ~ ~) ~ (Compound [ (FuncCall (ID \"g\") (ExprList [ (ID \"HOLE\") (Constant \"int\" \"0\")]))]))])"),
  ("arraybound", "int v [ ", " ] ;", 1, "(FileAST [ (Decl \"v\" [] [] [] [] (ArrayDecl (TypeDecl \"v\" [] ~ (IdentifierType [ \"int\"])) (ID \"HOLE\") []) ~ ~)])"),
  ("caselabel", "void f ( ) { switch ( 0 ) { case ", " : ; } }", 2, "(FileAST [ (FuncDef (Decl \"f\" [] [] [] [] (FuncDecl ~ (TypeDecl \"f\" [] ~ (IdentifierType [ \"void\"]))) ~ ~) ~ (Compound [ (Switch (Constant \"int\" \"0\") (Compound [ (Case (ID \"HOLE\") [ (EmptyStatement)])]))]))])"),
  ("bitwidth", "struct S { int m : ", " ; } ;", 2, "(FileAST [ (Decl ~ [] [] [] [] (Struct \"S\" [ (Decl \"m\" [] [] [] [] (TypeDecl \"m\" [] ~ (IdentifierType [ \"int\"])) ~ (ID \"HOLE\"))]) ~ ~)])"),
  ("enumvalue", "enum E { K = ", " } ;", 2, "(FileAST [ (Decl ~ [] [] [] [] (Enum \"E\" (EnumeratorList [ (Enumerator \"K\" (ID \"HOLE\"))])) ~ ~)])"),
  ("return", "int f ( ) { return ", " ; }", 0, "(FileAST [ (FuncDef (Decl \"f\" [] [] [] [] (FuncDecl ~ (TypeDecl \"f\" [] ~ (IdentifierType [ \"int\"]))) ~ ~) ~ (Compound [ (Return (ID \"HOLE\"))]))])"),
  ("subscript", "int v = z [ ", " ] ;", 0, "(FileAST [ (Decl \"v\" [] [] [] [] (TypeDecl \"v\" [] ~ (IdentifierType [ \"int\"])) (ArrayRef (ID \"z\") (ID \"HOLE\")) ~)])")]

/-- one test case: program text and the AST dump the specification expects -/
def mkCase (e : Expr) (d : Deco) (frameIdx : Nat) : String × String :=
  let (_, pre, suf, q, frame) := frames[frameIdx % frames.length]!
  let toks := (render q e d).1
  (pre ++ " ".intercalate toks ++ suf, frame.replace "(ID \"HOLE\")" (e.toVal.dump false))

end PycModel.Spec
