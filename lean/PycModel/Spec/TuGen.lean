import PycModel.Proofs.TransUnit
import PycModel.Spec.Expr
/-!
# Random translation units of the proved fragment

Generators over the inductive types the theorems quantify over (`FullExpr.X`, `StmtSkel.S`,
`DeclSkel.D`, `DeclParse.Dcl`, `Params.PL`, `TransUnit.Ext`).  Every generated tree is well formed
by construction (`WFX` levels, the dangling-else discipline, specifier rules).  The driver renders
`extsFlat` as program text and prints the `FileAST` that `TransUnit.parse_translation_unit` proves
the parser model returns; the harness compares it with what the **real** parser returns - so the
right-hand side of the theorem is tied to the code directly, not only through the model.
-/
namespace PycModel.TuGen
open PycModel PycModel.View PycModel.Spec PycModel.FullExpr PycModel.StmtSkel PycModel.DeclSkel PycModel.DeclParse PycModel.Params
  PycModel.TransUnit

abbrev R := Nat

def ids : List String := ["a", "b", "c", "x1", "n", "buf", "i", "p"]
def consts : List (String × String × String) :=
  [("INT_CONST_DEC", "1", "int"), ("INT_CONST_DEC", "42", "int"), ("INT_CONST_HEX", "0x2F", "int"), ("INT_CONST_OCT", "017", "int"),
   ("INT_CONST_DEC", "7UL", "unsigned long int"), ("FLOAT_CONST", "1.5", "double"), ("FLOAT_CONST", "2.f", "float"),
   ("FLOAT_CONST", "3e2L", "long double"), ("CHAR_CONST", "'c'", "char"), ("INT_CONST_DEC", "0", "int")]
def prefixToks : List (String × String) :=
  [("PLUSPLUS", "++"), ("MINUSMINUS", "--"), ("AND", "&"), ("TIMES", "*"), ("PLUS", "+"), ("MINUS", "-"), ("NOT", "~"), ("LNOT", "!")]
def binToks : List (String × String × Nat) :=
  [("LOR", "||", 0), ("LAND", "&&", 1), ("OR", "|", 2), ("XOR", "^", 3), ("AND", "&", 4), ("EQ", "==", 5), ("NE", "!=", 5),
   ("GT", ">", 6), ("GE", ">=", 6), ("LT", "<", 6), ("LE", "<=", 6), ("RSHIFT", ">>", 7), ("LSHIFT", "<<", 7),
   ("PLUS", "+", 8), ("MINUS", "-", 8), ("TIMES", "*", 9), ("DIVIDE", "/", 9), ("MOD", "%", 9)]
def assignToks : List (String × String) :=
  [("EQUALS", "="), ("XOREQUAL", "^="), ("TIMESEQUAL", "*="), ("DIVEQUAL", "/="), ("MODEQUAL", "%="), ("PLUSEQUAL", "+="),
   ("MINUSEQUAL", "-="), ("LSHIFTEQUAL", "<<="), ("RSHIFTEQUAL", ">>="), ("ANDEQUAL", "&="), ("OREQUAL", "|=")]

def sel (s : R) (n : Nat) : Nat := (s / 65536) % n

def tnKw : List (List Tk) :=
  [[("INT", "int")], [("UNSIGNED", "unsigned"), ("CHAR", "char")], [("LONG", "long"), ("LONG", "long")], [("VOID", "void")],
   [("CONST", "const"), ("CHAR", "char")], [("DOUBLE", "double")], [("UNSIGNED", "unsigned")], [("SHORT", "short"), ("VOLATILE", "volatile")],
   [("_BOOL", "_Bool")], [("SIGNED", "signed"), ("CONST", "const"), ("INT", "int")]]

/-- a type name: type keywords / qualifiers, then up to two `*` with optional qualifiers -/
def genTN (s : R) : TypeName.TN × R :=
  let sp := pick tnKw s
  let s1 := lcg s
  let n := sel s1 3
  let stars : List (List Tk) := (List.range n).map fun i =>
    if sel (s1 + i * 7919) 4 == 0 then [pick [("CONST", "const"), ("VOLATILE", "volatile"), ("RESTRICT", "restrict")] (s1 + i)] else []
  ({ specs := sp, stars := stars }, lcg s1)

/-- an operand for `++` / `--` / `sizeof`: a unary-expression, so a cast gets parentheses -/
def noCast (e : X) : X := if e.isCast then X.paren e else e

/-- an expression derivable at level `lv` (`WFX lv`), of depth at most `fuel` -/
def genX : Nat → Nat → R → X × R
  | 0, _, s => (if sel s 3 == 0 then (let c := pick consts (lcg s); X.const c.1 c.2.1 c.2.2) else X.id (pick ids (lcg s)), lcg (lcg s))
  | f+1, lv, s =>
    let s1 := lcg s
    if lv ≥ 14 then
      match sel s 9 with
      | 0 => (X.id (pick ids s1), lcg s1)
      | 1 => (let c := pick consts s1; X.const c.1 c.2.1 c.2.2, lcg s1)
      | 2 => let r := genX f 0 s1; (X.paren r.1, r.2)
      | 3 => let r := genX f 14 s1; (X.post (if sel r.2 2 == 0 then "PLUSPLUS" else "MINUSMINUS") (if sel r.2 2 == 0 then "++" else "--") r.1, lcg r.2)
      | 4 => let r := genX f 14 s1; let i := genX f 0 r.2; (X.index r.1 i.1, i.2)
      | 5 => let r := genX f 14 s1; (X.member (if sel r.2 2 == 0 then "PERIOD" else "ARROW") (if sel r.2 2 == 0 then "." else "->") r.1 (pick ["f", "next", "len"] (lcg r.2)), lcg (lcg r.2))
      | 6 => let r := genX f 14 s1; (X.call0 r.1, r.2)
      | 7 => let r := genX f 14 s1; let a := genX f 0 r.2; (X.call r.1 a.1, a.2)
      | _ => (X.id (pick ids s1), lcg s1)
    else if lv == 13 then
      match sel s 8 with
      | 7 => let t := genTN s1; (X.alignT t.1, t.2)
      | 0 => let r := genX f 13 s1; let p := pick prefixToks r.2
             (X.pre p.1 p.2 (if p.1 == "PLUSPLUS" || p.1 == "MINUSMINUS" then noCast r.1 else r.1), lcg r.2)
      | 1 => let r := genX f 13 s1; (X.szof (noCast r.1), r.2)
      | 2 => let t := genTN s1; let r := genX f 13 t.2; (X.cast t.1 r.1, r.2)
      | 3 => let t := genTN s1; (X.szofT t.1, t.2)
      | _ => genX f 14 s1
    else if lv ≥ 3 then
      if sel s 2 == 0 then genX f 13 s1 else
      let cands := binToks.filter fun b => lv ≤ 3 + b.2.2
      let b := pick cands s1
      let l := genX f (3 + b.2.2) (lcg s1)
      let r := genX f (3 + b.2.2 + 1) l.2
      (X.bin b.1 b.2.1 l.1 r.1, r.2)
    else if lv == 2 then
      if sel s 3 == 0 then
        let c := genX f 3 s1; let t := genX f 0 c.2; let e := genX f 2 t.2
        (X.cond c.1 t.1 e.1, e.2)
      else genX f 3 s1
    else if lv == 1 then
      if sel s 3 == 0 then
        let l := genX f 13 s1; let r := genX f 1 l.2; let a := pick assignToks r.2
        (X.assign a.1 a.2 l.1 r.1, lcg r.2)
      else genX f 2 s1
    else
      if sel s 4 == 0 then
        let a := genX f 1 s1; let b := genX f 0 a.2
        (X.comma a.1 b.1, b.2)
      else genX f 1 s1

def genOX (f lv : Nat) (s : R) : Option X × R :=
  if sel s 3 == 0 then (none, lcg s) else let r := genX f lv (lcg s); (some r.1, r.2)

def qualToks : List Tk := [("CONST", "const"), ("VOLATILE", "volatile"), ("RESTRICT", "restrict")]

/-- a named declarator: stars with qualifiers, suffixes, and (sometimes) a parenthesised inner
declarator with suffixes of its own (`(*name[2])()` ...) -/
def genD (x : String) (s : R) : D × R :=
  let rec suf : Nat → D → R → D × R
    | 0, d, s => (d, s)
    | k+1, d, s =>
      if sel s 3 == 0 then suf k (D.fn0 d) (lcg s)
      else
        let dim := if sel s 2 == 0 then (none, lcg s) else (let r := genX 2 1 (lcg s); (some r.1, r.2))
        suf k (D.arr d dim.1) dim.2
  let mkStars (n : Nat) (s : R) : List (List Tk) :=
    (List.range n).map fun i => if sel (s + i * 7919) 3 == 0 then [pick qualToks (s + i)] else []
  let base := suf (sel s 3) (D.name x) (lcg s)
  let nstar := sel base.2 3
  let s2 := lcg base.2
  let inner : D := if nstar == 0 then base.1 else D.ptr (mkStars nstar s2) base.1
  let s3 := lcg s2
  if sel s3 4 == 0 then
    -- group it and continue outside the parentheses
    let outer := suf (1 + sel (lcg s3) 2) (D.paren inner) (lcg (lcg s3))
    let s4 := lcg outer.2
    if sel s4 3 == 0 then (D.ptr (mkStars 1 s4) outer.1, lcg s4) else (outer.1, lcg s4)
  else (inner, s3)

def typeKw : List (List Tk) :=
  [[("INT", "int")], [("UNSIGNED", "unsigned"), ("INT", "int")], [("LONG", "long"), ("UNSIGNED", "unsigned")], [("CHAR", "char")],
   [("LONG", "long"), ("LONG", "long"), ("INT", "int")], [("DOUBLE", "double")], [("SHORT", "short")], [("_BOOL", "_Bool")],
   [("SIGNED", "signed"), ("CHAR", "char")], [("FLOAT", "float")], [("VOID", "void")]]

/-- specifiers in a random order: type keywords, optionally a qualifier / storage class / function specifier -/
def genSpecs (allowStorage : Bool) (s : R) : List Tk × R :=
  let ty := pick typeKw s
  let s1 := lcg s
  let q : List Tk := if sel s1 3 == 0 then [pick [("CONST", "const"), ("VOLATILE", "volatile")] (lcg s1)] else []
  let s2 := lcg (lcg s1)
  let st : List Tk := if allowStorage && sel s2 3 == 0 then [pick [("STATIC", "static"), ("EXTERN", "extern"), ("REGISTER", "register")] (lcg s2)] else []
  let s3 := lcg (lcg s2)
  -- interleave: storage and qualifier go to random positions
  let ins (l : List Tk) (t : List Tk) (k : Nat) : List Tk := l.take (k % (l.length + 1)) ++ t ++ l.drop (k % (l.length + 1))
  (ins (ins ty q (sel s3 5)) st (sel (lcg s3) 5), lcg (lcg s3))

def declNames : List String := ["v", "w", "cnt", "ptr", "tab", "k", "m"]

/-- a designation: nothing (mostly), or one or two of `. name` / `[ conditional-expression ]` -/
def genDesigs (s : R) : List Init.Desig × R :=
  let one (s : R) : Init.Desig × R :=
    if sel s 2 == 0 then (.field (pick ["f", "next", "len"] (lcg s)), lcg (lcg s))
    else let e := genX 1 2 (lcg s); (.index e.1, e.2)
  match sel s 5 with
  | 0 => let d := one (lcg s); ([d.1], d.2)
  | 1 => let d := one (lcg s); let d2 := one d.2; ([d.1, d2.1], d2.2)
  | _ => ([], lcg s)

def genILwith (g : R → Init.I × R) : Nat → R → Init.IL × R
  | 0, s => (.nil, s)
  | k+1, s =>
    let ds := genDesigs (lcg s)
    let i := g ds.2; let r := genILwith g k i.2; (.cons ds.1 i.1 r.1, r.2)

/-- an initializer: an assignment expression or a (nested) brace list, sometimes with a trailing comma -/
def genI : Nat → R → Init.I × R
  | 0, s => let e := genX 2 1 s; (.expr e.1, e.2)
  | f+1, s =>
    if sel s 3 != 0 then let e := genX 2 1 (lcg s); (.expr e.1, e.2)
    else
      let n := sel (lcg s) 4
      if n == 0 then (.list .nil false, lcg (lcg s))
      else
        let its := genILwith (genI f) n (lcg (lcg s))
        (.list its.1 (sel its.2 3 == 0), lcg its.2)

def genIDc (x : String) (s : R) : IDc × R :=
  let d := genD x s
  if sel d.2 2 == 0 then ({ d := d.1, init := none }, lcg d.2)
  else let e := genI 2 (lcg d.2); ({ d := d.1, init := some e.1 }, e.2)

def genDcl (storage : Bool) (s : R) : Dcl × R :=
  let sp := genSpecs storage s
  let f := genIDc (pick declNames sp.2) (lcg sp.2)
  let n := sel f.2 3
  let rec more : Nat → R → List IDc → List IDc × R
    | 0, s, acc => (acc.reverse, s)
    | k+1, s, acc => let it := genIDc (pick declNames s ++ toString k) (lcg s); more k it.2 (it.1 :: acc)
  let m := more n (lcg f.2) []
  ({ specs := sp.1, first := f.1, more := m.1 }, m.2)

def genAtom (s : R) : S × R :=
  let k := sel s 6
  if k == 0 then (S.empty, lcg s)
  else if k == 1 then (S.brk, lcg s)
  else if k == 2 then (S.cont, lcg s)
  else if k == 3 then (S.ret none, lcg s)
  else if k == 4 then (S.goto_ "L", lcg s)
  else let r := genX 2 0 (lcg s); (S.expr r.1, r.2)

/-- a statement; `ifElse` gets a then-branch that does not end in an else-less `if` -/
def genS : Nat → R → S × R
  | 0, s => genAtom s
  | d+1, s =>
    let s1 := lcg s
    let k := sel s 17
    if k == 0 then let r := genX 3 0 s1; (S.expr r.1, r.2)
    else if k == 1 then let c := genX 2 0 s1; let t := genS d c.2; (S.ifThen c.1 t.1, t.2)
    else if k == 2 then
      let c := genX 2 0 s1; let t := genS d c.2; let e := genS d t.2
      (S.ifElse c.1 (if t.1.openIf then S.block (.cons t.1 .nil) else t.1) e.1, e.2)
    else if k == 3 then let c := genX 2 0 s1; let b := genS d c.2; (S.while_ c.1 b.1, b.2)
    else if k == 4 then let b := genS d s1; let c := genX 2 0 b.2; (S.doWhile b.1 c.1, c.2)
    else if k == 5 then let r := genX 2 0 s1; (S.ret (some r.1), r.2)
    else if k == 6 then let e := genX 2 2 s1; let b := genS d e.2; (S.case_ e.1 b.1, b.2)
    else if k == 7 then let b := genS d s1; (S.default_ b.1, b.2)
    else if k == 8 then
      let c := genX 2 0 s1
      let a := genS d c.2; let b := genS d a.2; let e := genX 1 2 b.2
      (S.switch_ c.1 (S.block (.cons (S.case_ e.1 a.1) (.cons b.1 (.cons (S.default_ S.brk) .nil)))), e.2)
    else if k == 9 then
      let i := genOX 2 0 s1; let c := genOX 2 0 i.2; let n := genOX 2 0 c.2; let b := genS d n.2
      (S.for_ i.1 c.1 n.1 b.1, b.2)
    else if k == 10 then let b := genS d s1; (S.label (pick ["L", "out", "again"] b.2) b.1, lcg b.2)
    else if k == 11 then let a := genS d s1; let b := genS d a.2; (S.block (.cons a.1 (.cons b.1 .nil)), b.2)
    else if k == 12 then (S.block .nil, s1)
    else if k == 13 then
      -- a block that starts with a declaration
      let dc := genDcl true s1; let a := genS d dc.2
      (S.block (.consD dc.1 (.cons a.1 .nil)), a.2)
    else if k == 14 then
      -- a declaration between statements
      let a := genS d s1; let dc := genDcl true a.2; let b := genS d dc.2
      (S.block (.cons a.1 (.consD dc.1 (.cons b.1 .nil))), b.2)
    else if k == 15 then
      -- `for` with a declaration as first clause
      let dc := genDcl false s1; let c := genOX 2 0 dc.2; let n := genOX 2 0 c.2; let b := genS d n.2
      (S.forD dc.1 c.1 n.1 b.1, b.2)
    else genAtom s1

def genItems (depth : Nat) : Nat → R → SL × R
  | 0, s => (.nil, s)
  | k+1, s =>
    if sel s 3 == 0 then let d := genDcl true (lcg s); let r := genItems depth k d.2; (.consD d.1 r.1, r.2)
    else if sel s 11 == 0 then
      -- a `#pragma` line between block items, with or without text
      let r := genItems depth k (lcg (lcg s))
      (.consP (if sel (lcg s) 3 == 0 then none else some (pick ["omp parallel for", "pack(1)", "once  x"] (lcg s))) r.1, r.2)
    else let st := genS depth (lcg s); let r := genItems depth k st.2; (.cons st.1 r.1, r.2)

def genParam (x : String) (s : R) : PItem × R :=
  let sp := genSpecs false s
  if sel sp.2 3 == 0 then
    -- an unnamed parameter: specifiers and stars
    let s1 := lcg sp.2
    let n := sel s1 3
    let stars : List (List Tk) := (List.range n).map fun i =>
      if sel (s1 + i * 7919) 4 == 0 then [pick [("CONST", "const"), ("VOLATILE", "volatile"), ("RESTRICT", "restrict")] (s1 + i)] else []
    (.unnamed { specs := sp.1, stars := stars }, lcg s1)
  else
    let d := genD x (lcg sp.2)
    (.named { specs := sp.1, d := d.1 }, d.2)

def genParamsRest : Nat → R → List PItem → List PItem × R
  | 0, s, acc => (acc.reverse, s)
  | k+1, s, acc => let p := genParam ("q" ++ toString k) (lcg s); genParamsRest k p.2 (p.1 :: acc)

def genExt (depth : Nat) (idx : Nat) (s : R) : Ext × R :=
  let s1 := lcg s
  match sel s 4 with
  | 0 => let d := genDcl true s1; (.decl d.1, d.2)
  | 1 =>
    let sp := genSpecs true s1
    let body := genItems depth (sel sp.2 4) (lcg sp.2)
    (.fdef { specs := sp.1, d := D.fn0 (D.name ("f" ++ toString idx)), body := body.1 }, body.2)
  | 2 =>
    -- a prototype, possibly followed by further declarators
    let sp := genSpecs true s1
    let p0 := genParam "a" (lcg sp.2)
    let np := sel p0.2 3
    let rest := genParamsRest np (lcg p0.2) []
    let nm := if sel rest.2 3 == 0 then 1 else 0
    let rec more : Nat → R → List IDc → List IDc × R
      | 0, s, acc => (acc.reverse, s)
      | k+1, s, acc => let it := genIDc ("w" ++ toString idx ++ "_" ++ toString k) (lcg s); more k it.2 (it.1 :: acc)
    let m := more nm (lcg rest.2) []
    if sel m.2 4 == 0 then
      (.proto { specs := sp.1, fd := { x := "pv" ++ toString idx, params := .void }, more := m.1 }, lcg m.2)
    else
      (.proto { specs := sp.1, fd := { x := "pr" ++ toString idx, params := .named { first := p0.1, more := rest.1 } }, more := m.1 },
        lcg m.2)
  | _ =>
    let sp := genSpecs true s1
    let p0 := genParam "a" (lcg sp.2)
    let np := sel p0.2 3
    let rest := genParamsRest np (lcg p0.2) []
    let body := genItems depth (sel rest.2 4) (lcg rest.2)
    if sel body.2 4 == 0 then
      (.fdefp { specs := sp.1, fd := { x := "h" ++ toString idx, params := .void }, body := body.1 }, lcg body.2)
    else
      (.fdefp { specs := sp.1, fd := { x := "g" ++ toString idx, params := .named { first := p0.1, more := rest.1 } }, body := body.1 }, lcg body.2)

def genProgram (depth n : Nat) (s : R) : List Ext × R :=
  let rec go : Nat → R → List Ext → List Ext × R
    | 0, s, acc => (acc.reverse, s)
    | k+1, s, acc => let e := genExt depth k (lcg s); go k e.2 (e.1 :: acc)
  go n s []

/-- the tokens as text: a blank between two tokens, a `#pragma` directive on a line of its own -/
def renderToks : List Tk → String
  | [] => ""
  | ("PPPRAGMA", _) :: ("PPPRAGMASTR", v) :: r => "\n#pragma " ++ v ++ "\n" ++ renderToks r
  | ("PPPRAGMA", _) :: r => "\n#pragma\n" ++ renderToks r
  | t :: r => t.2 ++ " " ++ renderToks r

/-- program text and the `FileAST` of `parse_translation_unit` (coordinate-free dump) -/
def tuCase (l : List Ext) : String × String :=
  (renderToks (extsFlat l), (mk .FileAST none [.list (extsVals 0 l)]).dump false)

end PycModel.TuGen
