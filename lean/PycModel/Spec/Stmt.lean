import PycModel.Spec.Decl
/-!
# Specification of C statements (C99 6.8) and of the statement AST

`Stmt` is the abstract syntax (an `else` is stored with its `if`; labels own the statement that
follows them); `renderS` prints it; `Stmt.toVal` is the documented AST, including the regrouping
of a switch block under its `case`/`default` labels, written here from the property's wording
(not from `fix_switch_cases`).
-/
namespace PycModel.Spec
open PycModel
set_option maxRecDepth 100000

inductive ForInit where
  | none
  | expr (e : Expr)
  | decl (name : String) (init : Expr)        -- `int name = init`
  | decl2 (n1 : String) (i1 : Expr) (n2 : String)  -- `int n1 = i1 , n2`
  deriving Repr, Inhabited

inductive Stmt where
  | expr (e : Expr)
  | empty
  | compound (items : List Stmt)
  | ifThen (c : Expr) (t : Stmt)
  | ifElse (c : Expr) (t f : Stmt)
  | while_ (c : Expr) (b : Stmt)
  | doWhile (b : Stmt) (c : Expr)
  | for_ (init : ForInit) (c n : Option Expr) (b : Stmt)
  | switch_ (c : Expr) (b : Stmt)
  | case_ (e : Expr) (s : Stmt)
  | default_ (s : Stmt)
  | label (n : String) (s : Stmt)
  | goto (n : String)
  | break_
  | continue_
  | return_ (e : Option Expr)
  -- block items that are not statements (only allowed directly inside `compound`)
  | decl (name : String) (init : Option Expr)     -- `int name = init ;`
  | staticAssert (c : Expr) (msg : Option String)
  | pragma (text : String)                        -- a `#pragma text` line as a block item
  -- one or more pragma lines in front of a substatement
  | pragmaThen (ps : List String) (s : Stmt)
  deriving Repr, Inhabited

mutual
/-- does the statement end in an `if` without `else` (so that a following `else` would attach to it)? -/
def Stmt.openIf : Stmt → Bool
  | .ifThen .. => true
  | .ifElse _ _ f => f.openIf
  | .while_ _ b => b.openIf
  | .for_ _ _ _ b => b.openIf
  | .switch_ _ b => b.openIf
  | .case_ _ s => s.openIf
  | .default_ s => s.openIf
  | .label _ s => s.openIf
  | .pragmaThen _ s => s.openIf
  | _ => false
end

def exprToks (q : Nat) (e : Expr) : List String := (render q e []).1

def optExprToks : Option Expr → List String
  | some e => exprToks lvComma e
  | none => []

/-- a pragma text that starts with a double quote stands for the operator form `_Pragma("...")`
(the text is then the string literal as spelled); any other text for a `#pragma text` line -/
def isPragmaOp (t : String) : Bool := t.startsWith "\""

def pragmaLine (t : String) : String :=
  if isPragmaOp t then "_Pragma ( " ++ t ++ " )"
  else if t.isEmpty then "\n#pragma\n" else "\n#pragma " ++ t ++ "\n"

/-- the documented AST: `Pragma(string)`; for the operator form the string is the literal's `Constant` -/
def pragmaVal (t : String) : Val :=
  if isPragmaOp t then nd .Pragma [nd .Constant [.str "string", .str t]] else nd .Pragma [.str t]

mutual
/-- concrete syntax; pragma lines are rendered on lines of their own -/
def renderS : Stmt → List String
  | .expr e => exprToks lvComma e ++ [";"]
  | .empty => [";"]
  | .compound items => ["{"] ++ renderItems items ++ ["}"]
  | .ifThen c t => ["if", "("] ++ exprToks lvComma c ++ [")"] ++ renderS t
  | .ifElse c t f => ["if", "("] ++ exprToks lvComma c ++ [")"] ++ renderS t ++ ["else"] ++ renderS f
  | .while_ c b => ["while", "("] ++ exprToks lvComma c ++ [")"] ++ renderS b
  | .doWhile b c => ["do"] ++ renderS b ++ ["while", "("] ++ exprToks lvComma c ++ [")", ";"]
  | .for_ init c n b =>
    let it := match init with
      | .none => [";"]
      | .expr e => exprToks lvComma e ++ [";"]
      | .decl nm i => ["int", nm, "="] ++ exprToks lvAssign i ++ [";"]
      | .decl2 n1 i1 n2 => ["int", n1, "="] ++ exprToks lvAssign i1 ++ [",", n2, ";"]
    ["for", "("] ++ it ++ optExprToks c ++ [";"] ++ optExprToks n ++ [")"] ++ renderS b
  | .switch_ c b => ["switch", "("] ++ exprToks lvComma c ++ [")"] ++ renderS b
  | .case_ e s => ["case"] ++ exprToks lvCond e ++ [":"] ++ renderS s
  | .default_ s => ["default", ":"] ++ renderS s
  | .label n s => [n, ":"] ++ renderS s
  | .goto n => ["goto", n, ";"]
  | .break_ => ["break", ";"]
  | .continue_ => ["continue", ";"]
  | .return_ e => ["return"] ++ optExprToks e ++ [";"]
  | .decl nm init => ["int", nm] ++ (match init with | some e => "=" :: exprToks lvAssign e | none => []) ++ [";"]
  | .staticAssert c msg =>
    ["_Static_assert", "("] ++ exprToks lvCond c ++
      (match msg with | some m => [",", "\"" ++ m ++ "\""] | none => []) ++ [")", ";"]
  | .pragma t => [pragmaLine t]
  | .pragmaThen ps s => ps.map pragmaLine ++ renderS s
def renderItems : List Stmt → List String
  | [] => []
  | s :: r => renderS s ++ renderItems r
end

/-! ## documented AST -/

def intDecl (nm : String) (init : Val) : Val :=
  nd .Decl [.str nm, strsV [], strsV [], strsV [], strsV [], typeDecl (some nm) [] (identType ["int"]), init, .none]

def optVal : Option Expr → Val
  | some e => e.toVal
  | none => .none

/-- a `case`/`default` label node with the given statements, taking the label from `l` -/
def relabel' (l : Val) (stmts : List Val) : Val :=
  match l with
  | .node .Case co (e :: _) => .node .Case co [e, .list stmts]
  | .node .Default co _ => .node .Default co [.list stmts]
  | v => v

def isLabelV (v : Val) : Bool := v.isCls .Case || v.isCls .Default

def labelStmts (v : Val) : List Val :=
  match v with
  | .node .Case _ [_, .list ss] => ss
  | .node .Default _ [.list ss] => ss
  | _ => []

/-- peel the chain of labels in front of a statement: `case 1: case 2: s` ↦ ([case 1, case 2], s).
(On the syntactic AST a label owns exactly the one statement that follows it.) -/
def peelLabelsV : Nat → Val → List Val × List Val
  | 0, v => ([], [v])
  | fuel+1, v =>
    if isLabelV v then
      match labelStmts v with
      | [inner] =>
        if isLabelV inner then
          let (ls, b) := peelLabelsV fuel inner
          (v :: ls, b)
        else ([v], [inner])
      | ss => ([v], ss)
    else ([], [v])

/-- the switch-block regrouping, from the property's wording: items before the first label stay;
each label opens a group; consecutive labels are siblings (all but the last of a chain have no
statements); every other item goes under the nearest preceding label, in source order. -/
def regroupGo : List Val → List Val → Option (Val × List Val) → List Val
  | [], done, none => done
  | [], done, some (l, ss) => done ++ [relabel' l ss]
  | v :: r, done, cur =>
    match peelLabelsV (v.size + 1) v with
    | ([], _) =>
      match cur with
      | none => regroupGo r (done ++ [v]) none
      | some (l, ss) => regroupGo r done (some (l, ss ++ [v]))
    | (ls, body) =>
      let closed := match cur with | none => done | some (l, ss) => done ++ [relabel' l ss]
      let firsts := ls.dropLast.map fun l => relabel' l []
      regroupGo r (closed ++ firsts) (some (ls.getLast!, body))

def regroup (items : List Val) : List Val := regroupGo items [] none

/-- body of a switch: a block is regrouped (an empty block becomes an empty list), anything else is kept -/
def switchBodyV (v : Val) : Val :=
  match v with
  | .node .Compound co [.list items] => .node .Compound co [.list (regroup items)]
  | .node .Compound co [.none] => .node .Compound co [.list []]
  | v => v

mutual
def Stmt.toVal : Stmt → Val
  | .expr e => e.toVal
  | .empty => nd .EmptyStatement []
  | .compound [] => nd .Compound [.none]
  | .compound items => nd .Compound [.list (itemsVal items)]
  | .ifThen c t => nd .If [c.toVal, t.toVal, .none]
  | .ifElse c t f => nd .If [c.toVal, t.toVal, f.toVal]
  | .while_ c b => nd .While [c.toVal, b.toVal]
  | .doWhile b c => nd .DoWhile [c.toVal, b.toVal]
  | .for_ init c n b =>
    let iv := match init with
      | .none => Val.none
      | .expr e => e.toVal
      | .decl nm i => nd .DeclList [.list [intDecl nm i.toVal]]
      | .decl2 n1 i1 n2 => nd .DeclList [.list [intDecl n1 i1.toVal, intDecl n2 .none]]
    nd .For [iv, optVal c, optVal n, b.toVal]
  | .switch_ c b => nd .Switch [c.toVal, switchBodyV b.toVal]
  | .case_ e s => nd .Case [e.toVal, .list [s.toVal]]
  | .default_ s => nd .Default [.list [s.toVal]]
  | .label n s => nd .Label [.str n, s.toVal]
  | .goto n => nd .Goto [.str n]
  | .break_ => nd .Break []
  | .continue_ => nd .Continue []
  | .return_ e => nd .Return [optVal e]
  | .decl nm init => intDecl nm (optVal init)
  | .staticAssert c msg =>
    nd .StaticAssert [c.toVal, match msg with
      | some m => nd .Constant [.str "string", .str ("\"" ++ m ++ "\"")] | none => .none]
  | .pragma t => pragmaVal t
  | .pragmaThen ps s => nd .Compound [.list (ps.map pragmaVal ++ [s.toVal])]
/-- block items; pragma lines in front of a block item are block items themselves -/
def itemsVal : List Stmt → List Val
  | [] => []
  | .pragmaThen ps s :: r => ps.map pragmaVal ++ s.toVal :: itemsVal r
  -- pycparser reads the `;` after a static assertion inside a block as an empty statement of its
  -- own (pinned by the repository's test_static_assert); at file scope the `;` is dropped
  | .staticAssert c m :: r => (Stmt.staticAssert c m).toVal :: nd .EmptyStatement [] :: itemsVal r
  | s :: r => s.toVal :: itemsVal r
end

/-- `void f ( ) { items }` -/
def stmtCase (items : List Stmt) : String × String :=
  let body : Stmt := .compound items
  (" ".intercalate (["void", "f", "(", ")"] ++ renderS body),
   (nd .FileAST [.list [nd .FuncDef [
      nd .Decl [.str "f", strsV [], strsV [], strsV [], strsV [],
        nd .FuncDecl [.none, typeDecl (some "f") [] (identType ["void"])], .none, .none],
      .none, body.toVal]]]).dump false)

/-! ## generators -/

/-- consecutive pragma lines in front of a statement form one group -/
def mkPragmaThen (ps : List String) (s : Stmt) : Stmt :=
  match s with
  | .pragmaThen qs t => .pragmaThen (ps ++ qs) t
  | s => .pragmaThen ps s


def sAtoms : List Stmt :=
  [.expr (.id "a"), .empty, .break_, .return_ none, .expr (.assign "=" (.id "x") (.const "int" "1")),
   .continue_, .goto "L", .return_ (some (.id "r"))]

def cE : Expr := .id "c"

def forInits : List ForInit :=
  [.none, .expr (.id "i"), .decl "i" (.const "int" "0"), .decl2 "i" (.const "int" "0") "j"]

/-- every combination of init form x condition present/absent x step present/absent -/
def forWraps : List (Stmt → Stmt) :=
  forInits.flatMap fun ini =>
    [fun s => Stmt.for_ ini none none s, fun s => .for_ ini (some cE) none s,
     fun s => .for_ ini none (some (.post "++" (.id "i"))) s,
     fun s => .for_ ini (some cE) (some (.post "++" (.id "i"))) s]

/-- wrappers with one substatement -/
def sWrap1 : List (Stmt → Stmt) :=
  [fun s => .ifThen cE s, fun s => .while_ cE s, fun s => .doWhile s cE,
   fun s => .switch_ cE s, fun s => .case_ (.const "int" "1") s, fun s => .default_ s,
   fun s => .label "L" s, fun s => .compound [s], fun s => mkPragmaThen ["p"] s] ++ forWraps ++
    [fun s => mkPragmaThen ["\"q\""] s]

def okThen (t : Stmt) : Bool := !t.openIf

/-- all statements of nesting depth ≤ d over the reduced alphabet (first `na` atoms, first `nw` wrappers) -/
def enumStmt (na nw : Nat) : Nat → List Stmt
  | 0 => sAtoms.take na
  | d+1 =>
    let sub := enumStmt na nw d
    sub ++ ((sWrap1.take nw).flatMap fun w => sub.map w) ++
      (sub.flatMap fun t => if okThen t then sub.map fun f => Stmt.ifElse cE t f else []) ++
      (sub.flatMap fun a => sub.map fun b => Stmt.compound [a, b])

def blockExtras : List Stmt :=
  [.decl "v" (some (.const "int" "2")), .decl "w" none, .staticAssert (.const "int" "1") (some "m"),
   .staticAssert (.id "k") none, .pragma "once", .pragma "", .pragma "\"op text\""]

def genList (g : Nat → Stmt × Nat) : Nat → Nat → List Stmt → List Stmt × Nat
  | 0, s, acc => (acc.reverse, s)
  | k+1, s, acc => let (it, s') := g s; genList g k s' (it :: acc)

def genSwitchItems (g : Nat → Stmt × Nat) : Nat → Nat → List Stmt → List Stmt × Nat
  | 0, s, acc => (acc.reverse, s)
  | k+1, s, acc =>
    let (it, s') := g s
    match (s' / 65536) % 4 with
    | 0 => genSwitchItems g k (lcg s') (.case_ (.const "int" (toString k)) it :: acc)
    | 1 => genSwitchItems g k (lcg s') (.case_ (.const "int" (toString k)) (.default_ it) :: acc)
    | _ => genSwitchItems g k (lcg s') (it :: acc)

def isBlockOnly : Stmt → Bool
  | .decl .. => true
  | .staticAssert .. => true
  | .pragma _ => true
  | _ => false

/-- a label cannot be followed directly by a declaration / static assertion / pragma line -/
def wrapBlockOnly (s : Stmt) : Stmt :=
  match s with
  | .pragma t => .pragmaThen [t] .empty
  | s => if isBlockOnly s then .compound [s] else s

def fixItem : Stmt → Stmt
  | .case_ e b =>
    match b with
    | .default_ b' => .case_ e (.default_ (wrapBlockOnly b'))
    | b => .case_ e (wrapBlockOnly b)
  | x => x

/-- random statement of depth ≤ d; `blk` = we are generating a block item (declarations allowed) -/
def randStmt : Nat → Bool → Nat → Stmt × Nat
  | 0, blk, s =>
    if blk && (s / 65536) % 4 == 0 then (pick blockExtras (lcg s), lcg (lcg s))
    else (pick sAtoms s, lcg s)
  | d+1, blk, s =>
    let s1 := lcg s
    let k := (s / 65536) % 10
    if k == 0 then randStmt 0 blk s1
    else if k ≤ 3 then
      let r := randStmt d false s1
      ((pick sWrap1 r.2) r.1, lcg r.2)
    else if k == 4 then
      let r1 := randStmt d false s1
      let r2 := randStmt d false r1.2
      if okThen r1.1 then (.ifElse cE r1.1 r2.1, r2.2) else (.ifElse cE (.compound [r1.1]) r2.1, r2.2)
    else if k ≤ 6 then
      let n := (s1 / 65536) % 4
      let r := genList (fun s => randStmt d true s) n (lcg s1) []
      (.compound r.1, r.2)
    else if k ≤ 8 then
      let n := 1 + (s1 / 65536) % 5
      let r := genSwitchItems (fun s => randStmt d true s) n (lcg s1) []
      (.switch_ cE (.compound (r.1.map fixItem)), r.2)
    else
      let r := randStmt d false s1
      (mkPragmaThen (match (r.2 / 65536) % 3 with
        | 0 => ["omp parallel"] | 1 => ["a", "b c"] | _ => ["\"omp flush\"", "z"]) r.1, lcg r.2)

end PycModel.Spec
