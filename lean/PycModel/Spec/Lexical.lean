/-!
# Lexical grammar of C99 literals (6.4.4.1, 6.4.4.2, 6.4.4.4, 6.4.5), as recognisers

Written from the standard, plus — as explicit, separately named clauses — the extensions
pycparser documents: binary integer constants, `u8`/`u`/`U` prefixes, the lenient escape letters
(for Windows paths in `#line`), decimal escapes of any length.
-/
namespace PycModel.Spec.Lex

def isDigit (c : Char) : Bool := '0' ≤ c && c ≤ '9'
def isOct (c : Char) : Bool := '0' ≤ c && c ≤ '7'
def isHex (c : Char) : Bool := isDigit c || ('a' ≤ c && c ≤ 'f') || ('A' ≤ c && c ≤ 'F')
def isBin (c : Char) : Bool := c == '0' || c == '1'

/-- longest prefix of characters satisfying `p`; returns (prefix, rest) -/
def spanP (p : Char → Bool) : List Char → List Char × List Char
  | [] => ([], [])
  | c :: s => if p c then let r := spanP p s; (c :: r.1, r.2) else ([], c :: s)

/-- 6.4.4.1 integer-suffix: `u`/`U` optionally with `l`/`L`/`ll`/`LL`, in either order -/
def intSuffixes : List String :=
  ["", "u", "U", "l", "L", "ll", "LL", "ul", "uL", "Ul", "UL", "ull", "uLL", "Ull", "ULL",
   "lu", "lU", "Lu", "LU", "llu", "llU", "LLu", "LLU"]

def isIntSuffix (s : List Char) : Bool := intSuffixes.contains (String.ofList s)

/-- type pycparser documents for a suffix: "unsigned " per u, "long " per l, then "int" -/
def intSuffixType (suf : String) : String :=
  let u := suf.toList.countP fun c => c == 'u' || c == 'U'
  let l := suf.toList.countP fun c => c == 'l' || c == 'L'
  (if u > 0 then "unsigned " else "") ++ (if l == 2 then "long long " else if l == 1 then "long " else "") ++ "int"

inductive Kind
  | intDec | intOct | intHex | intBin | float | hexFloat
  | char (prefix_ : String) | multiChar | string (prefix_ : String)
  deriving Repr, DecidableEq, Inhabited

def Kind.tokenClass : Kind → String
  | .intDec => "INT_CONST_DEC" | .intOct => "INT_CONST_OCT" | .intHex => "INT_CONST_HEX"
  | .intBin => "INT_CONST_BIN" | .float => "FLOAT_CONST" | .hexFloat => "HEX_FLOAT_CONST"
  | .char "" => "CHAR_CONST" | .char "L" => "WCHAR_CONST" | .char "u8" => "U8CHAR_CONST"
  | .char "u" => "U16CHAR_CONST" | .char _ => "U32CHAR_CONST"
  | .multiChar => "INT_CONST_CHAR"
  | .string "" => "STRING_LITERAL" | .string "L" => "WSTRING_LITERAL" | .string "u8" => "U8STRING_LITERAL"
  | .string "u" => "U16STRING_LITERAL" | .string _ => "U32STRING_LITERAL"

/-- 6.4.4.1 (+ binary extension): whole-string integer constant -/
def intConst (s : List Char) : Option Kind :=
  match s with
  | '0' :: x :: r =>
    if x == 'x' || x == 'X' then
      let (d, suf) := spanP isHex r
      if !d.isEmpty && isIntSuffix suf then some .intHex else none
    else if x == 'b' || x == 'B' then
      let (d, suf) := spanP isBin r
      if !d.isEmpty && isIntSuffix suf then some .intBin else none
    else
      let (_, suf) := spanP isOct (x :: r)
      if isIntSuffix suf then some .intOct else none
  | ['0'] => some .intOct
  | c :: r =>
    if isDigit c && c != '0' then
      let (_, suf) := spanP isDigit r
      if isIntSuffix suf then some .intDec else none
    else none
  | [] => none

def isFloatSuffix (s : List Char) : Bool := s == [] || s == ['f'] || s == ['F'] || s == ['l'] || s == ['L']

/-- exponent-part / binary-exponent-part: marker, optional sign, digit-sequence; returns the rest -/
def exponent (markers : List Char) : List Char → Option (List Char)
  | e :: r =>
    if markers.contains e then
      let r := match r with | '+' :: t => t | '-' :: t => t | t => t
      let (d, rest) := spanP isDigit r
      if d.isEmpty then none else some rest
    else none
  | [] => none

/-- 6.4.4.2 decimal floating constant -/
def decFloat (s : List Char) : Bool :=
  let (ip, r) := spanP isDigit s
  match r with
  | '.' :: r2 =>
    let (fp, r3) := spanP isDigit r2
    if ip.isEmpty && fp.isEmpty then false
    else
      match exponent ['e', 'E'] r3 with
      | some rest => isFloatSuffix rest
      | none => isFloatSuffix r3
  | _ =>
    if ip.isEmpty then false else
    match exponent ['e', 'E'] r with
    | some rest => isFloatSuffix rest
    | none => false

/-- 6.4.4.2 hexadecimal floating constant (binary exponent mandatory) -/
def hexFloat (s : List Char) : Bool :=
  match s with
  | '0' :: x :: r =>
    if x == 'x' || x == 'X' then
      let (ip, r1) := spanP isHex r
      match r1 with
      | '.' :: r2 =>
        let (fp, r3) := spanP isHex r2
        if ip.isEmpty && fp.isEmpty then false
        else match exponent ['p', 'P'] r3 with
          | some rest => isFloatSuffix rest
          | none => false
      | _ =>
        if ip.isEmpty then false
        else match exponent ['p', 'P'] r1 with
          | some rest => isFloatSuffix rest
          | none => false
    else false
  | _ => false

/-- one escape sequence after the backslash; returns the rest.
`lenient` adds the documented extension: any letter, `. _ ~ ! = & ^ -`, and decimal escapes of any length. -/
def escapeSeq (inString : Bool) : List Char → Option (List Char)
  | 'x' :: r =>
    let (d, rest) := spanP isHex r
    if d.isEmpty then some r        -- lenient: `\x` followed by a non-hex character is a simple escape
    else if inString then some rest else some rest
  | c :: r =>
    if isDigit c then some (spanP isDigit r).2
    else if c.isAlpha || "._~!=&^-\\?'\"".toList.contains c then some r
    else none
  | [] => none

/-- body of a character constant: number of c-chars if well formed up to the closing quote -/
def cchars : Nat → List Char → Option (Nat × List Char)
  | 0, _ => none
  | _, '\'' :: r => some (0, r)
  | _, '\n' :: _ => none
  | fuel+1, '\\' :: r =>
    match escapeSeq false r with
    | some rest => (cchars fuel rest).map fun (n, t) => (n + 1, t)
    | none => none
  | fuel+1, _ :: r => (cchars fuel r).map fun (n, t) => (n + 1, t)
  | _, [] => none

def schars : Nat → List Char → Option (List Char)
  | 0, _ => none
  | _, '"' :: r => some r
  | _, '\n' :: _ => none
  | fuel+1, '\\' :: c :: r =>
    -- in strings every escape *start* of the lenient set is accepted (the rest are ordinary characters)
    if isDigit c || c.isAlpha || "._~!=&^-\\?'\"".toList.contains c then schars fuel r else none
  | fuel+1, _ :: r => schars fuel r
  | _, [] => none

def splitPrefix (s : List Char) : String × List Char :=
  match s with
  | 'u' :: '8' :: r => ("u8", r)
  | 'L' :: r => ("L", r)
  | 'u' :: r => ("u", r)
  | 'U' :: r => ("U", r)
  | r => ("", r)

/-- whole-string classification of a C literal -/
def classify (s : List Char) : Option Kind :=
  match intConst s with
  | some k => some k
  | none =>
  if hexFloat s then some .hexFloat
  else if decFloat s then some .float
  else
    let (pre, r) := splitPrefix s
    match r with
    | '\'' :: body =>
      match cchars (body.length + 1) body with
      | some (n, []) =>
        if n == 1 then some (.char pre)
        else if n ≥ 2 && pre == "" then some .multiChar
        -- C99 6.4.4.4: a prefixed constant may hold several characters too (its value is
        -- implementation-defined); the token class of the prefix is the only one there is for it
        else if n ≥ 2 then some (.char pre)
        else none
      | _ => none
    | '"' :: body =>
      match schars (body.length + 1) body with
      | some [] => some (.string pre)
      | _ => none
    | _ => none

end PycModel.Spec.Lex
