/-! Token vocabulary written from the C standard (C99 6.4.1, 6.4.6; C11 additions that pycparser
documents) — independent of the implementation's tables. -/
namespace PycModel.Spec

/-- C99 6.4.1 keywords (minus `_Imaginary`, which pycparser does not support), the C11 keywords
pycparser documents, and its two extension keywords (`__int128`, `offsetof`). Each is listed with
the token class name the lexer must give it (upper-cased spelling). -/
def keywords : List (String × String) := [
  ("auto","AUTO"), ("break","BREAK"), ("case","CASE"), ("char","CHAR"), ("const","CONST"),
  ("continue","CONTINUE"), ("default","DEFAULT"), ("do","DO"), ("double","DOUBLE"), ("else","ELSE"),
  ("enum","ENUM"), ("extern","EXTERN"), ("float","FLOAT"), ("for","FOR"), ("goto","GOTO"),
  ("if","IF"), ("inline","INLINE"), ("int","INT"), ("long","LONG"), ("register","REGISTER"),
  ("restrict","RESTRICT"), ("return","RETURN"), ("short","SHORT"), ("signed","SIGNED"),
  ("sizeof","SIZEOF"), ("static","STATIC"), ("struct","STRUCT"), ("switch","SWITCH"),
  ("typedef","TYPEDEF"), ("union","UNION"), ("unsigned","UNSIGNED"), ("void","VOID"),
  ("volatile","VOLATILE"), ("while","WHILE"),
  ("_Bool","_BOOL"), ("_Complex","_COMPLEX"),
  ("_Noreturn","_NORETURN"), ("_Thread_local","_THREAD_LOCAL"), ("_Static_assert","_STATIC_ASSERT"),
  ("_Atomic","_ATOMIC"), ("_Alignof","_ALIGNOF"), ("_Alignas","_ALIGNAS"), ("_Pragma","_PRAGMA"),
  ("__int128","__INT128"), ("offsetof","OFFSETOF")]

/-- C99 6.4.6 punctuators, without the digraphs and without `#`/`##` (preprocessor only). -/
def punctuators : List String := [
  "[", "]", "(", ")", "{", "}", ".", "->",
  "++", "--", "&", "*", "+", "-", "~", "!",
  "/", "%", "<<", ">>", "<", ">", "<=", ">=", "==", "!=", "^", "|", "&&", "||",
  "?", ":", ";", "...",
  "=", "*=", "/=", "%=", "+=", "-=", "<<=", ">>=", "&=", "^=", "|=",
  ","]

def subsetOf (a b : List String) : Bool := a.all b.contains
def sameSet (a b : List String) : Bool := subsetOf a b && subsetOf b a

def subsetOf2 (a b : List (String × String)) : Bool := a.all b.contains
def sameSet2 (a b : List (String × String)) : Bool := subsetOf2 a b && subsetOf2 b a

end PycModel.Spec
