import PycModel.Spec.Stmt
/-!
# Specification of typedef-name visibility (C99 6.2.1, 6.2.3), and programs that probe it

A *history* is a sequence of declarations and scope openings/closings; `isType` says, from the
standard's block-scope rules alone, whether a name currently denotes a type.
-/
namespace PycModel.Spec

inductive ScEv where
  | openBlock
  | closeBlock
  | typedefName (n : String)     -- typedef int n;
  | object (n : String)          -- int n;
  | func (n : String)            -- int n(void);
  | tag (n : String)             -- struct n { int z; };       (tag name space: never affects it)
  | member (n : String)          -- struct Sq { int n; };      (member name space)
  | protoParam (n : String)      -- void gq(int n);            (prototype scope ends with the declarator)
  | probe (n : String) (form : Nat)
  /-- `for (int n = 0;;) body` - the loop is a block of its own (6.8.5p5): `n` is gone after it.
  `bodyIf`: the body is an `else`-less `if`, so the parser must look one token past the loop -/
  | forObject (n : String) (bodyIf : Bool)
  /-- an object declared with a struct / union specifier (`struct Sq * n ;` ...): the same scoping as `object` -/
  | objectS (n : String) (form : Nat)
  deriving Repr, Inhabited, DecidableEq

/-- ordinary-identifier scopes, innermost first: name ↦ is it a typedef name -/
abbrev Scopes := List (List (String × Bool))

def lookupS : Scopes → String → Bool
  | [], _ => false
  | sc :: rest, n =>
    match sc.find? (·.1 == n) with
    | some p => p.2
    | none => lookupS rest n

def declare (s : Scopes) (n : String) (b : Bool) : Scopes :=
  match s with
  | [] => [[(n, b)]]
  | sc :: rest => ((n, b) :: sc) :: rest

/-- scopes after a history (starting at file scope) -/
def after : List ScEv → Scopes → Scopes
  | [], s => s
  | .openBlock :: r, s => after r ([] :: s)
  | .closeBlock :: r, s => after r (s.drop 1)
  | .typedefName n :: r, s => after r (declare s n true)
  | .object n :: r, s => after r (declare s n false)
  | .func n :: r, s => after r (declare s n false)
  | .tag _ :: r, s => after r s
  | .member _ :: r, s => after r s
  | .protoParam _ :: r, s => after r s
  | .probe _ _ :: r, s => after r s
  | .forObject _ _ :: r, s => after r s
  | .objectS n _ :: r, s => after r (declare s n false)

/-- is `n` a type name after the history? -/
def isType (h : List ScEv) (n : String) : Bool := lookupS (after h [[]]) n

/-- would this declaration be a constraint violation (same scope, other kind)? such histories are
not valid C and are not generated -/
def redeclConflict (s : Scopes) (n : String) (b : Bool) : Bool :=
  match s with
  | [] => false
  | sc :: _ => match sc.find? (·.1 == n) with
    | some p => p.2 != b
    | none => false

/-! ## rendering a history as a function body with probe statements -/

def evText (k : Nat) : ScEv → List String
  | .openBlock => ["{"]
  | .closeBlock => ["}"]
  | .typedefName n => ["typedef", "int", n, ";"]
  | .object n => ["int", n, ";"]
  | .func n => ["int", n, "(", "void", ")", ";"]
  | .tag n => ["struct", n, "{", "int", "z", ";", "}", ";"]
  | .member n => ["struct", "Sq" ++ toString k, "{", "int", n, ";", "}", ";"]
  | .protoParam n => ["void", "gq" ++ toString k, "(", "int", n, ")", ";"]
  | .probe n 0 => [n, "*", "pq" ++ toString k, ";"]                 -- declaration iff n is a type
  | .probe n 1 => ["(", n, ")", "(", "xq", ")", ";"]                  -- cast iff n is a type
  | .probe n 2 => ["sizeof", "(", n, ")", ";"]                        -- type operand iff n is a type
  | .objectS n 0 => ["struct", "Sq", "*", n, ";"]
  | .objectS n 1 => ["union", "Uq", "*", n, "=", "0", ";"]
  | .objectS n 2 => ["struct", "Sq", "*", n, "[", "2", "]", ";"]
  | .objectS n _ => ["const", "struct", "Sq", "*", "const", n, "=", "0", ";"]
  | .forObject n false => ["for", "(", "int", n, "=", "0", ";", ";", ")", ";"]
  | .forObject n true => ["for", "(", "int", n, "=", "0", ";", ";", ")", "if", "(", "cq", ")", "cq", ";"]
  | .probe n _ => [n, "(", "yq" ++ toString k, ")", ";"]              -- declaration iff n is a type

/-- the class of AST node the probe statement must come back as -/
def probeClass (isT : Bool) (form : Nat) : String :=
  match form, isT with
  | 0, true => "Decl" | 0, false => "BinaryOp"
  | 1, true => "Cast" | 1, false => "FuncCall"
  | 2, true => "UnaryOp:Typename" | 2, false => "UnaryOp:ID"
  | _, true => "Decl" | _, false => "FuncCall"

def renderHist : List ScEv → Nat → List String
  | [], _ => []
  | e :: r, k => evText k e ++ renderHist r (k + 1)

/-- expected classes of the probe statements, in order -/
def expectedProbes : List ScEv → List ScEv → List String
  | _, [] => []
  | pre, .probe n f :: r => probeClass (isType pre n) f :: expectedProbes (pre ++ [.probe n f]) r
  | pre, e :: r => expectedProbes (pre ++ [e]) r

/-- a history is well formed when blocks nest (never closing the function body itself) and no
declaration conflicts with one of the other kind in the same scope -/
def wellFormed : List ScEv → Scopes → Nat → Bool
  | [], _, depth => depth == 0
  | .openBlock :: r, s, d => wellFormed r ([] :: s) (d + 1)
  | .closeBlock :: r, s, d => d > 0 && wellFormed r (s.drop 1) (d - 1)
  | .typedefName n :: r, s, d => !redeclConflict s n true && wellFormed r (declare s n true) d
  | .object n :: r, s, d => !redeclConflict s n false && wellFormed r (declare s n false) d
  | .func n :: r, s, d => !redeclConflict s n false && wellFormed r (declare s n false) d
  | .objectS n _ :: r, s, d => !redeclConflict s n false && wellFormed r (declare s n false) d
  | _ :: r, s, d => wellFormed r s d

/-- program: file-scope prefix, then `void f ( void ) { body }` ; the function body is a scope of its own -/
def histCase (fileEvs body : List ScEv) : String × String :=
  let pre := renderHist fileEvs 0
  let all := fileEvs ++ [.openBlock] ++ body
  (" ".intercalate (pre ++ ["void", "f", "(", "void", ")", "{"] ++ renderHist body 100 ++ ["}"]),
   " ".intercalate (expectedProbes [] all))

/-- the same with parameters of the function definition: named ones are objects of the body's
outermost scope (6.2.1p4), unnamed ones (accepted as an extension) declare nothing -/
def histCaseP (fileEvs : List ScEv) (params : List (Option String)) (body : List ScEv)
    (head : List String := ["void", "f"]) : String × String :=
  let pre := renderHist fileEvs 0
  let pobjs : List ScEv := params.filterMap fun p => p.map ScEv.object
  let all := fileEvs ++ [.openBlock] ++ pobjs ++ body
  let ptoks : List String :=
    if params.isEmpty then ["void"]
    else ((params.map fun p => match p with | some n => ["int", n] | none => ["int"]).intersperse [","]).flatten
  (" ".intercalate (pre ++ head ++ ["("] ++ ptoks ++ [")", "{"] ++ renderHist body 100 ++ ["}"]),
   " ".intercalate (expectedProbes [] all))

/-- how the function definition that holds the history begins: with declaration specifiers, or in
the old style without any (implicit `int`) - the parameters are objects of the body either way -/
def funcHeads : List (List String) := [["void", "f"], ["f"], ["static", "int", "f"], ["void", "f"], ["long", "*", "f"]]

/-! ## the open finding F-c04-forinit-leak, as a semantics of its own

pycparser registers a for-init declaration in the *enclosing* block.  `leakyExpected` predicts what
the parser then answers on a history (`none` = it rejects the program with a redeclaration error),
so that a check can tell this known deviation from any other. -/

def afterLeaky : List ScEv → Scopes → Option Scopes
  | [], s => some s
  | .openBlock :: r, s => afterLeaky r ([] :: s)
  | .closeBlock :: r, s => afterLeaky r (s.drop 1)
  | .typedefName n :: r, s => if redeclConflict s n true then none else afterLeaky r (declare s n true)
  | .object n :: r, s => if redeclConflict s n false then none else afterLeaky r (declare s n false)
  | .func n :: r, s => if redeclConflict s n false then none else afterLeaky r (declare s n false)
  | .forObject n _ :: r, s => if redeclConflict s n false then none else afterLeaky r (declare s n false)
  | .objectS n _ :: r, s => if redeclConflict s n false then none else afterLeaky r (declare s n false)
  | _ :: r, s => afterLeaky r s

def leakyProbes : List ScEv → List ScEv → Option (List String)
  | _, [] => some []
  | pre, .probe n f :: r =>
    match afterLeaky pre [[]], leakyProbes (pre ++ [.probe n f]) r with
    | some sc, some rest => some (probeClass (lookupS sc n) f :: rest)
    | _, _ => none
  | pre, e :: r =>
    match afterLeaky (pre ++ [e]) [[]] with
    | none => none
    | some _ => leakyProbes (pre ++ [e]) r

/-- `correct ||| leaky` expectations for a history with for-init declarations -/
def histCaseLeaky (fileEvs : List ScEv) (body : List ScEv) : String × String :=
  let pre := renderHist fileEvs 0
  let all := fileEvs ++ [.openBlock] ++ body
  (" ".intercalate (pre ++ ["void", "f", "(", "void", ")", "{"] ++ renderHist body 100 ++ ["}"]),
   " ".intercalate (expectedProbes [] all) ++ "|||" ++
     (match leakyProbes [] all with | some l => " ".intercalate l | none => "REJECTED"))

end PycModel.Spec
