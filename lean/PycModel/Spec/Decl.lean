import PycModel.Spec.Expr
/-!
# Specification of C declarators (C99 6.7.5) and of the declaration AST

`Declarator` is the concrete syntax of the standard; `denote` is the standard's inside-out reading
("the type specified for ident in `T D`"), giving the list of derivations from the declared
entity outwards to the base type; `chainVal` is the AST pycparser documents for such a list.
-/
namespace PycModel.Spec
open PycModel

/-- array declarator contents -/
inductive ArrDim where
  | empty                                 -- []
  | expr (e : Expr)                       -- [e]
  | static (quals : List String) (e : Expr)      -- [static q e]
  | qualStatic (quals : List String) (e : Expr)  -- [q static e]
  | quals (quals : List String) (e : Option Expr) -- [q e?]
  | star (quals : List String)            -- [q *]
  deriving Repr, Inhabited

/-- parameter part of a function declarator (a fixed menu; parameters are declarations themselves) -/
inductive Params where
  | none                 -- ()
  | void                 -- (void)
  | proto2               -- (int a, char *b)
  | protoVar             -- (int, ...)
  | knr                  -- (a, b)
  | fptr                 -- (int (*cb)(int))
  deriving Repr, Inhabited, DecidableEq

inductive Deriv where
  | ptr (quals : List String)
  | arr (dim : ArrDim)
  | fn (p : Params)
  deriving Repr, Inhabited

inductive Declarator where
  | name (n : Option String)
  | ptr (quals : List String) (d : Declarator)
  | arr (d : Declarator) (dim : ArrDim)
  | fn (d : Declarator) (p : Params)
  | paren (d : Declarator)
  deriving Repr, Inhabited

/-- C99 6.7.5.1–6.7.5.3: derivations from the identifier outwards -/
def denote : Declarator → List Deriv
  | .name _ => []
  | .ptr q d => denote d ++ [.ptr q]
  | .arr d a => denote d ++ [.arr a]
  | .fn d p => denote d ++ [.fn p]
  | .paren d => denote d

def Declarator.ident : Declarator → Option String
  | .name n => n
  | .ptr _ d => d.ident
  | .arr d _ => d.ident
  | .fn d _ => d.ident
  | .paren d => d.ident

/-- build the (minimally parenthesised) declarator that has a given derivation list -/
def ofDerivs (n : Option String) : List Deriv → Declarator
  | [] => .name n
  | ds => go (.name n) ds
where
  go (acc : Declarator) : List Deriv → Declarator
    | [] => acc
    | .ptr q :: r => go (.ptr q acc) r
    | .arr a :: r => go (.arr acc a) r
    | .fn p :: r => go (.fn acc p) r

def renderDim : ArrDim → List String
  | .empty => []
  | .expr e => (render lvAssign e []).1
  | .static q e => "static" :: q ++ (render lvAssign e []).1
  | .qualStatic q e => q ++ "static" :: (render lvAssign e []).1
  | .quals q e => q ++ (match e with | some x => (render lvAssign x []).1 | none => [])
  | .star q => q ++ ["*"]

def renderParams : Params → List String
  | .none => []
  | .void => ["void"]
  | .proto2 => ["int", "a", ",", "char", "*", "b"]
  | .protoVar => ["int", ",", "..."]
  | .knr => ["a", ",", "b"]
  | .fptr => ["int", "(", "*", "cb", ")", "(", "int", ")"]

/-- is the declarator a `pointer direct-declarator` form (needs parentheses to take a suffix)? -/
def Declarator.isPtr : Declarator → Bool
  | .ptr .. => true
  | _ => false

/-- concrete tokens of a declarator (6.7.5 grammar: suffixes bind tighter than `*`) -/
def renderDeclarator : Declarator → List String
  | .name (some n) => [n]
  | .name none => []
  | .ptr q d => "*" :: q ++ renderDeclarator d
  | .arr d a =>
    (if d.isPtr then ["("] ++ renderDeclarator d ++ [")"] else renderDeclarator d) ++
      ["["] ++ renderDim a ++ ["]"]
  | .fn d p =>
    (if d.isPtr then ["("] ++ renderDeclarator d ++ [")"] else renderDeclarator d) ++
      ["("] ++ renderParams p ++ [")"]
  | .paren d => ["("] ++ renderDeclarator d ++ [")"]

/-! ## documented AST -/

def nd (c : Cls) (fs : List Val) : Val := .node c none fs
def strsV (l : List String) : Val := .list (l.map .str)
def identType (names : List String) : Val := nd .IdentifierType [strsV names]

/-- innermost node: `TypeDecl(declname, quals, align=None, type=base)` -/
def typeDecl (n : Option String) (quals : List String) (base : Val) : Val :=
  nd .TypeDecl [match n with | some s => .str s | none => .none, strsV quals, .none, base]

def plainDecl (n : String) (ty : Val) : Val :=
  nd .Decl [.str n, strsV [], strsV [], strsV [], strsV [], ty, .none, .none]

def typename (quals : List String) (ty : Val) : Val :=
  nd .Typename [.none, strsV quals, .none, ty]

def paramsVal : Params → Val
  | .none => .none
  | .void => nd .ParamList [.list [typename [] (typeDecl none [] (identType ["void"]))]]
  | .proto2 => nd .ParamList [.list [
      plainDecl "a" (typeDecl (some "a") [] (identType ["int"])),
      plainDecl "b" (nd .PtrDecl [strsV [], typeDecl (some "b") [] (identType ["char"])])]]
  | .protoVar => nd .ParamList [.list [typename [] (typeDecl none [] (identType ["int"])), nd .EllipsisParam []]]
  | .knr => nd .ParamList [.list [nd .ID [.str "a"], nd .ID [.str "b"]]]
  | .fptr => nd .ParamList [.list [
      plainDecl "cb" (nd .PtrDecl [strsV [],
        nd .FuncDecl [nd .ParamList [.list [typename [] (typeDecl none [] (identType ["int"]))]],
          typeDecl (some "cb") [] (identType ["int"])]])]]

def dimVal : ArrDim → Val × List String
  | .empty => (.none, [])
  | .expr e => (e.toVal, [])
  | .static q e => (e.toVal, "static" :: q)
  | .qualStatic q e => (e.toVal, q ++ ["static"])
  | .quals q e => (match e with | some x => x.toVal | none => .none, q)
  | .star q => (nd .ID [.str "*"], q)

/-- the modifier chain for a derivation list, ending in `inner` -/
def chainVal (inner : Val) : List Deriv → Val
  | [] => inner
  | .ptr q :: r => nd .PtrDecl [strsV q, chainVal inner r]
  | .arr a :: r => let (d, dq) := dimVal a; nd .ArrayDecl [chainVal inner r, d, strsV dq]
  | .fn p :: r => nd .FuncDecl [paramsVal p, chainVal inner r]

/-- base specifiers: (tokens, qualifiers, the node that ends the chain, text that must precede) -/
structure Base where
  toks : List String
  quals : List String
  node : Val
  prelude : String := ""
  /-- derivations contributed by the specifier itself: `_Atomic(int *) D` means `int * _Atomic D` -/
  innerDerivs : List Deriv := []
  /-- may the specifier be used in a type name (cast, sizeof, ...)?  `_Atomic(T)` is only
  normalised in declarations (type names keep the wrapper: recorded finding) -/
  abstractOK : Bool := true
  deriving Inhabited

def bases : List Base := [
  { toks := ["int"], quals := [], node := identType ["int"] },
  { toks := ["unsigned", "long"], quals := [], node := identType ["unsigned", "long"] },
  { toks := ["const", "char"], quals := ["const"], node := identType ["char"] },
  { toks := ["volatile", "int", "const"], quals := ["volatile", "const"], node := identType ["int"] },
  { toks := ["struct", "S"], quals := [], node := nd .Struct [.str "S", .none] },
  { toks := ["TT"], quals := [], node := identType ["TT"], prelude := "typedef int TT ; " },
  { toks := ["enum", "E"], quals := [], node := nd .Enum [.str "E", .none] },
  -- C11 6.7.2.4: `_Atomic(T)` means the `_Atomic`-qualified `T`
  { toks := ["_Atomic", "(", "int", ")"], quals := ["_Atomic"], node := identType ["int"], abstractOK := false },
  { toks := ["_Atomic", "(", "int", "*", ")"], quals := [], node := identType ["int"],
    innerDerivs := [.ptr ["_Atomic"]], abstractOK := false },
  { toks := ["_Atomic", "(", "char", "*", "const", "*", ")"], quals := [], node := identType ["char"],
    innerDerivs := [.ptr ["_Atomic"], .ptr ["const"]], abstractOK := false }]

/-- declared-entity node for `base D` -/
def declVal (b : Base) (d : Declarator) : Val :=
  let chain := chainVal (typeDecl d.ident b.quals b.node) (denote d ++ b.innerDerivs)
  nd .Decl [match d.ident with | some s => .str s | none => .none, strsV b.quals, strsV [], strsV [], strsV [], chain, .none, .none]

def typedefVal (b : Base) (d : Declarator) : Val :=
  let chain := chainVal (typeDecl d.ident b.quals b.node) (denote d ++ b.innerDerivs)
  nd .Typedef [match d.ident with | some s => .str s | none => .none, strsV b.quals, strsV ["typedef"], chain]

def typenameVal (b : Base) (d : Declarator) : Val :=
  typename b.quals (chainVal (typeDecl none b.quals b.node) (denote d))

/-! ## contexts -/

inductive DCtx | file | typedef | block | param | member | forInit | cast | sizeofT | alignofT | compoundLit | multi | knr
  deriving Repr, Inhabited, DecidableEq

def DCtx.all : List DCtx := [.file, .typedef, .block, .param, .member, .forInit, .cast, .sizeofT, .alignofT, .compoundLit, .multi, .knr]

def DCtx.abstract : DCtx → Bool
  | .cast | .sizeofT | .alignofT | .compoundLit => true
  | _ => false

def fdef (name : String) (retBase : Val) (args : Val) (body : List Val) : Val :=
  nd .FuncDef [nd .Decl [.str name, strsV [], strsV [], strsV [], strsV [],
      nd .FuncDecl [args, typeDecl (some name) [] retBase], .none, .none],
    .none, nd .Compound [.list body]]

/-- program text and expected AST for declaring `base D` in a context -/
def declCase (b : Base) (d : Declarator) (ctx : DCtx) : String × String :=
  let dt := " ".intercalate (b.toks ++ renderDeclarator d)
  let pre : List Val := if b.prelude.isEmpty then [] else
    [nd .Typedef [.str "TT", strsV [], strsV ["typedef"], typeDecl (some "TT") [] (identType ["int"])]]
  let file (vs : List Val) : String := (nd .FileAST [.list (pre ++ vs)]).dump false
  let voidf (body : List Val) : Val := fdef "f" (identType ["void"]) .none body
  match ctx with
  | .file => (b.prelude ++ dt ++ " ;", file [declVal b d])
  | .typedef => (b.prelude ++ "typedef " ++ dt ++ " ;", file [typedefVal b d])
  | .block => (b.prelude ++ "void f ( ) { " ++ dt ++ " ; }", file [voidf [declVal b d]])
  | .param =>
    (b.prelude ++ "void g ( " ++ dt ++ " ) ;",
     file [plainDecl "g" (nd .FuncDecl [nd .ParamList [.list [declVal b d]], typeDecl (some "g") [] (identType ["void"])])])
  | .member =>
    (b.prelude ++ "struct W { " ++ dt ++ " ; } ;",
     file [nd .Decl [.none, strsV [], strsV [], strsV [], strsV [], nd .Struct [.str "W", .list [declVal b d]], .none, .none]])
  | .forInit =>
    (b.prelude ++ "void f ( ) { for ( " ++ dt ++ " ; ; ) ; }",
     file [voidf [nd .For [nd .DeclList [.list [declVal b d]], .none, .none, nd .EmptyStatement []]]])
  | .cast =>
    (b.prelude ++ "int v = ( " ++ dt ++ " ) x ;",
     file [nd .Decl [.str "v", strsV [], strsV [], strsV [], strsV [], typeDecl (some "v") [] (identType ["int"]),
       nd .Cast [typenameVal b d, nd .ID [.str "x"]], .none]])
  | .sizeofT =>
    (b.prelude ++ "int v = sizeof ( " ++ dt ++ " ) ;",
     file [nd .Decl [.str "v", strsV [], strsV [], strsV [], strsV [], typeDecl (some "v") [] (identType ["int"]),
       nd .UnaryOp [.str "sizeof", typenameVal b d], .none]])
  | .alignofT =>
    (b.prelude ++ "int v = _Alignof ( " ++ dt ++ " ) ;",
     file [nd .Decl [.str "v", strsV [], strsV [], strsV [], strsV [], typeDecl (some "v") [] (identType ["int"]),
       nd .UnaryOp [.str "_Alignof", typenameVal b d], .none]])
  | .compoundLit =>
    (b.prelude ++ "int v = ( " ++ dt ++ " ) { 0 } ;",
     file [nd .Decl [.str "v", strsV [], strsV [], strsV [], strsV [], typeDecl (some "v") [] (identType ["int"]),
       nd .CompoundLiteral [typenameVal b d, nd .InitList [.list [nd .Constant [.str "int", .str "0"]]]], .none]])
  | .knr =>
    -- an old-style definition whose declaration list has three declarations, `base D` in the middle:
    -- `FuncDef.param_decls` lists every declared parameter, in source order
    let nm := match d.ident with | some x => x | none => "anon"
    let longB : Base := { toks := ["long"], quals := [], node := identType ["long"] }
    let charB : Base := { toks := ["char"], quals := [], node := identType ["char"] }
    let d3 : Declarator := .ptr [] (.name (some "p3"))
    let d4 : Declarator := .ptr [] (.ptr [] (.name (some "p4")))
    (b.prelude ++ "int h ( p1 , " ++ nm ++ " , p3 , p4 ) long p1 ; " ++ dt ++ " ; char " ++
       " ".intercalate (renderDeclarator d3) ++ " , " ++ " ".intercalate (renderDeclarator d4) ++ " ; { }",
     file [nd .FuncDef [nd .Decl [.str "h", strsV [], strsV [], strsV [], strsV [],
         nd .FuncDecl [nd .ParamList [.list [nd .ID [.str "p1"], nd .ID [.str nm], nd .ID [.str "p3"], nd .ID [.str "p4"]]],
           typeDecl (some "h") [] (identType ["int"])], .none, .none],
       .list [declVal longB (.name (some "p1")), declVal b d, declVal charB d3, declVal charB d4],
       nd .Compound [.none]]])
  | .multi =>
    -- shared specifiers: `base D , *second , third [ 2 ] ;`
    let d2 : Declarator := .ptr [] (.name (some "second"))
    let d3 : Declarator := .arr (.name (some "third")) (.expr (.const "int" "2"))
    (b.prelude ++ dt ++ " , " ++ " ".intercalate (renderDeclarator d2) ++ " , " ++
       " ".intercalate (renderDeclarator d3) ++ " ;",
     file [declVal b d, declVal b d2, declVal b d3])

/-! ## enumeration of derivation sequences -/

def ptrQuals : List (List String) := [[], ["const"], ["const", "volatile"]]
def dims : List ArrDim :=
  [.empty, .expr (.const "int" "3"), .expr (.bin "+" (.id "n") (.const "int" "1")),
   .static [] (.const "int" "4"), .quals ["const"] none, .star [], .qualStatic ["restrict"] (.id "n"),
   .quals ["volatile"] (some (.id "n")), .star ["const"]]
def paramMenus : List Params := [.none, .void, .proto2, .protoVar, .knr, .fptr]

def derivAlphabet : List Deriv :=
  ptrQuals.map .ptr ++ dims.map .arr ++ paramMenus.map .fn

/-- the reduced alphabet used for exhaustive enumeration up to length 4 -/
def derivAlphabetSmall : List Deriv :=
  [.ptr [], .ptr ["const"], .arr .empty, .arr (.expr (.const "int" "3")), .arr (.star []),
   .fn .none, .fn .proto2, .fn .knr]

def seqs (alpha : List Deriv) : Nat → List (List Deriv)
  | 0 => [[]]
  | n+1 => (seqs alpha n).flatMap fun s => alpha.map fun d => d :: s

/-- K&R identifier lists and `[*]`-style bounds are restricted by the grammar / by pycparser's
documented behaviour to certain positions; a sequence is *plain* when it uses none of them and
can therefore appear in every context -/
def Deriv.plain : Deriv → Bool
  | .fn .knr => false
  | _ => true

end PycModel.Spec

namespace PycModel.Spec
open PycModel

/-! ## declaration specifiers in any order (C99 6.7: "the specifiers may appear in any order") -/

inductive Spc where
  | storage (s : String)
  | func (s : String)
  | qual (s : String)
  | ty (s : String)
  deriving Repr, Inhabited, DecidableEq

def Spc.tok : Spc → String
  | .storage s => s | .func s => s | .qual s => s | .ty s => s

def typeSets : List (List String) :=
  [["int"], ["unsigned", "int"], ["long", "unsigned"], ["long", "long", "int"], ["short"],
   ["unsigned", "char"], ["double"], ["long", "double"], ["_Bool"], ["signed"], ["float", "_Complex"]]

/-- storage-class specifiers: none, one, or `_Thread_local` together with `static` / `extern` (6.7.1p2) -/
def storages : List (List String) :=
  [[], ["static"], ["extern"], ["typedef"], ["register"], ["auto"], ["_Thread_local"], ["static", "_Thread_local"],
   ["_Thread_local", "extern"], ["_Thread_local", "static"]]

/-- all permutations of a list -/
def perms {α} : List α → List (List α)
  | [] => [[]]
  | x :: xs => (perms xs).flatMap fun p => (List.range (p.length + 1)).map fun i => p.take i ++ x :: p.drop i

/-- `specs x ;` (or `specs x ( void ) ;` when a function specifier is present; `register`/`auto`
only make sense in a block) and the documented AST: qualifiers, storage classes, function specifiers
and type specifier keywords each collected in order of appearance -/
def specCase (specs : List Spc) : String × String :=
  let quals := specs.filterMap fun s => match s with | .qual q => some q | _ => none
  let stor := specs.filterMap fun s => match s with | .storage q => some q | _ => none
  let fspec := specs.filterMap fun s => match s with | .func q => some q | _ => none
  let tys := specs.filterMap fun s => match s with | .ty q => some q | _ => none
  let isFn := !fspec.isEmpty
  let inBlock := stor.contains "register" || stor.contains "auto"
  let dtoks := if isFn then ["x", "(", "void", ")"] else ["x"]
  let inner := typeDecl (some "x") quals (identType tys)
  let ty := if isFn then nd .FuncDecl [paramsVal .void, inner] else inner
  let node := if stor.contains "typedef" then
      nd .Typedef [.str "x", strsV quals, strsV stor, ty]
    else nd .Decl [.str "x", strsV quals, strsV [], strsV stor, strsV fspec, ty, .none, .none]
  let text := " ".intercalate (specs.map Spc.tok ++ dtoks ++ [";"])
  if inBlock then
    ("void f ( ) { " ++ text ++ " }", (nd .FileAST [.list [fdef "f" (identType ["void"]) .none [node]]]).dump false)
  else (text, (nd .FileAST [.list [node]]).dump false)

/-- a function specifier on a declarator that is not syntactically a function: the function type
comes from a typedef (`typedef int FT ( void ) ; static inline FT x ;` - valid C).  The `Decl` keeps
the function specifiers although its type is a plain `TypeDecl` -/
def specCaseTypedefFn (specs : List Spc) : String × String :=
  let quals := specs.filterMap fun s => match s with | .qual q => some q | _ => none
  let stor := specs.filterMap fun s => match s with | .storage q => some q | _ => none
  let fspec := specs.filterMap fun s => match s with | .func q => some q | _ => none
  -- the type keywords are replaced by the one typedef name, at the place of the first of them
  let rec repl : List Spc → Bool → List Spc
    | [], _ => []
    | .ty _ :: r, false => .ty "FT" :: repl r true
    | .ty _ :: r, true => repl r true
    | x :: r, seen => x :: repl r seen
  let specs' := repl specs false
  let td := nd .Typedef [.str "FT", strsV [], strsV ["typedef"],
    nd .FuncDecl [paramsVal .void, typeDecl (some "FT") [] (identType ["int"])]]
  let node := nd .Decl [.str "x", strsV quals, strsV [], strsV stor, strsV fspec,
    typeDecl (some "x") quals (identType ["FT"]), .none, .none]
  ("typedef int FT ( void ) ; " ++ " ".intercalate (specs'.map Spc.tok ++ ["x", ";"]),
   (nd .FileAST [.list [td, node]]).dump false)

def randSpecs (s : Nat) : List Spc × Nat :=
  let tys := pick typeSets s
  let s1 := lcg s
  let st := pick storages s1
  let s2 := lcg s1
  let qs : List String := pick [[], [], ["const"], ["volatile"], ["const", "volatile"], ["_Atomic"]] s2
  let s3 := lcg s2
  let fs : List String := if st.contains "typedef" || st.contains "register" || st.contains "auto" || st.contains "_Thread_local" then []
    else pick [[], [], ["inline"], ["_Noreturn"], ["inline", "_Noreturn"], ["_Noreturn", "inline"]] s3
  let s4 := lcg s3
  let all : List Spc := tys.map .ty ++ st.map .storage ++ qs.map .qual ++ fs.map .func
  let ps := perms all
  (pick ps s4, lcg s4)

end PycModel.Spec
