import PycModel.Proofs.PresDecl
/-! `Pres` for declarator / statement / top-level productions, and the lifting to `run fuel`. -/
namespace PycModel

variable {R : PState → PState → Prop}

section Productions
variable (h : PrimOK R) (self : Self) (hs : SelfOK R self)
include h hs

theorem Pres.buildParameterDeclaration (spec : DeclSpec) (d : Val) (c : Option Coord) :
    Pres R (buildParameterDeclaration spec d c) := by
  unfold PycModel.buildParameterDeclaration; pres
theorem Pres.pAnyDeclarator (a b : Bool) : Pres R (pAnyDeclarator self a b) := by
  unfold PycModel.pAnyDeclarator; pres
theorem Pres.pScanStars : Pres R (pScanStars self) := by
  unfold PycModel.pScanStars; pres
theorem Pres.pScanQuals : Pres R (pScanQuals self) := by
  unfold PycModel.pScanQuals; pres
theorem Pres.pScanParenSkip (d : Nat) : Pres R (pScanParenSkip self d) := by
  unfold PycModel.pScanParenSkip; pres
theorem Pres.pScanDeclaratorNameInfo : Pres R (pScanDeclaratorNameInfo self) := by
  unfold PycModel.pScanDeclaratorNameInfo; pres
theorem Pres.pDeclaratorKind (k : DKind) (a : Bool) : Pres R (pDeclaratorKind self k a) := by
  unfold PycModel.pDeclaratorKind; pres
theorem Pres.pDirectDeclarator (k : DKind) (a : Bool) : Pres R (pDirectDeclarator self k a) := by
  unfold PycModel.pDirectDeclarator; pres
theorem Pres.pDeclSuffixesLoop (d : Val) : Pres R (pDeclSuffixesLoop self d) := by
  unfold PycModel.pDeclSuffixesLoop; pres
set_option maxHeartbeats 2000000 in
theorem Pres.pArrayDeclCommon (b : Val) (c : Option Coord) : Pres R (pArrayDeclCommon self b c) := by
  unfold PycModel.pArrayDeclCommon; pres
theorem Pres.pFunctionDecl (b : Val) : Pres R (pFunctionDecl self b) := by
  unfold PycModel.pFunctionDecl; pres
theorem Pres.pIdentifierListLoop (acc : List Val) : Pres R (pIdentifierListLoop self acc) := by
  unfold PycModel.pIdentifierListLoop; pres
theorem Pres.pPointerLoop (st : List (List Val × Coord)) : Pres R (pPointerLoop self st) := by
  unfold PycModel.pPointerLoop; pres
theorem Pres.pPointer : Pres R (pPointer self) := by
  unfold PycModel.pPointer; pres
theorem Pres.pParameterTypeList : Pres R (pParameterTypeList self) := by
  unfold PycModel.pParameterTypeList; pres
theorem Pres.pParameterListLoop (acc : List Val) : Pres R (pParameterListLoop self acc) := by
  unfold PycModel.pParameterListLoop; pres
end Productions
register_prod Pres.buildParameterDeclaration
section Productions
variable (h : PrimOK R) (self : Self) (hs : SelfOK R self)
include h hs
theorem Pres.pParameterDeclaration : Pres R (pParameterDeclaration self) := by
  unfold PycModel.pParameterDeclaration; pres
theorem Pres.pTypeName : Pres R (pTypeName self) := by
  unfold PycModel.pTypeName; pres
theorem Pres.pAbstractDeclaratorOpt : Pres R (pAbstractDeclaratorOpt self) := by
  unfold PycModel.pAbstractDeclaratorOpt; pres
theorem Pres.pDirectAbstractDeclarator : Pres R (pDirectAbstractDeclarator self) := by
  unfold PycModel.pDirectAbstractDeclarator; pres

/-! statements -/
set_option maxHeartbeats 2000000 in
theorem Pres.pStatement : Pres R (pStatement self) := by
  unfold PycModel.pStatement; pres
theorem Pres.pPragmacompOrStatement : Pres R (pPragmacompOrStatement self) := by
  unfold PycModel.pPragmacompOrStatement; pres
theorem Pres.pBlockItemListLoop (acc : List Val) : Pres R (pBlockItemListLoop self acc) := by
  unfold PycModel.pBlockItemListLoop; pres
theorem Pres.pCompoundStatement : Pres R (pCompoundStatement self) := by
  unfold PycModel.pCompoundStatement; pres
theorem Pres.labelBody (t : PTok) : Pres R (labelBody self t) := by
  unfold PycModel.labelBody; pres
theorem Pres.exprOpt : Pres R (exprOpt self) := by
  unfold PycModel.exprOpt; pres
end Productions
register_prod Pres.labelBody
register_prod Pres.exprOpt
section Productions
variable (h : PrimOK R) (self : Self) (hs : SelfOK R self)
include h hs
theorem Pres.pLabeledStatement : Pres R (pLabeledStatement self) := by
  unfold PycModel.pLabeledStatement; pres
theorem Pres.pSelectionStatement : Pres R (pSelectionStatement self) := by
  unfold PycModel.pSelectionStatement; pres
set_option maxHeartbeats 2000000 in
theorem Pres.pIterationStatement : Pres R (pIterationStatement self) := by
  unfold PycModel.pIterationStatement; pres
theorem Pres.pJumpStatement : Pres R (pJumpStatement self) := by
  unfold PycModel.pJumpStatement; pres
theorem Pres.pPragmaDirective : Pres R (pPragmaDirective self) := by
  unfold PycModel.pPragmaDirective; pres
theorem Pres.pPragmaListLoop (acc : List Val) : Pres R (pPragmaListLoop self acc) := by
  unfold PycModel.pPragmaListLoop; pres
theorem Pres.pStaticAssert : Pres R (pStaticAssert self) := by
  unfold PycModel.pStaticAssert; pres
theorem Pres.pTranslationUnitLoop (acc : List Val) : Pres R (pTranslationUnitLoop self acc) := by
  unfold PycModel.pTranslationUnitLoop; pres
set_option maxHeartbeats 2000000 in
theorem Pres.pExternalDeclaration : Pres R (pExternalDeclaration self) := by
  unfold PycModel.pExternalDeclaration; pres

/-- one unfolding of every production respects `R` if every recursive call does -/
theorem Pres.prod : ∀ nt : NT, Pres R (prod self nt) := by
  intro nt
  cases nt <;> simp only [PycModel.prod]
  all_goals first
    | exact Pres.pTranslationUnitLoop h self hs _
    | exact Pres.pExternalDeclaration h self hs
    | exact Pres.pDeclaration h self hs
    | exact Pres.pDeclBody h self hs
    | exact Pres.pDeclarationListLoop h self hs _
    | exact Pres.pDeclSpecsLoop h self hs _ _ _
    | exact Pres.pSqlLoop h self hs _ _ _ _
    | exact Pres.pAlignmentSpecifier h self hs
    | exact Pres.pAtomicSpecifier h self hs
    | exact Pres.pInitDeclaratorListLoop h self hs _ _
    | exact Pres.pInitDeclarator h self hs _
    | exact Pres.pStructOrUnionSpecifier h self hs
    | exact Pres.pStructDeclListLoop h self hs _
    | exact Pres.pStructDeclaration h self hs
    | exact Pres.pStructDeclaratorListLoop h self hs _
    | exact Pres.pStructDeclarator h self hs
    | exact Pres.pEnumSpecifier h self hs
    | exact Pres.pEnumeratorListLoop h self hs _
    | exact Pres.pEnumerator h self hs
    | exact Pres.pAnyDeclarator h self hs _ _
    | exact Pres.pScanDeclaratorNameInfo h self hs
    | exact Pres.pScanStars h self hs
    | exact Pres.pScanQuals h self hs
    | exact Pres.pScanParenSkip h self hs _
    | exact Pres.pDeclaratorKind h self hs _ _
    | exact Pres.pDirectDeclarator h self hs _ _
    | exact Pres.pDeclSuffixesLoop h self hs _
    | exact Pres.pArrayDeclCommon h self hs _ _
    | exact Pres.pFunctionDecl h self hs _
    | exact Pres.pPointer h self hs
    | exact Pres.pPointerLoop h self hs _
    | exact Pres.pTypeQualifierListLoop h self hs _
    | exact Pres.pParameterTypeList h self hs
    | exact Pres.pParameterListLoop h self hs _
    | exact Pres.pParameterDeclaration h self hs
    | exact Pres.pIdentifierListLoop h self hs _
    | exact Pres.pTypeName h self hs
    | exact Pres.pAbstractDeclaratorOpt h self hs
    | exact Pres.pDirectAbstractDeclarator h self hs
    | exact Pres.pTryParenTypeName h self hs
    | exact Pres.pStatement h self hs
    | exact Pres.pPragmacompOrStatement h self hs
    | exact Pres.pBlockItemListLoop h self hs _
    | exact Pres.pCompoundStatement h self hs
    | exact Pres.pLabeledStatement h self hs
    | exact Pres.pSelectionStatement h self hs
    | exact Pres.pIterationStatement h self hs
    | exact Pres.pJumpStatement h self hs
    | exact Pres.pExpression h self hs
    | exact Pres.pExprListLoop h self hs _
    | exact Pres.pAssignmentExpression h self hs
    | exact Pres.pConditionalExpression h self hs
    | exact Pres.pBinaryExpression h self hs _ _
    | exact Pres.pBinaryInner h self hs _ _
    | exact Pres.pCastExpression h self hs
    | exact Pres.pUnaryExpression h self hs
    | exact Pres.pPostfixExpression h self hs _
    | exact Pres.pPostfixLoop h self hs _
    | exact Pres.pPrimaryExpression h self hs
    | exact Pres.pOffsetofLoop h self hs _
    | exact Pres.pArgListLoop h self hs _
    | exact Pres.pInitializer h self hs
    | exact Pres.pInitializerList h self hs
    | exact Pres.pInitListLoop h self hs _
    | exact Pres.pInitializerItem h self hs
    | exact Pres.pDesignatorListLoop h self hs _
    | exact Pres.pPragmaDirective h self hs
    | exact Pres.pPragmaListLoop h self hs _
    | exact Pres.pStaticAssert h self hs
    | exact Pres.pUnifiedString h

end Productions

/-- **every run of every nonterminal, at every fuel, respects every `PrimOK` relation** -/
theorem run_pres (h : PrimOK R) : ∀ (fuel : Nat) (nt : NT), Pres R (run fuel nt) := by
  intro fuel
  induction fuel with
  | zero => intro nt; unfold run; exact Pres.fail _
  | succ f ih =>
    intro nt
    unfold run
    exact Pres.prod h (run f) ⟨ih⟩ nt

end PycModel
