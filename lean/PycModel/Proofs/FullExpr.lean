import PycModel.Proofs.ParenExpr
import PycModel.Proofs.TypeName
/-!
# The whole expression grammar above type names: comma, assignment, `?:`, the ten binary levels,
prefix operators, `sizeof`, postfix operators (`++ -- [] . -> ()`), constants, identifiers, parentheses

`X` is the grammar's tree; `WFX L` is the level discipline of C99 6.5.1-6.5.17:
comma (0) < assignment (1, right-assoc) < conditional (2, right-assoc, full expression between `?`
and `:`) < binary levels 3..12 (left-assoc) < unary (13: prefix operators and `sizeof` apply to a
unary expression) < postfix (14: suffixes apply to a postfix expression, left to right) < primary.
`parse_full`: every entry point of the parser model returns exactly `X.val` on the tokens of a
well-formed `X`, for expressions of any size.  Not covered: everything that contains a type name
(casts, `sizeof(type)`, compound literals, `_Alignof`, `offsetof`) and string literals.
-/
namespace PycModel.FullExpr
open PycModel PycModel.View PycModel.Climb PycModel.ClimbSim PycModel.ClimbConcrete PycModel.OperandId
open PycModel.ParenExpr (idNode cond_through assign_through expr_through)
open PycModel.TypeName (TN WFTN tryParen_type)

variable {env : Env}

theorem bnd {α β} (m : P α) (f : α → P β) (s : PState) :
    (m >>= f) s = match m s with | .ok a s' => f a s' | .err e => .err e := rfl
theorem pur {α} (a : α) (s : PState) : (pure a : P α) s = .ok a s := rfl

def prefixOps : List String := ["PLUSPLUS", "MINUSMINUS", "AND", "TIMES", "PLUS", "MINUS", "NOT", "LNOT"]
def incDec : List String := ["PLUSPLUS", "MINUSMINUS"]
def memberOps : List String := ["PERIOD", "ARROW"]
def constKinds : List String := intConst ++ floatConst ++ charConst
/-- first tokens of a primary expression / of any expression of the fragment -/
def primHeads : List String := ["ID", "LPAREN"] ++ constKinds
def exprHeads : List String := primHeads ++ prefixOps ++ ["SIZEOF", "_ALIGNOF"]

/-- the `type` attribute `_parse_constant` gives a constant token (`none`: it raises) -/
def constType (k v : String) : Option String :=
  if k == "INT_CONST_CHAR" then some "int"
  else if intConst.contains k then
    if (countSuffix v).1 > 1 then none
    else if (countSuffix v).2 > 2 then none
    else some (repeatStr "unsigned " (countSuffix v).1 ++ repeatStr "long " (countSuffix v).2 ++ "int")
  else if floatConst.contains k then
    some (if v.toList.getLast? == some 'f' || v.toList.getLast? == some 'F' then "float"
      else if v.toList.getLast? == some 'l' || v.toList.getLast? == some 'L' then "long double" else "double")
  else if charConst.contains k then some "char"
  else none


inductive X where
  | id (x : String)
  | const (k v t : String)
  | paren (e : X)
  | pre (k v : String) (e : X)
  | szof (e : X)
  | post (k v : String) (e : X)
  | index (e i : X)
  | member (k v : String) (e : X) (f : String)
  | call0 (f : X)
  | call (f a : X)
  | bin (kind val : String) (l r : X)
  | cond (c t f : X)
  | assign (kind val : String) (l r : X)
  | comma (a b : X)
  | cast (tn : TN) (e : X)       -- `( type-name ) cast-expression`
  | szofT (tn : TN)              -- `sizeof ( type-name )`
  | alignT (tn : TN)             -- `_Alignof ( type-name )`

namespace X

def ntoks : X → Nat
  | id _ => 1
  | const .. => 1
  | paren e => e.ntoks + 2
  | pre _ _ e => e.ntoks + 1
  | szof e => e.ntoks + 1
  | post _ _ e => e.ntoks + 1
  | index e i => e.ntoks + 1 + i.ntoks + 1
  | member _ _ e _ => e.ntoks + 2
  | call0 f => f.ntoks + 2
  | call f a => f.ntoks + 1 + a.ntoks + 1
  | bin _ _ l r => l.ntoks + 1 + r.ntoks
  | cond c t f => c.ntoks + 1 + t.ntoks + 1 + f.ntoks
  | assign _ _ l r => l.ntoks + 1 + r.ntoks
  | comma a b => a.ntoks + 1 + b.ntoks
  | cast tn e => tn.ntoks + 2 + e.ntoks
  | szofT tn => tn.ntoks + 3
  | alignT tn => tn.ntoks + 3

def flat : X → List Tk
  | id x => [("ID", x)]
  | const k v _ => [(k, v)]
  | paren e => ("LPAREN", "(") :: (e.flat ++ [("RPAREN", ")")])
  | pre k v e => (k, v) :: e.flat
  | szof e => ("SIZEOF", "sizeof") :: e.flat
  | post k v e => e.flat ++ [(k, v)]
  | index e i => e.flat ++ ("LBRACKET", "[") :: (i.flat ++ [("RBRACKET", "]")])
  | member k v e f => e.flat ++ [(k, v), ("ID", f)]
  | call0 f => f.flat ++ [("LPAREN", "("), ("RPAREN", ")")]
  | call f a => f.flat ++ ("LPAREN", "(") :: (a.flat ++ [("RPAREN", ")")])
  | bin k v l r => l.flat ++ [(k, v)] ++ r.flat
  | cond c t f => c.flat ++ [("CONDOP", "?")] ++ t.flat ++ [("COLON", ":")] ++ f.flat
  | assign k v l r => l.flat ++ [(k, v)] ++ r.flat
  | comma a b => a.flat ++ [("COMMA", ",")] ++ b.flat
  | cast tn e => ("LPAREN", "(") :: (tn.flat ++ ("RPAREN", ")") :: e.flat)
  | szofT tn => ("SIZEOF", "sizeof") :: ("LPAREN", "(") :: (tn.flat ++ [("RPAREN", ")")])
  | alignT tn => ("_ALIGNOF", "_Alignof") :: ("LPAREN", "(") :: (tn.flat ++ [("RPAREN", ")")])

def coordOfVal (v : Val) : Option Coord := v.coord?.getD none

def headCoord : List Val → Option Coord
  | v :: _ => coordOfVal v
  | [] => none

mutual
/-- the AST of the expression whose first token is at stream position `n` -/
def val (n : Nat) : X → Val
  | id x => idNode n x
  | const _ v t => mk .Constant (tc n) [.str t, .str v]
  | paren e => val (n + 1) e
  | pre _ v e => mk .UnaryOp (coordOfVal (val (n + 1) e)) [.str v, val (n + 1) e]
  | szof e => mk .UnaryOp (tc n) [.str "sizeof", val (n + 1) e]
  | post _ v e => mk .UnaryOp (coordOfVal (val n e)) [.str ("p" ++ v), val n e]
  | index e i => mk .ArrayRef (coordOfVal (val n e)) [val n e, val (n + e.ntoks + 1) i]
  | member _ v e f => mk .StructRef (coordOfVal (val n e)) [val n e, .str v, idNode (n + e.ntoks + 1) f]
  | call0 f => mk .FuncCall (coordOfVal (val n f)) [val n f, .none]
  | call f a => mk .FuncCall (coordOfVal (val n f))
      [val n f, mk .ExprList (headCoord (items (n + f.ntoks + 1) a)) [.list (items (n + f.ntoks + 1) a)]]
  | bin _ v l r => mk .BinaryOp (coordOfVal (val n l)) [.str v, val n l, val (n + l.ntoks + 1) r]
  | cond c t f => mk .TernaryOp (coordOfVal (val n c))
      [val n c, val (n + c.ntoks + 1) t, val (n + c.ntoks + 1 + t.ntoks + 1) f]
  | assign _ v l r => mk .Assignment (coordOfVal (val n l)) [.str v, val n l, val (n + l.ntoks + 1) r]
  | comma a b => mk .ExprList (coordOfVal (val n a)) [.list (val n a :: items (n + a.ntoks + 1) b)]
  | cast tn e => mk .Cast (tc n) [tn.val (n + 1), val (n + tn.ntoks + 2) e]
  | szofT tn => mk .UnaryOp (tc n) [.str "sizeof", tn.val (n + 2)]
  | alignT tn => mk .UnaryOp (tc n) [.str "_Alignof", tn.val (n + 2)]
/-- the operands of a comma expression (or the arguments of a call), flattened along its right spine -/
def items (n : Nat) : X → List Val
  | comma a b => val n a :: items (n + a.ntoks + 1) b
  | id x => [idNode n x]
  | const _ v t => [mk .Constant (tc n) [.str t, .str v]]
  | paren e => [val (n + 1) e]
  | pre _ v e => [mk .UnaryOp (coordOfVal (val (n + 1) e)) [.str v, val (n + 1) e]]
  | szof e => [mk .UnaryOp (tc n) [.str "sizeof", val (n + 1) e]]
  | post _ v e => [mk .UnaryOp (coordOfVal (val n e)) [.str ("p" ++ v), val n e]]
  | index e i => [mk .ArrayRef (coordOfVal (val n e)) [val n e, val (n + e.ntoks + 1) i]]
  | member _ v e f => [mk .StructRef (coordOfVal (val n e)) [val n e, .str v, idNode (n + e.ntoks + 1) f]]
  | call0 f => [mk .FuncCall (coordOfVal (val n f)) [val n f, .none]]
  | call f a => [mk .FuncCall (coordOfVal (val n f))
      [val n f, mk .ExprList (headCoord (items (n + f.ntoks + 1) a)) [.list (items (n + f.ntoks + 1) a)]]]
  | bin k v l r => [mk .BinaryOp (coordOfVal (val n l)) [.str v, val n l, val (n + l.ntoks + 1) r]]
  | cond c t f => [mk .TernaryOp (coordOfVal (val n c))
      [val n c, val (n + c.ntoks + 1) t, val (n + c.ntoks + 1 + t.ntoks + 1) f]]
  | assign _ v l r => [mk .Assignment (coordOfVal (val n l)) [.str v, val n l, val (n + l.ntoks + 1) r]]
  | cast tn e => [mk .Cast (tc n) [tn.val (n + 1), val (n + tn.ntoks + 2) e]]
  | szofT tn => [mk .UnaryOp (tc n) [.str "sizeof", tn.val (n + 2)]]
  | alignT tn => [mk .UnaryOp (tc n) [.str "_Alignof", tn.val (n + 2)]]
end

/-- is the expression a cast? (`++`, `--` and `sizeof` take a unary-expression, which a cast is not) -/
def isCast : X → Bool
  | cast .. => true
  | _ => false

/-- do the tokens begin with the parenthesised type name of a cast? -/
def headCast : X → Bool
  | cast .. => true
  | post _ _ e => e.headCast
  | index e _ => e.headCast
  | member _ _ e _ => e.headCast
  | call0 f => f.headCast
  | call f _ => f.headCast
  | bin _ _ l _ => l.headCast
  | cond c _ _ => c.headCast
  | assign _ _ l _ => l.headCast
  | comma a _ => a.headCast
  | _ => false

end X

/-- levels: 0 comma, 1 assignment, 2 conditional, 3 + m binary level m, 13 unary, 14 postfix, 15 primary -/
inductive WFX : Nat → X → Prop
  | id (L x) : WFX L (.id x)
  | const (L k v t) : constType k v = some t → WFX L (.const k v t)
  | paren (L e) : WFX 0 e → WFX L (.paren e)
  | pre (L k v e) : L ≤ 13 → k ∈ prefixOps → WFX 13 e → (k ∈ incDec → e.isCast = false) → WFX L (.pre k v e)
  | szof (L e) : L ≤ 13 → WFX 13 e → e.isCast = false → WFX L (.szof e)
  | cast (L tn e) : L ≤ 13 → WFTN tn → WFX 13 e → WFX L (.cast tn e)
  | szofT (L tn) : L ≤ 13 → WFTN tn → WFX L (.szofT tn)
  | alignT (L tn) : L ≤ 13 → WFTN tn → WFX L (.alignT tn)
  | post (L k v e) : L ≤ 14 → k ∈ incDec → WFX 14 e → WFX L (.post k v e)
  | index (L e i) : L ≤ 14 → WFX 14 e → WFX 0 i → WFX L (.index e i)
  | member (L k v e f) : L ≤ 14 → k ∈ memberOps → WFX 14 e → WFX L (.member k v e f)
  | call0 (L f) : L ≤ 14 → WFX 14 f → WFX L (.call0 f)
  | call (L f a) : L ≤ 14 → WFX 14 f → WFX 0 a → WFX L (.call f a)
  | bin (L p k v l r) : binPrec k = some p → L ≤ 3 + p → WFX (3 + p) l → WFX (3 + p + 1) r → WFX L (.bin k v l r)
  | cond (L c t f) : L ≤ 2 → WFX 3 c → WFX 0 t → WFX 2 f → WFX L (.cond c t f)
  | assign (L k v l r) : L ≤ 1 → k ∈ assignmentOps → WFX 13 l → WFX 1 r → WFX L (.assign k v l r)
  | comma (a b) : WFX 1 a → WFX 0 b → WFX 0 (.comma a b)

theorem WFX.weaken {L L' : Nat} {e : X} (h : WFX L e) (hl : L' ≤ L) : WFX L' e := by
  cases h with
  | id => exact .id _ _
  | const _ _ _ _ h => exact .const _ _ _ _ h
  | paren _ _ h => exact .paren _ _ h
  | pre _ _ _ _ hL hk h hc => exact .pre _ _ _ _ (by omega) hk h hc
  | szof _ _ hL h hc => exact .szof _ _ (by omega) h hc
  | cast _ _ _ hL ht h => exact .cast _ _ _ (by omega) ht h
  | szofT _ _ hL ht => exact .szofT _ _ (by omega) ht
  | alignT _ _ hL ht => exact .alignT _ _ (by omega) ht
  | post _ _ _ _ hL hk h => exact .post _ _ _ _ (by omega) hk h
  | index _ _ _ hL h1 h2 => exact .index _ _ _ (by omega) h1 h2
  | member _ _ _ _ _ hL hk h => exact .member _ _ _ _ _ (by omega) hk h
  | call0 _ _ hL h => exact .call0 _ _ (by omega) h
  | call _ _ _ hL h1 h2 => exact .call _ _ _ (by omega) h1 h2
  | bin _ p k v l r hp hL hl' hr => exact .bin _ p k v l r hp (by omega) hl' hr
  | cond _ c t f hL hc ht hf => exact .cond _ c t f (by omega) hc ht hf
  | assign _ k v l r hL hk hl' hr => exact .assign _ k v l r (by omega) hk hl' hr
  | comma a b ha hb =>
    have : L' = 0 := by omega
    subst this; exact .comma a b ha hb

namespace X

/-- generous fuel: enough for every entry point at this node -/
def fuel : X → Nat
  | id _ => 10
  | const .. => 10
  | paren e => e.fuel + 13
  | pre _ _ e => e.fuel + 4
  | szof e => e.fuel + 4
  | post _ _ e => e.fuel + 2
  | index e i => e.fuel + i.fuel + 4
  | member _ _ e _ => e.fuel + 3
  | call0 f => f.fuel + 3
  | call f a => f.fuel + a.fuel + 6
  | bin _ _ l r => l.fuel + r.fuel + 3
  | cond c t f => c.fuel + t.fuel + f.fuel + 4
  | assign _ _ l r => l.fuel + r.fuel + 4
  | comma a b => a.fuel + b.fuel + 4
  | cast tn e => tn.ntoks + e.fuel + 16
  | szofT tn => tn.ntoks + 16
  | alignT tn => tn.ntoks + 16

/-- number of postfix steps at the root -/
def sfx : X → Nat
  | post _ _ e => e.sfx + 1
  | index e _ => e.sfx + 1
  | member _ _ e _ => e.sfx + 1
  | call0 f => f.sfx + 1
  | call f _ => f.sfx + 1
  | _ => 0

/-- size of the binary-operator tree rooted here (operands count 1) -/
def btSize : X → Nat
  | bin _ _ l r => 1 + l.btSize + r.btSize
  | _ => 1

/-- fuel of the most demanding operand of the binary-operator tree rooted here -/
def opFuel : X → Nat
  | bin _ _ l r => max l.opFuel r.opFuel
  | e => e.fuel - 5

/-- the binary-operator tree rooted here -/
def toBT (n : Nat) : X → BT
  | bin k v l r => .node k v (l.toBT n) (r.toBT (n + l.ntoks + 1))
  | e => .leaf (e.val n)

def first : X → X
  | comma a _ => a
  | e => e

/-- tokens after the first operand of a comma expression -/
def restToks : X → List Tk
  | comma _ b => ("COMMA", ",") :: b.flat
  | _ => []

/-- values of the operands after the first; `n` = position of the expression -/
def restItems (n : Nat) : X → List Val
  | comma a b => items (n + a.ntoks + 1) b
  | _ => []

def isBin : X → Bool
  | bin .. => true
  | _ => false

end X

theorem flat_length (e : X) : e.flat.length = e.ntoks := by
  induction e <;> simp_all [X.flat, X.ntoks, TypeName.TN.flat_length] <;> omega

theorem val_isNode (e : X) : ∀ n : Nat, (e.val n).isNode = true := by
  induction e with
  | paren e ih => intro n; exact ih (n + 1)
  | _ => intro n; rfl

theorem coordOf_val (e : X) (n : Nat) (s : PState) : coordOf (e.val n) s = .ok (X.coordOfVal (e.val n)) s :=
  coordOf_node (val_isNode e n) s

theorem items_eq (e : X) (n : Nat) : X.items n e = (e.first.val n) :: e.restItems n := by
  cases e <;> rfl

theorem toBT_leaf (e : X) (n : Nat) (h : e.isBin = false) : e.toBT n = .leaf (e.val n) := by
  cases e <;> first | rfl | simp [X.isBin] at h

theorem toVal_toBT (e : X) : ∀ n : Nat, toVal (e.toBT n) = e.val n := by
  induction e with
  | bin k v l r ihl ihr => intro n; simp only [X.toBT, toVal, X.val, ihl n, ihr]; rfl
  | _ => intro n; rfl

theorem btSize_toBT (e : X) : ∀ n : Nat, (e.toBT n).size = e.btSize := by
  induction e with
  | bin k v l r ihl ihr => intro n; simp [X.toBT, BT.size, X.btSize, ihl, ihr]
  | _ => intro n; rfl

theorem nodes_toBT (e : X) : ∀ n : Nat, Nodes (e.toBT n) := by
  induction e with
  | bin k v l r ihl ihr => intro n; exact ⟨ihl n, ihr _⟩
  | paren e _ => intro n; exact val_isNode (.paren e) n
  | _ => intro n; rfl

theorem fuel_ge (e : X) : 10 ≤ e.fuel := by
  induction e <;> simp only [X.fuel] <;> omega

theorem sfx_fuel (e : X) : e.sfx + 10 ≤ e.fuel := by
  induction e <;> simp only [X.fuel, X.sfx] <;> omega

theorem opFuel_leaf (e : X) (h : e.isBin = false) : e.opFuel = e.fuel - 5 := by
  cases e <;> first | rfl | simp [X.isBin] at h

/-- the binary-layer fuel is covered by `fuel` -/
theorem fuelB_le (e : X) : 2 * e.btSize + e.opFuel + 3 ≤ e.fuel := by
  induction e with
  | bin k v l r ihl ihr => simp only [X.btSize, X.opFuel, X.fuel] at ihl ihr ⊢; omega
  | id _ => simp [X.btSize, X.opFuel, X.fuel]
  | const _ _ _ => simp [X.btSize, X.opFuel, X.fuel]
  | paren e => have := fuel_ge e; simp only [X.btSize, X.opFuel, X.fuel]; omega
  | pre _ _ e => have := fuel_ge e; simp only [X.btSize, X.opFuel, X.fuel]; omega
  | szof e => have := fuel_ge e; simp only [X.btSize, X.opFuel, X.fuel]; omega
  | post _ _ e => have := fuel_ge e; simp only [X.btSize, X.opFuel, X.fuel]; omega
  | index e i => have := fuel_ge e; simp only [X.btSize, X.opFuel, X.fuel]; omega
  | member _ _ e _ => have := fuel_ge e; simp only [X.btSize, X.opFuel, X.fuel]; omega
  | call0 e => have := fuel_ge e; simp only [X.btSize, X.opFuel, X.fuel]; omega
  | call e a => have := fuel_ge e; simp only [X.btSize, X.opFuel, X.fuel]; omega
  | cond c t f => have := fuel_ge c; simp only [X.btSize, X.opFuel, X.fuel]; omega
  | assign _ _ l r => have := fuel_ge l; simp only [X.btSize, X.opFuel, X.fuel]; omega
  | comma a b => have := fuel_ge a; simp only [X.btSize, X.opFuel, X.fuel]; omega
  | cast tn e => have := fuel_ge e; simp only [X.btSize, X.opFuel, X.fuel]; omega
  | szofT tn => simp only [X.btSize, X.opFuel, X.fuel]; omega
  | alignT tn => simp only [X.btSize, X.opFuel, X.fuel]; omega


/-! ## first tokens -/

/-- first tokens of a type name of the fragment -/
def tnHeads : List String := TypeName.quals3 ++ typeSpecSimple ++ ["TYPEID"]

/-- the token list starts like an expression: its first token is an expression head, and if that is
`(`, the second is an expression head too or starts the type name of a cast (never a block) -/
def HeadsOK (l : List Tk) : Prop :=
  ∃ t r, l = t :: r ∧ t.1 ∈ exprHeads ∧
    (t.1 = "LPAREN" → ∃ t2 r2, r = t2 :: r2 ∧ (t2.1 ∈ exprHeads ∨ t2.1 ∈ tnHeads))

/-- ... and does not start with a cast: after a leading `(` comes an expression head (so the
parentheses hold an expression, not a type name) -/
def HeadsS (l : List Tk) : Prop :=
  ∃ t r, l = t :: r ∧ t.1 ∈ exprHeads ∧ (t.1 = "LPAREN" → ∃ t2 r2, r = t2 :: r2 ∧ t2.1 ∈ exprHeads)

theorem HeadsOK.append {l : List Tk} (h : HeadsOK l) (m : List Tk) : HeadsOK (l ++ m) := by
  obtain ⟨t, r, rfl, ht, h2⟩ := h
  refine ⟨t, r ++ m, rfl, ht, fun hl => ?_⟩
  obtain ⟨t2, r2, rfl, ht2⟩ := h2 hl
  exact ⟨t2, r2 ++ m, rfl, ht2⟩

theorem HeadsS.append {l : List Tk} (h : HeadsS l) (m : List Tk) : HeadsS (l ++ m) := by
  obtain ⟨t, r, rfl, ht, h2⟩ := h
  refine ⟨t, r ++ m, rfl, ht, fun hl => ?_⟩
  obtain ⟨t2, r2, rfl, ht2⟩ := h2 hl
  exact ⟨t2, r2 ++ m, rfl, ht2⟩

theorem HeadsS.weak {l : List Tk} (h : HeadsS l) : HeadsOK l := by
  obtain ⟨t, r, rfl, ht, h2⟩ := h
  exact ⟨t, r, rfl, ht, fun hl => by obtain ⟨t2, r2, h, ht2⟩ := h2 hl; exact ⟨t2, r2, h, .inl ht2⟩⟩

theorem tn_head {tn : TN} (h : WFTN tn) : ∃ t r, tn.flat = t :: r ∧ t.1 ∈ tnHeads := by
  have hne := TypeName.sawAfter_ne_nil h.saw
  obtain ⟨t, r, hsp⟩ := List.exists_cons_of_ne_nil hne
  have hsq := h.sq
  rw [hsp] at hsq
  refine ⟨t, r ++ DeclSkel.starsFlat tn.stars, by simp [TypeName.TN.flat, hsp], ?_⟩
  simp only [tnHeads, List.mem_append, List.mem_singleton]
  rcases hsq.1 with h | h | h
  · exact .inl (.inl h)
  · exact .inl (.inr h)
  · exact .inr h.1

theorem tnHeads_facts : ∀ k ∈ tnHeads, k ≠ "LBRACE" ∧ k ∉ exprHeads := by decide

theorem heads_facts : ∀ k ∈ exprHeads, inSet (some k) declStart = false ∧ inSet (some k) startsExpressionSet = true ∧
    k ≠ "LBRACE" ∧ k ≠ "SEMI" ∧ k ≠ "RPAREN" := by decide

theorem primHeads_facts : ∀ k ∈ primHeads, k ∈ exprHeads ∧ inSet (some k) ["PLUSPLUS", "MINUSMINUS"] = false ∧
    inSet (some k) ["AND", "TIMES", "PLUS", "MINUS", "NOT", "LNOT"] = false ∧ k ≠ "SIZEOF" ∧ k ≠ "_ALIGNOF" := by decide

theorem constKinds_facts : ∀ k ∈ constKinds, k ∈ primHeads ∧ k ≠ "ID" ∧ k ≠ "LPAREN" ∧
    (inSet (some k) intConst || inSet (some k) floatConst || inSet (some k) charConst) = true := by decide

theorem prefixOps_facts : ∀ k ∈ prefixOps, k ∈ exprHeads ∧ k ≠ "LPAREN" := by decide

theorem constType_kind {k v t : String} (h : constType k v = some t) : k ∈ constKinds := by
  by_cases hk : k ∈ constKinds
  · exact hk
  · exfalso
    simp only [constKinds, intConst, floatConst, charConst, List.cons_append, List.nil_append, List.mem_cons,
      List.mem_nil_iff, or_false, not_or] at hk
    simp [constType, intConst, floatConst, charConst, hk] at h

theorem binPrec_le (k : String) (p : Nat) (h : binPrec k = some p) : p ≤ 9 := by
  unfold binPrec binaryPrecedence at h
  simp only [List.find?_cons, List.find?_nil] at h
  repeat' split at h
  all_goals simp at h
  all_goals omega

theorem flat_heads {L : Nat} {e : X} (h : WFX L e) : HeadsOK e.flat := by
  induction h with
  | id L x => exact ⟨("ID", x), [], rfl, (by decide : "ID" ∈ exprHeads), fun h => by simp at h⟩
  | const L k v t hc =>
    have := constKinds_facts k (constType_kind hc)
    exact ⟨(k, v), [], rfl, (primHeads_facts k this.1).1, fun hl => absurd hl this.2.2.1⟩
  | paren L e _ ih =>
    obtain ⟨t, r, hfl, ht, _⟩ := ih
    exact ⟨("LPAREN", "("), _, rfl, (by decide : "LPAREN" ∈ exprHeads), fun _ => ⟨t, r ++ [("RPAREN", ")")], by simp [hfl], .inl ht⟩⟩
  | pre L k v e _ hk _ _ _ =>
    have := prefixOps_facts k hk
    exact ⟨(k, v), _, rfl, this.1, fun hl => absurd hl this.2⟩
  | szof L e _ _ _ _ => exact ⟨("SIZEOF", "sizeof"), _, rfl, (by decide : "SIZEOF" ∈ exprHeads), fun h => by simp at h⟩
  | cast L tn e _ ht _ _ =>
    obtain ⟨t, r, hfl, hth⟩ := tn_head ht
    exact ⟨("LPAREN", "("), _, rfl, (by decide : "LPAREN" ∈ exprHeads),
      fun _ => ⟨t, r ++ ("RPAREN", ")") :: e.flat, by simp [hfl], .inr hth⟩⟩
  | szofT L tn _ _ => exact ⟨("SIZEOF", "sizeof"), _, rfl, (by decide : "SIZEOF" ∈ exprHeads), fun h => by simp at h⟩
  | alignT L tn _ _ => exact ⟨("_ALIGNOF", "_Alignof"), _, rfl, (by decide : "_ALIGNOF" ∈ exprHeads), fun h => by simp at h⟩
  | post L k v e _ _ _ ih => exact ih.append _
  | index L e i _ _ _ ih _ => exact ih.append _
  | member L k v e f _ _ _ ih => exact ih.append _
  | call0 L f _ _ ih => exact ih.append _
  | call L f a _ _ _ ih _ => exact ih.append _
  | bin L p k v l r _ _ _ _ ihl _ => simpa [X.flat, List.append_assoc] using ihl.append ((k, v) :: r.flat)
  | cond L c t f _ _ _ _ ihc _ _ =>
    simpa [X.flat, List.append_assoc] using ihc.append (("CONDOP", "?") :: (t.flat ++ ("COLON", ":") :: f.flat))
  | assign L k v l r _ _ _ _ ihl _ => simpa [X.flat, List.append_assoc] using ihl.append ((k, v) :: r.flat)
  | comma a b _ _ iha _ => simpa [X.flat, List.append_assoc] using iha.append (("COMMA", ",") :: b.flat)

/-- an expression that does not begin with a cast: the strong form -/
theorem flat_headsS {L : Nat} {e : X} (h : WFX L e) : e.headCast = false → HeadsS e.flat := by
  induction h with
  | id L x => exact fun _ => ⟨("ID", x), [], rfl, (by decide : "ID" ∈ exprHeads), fun h => by simp at h⟩
  | const L k v t hc =>
    have := constKinds_facts k (constType_kind hc)
    exact fun _ => ⟨(k, v), [], rfl, (primHeads_facts k this.1).1, fun hl => absurd hl this.2.2.1⟩
  | paren L e hw _ =>
    obtain ⟨t, r, hfl, ht, _⟩ := flat_heads hw
    exact fun _ => ⟨("LPAREN", "("), _, rfl, (by decide : "LPAREN" ∈ exprHeads),
      fun _ => ⟨t, r ++ [("RPAREN", ")")], by simp [hfl], ht⟩⟩
  | pre L k v e _ hk _ _ _ =>
    have := prefixOps_facts k hk
    exact fun _ => ⟨(k, v), _, rfl, this.1, fun hl => absurd hl this.2⟩
  | szof L e _ _ _ _ => exact fun _ => ⟨("SIZEOF", "sizeof"), _, rfl, (by decide : "SIZEOF" ∈ exprHeads), fun h => by simp at h⟩
  | cast L tn e _ _ _ _ => intro hc; simp [X.headCast] at hc
  | szofT L tn _ _ => exact fun _ => ⟨("SIZEOF", "sizeof"), _, rfl, (by decide : "SIZEOF" ∈ exprHeads), fun h => by simp at h⟩
  | alignT L tn _ _ => exact fun _ => ⟨("_ALIGNOF", "_Alignof"), _, rfl, (by decide : "_ALIGNOF" ∈ exprHeads), fun h => by simp at h⟩
  | post L k v e _ _ _ ih => exact fun hc => (ih (by simpa [X.headCast] using hc)).append _
  | index L e i _ _ _ ih _ => exact fun hc => (ih (by simpa [X.headCast] using hc)).append _
  | member L k v e f _ _ _ ih => exact fun hc => (ih (by simpa [X.headCast] using hc)).append _
  | call0 L f _ _ ih => exact fun hc => (ih (by simpa [X.headCast] using hc)).append _
  | call L f a _ _ _ ih _ => exact fun hc => (ih (by simpa [X.headCast] using hc)).append _
  | bin L p k v l r _ _ _ _ ihl _ =>
    exact fun hc => by simpa [X.flat, List.append_assoc] using (ihl (by simpa [X.headCast] using hc)).append ((k, v) :: r.flat)
  | cond L c t f _ _ _ _ ihc _ _ =>
    exact fun hc => by
      simpa [X.flat, List.append_assoc] using
        (ihc (by simpa [X.headCast] using hc)).append (("CONDOP", "?") :: (t.flat ++ ("COLON", ":") :: f.flat))
  | assign L k v l r _ _ _ _ ihl _ =>
    exact fun hc => by simpa [X.flat, List.append_assoc] using (ihl (by simpa [X.headCast] using hc)).append ((k, v) :: r.flat)
  | comma a b _ _ iha _ =>
    exact fun hc => by simpa [X.flat, List.append_assoc] using (iha (by simpa [X.headCast] using hc)).append (("COMMA", ",") :: b.flat)

/-- after a leading prefix `*` comes another expression head (so `[ * ]` is never an expression) -/
def TimesOK (l : List Tk) : Prop :=
  ∃ t r, l = t :: r ∧ (t.1 = "TIMES" → ∃ t2 r2, r = t2 :: r2 ∧ t2.1 ∈ exprHeads)

theorem TimesOK.append {l : List Tk} (h : TimesOK l) (m : List Tk) : TimesOK (l ++ m) := by
  obtain ⟨t, r, rfl, h2⟩ := h
  refine ⟨t, r ++ m, rfl, fun hl => ?_⟩
  obtain ⟨t2, r2, rfl, ht2⟩ := h2 hl
  exact ⟨t2, r2 ++ m, rfl, ht2⟩

theorem flat_times {L : Nat} {e : X} (h : WFX L e) : TimesOK e.flat := by
  induction h with
  | id L x => exact ⟨("ID", x), [], rfl, fun h => by simp at h⟩
  | const L k v t hc =>
    have := constKinds_facts k (constType_kind hc)
    refine ⟨(k, v), [], rfl, fun hl => ?_⟩
    simp only at hl; rw [hl] at this; exact absurd this.1 (by decide)
  | paren L e _ _ => exact ⟨("LPAREN", "("), _, rfl, fun h => by simp at h⟩
  | pre L k v e _ _ hw _ _ =>
    obtain ⟨t, r, hfl, ht, _⟩ := flat_heads hw
    exact ⟨(k, v), e.flat, rfl, fun _ => ⟨t, r, hfl, ht⟩⟩
  | szof L e _ _ _ _ => exact ⟨("SIZEOF", "sizeof"), _, rfl, fun h => by simp at h⟩
  | cast L tn e _ _ _ _ => exact ⟨("LPAREN", "("), _, rfl, fun h => by simp at h⟩
  | szofT L tn _ _ => exact ⟨("SIZEOF", "sizeof"), _, rfl, fun h => by simp at h⟩
  | alignT L tn _ _ => exact ⟨("_ALIGNOF", "_Alignof"), _, rfl, fun h => by simp at h⟩
  | post L k v e _ _ _ ih => exact ih.append _
  | index L e i _ _ _ ih _ => exact ih.append _
  | member L k v e f _ _ _ ih => exact ih.append _
  | call0 L f _ _ ih => exact ih.append _
  | call L f a _ _ _ ih _ => exact ih.append _
  | bin L p k v l r _ _ _ _ ihl _ => simpa [X.flat, List.append_assoc] using ihl.append ((k, v) :: r.flat)
  | cond L c t f _ _ _ _ ihc _ _ =>
    simpa [X.flat, List.append_assoc] using ihc.append (("CONDOP", "?") :: (t.flat ++ ("COLON", ":") :: f.flat))
  | assign L k v l r _ _ _ _ ihl _ => simpa [X.flat, List.append_assoc] using ihl.append ((k, v) :: r.flat)
  | comma a b _ _ iha _ => simpa [X.flat, List.append_assoc] using iha.append (("COMMA", ",") :: b.flat)

/-- a postfix-level expression starts with an identifier, a constant or `(` -/
theorem flat_head14 {e : X} (h : WFX 14 e) : ∃ t r, e.flat = t :: r ∧ t.1 ∈ primHeads := by
  generalize hL : 14 = L at h
  induction h with
  | id L x => exact ⟨("ID", x), [], rfl, (by decide : "ID" ∈ primHeads)⟩
  | const L k v t hc => exact ⟨(k, v), [], rfl, (constKinds_facts k (constType_kind hc)).1⟩
  | paren L e _ _ => exact ⟨("LPAREN", "("), _, rfl, (by decide : "LPAREN" ∈ primHeads)⟩
  | pre L k v e hL' _ _ _ _ => omega
  | szof L e hL' _ _ _ => omega
  | cast L tn e hL' _ _ _ => omega
  | szofT L tn hL' _ => omega
  | alignT L tn hL' _ => omega
  | post L k v e _ _ _ ih => obtain ⟨t, r, h, ht⟩ := ih rfl; exact ⟨t, _, by rw [X.flat, h]; rfl, ht⟩
  | index L e i _ _ _ ih _ => obtain ⟨t, r, h, ht⟩ := ih rfl; exact ⟨t, _, by rw [X.flat, h]; rfl, ht⟩
  | member L k v e f _ _ _ ih => obtain ⟨t, r, h, ht⟩ := ih rfl; exact ⟨t, _, by rw [X.flat, h]; rfl, ht⟩
  | call0 L f _ _ ih => obtain ⟨t, r, h, ht⟩ := ih rfl; exact ⟨t, _, by rw [X.flat, h]; rfl, ht⟩
  | call L f a _ _ _ ih _ => obtain ⟨t, r, h, ht⟩ := ih rfl; exact ⟨t, _, by rw [X.flat, h]; rfl, ht⟩
  | bin L p k v l r hp hL' _ _ _ _ => have := binPrec_le k p hp; omega
  | cond L c t f hL' _ _ _ _ _ _ => omega
  | assign L k v l r hL' _ _ _ _ _ => omega
  | comma a b _ _ _ _ => omega

theorem wf_toBT : ∀ (e : X) (m n : Nat), WFX (3 + m) e → WF binPrec m (e.toBT n)
  | .bin k v l r, m, n, h => by
    generalize hL : 3 + m = L at h
    cases h with
    | bin _ p _ _ _ _ hp hm hl hr =>
      exact .node _ p _ _ _ _ hp (by omega) (wf_toBT l p n hl) (wf_toBT r (p + 1) _ (by simpa [Nat.add_assoc] using hr))
  | .id _, _, _, _ => .leaf _ _
  | .const .., _, _, _ => .leaf _ _
  | .paren _, _, _, _ => .leaf _ _
  | .pre .., _, _, _ => .leaf _ _
  | .szof _, _, _, _ => .leaf _ _
  | .post .., _, _, _ => .leaf _ _
  | .index .., _, _, _ => .leaf _ _
  | .member .., _, _, _ => .leaf _ _
  | .call0 _, _, _, _ => .leaf _ _
  | .call .., _, _, _ => .leaf _ _
  | .cond .., _, _, _ => .leaf _ _
  | .assign .., _, _, _ => .leaf _ _
  | .comma .., _, _, _ => .leaf _ _
  | .cast .., _, _, _ => .leaf _ _
  | .szofT .., _, _, _ => .leaf _ _
  | .alignT .., _, _, _ => .leaf _ _


/-! ## what may follow an expression of each level -/

def StopB (k : String) : Prop := binPrec k = none ∧ k ∉ postfixStarters
def StopC (k : String) : Prop := StopB k ∧ k ≠ "CONDOP"
def StopA (k : String) : Prop := StopC k ∧ inSet (some k) assignmentOps = false
def StopX (k : String) : Prop := StopA k ∧ k ≠ "COMMA"

/-- the statement of the theorem for one entry point `nt` of the parser -/
def EntryOK (env : Env) (nt : NT) (hres : nt.Res = Val) (e : X) (stopOK : String → Prop) (slack : Nat) : Prop :=
  ∀ (s : PState) (stop : Tk) (rest : List Tk), stopOK stop.1 → SeesT env s (e.flat ++ stop :: rest) →
    ∀ F, e.fuel ≤ F + slack → ∃ s', run F nt s = .ok (hres ▸ e.val s.idx) s' ∧ SeesT env s' (stop :: rest) ∧
      s'.idx = s.idx + e.ntoks

/-- (the deeper the entry point, the less fuel it needs: `expression` calls `assignmentExpression`
calls `conditionalExpression` calls `binaryExpression` calls `castExpression` ...) -/
def BOK (env : Env) (e : X) : Prop := ∀ m, WFX (3 + m) e → EntryOK env (.binaryExpression m none) rfl e StopB 3
def COK (env : Env) (e : X) : Prop := WFX 2 e → EntryOK env .conditionalExpression rfl e StopC 2
def AOK (env : Env) (e : X) : Prop := WFX 1 e → EntryOK env .assignmentExpression rfl e StopA 1
def XOK (env : Env) (e : X) : Prop := WFX 0 e → EntryOK env .expression rfl e StopX 0

/-- the operand entry points: what follows only has to be no postfix operator (it may be nothing) -/
def OperandOK (env : Env) (nt : NT) (hres : nt.Res = Val) (e : X) (slack : Nat) : Prop :=
  ∀ (s : PState) (rest : List Tk), FollowOp rest → SeesT env s (e.flat ++ rest) →
    ∀ F, e.fuel ≤ F + slack → ∃ s', run F nt s = .ok (hres ▸ e.val s.idx) s' ∧ SeesT env s' rest ∧
      s'.idx = s.idx + e.ntoks

def CastOK (env : Env) (e : X) : Prop := WFX 13 e → OperandOK env .castExpression rfl e 5
def UnOK (env : Env) (e : X) : Prop := WFX 13 e → e.isCast = false → OperandOK env .unaryExpression rfl e 6

/-- the postfix level in continuation form: parsing `e` as a postfix expression is the same as
entering the suffix loop with the value of `e` after its tokens (so more suffixes may follow) -/
def PostCPS (env : Env) (e : X) : Prop :=
  WFX 14 e → ∀ (s : PState) (rest : List Tk) (F : Nat), SeesT env s (e.flat ++ rest) → e.fuel ≤ F + 7 →
    ∃ s1 G, SeesT env s1 rest ∧ s1.idx = s.idx + e.ntoks ∧ F ≤ G + e.sfx + 2 ∧
      run F (.postfixExpression none) s = run G (.postfixLoop (e.val s.idx)) s1

theorem stopX_rparen : StopX "RPAREN" := by
  refine ⟨⟨⟨⟨by decide, by decide⟩, by decide⟩, by decide⟩, by decide⟩
theorem stopX_rbracket : StopX "RBRACKET" := by
  refine ⟨⟨⟨⟨by decide, by decide⟩, by decide⟩, by decide⟩, by decide⟩

/-! ## the productions below the binary layer -/

/-- `_try_parse_paren_type_name` on the first tokens of an expression: no type name -/
theorem tryParen_expr (F : Nat) (s : PState) (toks : List Tk) (hs : SeesT env s toks) (hh : HeadsS toks) :
    ∃ s', run (F + 1) .tryParenTypeName s = .ok none s' ∧ SeesT env s' toks ∧ s'.idx = s.idx := by
  obtain ⟨t, r, rfl, ht, h2⟩ := hh
  by_cases hl : t.1 = "LPAREN"
  · obtain ⟨t2, r2, rfl, ht2⟩ := h2 hl
    obtain ⟨k, v⟩ := t
    simp only at hl; subst hl
    obtain ⟨s2, h2', hs2, hi2, hb2⟩ := accept_same s "LPAREN" v (t2 :: r2) hs
    obtain ⟨s3, h3, hs3, hi3, hext, hsz⟩ := peekType_spec s2 (t2 :: r2) hs2
    have hlt : s.idx < s2.buf.size := (Array.getElem?_eq_some_iff.mp hb2).1
    have hb3 : s3.buf[s.idx]? = some (some ⟨"LPAREN", v, s.idx⟩) := by rw [hext _ hlt]; exact hb2
    obtain ⟨s4, h4, hs4, _, hi4, _⟩ := reset_one s3 (t2 :: r2) s.idx _ hs3 (by omega) hb3
    refine ⟨s4, ?_, hs4, hi4⟩
    have hnd : inSet (some t2.1) declStart = false := (heads_facts _ ht2).1
    show pTryParenTypeName (run F) s = _
    simp [pTryParenTypeName, bnd, mark, h2', startsDeclaration, h3, hnd, h4, pur]
  · exact tryParen_none F s _ hs (by intro k v r h; cases h; exact hl)

/-- `_parse_constant` -/
theorem pConstant_ok (s : PState) (k v t : String) (rest : List Tk) (hs : SeesT env s ((k, v) :: rest))
    (hc : constType k v = some t) :
    ∃ s', pConstant s = .ok (mk .Constant (tc s.idx) [.str t, .str v]) s' ∧
      SeesT env s' rest ∧ s'.idx = s.idx + 1 := by
  obtain ⟨s2, h2, hs2, _, hi2, _⟩ := advance_spec s k v rest hs
  refine ⟨s2, ?_, hs2, hi2⟩
  unfold constType at hc
  simp only [pConstant, bnd, h2]
  by_cases c1 : (k == "INT_CONST_CHAR") = true
  · simp only [c1, Bool.false_eq_true, ↓reduceIte, Option.some.injEq] at hc ⊢
    subst hc; simp [tokCoord, pur, bnd, tc]
  · simp only [c1, Bool.false_eq_true, ↓reduceIte] at hc ⊢
    by_cases c2 : intConst.contains k = true
    · simp only [c2, Bool.false_eq_true, ↓reduceIte] at hc ⊢
      by_cases c3 : (countSuffix v).1 > 1
      · simp [c3] at hc
      · simp only [c3, Bool.false_eq_true, ↓reduceIte] at hc ⊢
        by_cases c4 : (countSuffix v).2 > 2
        · simp [c4] at hc
        · simp only [c4, Bool.false_eq_true, ↓reduceIte, Option.some.injEq] at hc ⊢
          subst hc; simp [tokCoord, pur, bnd, tc]
    · simp only [c2, Bool.false_eq_true, ↓reduceIte] at hc ⊢
      by_cases c5 : floatConst.contains k = true
      · simp only [c5, Bool.false_eq_true, ↓reduceIte, Option.some.injEq] at hc ⊢
        subst hc; simp [tokCoord, pur, bnd, tc]
      · simp only [c5, Bool.false_eq_true, ↓reduceIte] at hc ⊢
        by_cases c6 : charConst.contains k = true
        · simp only [c6, Bool.false_eq_true, ↓reduceIte, Option.some.injEq] at hc ⊢
          subst hc; simp [tokCoord, pur, bnd, tc]
        · simp only [c6, Bool.false_eq_true, ↓reduceIte] at hc; cases hc

/-- a constant -/
theorem primary_const (F : Nat) (s : PState) (k v t : String) (rest : List Tk) (hs : SeesT env s ((k, v) :: rest))
    (hc : constType k v = some t) :
    ∃ s', run (F + 1) .primaryExpression s = .ok (mk .Constant (tc s.idx) [.str t, .str v]) s' ∧
      SeesT env s' rest ∧ s'.idx = s.idx + 1 := by
  have hk := constKinds_facts k (constType_kind hc)
  obtain ⟨s1, h1, hs1, hi1, _⟩ := peekType_spec s _ hs
  obtain ⟨s2, h2, hs2, hi2⟩ := pConstant_ok s1 k v t rest hs1 hc
  refine ⟨s2, ?_, hs2, by omega⟩
  have hor : (inSet (some k) intConst = true ∨ inSet (some k) floatConst = true) ∨ inSet (some k) charConst = true := by
    simpa [Bool.or_eq_true] using hk.2.2.2
  rw [hi1] at h2
  show pPrimaryExpression (run F) s = _
  simp [pPrimaryExpression, bnd, h1, hk.2.1, hor, h2]

/-- the start of `_parse_postfix_expression`: no compound literal; a primary expression, then the loop -/
theorem post_start (F : Nat) (s : PState) (toks rest : List Tk) (v : Val) (i1 : Nat) (hs : SeesT env s toks)
    (hh : HeadsS toks)
    (hp : ∀ s0, SeesT env s0 toks → s0.idx = s.idx →
      ∃ s1, run (F + 1) .primaryExpression s0 = .ok v s1 ∧ SeesT env s1 rest ∧ s1.idx = i1) :
    ∃ s1, SeesT env s1 rest ∧ s1.idx = i1 ∧
      run (F + 2) (.postfixExpression none) s = run (F + 1) (.postfixLoop v) s1 := by
  obtain ⟨s1, h1, hs1, hi1⟩ := tryParen_expr F s toks hs hh
  obtain ⟨s2, h2, hs2, hi2⟩ := hp s1 hs1 hi1
  refine ⟨s2, hs2, hi2, ?_⟩
  show pPostfixExpression (run (F + 1)) none s = _
  simp [pPostfixExpression, bnd, h1, h2, pur]

theorem mem_ne {k : String} {l : List String} {x : String} (hk : k ∈ l) (hx : x ∉ l) : k ≠ x := by
  intro h; subst h; exact hx hk

/-- one turn of the suffix loop: `++` / `--` -/
theorem loop_incdec (G : Nat) (s : PState) (ev : Val) (k v : String) (rest : List Tk)
    (hs : SeesT env s ((k, v) :: rest)) (hk : k ∈ incDec) (hn : ev.isNode = true) :
    ∃ s', SeesT env s' rest ∧ s'.idx = s.idx + 1 ∧
      run (G + 1) (.postfixLoop ev) s =
        run G (.postfixLoop (mk .UnaryOp (X.coordOfVal ev) [.str ("p" ++ v), ev])) s' := by
  obtain ⟨s1, h1, hs1, hi1⟩ := accept_other s _ "LBRACKET" hs
    (by intro k' v' r h; cases h; exact mem_ne hk (by decide))
  obtain ⟨s2, h2, hs2, hi2⟩ := accept_other s1 _ "LPAREN" hs1
    (by intro k' v' r h; cases h; exact mem_ne hk (by decide))
  obtain ⟨s3, h3, hs3, hi3, _⟩ := peekType_spec s2 _ hs2
  obtain ⟨s4, h4, hs4, hi4, _⟩ := peekType_spec s3 _ hs3
  obtain ⟨s5, h5, hs5, _, hi5, _⟩ := advance_spec s4 k v rest hs4
  have hset1 : inSet (some k) ["PERIOD", "ARROW"] = false := by
    simp only [incDec, List.mem_cons, List.mem_nil_iff, or_false] at hk
    rcases hk with rfl | rfl <;> decide
  have hset2 : inSet (some k) ["PLUSPLUS", "MINUSMINUS"] = true := by
    simp only [incDec, List.mem_cons, List.mem_nil_iff, or_false] at hk
    rcases hk with rfl | rfl <;> decide
  have hco := coordOf_node hn s5
  refine ⟨s5, hs5, by omega, ?_⟩
  show pPostfixLoop (run G) ev s = _
  simp [pPostfixLoop, bnd, h1, h2, h3, h4, hset1, hset2, h5, hco, pur, X.coordOfVal]

/-- one turn of the suffix loop: `. name` / `-> name` -/
theorem loop_member (G : Nat) (s : PState) (ev : Val) (k v f : String) (rest : List Tk)
    (hs : SeesT env s ((k, v) :: ("ID", f) :: rest)) (hk : k ∈ memberOps) (hn : ev.isNode = true) :
    ∃ s', SeesT env s' rest ∧ s'.idx = s.idx + 2 ∧
      run (G + 1) (.postfixLoop ev) s =
        run G (.postfixLoop (mk .StructRef (X.coordOfVal ev) [ev, .str v, idNode (s.idx + 1) f])) s' := by
  obtain ⟨s1, h1, hs1, hi1⟩ := accept_other s _ "LBRACKET" hs
    (by intro k' v' r h; cases h; exact mem_ne hk (by decide))
  obtain ⟨s2, h2, hs2, hi2⟩ := accept_other s1 _ "LPAREN" hs1
    (by intro k' v' r h; cases h; exact mem_ne hk (by decide))
  obtain ⟨s3, h3, hs3, hi3, _⟩ := peekType_spec s2 _ hs2
  obtain ⟨s4, h4, hs4, _, hi4, _⟩ := advance_spec s3 k v _ hs3
  obtain ⟨s5, h5, hs5, _, hi5, _⟩ := advance_spec s4 "ID" f rest hs4
  have hset1 : inSet (some k) ["PERIOD", "ARROW"] = true := by
    simp only [memberOps, List.mem_cons, List.mem_nil_iff, or_false] at hk
    rcases hk with rfl | rfl <;> decide
  have hco := coordOf_node hn s5
  refine ⟨s5, hs5, by omega, ?_⟩
  have e4 : s4.idx = s.idx + 1 := by omega
  show pPostfixLoop (run G) ev s = _
  simp [pPostfixLoop, bnd, h1, h2, h3, hset1, h4, h5, hco, pur, X.coordOfVal, mkID, tokCoord, idNode, e4]

/-- one turn of the suffix loop: `[ expression ]` -/
theorem loop_index (G : Nat) (s : PState) (ev iv : Val) (inner rest : List Tk) (i1 : Nat)
    (hs : SeesT env s (("LBRACKET", "[") :: (inner ++ ("RBRACKET", "]") :: rest)))
    (he : ∀ s0, SeesT env s0 (inner ++ ("RBRACKET", "]") :: rest) → s0.idx = s.idx + 1 →
      ∃ s1, run G .expression s0 = .ok iv s1 ∧ SeesT env s1 (("RBRACKET", "]") :: rest) ∧ s1.idx = i1)
    (hn : ev.isNode = true) :
    ∃ s', SeesT env s' rest ∧ s'.idx = i1 + 1 ∧
      run (G + 1) (.postfixLoop ev) s = run G (.postfixLoop (mk .ArrayRef (X.coordOfVal ev) [ev, iv])) s' := by
  obtain ⟨s1, h1, hs1, hi1, _⟩ := accept_same s "LBRACKET" "[" _ hs
  obtain ⟨s2, h2, hs2, hi2⟩ := he s1 hs1 hi1
  obtain ⟨s3, h3, hs3, hi3⟩ := expect_same s2 "RBRACKET" "]" rest hs2
  have hco := coordOf_node hn s3
  refine ⟨s3, hs3, by omega, ?_⟩
  show pPostfixLoop (run G) ev s = _
  simp [pPostfixLoop, bnd, h1, h2, h3, hco, pur, X.coordOfVal]

/-- one turn of the suffix loop: `( )` -/
theorem loop_call0 (G : Nat) (s : PState) (ev : Val) (rest : List Tk)
    (hs : SeesT env s (("LPAREN", "(") :: ("RPAREN", ")") :: rest)) (hn : ev.isNode = true) :
    ∃ s', SeesT env s' rest ∧ s'.idx = s.idx + 2 ∧
      run (G + 1) (.postfixLoop ev) s = run G (.postfixLoop (mk .FuncCall (X.coordOfVal ev) [ev, .none])) s' := by
  obtain ⟨s1, h1, hs1, hi1⟩ := accept_other s _ "LBRACKET" hs (by intro k' v' r h; cases h; decide)
  obtain ⟨s2, h2, hs2, hi2, _⟩ := accept_same s1 "LPAREN" "(" _ hs1
  obtain ⟨s3, h3, hs3, hi3, _⟩ := peekType_spec s2 _ hs2
  obtain ⟨s4, h4, hs4, _, hi4, _⟩ := advance_spec s3 "RPAREN" ")" rest hs3
  have hco := coordOf_node hn s4
  refine ⟨s4, hs4, by omega, ?_⟩
  show pPostfixLoop (run G) ev s = _
  simp [pPostfixLoop, bnd, h1, h2, h3, h4, hco, pur, X.coordOfVal]

/-- one turn of the suffix loop: `( arguments )` -/
theorem loop_call (G : Nat) (s : PState) (ev first : Val) (l : List Val) (inner rest : List Tk) (i1 : Nat)
    (hs : SeesT env s (("LPAREN", "(") :: (inner ++ ("RPAREN", ")") :: rest)))
    (hin : ∃ t r, inner = t :: r ∧ t.1 ≠ "RPAREN")
    (hargs : ∀ s0, SeesT env s0 (inner ++ ("RPAREN", ")") :: rest) → s0.idx = s.idx + 1 →
      ∃ s1 s2, run G .assignmentExpression s0 = .ok first s1 ∧ run G (.argListLoop [first]) s1 = .ok l s2 ∧
        SeesT env s2 (("RPAREN", ")") :: rest) ∧ s2.idx = i1)
    (hf : first.isNode = true) (hn : ev.isNode = true) :
    ∃ s', SeesT env s' rest ∧ s'.idx = i1 + 1 ∧
      run (G + 1) (.postfixLoop ev) s =
        run G (.postfixLoop (mk .FuncCall (X.coordOfVal ev) [ev, mk .ExprList (X.coordOfVal first) [.list l]])) s' := by
  obtain ⟨t, r, rfl, htr⟩ := hin
  obtain ⟨s1, h1, hs1, hi1⟩ := accept_other s _ "LBRACKET" hs (by intro k' v' r h; cases h; decide)
  obtain ⟨s2, h2, hs2, hi2, _⟩ := accept_same s1 "LPAREN" "(" _ hs1
  obtain ⟨s3, h3, hs3, hi3, _⟩ := peekType_spec s2 _ hs2
  obtain ⟨s4, s5, h4, h5, hs5, hi5⟩ := hargs s3 hs3 (by omega)
  obtain ⟨s6, h6, hs6, hi6⟩ := expect_same s5 "RPAREN" ")" rest hs5
  have hco1 := coordOf_node hf s5
  have hco := coordOf_node hn s6
  refine ⟨s6, hs6, by omega, ?_⟩
  show pPostfixLoop (run G) ev s = _
  simp [pPostfixLoop, bnd, h1, h2, h3, htr, h4, h5, hco1, h6, hco, pur, X.coordOfVal]


/-! ## the postfix level -/

theorem cps_id (x : String) : PostCPS env (.id x) := by
  intro hwf s rest F hs hF
  obtain ⟨F', rfl⟩ : ∃ F', F = F' + 2 := ⟨F - 2, by simp only [X.fuel] at hF; omega⟩
  obtain ⟨s1, hs1, hi1, heq⟩ := post_start F' s _ rest (idNode s.idx x) (s.idx + 1) hs ((flat_headsS hwf rfl).append rest)
    (fun s0 h0 hi0 => by
      obtain ⟨s1, h1, hs1, hi1⟩ := primary_id F' s0 x rest (by simpa [X.flat] using h0)
      exact ⟨s1, by rw [h1, hi0]; rfl, hs1, by omega⟩)
  exact ⟨s1, F' + 1, hs1, by simpa [X.ntoks] using hi1, by simp [X.sfx], by simpa [X.val] using heq⟩

theorem cps_const (k v t : String) : PostCPS env (.const k v t) := by
  intro hwf s rest F hs hF
  obtain ⟨F', rfl⟩ : ∃ F', F = F' + 2 := ⟨F - 2, by simp only [X.fuel] at hF; omega⟩
  have hc : constType k v = some t := by cases hwf with | const _ _ _ _ h => exact h
  obtain ⟨s1, hs1, hi1, heq⟩ := post_start F' s _ rest ((X.const k v t).val s.idx) (s.idx + 1) hs
    ((flat_headsS hwf rfl).append rest)
    (fun s0 h0 hi0 => by
      obtain ⟨s1, h1, hs1, hi1⟩ := primary_const F' s0 k v t rest (by simpa [X.flat] using h0) hc
      exact ⟨s1, by rw [h1, hi0]; rfl, hs1, by omega⟩)
  exact ⟨s1, F' + 1, hs1, by simpa [X.ntoks] using hi1, by simp [X.sfx], heq⟩

theorem cps_paren (e : X) (hx : XOK env e) : PostCPS env (.paren e) := by
  intro hwf s rest F hs hF
  obtain ⟨F', rfl⟩ : ∃ F', F = F' + 2 := ⟨F - 2, by simp only [X.fuel] at hF; have := fuel_ge e; omega⟩
  simp only [X.fuel] at hF
  have hw : WFX 0 e := by cases hwf with | paren _ _ h => exact h
  obtain ⟨s1, hs1, hi1, heq⟩ := post_start F' s _ rest (e.val (s.idx + 1)) (s.idx + 1 + e.ntoks + 1) hs
    ((flat_headsS hwf rfl).append rest)
    (fun s0 h0 hi0 => by
      have h0' : SeesT env s0 (("LPAREN", "(") :: (e.flat ++ ("RPAREN", ")") :: rest)) := by simpa [X.flat] using h0
      obtain ⟨s1, h1, hs1, hi1⟩ := ParenExpr.primary_paren F' s0 (e.val (s.idx + 1)) e.flat rest (s.idx + 1 + e.ntoks) h0'
        (fun sa ha hia => by
          obtain ⟨sb, hb, hsb, hib⟩ := hx hw sa ("RPAREN", ")") rest stopX_rparen ha F' (by omega)
          exact ⟨sb, by rw [hb, hia, hi0], hsb, by omega⟩)
      exact ⟨s1, h1, hs1, hi1⟩)
  exact ⟨s1, F' + 1, hs1, by simp only [X.ntoks]; omega, by simp [X.sfx], by simpa [X.val] using heq⟩

theorem cps_post (k v : String) (e : X) (ih : PostCPS env e) : PostCPS env (.post k v e) := by
  intro hwf s rest F hs hF
  cases hwf with
  | post _ _ _ _ _ hk hw =>
    simp only [X.fuel] at hF
    have hsf := sfx_fuel e
    have hs0 : SeesT env s (e.flat ++ (k, v) :: rest) := by simpa [X.flat] using hs
    obtain ⟨s1, G, hs1, hi1, hG, heq⟩ := ih hw s ((k, v) :: rest) F hs0 (by omega)
    obtain ⟨G', rfl⟩ : ∃ G', G = G' + 1 := ⟨G - 1, by omega⟩
    obtain ⟨s2, hs2, hi2, hstep⟩ := loop_incdec G' s1 (e.val s.idx) k v rest hs1 hk (val_isNode _ _)
    exact ⟨s2, G', hs2, by simp only [X.ntoks]; omega, by simp only [X.sfx]; omega, by rw [heq, hstep]; rfl⟩

theorem cps_member (k v : String) (e : X) (f : String) (ih : PostCPS env e) : PostCPS env (.member k v e f) := by
  intro hwf s rest F hs hF
  cases hwf with
  | member _ _ _ _ _ _ hk hw =>
    simp only [X.fuel] at hF
    have hsf := sfx_fuel e
    have hs0 : SeesT env s (e.flat ++ (k, v) :: ("ID", f) :: rest) := by simpa [X.flat] using hs
    obtain ⟨s1, G, hs1, hi1, hG, heq⟩ := ih hw s _ F hs0 (by omega)
    obtain ⟨G', rfl⟩ : ∃ G', G = G' + 1 := ⟨G - 1, by omega⟩
    obtain ⟨s2, hs2, hi2, hstep⟩ := loop_member G' s1 (e.val s.idx) k v f rest hs1 hk (val_isNode _ _)
    refine ⟨s2, G', hs2, by simp only [X.ntoks]; omega, by simp only [X.sfx]; omega, ?_⟩
    rw [heq, hstep, hi1]; rfl

theorem cps_call0 (e : X) (ih : PostCPS env e) : PostCPS env (.call0 e) := by
  intro hwf s rest F hs hF
  cases hwf with
  | call0 _ _ _ hw =>
    simp only [X.fuel] at hF
    have hsf := sfx_fuel e
    have hs0 : SeesT env s (e.flat ++ ("LPAREN", "(") :: ("RPAREN", ")") :: rest) := by simpa [X.flat] using hs
    obtain ⟨s1, G, hs1, hi1, hG, heq⟩ := ih hw s _ F hs0 (by omega)
    obtain ⟨G', rfl⟩ : ∃ G', G = G' + 1 := ⟨G - 1, by omega⟩
    obtain ⟨s2, hs2, hi2, hstep⟩ := loop_call0 G' s1 (e.val s.idx) rest hs1 (val_isNode _ _)
    exact ⟨s2, G', hs2, by simp only [X.ntoks]; omega, by simp only [X.sfx]; omega, by rw [heq, hstep]; rfl⟩

theorem cps_index (e i : X) (ih : PostCPS env e) (hx : XOK env i) : PostCPS env (.index e i) := by
  intro hwf s rest F hs hF
  cases hwf with
  | index _ _ _ _ hw hwi =>
    simp only [X.fuel] at hF
    have hsf := sfx_fuel e
    have hs0 : SeesT env s (e.flat ++ ("LBRACKET", "[") :: (i.flat ++ ("RBRACKET", "]") :: rest)) := by
      simpa [X.flat] using hs
    obtain ⟨s1, G, hs1, hi1, hG, heq⟩ := ih hw s _ F hs0 (by omega)
    obtain ⟨G', rfl⟩ : ∃ G', G = G' + 1 := ⟨G - 1, by omega⟩
    obtain ⟨s2, hs2, hi2, hstep⟩ := loop_index G' s1 (e.val s.idx) (i.val (s.idx + e.ntoks + 1)) i.flat rest
      (s.idx + e.ntoks + 1 + i.ntoks) hs1
      (fun sa ha hia => by
        obtain ⟨sb, hb, hsb, hib⟩ := hx hwi sa ("RBRACKET", "]") rest stopX_rbracket ha G' (by omega)
        exact ⟨sb, by rw [hb, hia, hi1], hsb, by omega⟩)
      (val_isNode _ _)
    exact ⟨s2, G', hs2, by simp only [X.ntoks]; omega, by simp only [X.sfx]; omega, by rw [heq, hstep]; rfl⟩

/-- a postfix expression does not begin with a cast -/
theorem headCast_14 {e : X} (h : WFX 14 e) : e.headCast = false := by
  generalize hL : 14 = L at h
  induction h with
  | id => rfl
  | const => rfl
  | paren => rfl
  | pre L k v e hL' _ _ _ _ => omega
  | szof L e hL' _ _ _ => omega
  | cast L tn e hL' _ _ _ => omega
  | szofT L tn hL' _ => omega
  | alignT L tn hL' _ => omega
  | post L k v e _ _ _ ih => exact ih rfl
  | index L e i _ _ _ ih _ => exact ih rfl
  | member L k v e f _ _ _ ih => exact ih rfl
  | call0 L f _ _ ih => exact ih rfl
  | call L f a _ _ _ ih _ => exact ih rfl
  | bin L p k v l r hp hL' _ _ _ _ => have := binPrec_le k p hp; omega
  | cond L c t f hL' _ _ _ _ _ _ => omega
  | assign L k v l r hL' _ _ _ _ _ => omega
  | comma a b _ _ _ _ => omega

/-- a unary-level expression begins with a cast only if it is one -/
theorem headCast_13 {e : X} (h : WFX 13 e) (hc : e.isCast = false) : e.headCast = false := by
  cases h with
  | id => rfl
  | const => rfl
  | paren => rfl
  | pre => rfl
  | szof => rfl
  | cast => simp [X.isCast] at hc
  | szofT => rfl
  | alignT => rfl
  | post _ _ _ _ _ _ h => simpa [X.headCast] using headCast_14 h
  | index _ _ _ _ h _ => simpa [X.headCast] using headCast_14 h
  | member _ _ _ _ _ _ _ h => simpa [X.headCast] using headCast_14 h
  | call0 _ _ _ h => simpa [X.headCast] using headCast_14 h
  | call _ _ _ _ h _ => simpa [X.headCast] using headCast_14 h
  | bin _ p _ _ _ _ hp hL => have := binPrec_le _ _ hp; omega
  | cond _ _ _ _ hL => omega
  | assign _ _ _ _ _ hL => omega

/-- the postfix entry point -/
theorem un_of_cps (e : X) (hw14 : WFX 14 e) (h : PostCPS env e) : OperandOK env .unaryExpression rfl e 6 := by
  intro s rest hfo hs F hF
  have hsf := sfx_fuel e
  obtain ⟨F', rfl⟩ : ∃ F', F = F' + 1 := ⟨F - 1, by omega⟩
  obtain ⟨t, r, hfl, ht⟩ := flat_head14 hw14
  have pf := primHeads_facts t.1 ht
  have hs0 : SeesT env s (t :: (r ++ rest)) := by simpa [hfl] using hs
  obtain ⟨s1, h1, hs1, hi1, _⟩ := peekType_spec s _ hs0
  have hs1' : SeesT env s1 (e.flat ++ rest) := by simpa [hfl] using hs1
  obtain ⟨s2, G, hs2, hi2, hG, heq⟩ := h hw14 s1 rest F' hs1' (by omega)
  obtain ⟨G', rfl⟩ : ∃ G', G = G' + 1 := ⟨G - 1, by omega⟩
  obtain ⟨s3, h3, hs3, hi3⟩ := postfixLoop_stop G' s2 (e.val s1.idx) rest hs2 hfo
  refine ⟨s3, ?_, hs3, by omega⟩
  rw [hi1] at heq h3
  show pUnaryExpression (run F') s = _
  simp [pUnaryExpression, bnd, h1, pf.2.1, pf.2.2.1, pf.2.2.2.1, pf.2.2.2.2, heq, h3]

theorem prefix_split : ∀ k ∈ prefixOps, inSet (some k) ["PLUSPLUS", "MINUSMINUS"] = true ∨
    (inSet (some k) ["PLUSPLUS", "MINUSMINUS"] = false ∧
      inSet (some k) ["AND", "TIMES", "PLUS", "MINUS", "NOT", "LNOT"] = true) := by decide

/-- a prefix operator -/
theorem un_pre (k v : String) (e : X) (hc : CastOK env e) (hu : UnOK env e) : UnOK env (.pre k v e) := by
  intro hwf _ s rest hfo hs F hF
  cases hwf with
  | pre _ _ _ _ _ hk hw hic =>
    simp only [X.fuel] at hF
    obtain ⟨F', rfl⟩ : ∃ F', F = F' + 1 := ⟨F - 1, by have := fuel_ge e; omega⟩
    have hs0 : SeesT env s ((k, v) :: (e.flat ++ rest)) := by simpa [X.flat] using hs
    obtain ⟨s1, h1, hs1, hi1, _⟩ := peekType_spec s _ hs0
    obtain ⟨s2, h2, hs2, _, hi2, _⟩ := advance_spec s1 k v _ hs1
    have e2 : s2.idx = s.idx + 1 := by omega
    rcases prefix_split k hk with hin | ⟨hn1, hin⟩
    · have hid : k ∈ incDec := by
        simp only [prefixOps, List.mem_cons, List.not_mem_nil, or_false] at hk
        rcases hk with rfl | rfl | rfl | rfl | rfl | rfl | rfl | rfl <;> first | decide | (simp [inSet] at hin)
      obtain ⟨s3, h3, hs3, hi3⟩ := hu hw (hic hid) s2 rest hfo hs2 F' (by omega)
      have hco := coordOf_val e (s.idx + 1) s3
      refine ⟨s3, ?_, hs3, by simp only [X.ntoks]; omega⟩
      rw [e2] at h3
      show pUnaryExpression (run F') s = _
      simp [pUnaryExpression, bnd, h1, hin, h2, h3, hco, pur, X.val]
    · obtain ⟨s3, h3, hs3, hi3⟩ := hc hw s2 rest hfo hs2 F' (by omega)
      have hco := coordOf_val e (s.idx + 1) s3
      refine ⟨s3, ?_, hs3, by simp only [X.ntoks]; omega⟩
      rw [e2] at h3
      show pUnaryExpression (run F') s = _
      simp [pUnaryExpression, bnd, h1, hn1, hin, h2, h3, hco, pur, X.val]

/-- `sizeof unary-expression` -/
theorem un_szof (e : X) (hu : UnOK env e) : UnOK env (.szof e) := by
  intro hwf _ s rest hfo hs F hF
  cases hwf with
  | szof _ _ _ hw hic =>
    simp only [X.fuel] at hF
    obtain ⟨F', rfl⟩ : ∃ F', F = F' + 2 := ⟨F - 2, by have := fuel_ge e; omega⟩
    have hs0 : SeesT env s (("SIZEOF", "sizeof") :: (e.flat ++ rest)) := by simpa [X.flat] using hs
    obtain ⟨s1, h1, hs1, hi1, _⟩ := peekType_spec s _ hs0
    obtain ⟨s2, h2, hs2, _, hi2, _⟩ := advance_spec s1 "SIZEOF" "sizeof" _ hs1
    obtain ⟨s3, h3, hs3, hi3⟩ := tryParen_expr F' s2 _ hs2 ((flat_headsS hw (headCast_13 hw hic)).append rest)
    have e3 : s3.idx = s.idx + 1 := by omega
    obtain ⟨s4, h4, hs4, hi4⟩ := hu hw hic s3 rest hfo hs3 (F' + 1) (by omega)
    refine ⟨s4, ?_, hs4, by simp only [X.ntoks]; omega⟩
    rw [e3] at h4
    show pUnaryExpression (run (F' + 1)) s = _
    simp [pUnaryExpression, bnd, h1, inSet, h2, h3, h4, tokCoord, pur, X.val, tc, hi1]

/-- `_parse_cast_expression` on an expression without a cast -/
theorem cast_of_un (e : X) (hic : e.isCast = false) (hu : UnOK env e) : CastOK env e := by
  intro hwf s rest hfo hs F hF
  obtain ⟨F', rfl⟩ : ∃ F', F = F' + 2 := ⟨F - 2, by have := fuel_ge e; omega⟩
  obtain ⟨s1, h1, hs1, hi1⟩ := tryParen_expr F' s _ hs ((flat_headsS hwf (headCast_13 hwf hic)).append rest)
  obtain ⟨s2, h2, hs2, hi2⟩ := hu hwf hic s1 rest hfo hs1 (F' + 1) (by omega)
  refine ⟨s2, ?_, hs2, by omega⟩
  rw [hi1] at h2
  show pCastExpression (run (F' + 1)) s = _
  simp [pCastExpression, bnd, h1, h2]


/-- **a cast**: `( type-name ) cast-expression` - casts nest to the right -/
theorem cast_cast (tn : TN) (e : X) (hc : CastOK env e) : CastOK env (.cast tn e) := by
  intro hwf s rest hfo hs F hF
  cases hwf with
  | cast _ _ _ _ hwt hwe =>
    simp only [X.fuel] at hF
    obtain ⟨F', rfl⟩ : ∃ F', F = F' + 1 := ⟨F - 1, by omega⟩
    have hs0 : SeesT env s (("LPAREN", "(") :: (tn.flat ++ ("RPAREN", ")") :: (e.flat ++ rest))) := by
      simpa [X.flat, List.append_assoc] using hs
    obtain ⟨s1, h1, hs1, hi1⟩ := tryParen_type tn hwt s "(" ")" _ hs0 F' (by omega)
    obtain ⟨t, r, hfl, ht, _⟩ := flat_heads hwe
    have hs1' : SeesT env s1 (t :: (r ++ rest)) := by simpa [hfl] using hs1
    obtain ⟨s2, h2, hs2, hi2, _⟩ := peekType_spec s1 _ hs1'
    have hs2' : SeesT env s2 (e.flat ++ rest) := by simpa [hfl] using hs2
    obtain ⟨s3, h3, hs3, hi3⟩ := hc hwe s2 rest hfo hs2' F' (by omega)
    refine ⟨s3, ?_, hs3, by simp only [X.ntoks]; omega⟩
    have e2 : s2.idx = s.idx + tn.ntoks + 2 := by omega
    rw [e2] at h3
    have hnb : t.1 ≠ "LBRACE" := (heads_facts _ ht).2.2.1
    show pCastExpression (run F') s = _
    simp [pCastExpression, bnd, h1, h2, hnb, h3, tokCoord, pur, X.val, tc]

/-- **`sizeof ( type-name )`** -/
theorem un_szofT (tn : TN) : UnOK env (.szofT tn) := by
  intro hwf _ s rest hfo hs F hF
  cases hwf with
  | szofT _ _ _ hwt =>
    simp only [X.fuel] at hF
    obtain ⟨F', rfl⟩ : ∃ F', F = F' + 1 := ⟨F - 1, by omega⟩
    have hs0 : SeesT env s (("SIZEOF", "sizeof") :: ("LPAREN", "(") :: (tn.flat ++ ("RPAREN", ")") :: rest)) := by
      simpa [X.flat, List.append_assoc] using hs
    obtain ⟨s1, h1, hs1, hi1, _⟩ := peekType_spec s _ hs0
    obtain ⟨s2, h2, hs2, _, hi2, _⟩ := advance_spec s1 "SIZEOF" "sizeof" _ hs1
    obtain ⟨s3, h3, hs3, hi3⟩ := tryParen_type tn hwt s2 "(" ")" rest hs2 F' (by omega)
    obtain ⟨s4, h4, hs4, hi4, _⟩ := peekType_spec s3 _ hs3
    refine ⟨s4, ?_, hs4, by simp only [X.ntoks]; omega⟩
    have e2 : s2.idx = s.idx + 1 := by omega
    rw [e2] at h3
    have hnb : rest.head?.map (·.1) ≠ some "LBRACE" := by
      cases rest with
      | nil => simp
      | cons t r =>
        have := hfo t.1 t.2 r rfl
        simp only [postfixStarters, List.mem_cons, List.not_mem_nil, or_false, not_or] at this
        simpa using this.2.2.2.2.2.2
    have e22 : s.idx + 1 + 1 = s.idx + 2 := rfl
    rw [e22] at h3
    show pUnaryExpression (run F') s = _
    simp [pUnaryExpression, bnd, h1, inSet, h2, h3, h4, hnb, tokCoord, pur, X.val, tc, hi1]

/-- **`_Alignof ( type-name )`** -/
theorem un_alignT (tn : TN) : UnOK env (.alignT tn) := by
  intro hwf _ s rest hfo hs F hF
  cases hwf with
  | alignT _ _ _ hwt =>
    simp only [X.fuel] at hF
    obtain ⟨F', rfl⟩ : ∃ F', F = F' + 1 := ⟨F - 1, by omega⟩
    have hs0 : SeesT env s (("_ALIGNOF", "_Alignof") :: ("LPAREN", "(") :: (tn.flat ++ ("RPAREN", ")") :: rest)) := by
      simpa [X.flat, List.append_assoc] using hs
    obtain ⟨s1, h1, hs1, hi1, _⟩ := peekType_spec s _ hs0
    obtain ⟨s2, h2, hs2, _, hi2, _⟩ := advance_spec s1 "_ALIGNOF" "_Alignof" _ hs1
    obtain ⟨s3, h3, hs3, hi3⟩ := expect_same s2 "LPAREN" "(" _ hs2
    obtain ⟨s4, h4, hs4, hi4⟩ := TypeName.typeName_ok tn hwt s3 ")" rest hs3 F' (by omega)
    obtain ⟨s5, h5, hs5, hi5⟩ := expect_same s4 "RPAREN" ")" rest hs4
    refine ⟨s5, ?_, hs5, by simp only [X.ntoks]; omega⟩
    have e3 : s3.idx = s.idx + 2 := by omega
    rw [e3] at h4
    show pUnaryExpression (run F') s = _
    simp [pUnaryExpression, bnd, h1, inSet, h2, h3, h4, h5, tokCoord, pur, X.val, tc, hi1]

/-! ## the binary layer -/

/-- a leaf of a binary-operator tree that is derivable at a binary level is a unary expression -/
theorem lift_leaf {e : X} {m : Nat} (hb : e.isBin = false) (h : WFX (3 + m) e) : WFX 13 e := by
  generalize hL : 3 + m = L at h
  cases h with
  | id => exact .id _ _
  | const _ _ _ _ h => exact .const _ _ _ _ h
  | paren _ _ h => exact .paren _ _ h
  | pre _ _ _ _ _ hk h hc => exact .pre _ _ _ _ (by omega) hk h hc
  | szof _ _ _ h hc => exact .szof _ _ (by omega) h hc
  | cast _ _ _ _ ht h => exact .cast _ _ _ (by omega) ht h
  | szofT _ _ _ ht => exact .szofT _ _ (by omega) ht
  | alignT _ _ _ ht => exact .alignT _ _ (by omega) ht
  | post _ _ _ _ _ hk h => exact .post _ _ _ _ (by omega) hk h
  | index _ _ _ _ h1 h2 => exact .index _ _ _ (by omega) h1 h2
  | member _ _ _ _ _ _ hk h => exact .member _ _ _ _ _ (by omega) hk h
  | call0 _ _ _ h => exact .call0 _ _ (by omega) h
  | call _ _ _ _ h1 h2 => exact .call _ _ _ (by omega) h1 h2
  | bin => simp [X.isBin] at hb
  | cond _ _ _ _ h => omega
  | assign _ _ _ _ _ h => omega
  | comma => omega

/-- operands of the binary layer: any unary expression for which the operand entry point is correct -/
def Op (env : Env) (n : Nat) (a : Val) (ta : List Tk) (fa : Nat) : Prop :=
  ∃ e : X, WFX 13 e ∧ ta = e.flat ∧ a = e.val n ∧ fa = e.fuel - 5 ∧ CastOK env e

theorem operand_spec : OperandSpec env (Op env) FollowOp := by
  intro fuel s a ta fa rest hfuel hop hfo hs
  obtain ⟨e, hwf, rfl, rfl, rfl, hok⟩ := hop
  obtain ⟨s', hr, hs', hi⟩ := hok hwf s rest hfo hs fuel (by omega)
  exact ⟨s', hr, hs', by rw [flat_length]; exact hi⟩

/-- the operands of the binary-operator tree rooted at `e` satisfy the theorem -/
def LeafOK (env : Env) : X → Prop
  | .bin _ _ l r => LeafOK env l ∧ LeafOK env r
  | e => CastOK env e

theorem leafOK_leaf (e : X) (hb : e.isBin = false) : LeafOK env e = CastOK env e := by
  cases e <;> first | rfl | simp [X.isBin] at hb

theorem denotes_tks (f0 : Nat) : ∀ (n : Nat) (l : List Tk),
    Denotes (Op env) FollowOp f0 n (l.map fun t => PT.tk t.1 t.2) l
  | n, [] => .nil n
  | n, (k, v) :: l => .tk n k v _ _ (denotes_tks f0 (n + 1) l)

theorem denotes_tks_inv (f0 : Nat) : ∀ (n : Nat) (l toks : List Tk),
    Denotes (Op env) FollowOp f0 n (l.map fun t => PT.tk t.1 t.2) toks → toks = l
  | n, [], toks, h => by cases h; rfl
  | n, (k, v) :: l, toks, h => by
    cases h with
    | tk _ _ _ _ toks' h' => rw [denotes_tks_inv f0 (n + 1) l toks' h']

theorem denotes_leaf (f0 : Nat) (e : X) (m n : Nat) (ts : List PT) (toks : List Tk) (hb : e.isBin = false)
    (hwf : WFX (3 + m) e) (hok : LeafOK env e) (hf0 : e.opFuel ≤ f0) (hf : FollowOp toks)
    (hd : Denotes (Op env) FollowOp f0 (n + e.ntoks) ts toks) :
    Denotes (Op env) FollowOp f0 n ((e.toBT n).toks ++ ts) (e.flat ++ toks) := by
  rw [toBT_leaf e n hb]
  rw [leafOK_leaf e hb] at hok
  rw [opFuel_leaf e hb] at hf0
  simp only [BT.toks, List.cons_append, List.nil_append]
  exact .atom n _ e.flat (e.fuel - 5) ts toks ⟨e, lift_leaf hb hwf, rfl, rfl, rfl, hok⟩ hf0 hf
    (by rw [flat_length]; exact hd)

theorem denotes_tree (f0 : Nat) (e : X) : ∀ (m n : Nat) (ts : List PT) (toks : List Tk),
    WFX (3 + m) e → LeafOK env e → e.opFuel ≤ f0 → FollowOp toks → Denotes (Op env) FollowOp f0 (n + e.ntoks) ts toks →
    Denotes (Op env) FollowOp f0 n ((e.toBT n).toks ++ ts) (e.flat ++ toks) := by
  induction e with
  | bin k v l r ihl ihr =>
    intro m n ts toks hwf hok hf0 hf hd
    generalize hL : 3 + m = L at hwf
    cases hwf with
    | bin _ p _ _ _ _ hp _ hl hr =>
      have hfl : l.opFuel ≤ f0 := Nat.le_trans (Nat.le_max_left _ _) hf0
      have hfr : r.opFuel ≤ f0 := Nat.le_trans (Nat.le_max_right _ _) hf0
      have h1 := ihr (p + 1) (n + l.ntoks + 1) ts toks (by simpa [Nat.add_assoc] using hr) hok.2 hfr hf
        (by simpa [X.ntoks, Nat.add_assoc, Nat.add_comm, Nat.add_left_comm] using hd)
      have h2 : Denotes (Op env) FollowOp f0 (n + l.ntoks) (PT.tk k v :: ((r.toBT (n + l.ntoks + 1)).toks ++ ts))
          ((k, v) :: (r.flat ++ toks)) := .tk _ k v _ _ h1
      have hfo : FollowOp ((k, v) :: (r.flat ++ toks)) := by
        intro k' v' r' heq
        simp only [List.cons.injEq, Prod.mk.injEq] at heq
        rw [← heq.1.1]
        exact ParenExpr.binop_not_postfix k p hp
      have h3 := ihl p n _ _ hl hok.1 hfl hfo h2
      simpa [X.toBT, BT.toks, X.flat, List.append_assoc] using h3
  | _ => intro m n ts toks hwf hok hf0 hf hd; exact denotes_leaf f0 _ m n ts toks rfl hwf hok hf0 hf hd

/-- the binary layer, given the theorem for the operands -/
theorem bok_of_leaves (e : X) (hl : LeafOK env e) : BOK env e := by
  intro m hwf s stop rest hstop hs F hF
  let k : List PT := (stop :: rest).map fun t => PT.tk t.1 t.2
  have hk : StopAt binPrec m k := by
    refine ⟨?_, ?_⟩
    · intro kk v r p heq hp
      simp only [k, List.map_cons, List.cons.injEq, PT.tk.injEq] at heq
      rw [← heq.1.1, hstop.1] at hp; cases hp
    · intro a r heq; simp [k] at heq
  have hkt : ∀ x ∈ k, PTok' x := by
    intro x hx
    simp only [k, List.mem_map] at hx
    obtain ⟨t, _, rfl⟩ := hx
    trivial
  have hfo : FollowOp (stop :: rest) := by
    intro k' v' r' heq
    simp only [List.cons.injEq] at heq
    have := hstop.2
    rw [heq.1] at this; exact this
  have hd := denotes_tree e.opFuel e m s.idx k (stop :: rest) hwf hl (Nat.le_refl _) hfo (denotes_tks _ _ _)
  let N := s.idx + (e.flat ++ stop :: rest).length
  have hfb := fuelB_le e
  obtain ⟨s', hr, toks, hs', hd', hN⟩ := binary_expression_parses_grammar_tree
    (iface env (Op env) FollowOp e.opFuel N operand_spec) (e.toBT s.idx) m (wf_toBT e m _ hwf) (nodes_toBT e _)
    k hk hkt s ⟨_, hs, hd, rfl⟩ F (by rw [btSize_toBT]; omega)
  have := denotes_tks_inv _ _ _ _ hd'
  subst this
  refine ⟨s', by rw [hr, toVal_toBT], hs', ?_⟩
  simp only [N, List.length_append, flat_length, List.length_cons] at hN
  omega


/-! ## the upper levels -/

theorem second_of_heads {l : List Tk} (h : HeadsOK l) : ∃ t1 r1, l = t1 :: r1 ∧
    (t1.1 ≠ "LPAREN" ∨ ∃ t2 r2, r1 = t2 :: r2 ∧ t2.1 ≠ "LBRACE") := by
  obtain ⟨t, r, rfl, _, h2⟩ := h
  refine ⟨t, r, rfl, ?_⟩
  by_cases hl : t.1 = "LPAREN"
  · obtain ⟨t2, r2, rfl, ht2⟩ := h2 hl
    rcases ht2 with ht2 | ht2
    · exact .inr ⟨t2, r2, rfl, (heads_facts _ ht2).2.2.1⟩
    · exact .inr ⟨t2, r2, rfl, (tnHeads_facts _ ht2).1⟩
  · exact .inl hl

/-- the statement-expression test `({` of `_parse_assignment_expression` is false on an expression -/
theorem stmtexpr_test_false (s : PState) (toks : List Tk) (hs : SeesT env s toks)
    (hhead : ∃ t1 r1, toks = t1 :: r1 ∧ (t1.1 ≠ "LPAREN" ∨ ∃ t2 r2, r1 = t2 :: r2 ∧ t2.1 ≠ "LBRACE")) :
    ∃ sb, andM (peekIs "LPAREN") (peek2Is "LBRACE") s = .ok false sb ∧ SeesT env sb toks ∧ sb.idx = s.idx := by
  obtain ⟨t1, r1, rfl, hsecond⟩ := hhead
  obtain ⟨sa, ha, hsa, hia, _⟩ := peekType_spec s _ hs
  by_cases hl : t1.1 = "LPAREN"
  · rcases hsecond with h | ⟨t2, r2, rfl, hne⟩
    · exact absurd hl h
    · obtain ⟨sb, hb, hsb, _, hib, _⟩ := peekK_spec 1 sa (t1 :: t2 :: r2) t2 hsa rfl
      refine ⟨sb, ?_, hsb, by omega⟩
      simp [andM, peekIs, peek2Is, peekType2, bnd, ha, hl, hb, pur, hne]
  · refine ⟨sa, ?_, hsa, hia⟩
    simp [andM, peekIs, bnd, ha, hl, pur]

theorem assignOp_stop (k : String) (h : k ∈ assignmentOps) :
    StopC k ∧ inSet (some k) assignmentOps = true := by
  simp only [assignmentOps, List.mem_cons, List.mem_nil_iff, or_false] at h
  rcases h with rfl | rfl | rfl | rfl | rfl | rfl | rfl | rfl | rfl | rfl | rfl <;>
    exact ⟨⟨⟨by decide, by decide⟩, by decide⟩, by decide⟩

theorem stopB_condop : StopB "CONDOP" := ⟨by decide, by decide⟩
theorem stopX_colon : StopX "COLON" := ⟨⟨⟨⟨by decide, by decide⟩, by decide⟩, by decide⟩, by decide⟩
theorem stopA_comma : StopA "COMMA" := ⟨⟨⟨by decide, by decide⟩, by decide⟩, by decide⟩

/-- conditional level, for an expression that is not itself a `?:` -/
theorem cok_of_bok (e : X) (hb : BOK env e) (hw3 : WFX 2 e → WFX 3 e) : COK env e := by
  intro hwf s stop rest hstop hs F hF
  obtain ⟨G, rfl⟩ : ∃ G, F = G + 1 := ⟨F - 1, by have := fuel_ge e; omega⟩
  obtain ⟨s1, h1, hs1, hi1⟩ := hb 0 (hw3 hwf) s stop rest hstop.1 hs G (by omega)
  obtain ⟨s2, h2, hs2, hi2⟩ := cond_through G s s1 _ _ h1 hs1
    (by intro k w r h; simp only [List.cons.injEq] at h; have := hstop.2; rw [h.1] at this; exact this)
  exact ⟨s2, h2, hs2, by omega⟩

/-- assignment level, for an expression that is not itself an assignment -/
theorem aok_of_cok (e : X) (hc : COK env e) (hw2 : WFX 1 e → WFX 2 e) : AOK env e := by
  intro hwf s stop rest hstop hs F hF
  obtain ⟨G, rfl⟩ : ∃ G, F = G + 1 := ⟨F - 1, by have := fuel_ge e; omega⟩
  refine assign_through G s _ (e.flat ++ stop :: rest) _ _ hs
    (second_of_heads ((flat_heads hwf).append _)) ?_ (by simpa using hstop.2)
  intro s0 h0 hi0
  obtain ⟨s1, h1, hs1, hi1⟩ := hc (hw2 hwf) s0 stop rest hstop.1 h0 G (by omega)
  exact ⟨s1, by rw [h1, hi0], hs1, by omega⟩

/-- expression level, for an expression that is not itself a comma expression -/
theorem xok_of_aok (e : X) (ha : AOK env e) (hw1 : WFX 0 e → WFX 1 e) : XOK env e := by
  intro hwf s stop rest hstop hs F hF
  obtain ⟨G, rfl⟩ : ∃ G, F = G + 1 := ⟨F - 1, by have := fuel_ge e; omega⟩
  refine expr_through G s _ _ _ ?_ (by intro k w r h; simp only [List.cons.injEq] at h; have := hstop.2; rw [h.1] at this; exact this)
  obtain ⟨s1, h1, hs1, hi1⟩ := ha (hw1 hwf) s stop rest hstop.1 hs G (by omega)
  exact ⟨s1, h1, hs1, hi1⟩


/-- `c ? t : f` -/
theorem cok_cond (c t f : X) (hc : BOK env c) (ht : XOK env t) (hf : COK env f) : COK env (.cond c t f) := by
  intro hwf s stop rest hstop hs F hF
  cases hwf with
  | cond _ _ _ _ _ hwc hwt hwf' =>
    obtain ⟨G, rfl⟩ : ∃ G, F = G + 1 := ⟨F - 1, by simp only [X.fuel] at hF; omega⟩
    simp only [X.fuel] at hF
    have hs0 : SeesT env s (c.flat ++ ("CONDOP", "?") :: (t.flat ++ ("COLON", ":") :: (f.flat ++ stop :: rest))) := by
      simpa [X.flat, List.append_assoc] using hs
    obtain ⟨s1, h1, hs1, hi1⟩ := hc 0 hwc s ("CONDOP", "?") _ stopB_condop hs0 G (by omega)
    obtain ⟨s2, h2, hs2, hi2, _⟩ := accept_same s1 "CONDOP" "?" _ hs1
    obtain ⟨s3, h3, hs3, hi3⟩ := ht hwt s2 ("COLON", ":") _ stopX_colon hs2 G (by omega)
    obtain ⟨s4, h4, hs4, hi4⟩ := expect_same s3 "COLON" ":" _ hs3
    obtain ⟨s5, h5, hs5, hi5⟩ := hf hwf' s4 stop rest hstop hs4 G (by omega)
    refine ⟨s5, ?_, hs5, by simp only [X.ntoks]; omega⟩
    have hco := coordOf_val c s.idx s5
    have e2 : s2.idx = s.idx + c.ntoks + 1 := by omega
    have e4 : s4.idx = s.idx + c.ntoks + 1 + t.ntoks + 1 := by omega
    rw [e2] at h3; rw [e4] at h5
    show pConditionalExpression (run G) s = _
    simp only [pConditionalExpression, bnd, h1, h2, h3, h4, h5, hco, pur, X.val]

/-- `l op= r` -/
theorem aok_assign (k v : String) (l r : X) (hl : COK env l) (hr : AOK env r) : AOK env (.assign k v l r) := by
  intro hwf s stop rest hstop hs F hF
  cases hwf with
  | assign _ _ _ _ _ _ hk hwl hwr =>
    obtain ⟨G, rfl⟩ : ∃ G, F = G + 1 := ⟨F - 1, by simp only [X.fuel] at hF; omega⟩
    simp only [X.fuel] at hF
    obtain ⟨hstopk, hin⟩ := assignOp_stop k hk
    have hs0 : SeesT env s (l.flat ++ (k, v) :: (r.flat ++ stop :: rest)) := by
      simpa [X.flat, List.append_assoc] using hs
    obtain ⟨sb, hb, hsb, hib⟩ := stmtexpr_test_false s _ hs0 (second_of_heads ((flat_heads hwl).append _))
    obtain ⟨s1, h1, hs1, hi1⟩ := hl (hwl.weaken (by omega)) sb (k, v) _ hstopk hsb G (by omega)
    obtain ⟨s2, h2, hs2, hi2, _⟩ := peekType_spec s1 _ hs1
    obtain ⟨s3, h3, hs3, _, hi3, _⟩ := advance_spec s2 k v _ hs2
    obtain ⟨s4, h4, hs4, hi4⟩ := hr hwr s3 stop rest hstop hs3 G (by omega)
    refine ⟨s4, ?_, hs4, by simp only [X.ntoks]; omega⟩
    have hco := coordOf_val l s.idx s4
    have e3 : s3.idx = s.idx + l.ntoks + 1 := by omega
    rw [hib] at h1; rw [e3] at h4
    show pAssignmentExpression (run G) s = _
    simp [pAssignmentExpression, bnd, hb, h1, h2, h3, h4, hco, pur, X.val, hin]


/-! ## comma expressions and argument lists -/

theorem flat_first (e : X) : e.flat = e.first.flat ++ e.restToks := by
  cases e <;> simp [X.first, X.restToks, X.flat]

theorem ntoks_first (e : X) : e.ntoks = e.first.ntoks + e.restToks.length := by
  cases e <;> simp [X.first, X.restToks, X.ntoks, flat_length]
  omega

theorem fuel_first (e : X) : e.first.fuel ≤ e.fuel := by
  cases e <;> simp only [X.first, X.fuel, Nat.le_refl]
  omega

theorem wf_first {e : X} (h : WFX 0 e) : WFX 1 e.first := by
  cases h with
  | comma _ _ ha _ => exact ha
  | id => exact .id _ _
  | const _ _ _ _ h => exact .const _ _ _ _ h
  | paren _ _ h => exact .paren _ _ h
  | pre _ _ _ _ _ hk h hc => exact .pre _ _ _ _ (by omega) hk h hc
  | szof _ _ _ h hc => exact .szof _ _ (by omega) h hc
  | cast _ _ _ _ ht h => exact .cast _ _ _ (by omega) ht h
  | szofT _ _ _ ht => exact .szofT _ _ (by omega) ht
  | alignT _ _ _ ht => exact .alignT _ _ (by omega) ht
  | post _ _ _ _ _ hk h => exact .post _ _ _ _ (by omega) hk h
  | index _ _ _ _ h1 h2 => exact .index _ _ _ (by omega) h1 h2
  | member _ _ _ _ _ _ hk h => exact .member _ _ _ _ _ (by omega) hk h
  | call0 _ _ _ h => exact .call0 _ _ (by omega) h
  | call _ _ _ _ h1 h2 => exact .call _ _ _ (by omega) h1 h2
  | bin _ p _ _ _ _ hp _ hl hr => exact .bin _ p _ _ _ _ hp (by omega) hl hr
  | cond _ _ _ _ _ a b c => exact .cond _ _ _ _ (by omega) a b c
  | assign _ _ _ _ _ _ a b c => exact .assign _ _ _ _ _ (by omega) a b c

/-- what follows the first operand: a comma, or the stop token of the whole expression -/
theorem rest_head (e : X) (stop : Tk) (rest : List Tk) (hstop : StopX stop.1) :
    ∃ t r, e.restToks ++ stop :: rest = t :: r ∧ StopA t.1 := by
  cases e with
  | comma a b => exact ⟨("COMMA", ","), _, rfl, stopA_comma⟩
  | _ => exact ⟨stop, rest, rfl, hstop.1⟩

/-- the loop of `_parse_expression` after the first operand of `e` has been consumed -/
def LoopOK (env : Env) (e : X) : Prop :=
  ∀ (acc : List Val) (s : PState) (stop : Tk) (rest : List Tk) (n0 : Nat), WFX 0 e → StopX stop.1 →
    SeesT env s (e.restToks ++ stop :: rest) → s.idx = n0 + e.first.ntoks →
    ∀ F, e.fuel ≤ F + 1 → ∃ s', run F (.exprListLoop acc) s = .ok (acc ++ e.restItems n0) s' ∧
      SeesT env s' (stop :: rest) ∧ s'.idx = n0 + e.ntoks

/-- the loop of `_parse_argument_expression_list` after the first argument has been consumed -/
def ArgLoopOK (env : Env) (e : X) : Prop :=
  ∀ (acc : List Val) (s : PState) (stop : Tk) (rest : List Tk) (n0 : Nat), WFX 0 e → StopX stop.1 →
    SeesT env s (e.restToks ++ stop :: rest) → s.idx = n0 + e.first.ntoks →
    ∀ F, e.fuel ≤ F + 1 → ∃ s', run F (.argListLoop acc) s = .ok (acc ++ e.restItems n0) s' ∧
      SeesT env s' (stop :: rest) ∧ s'.idx = n0 + e.ntoks

theorem loop_single (e : X) (hnc : e.restToks = []) (hri : ∀ n, e.restItems n = []) (hf : e.first = e) : LoopOK env e := by
  intro acc s stop rest n0 _ hstop hs hi F hF
  obtain ⟨G, rfl⟩ : ∃ G, F = G + 1 := ⟨F - 1, by have := fuel_ge e; omega⟩
  rw [hnc] at hs
  obtain ⟨s1, h1, hs1, hi1⟩ := accept_other s _ "COMMA" hs
    (by intro k w r h; simp only [List.nil_append, List.cons.injEq] at h; have := hstop.2; rw [h.1] at this; exact this)
  refine ⟨s1, ?_, by simpa using hs1, by rw [hi1, hi, hf]⟩
  show pExprListLoop (run G) acc s = _
  simp [pExprListLoop, bnd, h1, pur, hri]

theorem argloop_single (e : X) (hnc : e.restToks = []) (hri : ∀ n, e.restItems n = []) (hf : e.first = e) : ArgLoopOK env e := by
  intro acc s stop rest n0 _ hstop hs hi F hF
  obtain ⟨G, rfl⟩ : ∃ G, F = G + 1 := ⟨F - 1, by have := fuel_ge e; omega⟩
  rw [hnc] at hs
  obtain ⟨s1, h1, hs1, hi1⟩ := accept_other s _ "COMMA" hs
    (by intro k w r h; simp only [List.nil_append, List.cons.injEq] at h; have := hstop.2; rw [h.1] at this; exact this)
  refine ⟨s1, ?_, by simpa using hs1, by rw [hi1, hi, hf]⟩
  show pArgListLoop (run G) acc s = _
  simp [pArgListLoop, bnd, h1, pur, hri]

theorem loop_comma (a b : X) (hfb : AOK env b.first) (hlb : LoopOK env b) : LoopOK env (.comma a b) := by
  intro acc s stop rest n0 hwf hstop hs hi F hF
  cases hwf with
  | comma _ _ hwa hwb =>
    obtain ⟨G, rfl⟩ : ∃ G, F = G + 1 := ⟨F - 1, by simp only [X.fuel] at hF; have := fuel_ge b; omega⟩
    simp only [X.fuel] at hF
    have hff := fuel_first b
    have hs0 : SeesT env s (("COMMA", ",") :: (b.first.flat ++ (b.restToks ++ stop :: rest))) := by
      have := flat_first b
      simpa [X.restToks, this, List.append_assoc] using hs
    obtain ⟨s1, h1, hs1, hi1, _⟩ := accept_same s "COMMA" "," _ hs0
    obtain ⟨t, r, hhd, hst⟩ := rest_head b stop rest hstop
    rw [hhd] at hs1
    obtain ⟨s2, h2, hs2, hi2⟩ := hfb (wf_first hwb) s1 t r hst hs1 G (by omega)
    rw [← hhd] at hs2
    simp only [X.first] at hi
    obtain ⟨s3, h3, hs3, hi3⟩ := hlb (acc ++ [b.first.val s1.idx]) s2 stop rest (n0 + a.ntoks + 1) hwb hstop hs2
      (by omega) G (by omega)
    refine ⟨s3, ?_, hs3, by simp only [X.ntoks]; omega⟩
    have e1 : s1.idx = n0 + a.ntoks + 1 := by omega
    rw [e1] at h2 h3
    have hitems : (X.comma a b).restItems n0 =
        b.first.val (n0 + a.ntoks + 1) :: b.restItems (n0 + a.ntoks + 1) := by
      simp only [X.restItems]; exact items_eq b _
    show pExprListLoop (run G) acc s = _
    simp only [pExprListLoop, bnd, h1, h2, h3, pur, hitems]
    simp

theorem argloop_comma (a b : X) (hfb : AOK env b.first) (hlb : ArgLoopOK env b) : ArgLoopOK env (.comma a b) := by
  intro acc s stop rest n0 hwf hstop hs hi F hF
  cases hwf with
  | comma _ _ hwa hwb =>
    obtain ⟨G, rfl⟩ : ∃ G, F = G + 1 := ⟨F - 1, by simp only [X.fuel] at hF; have := fuel_ge b; omega⟩
    simp only [X.fuel] at hF
    have hff := fuel_first b
    have hs0 : SeesT env s (("COMMA", ",") :: (b.first.flat ++ (b.restToks ++ stop :: rest))) := by
      have := flat_first b
      simpa [X.restToks, this, List.append_assoc] using hs
    obtain ⟨s1, h1, hs1, hi1, _⟩ := accept_same s "COMMA" "," _ hs0
    obtain ⟨t, r, hhd, hst⟩ := rest_head b stop rest hstop
    rw [hhd] at hs1
    obtain ⟨s2, h2, hs2, hi2⟩ := hfb (wf_first hwb) s1 t r hst hs1 G (by omega)
    rw [← hhd] at hs2
    simp only [X.first] at hi
    obtain ⟨s3, h3, hs3, hi3⟩ := hlb (acc ++ [b.first.val s1.idx]) s2 stop rest (n0 + a.ntoks + 1) hwb hstop hs2
      (by omega) G (by omega)
    refine ⟨s3, ?_, hs3, by simp only [X.ntoks]; omega⟩
    have e1 : s1.idx = n0 + a.ntoks + 1 := by omega
    rw [e1] at h2 h3
    have hitems : (X.comma a b).restItems n0 =
        b.first.val (n0 + a.ntoks + 1) :: b.restItems (n0 + a.ntoks + 1) := by
      simp only [X.restItems]; exact items_eq b _
    show pArgListLoop (run G) acc s = _
    simp only [pArgListLoop, bnd, h1, h2, h3, pur, hitems]
    simp

/-- `a , b` -/
theorem xok_comma (a b : X) (ha : AOK env a) (hfb : AOK env b.first) (hlb : LoopOK env b) : XOK env (.comma a b) := by
  intro hwf s stop rest hstop hs F hF
  cases hwf with
  | comma _ _ hwa hwb =>
    obtain ⟨G, rfl⟩ : ∃ G, F = G + 1 := ⟨F - 1, by simp only [X.fuel] at hF; have := fuel_ge b; omega⟩
    simp only [X.fuel] at hF
    have hff := fuel_first b
    have hs0 : SeesT env s (a.flat ++ ("COMMA", ",") :: (b.first.flat ++ (b.restToks ++ stop :: rest))) := by
      have := flat_first b
      simpa [X.flat, this, List.append_assoc] using hs
    obtain ⟨s1, h1, hs1, hi1⟩ := ha hwa s ("COMMA", ",") _ stopA_comma hs0 G (by omega)
    obtain ⟨s2, h2, hs2, hi2, _⟩ := accept_same s1 "COMMA" "," _ hs1
    obtain ⟨t, r, hhd, hst⟩ := rest_head b stop rest hstop
    rw [hhd] at hs2
    obtain ⟨s3, h3, hs3, hi3⟩ := hfb (wf_first hwb) s2 t r hst hs2 G (by omega)
    rw [← hhd] at hs3
    obtain ⟨s4, h4, hs4, hi4⟩ := hlb [a.val s.idx, b.first.val s2.idx] s3 stop rest (s.idx + a.ntoks + 1) hwb hstop hs3
      (by omega) G (by omega)
    refine ⟨s4, ?_, hs4, by simp only [X.ntoks]; omega⟩
    have hco := coordOf_val a s.idx s4
    have e2 : s2.idx = s.idx + a.ntoks + 1 := by omega
    rw [e2] at h3 h4
    have hitems : X.items (s.idx + a.ntoks + 1) b =
        b.first.val (s.idx + a.ntoks + 1) :: b.restItems (s.idx + a.ntoks + 1) := items_eq b _
    show pExpression (run G) s = _
    simp only [pExpression, bnd, h1, h2, h3, h4, hco, pur, X.val, hitems]
    simp

/-- `f ( arguments )` -/
theorem cps_call (f a : X) (ih : PostCPS env f) (hfa : AOK env a.first) (hla : ArgLoopOK env a) : PostCPS env (.call f a) := by
  intro hwf s rest F hs hF
  cases hwf with
  | call _ _ _ _ hw hwa =>
    simp only [X.fuel] at hF
    have hsf := sfx_fuel f
    have hff := fuel_first a
    have hs0 : SeesT env s (f.flat ++ ("LPAREN", "(") :: (a.flat ++ ("RPAREN", ")") :: rest)) := by
      simpa [X.flat] using hs
    obtain ⟨s1, G, hs1, hi1, hG, heq⟩ := ih hw s _ F hs0 (by omega)
    obtain ⟨G', rfl⟩ : ∃ G', G = G' + 1 := ⟨G - 1, by omega⟩
    obtain ⟨ta, ra, hfa', hta, _⟩ := flat_heads hwa
    obtain ⟨m, hm⟩ : ∃ m, m = s.idx + f.ntoks + 1 := ⟨_, rfl⟩
    obtain ⟨s2, hs2, hi2, hstep⟩ := loop_call G' s1 (f.val s.idx) (a.first.val m) (X.items m a) a.flat rest
      (m + a.ntoks) hs1 ⟨ta, ra, hfa', (heads_facts _ hta).2.2.2.2⟩
      (fun sa hsa hia => by
        have hia' : sa.idx = m := by omega
        obtain ⟨t, r, hhd, hst⟩ := rest_head a ("RPAREN", ")") rest stopX_rparen
        have hsa' : SeesT env sa (a.first.flat ++ t :: r) := by
          rw [← hhd, ← List.append_assoc, ← flat_first]; exact hsa
        obtain ⟨sb, hb, hsb, hib⟩ := hfa (wf_first hwa) sa t r hst hsa' G' (by omega)
        rw [← hhd] at hsb
        obtain ⟨sc, hc, hsc, hic⟩ := hla [a.first.val m] sb ("RPAREN", ")") rest m hwa stopX_rparen hsb
          (by omega) G' (by omega)
        refine ⟨sb, sc, by rw [hb, hia'], ?_, hsc, hic⟩
        rw [hc, items_eq]; rfl)
      (val_isNode _ _) (val_isNode _ _)
    refine ⟨s2, G', hs2, by simp only [X.ntoks]; omega, by simp only [X.sfx]; omega, ?_⟩
    rw [heq, hstep]
    have hh : X.headCoord (X.items m a) = X.coordOfVal (a.first.val m) := by rw [items_eq]; rfl
    subst hm
    simp only [X.val]
    rw [hh]


/-! ## all entry points, all expressions -/

theorem lift23 {e : X} (hn : ∀ c t f, e ≠ .cond c t f) (h : WFX 2 e) : WFX 3 e := by
  cases h with
  | cond _ c t f => exact absurd rfl (hn c t f)
  | assign _ _ _ _ _ hL => omega
  | id => exact .id _ _
  | const _ _ _ _ h => exact .const _ _ _ _ h
  | paren _ _ h => exact .paren _ _ h
  | pre _ _ _ _ _ hk h hc => exact .pre _ _ _ _ (by omega) hk h hc
  | szof _ _ _ h hc => exact .szof _ _ (by omega) h hc
  | cast _ _ _ _ ht h => exact .cast _ _ _ (by omega) ht h
  | szofT _ _ _ ht => exact .szofT _ _ (by omega) ht
  | alignT _ _ _ ht => exact .alignT _ _ (by omega) ht
  | post _ _ _ _ _ hk h => exact .post _ _ _ _ (by omega) hk h
  | index _ _ _ _ h1 h2 => exact .index _ _ _ (by omega) h1 h2
  | member _ _ _ _ _ _ hk h => exact .member _ _ _ _ _ (by omega) hk h
  | call0 _ _ _ h => exact .call0 _ _ (by omega) h
  | call _ _ _ _ h1 h2 => exact .call _ _ _ (by omega) h1 h2
  | bin _ p _ _ _ _ hp _ hl hr => exact .bin _ p _ _ _ _ hp (by omega) hl hr

theorem lift12 {e : X} (hn : ∀ k v l r, e ≠ .assign k v l r) (h : WFX 1 e) : WFX 2 e := by
  cases h with
  | assign _ k v l r => exact absurd rfl (hn k v l r)
  | cond _ _ _ _ _ a b c => exact .cond _ _ _ _ (by omega) a b c
  | id => exact .id _ _
  | const _ _ _ _ h => exact .const _ _ _ _ h
  | paren _ _ h => exact .paren _ _ h
  | pre _ _ _ _ _ hk h hc => exact .pre _ _ _ _ (by omega) hk h hc
  | szof _ _ _ h hc => exact .szof _ _ (by omega) h hc
  | cast _ _ _ _ ht h => exact .cast _ _ _ (by omega) ht h
  | szofT _ _ _ ht => exact .szofT _ _ (by omega) ht
  | alignT _ _ _ ht => exact .alignT _ _ (by omega) ht
  | post _ _ _ _ _ hk h => exact .post _ _ _ _ (by omega) hk h
  | index _ _ _ _ h1 h2 => exact .index _ _ _ (by omega) h1 h2
  | member _ _ _ _ _ _ hk h => exact .member _ _ _ _ _ (by omega) hk h
  | call0 _ _ _ h => exact .call0 _ _ (by omega) h
  | call _ _ _ _ h1 h2 => exact .call _ _ _ (by omega) h1 h2
  | bin _ p _ _ _ _ hp _ hl hr => exact .bin _ p _ _ _ _ hp (by omega) hl hr

theorem lift01 {e : X} (hn : ∀ a b, e ≠ .comma a b) (h : WFX 0 e) : WFX 1 e := by
  cases h with
  | comma a b => exact absurd rfl (hn a b)
  | assign _ _ _ _ _ _ a b c => exact .assign _ _ _ _ _ (by omega) a b c
  | cond _ _ _ _ _ a b c => exact .cond _ _ _ _ (by omega) a b c
  | id => exact .id _ _
  | const _ _ _ _ h => exact .const _ _ _ _ h
  | paren _ _ h => exact .paren _ _ h
  | pre _ _ _ _ _ hk h hc => exact .pre _ _ _ _ (by omega) hk h hc
  | szof _ _ _ h hc => exact .szof _ _ (by omega) h hc
  | cast _ _ _ _ ht h => exact .cast _ _ _ (by omega) ht h
  | szofT _ _ _ ht => exact .szofT _ _ (by omega) ht
  | alignT _ _ _ ht => exact .alignT _ _ (by omega) ht
  | post _ _ _ _ _ hk h => exact .post _ _ _ _ (by omega) hk h
  | index _ _ _ _ h1 h2 => exact .index _ _ _ (by omega) h1 h2
  | member _ _ _ _ _ _ hk h => exact .member _ _ _ _ _ (by omega) hk h
  | call0 _ _ _ h => exact .call0 _ _ (by omega) h
  | call _ _ _ _ h1 h2 => exact .call _ _ _ (by omega) h1 h2
  | bin _ p _ _ _ _ hp _ hl hr => exact .bin _ p _ _ _ _ hp (by omega) hl hr

/-- a unary-level expression that is no prefix operator application is a postfix expression -/
theorem lift1314 {e : X} (hp : ∀ k v e', e ≠ .pre k v e') (hz : ∀ e', e ≠ .szof e') (hc : ∀ tn e', e ≠ .cast tn e')
    (ht : ∀ tn, e ≠ .szofT tn) (hal : ∀ tn, e ≠ .alignT tn) (h : WFX 13 e) : WFX 14 e := by
  cases h with
  | pre _ k v e' => exact absurd rfl (hp k v e')
  | szof _ e' => exact absurd rfl (hz e')
  | cast _ tn e' => exact absurd rfl (hc tn e')
  | szofT _ tn => exact absurd rfl (ht tn)
  | alignT _ tn => exact absurd rfl (hal tn)
  | id => exact .id _ _
  | const _ _ _ _ h => exact .const _ _ _ _ h
  | paren _ _ h => exact .paren _ _ h
  | post _ _ _ _ _ hk h => exact .post _ _ _ _ (by omega) hk h
  | index _ _ _ _ h1 h2 => exact .index _ _ _ (by omega) h1 h2
  | member _ _ _ _ _ _ hk h => exact .member _ _ _ _ _ (by omega) hk h
  | call0 _ _ _ h => exact .call0 _ _ (by omega) h
  | call _ _ _ _ h1 h2 => exact .call _ _ _ (by omega) h1 h2
  | bin _ p _ _ _ _ hp' hL => have := binPrec_le _ _ hp'; omega
  | cond _ _ _ _ hL => omega
  | assign _ _ _ _ _ hL => omega

theorem not13_bin (k v : String) (l r : X) : ¬ WFX 13 (.bin k v l r) := by
  intro h; cases h with | bin _ p _ _ _ _ hp hL => have := binPrec_le _ _ hp; omega
theorem not13_cond (c t f : X) : ¬ WFX 13 (.cond c t f) := by
  intro h; cases h with | cond _ _ _ _ hL => omega
theorem not13_assign (k v : String) (l r : X) : ¬ WFX 13 (.assign k v l r) := by
  intro h; cases h with | assign _ _ _ _ _ hL => omega
theorem not13_comma (a b : X) : ¬ WFX 13 (.comma a b) := by
  intro h; cases h
theorem not14_pre (k v : String) (e : X) : ¬ WFX 14 (.pre k v e) := by
  intro h; cases h with | pre _ _ _ _ hL => omega
theorem not14_szof (e : X) : ¬ WFX 14 (.szof e) := by
  intro h; cases h with | szof _ _ hL => omega
theorem not14_cast (tn : TN) (e : X) : ¬ WFX 14 (.cast tn e) := by
  intro h; cases h with | cast _ _ _ hL => omega
theorem not14_szofT (tn : TN) : ¬ WFX 14 (.szofT tn) := by
  intro h; cases h with | szofT _ _ hL => omega
theorem not14_alignT (tn : TN) : ¬ WFX 14 (.alignT tn) := by
  intro h; cases h with | alignT _ _ hL => omega

/-- everything the induction carries about one expression -/
structure All (env : Env) (e : X) : Prop where
  cps : PostCPS env e
  un : UnOK env e
  cast : CastOK env e
  b : BOK env e
  c : COK env e
  a : AOK env e
  x : XOK env e
  leaf : LeafOK env e
  afirst : AOK env e.first
  loop : LoopOK env e
  argloop : ArgLoopOK env e

theorem first_eq {e : X} (hn : ∀ a b, e ≠ .comma a b) : e.first = e ∧ e.restToks = [] ∧ ∀ n, e.restItems n = [] := by
  cases e <;> first | exact ⟨rfl, rfl, fun _ => rfl⟩ | exact absurd rfl (hn _ _)

/-- the upper layers for an expression of the unary level or below -/
theorem all_of_cast (e : X) (hb : e.isBin = false) (hnc : ∀ c t f, e ≠ .cond c t f)
    (hna : ∀ k v l r, e ≠ .assign k v l r) (hnm : ∀ a b, e ≠ .comma a b) (cps : PostCPS env e) (un : UnOK env e)
    (cast : CastOK env e) : All env e := by
  have leaf : LeafOK env e := by rw [leafOK_leaf e hb]; exact cast
  have b := bok_of_leaves e leaf
  have c := cok_of_bok _ b (lift23 hnc)
  have a := aok_of_cok _ c (lift12 hna)
  obtain ⟨hf, hr, hi⟩ := first_eq hnm
  exact ⟨cps, un, cast, b, c, a, xok_of_aok _ a (lift01 hnm), leaf, by rw [hf]; exact a,
    loop_single _ hr hi hf, argloop_single _ hr hi hf⟩

theorem all_of_unary (e : X) (hb : e.isBin = false) (hnc : ∀ c t f, e ≠ .cond c t f)
    (hna : ∀ k v l r, e ≠ .assign k v l r) (hnm : ∀ a b, e ≠ .comma a b) (hic : e.isCast = false)
    (cps : PostCPS env e) (un : UnOK env e) : All env e :=
  all_of_cast e hb hnc hna hnm cps un (cast_of_un e hic un)

theorem all_of_postfix (e : X) (hb : e.isBin = false) (hnc : ∀ c t f, e ≠ .cond c t f)
    (hna : ∀ k v l r, e ≠ .assign k v l r) (hnm : ∀ a b, e ≠ .comma a b)
    (hp : ∀ k v e', e ≠ .pre k v e') (hz : ∀ e', e ≠ .szof e') (hc : ∀ tn e', e ≠ .cast tn e')
    (ht : ∀ tn, e ≠ .szofT tn) (hal : ∀ tn, e ≠ .alignT tn) (hic : e.isCast = false) (cps : PostCPS env e) : All env e :=
  all_of_unary e hb hnc hna hnm hic cps (fun hw _ => un_of_cps e (lift1314 hp hz hc ht hal hw) cps)

theorem bok_vacuous (e : X) (h : ∀ m, ¬ WFX (3 + m) e) : BOK env e := fun m hw => absurd hw (h m)

theorem all_ok : ∀ e : X, All env e
  | .id x => all_of_postfix _ rfl (by intro _ _ _ h; cases h) (by intro _ _ _ _ h; cases h) (by intro _ _ h; cases h)
      (by intro _ _ _ h; cases h) (by intro _ h; cases h) (by intro _ _ h; cases h) (by intro _ h; cases h) (by intro _ h; cases h) rfl (cps_id x)
  | .const k v t => all_of_postfix _ rfl (by intro _ _ _ h; cases h) (by intro _ _ _ _ h; cases h) (by intro _ _ h; cases h)
      (by intro _ _ _ h; cases h) (by intro _ h; cases h) (by intro _ _ h; cases h) (by intro _ h; cases h) (by intro _ h; cases h) rfl (cps_const k v t)
  | .paren e => all_of_postfix _ rfl (by intro _ _ _ h; cases h) (by intro _ _ _ _ h; cases h) (by intro _ _ h; cases h)
      (by intro _ _ _ h; cases h) (by intro _ h; cases h) (by intro _ _ h; cases h) (by intro _ h; cases h) (by intro _ h; cases h) rfl (cps_paren e (all_ok e).x)
  | .post k v e => all_of_postfix _ rfl (by intro _ _ _ h; cases h) (by intro _ _ _ _ h; cases h) (by intro _ _ h; cases h)
      (by intro _ _ _ h; cases h) (by intro _ h; cases h) (by intro _ _ h; cases h) (by intro _ h; cases h) (by intro _ h; cases h) rfl (cps_post k v e (all_ok e).cps)
  | .index e i => all_of_postfix _ rfl (by intro _ _ _ h; cases h) (by intro _ _ _ _ h; cases h) (by intro _ _ h; cases h)
      (by intro _ _ _ h; cases h) (by intro _ h; cases h) (by intro _ _ h; cases h) (by intro _ h; cases h) (by intro _ h; cases h) rfl (cps_index e i (all_ok e).cps (all_ok i).x)
  | .member k v e f => all_of_postfix _ rfl (by intro _ _ _ h; cases h) (by intro _ _ _ _ h; cases h) (by intro _ _ h; cases h)
      (by intro _ _ _ h; cases h) (by intro _ h; cases h) (by intro _ _ h; cases h) (by intro _ h; cases h) (by intro _ h; cases h) rfl (cps_member k v e f (all_ok e).cps)
  | .call0 f => all_of_postfix _ rfl (by intro _ _ _ h; cases h) (by intro _ _ _ _ h; cases h) (by intro _ _ h; cases h)
      (by intro _ _ _ h; cases h) (by intro _ h; cases h) (by intro _ _ h; cases h) (by intro _ h; cases h) (by intro _ h; cases h) rfl (cps_call0 f (all_ok f).cps)
  | .call f a => all_of_postfix _ rfl (by intro _ _ _ h; cases h) (by intro _ _ _ _ h; cases h) (by intro _ _ h; cases h)
      (by intro _ _ _ h; cases h) (by intro _ h; cases h) (by intro _ _ h; cases h) (by intro _ h; cases h) (by intro _ h; cases h) rfl (cps_call f a (all_ok f).cps (all_ok a).afirst (all_ok a).argloop)
  | .pre k v e => all_of_unary _ rfl (by intro _ _ _ h; cases h) (by intro _ _ _ _ h; cases h) (by intro _ _ h; cases h) rfl
      (fun hw => absurd hw (not14_pre k v e)) (un_pre k v e (all_ok e).cast (all_ok e).un)
  | .szof e => all_of_unary _ rfl (by intro _ _ _ h; cases h) (by intro _ _ _ _ h; cases h) (by intro _ _ h; cases h) rfl
      (fun hw => absurd hw (not14_szof e)) (un_szof e (all_ok e).un)
  | .szofT tn => all_of_unary _ rfl (by intro _ _ _ h; cases h) (by intro _ _ _ _ h; cases h) (by intro _ _ h; cases h) rfl
      (fun hw => absurd hw (not14_szofT tn)) (un_szofT tn)
  | .alignT tn => all_of_unary _ rfl (by intro _ _ _ h; cases h) (by intro _ _ _ _ h; cases h) (by intro _ _ h; cases h) rfl
      (fun hw => absurd hw (not14_alignT tn)) (un_alignT tn)
  | .cast tn e => all_of_cast _ rfl (by intro _ _ _ h; cases h) (by intro _ _ _ _ h; cases h) (by intro _ _ h; cases h)
      (fun hw => absurd hw (not14_cast tn e)) (fun _ hc => by simp [X.isCast] at hc) (cast_cast tn e (all_ok e).cast)
  | .bin k v l r => by
    have ihl := all_ok l
    have ihr := all_ok r
    have n13 := not13_bin k v l r
    have b := bok_of_leaves (.bin k v l r) ⟨ihl.leaf, ihr.leaf⟩
    have c := cok_of_bok _ b (lift23 (by intro _ _ _ h; cases h))
    have a := aok_of_cok _ c (lift12 (by intro _ _ _ _ h; cases h))
    exact ⟨fun hw => absurd (hw.weaken (by omega)) n13, fun hw _ => absurd hw n13, fun hw => absurd hw n13,
      b, c, a, xok_of_aok _ a (lift01 (by intro _ _ h; cases h)), ⟨ihl.leaf, ihr.leaf⟩, a,
      loop_single _ rfl (fun _ => rfl) rfl, argloop_single _ rfl (fun _ => rfl) rfl⟩
  | .cond c t f => by
    have ihc := all_ok c
    have iht := all_ok t
    have ihf := all_ok f
    have n13 := not13_cond c t f
    have b : BOK env (.cond c t f) := bok_vacuous _ (by
      intro m h; generalize hL : 3 + m = L at h; cases h with | cond _ _ _ _ hL' => omega)
    have cc := cok_cond c t f ihc.b iht.x ihf.c
    have a := aok_of_cok _ cc (lift12 (by intro _ _ _ _ h; cases h))
    exact ⟨fun hw => absurd (hw.weaken (by omega)) n13, fun hw _ => absurd hw n13, fun hw => absurd hw n13,
      b, cc, a, xok_of_aok _ a (lift01 (by intro _ _ h; cases h)), fun hw => absurd hw n13, a,
      loop_single _ rfl (fun _ => rfl) rfl, argloop_single _ rfl (fun _ => rfl) rfl⟩
  | .assign k v l r => by
    have ihl := all_ok l
    have ihr := all_ok r
    have n13 := not13_assign k v l r
    have b : BOK env (.assign k v l r) := bok_vacuous _ (by
      intro m h; generalize hL : 3 + m = L at h; cases h with | assign _ _ _ _ _ hL' => omega)
    have cc : COK env (.assign k v l r) := by intro h; cases h with | assign _ _ _ _ _ hL' => omega
    have a := aok_assign k v l r ihl.c ihr.a
    exact ⟨fun hw => absurd (hw.weaken (by omega)) n13, fun hw _ => absurd hw n13, fun hw => absurd hw n13,
      b, cc, a, xok_of_aok _ a (lift01 (by intro _ _ h; cases h)), fun hw => absurd hw n13, a,
      loop_single _ rfl (fun _ => rfl) rfl, argloop_single _ rfl (fun _ => rfl) rfl⟩
  | .comma a b => by
    have iha := all_ok a
    have ihb := all_ok b
    have n13 := not13_comma a b
    have bb : BOK env (.comma a b) := bok_vacuous _ (by
      intro m h; generalize hL : 3 + m = L at h; cases h with | comma => omega)
    have cc : COK env (.comma a b) := by intro h; cases h
    have aa : AOK env (.comma a b) := by intro h; cases h
    exact ⟨fun hw => absurd (hw.weaken (by omega)) n13, fun hw _ => absurd hw n13, fun hw => absurd hw n13,
      bb, cc, aa, xok_comma a b iha.a ihb.afirst ihb.loop, fun hw => absurd hw n13, iha.a,
      loop_comma a b ihb.afirst ihb.loop, argloop_comma a b ihb.afirst ihb.argloop⟩

/-- **The parser model parses expressions exactly as the C grammar derives them.**
For every expression `e` of `X` (identifiers, constants, parentheses, the postfix operators
`++ -- [] . -> ()`, the prefix operators `++ -- & * + - ~ !` and `sizeof`, the ten binary levels, `?:`,
the assignment operators, comma; any size and nesting) that is well-formed at the comma level, from
every state that sees its tokens followed by a token that cannot continue an expression,
`_parse_expression` returns `e.val` and consumes exactly the tokens of `e`. -/
theorem parse_full (e : X) (hwf : WFX 0 e) (s : PState) (stop : Tk) (rest : List Tk) (hstop : StopX stop.1)
    (hs : SeesT env s (e.flat ++ stop :: rest)) (F : Nat) (hF : e.fuel ≤ F) :
    ∃ s', run F .expression s = .ok (e.val s.idx) s' ∧ SeesT env s' (stop :: rest) ∧ s'.idx = s.idx + e.ntoks :=
  (all_ok e).x hwf s stop rest hstop hs F hF

theorem fuel_linear (e : X) : e.fuel ≤ 13 * e.ntoks := by
  induction e <;> simp only [X.fuel, X.ntoks] <;> omega


/-- non-vacuity: `a = - b [ i ] ++ * sizeof c . f ( x , 1 ) ;` from the initial state:
postfix binds tighter than prefix, prefix tighter than `*`, `*` tighter than `=` -/
example : ∃ s',
    run 400 .expression
      (initState ([("ID", "a"), ("EQUALS", "="), ("MINUS", "-"), ("ID", "b"), ("LBRACKET", "["), ("ID", "i"),
                   ("RBRACKET", "]"), ("PLUSPLUS", "++"), ("TIMES", "*"), ("SIZEOF", "sizeof"), ("ID", "c"),
                   ("PERIOD", "."), ("ID", "f"), ("LPAREN", "("), ("ID", "x"), ("COMMA", ","), ("INT_CONST_DEC", "1"),
                   ("RPAREN", ")"), ("SEMI", ";")].map (fun t => SEv.tok t.1 t.2) ++ [.eof]))
      = .ok (mk .Assignment (tc 0) [.str "=", idNode 0 "a",
              mk .BinaryOp (tc 3) [.str "*",
                mk .UnaryOp (tc 3) [.str "-",
                  mk .UnaryOp (tc 3) [.str "p++", mk .ArrayRef (tc 3) [idNode 3 "b", idNode 5 "i"]]],
                mk .UnaryOp (tc 9) [.str "sizeof",
                  mk .FuncCall (tc 10) [mk .StructRef (tc 10) [idNode 10 "c", .str ".", idNode 12 "f"],
                    mk .ExprList (tc 14) [.list [idNode 14 "x", mk .Constant (tc 16) [.str "int", .str "1"]]]]]]]) s' ∧
      (∃ env, SeesT env s' [("SEMI", ";")]) := by
  let e : X := .assign "EQUALS" "=" (.id "a")
    (.bin "TIMES" "*" (.pre "MINUS" "-" (.post "PLUSPLUS" "++" (.index (.id "b") (.id "i"))))
      (.szof (.call (.member "PERIOD" "." (.id "c") "f") (.comma (.id "x") (.const "INT_CONST_DEC" "1" "int")))))
  have hwf : WFX 0 e := by
    refine .assign _ _ _ _ _ (by omega) (by decide) (.id _ _) (.bin _ 9 _ _ _ _ (by decide) (by omega) ?_ ?_)
    · exact .pre _ _ _ _ (by omega) (by decide) (.post _ _ _ _ (by omega) (by decide) (.index _ _ _ (by omega) (.id _ _) (.id _ _)))
        (fun _ => rfl)
    · exact .szof _ _ (by omega) (.call _ _ _ (by omega) (.member _ _ _ _ _ (by omega) (by decide) (.id _ _))
        (.comma _ _ (.id _ _) (.const _ _ _ _ (by decide)))) rfl
  have hs := ParenExpr.seesT_init [("ID", "a"), ("EQUALS", "="), ("MINUS", "-"), ("ID", "b"), ("LBRACKET", "["), ("ID", "i"),
    ("RBRACKET", "]"), ("PLUSPLUS", "++"), ("TIMES", "*"), ("SIZEOF", "sizeof"), ("ID", "c"),
    ("PERIOD", "."), ("ID", "f"), ("LPAREN", "("), ("ID", "x"), ("COMMA", ","), ("INT_CONST_DEC", "1"),
    ("RPAREN", ")"), ("SEMI", ";")]
  have hstop : StopX ("SEMI", ";").1 := ⟨⟨⟨⟨by decide, by decide⟩, by decide⟩, by decide⟩, by decide⟩
  obtain ⟨s', hr, hs', _⟩ := parse_full e hwf _ ("SEMI", ";") [] hstop hs 400 (by decide)
  exact ⟨s', hr, _, hs'⟩

end PycModel.FullExpr
