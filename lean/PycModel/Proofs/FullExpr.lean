import PycModel.Proofs.ParenExpr
/-!
# The whole expression skeleton: comma, assignment, `?:`, the ten binary levels, parentheses

`X ::= identifier | ( X ) | X binop X | X ? X : X | X assign-op X | X , X` with the level discipline
of C99 6.5.5-6.5.17 (`WFX`): comma < assignment (right-assoc) < conditional (right-assoc, full
expression between `?` and `:`) < binary levels 0..9 (left-assoc) < primary.
`parse_full`: every entry point of the parser model (`expression`, `assignmentExpression`,
`conditionalExpression`, `binaryExpression m`) returns exactly `X.val` on the tokens of a
well-formed `X`, for expressions of any size.
-/
namespace PycModel.FullExpr
open PycModel PycModel.View PycModel.Climb PycModel.ClimbSim PycModel.ClimbConcrete PycModel.OperandId
open PycModel.ParenExpr (idNode cast_paren cond_through assign_through expr_through)

theorem bnd {α β} (m : P α) (f : α → P β) (s : PState) :
    (m >>= f) s = match m s with | .ok a s' => f a s' | .err e => .err e := rfl
theorem pur {α} (a : α) (s : PState) : (pure a : P α) s = .ok a s := rfl

inductive X where
  | id (x : String)
  | paren (e : X)
  | bin (kind val : String) (l r : X)
  | cond (c t f : X)
  | assign (kind val : String) (l r : X)
  | comma (a b : X)

namespace X

def ntoks : X → Nat
  | id _ => 1
  | paren e => e.ntoks + 2
  | bin _ _ l r => l.ntoks + 1 + r.ntoks
  | cond c t f => c.ntoks + 1 + t.ntoks + 1 + f.ntoks
  | assign _ _ l r => l.ntoks + 1 + r.ntoks
  | comma a b => a.ntoks + 1 + b.ntoks

def flat : X → List Tk
  | id x => [("ID", x)]
  | paren e => ("LPAREN", "(") :: (e.flat ++ [("RPAREN", ")")])
  | bin k v l r => l.flat ++ [(k, v)] ++ r.flat
  | cond c t f => c.flat ++ [("CONDOP", "?")] ++ t.flat ++ [("COLON", ":")] ++ f.flat
  | assign k v l r => l.flat ++ [(k, v)] ++ r.flat
  | comma a b => a.flat ++ [("COMMA", ",")] ++ b.flat

def coordOfVal (v : Val) : Option Coord := v.coord?.getD none

mutual
/-- the AST of the expression whose first token is at stream position `n` -/
def val (n : Nat) : X → Val
  | id x => idNode n x
  | paren e => val (n + 1) e
  | bin _ v l r => mk .BinaryOp (coordOfVal (val n l)) [.str v, val n l, val (n + l.ntoks + 1) r]
  | cond c t f => mk .TernaryOp (coordOfVal (val n c))
      [val n c, val (n + c.ntoks + 1) t, val (n + c.ntoks + 1 + t.ntoks + 1) f]
  | assign _ v l r => mk .Assignment (coordOfVal (val n l)) [.str v, val n l, val (n + l.ntoks + 1) r]
  | comma a b => mk .ExprList (coordOfVal (val n a)) [.list (val n a :: items (n + a.ntoks + 1) b)]
/-- the operands of a comma expression, flattened along its right spine -/
def items (n : Nat) : X → List Val
  | comma a b => val n a :: items (n + a.ntoks + 1) b
  | id x => [idNode n x]
  | paren e => [val (n + 1) e]
  | bin k v l r => [mk .BinaryOp (coordOfVal (val n l)) [.str v, val n l, val (n + l.ntoks + 1) r]]
  | cond c t f => [mk .TernaryOp (coordOfVal (val n c))
      [val n c, val (n + c.ntoks + 1) t, val (n + c.ntoks + 1 + t.ntoks + 1) f]]
  | assign _ v l r => [mk .Assignment (coordOfVal (val n l)) [.str v, val n l, val (n + l.ntoks + 1) r]]
end

end X

/-- levels: 0 comma, 1 assignment, 2 conditional, 3 + m binary level m -/
inductive WFX : Nat → X → Prop
  | id (L x) : WFX L (.id x)
  | paren (L e) : WFX 0 e → WFX L (.paren e)
  | bin (L p k v l r) : binPrec k = some p → L ≤ 3 + p → WFX (3 + p) l → WFX (3 + p + 1) r → WFX L (.bin k v l r)
  | cond (L c t f) : L ≤ 2 → WFX 3 c → WFX 0 t → WFX 2 f → WFX L (.cond c t f)
  | assign (L k v l r) : L ≤ 1 → k ∈ assignmentOps → WFX 13 l → WFX 1 r → WFX L (.assign k v l r)
  | comma (a b) : WFX 1 a → WFX 0 b → WFX 0 (.comma a b)

theorem WFX.weaken {L L' : Nat} {e : X} (h : WFX L e) (hl : L' ≤ L) : WFX L' e := by
  cases h with
  | id => exact .id _ _
  | paren _ _ h => exact .paren _ _ h
  | bin _ p k v l r hp hL hl' hr => exact .bin _ p k v l r hp (by omega) hl' hr
  | cond _ c t f hL hc ht hf => exact .cond _ c t f (by omega) hc ht hf
  | assign _ k v l r hL hk hl' hr => exact .assign _ k v l r (by omega) hk hl' hr
  | comma a b ha hb =>
    have : L' = 0 := by omega
    subst this; exact .comma a b ha hb


namespace X

/-- generous fuel: enough for every entry point (`expression` ... `binaryExpression m`) at this node -/
def fuel : X → Nat
  | id _ => 10
  | paren e => e.fuel + 13
  | bin _ _ l r => l.fuel + r.fuel + 3
  | cond c t f => c.fuel + t.fuel + f.fuel + 4
  | assign _ _ l r => l.fuel + r.fuel + 4
  | comma a b => a.fuel + b.fuel + 4

/-- size of the binary-operator tree rooted here (operands count 1) -/
def btSize : X → Nat
  | bin _ _ l r => 1 + l.btSize + r.btSize
  | _ => 1

/-- fuel of the most demanding operand of the binary-operator tree rooted here -/
def opFuel : X → Nat
  | bin _ _ l r => max l.opFuel r.opFuel
  | paren e => e.fuel + 4
  | _ => 4

/-- the binary-operator tree rooted here -/
def toBT (n : Nat) : X → BT
  | bin k v l r => .node k v (l.toBT n) (r.toBT (n + l.ntoks + 1))
  | e => .leaf (e.val n)

def first : X → X
  | comma a _ => a
  | e => e

/-- tokens after the first operand of a comma expression -/
def restToks : X → List Tk
  | comma _ b => ("COMMA", ",") :: b.flat
  | _ => []

/-- values of the operands after the first; `n` = position of the expression -/
def restItems (n : Nat) : X → List Val
  | comma a b => items (n + a.ntoks + 1) b
  | _ => []

end X

theorem flat_length : ∀ e : X, e.flat.length = e.ntoks
  | .id _ => rfl
  | .paren e => by simp [X.flat, X.ntoks, flat_length e]
  | .bin _ _ l r => by simp [X.flat, X.ntoks, flat_length l, flat_length r]; omega
  | .cond c t f => by simp [X.flat, X.ntoks, flat_length c, flat_length t, flat_length f]; omega
  | .assign _ _ l r => by simp [X.flat, X.ntoks, flat_length l, flat_length r]; omega
  | .comma a b => by simp [X.flat, X.ntoks, flat_length a, flat_length b]; omega

theorem val_isNode : ∀ (e : X) (n : Nat), (e.val n).isNode = true
  | .id _, _ => rfl
  | .paren e, n => val_isNode e (n + 1)
  | .bin .., _ => rfl
  | .cond .., _ => rfl
  | .assign .., _ => rfl
  | .comma .., _ => rfl

theorem coordOf_val (e : X) (n : Nat) (s : PState) : coordOf (e.val n) s = .ok (X.coordOfVal (e.val n)) s :=
  coordOf_node (val_isNode e n) s

theorem items_eq : ∀ (e : X) (n : Nat), X.items n e = (e.first.val n) :: e.restItems n
  | .id _, _ => rfl
  | .paren _, _ => rfl
  | .bin .., _ => rfl
  | .cond .., _ => rfl
  | .assign .., _ => rfl
  | .comma .., _ => rfl

theorem toVal_toBT : ∀ (e : X) (n : Nat), toVal (e.toBT n) = e.val n
  | .id _, _ => rfl
  | .paren _, _ => rfl
  | .cond .., _ => rfl
  | .assign .., _ => rfl
  | .comma .., _ => rfl
  | .bin k v l r, n => by
    simp only [X.toBT, toVal, X.val, toVal_toBT l n, toVal_toBT r]
    rfl

theorem btSize_toBT : ∀ (e : X) (n : Nat), (e.toBT n).size = e.btSize
  | .id _, _ => rfl
  | .paren _, _ => rfl
  | .cond .., _ => rfl
  | .assign .., _ => rfl
  | .comma .., _ => rfl
  | .bin _ _ l r, n => by simp [X.toBT, BT.size, X.btSize, btSize_toBT l, btSize_toBT r]

theorem nodes_toBT : ∀ (e : X) (n : Nat), Nodes (e.toBT n)
  | .id x, n => val_isNode (.id x) n
  | .paren e, n => val_isNode (.paren e) n
  | .cond c t f, n => val_isNode (.cond c t f) n
  | .assign k v l r, n => val_isNode (.assign k v l r) n
  | .comma a b, n => val_isNode (.comma a b) n
  | .bin _ _ l r, n => ⟨nodes_toBT l n, nodes_toBT r _⟩

theorem wf_toBT : ∀ (e : X) (m n : Nat), WFX (3 + m) e → WF binPrec m (e.toBT n)
  | .id _, _, _, _ => .leaf _ _
  | .paren _, _, _, _ => .leaf _ _
  | .cond .., _, _, _ => .leaf _ _
  | .assign .., _, _, _ => .leaf _ _
  | .comma .., _, _, _ => .leaf _ _
  | .bin k v l r, m, n, h => by
    generalize hL : 3 + m = L at h
    cases h with
    | bin _ p _ _ _ _ hp hm hl hr =>
      exact .node _ p _ _ _ _ hp (by omega) (wf_toBT l p n hl) (wf_toBT r (p + 1) _ (by simpa [Nat.add_assoc] using hr))

theorem fuel_ge : ∀ e : X, 10 ≤ e.fuel
  | .id _ => by simp [X.fuel]
  | .paren e => by have := fuel_ge e; simp only [X.fuel]; omega
  | .bin _ _ l r => by have := fuel_ge l; simp only [X.fuel]; omega
  | .cond c t f => by have := fuel_ge c; simp only [X.fuel]; omega
  | .assign _ _ l r => by have := fuel_ge l; simp only [X.fuel]; omega
  | .comma a b => by have := fuel_ge a; simp only [X.fuel]; omega

/-- the binary-layer fuel is covered by `fuel` -/
theorem fuelB_le : ∀ e : X, 2 * e.btSize + e.opFuel + 3 ≤ e.fuel
  | .id _ => by simp [X.btSize, X.opFuel, X.fuel]
  | .paren e => by simp only [X.btSize, X.opFuel, X.fuel]; omega
  | .cond c t f => by have := fuel_ge c; simp only [X.btSize, X.opFuel, X.fuel]; omega
  | .assign _ _ l r => by have := fuel_ge l; simp only [X.btSize, X.opFuel, X.fuel]; omega
  | .comma a b => by have := fuel_ge a; simp only [X.btSize, X.opFuel, X.fuel]; omega
  | .bin _ _ l r => by
    have hl := fuelB_le l
    have hr := fuelB_le r
    simp only [X.btSize, X.opFuel, X.fuel] at hl hr ⊢
    omega


/-! ## what may follow an expression of each level -/

def StopB (k : String) : Prop := binPrec k = none ∧ k ∉ postfixStarters
def StopC (k : String) : Prop := StopB k ∧ k ≠ "CONDOP"
def StopA (k : String) : Prop := StopC k ∧ inSet (some k) assignmentOps = false
def StopX (k : String) : Prop := StopA k ∧ k ≠ "COMMA"

/-- the statement of the theorem for one entry point `nt` of the parser -/
def EntryOK (nt : NT) (hres : nt.Res = Val) (e : X) (stopOK : String → Prop) (slack : Nat) : Prop :=
  ∀ (s : PState) (stop : Tk) (rest : List Tk), stopOK stop.1 → SeesT s (e.flat ++ stop :: rest) →
    ∀ F, e.fuel ≤ F + slack → ∃ s', run F nt s = .ok (hres ▸ e.val s.idx) s' ∧ SeesT s' (stop :: rest) ∧
      s'.idx = s.idx + e.ntoks

/-- (the deeper the entry point, the less fuel it needs: `expression` calls `assignmentExpression`
calls `conditionalExpression` calls `binaryExpression`) -/
def BOK (e : X) : Prop := ∀ m, WFX (3 + m) e → EntryOK (.binaryExpression m none) rfl e StopB 3
def COK (e : X) : Prop := WFX 2 e → EntryOK .conditionalExpression rfl e StopC 2
def AOK (e : X) : Prop := WFX 1 e → EntryOK .assignmentExpression rfl e StopA 1
def XOK (e : X) : Prop := WFX 0 e → EntryOK .expression rfl e StopX 0

/-- operands of the binary layer: an identifier, or a parenthesised expression of any level -/
def Op (n : Nat) (a : Val) (ta : List Tk) (fa : Nat) : Prop :=
  (∃ x, ta = [("ID", x)] ∧ a = idNode n x ∧ fa = 4) ∨
  (∃ e : X, ta = (X.paren e).flat ∧ a = e.val (n + 1) ∧ fa = e.fuel + 4 ∧ WFX 0 e ∧ XOK e)

theorem flat_head : ∀ e : X, ∃ t r, e.flat = t :: r ∧ (t.1 = "ID" ∨ t.1 = "LPAREN")
  | .id x => ⟨_, _, rfl, .inl rfl⟩
  | .paren e => ⟨_, _, rfl, .inr rfl⟩
  | .bin k v l r => by
    obtain ⟨t, r', h, ht⟩ := flat_head l
    exact ⟨t, r' ++ [(k, v)] ++ r.flat, by simp [X.flat, h], ht⟩
  | .cond c t f => by
    obtain ⟨t', r', h, ht⟩ := flat_head c
    exact ⟨t', r' ++ ("CONDOP", "?") :: (t.flat ++ ("COLON", ":") :: f.flat), by simp [X.flat, h], ht⟩
  | .assign k v l r => by
    obtain ⟨t, r', h, ht⟩ := flat_head l
    exact ⟨t, r' ++ [(k, v)] ++ r.flat, by simp [X.flat, h], ht⟩
  | .comma a b => by
    obtain ⟨t, r', h, ht⟩ := flat_head a
    exact ⟨t, r' ++ ("COMMA", ",") :: b.flat, by simp [X.flat, h], ht⟩

theorem stopX_rparen : StopX "RPAREN" := by
  refine ⟨⟨⟨⟨by decide, by decide⟩, by decide⟩, by decide⟩, by decide⟩

theorem operand_spec : OperandSpec Op FollowOp := by
  intro fuel s a ta fa rest hfuel hop hfo hs
  rcases hop with ⟨x, rfl, rfl, rfl⟩ | ⟨e, rfl, rfl, rfl, hwf, hok⟩
  · obtain ⟨F, rfl⟩ : ∃ F, fuel = F + 4 := ⟨fuel - 4, by omega⟩
    obtain ⟨s', hr, hs', hi⟩ := cast_id F s x rest hs hfo
    exact ⟨s', hr, hs', by simpa using hi⟩
  · obtain ⟨G, rfl⟩ : ∃ G, fuel = G + 4 := ⟨fuel - 4, by omega⟩
    have hs' : SeesT s (("LPAREN", "(") :: (e.flat ++ ("RPAREN", ")") :: rest)) := by
      simpa [X.flat] using hs
    have he : ∀ s0, SeesT s0 (e.flat ++ ("RPAREN", ")") :: rest) → s0.idx = s.idx + 1 →
        ∃ s1, run G .expression s0 = .ok (e.val (s.idx + 1)) s1 ∧
          SeesT s1 (("RPAREN", ")") :: rest) ∧ s1.idx = s.idx + 1 + e.ntoks := by
      intro s0 h0 hi0
      obtain ⟨s1, h1, hs1, hi1⟩ := hok hwf s0 ("RPAREN", ")") rest stopX_rparen h0 G (by omega)
      exact ⟨s1, by rw [h1, hi0], hs1, by omega⟩
    obtain ⟨s', hr, hs'', hi⟩ := cast_paren G s (e.val (s.idx + 1)) e.flat rest _ hs'
      (flat_head e) he hfo
    refine ⟨s', hr, hs'', ?_⟩
    simp [X.flat, flat_length]; omega


/-- the parenthesised operands of the binary-operator tree rooted at `e` satisfy the theorem -/
def LeafOK : X → Prop
  | .paren e => XOK e
  | .bin _ _ l r => LeafOK l ∧ LeafOK r
  | _ => True

theorem denotes_tks (f0 : Nat) : ∀ (n : Nat) (l : List Tk),
    Denotes Op FollowOp f0 n (l.map fun t => PT.tk t.1 t.2) l
  | n, [] => .nil n
  | n, (k, v) :: l => .tk n k v _ _ (denotes_tks f0 (n + 1) l)

theorem denotes_tks_inv (f0 : Nat) : ∀ (n : Nat) (l toks : List Tk),
    Denotes Op FollowOp f0 n (l.map fun t => PT.tk t.1 t.2) toks → toks = l
  | n, [], toks, h => by cases h; rfl
  | n, (k, v) :: l, toks, h => by
    cases h with
    | tk _ _ _ _ toks' h' => rw [denotes_tks_inv f0 (n + 1) l toks' h']

theorem denotes_tree (f0 : Nat) : ∀ (e : X) (m n : Nat) (ts : List PT) (toks : List Tk),
    WFX (3 + m) e → LeafOK e → e.opFuel ≤ f0 → FollowOp toks → Denotes Op FollowOp f0 (n + e.ntoks) ts toks →
    Denotes Op FollowOp f0 n ((e.toBT n).toks ++ ts) (e.flat ++ toks)
  | .id x, m, n, ts, toks, _, _, hf0, hf, hd => by
    simp only [X.toBT, BT.toks, X.flat, List.cons_append, List.nil_append]
    exact .atom n _ [("ID", x)] 4 ts toks (.inl ⟨x, rfl, rfl, rfl⟩) hf0 hf (by simpa [X.ntoks] using hd)
  | .paren e, m, n, ts, toks, hwf, hok, hf0, hf, hd => by
    generalize hL : 3 + m = L at hwf
    cases hwf with
    | paren _ _ hw =>
      simp only [X.toBT, BT.toks, List.cons_append, List.nil_append]
      refine .atom n _ (X.paren e).flat (e.fuel + 4) ts toks (.inr ⟨e, rfl, rfl, rfl, hw, hok⟩) ?_ hf ?_
      · simpa [X.opFuel] using hf0
      · simpa [X.flat, flat_length, X.ntoks] using hd
  | .bin k v l r, m, n, ts, toks, hwf, hok, hf0, hf, hd => by
    generalize hL : 3 + m = L at hwf
    cases hwf with
    | bin _ p _ _ _ _ hp _ hl hr =>
      have hfl : l.opFuel ≤ f0 := Nat.le_trans (Nat.le_max_left _ _) hf0
      have hfr : r.opFuel ≤ f0 := Nat.le_trans (Nat.le_max_right _ _) hf0
      have h1 := denotes_tree f0 r (p + 1) (n + l.ntoks + 1) ts toks (by simpa [Nat.add_assoc] using hr) hok.2 hfr hf
        (by simpa [X.ntoks, Nat.add_assoc, Nat.add_comm, Nat.add_left_comm] using hd)
      have h2 : Denotes Op FollowOp f0 (n + l.ntoks) (PT.tk k v :: ((r.toBT (n + l.ntoks + 1)).toks ++ ts))
          ((k, v) :: (r.flat ++ toks)) := .tk _ k v _ _ h1
      have hfo : FollowOp ((k, v) :: (r.flat ++ toks)) := by
        intro k' v' r' heq
        simp only [List.cons.injEq, Prod.mk.injEq] at heq
        rw [← heq.1.1]
        exact ParenExpr.binop_not_postfix k p hp
      have h3 := denotes_tree f0 l p n _ _ hl hok.1 hfl hfo h2
      simpa [X.toBT, BT.toks, X.flat, List.append_assoc] using h3
  | .cond c t f, m, _, _, _, hwf, _, _, _, _ => by
    generalize hL : 3 + m = L at hwf
    cases hwf with | cond _ _ _ _ h => omega
  | .assign k v l r, m, _, _, _, hwf, _, _, _, _ => by
    generalize hL : 3 + m = L at hwf
    cases hwf with | assign _ _ _ _ _ h => omega
  | .comma a b, m, _, _, _, hwf, _, _, _, _ => by
    generalize hL : 3 + m = L at hwf
    cases hwf with | comma => omega

/-- the binary layer, given the theorem for the parenthesised operands -/
theorem bok_of_leaves (e : X) (hl : LeafOK e) : BOK e := by
  intro m hwf s stop rest hstop hs F hF
  let k : List PT := (stop :: rest).map fun t => PT.tk t.1 t.2
  have hk : StopAt binPrec m k := by
    refine ⟨?_, ?_⟩
    · intro kk v r p heq hp
      simp only [k, List.map_cons, List.cons.injEq, PT.tk.injEq] at heq
      rw [← heq.1.1, hstop.1] at hp; cases hp
    · intro a r heq; simp [k] at heq
  have hkt : ∀ x ∈ k, PTok' x := by
    intro x hx
    simp only [k, List.mem_map] at hx
    obtain ⟨t, _, rfl⟩ := hx
    trivial
  have hfo : FollowOp (stop :: rest) := by
    intro k' v' r' heq
    simp only [List.cons.injEq] at heq
    have := hstop.2
    rw [heq.1] at this; exact this
  have hd := denotes_tree e.opFuel e m s.idx k (stop :: rest) hwf hl (Nat.le_refl _) hfo (denotes_tks _ _ _)
  let N := s.idx + (e.flat ++ stop :: rest).length
  have hfb := fuelB_le e
  obtain ⟨s', hr, toks, hs', hd', hN⟩ := binary_expression_parses_grammar_tree
    (iface Op FollowOp e.opFuel N operand_spec) (e.toBT s.idx) m (wf_toBT e m _ hwf) (nodes_toBT e _)
    k hk hkt s ⟨_, hs, hd, rfl⟩ F (by rw [btSize_toBT]; omega)
  have := denotes_tks_inv _ _ _ _ hd'
  subst this
  refine ⟨s', by rw [hr, toVal_toBT], hs', ?_⟩
  simp only [N, List.length_append, flat_length, List.length_cons] at hN
  omega


/-! ## the upper levels -/

theorem flat_second : ∀ e : X, ∃ t1 r1, e.flat = t1 :: r1 ∧
    (t1.1 ≠ "LPAREN" ∨ ∃ t2 r2, r1 = t2 :: r2 ∧ t2.1 ≠ "LBRACE")
  | .id x => ⟨_, _, rfl, .inl (by simp)⟩
  | .paren e => by
    obtain ⟨t, r, h, ht⟩ := flat_head e
    refine ⟨_, _, rfl, .inr ⟨t, r ++ [("RPAREN", ")")], by simp [h], ?_⟩⟩
    rcases ht with h' | h' <;> rw [h'] <;> decide
  | .bin k v l r => by
    obtain ⟨t1, r1, h, hs⟩ := flat_second l
    refine ⟨t1, r1 ++ [(k, v)] ++ r.flat, by simp [X.flat, h], ?_⟩
    rcases hs with h' | ⟨t2, r2, rfl, h'⟩
    · exact .inl h'
    · exact .inr ⟨t2, r2 ++ [(k, v)] ++ r.flat, by simp, h'⟩
  | .cond c t f => by
    obtain ⟨t1, r1, h, hs⟩ := flat_second c
    refine ⟨t1, r1 ++ ("CONDOP", "?") :: (t.flat ++ ("COLON", ":") :: f.flat), by simp [X.flat, h], ?_⟩
    rcases hs with h' | ⟨t2, r2, rfl, h'⟩
    · exact .inl h'
    · exact .inr ⟨t2, r2 ++ ("CONDOP", "?") :: (t.flat ++ ("COLON", ":") :: f.flat), by simp, h'⟩
  | .assign k v l r => by
    obtain ⟨t1, r1, h, hs⟩ := flat_second l
    refine ⟨t1, r1 ++ [(k, v)] ++ r.flat, by simp [X.flat, h], ?_⟩
    rcases hs with h' | ⟨t2, r2, rfl, h'⟩
    · exact .inl h'
    · exact .inr ⟨t2, r2 ++ [(k, v)] ++ r.flat, by simp, h'⟩
  | .comma a b => by
    obtain ⟨t1, r1, h, hs⟩ := flat_second a
    refine ⟨t1, r1 ++ ("COMMA", ",") :: b.flat, by simp [X.flat, h], ?_⟩
    rcases hs with h' | ⟨t2, r2, rfl, h'⟩
    · exact .inl h'
    · exact .inr ⟨t2, r2 ++ ("COMMA", ",") :: b.flat, by simp, h'⟩

/-- the statement-expression test `({` of `_parse_assignment_expression` is false on an expression -/
theorem stmtexpr_test_false (s : PState) (toks : List Tk) (hs : SeesT s toks)
    (hhead : ∃ t1 r1, toks = t1 :: r1 ∧ (t1.1 ≠ "LPAREN" ∨ ∃ t2 r2, r1 = t2 :: r2 ∧ t2.1 ≠ "LBRACE")) :
    ∃ sb, andM (peekIs "LPAREN") (peek2Is "LBRACE") s = .ok false sb ∧ SeesT sb toks ∧ sb.idx = s.idx := by
  obtain ⟨t1, r1, rfl, hsecond⟩ := hhead
  obtain ⟨sa, ha, hsa, hia, _⟩ := peekType_spec s _ hs
  by_cases hl : t1.1 = "LPAREN"
  · rcases hsecond with h | ⟨t2, r2, rfl, hne⟩
    · exact absurd hl h
    · obtain ⟨sb, hb, hsb, _, hib, _⟩ := peekK_spec 1 sa (t1 :: t2 :: r2) t2 hsa rfl
      refine ⟨sb, ?_, hsb, by omega⟩
      simp [andM, peekIs, peek2Is, peekType2, bnd, ha, hl, hb, pur, hne]
  · refine ⟨sa, ?_, hsa, hia⟩
    simp [andM, peekIs, bnd, ha, hl, pur]

theorem assignOp_stop (k : String) (h : k ∈ assignmentOps) :
    StopC k ∧ inSet (some k) assignmentOps = true := by
  simp only [assignmentOps, List.mem_cons, List.mem_nil_iff, or_false] at h
  rcases h with rfl | rfl | rfl | rfl | rfl | rfl | rfl | rfl | rfl | rfl | rfl <;>
    exact ⟨⟨⟨by decide, by decide⟩, by decide⟩, by decide⟩

theorem stopB_condop : StopB "CONDOP" := ⟨by decide, by decide⟩
theorem stopX_colon : StopX "COLON" := ⟨⟨⟨⟨by decide, by decide⟩, by decide⟩, by decide⟩, by decide⟩
theorem stopA_comma : StopA "COMMA" := ⟨⟨⟨by decide, by decide⟩, by decide⟩, by decide⟩

/-- conditional level, for an expression that is not itself a `?:` -/
theorem cok_of_bok (e : X) (hb : BOK e) (hw3 : WFX 2 e → WFX 3 e) : COK e := by
  intro hwf s stop rest hstop hs F hF
  obtain ⟨G, rfl⟩ : ∃ G, F = G + 1 := ⟨F - 1, by have := fuel_ge e; omega⟩
  obtain ⟨s1, h1, hs1, hi1⟩ := hb 0 (hw3 hwf) s stop rest hstop.1 hs G (by omega)
  obtain ⟨s2, h2, hs2, hi2⟩ := cond_through G s s1 _ _ h1 hs1
    (by intro k w r h; simp only [List.cons.injEq] at h; have := hstop.2; rw [h.1] at this; exact this)
  exact ⟨s2, h2, hs2, by omega⟩

/-- assignment level, for an expression that is not itself an assignment -/
theorem aok_of_cok (e : X) (hc : COK e) (hw2 : WFX 1 e → WFX 2 e) : AOK e := by
  intro hwf s stop rest hstop hs F hF
  obtain ⟨G, rfl⟩ : ∃ G, F = G + 1 := ⟨F - 1, by have := fuel_ge e; omega⟩
  obtain ⟨t1, r1, hfl, hsec⟩ := flat_second e
  refine assign_through G s _ (e.flat ++ stop :: rest) _ _ hs
    ⟨t1, r1 ++ stop :: rest, by simp [hfl], ?_⟩ ?_ (by simpa using hstop.2)
  · rcases hsec with h' | ⟨t2, r2, rfl, h'⟩
    · exact .inl h'
    · exact .inr ⟨t2, r2 ++ stop :: rest, by simp, h'⟩
  · intro s0 h0 hi0
    obtain ⟨s1, h1, hs1, hi1⟩ := hc (hw2 hwf) s0 stop rest hstop.1 h0 G (by omega)
    exact ⟨s1, by rw [h1, hi0], hs1, by omega⟩

/-- expression level, for an expression that is not itself a comma expression -/
theorem xok_of_aok (e : X) (ha : AOK e) (hw1 : WFX 0 e → WFX 1 e) : XOK e := by
  intro hwf s stop rest hstop hs F hF
  obtain ⟨G, rfl⟩ : ∃ G, F = G + 1 := ⟨F - 1, by have := fuel_ge e; omega⟩
  refine expr_through G s _ _ _ ?_ (by intro k w r h; simp only [List.cons.injEq] at h; have := hstop.2; rw [h.1] at this; exact this)
  obtain ⟨s1, h1, hs1, hi1⟩ := ha (hw1 hwf) s stop rest hstop.1 hs G (by omega)
  exact ⟨s1, h1, hs1, hi1⟩


/-- `c ? t : f` -/
theorem cok_cond (c t f : X) (hc : BOK c) (ht : XOK t) (hf : COK f) : COK (.cond c t f) := by
  intro hwf s stop rest hstop hs F hF
  cases hwf with
  | cond _ _ _ _ _ hwc hwt hwf' =>
    obtain ⟨G, rfl⟩ : ∃ G, F = G + 1 := ⟨F - 1, by simp only [X.fuel] at hF; omega⟩
    simp only [X.fuel] at hF
    have hs0 : SeesT s (c.flat ++ ("CONDOP", "?") :: (t.flat ++ ("COLON", ":") :: (f.flat ++ stop :: rest))) := by
      simpa [X.flat, List.append_assoc] using hs
    obtain ⟨s1, h1, hs1, hi1⟩ := hc 0 hwc s ("CONDOP", "?") _ stopB_condop hs0 G (by omega)
    obtain ⟨s2, h2, hs2, hi2, _⟩ := accept_same s1 "CONDOP" "?" _ hs1
    obtain ⟨s3, h3, hs3, hi3⟩ := ht hwt s2 ("COLON", ":") _ stopX_colon hs2 G (by omega)
    obtain ⟨s4, h4, hs4, hi4⟩ := expect_same s3 "COLON" ":" _ hs3
    obtain ⟨s5, h5, hs5, hi5⟩ := hf hwf' s4 stop rest hstop hs4 G (by omega)
    refine ⟨s5, ?_, hs5, by simp only [X.ntoks]; omega⟩
    have hco := coordOf_val c s.idx s5
    have e2 : s2.idx = s.idx + c.ntoks + 1 := by omega
    have e4 : s4.idx = s.idx + c.ntoks + 1 + t.ntoks + 1 := by omega
    rw [e2] at h3; rw [e4] at h5
    show pConditionalExpression (run G) s = _
    simp only [pConditionalExpression, bnd, h1, h2, h3, h4, h5, hco, pur, X.val]

/-- `l op= r` -/
theorem aok_assign (k v : String) (l r : X) (hl : COK l) (hr : AOK r) : AOK (.assign k v l r) := by
  intro hwf s stop rest hstop hs F hF
  cases hwf with
  | assign _ _ _ _ _ _ hk hwl hwr =>
    obtain ⟨G, rfl⟩ : ∃ G, F = G + 1 := ⟨F - 1, by simp only [X.fuel] at hF; omega⟩
    simp only [X.fuel] at hF
    obtain ⟨hstopk, hin⟩ := assignOp_stop k hk
    have hs0 : SeesT s (l.flat ++ (k, v) :: (r.flat ++ stop :: rest)) := by
      simpa [X.flat, List.append_assoc] using hs
    obtain ⟨t1, r1, hfl, hsec⟩ := flat_second l
    obtain ⟨sb, hb, hsb, hib⟩ := stmtexpr_test_false s _ hs0
      ⟨t1, r1 ++ (k, v) :: (r.flat ++ stop :: rest), by simp [hfl], by
        rcases hsec with h' | ⟨t2, r2, rfl, h'⟩
        · exact .inl h'
        · exact .inr ⟨t2, r2 ++ (k, v) :: (r.flat ++ stop :: rest), by simp, h'⟩⟩
    obtain ⟨s1, h1, hs1, hi1⟩ := hl (hwl.weaken (by omega)) sb (k, v) _ hstopk hsb G (by omega)
    obtain ⟨s2, h2, hs2, hi2, _⟩ := peekType_spec s1 _ hs1
    obtain ⟨s3, h3, hs3, _, hi3, _⟩ := advance_spec s2 k v _ hs2
    obtain ⟨s4, h4, hs4, hi4⟩ := hr hwr s3 stop rest hstop hs3 G (by omega)
    refine ⟨s4, ?_, hs4, by simp only [X.ntoks]; omega⟩
    have hco := coordOf_val l s.idx s4
    have e3 : s3.idx = s.idx + l.ntoks + 1 := by omega
    rw [hib] at h1; rw [e3] at h4
    show pAssignmentExpression (run G) s = _
    simp [pAssignmentExpression, bnd, hb, h1, h2, h3, h4, hco, pur, X.val, hin]


/-! ## comma expressions -/

theorem flat_first : ∀ e : X, e.flat = e.first.flat ++ e.restToks
  | .id _ => by simp [X.first, X.restToks]
  | .paren _ => by simp [X.first, X.restToks]
  | .bin .. => by simp [X.first, X.restToks]
  | .cond .. => by simp [X.first, X.restToks]
  | .assign .. => by simp [X.first, X.restToks]
  | .comma a b => by simp [X.first, X.restToks, X.flat]

theorem ntoks_first : ∀ e : X, e.ntoks = e.first.ntoks + e.restToks.length
  | .id _ => by simp [X.first, X.restToks]
  | .paren _ => by simp [X.first, X.restToks]
  | .bin .. => by simp [X.first, X.restToks]
  | .cond .. => by simp [X.first, X.restToks]
  | .assign .. => by simp [X.first, X.restToks]
  | .comma a b => by simp [X.first, X.restToks, X.ntoks, flat_length]; omega

theorem fuel_first : ∀ e : X, e.first.fuel ≤ e.fuel
  | .id _ => Nat.le_refl _
  | .paren _ => Nat.le_refl _
  | .bin .. => Nat.le_refl _
  | .cond .. => Nat.le_refl _
  | .assign .. => Nat.le_refl _
  | .comma a b => by simp only [X.first, X.fuel]; omega

theorem wf_first : ∀ e : X, WFX 0 e → WFX 1 e.first
  | .id _, _ => .id _ _
  | .paren _, h => by cases h with | paren _ _ h => exact .paren _ _ h
  | .bin .., h => by cases h with | bin _ p _ _ _ _ hp _ hl hr => exact .bin _ p _ _ _ _ hp (by omega) hl hr
  | .cond .., h => by cases h with | cond _ _ _ _ _ a b c => exact .cond _ _ _ _ (by omega) a b c
  | .assign .., h => by cases h with | assign _ _ _ _ _ _ a b c => exact .assign _ _ _ _ _ (by omega) a b c
  | .comma a b, h => by cases h with | comma _ _ ha _ => exact ha

/-- what follows the first operand: a comma, or the stop token of the whole expression -/
theorem rest_head (e : X) (stop : Tk) (rest : List Tk) (hstop : StopX stop.1) :
    ∃ t r, e.restToks ++ stop :: rest = t :: r ∧ StopA t.1 := by
  cases e with
  | comma a b => exact ⟨("COMMA", ","), _, rfl, stopA_comma⟩
  | _ => exact ⟨stop, rest, rfl, hstop.1⟩

/-- the loop of `_parse_expression` after the first operand of `e` has been consumed -/
def LoopOK (e : X) : Prop :=
  ∀ (acc : List Val) (s : PState) (stop : Tk) (rest : List Tk) (n0 : Nat), WFX 0 e → StopX stop.1 →
    SeesT s (e.restToks ++ stop :: rest) → s.idx = n0 + e.first.ntoks →
    ∀ F, e.fuel ≤ F + 1 → ∃ s', run F (.exprListLoop acc) s = .ok (acc ++ e.restItems n0) s' ∧
      SeesT s' (stop :: rest) ∧ s'.idx = n0 + e.ntoks

theorem loop_single (e : X) (hnc : e.restToks = []) (hri : ∀ n, e.restItems n = []) (hf : e.first = e) : LoopOK e := by
  intro acc s stop rest n0 _ hstop hs hi F hF
  obtain ⟨G, rfl⟩ : ∃ G, F = G + 1 := ⟨F - 1, by have := fuel_ge e; omega⟩
  rw [hnc] at hs
  obtain ⟨s1, h1, hs1, hi1⟩ := accept_other s _ "COMMA" hs
    (by intro k w r h; simp only [List.nil_append, List.cons.injEq] at h; have := hstop.2; rw [h.1] at this; exact this)
  refine ⟨s1, ?_, by simpa using hs1, by rw [hi1, hi, hf]⟩
  show pExprListLoop (run G) acc s = _
  simp [pExprListLoop, bnd, h1, pur, hri]

theorem loop_comma (a b : X) (hfb : AOK b.first) (hlb : LoopOK b) : LoopOK (.comma a b) := by
  intro acc s stop rest n0 hwf hstop hs hi F hF
  cases hwf with
  | comma _ _ hwa hwb =>
    obtain ⟨G, rfl⟩ : ∃ G, F = G + 1 := ⟨F - 1, by simp only [X.fuel] at hF; have := fuel_ge b; omega⟩
    simp only [X.fuel] at hF
    have hff := fuel_first b
    have hs0 : SeesT s (("COMMA", ",") :: (b.first.flat ++ (b.restToks ++ stop :: rest))) := by
      have := flat_first b
      simpa [X.restToks, this, List.append_assoc] using hs
    obtain ⟨s1, h1, hs1, hi1, _⟩ := accept_same s "COMMA" "," _ hs0
    obtain ⟨t, r, hhd, hst⟩ := rest_head b stop rest hstop
    rw [hhd] at hs1
    obtain ⟨s2, h2, hs2, hi2⟩ := hfb (wf_first b hwb) s1 t r hst hs1 G (by omega)
    rw [← hhd] at hs2
    simp only [X.first] at hi
    obtain ⟨s3, h3, hs3, hi3⟩ := hlb (acc ++ [b.first.val s1.idx]) s2 stop rest (n0 + a.ntoks + 1) hwb hstop hs2
      (by omega) G (by omega)
    refine ⟨s3, ?_, hs3, by simp only [X.ntoks]; omega⟩
    have e1 : s1.idx = n0 + a.ntoks + 1 := by omega
    rw [e1] at h2 h3
    have hitems : (X.comma a b).restItems n0 =
        b.first.val (n0 + a.ntoks + 1) :: b.restItems (n0 + a.ntoks + 1) := by
      simp only [X.restItems]; exact items_eq b _
    show pExprListLoop (run G) acc s = _
    simp only [pExprListLoop, bnd, h1, h2, h3, pur, hitems]
    simp

/-- `a , b` -/
theorem xok_comma (a b : X) (ha : AOK a) (hfb : AOK b.first) (hlb : LoopOK b) : XOK (.comma a b) := by
  intro hwf s stop rest hstop hs F hF
  cases hwf with
  | comma _ _ hwa hwb =>
    obtain ⟨G, rfl⟩ : ∃ G, F = G + 1 := ⟨F - 1, by simp only [X.fuel] at hF; have := fuel_ge b; omega⟩
    simp only [X.fuel] at hF
    have hff := fuel_first b
    have hs0 : SeesT s (a.flat ++ ("COMMA", ",") :: (b.first.flat ++ (b.restToks ++ stop :: rest))) := by
      have := flat_first b
      simpa [X.flat, this, List.append_assoc] using hs
    obtain ⟨s1, h1, hs1, hi1⟩ := ha hwa s ("COMMA", ",") _ stopA_comma hs0 G (by omega)
    obtain ⟨s2, h2, hs2, hi2, _⟩ := accept_same s1 "COMMA" "," _ hs1
    obtain ⟨t, r, hhd, hst⟩ := rest_head b stop rest hstop
    rw [hhd] at hs2
    obtain ⟨s3, h3, hs3, hi3⟩ := hfb (wf_first b hwb) s2 t r hst hs2 G (by omega)
    rw [← hhd] at hs3
    obtain ⟨s4, h4, hs4, hi4⟩ := hlb [a.val s.idx, b.first.val s2.idx] s3 stop rest (s.idx + a.ntoks + 1) hwb hstop hs3
      (by omega) G (by omega)
    refine ⟨s4, ?_, hs4, by simp only [X.ntoks]; omega⟩
    have hco := coordOf_val a s.idx s4
    have e2 : s2.idx = s.idx + a.ntoks + 1 := by omega
    rw [e2] at h3 h4
    have hitems : X.items (s.idx + a.ntoks + 1) b =
        b.first.val (s.idx + a.ntoks + 1) :: b.restItems (s.idx + a.ntoks + 1) := items_eq b _
    show pExpression (run G) s = _
    simp only [pExpression, bnd, h1, h2, h3, h4, hco, pur, X.val, hitems]
    simp


/-! ## all entry points, all expressions -/

theorem lift23 : ∀ e : X, (∀ c t f, e ≠ .cond c t f) → WFX 2 e → WFX 3 e
  | .id _, _, _ => .id _ _
  | .paren _, _, h => by cases h with | paren _ _ h => exact .paren _ _ h
  | .bin .., _, h => by cases h with | bin _ p _ _ _ _ hp _ hl hr => exact .bin _ p _ _ _ _ hp (by omega) hl hr
  | .cond c t f, hn, _ => absurd rfl (hn c t f)
  | .assign .., _, h => by cases h with | assign _ _ _ _ _ hL => omega
  | .comma .., _, h => by cases h

theorem lift12 : ∀ e : X, (∀ k v l r, e ≠ .assign k v l r) → WFX 1 e → WFX 2 e
  | .id _, _, _ => .id _ _
  | .paren _, _, h => by cases h with | paren _ _ h => exact .paren _ _ h
  | .bin .., _, h => by cases h with | bin _ p _ _ _ _ hp _ hl hr => exact .bin _ p _ _ _ _ hp (by omega) hl hr
  | .cond .., _, h => by cases h with | cond _ _ _ _ _ a b c => exact .cond _ _ _ _ (by omega) a b c
  | .assign k v l r, hn, _ => absurd rfl (hn k v l r)
  | .comma .., _, h => by cases h

theorem lift01 : ∀ e : X, (∀ a b, e ≠ .comma a b) → WFX 0 e → WFX 1 e
  | .id _, _, _ => .id _ _
  | .paren _, _, h => by cases h with | paren _ _ h => exact .paren _ _ h
  | .bin .., _, h => by cases h with | bin _ p _ _ _ _ hp _ hl hr => exact .bin _ p _ _ _ _ hp (by omega) hl hr
  | .cond .., _, h => by cases h with | cond _ _ _ _ _ a b c => exact .cond _ _ _ _ (by omega) a b c
  | .assign .., _, h => by cases h with | assign _ _ _ _ _ _ a b c => exact .assign _ _ _ _ _ (by omega) a b c
  | .comma a b, hn, _ => absurd rfl (hn a b)

/-- everything the induction carries about one expression -/
structure All (e : X) : Prop where
  b : BOK e
  c : COK e
  a : AOK e
  x : XOK e
  leaf : LeafOK e
  afirst : AOK e.first
  loop : LoopOK e

theorem bok_vacuous (e : X) (h : ∀ m, ¬ WFX (3 + m) e) : BOK e := fun m hw => absurd hw (h m)

theorem all_ok : ∀ e : X, All e
  | .id x => by
    have b := bok_of_leaves (.id x) trivial
    have c := cok_of_bok _ b (lift23 _ (by intro _ _ _ h; cases h))
    have a := aok_of_cok _ c (lift12 _ (by intro _ _ _ _ h; cases h))
    exact ⟨b, c, a, xok_of_aok _ a (lift01 _ (by intro _ _ h; cases h)), trivial, a,
      loop_single _ rfl (fun _ => rfl) rfl⟩
  | .paren e => by
    have ih := all_ok e
    have b := bok_of_leaves (.paren e) ih.x
    have c := cok_of_bok _ b (lift23 _ (by intro _ _ _ h; cases h))
    have a := aok_of_cok _ c (lift12 _ (by intro _ _ _ _ h; cases h))
    exact ⟨b, c, a, xok_of_aok _ a (lift01 _ (by intro _ _ h; cases h)), ih.x, a,
      loop_single _ rfl (fun _ => rfl) rfl⟩
  | .bin k v l r => by
    have ihl := all_ok l
    have ihr := all_ok r
    have b := bok_of_leaves (.bin k v l r) ⟨ihl.leaf, ihr.leaf⟩
    have c := cok_of_bok _ b (lift23 _ (by intro _ _ _ h; cases h))
    have a := aok_of_cok _ c (lift12 _ (by intro _ _ _ _ h; cases h))
    exact ⟨b, c, a, xok_of_aok _ a (lift01 _ (by intro _ _ h; cases h)), ⟨ihl.leaf, ihr.leaf⟩, a,
      loop_single _ rfl (fun _ => rfl) rfl⟩
  | .cond c t f => by
    have ihc := all_ok c
    have iht := all_ok t
    have ihf := all_ok f
    have b : BOK (.cond c t f) := bok_vacuous _ (by
      intro m h; generalize hL : 3 + m = L at h; cases h with | cond _ _ _ _ hL' => omega)
    have cc := cok_cond c t f ihc.b iht.x ihf.c
    have a := aok_of_cok _ cc (lift12 _ (by intro _ _ _ _ h; cases h))
    exact ⟨b, cc, a, xok_of_aok _ a (lift01 _ (by intro _ _ h; cases h)), trivial, a,
      loop_single _ rfl (fun _ => rfl) rfl⟩
  | .assign k v l r => by
    have ihl := all_ok l
    have ihr := all_ok r
    have b : BOK (.assign k v l r) := bok_vacuous _ (by
      intro m h; generalize hL : 3 + m = L at h; cases h with | assign _ _ _ _ _ hL' => omega)
    have cc : COK (.assign k v l r) := by intro h; cases h with | assign _ _ _ _ _ hL' => omega
    have a := aok_assign k v l r ihl.c ihr.a
    exact ⟨b, cc, a, xok_of_aok _ a (lift01 _ (by intro _ _ h; cases h)), trivial, a,
      loop_single _ rfl (fun _ => rfl) rfl⟩
  | .comma a b => by
    have iha := all_ok a
    have ihb := all_ok b
    have bb : BOK (.comma a b) := bok_vacuous _ (by
      intro m h; generalize hL : 3 + m = L at h; cases h with | comma => omega)
    have cc : COK (.comma a b) := by intro h; cases h
    have aa : AOK (.comma a b) := by intro h; cases h
    exact ⟨bb, cc, aa, xok_comma a b iha.a ihb.afirst ihb.loop, trivial, iha.a, loop_comma a b ihb.afirst ihb.loop⟩

/-- **The parser model parses the expression skeleton exactly as the C grammar derives it.**
For every expression `e` of `X` (identifiers, parentheses, the ten binary levels, `?:`, the
assignment operators, comma; any size and nesting) that is well-formed at the comma level, from
every state that sees its tokens followed by a token that cannot continue an expression,
`_parse_expression` returns `e.val` and consumes exactly the tokens of `e`. -/
theorem parse_full (e : X) (hwf : WFX 0 e) (s : PState) (stop : Tk) (rest : List Tk) (hstop : StopX stop.1)
    (hs : SeesT s (e.flat ++ stop :: rest)) (F : Nat) (hF : e.fuel ≤ F) :
    ∃ s', run F .expression s = .ok (e.val s.idx) s' ∧ SeesT s' (stop :: rest) ∧ s'.idx = s.idx + e.ntoks :=
  (all_ok e).x hwf s stop rest hstop hs F hF

theorem fuel_linear : ∀ e : X, e.fuel ≤ 13 * e.ntoks
  | .id _ => by simp [X.fuel, X.ntoks]
  | .paren e => by have := fuel_linear e; simp only [X.fuel, X.ntoks]; omega
  | .bin _ _ l r => by have := fuel_linear l; have := fuel_linear r; simp only [X.fuel, X.ntoks]; omega
  | .cond c t f => by
    have := fuel_linear c; have := fuel_linear t; have := fuel_linear f; simp only [X.fuel, X.ntoks]; omega
  | .assign _ _ l r => by have := fuel_linear l; have := fuel_linear r; simp only [X.fuel, X.ntoks]; omega
  | .comma a b => by have := fuel_linear a; have := fuel_linear b; simp only [X.fuel, X.ntoks]; omega


/-- non-vacuity: `a = b ? c , d : e , ( f + g ) * h ;` from the initial state -/
example : ∃ s',
    run 400 .expression
      (initState ([("ID", "a"), ("EQUALS", "="), ("ID", "b"), ("CONDOP", "?"), ("ID", "c"), ("COMMA", ","), ("ID", "d"),
                   ("COLON", ":"), ("ID", "e"), ("COMMA", ","), ("LPAREN", "("), ("ID", "f"), ("PLUS", "+"), ("ID", "g"),
                   ("RPAREN", ")"), ("TIMES", "*"), ("ID", "h"), ("SEMI", ";")].map (fun t => SEv.tok t.1 t.2) ++ [.eof]))
      = .ok (mk .ExprList (some ⟨"", 0, some 1⟩) [.list [
              mk .Assignment (some ⟨"", 0, some 1⟩) [.str "=", idNode 0 "a",
                mk .TernaryOp (some ⟨"", 2, some 3⟩) [idNode 2 "b",
                  mk .ExprList (some ⟨"", 4, some 5⟩) [.list [idNode 4 "c", idNode 6 "d"]],
                  idNode 8 "e"]],
              mk .BinaryOp (some ⟨"", 11, some 12⟩) [.str "*",
                mk .BinaryOp (some ⟨"", 11, some 12⟩) [.str "+", idNode 11 "f", idNode 13 "g"],
                idNode 16 "h"]]]) s' ∧ SeesT s' [("SEMI", ";")] := by
  let e : X := .comma
    (.assign "EQUALS" "=" (.id "a") (.cond (.id "b") (.comma (.id "c") (.id "d")) (.id "e")))
    (.bin "TIMES" "*" (.paren (.bin "PLUS" "+" (.id "f") (.id "g"))) (.id "h"))
  have hwf : WFX 0 e := by
    refine .comma _ _ (.assign _ _ _ _ _ (by omega) (by decide) (.id _ _) ?_) ?_
    · exact .cond _ _ _ _ (by omega) (.id _ _) (.comma _ _ (.id _ _) (.id _ _)) (.id _ _)
    · exact .bin _ 9 _ _ _ _ (by decide) (by omega) (.paren _ _ (.bin _ 8 _ _ _ _ (by decide) (by omega) (.id _ _) (.id _ _))) (.id _ _)
  have hs := ParenExpr.seesT_init [("ID", "a"), ("EQUALS", "="), ("ID", "b"), ("CONDOP", "?"), ("ID", "c"), ("COMMA", ","), ("ID", "d"),
    ("COLON", ":"), ("ID", "e"), ("COMMA", ","), ("LPAREN", "("), ("ID", "f"), ("PLUS", "+"), ("ID", "g"),
    ("RPAREN", ")"), ("TIMES", "*"), ("ID", "h"), ("SEMI", ";")]
  have hstop : StopX ("SEMI", ";").1 := ⟨⟨⟨⟨by decide, by decide⟩, by decide⟩, by decide⟩, by decide⟩
  obtain ⟨s', hr, hs', _⟩ := parse_full e hwf _ ("SEMI", ";") [] hstop hs 400 (by decide)
  exact ⟨s', hr, hs'⟩

end PycModel.FullExpr
