import PycModel.Proofs.PresStmt
import PycModel.Proofs.StreamLemmas
/-!
# The token-stream relation: what any amount of parsing can do to the lexer side of the state

`Adv s s'`: the unread events of `s'` are a suffix of those of `s`, what was removed in between
are only token events (never an error, `stuck` or end-of-input event), `pulled` counts them, and
the buffering invariants are kept.  It is reflexive, transitive and respected by every primitive,
hence (by `run_pres`) by every run of every production.
-/
namespace PycModel

def SEv.isTok : SEv → Bool
  | .tok _ _ => true
  | _ => false

/-- a `None` in the token buffer means the lexer has reached end of input -/
def AtEndIfNone (s : PState) : Prop :=
  (∃ i : Nat, s.buf[i]? = some none) → (s.raw = [] ∨ ∃ r, s.raw = .eof :: r)

structure Good (s : PState) : Prop where
  calls : s.lexCalls = s.buf.size
  atEnd : AtEndIfNone s
  scopes : s.scopes ≠ []

structure Adv (s s' : PState) : Prop where
  suffix : ∃ pre, s.raw = pre ++ s'.raw ∧ (∀ e ∈ pre, e.isTok = true) ∧ s'.pulled = s.pulled + pre.length
  good : Good s → Good s'
  bufMono : s.buf.size ≤ s'.buf.size

theorem Adv.refl (s : PState) : Adv s s :=
  ⟨⟨[], by simp⟩, id, Nat.le_refl _⟩

theorem Adv.trans (a b c : PState) (h1 : Adv a b) (h2 : Adv b c) : Adv a c := by
  obtain ⟨p1, e1, t1, n1⟩ := h1.suffix
  obtain ⟨p2, e2, t2, n2⟩ := h2.suffix
  refine ⟨⟨p1 ++ p2, ?_, ?_, ?_⟩, fun g => h2.good (h1.good g), Nat.le_trans h1.bufMono h2.bufMono⟩
  · rw [e1, e2, List.append_assoc]
  · intro e he
    rcases List.mem_append.mp he with he | he
    · exact t1 e he
    · exact t2 e he
  · rw [n2, n1, List.length_append]; omega

/-- what one lexer call does to the state -/
structure LexStep (s s' : PState) (t : Option PTok) : Prop where
  suffix : ∃ pre, s.raw = pre ++ s'.raw ∧ (∀ e ∈ pre, e.isTok = true) ∧ s'.pulled = s.pulled + pre.length
  buf : s'.buf = s.buf
  idx : s'.idx = s.idx
  calls : s'.lexCalls = s.lexCalls + 1
  scopes : s.scopes ≠ [] → s'.scopes ≠ []
  none_end : t = none → (s'.raw = [] ∨ ∃ r, s'.raw = .eof :: r)
  end_stays : (s.raw = [] ∨ ∃ r, s.raw = .eof :: r) → s'.raw = s.raw

theorem lexToken_step (s s' : PState) (t : Option PTok) (h : lexToken s = .ok t s') : LexStep s s' t := by
  unfold lexToken at h
  split at h
  · rename_i hr
    cases h
    exact ⟨⟨[], by simp⟩, rfl, rfl, rfl, id, fun _ => Or.inl hr, fun _ => rfl⟩
  · rename_i r hr
    cases h
    exact ⟨⟨[], by simp⟩, rfl, rfl, rfl, id, fun _ => Or.inr ⟨r, hr⟩, fun _ => rfl⟩
  · cases h
  · cases h
  · rename_i k v r hr
    have hnot : ¬ (s.raw = [] ∨ ∃ r', s.raw = SEv.eof :: r') := by
      rw [hr]; rintro (h | ⟨r', h⟩) <;> cases h
    have hsuf : ∀ r', r' = r → ∃ pre, s.raw = pre ++ r' ∧ (∀ e ∈ pre, e.isTok = true) ∧
        s.pulled + 1 = s.pulled + pre.length := by
      intro r' e; subst e
      exact ⟨[.tok k v], by simp [hr], by intro e he; simp at he; subst he; rfl, by simp⟩
    simp only at h
    split at h
    · cases h
      exact ⟨hsuf _ rfl, rfl, rfl, rfl, fun _ => by simp, fun e => by simp at e, fun e => absurd e hnot⟩
    · split at h
      · split at h
        · cases h
          exact ⟨hsuf _ rfl, rfl, rfl, rfl, fun _ => by simp, fun e => by simp at e, fun e => absurd e hnot⟩
        · cases h
          exact ⟨hsuf _ rfl, rfl, rfl, rfl, id, fun e => by simp at e, fun e => absurd e hnot⟩
      · cases h
        exact ⟨hsuf _ rfl, rfl, rfl, rfl, id, fun e => by simp at e, fun e => absurd e hnot⟩

theorem push_adv (s s1 : PState) (t : Option PTok) (hl : LexStep s s1 t) :
    Adv s { s1 with buf := s1.buf.push t } := by
  refine ⟨hl.suffix, ?_, ?_⟩
  · intro g
    refine ⟨?_, ?_, hl.scopes g.scopes⟩
    · simp only [Array.size_push]; rw [hl.calls, hl.buf, g.calls]
    · intro ⟨i, hi⟩
      simp only at hi ⊢
      rw [hl.buf] at hi
      by_cases hlt : i < s.buf.size
      · have : s.buf[i]? = some none := by
          rw [Array.getElem?_push] at hi
          simp only [Nat.ne_of_lt hlt, ↓reduceIte] at hi
          exact hi
        have he := g.atEnd ⟨i, this⟩
        rw [hl.end_stays he]; exact he
      · rw [Array.getElem?_push] at hi
        by_cases heq : i = s.buf.size
        · simp only [heq, ↓reduceIte] at hi
          exact hl.none_end (by simpa using hi)
        · simp only [heq, ↓reduceIte] at hi
          have : s.buf.size ≤ i := Nat.le_of_not_lt hlt
          simp [Array.getElem?_eq_none this] at hi
  · simp only [Array.size_push]; rw [hl.buf]; omega

theorem fill_adv : ∀ (fuel n : Nat) (s s' : PState), fill fuel n s = .ok () s' →
    Adv s s' ∧ s'.idx = s.idx := by
  intro fuel
  induction fuel with
  | zero => intro n s s' h; simp [fill, pure] at h; cases h; exact ⟨Adv.refl _, rfl⟩
  | succ f ih =>
    intro n s s' h
    unfold fill at h
    split at h
    · split at h
      · cases h
      · rename_i tok s1 hl
        have st := lexToken_step s s1 tok hl
        have a1 := push_adv s s1 tok st
        split at h
        · cases h; exact ⟨a1, st.idx⟩
        · have r := ih n _ s' h
          exact ⟨Adv.trans _ _ _ a1 r.1, by rw [r.2]; exact st.idx⟩
    · cases h; exact ⟨Adv.refl _, rfl⟩

/-- changing only the read index / tick counter is an `Adv` step -/
theorem Adv.of_same (s s' : PState) (hr : s'.raw = s.raw) (hp : s'.pulled = s.pulled) (hb : s'.buf = s.buf)
    (hc : s'.lexCalls = s.lexCalls) (hs : s'.scopes = s.scopes) : Adv s s' := by
  refine ⟨⟨[], by simp [hr, hp]⟩, ?_, by rw [hb]; exact Nat.le_refl _⟩
  intro g
  refine ⟨by rw [hc, hb]; exact g.calls, ?_, by rw [hs]; exact g.scopes⟩
  intro ⟨i, hi⟩
  rw [hb] at hi
  rw [hr]; exact g.atEnd ⟨i, hi⟩

theorem adv_primOK : PrimOK Adv where
  refl := Adv.refl
  trans := Adv.trans
  peekK := by
    intro k
    unfold Pres
    intro s a s' h
    unfold PycModel.peekK at h
    split at h
    · cases h; exact Adv.refl _
    · split at h
      · cases h
      · rename_i s1 hf
        have r := fill_adv k k _ s1 hf
        have a0 : Adv s { s with ticks := s.ticks + 1 } := Adv.of_same _ _ rfl rfl rfl rfl rfl
        split at h
        · cases h; exact Adv.trans _ _ _ a0 r.1
        · cases h
  nextTok := by
    unfold Pres
    intro s a s' h
    unfold PycModel.nextTok at h
    split at h
    · cases h
    · rename_i s1 hf
      have r := fill_adv 1 1 _ s1 hf
      have a0 : Adv s { s with ticks := s.ticks + 1 } := Adv.of_same _ _ rfl rfl rfl rfl rfl
      split at h
      · cases h
        exact Adv.trans _ _ _ (Adv.trans _ _ _ a0 r.1) (Adv.of_same _ _ rfl rfl rfl rfl rfl)
      · cases h
  reset := by
    intro m
    unfold Pres
    intro s a s' h
    simp [PycModel.reset, modifyState] at h
    cases h
    exact Adv.of_same _ _ rfl rfl rfl rfl rfl
  addTypedefName := by
    intro n c
    unfold Pres
    intro s a s' h
    unfold PycModel.addTypedefName at h
    split at h
    · cases h
    · split at h
      · cases h
      · cases h
        refine ⟨⟨[], by simp⟩, ?_, Nat.le_refl _⟩
        intro g
        exact ⟨g.calls, g.atEnd, by simp⟩
  addIdentifier := by
    intro n c
    unfold Pres
    intro s a s' h
    unfold PycModel.addIdentifier at h
    split at h
    · cases h
    · split at h
      · cases h
      · cases h
        refine ⟨⟨[], by simp⟩, ?_, Nat.le_refl _⟩
        intro g
        exact ⟨g.calls, g.atEnd, by simp⟩

/-- **every run of every production** only ever removes token events from the front of the
lexer's output, and keeps the buffering invariants -/
theorem run_adv (fuel : Nat) (nt : NT) (s : PState) (a : nt.Res) (s' : PState)
    (h : run fuel nt s = .ok a s') : Adv s s' := by
  have := run_pres adv_primOK fuel nt
  unfold Pres at this
  exact this s a s' h

end PycModel

namespace PycModel

theorem peek_none_buf (s s' : PState) (h : peek s = .ok none s') : ∃ i : Nat, s'.buf[i]? = some none := by
  unfold peek PycModel.peekK at h
  split at h
  · simp at *
  · split at h
    · cases h
    · split at h
      · rename_i t ht
        cases h
        exact ⟨_, ht⟩
      · cases h

theorem good_init (evs : List SEv) : Good (initState evs) :=
  ⟨rfl, fun ⟨i, hi⟩ => by simp [initState] at hi, by simp [initState]⟩

/-- **A successful parse has read the whole input and met no lexer error on the way**: the
stripped event stream consists of token events followed by end of input; it contains no error
event (illegal character, comment, malformed literal, bad `#line`/`#pragma`) and no `stuck`
event before that point — whatever the grammar did with the tokens. -/
theorem parse_ok_stream_shape (fuel : Nat) (evs : List SEv) (v : Val) (sf : PState)
    (h : parseCore fuel evs = (.ast v, some sf)) :
    ∃ toks rest, evs = toks ++ rest ∧ (∀ e ∈ toks, e.isTok = true) ∧
      (rest = [] ∨ ∃ r, rest = .eof :: r) ∧ sf.lexCalls = sf.buf.size := by
  unfold parseCore at h
  simp only at h
  split at h
  · rename_i v' s' hp
    cases h
    -- decompose the `do` block
    simp only [bind, Bind.bind] at hp
    split at hp
    · rename_i ext s1 h1
      split at hp
      · rename_i tk s2 h2
        cases tk with
        | some t =>
          simp only [bind, Bind.bind] at hp
          split at hp <;> simp [parseError, P.fail] at hp
        | none =>
          simp only [pure, Pure.pure] at hp
          cases hp
          -- first part respects Adv
          have a1 : Adv (initState evs) s1 := by
            split at h1
            · rename_i pk s0 h0
              have a0 : Adv (initState evs) s0 := by
                have := adv_primOK.peekK 1; unfold Pres at this; exact this _ _ _ h0
              split at h1
              · simp only [pure, Pure.pure] at h1; cases h1; exact a0
              · exact Adv.trans _ _ _ a0 (run_adv fuel _ _ _ _ h1)
            · cases h1
          have a2 : Adv s1 sf := by
            have := adv_primOK.peekK 1; unfold Pres at this; exact this _ _ _ h2
          have a := Adv.trans _ _ _ a1 a2
          have g := a.good (good_init evs)
          obtain ⟨pre, e, ht, _⟩ := a.suffix
          exact ⟨pre, sf.raw, e, ht, g.atEnd (peek_none_buf _ _ h2), g.calls⟩
      · cases hp
    · cases hp
  all_goals cases h

end PycModel
