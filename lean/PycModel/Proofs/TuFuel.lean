import PycModel.Proofs.TransUnit
/-!
# The recursion budget of a translation unit is linear in its size

`extsFuel l` - the fuel with which `parse_translation_unit` holds, i.e. a bound on recursion depth
plus loop iterations of the parser model on the program - is at most `17 × tokens + 1`.
-/
namespace PycModel.TuFuel
open PycModel PycModel.View PycModel.FullExpr PycModel.StmtSkel PycModel.DeclSkel PycModel.DeclParse PycModel.Params
  PycModel.TransUnit

theorem starsNtoks_pos : ∀ stars : List (List Tk), stars ≠ [] → 1 ≤ starsNtoks stars
  | [], h => absurd rfl h
  | q :: r, _ => by simp [starsNtoks]; omega

theorem ofuel_le (o : Option X) : DeclSkel.ofuel o ≤ 13 * DeclSkel.ont o := by
  cases o with
  | none => simp [DeclSkel.ofuel, DeclSkel.ont]
  | some e => exact FullExpr.fuel_linear e

theorem D.fuel_linear {d : D} (hwf : WFD d) : d.fuel + 7 ≤ 13 * d.ntoks := by
  induction hwf with
  | name x => simp [D.fuel, D.ntoks]
  | paren d _ ih => simp only [D.fuel, D.ntoks]; omega
  | ptr stars d hne _ _ _ ih =>
    have := starsNtoks_pos stars hne
    simp only [D.fuel, D.ntoks]; omega
  | arr d dim _ _ _ ih =>
    have := ofuel_le dim
    simp only [D.fuel, D.ntoks]; omega
  | fn0 d _ _ ih => simp only [D.fuel, D.ntoks]; omega

theorem dStars_le : ∀ d : D, starsNtoks (dStars d) ≤ d.ntoks
  | .name _ => by simp [dStars, starsNtoks]
  | .paren d => by simp [dStars, starsNtoks]
  | .ptr st d => by have := dStars_le d; simp only [dStars, starsNtoks_append, D.ntoks]; omega
  | .arr d _ => by have := dStars_le d; simp only [dStars, D.ntoks]; omega
  | .fn0 d => by have := dStars_le d; simp only [dStars, D.ntoks]; omega

theorem IDc.fuel_linear {it : IDc} (hwf : WFI it) : it.fuel ≤ 14 * it.ntoks + 1 := by
  have h1 := D.fuel_linear hwf.wfd
  cases hi : it.init with
  | none => simp only [IDc.fuel, IDc.ntoks, hi, DeclParse.ifuel]; omega
  | some e =>
    have := Init.I.fuel_linear e
    simp only [IDc.fuel, IDc.ntoks, hi, DeclParse.ifuel]; omega

theorem restFuel_linear : ∀ (l : List IDc), (∀ it ∈ l, WFI it) → restFuel l ≤ 14 * restNtoks l + 1
  | [], _ => by simp [restFuel, restNtoks]
  | it :: r, h => by
    have h1 := IDc.fuel_linear (h it List.mem_cons_self)
    have h2 := restFuel_linear r (fun i hi => h i (List.mem_cons_of_mem _ hi))
    simp only [restFuel, restNtoks]; omega

theorem Dcl.fuel_linear {dc : Dcl} (hwf : WFDcl dc) : dc.fuel ≤ 14 * dc.ntoks := by
  have h1 := IDc.fuel_linear hwf.first
  have h2 := restFuel_linear dc.more hwf.more
  simp only [Dcl.fuel, Dcl.ntoks]; omega

theorem Dcl.ntoks_pos (dc : Dcl) : 1 ≤ dc.ntoks := by simp only [Dcl.ntoks]; omega

theorem sofuel_linear (o : Option X) : StmtSkel.ofuel o ≤ 13 * StmtSkel.ont o := by
  cases o with
  | none => simp [StmtSkel.ofuel, StmtSkel.ont]
  | some e => exact FullExpr.fuel_linear e

mutual
/-- the fuel the statement theorem asks for is linear in the number of tokens -/
theorem S.fuel_linear {ty : String → Bool} : ∀ st : S, WFS ty st → st.fuel + 2 ≤ 17 * st.ntoks
  | .expr e, _ => by have := FullExpr.fuel_linear e; simp only [S.fuel, S.ntoks]; omega
  | .empty, _ => by simp [S.fuel, S.ntoks]
  | .block items, hw => by
    cases hw with
    | block _ hwi => have := SL.fuel_linear items hwi; simp only [S.fuel, S.ntoks]; omega
  | .ifThen c t, hw => by
    cases hw with
    | ifThen _ _ _ hwt =>
      have := FullExpr.fuel_linear c; have := S.fuel_linear t hwt; simp only [S.fuel, S.ntoks]; omega
  | .ifElse c t f, hw => by
    cases hw with
    | ifElse _ _ _ _ hwt _ hwf =>
      have := FullExpr.fuel_linear c; have := S.fuel_linear t hwt; have := S.fuel_linear f hwf
      simp only [S.fuel, S.ntoks]; omega
  | .while_ c b, hw => by
    cases hw with
    | while_ _ _ _ hwb =>
      have := FullExpr.fuel_linear c; have := S.fuel_linear b hwb; simp only [S.fuel, S.ntoks]; omega
  | .doWhile b c, hw => by
    cases hw with
    | doWhile _ _ hwb _ =>
      have := FullExpr.fuel_linear c; have := S.fuel_linear b hwb; simp only [S.fuel, S.ntoks]; omega
  | .ret none, _ => by simp [S.fuel, S.ntoks]
  | .ret (some e), _ => by have := FullExpr.fuel_linear e; simp only [S.fuel, S.ntoks]; omega
  | .brk, _ => by simp [S.fuel, S.ntoks]
  | .cont, _ => by simp [S.fuel, S.ntoks]
  | .case_ e st, hw => by
    cases hw with
    | case_ _ _ _ hws =>
      have := FullExpr.fuel_linear e; have := S.fuel_linear st hws; simp only [S.fuel, S.ntoks]; omega
  | .default_ st, hw => by
    cases hw with
    | default_ _ hws => have := S.fuel_linear st hws; simp only [S.fuel, S.ntoks]; omega
  | .switch_ c b, hw => by
    cases hw with
    | switch_ _ _ _ hwb =>
      have := FullExpr.fuel_linear c; have := S.fuel_linear b hwb; simp only [S.fuel, S.ntoks]; omega
  | .for_ i c n b, hw => by
    cases hw with
    | for_ _ _ _ _ _ _ _ hwb =>
      have := sofuel_linear i; have := sofuel_linear c; have := sofuel_linear n; have := S.fuel_linear b hwb
      simp only [S.fuel, S.ntoks]; omega
  | .forD dc c n b, hw => by
    cases hw with
    | forD _ _ _ _ hwd _ _ _ hwb =>
      have := Dcl.fuel_linear hwd; have := sofuel_linear c; have := sofuel_linear n; have := S.fuel_linear b hwb
      simp only [S.fuel, S.ntoks]; omega
  | .goto_ _, _ => by simp [S.fuel, S.ntoks]
  | .label _ st, hw => by
    cases hw with
    | label _ _ hws => have := S.fuel_linear st hws; simp only [S.fuel, S.ntoks]; omega
theorem SL.fuel_linear {ty : String → Bool} : ∀ l : SL, WFSL ty l → l.fuel ≤ 17 * l.ntoks + 1
  | .nil, _ => by simp [SL.fuel, SL.ntoks]
  | .cons st r, hw => by
    cases hw with
    | cons _ _ hws hwr =>
      have := S.fuel_linear st hws; have := SL.fuel_linear r hwr; simp only [SL.fuel, SL.ntoks]; omega
  | .consD dc r, hw => by
    cases hw with
    | consD _ _ hwd _ hwr =>
      have := Dcl.fuel_linear hwd; have := Dcl.ntoks_pos dc; have := SL.fuel_linear r hwr
      simp only [SL.fuel, SL.ntoks]; omega
  | .consP p r, hw => by
    cases hw with
    | consP _ _ hwr =>
      have := SL.fuel_linear r hwr
      cases p <;> simp only [SL.fuel, SL.ntoks, pragmaNtoks] <;> omega
end

theorem Param.fuel_linear {p : Param} (hwf : WFParam p) : p.fuel ≤ 14 * p.ntoks + 1 := by
  have h1 := D.fuel_linear hwf.wfd
  have h3 : 1 ≤ p.specs.length := by
    cases hsp : p.specs with
    | nil => exact absurd hsp (sawAfter_ne_nil hwf.sawType)
    | cons t r => simp
  simp only [Param.fuel, Param.ntoks]; omega

theorem PItem.fuel_linear {ty : String → Bool} {p : PItem} (hwf : WFPItem ty p) : p.fuel ≤ 14 * p.ntoks + 1 := by
  cases p with
  | named p => exact Param.fuel_linear (show WFParam p from hwf)
  | unnamed u =>
    have hw : WFParamU ty u := hwf
    have h3 : 1 ≤ u.specs.length := by
      cases hsp : u.specs with
      | nil => exact absurd hsp (sawAfter_ne_nil hw.sawType)
      | cons t r => simp
    simp only [PItem.fuel, PItem.ntoks, ParamU.fuel, ParamU.ntoks]; omega

theorem paramsRestFuel_linear {ty : String → Bool} : ∀ (l : List PItem), (∀ p ∈ l, WFPItem ty p) →
    paramsRestFuel l ≤ 14 * paramsRestNtoks l + 1
  | [], _ => by simp [paramsRestFuel, paramsRestNtoks]
  | p :: r, h => by
    have h1 := PItem.fuel_linear (h p List.mem_cons_self)
    have h2 := paramsRestFuel_linear r (fun i hi => h i (List.mem_cons_of_mem _ hi))
    simp only [paramsRestFuel, paramsRestNtoks]; omega

theorem Ext.fuel_linear {ty : String → Bool} : ∀ (e : Ext), WFExt ty e → e.fuel ≤ 17 * e.ntoks ∧ 1 ≤ e.ntoks
  | .decl dc, hw => by
    have h1 := Dcl.fuel_linear (show WFDcl dc from hw)
    have h3 := Dcl.ntoks_pos dc
    simp only [Ext.fuel, Ext.ntoks]; omega
  | .fdef f, hw => by
    have hw' : WFFDef ty f := hw
    have h1 := D.fuel_linear hw'.wfd
    have h3 := SL.fuel_linear f.body hw'.body
    simp only [Ext.fuel, Ext.ntoks, FDef.fuel, FDef.ntoks]; omega
  | .fdefp f, hw => by
    have hw' : WFFDefP ty f := hw
    have h3 := SL.fuel_linear f.body hw'.body
    have hp := hw'.params
    cases hpv : f.fd.params with
    | named l =>
      rw [hpv] at hp
      have hp' : WFPL ty l := hp
      have h1 := PItem.fuel_linear hp'.first
      have h2 := paramsRestFuel_linear l.more hp'.more
      simp only [Ext.fuel, Ext.ntoks, FDefP.fuel, FDefP.ntoks, FD.fuel, FD.ntoks, hpv, PLV.fuel, PLV.ntoks, PL.fuel, PL.ntoks]; omega
    | void =>
      simp only [Ext.fuel, Ext.ntoks, FDefP.fuel, FDefP.ntoks, FD.fuel, FD.ntoks, hpv, PLV.fuel, PLV.ntoks]; omega
  | .proto p, hw => by
    have hw' : WFProto ty p := hw
    have h3 := restFuel_linear p.more hw'.more
    have hne : 1 ≤ p.specs.length := by
      have := DeclParse.sawAfter_ne_nil hw'.sawType
      cases hsp : p.specs with
      | nil => exact absurd hsp this
      | cons t r => simp
    have hp := hw'.params
    cases hpv : p.fd.params with
    | named l =>
      rw [hpv] at hp
      have hp' : WFPL ty l := hp
      have h1 := PItem.fuel_linear hp'.first
      have h2 := paramsRestFuel_linear l.more hp'.more
      simp only [Ext.fuel, Ext.ntoks, Proto.fuel, Proto.ntoks, FD.fuel, FD.ntoks, hpv, PLV.fuel, PLV.ntoks, PL.fuel, PL.ntoks]; omega
    | void =>
      simp only [Ext.fuel, Ext.ntoks, Proto.fuel, Proto.ntoks, FD.fuel, FD.ntoks, hpv, PLV.fuel, PLV.ntoks]; omega

/-- **the recursion budget of a whole translation unit is linear in the number of its tokens** -/
theorem extsFuel_linear {ty : String → Bool} : ∀ (l : List Ext), (∀ e ∈ l, WFExt ty e) → extsFuel l ≤ 17 * extsNtoks l + 1
  | [], _ => by simp [extsFuel, extsNtoks]
  | e :: r, h => by
    have h1 := Ext.fuel_linear e (h e List.mem_cons_self)
    have h2 := extsFuel_linear r (fun i hi => h i (List.mem_cons_of_mem _ hi))
    simp only [extsFuel, extsNtoks]; omega

theorem extsFlat_length : ∀ (l : List Ext), (extsFlat l).length = extsNtoks l
  | [] => rfl
  | e :: r => by
    have : e.flat.length = e.ntoks := by
      cases e with
      | decl dc => exact DeclParse.Dcl.flat_length dc
      | fdef f =>
        simp [Ext.flat, Ext.ntoks, FDef.flat, FDef.ntoks, bodyFlat, DeclSkel.flat_length, SL.flat_length]; omega
      | fdefp f =>
        have hp : ∀ l : List PItem, (paramsRestFlat l).length = paramsRestNtoks l := by
          intro l
          induction l with
          | nil => rfl
          | cons p r ih => simp [paramsRestFlat, paramsRestNtoks, PItem.flat_length, ih]; omega
        cases hpv : f.fd.params with
        | named l =>
          simp [Ext.flat, Ext.ntoks, FDefP.flat, FDefP.ntoks, FD.flat, FD.ntoks, hpv, PLV.flat, PLV.ntoks, PL.flat, PL.ntoks, bodyFlat,
            PItem.flat_length, SL.flat_length, hp]
          omega
        | void =>
          simp [Ext.flat, Ext.ntoks, FDefP.flat, FDefP.ntoks, FD.flat, FD.ntoks, hpv, PLV.flat, PLV.ntoks, bodyFlat, SL.flat_length]
          omega
      | proto p =>
        have hp : ∀ l : List PItem, (paramsRestFlat l).length = paramsRestNtoks l := by
          intro l
          induction l with
          | nil => rfl
          | cons p r ih => simp [paramsRestFlat, paramsRestNtoks, PItem.flat_length, ih]; omega
        have h2 : ∀ l : List IDc, (restFlat l).length = restNtoks l := by
          intro l
          induction l with
          | nil => rfl
          | cons it r ih => simp [restFlat, restNtoks, ih, it.flat_length]; omega
        cases hpv : p.fd.params with
        | named l =>
          simp [Ext.flat, Ext.ntoks, Proto.flat, Proto.ntoks, FD.flat, FD.ntoks, hpv, PLV.flat, PLV.ntoks, PL.flat, PL.ntoks,
            PItem.flat_length, hp, h2]
          omega
        | void =>
          simp [Ext.flat, Ext.ntoks, Proto.flat, Proto.ntoks, FD.flat, FD.ntoks, hpv, PLV.flat, PLV.ntoks, h2]
          omega
    simp [extsFlat, extsNtoks, this, extsFlat_length r]

end PycModel.TuFuel
