import PycModel.Proofs.FullExpr
/-!
# Initializers: assignment expressions and (nested) brace lists, with designators

`I ::= X | { } | { item , ... , item } | { item , ... , item , }`, `item ::= I | designator+ = I`,
`designator ::= . name | [ X ]`, with the expressions of `Proofs/FullExpr.lean` (initializers at the
assignment level, designator indices at the conditional level).  `init_ok`: `_parse_initializer`
returns `I.val`: an expression is its expression; a brace list is an `InitList` whose items are the
initializers in source order - nested lists stay nested, a trailing comma changes nothing, `{ }` is
the empty `InitList` located at its `{`, a non-empty one is located where its first item is (a
designated item is a `NamedInitializer`, which the parser builds without a coordinate).
-/
namespace PycModel.Init
open PycModel PycModel.View PycModel.OperandId PycModel.FullExpr

variable {env : Env}

/-- `. name` or `[ constant-expression ]` -/
inductive Desig where
  | field (name : String)
  | index (e : X)

def Desig.ntoks : Desig → Nat
  | .field _ => 2
  | .index e => e.ntoks + 2
def Desig.flat : Desig → List Tk
  | .field x => [("PERIOD", "."), ("ID", x)]
  | .index e => ("LBRACKET", "[") :: (e.flat ++ [("RBRACKET", "]")])
/-- the designator as the parser stores it: an `ID` or the index expression -/
def Desig.val (n : Nat) : Desig → Val
  | .field x => ParenExpr.idNode (n + 1) x
  | .index e => e.val (n + 1)
def Desig.fuel : Desig → Nat
  | .field _ => 1
  | .index e => e.fuel
def Desig.WF : Desig → Prop
  | .field _ => True
  | .index e => WFX 2 e

def dsNtoks : List Desig → Nat
  | [] => 0
  | d :: r => d.ntoks + dsNtoks r
def dsFlat : List Desig → List Tk
  | [] => []
  | d :: r => d.flat ++ dsFlat r
def dsVals : Nat → List Desig → List Val
  | _, [] => []
  | n, d :: r => d.val n :: dsVals (n + d.ntoks) r
def dsFuel : List Desig → Nat
  | [] => 1
  | d :: r => d.fuel + dsFuel r + 2

/-- tokens in front of the initializer of an item: the designation and its `=` -/
def preNtoks (ds : List Desig) : Nat := if ds.isEmpty then 0 else dsNtoks ds + 1
def preFlat (ds : List Desig) : List Tk := if ds.isEmpty then [] else dsFlat ds ++ [("EQUALS", "=")]

mutual
inductive I where
  | expr (e : X)
  | list (items : IL) (trailing : Bool)
/-- items of a brace list: each with its (possibly empty) designation -/
inductive IL where
  | nil
  | cons (ds : List Desig) (i : I) (rest : IL)
end

mutual
def I.ntoks : I → Nat
  | .expr e => e.ntoks
  | .list items tr => items.ntoks + 2 + (if tr then 1 else 0)
def IL.ntoks : IL → Nat
  | .nil => 0
  | .cons ds i .nil => preNtoks ds + i.ntoks
  | .cons ds i (.cons ds2 j r) => preNtoks ds + i.ntoks + 1 + (IL.cons ds2 j r).ntoks
end

mutual
def I.flat : I → List Tk
  | .expr e => e.flat
  | .list items tr => ("LBRACE", "{") :: (items.flat ++ ((if tr then [("COMMA", ",")] else []) ++ [("RBRACE", "}")]))
def IL.flat : IL → List Tk
  | .nil => []
  | .cons ds i .nil => preFlat ds ++ i.flat
  | .cons ds i (.cons ds2 j r) => preFlat ds ++ i.flat ++ ("COMMA", ",") :: (IL.cons ds2 j r).flat
end

/-- the value of one item whose first token is at `n`, given the value of its initializer -/
def itemVal (n : Nat) (ds : List Desig) (iv : Val) : Val :=
  if ds.isEmpty then iv else mk .NamedInitializer none [.list (dsVals n ds), iv]

mutual
/-- the AST of the initializer whose first token is at position `n` -/
def I.val (n : Nat) : I → Val
  | .expr e => e.val n
  | .list .nil _ => mk .InitList (tc n) [.list []]
  | .list (.cons ds i r) _ =>
    mk .InitList (X.coordOfVal (itemVal (n + 1) ds (i.val (n + 1 + preNtoks ds)))) [.list (IL.vals (n + 1) (.cons ds i r))]
def IL.vals (n : Nat) : IL → List Val
  | .nil => []
  | .cons ds i .nil => [itemVal n ds (i.val (n + preNtoks ds))]
  | .cons ds i (.cons ds2 j r) =>
    itemVal n ds (i.val (n + preNtoks ds)) :: IL.vals (n + preNtoks ds + i.ntoks + 1) (.cons ds2 j r)
end

mutual
def I.fuel : I → Nat
  | .expr e => e.fuel + 1
  | .list items _ => items.fuel + 4
def IL.fuel : IL → Nat
  | .nil => 1
  | .cons ds i r => dsFuel ds + i.fuel + r.fuel + 3
end

mutual
inductive WFInit : I → Prop
  | expr (e) : WFX 1 e → WFInit (.expr e)
  | empty : WFInit (.list .nil false)
  | list (ds i r tr) : WFInitL (.cons ds i r) → WFInit (.list (.cons ds i r) tr)
inductive WFInitL : IL → Prop
  | nil : WFInitL .nil
  | cons (ds i r) : (∀ d ∈ ds, d.WF) → WFInit i → WFInitL r → WFInitL (.cons ds i r)
end

theorem stopA_rbrace : StopA "RBRACE" := ⟨⟨⟨by decide, by decide⟩, by decide⟩, by decide⟩
theorem stopA_semi : StopA "SEMI" := ⟨⟨⟨by decide, by decide⟩, by decide⟩, by decide⟩
theorem stopC_rbracket : StopC "RBRACKET" := ⟨⟨by decide, by decide⟩, by decide⟩

/-- what may follow an initializer: `,` `;` `}` -/
def EndsInit (k : String) : Prop := k = "COMMA" ∨ k = "SEMI" ∨ k = "RBRACE"

theorem EndsInit.stopA {k : String} (h : EndsInit k) : StopA k := by
  rcases h with rfl | rfl | rfl
  · exact FullExpr.stopA_comma
  · exact stopA_semi
  · exact stopA_rbrace

/-- the first token of an initializer: `{` or an expression head; never `[` or `.` -/
theorem I.head : ∀ (i : I), WFInit i → ∃ t r, i.flat = t :: r ∧ (t.1 = "LBRACE" ∨ t.1 ∈ exprHeads)
  | .expr e, h => by
    cases h with
    | expr _ hw =>
      obtain ⟨t, r, hfl, ht, _⟩ := flat_heads hw
      exact ⟨t, r, hfl, .inr ht⟩
  | .list items tr, _ => ⟨_, _, rfl, .inl rfl⟩

theorem exprHeads_init : ∀ k ∈ exprHeads, k ≠ "LBRACE" ∧ k ≠ "LBRACKET" ∧ k ≠ "PERIOD" ∧ k ≠ "RBRACE" := by decide

theorem I.val_isNode : ∀ (i : I) (n : Nat), (i.val n).isNode = true
  | .expr e, n => FullExpr.val_isNode e n
  | .list .nil _, _ => rfl
  | .list (.cons _ _ _) _, _ => rfl

theorem itemVal_isNode (n : Nat) (ds : List Desig) (iv : Val) (h : iv.isNode = true) : (itemVal n ds iv).isNode = true := by
  unfold itemVal; split
  · exact h
  · rfl

/-- what the theorem says about one initializer ... -/
def IOK (env : Env) (i : I) : Prop :=
  ∀ (s : PState) (stop : Tk) (rest : List Tk) (F : Nat), WFInit i → EndsInit stop.1 →
    SeesT env s (i.flat ++ stop :: rest) → i.fuel ≤ F →
    ∃ s', run F .initializer s = .ok (i.val s.idx) s' ∧ SeesT env s' (stop :: rest) ∧ s'.idx = s.idx + i.ntoks

/-- the items after the first, each with the comma in front of it -/
def IL.sepFlat : IL → List Tk
  | .nil => []
  | .cons ds j r => ("COMMA", ",") :: (IL.cons ds j r).flat
def IL.sepVals (n : Nat) : IL → List Val
  | .nil => []
  | .cons ds j r => IL.vals (n + 1) (.cons ds j r)
def IL.sepNtoks : IL → Nat
  | .nil => 0
  | .cons ds j r => 1 + (IL.cons ds j r).ntoks

theorem IL.flat_cons (ds : List Desig) (i : I) (r : IL) : (IL.cons ds i r).flat = preFlat ds ++ i.flat ++ r.sepFlat := by
  cases r <;> simp [IL.flat, IL.sepFlat]
theorem IL.vals_cons (n : Nat) (ds : List Desig) (i : I) (r : IL) :
    IL.vals n (.cons ds i r) = itemVal n ds (i.val (n + preNtoks ds)) :: r.sepVals (n + preNtoks ds + i.ntoks) := by
  cases r <;> simp [IL.vals, IL.sepVals]
theorem IL.ntoks_cons (ds : List Desig) (i : I) (r : IL) : (IL.cons ds i r).ntoks = preNtoks ds + i.ntoks + r.sepNtoks := by
  cases r with
  | nil => simp [IL.ntoks, IL.sepNtoks]
  | cons ds2 j r2 => simp only [IL.ntoks, IL.sepNtoks]; omega

def trComma (tr : Bool) : List Tk := if tr then [("COMMA", ",")] else []

/-- ... and about the rest of a brace list after its first item: the loop stops in front of `}` -/
def LOK (env : Env) (l : IL) : Prop :=
  ∀ (acc : List Val) (s : PState) (tr : Bool) (rest : List Tk) (F : Nat), WFInitL l →
    SeesT env s (l.sepFlat ++ (trComma tr ++ ("RBRACE", "}") :: rest)) → l.fuel ≤ F →
    ∃ s', run F (.initListLoop acc) s = .ok (acc ++ l.sepVals s.idx) s' ∧
      SeesT env s' (("RBRACE", "}") :: rest) ∧ s'.idx = s.idx + l.sepNtoks + (trComma tr).length

theorem I.fuel_ge : ∀ i : I, 2 ≤ i.fuel
  | .expr e => by have := FullExpr.fuel_ge e; simp only [I.fuel]; omega
  | .list _ _ => by simp only [I.fuel]; omega

theorem IL.fuel_ge : ∀ l : IL, 1 ≤ l.fuel
  | .nil => by simp [IL.fuel]
  | .cons _ _ _ => by simp only [IL.fuel]; omega

theorem dsFuel_ge : ∀ ds : List Desig, 1 ≤ dsFuel ds
  | [] => by simp [dsFuel]
  | _ :: _ => by simp only [dsFuel]; omega

/-! ## designators -/

/-- `_parse_designator_list`: the designators up to the `=` -/
theorem desig_loop : ∀ (ds : List Desig) (acc : List Val) (s : PState) (rest : List Tk) (F : Nat),
    (∀ d ∈ ds, d.WF) → SeesT env s (dsFlat ds ++ ("EQUALS", "=") :: rest) → dsFuel ds ≤ F →
    ∃ s', run F (.designatorListLoop acc) s = .ok (acc ++ dsVals s.idx ds) s' ∧
      SeesT env s' (("EQUALS", "=") :: rest) ∧ s'.idx = s.idx + dsNtoks ds
  | [], acc, s, rest, F, _, hs, hF => by
    obtain ⟨G, rfl⟩ : ∃ G, F = G + 1 := ⟨F - 1, by simp only [dsFuel] at hF; omega⟩
    have hs0 : SeesT env s (("EQUALS", "=") :: rest) := by simpa [dsFlat] using hs
    obtain ⟨s1, h1, hs1, hi1, _⟩ := peekType_spec s _ hs0
    refine ⟨s1, ?_, hs1, by simpa [dsNtoks] using hi1⟩
    show pDesignatorListLoop (run G) acc s = _
    simp [pDesignatorListLoop, FullExpr.bnd, h1, inSet, FullExpr.pur, dsVals]
  | .field x :: r, acc, s, rest, F, hw, hs, hF => by
    obtain ⟨G, rfl⟩ : ∃ G, F = G + 1 := ⟨F - 1, by simp only [dsFuel] at hF; omega⟩
    simp only [dsFuel, Desig.fuel] at hF
    have hs0 : SeesT env s (("PERIOD", ".") :: ("ID", x) :: (dsFlat r ++ ("EQUALS", "=") :: rest)) := by
      simpa [dsFlat, Desig.flat, List.append_assoc] using hs
    obtain ⟨s1, h1, hs1, hi1, _⟩ := peekType_spec s _ hs0
    obtain ⟨s2, h2, hs2, hi2⟩ := accept_other s1 _ "LBRACKET" hs1 (by intro k v r' h; cases h; decide)
    obtain ⟨s3, h3, hs3, hi3, _⟩ := accept_same s2 "PERIOD" "." _ hs2
    obtain ⟨s4, h4, hs4, _, hi4, _⟩ := advance_spec s3 "ID" x _ hs3
    obtain ⟨s5, h5, hs5, hi5⟩ := desig_loop r (acc ++ [ParenExpr.idNode (s.idx + 1) x]) s4 rest G
      (fun d hd => hw d (List.mem_cons_of_mem _ hd)) hs4 (by omega)
    refine ⟨s5, ?_, hs5, by simp only [dsNtoks, Desig.ntoks]; omega⟩
    have e3 : s3.idx = s.idx + 1 := by omega
    have e4 : s4.idx = s.idx + 2 := by omega
    rw [e4] at h5
    rw [e3] at h4
    simp only [ParenExpr.idNode, List.append_assoc, List.singleton_append] at h5
    show pDesignatorListLoop (run G) acc s = _
    simp [pDesignatorListLoop, FullExpr.bnd, h1, inSet, h2, h3, pIdentifierOrTypeid, h4, mkID, tokCoord, FullExpr.pur, h5,
      dsVals, Desig.val, Desig.ntoks, ParenExpr.idNode]
  | .index e :: r, acc, s, rest, F, hw, hs, hF => by
    obtain ⟨G, rfl⟩ : ∃ G, F = G + 1 := ⟨F - 1, by simp only [dsFuel] at hF; omega⟩
    simp only [dsFuel, Desig.fuel] at hF
    have hwe : WFX 2 e := hw (.index e) List.mem_cons_self
    have hs0 : SeesT env s (("LBRACKET", "[") :: (e.flat ++ ("RBRACKET", "]") :: (dsFlat r ++ ("EQUALS", "=") :: rest))) := by
      simpa [dsFlat, Desig.flat, List.append_assoc] using hs
    obtain ⟨s1, h1, hs1, hi1, _⟩ := peekType_spec s _ hs0
    obtain ⟨s2, h2, hs2, hi2, _⟩ := accept_same s1 "LBRACKET" "[" _ hs1
    obtain ⟨s3, h3, hs3, hi3⟩ := (all_ok e).c hwe s2 ("RBRACKET", "]") _ stopC_rbracket hs2 G (by omega)
    obtain ⟨s4, h4, hs4, hi4⟩ := expect_same s3 "RBRACKET" "]" _ hs3
    obtain ⟨s5, h5, hs5, hi5⟩ := desig_loop r (acc ++ [e.val (s.idx + 1)]) s4 rest G
      (fun d hd => hw d (List.mem_cons_of_mem _ hd)) hs4 (by omega)
    refine ⟨s5, ?_, hs5, by simp only [dsNtoks, Desig.ntoks]; omega⟩
    have e2 : s2.idx = s.idx + 1 := by omega
    have e4 : s4.idx = s.idx + (e.ntoks + 2) := by omega
    rw [e4] at h5
    rw [e2] at h3
    have h3' : run G .conditionalExpression s2 = .ok (e.val (s.idx + 1)) s3 := by simpa using h3
    show pDesignatorListLoop (run G) acc s = _
    simp [pDesignatorListLoop, FullExpr.bnd, h1, inSet, h2, h3', h4, h5, dsVals, Desig.val, Desig.ntoks]

theorem dsFlat_head : ∀ (ds : List Desig), ds ≠ [] → ∃ t r, dsFlat ds = t :: r ∧ (t.1 = "LBRACKET" ∨ t.1 = "PERIOD")
  | [], h => absurd rfl h
  | .field x :: r, _ => ⟨_, _, rfl, .inr rfl⟩
  | .index e :: r, _ => ⟨_, _, rfl, .inl rfl⟩

/-- the first token of an item: `[`, `.`, `{` or an expression head -/
theorem item_head (ds : List Desig) (i : I) (hwf : WFInit i) :
    ∃ t r, preFlat ds ++ i.flat = t :: r ∧ t.1 ≠ "RBRACE" := by
  by_cases hd : ds = []
  · subst hd
    obtain ⟨t, r, hfl, ht⟩ := I.head i hwf
    refine ⟨t, r, by simpa [preFlat] using hfl, ?_⟩
    rcases ht with ht | ht
    · rw [ht]; decide
    · exact (exprHeads_init _ ht).2.2.2
  · obtain ⟨t, r, hfl, ht⟩ := dsFlat_head ds hd
    have hne : ds.isEmpty = false := by cases ds <;> simp_all
    refine ⟨t, r ++ [("EQUALS", "=")] ++ i.flat, by simp [preFlat, hne, hfl], ?_⟩
    rcases ht with ht | ht <;> rw [ht] <;> decide

/-- **`_parse_initializer_item`** (with `_parse_designation`) -/
theorem item_ok (ds : List Desig) (i : I) (h : IOK env i) (hwd : ∀ d ∈ ds, d.WF) (hwf : WFInit i) (s : PState) (stop : Tk)
    (rest : List Tk) (hstop : EndsInit stop.1)
    (hs : SeesT env s (preFlat ds ++ i.flat ++ stop :: rest)) (F : Nat) (hF : dsFuel ds + i.fuel ≤ F) :
    ∃ s', run (F + 1) .initializerItem s = .ok (itemVal s.idx ds (i.val (s.idx + preNtoks ds))) s' ∧
      SeesT env s' (stop :: rest) ∧ s'.idx = s.idx + preNtoks ds + i.ntoks := by
  have hdf := dsFuel_ge ds
  by_cases hd : ds = []
  · subst hd
    obtain ⟨t, r, hfl, ht⟩ := I.head i hwf
    have hs' : SeesT env s (i.flat ++ stop :: rest) := by simpa [preFlat] using hs
    have hs0 : SeesT env s (t :: (r ++ stop :: rest)) := by simpa [hfl] using hs'
    obtain ⟨s1, h1, hs1, hi1, _⟩ := peekType_spec s _ hs0
    have hs1' : SeesT env s1 (i.flat ++ stop :: rest) := by simpa [hfl] using hs1
    obtain ⟨s2, h2, hs2, hi2⟩ := h s1 stop rest F hwf hstop hs1' (by omega)
    refine ⟨s2, ?_, hs2, by simp [preNtoks]; omega⟩
    have hnd : inSet (some t.1) ["LBRACKET", "PERIOD"] = false := by
      rcases ht with ht | ht
      · rw [ht]; decide
      · have := exprHeads_init _ ht
        simp [inSet, this.2.1, this.2.2.1]
    rw [hi1] at h2
    show pInitializerItem (run F) s = _
    simp [pInitializerItem, FullExpr.bnd, h1, hnd, h2, itemVal, preNtoks]
  · obtain ⟨t, r, hfl, ht⟩ := dsFlat_head ds hd
    have hne : ds.isEmpty = false := by cases ds <;> simp_all
    have hs' : SeesT env s (dsFlat ds ++ ("EQUALS", "=") :: (i.flat ++ stop :: rest)) := by
      simpa [preFlat, hne, List.append_assoc] using hs
    have hs0 : SeesT env s (t :: (r ++ ("EQUALS", "=") :: (i.flat ++ stop :: rest))) := by simpa [hfl] using hs'
    obtain ⟨s1, h1, hs1, hi1, _⟩ := peekType_spec s _ hs0
    have hs1' : SeesT env s1 (dsFlat ds ++ ("EQUALS", "=") :: (i.flat ++ stop :: rest)) := by simpa [hfl] using hs1
    obtain ⟨s2, h2, hs2, hi2⟩ := desig_loop ds [] s1 _ F hwd hs1' (by have := I.fuel_ge i; omega)
    obtain ⟨s3, h3, hs3, hi3⟩ := expect_same s2 "EQUALS" "=" _ hs2
    obtain ⟨s4, h4, hs4, hi4⟩ := h s3 stop rest F hwf hstop hs3 (by omega)
    refine ⟨s4, ?_, hs4, by simp [preNtoks, hne]; omega⟩
    have hin : inSet (some t.1) ["LBRACKET", "PERIOD"] = true := by
      rcases ht with ht | ht <;> rw [ht] <;> decide
    have e3 : s3.idx = s.idx + (dsNtoks ds + 1) := by omega
    rw [e3] at h4
    rw [hi1] at h2
    show pInitializerItem (run F) s = _
    simp [pInitializerItem, FullExpr.bnd, h1, hin, h2, h3, h4, FullExpr.pur, itemVal, hne, preNtoks]

theorem iok_expr (e : X) : IOK env (.expr e) := by
  intro s stop rest F hwf hstop hs hF
  cases hwf with
  | expr _ hwe =>
    obtain ⟨G, rfl⟩ : ∃ G, F = G + 1 := ⟨F - 1, by simp only [I.fuel] at hF; omega⟩
    simp only [I.fuel] at hF
    have hs0 : SeesT env s (e.flat ++ stop :: rest) := hs
    obtain ⟨t, r, hfl, hth, _⟩ := flat_heads hwe
    have hnb : t.1 ≠ "LBRACE" := (exprHeads_init _ hth).1
    have hs0' : SeesT env s ((t.1, t.2) :: (r ++ stop :: rest)) := by simpa [hfl] using hs0
    obtain ⟨s1, h1, hs1, hi1⟩ := accept_other s _ "LBRACE" hs0' (by
      intro k v r' h; simp only [List.cons.injEq, Prod.mk.injEq] at h; rw [← h.1.1]; exact hnb)
    have hs1' : SeesT env s1 (e.flat ++ stop :: rest) := by simpa [hfl] using hs1
    obtain ⟨s2, h2, hs2, hi2⟩ := (all_ok e).a hwe s1 stop rest hstop.stopA hs1' G (by omega)
    refine ⟨s2, ?_, hs2, by simp only [I.ntoks]; omega⟩
    rw [hi1] at h2
    have h2' : run G .assignmentExpression s1 = .ok (e.val s.idx) s2 := by simpa using h2
    show pInitializer (run G) s = _
    simp [pInitializer, FullExpr.bnd, h1, h2', I.val]

theorem lok_nil : LOK env .nil := by
  intro acc s tr rest F _ hs hF
  obtain ⟨G, rfl⟩ : ∃ G, F = G + 1 := ⟨F - 1, by simp only [IL.fuel] at hF; omega⟩
  cases tr with
  | false =>
    have hs0 : SeesT env s (("RBRACE", "}") :: rest) := by simpa [IL.sepFlat, trComma] using hs
    obtain ⟨s1, h1, hs1, hi1⟩ := accept_other s _ "COMMA" hs0 (by intro k v r h; cases h; decide)
    refine ⟨s1, ?_, hs1, by simpa [IL.sepNtoks, trComma] using hi1⟩
    show pInitListLoop (run G) acc s = _
    simp [pInitListLoop, FullExpr.bnd, h1, FullExpr.pur, IL.sepVals]
  | true =>
    have hs0 : SeesT env s (("COMMA", ",") :: ("RBRACE", "}") :: rest) := by simpa [IL.sepFlat, trComma] using hs
    obtain ⟨s1, h1, hs1, hi1, _⟩ := accept_same s "COMMA" "," _ hs0
    obtain ⟨s2, h2, hs2, hi2, _⟩ := peekType_spec s1 _ hs1
    refine ⟨s2, ?_, hs2, by simp [IL.sepNtoks, trComma]; omega⟩
    show pInitListLoop (run G) acc s = _
    simp [pInitListLoop, FullExpr.bnd, h1, h2, FullExpr.pur, IL.sepVals]

/-- the tokens after an item of a brace list start with `,` or `}` -/
theorem tail_head (r : IL) (tr : Bool) (rest : List Tk) :
    ∃ k v r', r.sepFlat ++ (trComma tr ++ ("RBRACE", "}") :: rest) = (k, v) :: r' ∧ EndsInit k := by
  cases r with
  | nil => cases tr <;> exact ⟨_, _, _, rfl, by simp [EndsInit]⟩
  | cons ds j r2 => exact ⟨_, _, _, rfl, .inl rfl⟩

theorem lok_cons (ds : List Desig) (j : I) (r : IL) (hj : IOK env j) (hr : LOK env r) : LOK env (.cons ds j r) := by
  intro acc s tr rest F hwf hs hF
  cases hwf with
  | cons _ _ _ hwd hwj hwr =>
    obtain ⟨G, rfl⟩ : ∃ G, F = G + 2 := ⟨F - 2, by simp only [IL.fuel] at hF; have := I.fuel_ge j; omega⟩
    simp only [IL.fuel] at hF
    obtain ⟨k, v, r', htl, hend⟩ := tail_head r tr rest
    have esep : (IL.cons ds j r).sepFlat = ("COMMA", ",") :: (preFlat ds ++ j.flat ++ r.sepFlat) := by
      rw [show (IL.cons ds j r).sepFlat = ("COMMA", ",") :: (IL.cons ds j r).flat from rfl, IL.flat_cons]
    rw [esep] at hs
    have hs0 : SeesT env s (("COMMA", ",") :: (preFlat ds ++ j.flat ++ (k, v) :: r')) := by
      rw [← htl]; simpa [List.append_assoc] using hs
    obtain ⟨s1, h1, hs1, hi1, _⟩ := accept_same s "COMMA" "," _ hs0
    obtain ⟨t, rj, hfl, hnr⟩ := item_head ds j hwj
    have hs1' : SeesT env s1 (t :: (rj ++ (k, v) :: r')) := by simpa [hfl] using hs1
    obtain ⟨s2, h2, hs2, hi2, _⟩ := peekType_spec s1 _ hs1'
    have hs2' : SeesT env s2 (preFlat ds ++ j.flat ++ (k, v) :: r') := by simpa [hfl] using hs2
    obtain ⟨s3, h3, hs3, hi3⟩ := item_ok ds j hj hwd hwj s2 (k, v) r' hend hs2' G (by have := IL.fuel_ge r; omega)
    rw [← htl] at hs3
    obtain ⟨s4, h4, hs4, hi4⟩ := hr (acc ++ [itemVal s2.idx ds (j.val (s2.idx + preNtoks ds))]) s3 tr rest (G + 1) hwr hs3 (by omega)
    refine ⟨s4, ?_, hs4, ?_⟩
    · have e2 : s2.idx = s.idx + 1 := by omega
      have e3 : s3.idx = s.idx + 1 + preNtoks ds + j.ntoks := by omega
      rw [e3] at h4
      rw [e2] at h3 h4
      show pInitListLoop (run (G + 1)) acc s = _
      simp only [pInitListLoop, FullExpr.bnd, h1, h2, List.head?_cons, Option.map_some]
      have hb : ((some t.1 : Option String) == some "RBRACE") = false := by simpa using hnr
      simp only [hb, Bool.false_eq_true, ↓reduceIte, FullExpr.bnd, h3, h4]
      rw [show (IL.cons ds j r).sepVals s.idx = IL.vals (s.idx + 1) (.cons ds j r) from rfl, IL.vals_cons]
      simp [List.append_assoc]
    · rw [show (IL.cons ds j r).sepNtoks = 1 + (IL.cons ds j r).ntoks from rfl, IL.ntoks_cons]; omega

theorem iok_list (items : IL) (tr : Bool) (hfirst : ∀ ds i r, items = .cons ds i r → IOK env i)
    (hrest : ∀ ds i r, items = .cons ds i r → LOK env r) : IOK env (.list items tr) := by
  intro s stop rest F hwf hstop hs hF
  cases hwf with
  | empty =>
    obtain ⟨G, rfl⟩ : ∃ G, F = G + 1 := ⟨F - 1, by simp only [I.fuel] at hF; omega⟩
    have hs0 : SeesT env s (("LBRACE", "{") :: ("RBRACE", "}") :: stop :: rest) := by simpa [I.flat, IL.flat] using hs
    obtain ⟨s1, h1, hs1, hi1, _⟩ := accept_same s "LBRACE" "{" _ hs0
    obtain ⟨s2, h2, hs2, hi2, _⟩ := accept_same s1 "RBRACE" "}" _ hs1
    refine ⟨s2, ?_, hs2, by simp only [I.ntoks, IL.ntoks]; simp; omega⟩
    show pInitializer (run G) s = _
    simp [pInitializer, FullExpr.bnd, h1, h2, tokCoord, FullExpr.pur, I.val, tc]
  | list ds i r _ hwl =>
    cases hwl with
    | cons _ _ _ hwd hwi hwr =>
      obtain ⟨G, rfl⟩ : ∃ G, F = G + 3 := ⟨F - 3, by simp only [I.fuel, IL.fuel] at hF; omega⟩
      simp only [I.fuel, IL.fuel] at hF
      obtain ⟨k, v, r', htl, hend⟩ := tail_head r tr (stop :: rest)
      have hs0 : SeesT env s (("LBRACE", "{") :: (preFlat ds ++ i.flat ++ (k, v) :: r')) := by
        rw [← htl]
        have := hs
        rw [I.flat, IL.flat_cons] at this
        simpa [trComma, List.append_assoc] using this
      obtain ⟨s1, h1, hs1, hi1, _⟩ := accept_same s "LBRACE" "{" _ hs0
      obtain ⟨t, ri, hfl, hnr⟩ := item_head ds i hwi
      have hs1' : SeesT env s1 ((t.1, t.2) :: (ri ++ (k, v) :: r')) := by simpa [hfl] using hs1
      obtain ⟨s2, h2, hs2, hi2⟩ := accept_other s1 _ "RBRACE" hs1' (by
        intro k' v' r'' h; simp only [List.cons.injEq, Prod.mk.injEq] at h; rw [← h.1.1]; exact hnr)
      have hs2' : SeesT env s2 (preFlat ds ++ i.flat ++ (k, v) :: r') := by simpa [hfl] using hs2
      obtain ⟨s3, h3, hs3, hi3⟩ := item_ok ds i (hfirst ds i r rfl) hwd hwi s2 (k, v) r' hend hs2' G
        (by have := IL.fuel_ge r; omega)
      rw [← htl] at hs3
      obtain ⟨s4, h4, hs4, hi4⟩ := hrest ds i r rfl [itemVal s2.idx ds (i.val (s2.idx + preNtoks ds))] s3 tr (stop :: rest) (G + 1)
        hwr hs3 (by omega)
      obtain ⟨s5, h5, hs5, hi5⟩ := accept_other s4 _ "COMMA" hs4 (by intro k' v' r'' h; cases h; decide)
      obtain ⟨s6, h6, hs6, hi6⟩ := expect_same s5 "RBRACE" "}" _ hs5
      refine ⟨s6, ?_, hs6, ?_⟩
      · have e2 : s2.idx = s.idx + 1 := by omega
        have e3 : s3.idx = s.idx + 1 + preNtoks ds + i.ntoks := by omega
        rw [e3] at h4
        rw [e2] at h3 h4
        have hco := ClimbSim.coordOf_node (itemVal_isNode (s.idx + 1) ds _ (I.val_isNode i (s.idx + 1 + preNtoks ds))) s4
        have hil : run (G + 2) .initializerList s2 =
            .ok (mk .InitList (X.coordOfVal (itemVal (s.idx + 1) ds (i.val (s.idx + 1 + preNtoks ds))))
              [.list (IL.vals (s.idx + 1) (.cons ds i r))]) s4 := by
          show pInitializerList (run (G + 1)) s2 = _
          simp only [pInitializerList, FullExpr.bnd, h3, h4, hco, FullExpr.pur]
          rw [IL.vals_cons]
          simp [X.coordOfVal]
        show pInitializer (run (G + 2)) s = _
        simp [pInitializer, FullExpr.bnd, h1, h2, hil, h5, h6, FullExpr.pur, I.val]
      · rw [I.ntoks, IL.ntoks_cons]
        cases tr <;> simp [trComma] at hi4 ⊢ <;> omega

mutual
theorem all_i : ∀ i : I, IOK env i
  | .expr e => iok_expr e
  | .list .nil tr => iok_list .nil tr (by intro ds i r h; cases h) (by intro ds i r h; cases h)
  | .list (.cons ds i r) tr => iok_list (.cons ds i r) tr
      (by intro ds' i' r' h; cases h; exact all_i i) (by intro ds' i' r' h; cases h; exact all_l r)
theorem all_l : ∀ l : IL, LOK env l
  | .nil => lok_nil
  | .cons ds j r => lok_cons ds j r (all_i j) (all_l r)
end

/-- **`_parse_initializer`**: for every initializer of the fragment - an assignment expression or a
brace list of (possibly designated) initializers nested to any depth, with or without a trailing
comma - followed by `,` `;` or `}`, the parser returns `I.val` and consumes exactly its tokens -/
theorem init_ok (i : I) (hwf : WFInit i) (s : PState) (stop : Tk) (rest : List Tk) (hstop : EndsInit stop.1)
    (hs : SeesT env s (i.flat ++ stop :: rest)) (F : Nat) (hF : i.fuel ≤ F) :
    ∃ s', run F .initializer s = .ok (i.val s.idx) s' ∧ SeesT env s' (stop :: rest) ∧ s'.idx = s.idx + i.ntoks :=
  all_i i s stop rest F hwf hstop hs hF

theorem Desig.flat_length (d : Desig) : d.flat.length = d.ntoks := by
  cases d <;> simp [Desig.flat, Desig.ntoks, FullExpr.flat_length]
theorem dsFlat_length : ∀ ds : List Desig, (dsFlat ds).length = dsNtoks ds
  | [] => rfl
  | d :: r => by simp [dsFlat, dsNtoks, Desig.flat_length, dsFlat_length r]
theorem preFlat_length (ds : List Desig) : (preFlat ds).length = preNtoks ds := by
  unfold preFlat preNtoks; split <;> simp [dsFlat_length]

mutual
theorem I.flat_length : ∀ i : I, i.flat.length = i.ntoks
  | .expr e => FullExpr.flat_length e
  | .list items tr => by
    have := IL.flat_length items
    cases tr <;> simp [I.flat, I.ntoks, this] <;> omega
theorem IL.flat_length : ∀ l : IL, l.flat.length = l.ntoks
  | .nil => rfl
  | .cons ds i .nil => by simp [IL.flat, IL.ntoks, preFlat_length, I.flat_length i]
  | .cons ds i (.cons ds2 j r) => by
    have h1 := I.flat_length i
    have h2 := IL.flat_length (.cons ds2 j r)
    simp only [IL.flat, IL.ntoks, List.length_append, List.length_cons, h1, h2, preFlat_length]; omega
end

theorem Desig.fuel_linear (d : Desig) : d.fuel + 2 ≤ 13 * d.ntoks := by
  cases d with
  | field => simp [Desig.fuel, Desig.ntoks]
  | index e => have := FullExpr.fuel_linear e; simp only [Desig.fuel, Desig.ntoks]; omega
theorem dsFuel_linear : ∀ ds : List Desig, dsFuel ds ≤ 13 * dsNtoks ds + 1
  | [] => by simp [dsFuel, dsNtoks]
  | d :: r => by have := Desig.fuel_linear d; have := dsFuel_linear r; simp only [dsFuel, dsNtoks]; omega
theorem preFuel_linear (ds : List Desig) : dsFuel ds ≤ 13 * preNtoks ds + 1 := by
  have := dsFuel_linear ds
  unfold preNtoks; split
  · rename_i h; cases ds <;> simp_all [dsFuel]
  · omega

mutual
/-- the recursion budget of an initializer is linear in the number of its tokens -/
theorem I.fuel_linear : ∀ i : I, i.fuel ≤ 13 * i.ntoks + 1
  | .expr e => by have := FullExpr.fuel_linear e; simp only [I.fuel, I.ntoks]; omega
  | .list items tr => by
    have := IL.fuel_linear items
    cases tr <;> simp only [I.fuel, I.ntoks] <;> simp <;> omega
theorem IL.fuel_linear : ∀ l : IL, l.fuel ≤ 13 * l.ntoks + 6
  | .nil => by simp [IL.fuel, IL.ntoks]
  | .cons ds i .nil => by
    have := I.fuel_linear i; have := preFuel_linear ds; simp only [IL.fuel, IL.ntoks]; omega
  | .cons ds i (.cons ds2 j r) => by
    have h1 := I.fuel_linear i
    have h2 := IL.fuel_linear (.cons ds2 j r)
    have h3 := preFuel_linear ds
    simp only [IL.fuel, IL.ntoks] at h2 ⊢; omega
end

end PycModel.Init
