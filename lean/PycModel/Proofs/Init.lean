import PycModel.Proofs.FullExpr
/-!
# Initializers: assignment expressions and (nested) brace lists

`I ::= X | { } | { I , ... , I } | { I , ... , I , }` with the expressions of `Proofs/FullExpr.lean`
(at the assignment level).  `init_ok`: `_parse_initializer` returns `I.val`: an expression is its
expression; a brace list is an `InitList` whose items are the initializers in source order - nested
lists stay nested, a trailing comma changes nothing, `{ }` is the empty `InitList` located at its `{`,
a non-empty one is located at its first item.  Designators are not in the fragment.
-/
namespace PycModel.Init
open PycModel PycModel.View PycModel.OperandId PycModel.FullExpr

variable {env : Env}

mutual
inductive I where
  | expr (e : X)
  | list (items : IL) (trailing : Bool)
inductive IL where
  | nil
  | cons (i : I) (rest : IL)
end

mutual
def I.ntoks : I → Nat
  | .expr e => e.ntoks
  | .list items tr => items.ntoks + 2 + (if tr then 1 else 0)
def IL.ntoks : IL → Nat
  | .nil => 0
  | .cons i .nil => i.ntoks
  | .cons i (.cons j r) => i.ntoks + 1 + (IL.cons j r).ntoks
end

mutual
def I.flat : I → List Tk
  | .expr e => e.flat
  | .list items tr => ("LBRACE", "{") :: (items.flat ++ ((if tr then [("COMMA", ",")] else []) ++ [("RBRACE", "}")]))
def IL.flat : IL → List Tk
  | .nil => []
  | .cons i .nil => i.flat
  | .cons i (.cons j r) => i.flat ++ ("COMMA", ",") :: (IL.cons j r).flat
end

mutual
/-- the AST of the initializer whose first token is at position `n` -/
def I.val (n : Nat) : I → Val
  | .expr e => e.val n
  | .list .nil _ => mk .InitList (tc n) [.list []]
  | .list (.cons i r) _ => mk .InitList (X.coordOfVal (i.val (n + 1))) [.list (IL.vals (n + 1) (.cons i r))]
def IL.vals (n : Nat) : IL → List Val
  | .nil => []
  | .cons i .nil => [i.val n]
  | .cons i (.cons j r) => i.val n :: IL.vals (n + i.ntoks + 1) (.cons j r)
end

mutual
def I.fuel : I → Nat
  | .expr e => e.fuel + 1
  | .list items _ => items.fuel + 4
def IL.fuel : IL → Nat
  | .nil => 1
  | .cons i r => i.fuel + r.fuel + 3
end

mutual
inductive WFInit : I → Prop
  | expr (e) : WFX 1 e → WFInit (.expr e)
  | empty : WFInit (.list .nil false)
  | list (i r tr) : WFInitL (.cons i r) → WFInit (.list (.cons i r) tr)
inductive WFInitL : IL → Prop
  | nil : WFInitL .nil
  | cons (i r) : WFInit i → WFInitL r → WFInitL (.cons i r)
end

theorem stopA_rbrace : StopA "RBRACE" := ⟨⟨⟨by decide, by decide⟩, by decide⟩, by decide⟩
theorem stopA_semi : StopA "SEMI" := ⟨⟨⟨by decide, by decide⟩, by decide⟩, by decide⟩

/-- what may follow an initializer: `,` `;` `}` -/
def EndsInit (k : String) : Prop := k = "COMMA" ∨ k = "SEMI" ∨ k = "RBRACE"

theorem EndsInit.stopA {k : String} (h : EndsInit k) : StopA k := by
  rcases h with rfl | rfl | rfl
  · exact FullExpr.stopA_comma
  · exact stopA_semi
  · exact stopA_rbrace

/-- the first token of an initializer: `{` or an expression head; never `[` or `.` -/
theorem I.head : ∀ (i : I), WFInit i → ∃ t r, i.flat = t :: r ∧ (t.1 = "LBRACE" ∨ t.1 ∈ exprHeads)
  | .expr e, h => by
    cases h with
    | expr _ hw =>
      obtain ⟨t, r, hfl, ht, _⟩ := flat_heads hw
      exact ⟨t, r, hfl, .inr ht⟩
  | .list items tr, _ => ⟨_, _, rfl, .inl rfl⟩

theorem exprHeads_init : ∀ k ∈ exprHeads, k ≠ "LBRACE" ∧ k ≠ "LBRACKET" ∧ k ≠ "PERIOD" ∧ k ≠ "RBRACE" := by decide

theorem I.val_isNode : ∀ (i : I) (n : Nat), (i.val n).isNode = true
  | .expr e, n => FullExpr.val_isNode e n
  | .list .nil _, _ => rfl
  | .list (.cons _ _) _, _ => rfl

/-- what the theorem says about one initializer ... -/
def IOK (env : Env) (i : I) : Prop :=
  ∀ (s : PState) (stop : Tk) (rest : List Tk) (F : Nat), WFInit i → EndsInit stop.1 →
    SeesT env s (i.flat ++ stop :: rest) → i.fuel ≤ F →
    ∃ s', run F .initializer s = .ok (i.val s.idx) s' ∧ SeesT env s' (stop :: rest) ∧ s'.idx = s.idx + i.ntoks

/-- the items after the first, each with the comma in front of it -/
def IL.sepFlat : IL → List Tk
  | .nil => []
  | .cons j r => ("COMMA", ",") :: (IL.cons j r).flat
def IL.sepVals (n : Nat) : IL → List Val
  | .nil => []
  | .cons j r => IL.vals (n + 1) (.cons j r)
def IL.sepNtoks : IL → Nat
  | .nil => 0
  | .cons j r => 1 + (IL.cons j r).ntoks

theorem IL.flat_cons (i : I) (r : IL) : (IL.cons i r).flat = i.flat ++ r.sepFlat := by
  cases r <;> simp [IL.flat, IL.sepFlat]
theorem IL.vals_cons (n : Nat) (i : I) (r : IL) : IL.vals n (.cons i r) = i.val n :: r.sepVals (n + i.ntoks) := by
  cases r <;> simp [IL.vals, IL.sepVals]
theorem IL.ntoks_cons (i : I) (r : IL) : (IL.cons i r).ntoks = i.ntoks + r.sepNtoks := by
  cases r with
  | nil => simp [IL.ntoks, IL.sepNtoks]
  | cons j r2 => simp only [IL.ntoks, IL.sepNtoks]; omega

def trComma (tr : Bool) : List Tk := if tr then [("COMMA", ",")] else []

/-- ... and about the rest of a brace list after its first item: the loop stops in front of `}` -/
def LOK (env : Env) (l : IL) : Prop :=
  ∀ (acc : List Val) (s : PState) (tr : Bool) (rest : List Tk) (F : Nat), WFInitL l →
    SeesT env s (l.sepFlat ++ (trComma tr ++ ("RBRACE", "}") :: rest)) → l.fuel ≤ F →
    ∃ s', run F (.initListLoop acc) s = .ok (acc ++ l.sepVals s.idx) s' ∧
      SeesT env s' (("RBRACE", "}") :: rest) ∧ s'.idx = s.idx + l.sepNtoks + (trComma tr).length

theorem I.fuel_ge : ∀ i : I, 2 ≤ i.fuel
  | .expr e => by have := FullExpr.fuel_ge e; simp only [I.fuel]; omega
  | .list _ _ => by simp only [I.fuel]; omega

theorem IL.fuel_ge : ∀ l : IL, 1 ≤ l.fuel
  | .nil => by simp [IL.fuel]
  | .cons _ _ => by simp only [IL.fuel]; omega

/-- `_parse_initializer_item` without a designation is `_parse_initializer` -/
theorem item_ok (i : I) (h : IOK env i) (hwf : WFInit i) (s : PState) (stop : Tk) (rest : List Tk) (hstop : EndsInit stop.1)
    (hs : SeesT env s (i.flat ++ stop :: rest)) (F : Nat) (hF : i.fuel ≤ F) :
    ∃ s', run (F + 1) .initializerItem s = .ok (i.val s.idx) s' ∧ SeesT env s' (stop :: rest) ∧ s'.idx = s.idx + i.ntoks := by
  obtain ⟨t, r, hfl, ht⟩ := I.head i hwf
  have hs0 : SeesT env s (t :: (r ++ stop :: rest)) := by simpa [hfl] using hs
  obtain ⟨s1, h1, hs1, hi1, _⟩ := peekType_spec s _ hs0
  have hs1' : SeesT env s1 (i.flat ++ stop :: rest) := by simpa [hfl] using hs1
  obtain ⟨s2, h2, hs2, hi2⟩ := h s1 stop rest F hwf hstop hs1' hF
  refine ⟨s2, ?_, hs2, by omega⟩
  have hnd : inSet (some t.1) ["LBRACKET", "PERIOD"] = false := by
    rcases ht with ht | ht
    · rw [ht]; decide
    · have := exprHeads_init _ ht
      simp [inSet, this.2.1, this.2.2.1]
  rw [hi1] at h2
  show pInitializerItem (run F) s = _
  simp [pInitializerItem, FullExpr.bnd, h1, hnd, h2]

theorem iok_expr (e : X) : IOK env (.expr e) := by
  intro s stop rest F hwf hstop hs hF
  cases hwf with
  | expr _ hwe =>
    obtain ⟨G, rfl⟩ : ∃ G, F = G + 1 := ⟨F - 1, by simp only [I.fuel] at hF; omega⟩
    simp only [I.fuel] at hF
    have hs0 : SeesT env s (e.flat ++ stop :: rest) := hs
    obtain ⟨t, r, hfl, hth, _⟩ := flat_heads hwe
    have hnb : t.1 ≠ "LBRACE" := (exprHeads_init _ hth).1
    have hs0' : SeesT env s ((t.1, t.2) :: (r ++ stop :: rest)) := by simpa [hfl] using hs0
    obtain ⟨s1, h1, hs1, hi1⟩ := accept_other s _ "LBRACE" hs0' (by
      intro k v r' h; simp only [List.cons.injEq, Prod.mk.injEq] at h; rw [← h.1.1]; exact hnb)
    have hs1' : SeesT env s1 (e.flat ++ stop :: rest) := by simpa [hfl] using hs1
    obtain ⟨s2, h2, hs2, hi2⟩ := (all_ok e).a hwe s1 stop rest hstop.stopA hs1' G (by omega)
    refine ⟨s2, ?_, hs2, by simp only [I.ntoks]; omega⟩
    rw [hi1] at h2
    have h2' : run G .assignmentExpression s1 = .ok (e.val s.idx) s2 := by simpa using h2
    show pInitializer (run G) s = _
    simp [pInitializer, FullExpr.bnd, h1, h2', I.val]

theorem lok_nil : LOK env .nil := by
  intro acc s tr rest F _ hs hF
  obtain ⟨G, rfl⟩ : ∃ G, F = G + 1 := ⟨F - 1, by simp only [IL.fuel] at hF; omega⟩
  cases tr with
  | false =>
    have hs0 : SeesT env s (("RBRACE", "}") :: rest) := by simpa [IL.sepFlat, trComma] using hs
    obtain ⟨s1, h1, hs1, hi1⟩ := accept_other s _ "COMMA" hs0 (by intro k v r h; cases h; decide)
    refine ⟨s1, ?_, hs1, by simpa [IL.sepNtoks, trComma] using hi1⟩
    show pInitListLoop (run G) acc s = _
    simp [pInitListLoop, FullExpr.bnd, h1, FullExpr.pur, IL.sepVals]
  | true =>
    have hs0 : SeesT env s (("COMMA", ",") :: ("RBRACE", "}") :: rest) := by simpa [IL.sepFlat, trComma] using hs
    obtain ⟨s1, h1, hs1, hi1, _⟩ := accept_same s "COMMA" "," _ hs0
    obtain ⟨s2, h2, hs2, hi2, _⟩ := peekType_spec s1 _ hs1
    refine ⟨s2, ?_, hs2, by simp [IL.sepNtoks, trComma]; omega⟩
    show pInitListLoop (run G) acc s = _
    simp [pInitListLoop, FullExpr.bnd, h1, h2, FullExpr.pur, IL.sepVals]

/-- the tokens after an item of a brace list start with `,` or `}` -/
theorem tail_head (r : IL) (tr : Bool) (rest : List Tk) :
    ∃ k v r', r.sepFlat ++ (trComma tr ++ ("RBRACE", "}") :: rest) = (k, v) :: r' ∧ EndsInit k := by
  cases r with
  | nil => cases tr <;> exact ⟨_, _, _, rfl, by simp [EndsInit]⟩
  | cons j r2 => exact ⟨_, _, _, rfl, .inl rfl⟩

theorem lok_cons (j : I) (r : IL) (hj : IOK env j) (hr : LOK env r) : LOK env (.cons j r) := by
  intro acc s tr rest F hwf hs hF
  cases hwf with
  | cons _ _ hwj hwr =>
    obtain ⟨G, rfl⟩ : ∃ G, F = G + 2 := ⟨F - 2, by simp only [IL.fuel] at hF; have := I.fuel_ge j; omega⟩
    simp only [IL.fuel] at hF
    -- the tokens: `, j.flat <tail>`
    obtain ⟨k, v, r', htl, hend⟩ := tail_head r tr rest
    have esep : (IL.cons j r).sepFlat = ("COMMA", ",") :: (j.flat ++ r.sepFlat) := by
      rw [show (IL.cons j r).sepFlat = ("COMMA", ",") :: (IL.cons j r).flat from rfl, IL.flat_cons]
    rw [esep] at hs
    have hs0 : SeesT env s (("COMMA", ",") :: (j.flat ++ (k, v) :: r')) := by
      rw [← htl]; simpa [List.append_assoc] using hs
    obtain ⟨s1, h1, hs1, hi1, _⟩ := accept_same s "COMMA" "," _ hs0
    obtain ⟨t, rj, hfl, ht⟩ := I.head j hwj
    have hs1' : SeesT env s1 (t :: (rj ++ (k, v) :: r')) := by simpa [hfl] using hs1
    obtain ⟨s2, h2, hs2, hi2, _⟩ := peekType_spec s1 _ hs1'
    have hs2' : SeesT env s2 (j.flat ++ (k, v) :: r') := by simpa [hfl] using hs2
    obtain ⟨s3, h3, hs3, hi3⟩ := item_ok j hj hwj s2 (k, v) r' hend hs2' G (by omega)
    rw [← htl] at hs3
    obtain ⟨s4, h4, hs4, hi4⟩ := hr (acc ++ [j.val s2.idx]) s3 tr rest (G + 1) hwr hs3 (by omega)
    refine ⟨s4, ?_, hs4, ?_⟩
    · have e2 : s2.idx = s.idx + 1 := by omega
      have e3 : s3.idx = s.idx + 1 + j.ntoks := by omega
      rw [e3] at h4
      rw [e2] at h3 h4
      have hnr : t.1 ≠ "RBRACE" := by
        rcases ht with ht | ht
        · rw [ht]; decide
        · exact (exprHeads_init _ ht).2.2.2
      show pInitListLoop (run (G + 1)) acc s = _
      simp only [pInitListLoop, FullExpr.bnd, h1, h2, List.head?_cons, Option.map_some]
      have hb : ((some t.1 : Option String) == some "RBRACE") = false := by simpa using hnr
      simp only [hb, Bool.false_eq_true, ↓reduceIte, FullExpr.bnd, h3, h4]
      rw [show (IL.cons j r).sepVals s.idx = IL.vals (s.idx + 1) (.cons j r) from rfl, IL.vals_cons]
      simp [List.append_assoc]
    · rw [show (IL.cons j r).sepNtoks = 1 + (IL.cons j r).ntoks from rfl, IL.ntoks_cons]; omega

theorem iok_list (items : IL) (tr : Bool) (hfirst : ∀ i r, items = .cons i r → IOK env i)
    (hrest : ∀ i r, items = .cons i r → LOK env r) : IOK env (.list items tr) := by
  intro s stop rest F hwf hstop hs hF
  cases hwf with
  | empty =>
    obtain ⟨G, rfl⟩ : ∃ G, F = G + 1 := ⟨F - 1, by simp only [I.fuel] at hF; omega⟩
    have hs0 : SeesT env s (("LBRACE", "{") :: ("RBRACE", "}") :: stop :: rest) := by simpa [I.flat, IL.flat] using hs
    obtain ⟨s1, h1, hs1, hi1, _⟩ := accept_same s "LBRACE" "{" _ hs0
    obtain ⟨s2, h2, hs2, hi2, _⟩ := accept_same s1 "RBRACE" "}" _ hs1
    refine ⟨s2, ?_, hs2, by simp only [I.ntoks, IL.ntoks]; simp; omega⟩
    show pInitializer (run G) s = _
    simp [pInitializer, FullExpr.bnd, h1, h2, tokCoord, FullExpr.pur, I.val, tc]
  | list i r _ hwl =>
    cases hwl with
    | cons _ _ hwi hwr =>
      obtain ⟨G, rfl⟩ : ∃ G, F = G + 3 := ⟨F - 3, by simp only [I.fuel, IL.fuel] at hF; omega⟩
      simp only [I.fuel, IL.fuel] at hF
      obtain ⟨k, v, r', htl, hend⟩ := tail_head r tr (stop :: rest)
      have hs0 : SeesT env s (("LBRACE", "{") :: (i.flat ++ (k, v) :: r')) := by
        rw [← htl]
        have := hs
        rw [I.flat, IL.flat_cons] at this
        simpa [trComma, List.append_assoc] using this
      obtain ⟨s1, h1, hs1, hi1, _⟩ := accept_same s "LBRACE" "{" _ hs0
      obtain ⟨t, ri, hfl, ht⟩ := I.head i hwi
      have hnr : t.1 ≠ "RBRACE" := by
        rcases ht with ht | ht
        · rw [ht]; decide
        · exact (exprHeads_init _ ht).2.2.2
      have hs1' : SeesT env s1 ((t.1, t.2) :: (ri ++ (k, v) :: r')) := by simpa [hfl] using hs1
      obtain ⟨s2, h2, hs2, hi2⟩ := accept_other s1 _ "RBRACE" hs1' (by
        intro k' v' r'' h; simp only [List.cons.injEq, Prod.mk.injEq] at h; rw [← h.1.1]; exact hnr)
      have hs2' : SeesT env s2 (i.flat ++ (k, v) :: r') := by simpa [hfl] using hs2
      obtain ⟨s3, h3, hs3, hi3⟩ := item_ok i (hfirst i r rfl) hwi s2 (k, v) r' hend hs2' G (by omega)
      rw [← htl] at hs3
      obtain ⟨s4, h4, hs4, hi4⟩ := hrest i r rfl [i.val s2.idx] s3 tr (stop :: rest) (G + 1) hwr hs3 (by omega)
      obtain ⟨s5, h5, hs5, hi5⟩ := accept_other s4 _ "COMMA" hs4 (by intro k' v' r'' h; cases h; decide)
      obtain ⟨s6, h6, hs6, hi6⟩ := expect_same s5 "RBRACE" "}" _ hs5
      refine ⟨s6, ?_, hs6, ?_⟩
      · have e2 : s2.idx = s.idx + 1 := by omega
        have e3 : s3.idx = s.idx + 1 + i.ntoks := by omega
        rw [e3] at h4
        rw [e2] at h3 h4
        have hco := ClimbSim.coordOf_node (I.val_isNode i (s.idx + 1)) s4
        have hil : run (G + 2) .initializerList s2 =
            .ok (mk .InitList (X.coordOfVal (i.val (s.idx + 1))) [.list (IL.vals (s.idx + 1) (.cons i r))]) s4 := by
          show pInitializerList (run (G + 1)) s2 = _
          simp only [pInitializerList, FullExpr.bnd, h3, h4, hco, FullExpr.pur]
          rw [IL.vals_cons]
          simp [X.coordOfVal]
        show pInitializer (run (G + 2)) s = _
        simp [pInitializer, FullExpr.bnd, h1, h2, hil, h5, h6, FullExpr.pur, I.val]
      · rw [I.ntoks, IL.ntoks_cons]
        cases tr <;> simp [trComma] at hi4 ⊢ <;> omega

mutual
theorem all_i : ∀ i : I, IOK env i
  | .expr e => iok_expr e
  | .list .nil tr => iok_list .nil tr (by intro i r h; cases h) (by intro i r h; cases h)
  | .list (.cons i r) tr => iok_list (.cons i r) tr
      (by intro i' r' h; cases h; exact all_i i) (by intro i' r' h; cases h; exact all_l r)
theorem all_l : ∀ l : IL, LOK env l
  | .nil => lok_nil
  | .cons j r => lok_cons j r (all_i j) (all_l r)
end

/-- **`_parse_initializer`**: for every initializer of the fragment - an assignment expression or a
brace list of initializers nested to any depth, with or without a trailing comma - followed by
`,` `;` or `}`, the parser returns `I.val` and consumes exactly its tokens -/
theorem init_ok (i : I) (hwf : WFInit i) (s : PState) (stop : Tk) (rest : List Tk) (hstop : EndsInit stop.1)
    (hs : SeesT env s (i.flat ++ stop :: rest)) (F : Nat) (hF : i.fuel ≤ F) :
    ∃ s', run F .initializer s = .ok (i.val s.idx) s' ∧ SeesT env s' (stop :: rest) ∧ s'.idx = s.idx + i.ntoks :=
  all_i i s stop rest F hwf hstop hs hF

mutual
theorem I.flat_length : ∀ i : I, i.flat.length = i.ntoks
  | .expr e => FullExpr.flat_length e
  | .list items tr => by
    have := IL.flat_length items
    cases tr <;> simp [I.flat, I.ntoks, this] <;> omega
theorem IL.flat_length : ∀ l : IL, l.flat.length = l.ntoks
  | .nil => rfl
  | .cons i .nil => by simpa [IL.flat, IL.ntoks] using I.flat_length i
  | .cons i (.cons j r) => by
    have h1 := I.flat_length i
    have h2 := IL.flat_length (.cons j r)
    simp only [IL.flat, IL.ntoks, List.length_append, List.length_cons, h1, h2]; omega
end

mutual
/-- the recursion budget of an initializer is linear in the number of its tokens -/
theorem I.fuel_linear : ∀ i : I, i.fuel ≤ 13 * i.ntoks + 1
  | .expr e => by have := FullExpr.fuel_linear e; simp only [I.fuel, I.ntoks]; omega
  | .list items tr => by
    have := IL.fuel_linear items
    cases tr <;> simp only [I.fuel, I.ntoks] <;> simp <;> omega
theorem IL.fuel_linear : ∀ l : IL, l.fuel ≤ 13 * l.ntoks + 5
  | .nil => by simp [IL.fuel, IL.ntoks]
  | .cons i .nil => by have := I.fuel_linear i; simp only [IL.fuel, IL.ntoks]; omega
  | .cons i (.cons j r) => by
    have h1 := I.fuel_linear i
    have h2 := IL.fuel_linear (.cons j r)
    simp only [IL.fuel, IL.ntoks] at h2 ⊢; omega
end

end PycModel.Init
