import PycModel.Proofs.TokenView
import PycModel.Proofs.ClimbSim
/-!
# `_parse_binary_expression` on real parser states

Instantiates the abstract view of `Proofs/ClimbSim.lean` with the token-level view of
`Proofs/TokenView.lean` (where `peek` / `advance` are *proved* to behave like a token stream).
What remains a hypothesis is `OperandSpec`: that `run _ .castExpression` parses each operand.
-/
namespace PycModel.ClimbConcrete
open PycModel PycModel.Climb PycModel.ClimbSim PycModel.View

section
-- `Op n a ta`: the tokens `ta`, starting at stream position `n`, spell an operand with value `a`
variable (Op : Nat → Val → List Tk → Prop)
-- what may follow an operand for `OperandSpec` to apply (the operand parser looks one token ahead)
variable (Follow : List Tk → Prop)

/-- the abstract token list `ts` (operands and operator tokens) is spelled by the concrete tokens `toks` -/
inductive Denotes : Nat → List PT → List Tk → Prop
  | nil (n) : Denotes n [] []
  | tk (n k v ts toks) : Denotes (n + 1) ts toks → Denotes n (.tk k v :: ts) ((k, v) :: toks)
  | atom (n a ta ts toks) : Op n a ta → Follow toks → Denotes (n + ta.length) ts toks →
      Denotes n (.atom a :: ts) (ta ++ toks)

def SeesPT (s : PState) (ts : List PT) : Prop := ∃ toks, SeesT s toks ∧ Denotes Op Follow s.idx ts toks

/-- the operand parser parses operands: consumes exactly their tokens, returns their value -/
def OperandSpec (fuel0 : Nat) : Prop :=
  ∀ fuel s a ta rest, fuel0 ≤ fuel → Op s.idx a ta → Follow rest → SeesT s (ta ++ rest) →
    ∃ s', run fuel .castExpression s = .ok a s' ∧ SeesT s' rest ∧ s'.idx = s.idx + ta.length

theorem iface (fuel0 : Nat) (hop : OperandSpec Op Follow fuel0) : Iface (SeesPT Op Follow) fuel0 where
  peek_tk := by
    intro s k v ts ⟨toks, hs, hd⟩
    cases hd with
    | tk _ _ _ _ toks' hd' =>
      obtain ⟨s', hp, hs', _, hidx⟩ := peek_spec s k v toks' hs
      exact ⟨s', s.idx, hp, _, hs', by rw [hidx]; exact .tk _ _ _ _ _ hd'⟩
  peek_nil := by
    intro s ⟨toks, hs, hd⟩
    cases hd with
    | nil =>
      obtain ⟨s', hp, hs', _, hidx⟩ := peek_end s hs
      exact ⟨s', hp, _, hs', by rw [hidx]; exact .nil _⟩
  adv_tk := by
    intro s k v ts ⟨toks, hs, hd⟩
    cases hd with
    | tk _ _ _ _ toks' hd' =>
      obtain ⟨s', hp, hs', _, hidx⟩ := advance_spec s k v toks' hs
      exact ⟨s', s.idx, hp, _, hs', by rw [hidx]; exact hd'⟩
  operand := by
    intro fuel s a ts hf ⟨toks, hs, hd⟩
    cases hd with
    | atom _ _ ta _ toks' ho hfo hd' =>
      obtain ⟨s', hr, hs', hidx⟩ := hop fuel s a ta toks' hf ho hfo hs
      exact ⟨s', hr, _, hs', by rw [hidx]; exact hd'⟩
end

end PycModel.ClimbConcrete
