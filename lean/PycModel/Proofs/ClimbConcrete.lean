import PycModel.Proofs.TokenView
import PycModel.Proofs.ClimbSim
/-!
# `_parse_binary_expression` on real parser states

Instantiates the abstract view of `Proofs/ClimbSim.lean` with the token-level view of
`Proofs/TokenView.lean` (where `peek` / `advance` are *proved* to behave like a token stream).
What remains a hypothesis is `OperandSpec`: that `run _ .castExpression` parses each operand.
-/
namespace PycModel.ClimbConcrete
open PycModel PycModel.Climb PycModel.ClimbSim PycModel.View

section
variable (env : Env)
-- `Op n a ta fa`: the tokens `ta`, starting at stream position `n`, spell an operand with value `a`
-- that the operand parser parses with fuel `fa`
variable (Op : Nat → Val → List Tk → Nat → Prop)
-- what may follow an operand for `OperandSpec` to apply (the operand parser looks one token ahead)
variable (Follow : List Tk → Prop)

/-- the abstract token list `ts` (operands and operator tokens) is spelled by the concrete tokens
`toks`; every operand needs at most `fuel0` -/
inductive Denotes (fuel0 : Nat) : Nat → List PT → List Tk → Prop
  | nil (n) : Denotes fuel0 n [] []
  | tk (n k v ts toks) : Denotes fuel0 (n + 1) ts toks → Denotes fuel0 n (.tk k v :: ts) ((k, v) :: toks)
  | atom (n a ta fa ts toks) : Op n a ta fa → fa ≤ fuel0 → Follow toks → Denotes fuel0 (n + ta.length) ts toks →
      Denotes fuel0 n (.atom a :: ts) (ta ++ toks)

/-- `N`: total number of tokens of the input (`s.idx + remaining = N` is invariant) -/
def SeesPT (fuel0 N : Nat) (s : PState) (ts : List PT) : Prop :=
  ∃ toks, SeesT env s toks ∧ Denotes Op Follow fuel0 s.idx ts toks ∧ s.idx + toks.length = N

/-- the operand parser parses operands: consumes exactly their tokens, returns their value -/
def OperandSpec : Prop :=
  ∀ fuel s a ta fa rest, fa ≤ fuel → Op s.idx a ta fa → Follow rest → SeesT env s (ta ++ rest) →
    ∃ s', run fuel .castExpression s = .ok a s' ∧ SeesT env s' rest ∧ s'.idx = s.idx + ta.length

theorem iface (fuel0 N : Nat) (hop : OperandSpec env Op Follow) : Iface (SeesPT env Op Follow fuel0 N) fuel0 where
  peek_tk := by
    intro s k v ts ⟨toks, hs, hd, hN⟩
    cases hd with
    | tk _ _ _ _ toks' hd' =>
      obtain ⟨s', hp, hs', _, hidx, _⟩ := peek_spec s k v toks' hs
      exact ⟨s', s.idx, hp, _, hs', by rw [hidx]; exact .tk _ _ _ _ _ hd', by rw [hidx]; exact hN⟩
  peek_nil := by
    intro s ⟨toks, hs, hd, hN⟩
    cases hd with
    | nil =>
      obtain ⟨s', hp, hs', _, hidx, _⟩ := peek_end s hs
      exact ⟨s', hp, _, hs', by rw [hidx]; exact .nil _, by rw [hidx]; exact hN⟩
  adv_tk := by
    intro s k v ts ⟨toks, hs, hd, hN⟩
    cases hd with
    | tk _ _ _ _ toks' hd' =>
      obtain ⟨s', hp, hs', _, hidx, _⟩ := advance_spec s k v toks' hs
      exact ⟨s', s.idx, hp, _, hs', by rw [hidx]; exact hd', by rw [hidx]; simp at hN; omega⟩
  operand := by
    intro fuel s a ts hf ⟨toks, hs, hd, hN⟩
    cases hd with
    | atom _ _ ta fa _ toks' ho hfa hfo hd' =>
      obtain ⟨s', hr, hs', hidx⟩ := hop fuel s a ta fa toks' (by omega) ho hfo hs
      exact ⟨s', hr, _, hs', by rw [hidx]; exact hd', by rw [hidx]; simp at hN; omega⟩
end

end PycModel.ClimbConcrete
