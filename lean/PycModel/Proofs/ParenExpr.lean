import PycModel.Proofs.OperandId
import PycModel.Proofs.ClimbSim
/-!
# Expressions of identifiers, parentheses and binary operators parse to the grammar's tree

End-to-end functional correctness of the parser model on the language
`E ::= identifier | ( E ) | E binop E`, for expressions of any size and nesting: parentheses are
transparent, binary operators group by the ten levels, identifiers are `ID` nodes at their own
token.  No hypothesis about operands is left: a parenthesised operand is parsed by the chain
`castExpression -> unaryExpression -> postfixExpression -> primaryExpression -> expression ->
assignmentExpression -> conditionalExpression -> binaryExpression`, which is executed symbolically
here, the innermost call being the induction hypothesis.
-/
namespace PycModel.ParenExpr
open PycModel PycModel.View PycModel.Climb PycModel.ClimbSim PycModel.ClimbConcrete PycModel.OperandId

variable {env : Env}

inductive E where
  | id (x : String)
  | paren (e : E)
  | bin (kind val : String) (l r : E)

def E.ntoks : E → Nat
  | .id _ => 1
  | .paren e => e.ntoks + 2
  | .bin _ _ l r => l.ntoks + 1 + r.ntoks

def E.flat : E → List Tk
  | .id x => [("ID", x)]
  | .paren e => ("LPAREN", "(") :: (e.flat ++ [("RPAREN", ")")])
  | .bin k v l r => l.flat ++ [(k, v)] ++ r.flat

def idNode (n : Nat) (x : String) : Val := mk .ID (some ⟨"", n, some (n + 1)⟩) [.str x]

/-- the binary-operator tree of `e` whose first token is at stream position `n`; a parenthesised
operand is a leaf carrying the AST of what is inside the parentheses -/
def E.toBT (n : Nat) : E → BT
  | .id x => .leaf (idNode n x)
  | .paren e => .leaf (toVal (e.toBT (n + 1)))
  | .bin k v l r => .node k v (l.toBT n) (r.toBT (n + l.ntoks + 1))

/-- the AST of `e` -/
def E.val (n : Nat) (e : E) : Val := toVal (e.toBT n)

/-- derivable from the level-`m` expression nonterminal; inside parentheses the level starts again -/
inductive WFE : Nat → E → Prop
  | id (m x) : WFE m (.id x)
  | paren (m e) : WFE 0 e → WFE m (.paren e)
  | bin (m p k v l r) : binPrec k = some p → m ≤ p → WFE p l → WFE (p + 1) r → WFE m (.bin k v l r)

def E.btSize : E → Nat
  | .id _ => 1
  | .paren _ => 1
  | .bin _ _ l r => 1 + l.btSize + r.btSize

/-- fuel the operand parser needs for the most demanding operand of `e` -/
def E.opFuel : E → Nat
  | .id _ => 4
  | .paren e => 2 * e.btSize + e.opFuel + 7
  | .bin _ _ l r => max l.opFuel r.opFuel

/-- fuel for `run _ (.binaryExpression m none)` on `e` -/
def E.fuel (e : E) : Nat := 2 * e.btSize + e.opFuel

theorem flat_length : ∀ e : E, e.flat.length = e.ntoks
  | .id _ => rfl
  | .paren e => by simp [E.flat, E.ntoks, flat_length e]
  | .bin _ _ l r => by simp [E.flat, E.ntoks, flat_length l, flat_length r]; omega

theorem btSize_toBT : ∀ (e : E) (n : Nat), (e.toBT n).size = e.btSize
  | .id _, _ => rfl
  | .paren _, _ => rfl
  | .bin _ _ l r, n => by simp [E.toBT, BT.size, E.btSize, btSize_toBT l, btSize_toBT r]

theorem wf_toBT : ∀ (e : E) (m n : Nat), WFE m e → WF binPrec m (e.toBT n)
  | .id _, _, _, _ => .leaf _ _
  | .paren _, _, _, _ => .leaf _ _
  | .bin k v l r, m, n, h => by
    cases h with
    | bin _ p _ _ _ _ hp hm hl hr => exact .node _ p _ _ _ _ hp hm (wf_toBT l p n hl) (wf_toBT r (p + 1) _ hr)

theorem toVal_isNode' : ∀ t : BT, Nodes t → (toVal t).isNode = true := fun _ h => toVal_isNode h

theorem nodes_toBT : ∀ (e : E) (n : Nat), Nodes (e.toBT n)
  | .id _, _ => rfl
  | .paren e, n => toVal_isNode (nodes_toBT e (n + 1))
  | .bin _ _ l r, n => ⟨nodes_toBT l n, nodes_toBT r _⟩

/-- the first token of an expression is an identifier or `(` -/
theorem flat_head : ∀ e : E, ∃ t r, e.flat = t :: r ∧ (t.1 = "ID" ∨ t.1 = "LPAREN")
  | .id x => ⟨_, _, rfl, .inl rfl⟩
  | .paren e => ⟨_, _, rfl, .inr rfl⟩
  | .bin k v l r => by
    obtain ⟨t, r', h, ht⟩ := flat_head l
    exact ⟨t, r' ++ [(k, v)] ++ r.flat, by simp [E.flat, h], ht⟩


/-! ## symbolic execution of the productions between an operand and the expression inside its parentheses -/

theorem bind_apply {α β} (m : P α) (f : α → P β) (s : PState) :
    (m >>= f) s = match m s with | .ok a s' => f a s' | .err e => .err e := rfl
theorem pure_apply {α} (a : α) (s : PState) : (pure a : P α) s = .ok a s := rfl

/-- `_try_parse_paren_type_name` on `( expression ...`: consumes the `(`, sees that no declaration
starts, and goes back -/
theorem tryParen_back (F : Nat) (s : PState) (t2 : Tk) (rest2 : List Tk)
    (h : SeesT env s (("LPAREN", "(") :: t2 :: rest2)) (ht2 : t2.1 = "ID" ∨ t2.1 = "LPAREN") :
    ∃ s', run (F + 1) .tryParenTypeName s = .ok none s' ∧ SeesT env s' (("LPAREN", "(") :: t2 :: rest2) ∧
      s'.idx = s.idx := by
  obtain ⟨s2, h2, hs2, hi2, hb2⟩ := accept_same s "LPAREN" "(" (t2 :: rest2) h
  obtain ⟨s3, h3, hs3, hi3, hext, hsz⟩ := peekType_spec s2 (t2 :: rest2) hs2
  have hlt : s.idx < s2.buf.size := (Array.getElem?_eq_some_iff.mp hb2).1
  have hb3 : s3.buf[s.idx]? = some (some ⟨"LPAREN", "(", s.idx⟩) := by rw [hext _ hlt]; exact hb2
  obtain ⟨s4, h4, hs4, _, hi4, _⟩ := reset_one s3 (t2 :: rest2) s.idx _ hs3 (by omega) hb3
  refine ⟨s4, ?_, hs4, hi4⟩
  have hnd : inSet (some t2.1) declStart = false := by
    rcases ht2 with h | h <;> rw [h] <;> decide
  show pTryParenTypeName (run F) s = _
  simp [pTryParenTypeName, bind_apply, mark, h2, startsDeclaration, h3, hnd, h4, pure_apply]

/-- `_parse_conditional_expression` when no `?` follows -/
theorem cond_through (F : Nat) (s s1 : PState) (v : Val) (rest : List Tk)
    (hb : run F (.binaryExpression 0 none) s = .ok v s1) (hs1 : SeesT env s1 rest)
    (hq : ∀ k w r, rest = (k, w) :: r → k ≠ "CONDOP") :
    ∃ s', run (F + 1) .conditionalExpression s = .ok v s' ∧ SeesT env s' rest ∧ s'.idx = s1.idx := by
  obtain ⟨s2, h2, hs2, hi2⟩ := accept_other s1 rest "CONDOP" hs1 hq
  refine ⟨s2, ?_, hs2, hi2⟩
  show pConditionalExpression (run F) s = _
  simp [pConditionalExpression, bind_apply, hb, h2, pure_apply]


/-- `_parse_assignment_expression` on an expression that is not a statement expression `({`
and is not followed by an assignment operator -/
theorem assign_through (F : Nat) (s : PState) (v : Val) (toks rest : List Tk) (i1 : Nat)
    (hs : SeesT env s toks)
    (hhead : ∃ t1 r1, toks = t1 :: r1 ∧ (t1.1 ≠ "LPAREN" ∨ ∃ t2 r2, r1 = t2 :: r2 ∧ t2.1 ≠ "LBRACE"))
    (hc : ∀ s0, SeesT env s0 toks → s0.idx = s.idx →
      ∃ s1, run F .conditionalExpression s0 = .ok v s1 ∧ SeesT env s1 rest ∧ s1.idx = i1)
    (hq : inSet (rest.head?.map (·.1)) assignmentOps = false) :
    ∃ s', run (F + 1) .assignmentExpression s = .ok v s' ∧ SeesT env s' rest ∧ s'.idx = i1 := by
  obtain ⟨t1, r1, rfl, hsecond⟩ := hhead
  obtain ⟨sa, ha, hsa, hia, _⟩ := peekType_spec s _ hs
  -- the `({` test is false, in some state that still sees the same tokens at the same index
  have htest : ∃ sb, andM (peekIs "LPAREN") (peek2Is "LBRACE") s = .ok false sb ∧ SeesT env sb (t1 :: r1) ∧
      sb.idx = s.idx := by
    by_cases hl : t1.1 = "LPAREN"
    · rcases hsecond with h | ⟨t2, r2, rfl, hne⟩
      · exact absurd hl h
      · obtain ⟨sb, hb, hsb, _, hib, _⟩ := peekK_spec 1 sa (t1 :: t2 :: r2) t2 hsa rfl
        refine ⟨sb, ?_, hsb, by omega⟩
        simp [andM, peekIs, peek2Is, peekType2, bind_apply, ha, hl, hb, pure_apply, hne]
    · refine ⟨sa, ?_, hsa, hia⟩
      simp [andM, peekIs, bind_apply, ha, hl, pure_apply]
  obtain ⟨sb, hb, hsb, hib⟩ := htest
  obtain ⟨s1, h1, hs1, hi1⟩ := hc sb hsb hib
  obtain ⟨s2, h2, hs2, hi2, _⟩ := peekType_spec s1 rest hs1
  refine ⟨s2, ?_, hs2, by omega⟩
  show pAssignmentExpression (run F) s = _
  simp [pAssignmentExpression, bind_apply, hb, h1, h2, hq, pure_apply]

/-- `_parse_expression` when no `,` follows -/
theorem expr_through (F : Nat) (s : PState) (v : Val) (rest : List Tk) (i1 : Nat)
    (ha : ∃ s1, run F .assignmentExpression s = .ok v s1 ∧ SeesT env s1 rest ∧ s1.idx = i1)
    (hq : ∀ k w r, rest = (k, w) :: r → k ≠ "COMMA") :
    ∃ s', run (F + 1) .expression s = .ok v s' ∧ SeesT env s' rest ∧ s'.idx = i1 := by
  obtain ⟨s1, h1, hs1, hi1⟩ := ha
  obtain ⟨s2, h2, hs2, hi2⟩ := accept_other s1 rest "COMMA" hs1 hq
  refine ⟨s2, ?_, hs2, by omega⟩
  show pExpression (run F) s = _
  simp [pExpression, bind_apply, h1, h2, pure_apply]


theorem lparen_not_const : inSet (some "LPAREN") intConst = false ∧ inSet (some "LPAREN") floatConst = false ∧
    inSet (some "LPAREN") charConst = false ∧ inSet (some "LPAREN") stringLiteral = false ∧
    inSet (some "LPAREN") wstrLiteral = false := by decide

/-- a primary expression `( expression )`, given how the expression inside parses -/
theorem primary_paren (F : Nat) (s : PState) (v : Val) (inner rest : List Tk) (i1 : Nat)
    (hs : SeesT env s (("LPAREN", "(") :: (inner ++ ("RPAREN", ")") :: rest)))
    (he : ∀ s0, SeesT env s0 (inner ++ ("RPAREN", ")") :: rest) → s0.idx = s.idx + 1 →
      ∃ s1, run F .expression s0 = .ok v s1 ∧ SeesT env s1 (("RPAREN", ")") :: rest) ∧ s1.idx = i1) :
    ∃ s', run (F + 1) .primaryExpression s = .ok v s' ∧ SeesT env s' rest ∧ s'.idx = i1 + 1 := by
  obtain ⟨s1, h1, hs1, hi1, _⟩ := peekType_spec s _ hs
  obtain ⟨s2, h2, hs2, _, hi2, _⟩ := advance_spec s1 "LPAREN" "(" _ hs1
  obtain ⟨s3, h3, hs3, hi3⟩ := he s2 hs2 (by omega)
  obtain ⟨s4, h4, hs4, hi4⟩ := expect_same s3 "RPAREN" ")" rest hs3
  refine ⟨s4, ?_, hs4, by omega⟩
  obtain ⟨c1, c2, c3, c4, c5⟩ := lparen_not_const
  show pPrimaryExpression (run F) s = _
  simp [pPrimaryExpression, bind_apply, h1, c1, c2, c3, c4, c5, h2, h3, h4, pure_apply]

/-- the whole operand `( expression )`: cast -> unary -> postfix -> primary, then the postfix loop stops -/
theorem cast_paren (F : Nat) (s : PState) (v : Val) (inner rest : List Tk) (i1 : Nat)
    (hs : SeesT env s (("LPAREN", "(") :: (inner ++ ("RPAREN", ")") :: rest)))
    (hin : ∃ t2 r2, inner = t2 :: r2 ∧ (t2.1 = "ID" ∨ t2.1 = "LPAREN"))
    (he : ∀ s0, SeesT env s0 (inner ++ ("RPAREN", ")") :: rest) → s0.idx = s.idx + 1 →
      ∃ s1, run F .expression s0 = .ok v s1 ∧ SeesT env s1 (("RPAREN", ")") :: rest) ∧ s1.idx = i1)
    (hf : FollowOp rest) :
    ∃ s', run (F + 4) .castExpression s = .ok v s' ∧ SeesT env s' rest ∧ s'.idx = i1 + 1 := by
  obtain ⟨t2, r2, rfl, ht2⟩ := hin
  -- cast: no type name in the parentheses
  obtain ⟨s1, h1, hs1, hi1⟩ := tryParen_back (F + 2) s t2 (r2 ++ ("RPAREN", ")") :: rest) (by simpa using hs) ht2
  -- unary: `(` starts no unary operator
  obtain ⟨s2, h2, hs2, hi2, _⟩ := peekType_spec s1 _ hs1
  -- postfix: again no type name (no compound literal)
  obtain ⟨s3, h3, hs3, hi3⟩ := tryParen_back F s2 t2 (r2 ++ ("RPAREN", ")") :: rest) hs2 ht2
  obtain ⟨s4, h4, hs4, hi4⟩ := primary_paren F s3 v (t2 :: r2) rest i1 (by simpa using hs3)
    (fun s0 h0 hi0 => he s0 h0 (by omega))
  obtain ⟨s5, h5, hs5, hi5⟩ := postfixLoop_stop F s4 v rest hs4 hf
  refine ⟨s5, ?_, hs5, by omega⟩
  have hpost : run (F + 2) (.postfixExpression none) s2 = .ok v s5 := by
    show pPostfixExpression (run (F + 1)) none s2 = _
    simp [pPostfixExpression, bind_apply, h3, h4, h5, pure_apply]
  have hun : run (F + 3) .unaryExpression s1 = .ok v s5 := by
    show pUnaryExpression (run (F + 2)) s1 = _
    simp [pUnaryExpression, bind_apply, h2, inSet, hpost]
  show pCastExpression (run (F + 3)) s = _
  simp [pCastExpression, bind_apply, h1, hun]


/-! ## operands, and the induction -/

/-- what the main theorem says about one expression -/
def ParseOK (env : Env) (e : E) : Prop :=
  ∀ (m : Nat) (s : PState) (stop : Tk) (rest : List Tk), WFE m e → binPrec stop.1 = none →
    stop.1 ∉ postfixStarters → SeesT env s (e.flat ++ stop :: rest) →
    ∀ F, e.fuel ≤ F → ∃ s', run F (.binaryExpression m none) s = .ok (e.val s.idx) s' ∧
      SeesT env s' (stop :: rest) ∧ s'.idx = s.idx + e.ntoks

/-- operands: an identifier, or a parenthesised expression for which the theorem is already known -/
def Op (env : Env) (n : Nat) (a : Val) (ta : List Tk) (fa : Nat) : Prop :=
  (∃ x, ta = [("ID", x)] ∧ a = idNode n x ∧ fa = 4) ∨
  (∃ e : E, ta = (E.paren e).flat ∧ a = e.val (n + 1) ∧ fa = e.fuel + 7 ∧ WFE 0 e ∧ ParseOK env e)

theorem flat_second : ∀ e : E, ∃ t1 r1, e.flat = t1 :: r1 ∧
    (t1.1 ≠ "LPAREN" ∨ ∃ t2 r2, r1 = t2 :: r2 ∧ t2.1 ≠ "LBRACE")
  | .id x => ⟨_, _, rfl, .inl (by simp)⟩
  | .paren e => by
    obtain ⟨t, r, h, ht⟩ := flat_head e
    refine ⟨_, _, rfl, .inr ⟨t, r ++ [("RPAREN", ")")], by simp [h], ?_⟩⟩
    rcases ht with h' | h' <;> rw [h'] <;> decide
  | .bin k v l r => by
    obtain ⟨t1, r1, h, hs⟩ := flat_second l
    refine ⟨t1, r1 ++ [(k, v)] ++ r.flat, by simp [E.flat, h], ?_⟩
    rcases hs with h' | ⟨t2, r2, rfl, h'⟩
    · exact .inl h'
    · exact .inr ⟨t2, r2 ++ [(k, v)] ++ r.flat, by simp, h'⟩

theorem operand_spec : OperandSpec env (Op env) FollowOp := by
  intro fuel s a ta fa rest hfuel hop hfo hs
  rcases hop with ⟨x, rfl, rfl, rfl⟩ | ⟨e, rfl, rfl, rfl, hwf, hok⟩
  · obtain ⟨F, rfl⟩ : ∃ F, fuel = F + 4 := ⟨fuel - 4, by omega⟩
    obtain ⟨s', hr, hs', hi⟩ := cast_id F s x rest hs hfo
    exact ⟨s', hr, hs', by simpa using hi⟩
  · obtain ⟨G, rfl⟩ : ∃ G, fuel = G + 3 + 4 := ⟨fuel - 7, by omega⟩
    have hstop1 : binPrec ("RPAREN", ")").1 = none := by decide
    have hstop2 : ("RPAREN", ")").1 ∉ postfixStarters := by decide
    have hs' : SeesT env s (("LPAREN", "(") :: (e.flat ++ ("RPAREN", ")") :: rest)) := by
      simpa [E.flat] using hs
    -- the expression inside the parentheses, from any state that sees it
    have he : ∀ s0, SeesT env s0 (e.flat ++ ("RPAREN", ")") :: rest) → s0.idx = s.idx + 1 →
        ∃ s1, run (G + 3) .expression s0 = .ok (e.val (s.idx + 1)) s1 ∧
          SeesT env s1 (("RPAREN", ")") :: rest) ∧ s1.idx = s.idx + 1 + e.ntoks := by
      intro s0 h0 hi0
      refine expr_through (G + 2) s0 _ _ _ ?_ (by intro k w r h; simp at h; rw [← h.1.1]; decide)
      obtain ⟨t1, r1, hfl, hsec⟩ := flat_second e
      refine assign_through (G + 1) s0 _ (e.flat ++ ("RPAREN", ")") :: rest) _ _ h0
        ⟨t1, r1 ++ ("RPAREN", ")") :: rest, by simp [hfl], ?_⟩ ?_ (by simp [inSet, assignmentOps])
      · rcases hsec with h' | ⟨t2, r2, rfl, h'⟩
        · exact .inl h'
        · exact .inr ⟨t2, r2 ++ ("RPAREN", ")") :: rest, by simp, h'⟩
      · intro sc hc hic
        obtain ⟨sd, hd, hsd, hid⟩ := hok 0 sc ("RPAREN", ")") rest hwf hstop1 hstop2 hc G (by omega)
        obtain ⟨se, hee, hse, hie⟩ := cond_through G sc sd _ _ hd hsd
          (by intro k w r h; simp at h; rw [← h.1.1]; decide)
        refine ⟨se, ?_, hse, by omega⟩
        rw [hee]; congr 2; rw [hic, hi0]
    obtain ⟨s', hr, hs'', hi⟩ := cast_paren (G + 3) s (e.val (s.idx + 1)) e.flat rest _ hs'
      (flat_head e) he hfo
    refine ⟨s', hr, hs'', ?_⟩
    simp [E.flat, flat_length]; omega


/-- every parenthesised operand of `e` (at the level of its binary-operator tree) satisfies the theorem -/
def LeafOK (env : Env) : E → Prop
  | .id _ => True
  | .paren e => ParseOK env e
  | .bin _ _ l r => LeafOK env l ∧ LeafOK env r

theorem binop_not_postfix (k : String) (p : Nat) (h : binPrec k = some p) : k ∉ postfixStarters := by
  intro hk
  simp only [postfixStarters, List.mem_cons, List.mem_nil_iff, or_false] at hk
  rcases hk with rfl | rfl | rfl | rfl | rfl | rfl | rfl <;> simp [binPrec, binaryPrecedence] at h

theorem denotes_tks (f0 : Nat) : ∀ (n : Nat) (l : List Tk),
    Denotes (Op env) FollowOp f0 n (l.map fun t => PT.tk t.1 t.2) l
  | n, [] => .nil n
  | n, (k, v) :: l => .tk n k v _ _ (denotes_tks f0 (n + 1) l)

theorem denotes_tks_inv (f0 : Nat) : ∀ (n : Nat) (l toks : List Tk),
    Denotes (Op env) FollowOp f0 n (l.map fun t => PT.tk t.1 t.2) toks → toks = l
  | n, [], toks, h => by cases h; rfl
  | n, (k, v) :: l, toks, h => by
    cases h with
    | tk _ _ _ _ toks' h' => rw [denotes_tks_inv f0 (n + 1) l toks' h']

theorem denotes_tree (f0 : Nat) : ∀ (e : E) (m n : Nat) (ts : List PT) (toks : List Tk),
    WFE m e → LeafOK env e → e.opFuel ≤ f0 → FollowOp toks → Denotes (Op env) FollowOp f0 (n + e.ntoks) ts toks →
    Denotes (Op env) FollowOp f0 n ((e.toBT n).toks ++ ts) (e.flat ++ toks)
  | .id x, m, n, ts, toks, _, _, hf0, hf, hd => by
    simp only [E.toBT, BT.toks, E.flat, List.cons_append, List.nil_append]
    exact .atom n _ [("ID", x)] 4 ts toks (.inl ⟨x, rfl, rfl, rfl⟩) hf0 hf (by simpa [E.ntoks] using hd)
  | .paren e, m, n, ts, toks, hwf, hok, hf0, hf, hd => by
    cases hwf with
    | paren _ _ hw =>
      simp only [E.toBT, BT.toks, List.cons_append, List.nil_append]
      refine .atom n _ (E.paren e).flat (e.fuel + 7) ts toks (.inr ⟨e, rfl, rfl, rfl, hw, hok⟩) ?_ hf ?_
      · simpa [E.opFuel, E.fuel] using hf0
      · simpa [E.flat, flat_length, E.ntoks] using hd
  | .bin k v l r, m, n, ts, toks, hwf, hok, hf0, hf, hd => by
    cases hwf with
    | bin _ p _ _ _ _ hp _ hl hr =>
      have hfl : l.opFuel ≤ f0 := Nat.le_trans (Nat.le_max_left _ _) hf0
      have hfr : r.opFuel ≤ f0 := Nat.le_trans (Nat.le_max_right _ _) hf0
      have h1 := denotes_tree f0 r (p + 1) (n + l.ntoks + 1) ts toks hr hok.2 hfr hf
        (by simpa [E.ntoks, Nat.add_assoc, Nat.add_comm, Nat.add_left_comm] using hd)
      have h2 : Denotes (Op env) FollowOp f0 (n + l.ntoks) (PT.tk k v :: ((r.toBT (n + l.ntoks + 1)).toks ++ ts))
          ((k, v) :: (r.flat ++ toks)) := .tk _ k v _ _ h1
      have hfo : FollowOp ((k, v) :: (r.flat ++ toks)) := by
        intro k' v' r' heq
        simp only [List.cons.injEq, Prod.mk.injEq] at heq
        rw [← heq.1.1]
        exact binop_not_postfix k p hp
      have h3 := denotes_tree f0 l p n _ _ hl hok.1 hfl hfo h2
      simpa [E.toBT, BT.toks, E.flat, List.append_assoc] using h3

/-- the theorem for `e`, given it for the parenthesised operands of `e` -/
theorem parseOK_of_leaves (e : E) (hl : LeafOK env e) : ParseOK env e := by
  intro m s stop rest hwf hstop1 hstop2 hs F hF
  let k : List PT := (stop :: rest).map fun t => PT.tk t.1 t.2
  have hk : StopAt binPrec m k := by
    refine ⟨?_, ?_⟩
    · intro kk v r p heq hp
      simp only [k, List.map_cons, List.cons.injEq, PT.tk.injEq] at heq
      rw [← heq.1.1, hstop1] at hp; cases hp
    · intro a r heq; simp [k] at heq
  have hkt : ∀ x ∈ k, PTok' x := by
    intro x hx
    simp only [k, List.mem_map] at hx
    obtain ⟨t, _, rfl⟩ := hx
    trivial
  have hfo : FollowOp (stop :: rest) := by
    intro k' v' r' heq
    simp only [List.cons.injEq] at heq
    rw [heq.1] at hstop2; exact hstop2
  have hd := denotes_tree e.opFuel e m s.idx k (stop :: rest) hwf hl (Nat.le_refl _) hfo (denotes_tks _ _ _)
  let N := s.idx + (e.flat ++ stop :: rest).length
  obtain ⟨s', hr, toks, hs', hd', hN⟩ := binary_expression_parses_grammar_tree
    (iface env (Op env) FollowOp e.opFuel N operand_spec) (e.toBT s.idx) m (wf_toBT e m _ hwf) (nodes_toBT e _)
    k hk hkt s ⟨_, hs, hd, rfl⟩ F (by rw [btSize_toBT]; exact hF)
  have := denotes_tks_inv _ _ _ _ hd'
  subst this
  refine ⟨s', hr, hs', ?_⟩
  simp only [N, List.length_append, flat_length, List.length_cons] at hN
  omega

/-- **Expressions of identifiers, parentheses and binary operators parse to the grammar's tree.** -/
theorem parse_ok : ∀ e : E, ParseOK env e ∧ LeafOK env e
  | .id x => ⟨parseOK_of_leaves _ trivial, trivial⟩
  | .paren e => by
    have ih := parse_ok e
    exact ⟨parseOK_of_leaves _ ih.1, ih.1⟩
  | .bin k v l r => by
    have ihl := parse_ok l
    have ihr := parse_ok r
    exact ⟨parseOK_of_leaves _ ⟨ihl.2, ihr.2⟩, ihl.2, ihr.2⟩


/-- the fuel the theorem asks for is linear in the number of tokens -/
theorem fuel_linear : ∀ e : E, e.fuel ≤ 9 * e.ntoks
  | .id _ => by simp [E.fuel, E.btSize, E.opFuel, E.ntoks]
  | .paren e => by
    have := fuel_linear e
    simp only [E.fuel, E.btSize, E.opFuel, E.ntoks] at this ⊢; omega
  | .bin _ _ l r => by
    have hl := fuel_linear l
    have hr := fuel_linear r
    simp only [E.fuel, E.btSize, E.opFuel, E.ntoks] at hl hr ⊢
    omega

/-- the initial parser state sees the whole token list -/
theorem seesT_init (toks : List Tk) :
    SeesT ⟨fun _ => false, toks⟩ (initState (toks.map (fun t => SEv.tok t.1 t.2) ++ [.eof])) toks := by
  refine ⟨⟨[], toks, false, by simp [initState], rfl, ?_, by simp, ?_, by intro _; rfl⟩, by simp [initState], ?_,
    ⟨[], by simp [initState], by simp⟩⟩
  · have : (clsF fun _ => false) = id := by funext t; simp [clsF]
    show toks = _ ++ toks.map (clsF fun _ => false)
    rw [this]; simp
  · show Agrees (fun _ => false) [[]]
    refine ⟨?_, [], [], rfl, ?_⟩
    · intro sc hsc e he
      simp only [List.mem_singleton] at hsc
      subst hsc; simp at he
    · intro n hn; cases hn
  · intro j t hj; simp [initState] at hj

/-- a start state in which `T` is a typedef name of the file scope: the raw tokens `rt` are seen
with every identifier spelled `T` classified as `TYPEID` -/
theorem seesT_typedef1 (T : String) (rt : List Tk) :
    SeesT ⟨fun n => n == T, rt.map (clsF fun n => n == T)⟩
      { initState (rt.map (fun t => SEv.tok t.1 t.2) ++ [.eof]) with scopes := [[(T, true)]] }
      (rt.map (clsF fun n => n == T)) := by
  refine ⟨⟨[], rt, false, by simp [initState], rfl, by simp, by simp, ?_, by intro _; rfl⟩, by simp [initState], ?_,
    ⟨[], by simp [initState], by simp⟩⟩
  · show Agrees (fun n => n == T) [[(T, true)]]
    refine ⟨?_, [], [(T, true)], rfl, ?_⟩
    · intro sc hsc e he
      simp only [List.mem_singleton] at hsc
      subst hsc
      simp only [List.mem_singleton] at he
      subst he; simp
    · intro n hn
      have : n = T := by simpa using hn
      subst this
      simp [scopeLookup]
  · intro j t hj; simp [initState] at hj

/-! ## redundant parentheses change nothing but coordinates -/

theorem val_coord_some : ∀ (e : E) (n : Nat), ∃ c, (e.val n).coord? = some (some c)
  | .id x, n => ⟨_, rfl⟩
  | .paren e, n => val_coord_some e (n + 1)
  | .bin k v l r, n => by
    obtain ⟨c, hc⟩ := val_coord_some l n
    refine ⟨c, ?_⟩
    simp only [E.val] at hc
    show some ((toVal (E.toBT n l)).coord?.getD none) = some (some c)
    rw [hc]; rfl

/-- the AST without coordinates does not depend on where the expression starts -/
theorem erase_val_indep (c0 : Coord) : ∀ (e : E) (n n' : Nat),
    (e.val n).mapCoords (fun _ => c0) = (e.val n').mapCoords (fun _ => c0)
  | .id x, n, n' => by simp [E.val, E.toBT, toVal, idNode, mk, Val.mapCoords, Val.mapCoordsL]
  | .paren e, n, n' => erase_val_indep c0 e (n + 1) (n' + 1)
  | .bin k v l r, n, n' => by
    have hl := erase_val_indep c0 l n n'
    have hr := erase_val_indep c0 r (n + l.ntoks + 1) (n' + l.ntoks + 1)
    obtain ⟨c, hc⟩ := val_coord_some l n
    obtain ⟨c', hc'⟩ := val_coord_some l n'
    simp only [E.val] at hl hr hc hc'
    simp [E.val, E.toBT, toVal, mk, Val.mapCoords, Val.mapCoordsL, hc, hc', hl, hr]

/-- **Redundant parentheses are transparent**: `(e)` and `e` have the same AST up to coordinates -/
theorem paren_transparent (c0 : Coord) (e : E) (n n' : Nat) :
    ((E.paren e).val n).mapCoords (fun _ => c0) = (e.val n').mapCoords (fun _ => c0) :=
  erase_val_indep c0 e (n + 1) n'

end PycModel.ParenExpr
