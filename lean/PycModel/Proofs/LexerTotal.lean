import PycModel.Lexer
import PycModel.Proofs.RegexLemmas
/-! Progress and termination of the scanner, for every configuration satisfying a decidable
well-formedness condition and every input text. -/
namespace PycModel

def Rule.ok (u : UniCfg) (r : Rule) : Bool :=
  r.action == .error || (decide (1 ≤ r.re.minLen) && r.re.avoids u '\n')

/-- decidable well-formedness of the tables (checked by evaluation on the regenerated tables):
every non-error rule matches at least one character and can never match a newline;
fixed tokens are non-empty and newline-free. -/
def LexCfg.wf (cfg : LexCfg) : Bool :=
  cfg.rules.all (Rule.ok cfg.uni) &&
  cfg.buckets.all fun b => b.2.all fun f => !f.lit.isEmpty && !f.lit.contains '\n'

theorem matchMaster_some {cfg : LexCfg} {s : List Char} {r : Rule} {n : Nat}
    (h : matchMaster cfg s = some (r, n)) : r ∈ cfg.rules ∧ n ∈ ends cfg.uni r.re s := by
  simp only [matchMaster] at h
  obtain ⟨r', hr', h'⟩ := List.exists_of_findSome?_eq_some h
  simp only [Option.map_eq_some_iff] at h'
  obtain ⟨m, hm, heq⟩ := h'
  cases heq
  exact ⟨hr', reMatch_mem _ _ _ _ hm⟩

theorem matchFixed_some {cfg : LexCfg} {s : List Char} {f : Fixed}
    (h : matchFixed cfg s = some f) : ∃ b ∈ cfg.buckets, f ∈ b.2 ∧ startsWith s f.lit = true := by
  simp only [matchFixed] at h
  split at h
  · simp at h
  · split at h
    · simp at h
    · rename_i c0 b hb
      refine ⟨_, List.mem_of_find?_eq_some hb, List.mem_of_find?_eq_some h, ?_⟩
      have := List.find?_some h
      simpa using this

inductive BestSpec (cfg : LexCfg) (s : List Char) : Best → Prop
  | none : BestSpec cfg s .none
  | regex (r n) : r ∈ cfg.rules → n ∈ ends cfg.uni r.re s → BestSpec cfg s (.regex r n)
  | fixed (f b) : b ∈ cfg.buckets → f ∈ b.2 → startsWith s f.lit = true → BestSpec cfg s (.fixed f)

theorem matchBest_spec (cfg : LexCfg) (s : List Char) : BestSpec cfg s (matchBest cfg s) := by
  unfold matchBest
  split
  · exact .none
  · rename_i r n h _; have := matchMaster_some h; exact .regex _ _ this.1 this.2
  · rename_i f _ h; obtain ⟨b, hb, hf, hs⟩ := matchFixed_some h; exact .fixed _ _ hb hf hs
  · rename_i r n f h1 h2
    split
    · obtain ⟨b, hb, hf, hs⟩ := matchFixed_some h2; exact .fixed _ _ hb hf hs
    · have := matchMaster_some h1; exact .regex _ _ this.1 this.2

theorem wf_rule {cfg : LexCfg} (h : cfg.wf = true) {r : Rule} (hr : r ∈ cfg.rules) (ha : r.action ≠ .error) :
    1 ≤ r.re.minLen ∧ r.re.avoids cfg.uni '\n' = true := by
  simp only [LexCfg.wf, Bool.and_eq_true, List.all_eq_true] at h
  have := h.1 r hr
  simp only [Rule.ok, Bool.or_eq_true, beq_iff_eq, Bool.and_eq_true, decide_eq_true_eq] at this
  rcases this with h1 | h1
  · exact absurd h1 ha
  · exact h1

theorem wf_fixed {cfg : LexCfg} (h : cfg.wf = true) {b : Char × List Fixed} (hb : b ∈ cfg.buckets)
    {f : Fixed} (hf : f ∈ b.2) : 1 ≤ f.lit.length ∧ '\n' ∉ f.lit := by
  simp only [LexCfg.wf, Bool.and_eq_true, List.all_eq_true] at h
  have := h.2 b hb f hf
  simp only [Bool.not_eq_eq_eq_not, Bool.not_true, List.isEmpty_eq_false_iff, ne_eq,
    List.contains_eq_mem, decide_eq_false_iff_not] at this
  refine ⟨?_, this.2⟩
  cases hl : f.lit with
  | nil => exact absurd hl this.1
  | cons _ _ => simp

/-- `_match_token` always consumes at least one character -/
theorem matchToken_pos {cfg : LexCfg} (h : cfg.wf = true) (isType : String → Bool) (st : LexState)
    (hne : st.rest ≠ []) : 1 ≤ (matchToken cfg isType st).2 := by
  unfold matchToken
  split
  · contradiction
  · have hs := matchBest_spec cfg st.rest
    split
    · simp
    · rename_i f hf
      rw [hf] at hs
      cases hs with
      | fixed _ b hb hfb _ => exact (wf_fixed h hb hfb).1
    · rename_i r n hr
      rw [hr] at hs
      cases hs with
      | regex _ _ hrm hn =>
        have hmin := ends_ge_minLen _ _ _ _ hn
        split
        · rename_i ha
          have := (wf_rule h hrm (by rw [ha]; decide)).1
          show 1 ≤ n; omega
        · show 1 ≤ max 1 n; omega
        · rename_i ha
          have := (wf_rule h hrm (by rw [ha]; decide)).1
          show 1 ≤ n; omega

theorem stepLineDirective_shrinks (cfg : LexCfg) (st : LexState) (tl : List Char) :
    (stepLineDirective cfg st tl).2.rest.length ≤ tl.length := by
  unfold stepLineDirective
  simp only
  split <;> simp <;> omega

theorem stepPragma_shrinks (st : LexState) (tl : List Char) :
    (stepPragma st tl).2.rest.length ≤ tl.length := by
  unfold stepPragma
  simp only
  split
  · simp
  · split
    · simp
    · split
      · simp
      · rename_i r5 heq
        have h := congrArg List.length heq
        simp only [List.length_drop, List.length_cons] at h
        simp only
        omega

/-- every iteration of the scanning loop strictly shortens the unread text -/
theorem lexStep_shrinks {cfg : LexCfg} (h : cfg.wf = true) (isType : String → Bool) (st : LexState)
    (hne : st.rest ≠ []) : (lexStep cfg isType st).2.rest.length < st.rest.length := by
  unfold lexStep
  split
  · contradiction
  · rename_i c tl heq
    have hl : st.rest.length = tl.length + 1 := by rw [heq]; simp
    split
    · simp only; omega
    · split
      · simp only; omega
      · split
        · split
          · have := stepLineDirective_shrinks cfg st tl; omega
          · split
            · have := stepPragma_shrinks st tl; omega
            · simp only; omega
        · have hp := matchToken_pos h isType st hne
          simp only [List.length_drop]
          omega

theorem matchToken_no_stuck (cfg : LexCfg) (isType : String → Bool) (st : LexState) :
    Ev.stuck ∉ (matchToken cfg isType st).1 := by
  unfold matchToken
  split
  · simp
  · split
    · simp
    · simp
    · split <;> simp

theorem lexStep_no_stuck (cfg : LexCfg) (isType : String → Bool) (st : LexState) :
    Ev.stuck ∉ (lexStep cfg isType st).1 := by
  unfold lexStep
  split
  · simp
  · split
    · simp
    · split
      · simp
      · split
        · split
          · unfold stepLineDirective; simp only; split <;> simp
          · split
            · unfold stepPragma; simp only
              split
              · simp
              · split
                · simp
                · split <;> (split <;> simp)
            · simp
        · exact matchToken_no_stuck cfg isType st

/-- The scanner never spins: with well-formed tables the `stuck` event (the model's rendering of
the Python loop failing to advance) does not occur, for any text. -/
theorem scanLoop_no_stuck {cfg : LexCfg} (h : cfg.wf = true) (isType : String → Bool) :
    ∀ (fuel : Nat) (st : LexState), st.rest.length < fuel → Ev.stuck ∉ scanLoop cfg isType fuel st := by
  intro fuel
  induction fuel with
  | zero => intro st hlt; omega
  | succ f ih =>
    intro st hlt
    unfold scanLoop
    split
    · simp
    · rename_i hne
      have hne' : st.rest ≠ [] := by simpa using hne
      have hs := lexStep_shrinks h isType st hne'
      simp only [hs, ↓reduceIte, List.mem_append, not_or]
      exact ⟨lexStep_no_stuck cfg isType st, ih _ (by omega)⟩

theorem scan_no_stuck {cfg : LexCfg} (h : cfg.wf = true) (isType : String → Bool)
    (text : List Char) (file : String) : Ev.stuck ∉ scan cfg isType text file := by
  unfold scan
  exact scanLoop_no_stuck h isType _ _ (by simp [LexState.init])

end PycModel
