import PycModel.Proofs.FullExpr
import PycModel.Proofs.TypeModify
import PycModel.Proofs.Pointer
/-!
# Declarators are read inside-out, as C99 6.7.5 says

`D ::= name | ( D ) | * quals ... D | D [ X? ] | D ( )` with the grammar's discipline (`WFD`: suffixes
apply to a direct declarator, so `*a[3]` is `*(a[3])` and a pointer needs parentheses to take a
suffix).  `parse_declarator`: `_parse_declarator_kind` returns, for declarators of any size and
nesting, the chain of `PtrDecl` / `ArrayDecl` / `FuncDecl` nodes that lists the derivations from the
declared name outwards (`D.chain`, the recursion of `Spec.denote`), around the `TypeDecl` that
carries the name - each suffix or pointer spliced in by `_type_modify_decl` at the tail.
-/
namespace PycModel.DeclSkel
open PycModel PycModel.View PycModel.OperandId PycModel.FullExpr PycModel.TypeModify

variable {env : Env}

/-- optional array bound -/
def ont : Option X → Nat | none => 0 | some e => e.ntoks
def oflat : Option X → List Tk | none => [] | some e => e.flat
def oval (n : Nat) : Option X → Val | none => .none | some e => e.val n
def ofuel : Option X → Nat | none => 0 | some e => e.fuel

inductive D where
  | name (x : String)
  | paren (d : D)
  | ptr (stars : List (List Tk)) (d : D)   -- each star with its qualifier tokens
  | arr (d : D) (dim : Option X)
  | fn0 (d : D)

namespace D

def ntoks : D → Nat
  | name _ => 1
  | paren d => d.ntoks + 2
  | ptr stars d => starsNtoks stars + d.ntoks
  | arr d dim => d.ntoks + 1 + ont dim + 1
  | fn0 d => d.ntoks + 2

def flat : D → List Tk
  | name x => [("ID", x)]
  | paren d => ("LPAREN", "(") :: (d.flat ++ [("RPAREN", ")")])
  | ptr stars d => starsFlat stars ++ d.flat
  | arr d dim => d.flat ++ ("LBRACKET", "[") :: (oflat dim ++ [("RBRACKET", "]")])
  | fn0 d => d.flat ++ [("LPAREN", "("), ("RPAREN", ")")]

/-- the `TypeDecl` that carries the declared name -/
def td (n : Nat) : D → Val
  | name x => mk .TypeDecl (tc n) [.str x, .none, .none, .none]
  | paren d => d.td (n + 1)
  | ptr stars d => d.td (n + starsNtoks stars)
  | arr d _ => d.td n
  | fn0 d => d.td n

/-- the derivations from the declared name outwards (`Spec.denote`), as AST modifiers; a suffix
takes the coordinate of the declarator it is applied to -/
def chain (n : Nat) : D → List M
  | name _ => []
  | paren d => d.chain (n + 1)
  | ptr stars d => d.chain (n + starsNtoks stars) ++ ((starPairs n stars).map pairM).reverse
  | arr d dim => d.chain n ++
      [.arr (X.coordOfVal (chainVal (d.chain n) (d.td n))) (oval (n + d.ntoks + 1) dim) []]
  | fn0 d => d.chain n ++ [.fn (X.coordOfVal (chainVal (d.chain n) (d.td n))) .none]

/-- the AST of the declarator whose first token is at stream position `n` -/
def val (n : Nat) (d : D) : Val := chainVal (d.chain n) (d.td n)

def isDirect : D → Bool
  | ptr .. => false
  | _ => true

/-- number of suffixes at the root -/
def sfx : D → Nat
  | arr d _ => d.sfx + 1
  | fn0 d => d.sfx + 1
  | _ => 0

def fuel : D → Nat
  | name _ => 6
  | paren d => d.fuel + 6
  | ptr stars d => starsNtoks stars + d.fuel + 6
  | arr d dim => d.fuel + ofuel dim + 6
  | fn0 d => d.fuel + 4

end D

inductive WFD : D → Prop
  | name (x) : WFD (.name x)
  | paren (d) : WFD d → WFD (.paren d)
  | ptr (stars d) : stars ≠ [] → (∀ q ∈ stars, ∀ t ∈ q, t.1 ∈ typeQualifier) → WFD d → d.isDirect = true →
      WFD (.ptr stars d)
  | arr (d dim) : WFD d → d.isDirect = true → (∀ e, dim = some e → WFX 1 e) → WFD (.arr d dim)
  | fn0 (d) : WFD d → d.isDirect = true → WFD (.fn0 d)

theorem oflat_length (o : Option X) : (oflat o).length = ont o := by
  cases o <;> simp [oflat, ont, FullExpr.flat_length]

theorem flat_length (d : D) : d.flat.length = d.ntoks := by
  induction d <;> simp_all [D.flat, D.ntoks, starsFlat_length, oflat_length] <;> omega

theorem td_isTypeDecl (d : D) : ∀ n, (d.td n).isCls .TypeDecl = true := by
  induction d with
  | name x => intro n; rfl
  | paren d ih => intro n; exact ih _
  | ptr stars d ih => intro n; exact ih _
  | arr d dim ih => intro n; exact ih _
  | fn0 d ih => intro n; exact ih _

theorem td_isNode (d : D) (n : Nat) : (d.td n).isNode = true := by
  have := td_isTypeDecl d n
  cases h : d.td n <;> simp_all [Val.isCls, Val.cls?, Val.isNode]

theorem wrap_isNode (m : M) (t : Val) : (m.wrap t).isNode = true := by cases m <;> rfl

theorem val_isNode (d : D) (n : Nat) : (d.val n).isNode = true := by
  unfold D.val
  cases h : d.chain n with
  | nil => simpa [chainVal] using td_isNode d n
  | cons m ms => exact wrap_isNode _ _

theorem fuel_ge (d : D) : 6 ≤ d.fuel := by
  induction d <;> simp only [D.fuel] <;> omega

theorem sfx_fuel (d : D) : 2 * d.sfx + 6 ≤ d.fuel := by
  induction d <;> simp only [D.fuel, D.sfx] <;> omega


/-! ## coordinates of the chain -/

theorem coordOfVal_wrap (m : M) (t : Val) : X.coordOfVal (m.wrap t) = m.coord := by cases m <;> rfl

theorem coordOfVal_chain (ms : List M) (t : Val) :
    X.coordOfVal (chainVal ms t) = match ms with | [] => X.coordOfVal t | m :: _ => m.coord := by
  cases ms with
  | nil => rfl
  | cons m ms => exact coordOfVal_wrap m _

/-- every node of the chain has a coordinate -/
theorem chain_coords {d : D} (hwf : WFD d) : ∀ n, (∀ m ∈ d.chain n, ∃ c, m.coord = some c) ∧
    ∃ c, X.coordOfVal (d.val n) = some c := by
  induction hwf with
  | name x => intro n; exact ⟨by simp [D.chain], ⟨_, rfl⟩⟩
  | paren d _ ih => intro n; exact ih (n + 1)
  | ptr stars d hne _ _ _ ih =>
    intro n
    obtain ⟨h1, c, hc⟩ := ih (n + starsNtoks stars)
    have hall : ∀ m ∈ (D.ptr stars d).chain n, ∃ c, m.coord = some c := by
      intro m hm
      simp only [D.chain, List.mem_append, List.mem_reverse, List.mem_map] at hm
      rcases hm with hm | ⟨qc, _, rfl⟩
      · exact h1 m hm
      · exact ⟨qc.2, rfl⟩
    refine ⟨hall, ?_⟩
    have hne' : (D.ptr stars d).chain n ≠ [] := by
      simp only [D.chain, ne_eq, List.append_eq_nil_iff, List.reverse_eq_nil_iff, List.map_eq_nil_iff, not_and]
      exact fun _ => starPairs_ne_nil n stars hne
    unfold D.val
    rw [coordOfVal_chain]
    cases hch : (D.ptr stars d).chain n with
    | nil => exact absurd hch hne'
    | cons m ms => exact hall m (by rw [hch]; exact List.mem_cons_self)
  | arr d dim _ _ _ ih =>
    intro n
    obtain ⟨h1, c, hc⟩ := ih n
    have hall : ∀ m ∈ (D.arr d dim).chain n, ∃ c, m.coord = some c := by
      intro m hm
      simp only [D.chain, List.mem_append, List.mem_singleton] at hm
      rcases hm with hm | rfl
      · exact h1 m hm
      · exact ⟨c, hc⟩
    refine ⟨hall, ?_⟩
    unfold D.val
    rw [coordOfVal_chain]
    cases hch : (D.arr d dim).chain n with
    | nil => simp [D.chain] at hch
    | cons m ms => exact hall m (by rw [hch]; exact List.mem_cons_self)
  | fn0 d _ _ ih =>
    intro n
    obtain ⟨h1, c, hc⟩ := ih n
    have hall : ∀ m ∈ (D.fn0 d).chain n, ∃ c, m.coord = some c := by
      intro m hm
      simp only [D.chain, List.mem_append, List.mem_singleton] at hm
      rcases hm with hm | rfl
      · exact h1 m hm
      · exact ⟨c, hc⟩
    refine ⟨hall, ?_⟩
    unfold D.val
    rw [coordOfVal_chain]
    cases hch : (D.fn0 d).chain n with
    | nil => simp [D.chain] at hch
    | cons m ms => exact hall m (by rw [hch]; exact List.mem_cons_self)

theorem valCoord_node {v : Val} (h : v.isNode = true) (site : String) (s : PState) :
    valCoord v site s = .ok (X.coordOfVal v) s := by
  cases v <;> simp [Val.isNode] at h
  simp [valCoord, Val.coord?, attrOrCrash, X.coordOfVal]
  rfl

/-! ## suffixes -/

/-- what follows a declarator: no further suffix -/
def FollowD (rest : List Tk) : Prop := ∀ k v r, rest = (k, v) :: r → k ≠ "LBRACKET" ∧ k ≠ "LPAREN"

theorem stopA_rbracket : StopA "RBRACKET" := ⟨⟨⟨by decide, by decide⟩, by decide⟩, by decide⟩

theorem exprHeads_arr : ∀ k ∈ exprHeads, k ≠ "STATIC" ∧ inSet (some k) typeQualifier = false ∧ k ≠ "RBRACKET" ∧
    inSet (some k) startsExpressionSet = true := by decide

/-- the suffix loop stops at a token that starts no suffix -/
theorem suffix_stop (G : Nat) (s : PState) (decl : Val) (rest : List Tk) (hs : SeesT env s rest) (hf : FollowD rest) :
    ∃ s', run (G + 1) (.declSuffixesLoop decl) s = .ok decl s' ∧ SeesT env s' rest ∧ s'.idx = s.idx := by
  obtain ⟨s1, h1, hs1, hi1, _⟩ := peekType_spec s _ hs
  obtain ⟨s2, h2, hs2, hi2, _⟩ := peekType_spec s1 _ hs1
  have hne : rest.head?.map (·.1) ≠ some "LBRACKET" ∧ rest.head?.map (·.1) ≠ some "LPAREN" := by
    cases rest with
    | nil => simp
    | cons t r => obtain ⟨k, v⟩ := t; have := hf k v r rfl; simp [this.1, this.2]
  refine ⟨s2, ?_, hs2, by omega⟩
  show pDeclSuffixesLoop (run G) decl s = _
  simp [pDeclSuffixesLoop, bnd, h1, h2, hne.1, hne.2, pur]

/-- `_parse_array_decl_common` on `[ bound? ]` -/
theorem array_common (G : Nat) (s : PState) (c : Coord) (dim : Option X) (hw : ∀ e, dim = some e → WFX 1 e)
    (rest : List Tk) (hs : SeesT env s (("LBRACKET", "[") :: (oflat dim ++ ("RBRACKET", "]") :: rest)))
    (hF : ofuel dim ≤ G) :
    ∃ s', run (G + 1) (.arrayDeclCommon .none (some c)) s =
        .ok (mk .ArrayDecl (some c) [.none, oval (s.idx + 1) dim, .list []]) s' ∧
      SeesT env s' rest ∧ s'.idx = s.idx + 1 + ont dim + 1 := by
  obtain ⟨s1, h1, hs1, hi1⟩ := expect_same s "LBRACKET" "[" _ hs
  cases dim with
  | none =>
    have hs1' : SeesT env s1 (("RBRACKET", "]") :: rest) := by simpa [oflat] using hs1
    obtain ⟨s2, h2, hs2, hi2⟩ := accept_other s1 _ "STATIC" hs1' (by intro k v r h; cases h; decide)
    obtain ⟨s3, h3, hs3, hi3, _⟩ := peekType_spec s2 _ hs2
    obtain ⟨s4, h4, hs4, hi4, _⟩ := peekType_spec s3 _ hs3
    obtain ⟨s5, h5, hs5, hi5, _⟩ := peekType_spec s4 _ hs4
    obtain ⟨s6, h6, hs6, hi6⟩ := expect_same s5 "RBRACKET" "]" rest hs5
    refine ⟨s6, ?_, hs6, by simp only [ont]; omega⟩
    show pArrayDeclCommon (run G) .none (some c) s = _
    simp [pArrayDeclCommon, bnd, h1, h2, h3, inSet, typeQualifier, andM, peekIs, h4, startsExpression, h5,
      startsExpressionSet, exprStart, intConst, floatConst, charConst, stringLiteral, wstrLiteral, h6, pur, oval]
  | some e =>
    have hwe := hw e rfl
    obtain ⟨t, r, hfl, ht, _⟩ := flat_heads hwe
    obtain ⟨hns, hnq, hnr, hse⟩ := exprHeads_arr t.1 ht
    have hs1' : SeesT env s1 (t :: (r ++ ("RBRACKET", "]") :: rest)) := by simpa [oflat, hfl] using hs1
    obtain ⟨s2, h2, hs2, hi2⟩ := accept_other s1 _ "STATIC" hs1' (by intro k v r' h; cases h; exact hns)
    obtain ⟨s3, h3, hs3, hi3, _⟩ := peekType_spec s2 _ hs2
    -- the `[ * ]` test
    have htest : ∃ s4, andM (peekIs "TIMES") (peek2Is "RBRACKET") s3 = .ok false s4 ∧
        SeesT env s4 (t :: (r ++ ("RBRACKET", "]") :: rest)) ∧ s4.idx = s3.idx := by
      obtain ⟨sa, ha, hsa, hia, _⟩ := peekType_spec s3 _ hs3
      by_cases hti : t.1 = "TIMES"
      · obtain ⟨t', r', hfl', h2'⟩ := flat_times hwe
        rw [hfl] at hfl'
        simp only [List.cons.injEq] at hfl'
        obtain ⟨rfl, rfl⟩ := hfl'
        obtain ⟨t2, r2, rfl, ht2⟩ := h2' hti
        obtain ⟨sb, hb, hsb, _, hib, _⟩ := peekK_spec 1 sa _ t2 hsa rfl
        have hne2 : t2.1 ≠ "RBRACKET" := (exprHeads_arr t2.1 ht2).2.2.1
        refine ⟨sb, ?_, hsb, by omega⟩
        simp [andM, peekIs, peek2Is, peekType2, bnd, ha, hti, hb, pur, hne2]
      · refine ⟨sa, ?_, hsa, hia⟩
        simp [andM, peekIs, bnd, ha, hti, pur]
    obtain ⟨s4, h4, hs4, hi4⟩ := htest
    obtain ⟨s5, h5, hs5, hi5, _⟩ := peekType_spec s4 _ hs4
    have hs5' : SeesT env s5 (e.flat ++ ("RBRACKET", "]") :: rest) := by simpa [hfl] using hs5
    obtain ⟨s6, h6, hs6, hi6⟩ := (all_ok e).a hwe s5 ("RBRACKET", "]") rest stopA_rbracket hs5' G
      (by simp only [ofuel] at hF; omega)
    obtain ⟨s7, h7, hs7, hi7⟩ := expect_same s6 "RBRACKET" "]" rest hs6
    refine ⟨s7, ?_, hs7, by simp only [ont]; omega⟩
    have e5 : s5.idx = s.idx + 1 := by omega
    rw [e5] at h6
    show pArrayDeclCommon (run G) .none (some c) s = _
    simp [pArrayDeclCommon, bnd, h1, h2, h3, hnq, h4, startsExpression, h5, hse, h6, h7, pur, oval]

/-- one turn of the suffix loop: `[ bound? ]` -/
theorem suffix_arr (G : Nat) (s : PState) (ms : List M) (tdv : Val) (htd : tdv.isCls .TypeDecl = true) (c : Coord)
    (hc : X.coordOfVal (chainVal ms tdv) = some c) (hn : (chainVal ms tdv).isNode = true)
    (dim : Option X) (hw : ∀ e, dim = some e → WFX 1 e) (rest : List Tk)
    (hs : SeesT env s (("LBRACKET", "[") :: (oflat dim ++ ("RBRACKET", "]") :: rest))) (hF : ofuel dim + 1 ≤ G) :
    ∃ s', SeesT env s' rest ∧ s'.idx = s.idx + 1 + ont dim + 1 ∧
      run (G + 1) (.declSuffixesLoop (chainVal ms tdv)) s =
        run G (.declSuffixesLoop (chainVal (ms ++ [.arr (some c) (oval (s.idx + 1) dim) []]) tdv)) s' := by
  obtain ⟨G', rfl⟩ : ∃ G', G = G' + 1 := ⟨G - 1, by omega⟩
  obtain ⟨s1, h1, hs1, hi1, _⟩ := peekType_spec s _ hs
  have hco := valCoord_node hn "base_decl.coord" s1
  obtain ⟨s2, h2, hs2, hi2⟩ := array_common G' s1 c dim hw rest hs1 (by omega)
  have htm := typeModify_chain ms [.arr (some c) (oval (s1.idx + 1) dim) []] tdv (by simp) htd s2
  refine ⟨s2, hs2, by omega, ?_⟩
  rw [hi1] at h2 htm
  show pDeclSuffixesLoop (run (G' + 1)) (chainVal ms tdv) s = _
  simp only [pDeclSuffixesLoop, bnd, h1, List.head?_cons, Option.map_some, beq_self_eq_true, ↓reduceIte, hco, hc, h2]
  have : mk .ArrayDecl (some c) [.none, oval (s.idx + 1) dim, .list []] =
      chainVal [.arr (some c) (oval (s.idx + 1) dim) []] .none := rfl
  rw [this, htm]

/-- one turn of the suffix loop: `( )` -/
theorem suffix_fn0 (G : Nat) (s : PState) (ms : List M) (tdv : Val) (htd : tdv.isCls .TypeDecl = true)
    (hn : (chainVal ms tdv).isNode = true) (rest : List Tk)
    (hs : SeesT env s (("LPAREN", "(") :: ("RPAREN", ")") :: rest)) (hF : 1 ≤ G) :
    ∃ s', SeesT env s' rest ∧ s'.idx = s.idx + 2 ∧
      run (G + 1) (.declSuffixesLoop (chainVal ms tdv)) s =
        run G (.declSuffixesLoop (chainVal (ms ++ [.fn (X.coordOfVal (chainVal ms tdv)) .none]) tdv)) s' := by
  obtain ⟨G', rfl⟩ : ∃ G', G = G' + 1 := ⟨G - 1, by omega⟩
  obtain ⟨s1, h1, hs1, hi1, _⟩ := peekType_spec s _ hs
  obtain ⟨s2, h2, hs2, hi2, _⟩ := peekType_spec s1 _ hs1
  obtain ⟨s3, h3, hs3, hi3⟩ := expect_same s2 "LPAREN" "(" _ hs2
  obtain ⟨s4, h4, hs4, hi4, _⟩ := accept_same s3 "RPAREN" ")" rest hs3
  have hco := valCoord_node hn "base_decl.coord" s4
  obtain ⟨s5, h5, hs5, hi5, _⟩ := peekType_spec s4 _ hs4
  have htm := typeModify_chain ms [.fn (X.coordOfVal (chainVal ms tdv)) .none] tdv (by simp) htd s5
  refine ⟨s5, hs5, by omega, ?_⟩
  have hfd : run (G' + 1) (.functionDecl (chainVal ms tdv)) s2 =
      .ok (chainVal [.fn (X.coordOfVal (chainVal ms tdv)) .none] .none) s5 := by
    show pFunctionDecl (run G') (chainVal ms tdv) s2 = _
    simp only [pFunctionDecl, bnd, h3, h4, Option.isSome_some, ↓reduceIte, pur, hco, h5]
    cases rest with
    | nil => simp [Val.isNone, pur]; rfl
    | cons t r => by_cases hb : t.1 = "LBRACE" <;> simp [hb, Val.isNone, pur] <;> rfl
  show pDeclSuffixesLoop (run (G' + 1)) (chainVal ms tdv) s = _
  simp [pDeclSuffixesLoop, bnd, h1, h2, hfd, htm]


/-! ## direct declarators (continuation form) and declarators -/

def DirectCPS (env : Env) (d : D) : Prop :=
  WFD d → d.isDirect = true → ∀ (s : PState) (rest : List Tk) (F : Nat), SeesT env s (d.flat ++ rest) → d.fuel ≤ F + 1 →
    ∃ s1 G, SeesT env s1 rest ∧ s1.idx = s.idx + d.ntoks ∧ F ≤ G + 2 * d.sfx + 1 ∧
      run F (.directDeclarator .id true) s = run G (.declSuffixesLoop (d.val s.idx)) s1

def DKOK (env : Env) (d : D) : Prop :=
  WFD d → ∀ (s : PState) (rest : List Tk) (F : Nat), SeesT env s (d.flat ++ rest) → FollowD rest → d.fuel ≤ F →
    ∃ s', run F (.declaratorKind .id true) s = .ok (d.val s.idx) s' ∧ SeesT env s' rest ∧ s'.idx = s.idx + d.ntoks

/-- a direct declarator starts with the name or `(` -/
theorem direct_head {d : D} (hwf : WFD d) (hd : d.isDirect = true) :
    ∃ t r, d.flat = t :: r ∧ (t.1 = "ID" ∨ t.1 = "LPAREN") := by
  induction hwf with
  | name x => exact ⟨_, _, rfl, .inl rfl⟩
  | paren d _ _ => exact ⟨_, _, rfl, .inr rfl⟩
  | ptr => simp [D.isDirect] at hd
  | arr d dim _ hdd _ ih => obtain ⟨t, r, h, ht⟩ := ih hdd; exact ⟨t, _, by rw [D.flat, h]; rfl, ht⟩
  | fn0 d _ hdd ih => obtain ⟨t, r, h, ht⟩ := ih hdd; exact ⟨t, _, by rw [D.flat, h]; rfl, ht⟩

theorem cps_name (x : String) : DirectCPS env (.name x) := by
  intro _ _ s rest F hs hF
  obtain ⟨G, rfl⟩ : ∃ G, F = G + 1 := ⟨F - 1, by simp only [D.fuel] at hF; omega⟩
  have hs0 : SeesT env s (("ID", x) :: rest) := by simpa [D.flat] using hs
  obtain ⟨s1, h1, hs1, hi1⟩ := accept_other s _ "LPAREN" hs0 (by intro k v r h; cases h; decide)
  obtain ⟨s2, h2, hs2, hi2⟩ := expect_same s1 "ID" x rest hs1
  refine ⟨s2, G, hs2, by simp only [D.ntoks]; omega, by simp [D.sfx], ?_⟩
  show pDirectDeclarator (run G) .id true s = _
  simp [pDirectDeclarator, bnd, h1, h2, tokCoord, pur, D.val, D.chain, D.td, chainVal, tc, hi1]

theorem followD_rparen (rest : List Tk) : FollowD (("RPAREN", ")") :: rest) := by
  intro k v r h; cases h; exact ⟨by decide, by decide⟩

theorem cps_paren (d : D) (ih : DKOK env d) : DirectCPS env (.paren d) := by
  intro hwf _ s rest F hs hF
  cases hwf with
  | paren _ hw =>
    obtain ⟨G, rfl⟩ : ∃ G, F = G + 1 := ⟨F - 1, by simp only [D.fuel] at hF; omega⟩
    simp only [D.fuel] at hF
    have hs0 : SeesT env s (("LPAREN", "(") :: (d.flat ++ ("RPAREN", ")") :: rest)) := by simpa [D.flat] using hs
    obtain ⟨s1, h1, hs1, hi1, _⟩ := accept_same s "LPAREN" "(" _ hs0
    obtain ⟨s2, h2, hs2, hi2⟩ := ih hw s1 _ G hs1 (followD_rparen rest) (by omega)
    obtain ⟨s3, h3, hs3, hi3⟩ := expect_same s2 "RPAREN" ")" rest hs2
    refine ⟨s3, G, hs3, by simp only [D.ntoks]; omega, by simp [D.sfx], ?_⟩
    rw [hi1] at h2
    show pDirectDeclarator (run G) .id true s = _
    simp [pDirectDeclarator, bnd, h1, h2, h3, pur, D.val, D.chain, D.td]

theorem cps_arr (d : D) (dim : Option X) (ih : DirectCPS env d) : DirectCPS env (.arr d dim) := by
  intro hwf _ s rest F hs hF
  cases hwf with
  | arr _ _ hw hdd hwd =>
    simp only [D.fuel] at hF
    have hsf := sfx_fuel d
    have hs0 : SeesT env s (d.flat ++ ("LBRACKET", "[") :: (oflat dim ++ ("RBRACKET", "]") :: rest)) := by
      simpa [D.flat] using hs
    obtain ⟨s1, G, hs1, hi1, hG, heq⟩ := ih hw hdd s _ F hs0 (by omega)
    obtain ⟨G', rfl⟩ : ∃ G', G = G' + 1 := ⟨G - 1, by omega⟩
    obtain ⟨_, c, hc⟩ := chain_coords hw s.idx
    obtain ⟨s2, hs2, hi2, hstep⟩ := suffix_arr G' s1 (d.chain s.idx) (d.td s.idx) (td_isTypeDecl d _) c hc
      (val_isNode d _) dim hwd rest hs1 (by omega)
    refine ⟨s2, G', hs2, by simp only [D.ntoks]; omega, by simp only [D.sfx]; omega, ?_⟩
    rw [heq]
    unfold D.val at hc ⊢
    rw [hstep, hi1]
    simp only [D.chain, D.td]
    rw [hc]

theorem cps_fn0 (d : D) (ih : DirectCPS env d) : DirectCPS env (.fn0 d) := by
  intro hwf _ s rest F hs hF
  cases hwf with
  | fn0 _ hw hdd =>
    simp only [D.fuel] at hF
    have hsf := sfx_fuel d
    have hs0 : SeesT env s (d.flat ++ ("LPAREN", "(") :: ("RPAREN", ")") :: rest) := by simpa [D.flat] using hs
    obtain ⟨s1, G, hs1, hi1, hG, heq⟩ := ih hw hdd s _ F hs0 (by omega)
    obtain ⟨G', rfl⟩ : ∃ G', G = G' + 1 := ⟨G - 1, by omega⟩
    obtain ⟨s2, hs2, hi2, hstep⟩ := suffix_fn0 G' s1 (d.chain s.idx) (d.td s.idx) (td_isTypeDecl d _)
      (val_isNode d _) rest hs1 (by omega)
    refine ⟨s2, G', hs2, by simp only [D.ntoks]; omega, by simp only [D.sfx]; omega, ?_⟩
    rw [heq]
    unfold D.val
    rw [hstep]
    simp only [D.chain, D.td]

/-- a direct declarator as a declarator (no pointer in front) -/
theorem dk_direct (d : D) (hd : d.isDirect = true) (h : DirectCPS env d) : DKOK env d := by
  intro hwf s rest F hs hfo hF
  have hsf := sfx_fuel d
  obtain ⟨F', rfl⟩ : ∃ F', F = F' + 1 := ⟨F - 1, by omega⟩
  obtain ⟨t, r, hfl, ht⟩ := direct_head hwf hd
  have hs0 : SeesT env s (t :: (r ++ rest)) := by simpa [hfl] using hs
  obtain ⟨s1, h1, hs1, hi1, _⟩ := peekType_spec s _ hs0
  have hs1' : SeesT env s1 (d.flat ++ rest) := by simpa [hfl] using hs1
  obtain ⟨s2, G, hs2, hi2, hG, heq⟩ := h hwf hd s1 rest F' hs1' (by omega)
  obtain ⟨G', rfl⟩ : ∃ G', G = G' + 1 := ⟨G - 1, by omega⟩
  obtain ⟨s3, h3, hs3, hi3⟩ := suffix_stop G' s2 (d.val s1.idx) rest hs2 hfo
  refine ⟨s3, ?_, hs3, by omega⟩
  have hnt : t.1 ≠ "TIMES" := by rcases ht with h | h <;> rw [h] <;> decide
  rw [hi1] at heq h3
  show pDeclaratorKind (run F') .id true s = _
  simp [pDeclaratorKind, bnd, h1, hnt, heq, h3]

/-- `* quals ... direct-declarator` -/
theorem dk_ptr (stars : List (List Tk)) (d : D) (h : DirectCPS env d) : DKOK env (.ptr stars d) := by
  intro hwf s rest F hs hfo hF
  cases hwf with
  | ptr _ _ hne hq hw hdd =>
    simp only [D.fuel] at hF
    have hsf := sfx_fuel d
    obtain ⟨F', rfl⟩ : ∃ F', F = F' + 1 := ⟨F - 1, by omega⟩
    have hs0 : SeesT env s (starsFlat stars ++ (d.flat ++ rest)) := by simpa [D.flat, List.append_assoc] using hs
    obtain ⟨t, r, hfl, ht⟩ := direct_head hw hdd
    have hrest : ∀ k v r', d.flat ++ rest = (k, v) :: r' → k ≠ "TIMES" ∧ k ∉ typeQualifier := by
      intro k v r' hh
      rw [hfl] at hh; simp only [List.cons_append, List.cons.injEq] at hh
      rcases ht with h' | h' <;> (rw [hh.1] at h'; simp only at h'; rw [h']; exact ⟨by decide, by decide⟩)
    -- the first token is `*`
    obtain ⟨q, stars', rfl⟩ : ∃ q stars', stars = q :: stars' := by
      cases stars with
      | nil => exact absurd rfl hne
      | cons q r => exact ⟨q, r, rfl⟩
    have hs0' : SeesT env s (("TIMES", "*") :: (q ++ (starsFlat stars' ++ (d.flat ++ rest)))) := by
      simpa [starsFlat, List.append_assoc] using hs0
    obtain ⟨s1, h1, hs1, hi1, _⟩ := peekType_spec s _ hs0'
    have hs1' : SeesT env s1 (starsFlat (q :: stars') ++ (d.flat ++ rest)) := by
      simpa [starsFlat, List.append_assoc] using hs1
    obtain ⟨s2, h2, hs2, hi2⟩ := pointer_ok (q :: stars') s1 _ F' hq hrest hs1' (by omega)
    obtain ⟨s3, G, hs3, hi3, hG, heq⟩ := h hw hdd s2 rest F' hs2 (by omega)
    obtain ⟨G', rfl⟩ : ∃ G', G = G' + 1 := ⟨G - 1, by omega⟩
    obtain ⟨s4, h4, hs4, hi4⟩ := suffix_stop G' s3 (d.val s2.idx) rest hs3 hfo
    have hpne : ((starPairs s.idx (q :: stars')).map pairM).reverse ≠ [] := by
      simp [starPairs]
    have htm := typeModify_chain (d.chain s2.idx) ((starPairs s.idx (q :: stars')).map pairM).reverse (d.td s2.idx) hpne
      (td_isTypeDecl d _) s4
    refine ⟨s4, ?_, hs4, by simp only [D.ntoks]; omega⟩
    have e2 : s2.idx = s.idx + starsNtoks (q :: stars') := by omega
    rw [hi1] at h2
    have hnn : (chainVal ((starPairs s.idx (q :: stars')).map pairM).reverse Val.none).isNone = false := by
      cases hl : ((starPairs s.idx (q :: stars')).map pairM).reverse with
      | nil => exact absurd hl hpne
      | cons m ms => cases m <;> rfl
    unfold D.val at heq h4 ⊢
    rw [e2] at heq h4 htm
    show pDeclaratorKind (run F') .id true s = _
    simp [pDeclaratorKind, bnd, h1, h2, heq, h4, hnn, htm, D.chain, D.td]

theorem cps_vacuous (stars : List (List Tk)) (d : D) : DirectCPS env (.ptr stars d) := by
  intro _ hd; simp [D.isDirect] at hd

theorem all_d : ∀ d : D, DirectCPS env d ∧ DKOK env d
  | .name x => ⟨cps_name x, dk_direct _ rfl (cps_name x)⟩
  | .paren d => ⟨cps_paren d (all_d d).2, dk_direct _ rfl (cps_paren d (all_d d).2)⟩
  | .arr d dim => ⟨cps_arr d dim (all_d d).1, dk_direct _ rfl (cps_arr d dim (all_d d).1)⟩
  | .fn0 d => ⟨cps_fn0 d (all_d d).1, dk_direct _ rfl (cps_fn0 d (all_d d).1)⟩
  | .ptr stars d => ⟨cps_vacuous stars d, dk_ptr stars d (all_d d).1⟩

/-- **Declarators are read inside-out.** For every declarator `d` of `D` (any size and nesting) that
the grammar derives, from every state that sees its tokens followed by something that is no
further suffix, `_parse_declarator_kind` returns the modifier chain `d.chain` - the derivations from
the declared name outwards - around the `TypeDecl` of the name, and consumes exactly the tokens of `d`. -/
theorem parse_declarator (d : D) (hwf : WFD d) (s : PState) (rest : List Tk) (hs : SeesT env s (d.flat ++ rest))
    (hfo : FollowD rest) (F : Nat) (hF : d.fuel ≤ F) :
    ∃ s', run F (.declaratorKind .id true) s = .ok (chainVal (d.chain s.idx) (d.td s.idx)) s' ∧ SeesT env s' rest ∧
      s'.idx = s.idx + d.ntoks :=
  (all_d d).2 hwf s rest F hs hfo hF

end PycModel.DeclSkel
