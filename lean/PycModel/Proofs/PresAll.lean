import PycModel.Proofs.Pres
/-!
# Every production respects every `PrimOK` relation

The walk over the productions is done by one extensible tactic, `pres`, which peels binds,
branches and matches and closes the leaves with the primitive lemmas, previously proved helper
lemmas (registered with `macro_rules`) or the hypothesis `hs` (every call through `self`
respects `R`).
-/
namespace PycModel

variable {R : PState → PState → Prop}

/-- every call through `self` respects `R` (the induction hypothesis of the fuel recursion) -/
structure SelfOK (R : PState → PState → Prop) (self : Self) : Prop where
  all : ∀ nt : NT, Pres R (self nt)

syntax "pres_leaf" : tactic
syntax "pres_step" : tactic

macro_rules | `(tactic| pres_leaf) => `(tactic| with_reducible first
  | assumption
  | exact Pres.pure ‹PrimOK _› _
  | exact Pres.parseError _ _
  | exact Pres.crash _ _
  | exact Pres.fail _
  | exact PrimOK.peekK ‹PrimOK _› _
  | exact PrimOK.nextTok ‹PrimOK _›
  | exact PrimOK.reset ‹PrimOK _› _
  | exact PrimOK.addTypedefName ‹PrimOK _› _ _
  | exact PrimOK.addIdentifier ‹PrimOK _› _ _
  | exact Pres.readOnly ‹PrimOK _› ReadOnly.getState
  | exact Pres.readOnly ‹PrimOK _› ReadOnly.mark
  | exact Pres.readOnly ‹PrimOK _› (ReadOnly.isTypeInScope _)
  | exact Pres.readOnly ‹PrimOK _› ReadOnly.lexFileLoc
  | exact Pres.readOnly ‹PrimOK _› (ReadOnly.tokCoord _)
  | exact Pres.readOnly ‹PrimOK _› (ReadOnly.attrOrCrash _ _))

macro_rules | `(tactic| pres_step) => `(tactic| first
  | pres_leaf
  | with_reducible refine Pres.bind ‹PrimOK _› ?_ ?_
  | (intro _)
  | split
  | (dsimp only))

macro "pres" : tactic => `(tactic| repeat' pres_step)

/-- register a proved lemma `name : PrimOK R → … → Pres R (f …)` as a leaf of the walk -/
macro "register_pres " n:ident : command =>
  `(macro_rules | `(tactic| pres_leaf) => `(tactic| with_reducible first
      | exact $n ‹PrimOK _›
      | exact $n ‹PrimOK _› _
      | exact $n ‹PrimOK _› _ _
      | exact $n ‹PrimOK _› _ _ _
      | exact $n ‹PrimOK _› _ _ _ _
      | exact $n ‹PrimOK _› _ _ _ _ _
      | exact $n ‹PrimOK _› _ _ _ _ _ _))

/-- register a production lemma `name : PrimOK R → (self) → SelfOK R self → … → Pres R (p self …)` -/
macro "register_prod " n:ident : command =>
  `(macro_rules | `(tactic| pres_leaf) => `(tactic| with_reducible first
      | exact $n ‹PrimOK _› _ ‹SelfOK _ _›
      | exact $n ‹PrimOK _› _ ‹SelfOK _ _› _
      | exact $n ‹PrimOK _› _ ‹SelfOK _ _› _ _
      | exact $n ‹PrimOK _› _ ‹SelfOK _ _› _ _ _))

theorem Pres.peek (h : PrimOK R) : Pres R peek := h.peekK 1
register_pres Pres.peek

theorem Pres.hereLoc (h : PrimOK R) : Pres R hereLoc := by
  unfold PycModel.hereLoc; pres
register_pres Pres.hereLoc

theorem Pres.peekType (h : PrimOK R) : Pres R peekType := by
  unfold PycModel.peekType; pres
register_pres Pres.peekType

theorem Pres.peekType2 (h : PrimOK R) : Pres R peekType2 := by
  unfold PycModel.peekType2; pres
register_pres Pres.peekType2

theorem Pres.advance (h : PrimOK R) : Pres R advance := by
  unfold PycModel.advance; pres
register_pres Pres.advance

theorem Pres.accept (h : PrimOK R) (k : String) : Pres R (PycModel.accept k) := by
  unfold PycModel.accept; pres
register_pres Pres.accept

theorem Pres.expect (h : PrimOK R) (k : String) : Pres R (PycModel.expect k) := by
  unfold PycModel.expect; pres
register_pres Pres.expect

theorem Pres.valCoord (h : PrimOK R) (v : Val) (site : String) : Pres R (PycModel.valCoord v site) := by
  unfold PycModel.valCoord; pres
register_pres Pres.valCoord

theorem Pres.mapP (h : PrimOK R) {α β} (f : α → P β) (hf : ∀ a, Pres R (f a)) :
    ∀ l : List α, Pres R (PycModel.mapP f l) := by
  intro l
  induction l with
  | nil => unfold PycModel.mapP; pres
  | cons x xs ih => unfold PycModel.mapP; have := hf x; pres

macro_rules | `(tactic| pres_step) => `(tactic| with_reducible refine Pres.mapP ‹PrimOK _› _ ?_ _)

/-! ### NT.lean helpers -/

theorem Pres.andM (h : PrimOK R) (a b : P Bool) (ha : Pres R a) (hb : Pres R b) : Pres R (andM a b) := by
  unfold PycModel.andM; pres
theorem Pres.orM (h : PrimOK R) (a b : P Bool) (ha : Pres R a) (hb : Pres R b) : Pres R (orM a b) := by
  unfold PycModel.orM; pres
theorem Pres.peekIs (h : PrimOK R) (k : String) : Pres R (peekIs k) := by
  unfold PycModel.peekIs; pres
register_pres Pres.peekIs
theorem Pres.peek2Is (h : PrimOK R) (k : String) : Pres R (peek2Is k) := by
  unfold PycModel.peek2Is; pres
register_pres Pres.peek2Is
theorem Pres.startsDeclaration (h : PrimOK R) : Pres R startsDeclaration := by
  unfold PycModel.startsDeclaration; pres
register_pres Pres.startsDeclaration
theorem Pres.startsExpression (h : PrimOK R) : Pres R startsExpression := by
  unfold PycModel.startsExpression; pres
register_pres Pres.startsExpression
theorem Pres.startsStatement (h : PrimOK R) : Pres R startsStatement := by
  unfold PycModel.startsStatement; pres
register_pres Pres.startsStatement
theorem Pres.startsDeclarator (h : PrimOK R) (b : Bool) : Pres R (startsDeclarator b) := by
  unfold PycModel.startsDeclarator; pres
register_pres Pres.startsDeclarator
theorem Pres.startsDirectAbstractDeclarator (h : PrimOK R) : Pres R startsDirectAbstractDeclarator := by
  unfold PycModel.startsDirectAbstractDeclarator; pres
register_pres Pres.startsDirectAbstractDeclarator

macro_rules | `(tactic| pres_step) => `(tactic| with_reducible first
  | (refine Pres.andM ‹PrimOK _› _ _ ?_ ?_)
  | (refine Pres.orM ‹PrimOK _› _ _ ?_ ?_))

/-! ### Core.lean helpers -/

theorem Pres.typeModifyDecl (h : PrimOK R) (d m : Val) : Pres R (typeModifyDecl d m) := by
  unfold PycModel.typeModifyDecl; pres
register_pres Pres.typeModifyDecl

theorem Pres.fixDeclNameType (h : PrimOK R) (d : Val) (tn : List Val) : Pres R (fixDeclNameType d tn) := by
  unfold PycModel.fixDeclNameType
  pres
register_pres Pres.fixDeclNameType

theorem Pres.fixAtomicOnce (h : PrimOK R) (d : Val) : Pres R (fixAtomicOnce d) := by
  unfold PycModel.fixAtomicOnce; pres
register_pres Pres.fixAtomicOnce

theorem Pres.fixAtomicLoop (h : PrimOK R) : ∀ (fuel : Nat) (d : Val), Pres R (fixAtomicLoop fuel d) := by
  intro fuel
  induction fuel with
  | zero => intro d; unfold PycModel.fixAtomicLoop; pres
  | succ f ih => intro d; unfold PycModel.fixAtomicLoop; pres; exact ih _
register_pres Pres.fixAtomicLoop

theorem Pres.fixAtomicSpecifiers (h : PrimOK R) (d : Val) : Pres R (fixAtomicSpecifiers d) := by
  unfold PycModel.fixAtomicSpecifiers; pres
register_pres Pres.fixAtomicSpecifiers

theorem Pres.extractNestedCase (h : PrimOK R) : ∀ (fuel : Nat) (c : Val), Pres R (extractNestedCase fuel c) := by
  intro fuel
  induction fuel with
  | zero => intro c; unfold PycModel.extractNestedCase; pres
  | succ f ih => intro c; unfold PycModel.extractNestedCase; pres; exact ih _
register_pres Pres.extractNestedCase

theorem Pres.appendToLast (h : PrimOK R) (items : List Val) (c : Val) : Pres R (appendToLast items c) := by
  unfold PycModel.appendToLast; pres
register_pres Pres.appendToLast

theorem Pres.fixSwitchLoop (h : PrimOK R) : ∀ (l acc : List Val) (b : Bool), Pres R (fixSwitchLoop l acc b) := by
  intro l
  induction l with
  | nil => intro acc b; unfold PycModel.fixSwitchLoop; pres
  | cons c r ih => intro acc b; unfold PycModel.fixSwitchLoop; pres; all_goals exact ih _ _
register_pres Pres.fixSwitchLoop

theorem Pres.fixSwitchCases (h : PrimOK R) (sw : Val) : Pres R (fixSwitchCases sw) := by
  unfold PycModel.fixSwitchCases; pres
register_pres Pres.fixSwitchCases

macro_rules | `(tactic| pres_leaf) => `(tactic| with_reducible exact SelfOK.all ‹SelfOK _ _› _)

/-! ### Expr.lean -/

theorem Pres.coordOf (h : PrimOK R) (v : Val) : Pres R (coordOf v) := by
  unfold PycModel.coordOf; pres
register_pres Pres.coordOf
theorem Pres.mkID (h : PrimOK R) (t : PTok) : Pres R (mkID t) := by
  unfold PycModel.mkID; pres
register_pres Pres.mkID
theorem Pres.pConstant (h : PrimOK R) : Pres R pConstant := by
  unfold PycModel.pConstant; pres
register_pres Pres.pConstant
theorem Pres.unifiedStrLoop (h : PrimOK R) : ∀ (fuel : Nat) (v : String), Pres R (unifiedStrLoop fuel v) := by
  intro fuel
  induction fuel with
  | zero => intro v; unfold PycModel.unifiedStrLoop; pres
  | succ f ih => intro v; unfold PycModel.unifiedStrLoop; pres; exact ih _
register_pres Pres.unifiedStrLoop
theorem Pres.pUnifiedString (h : PrimOK R) : Pres R pUnifiedString := by
  unfold PycModel.pUnifiedString; pres
register_pres Pres.pUnifiedString
theorem Pres.unifiedWStrLoop (h : PrimOK R) : ∀ (fuel : Nat) (v : String), Pres R (unifiedWStrLoop fuel v) := by
  intro fuel
  induction fuel with
  | zero => intro v; unfold PycModel.unifiedWStrLoop; pres
  | succ f ih => intro v; unfold PycModel.unifiedWStrLoop; pres; exact ih _
register_pres Pres.unifiedWStrLoop
theorem Pres.pUnifiedWString (h : PrimOK R) : Pres R pUnifiedWString := by
  unfold PycModel.pUnifiedWString; pres
register_pres Pres.pUnifiedWString
theorem Pres.pIdentifier (h : PrimOK R) : Pres R pIdentifier := by
  unfold PycModel.pIdentifier; pres
register_pres Pres.pIdentifier
theorem Pres.pIdentifierOrTypeid (h : PrimOK R) : Pres R pIdentifierOrTypeid := by
  unfold PycModel.pIdentifierOrTypeid; pres
register_pres Pres.pIdentifierOrTypeid

section Productions
variable (h : PrimOK R) (self : Self) (hs : SelfOK R self)
include h hs

theorem Pres.pTryParenTypeName : Pres R (pTryParenTypeName self) := by
  unfold PycModel.pTryParenTypeName; pres
theorem Pres.pExpression : Pres R (pExpression self) := by
  unfold PycModel.pExpression; pres
theorem Pres.pExprListLoop (acc : List Val) : Pres R (pExprListLoop self acc) := by
  unfold PycModel.pExprListLoop; pres
theorem Pres.pAssignmentExpression : Pres R (pAssignmentExpression self) := by
  unfold PycModel.pAssignmentExpression; pres
theorem Pres.pConditionalExpression : Pres R (pConditionalExpression self) := by
  unfold PycModel.pConditionalExpression; pres
theorem Pres.pBinaryExpression (mp : Nat) (lhs : Option Val) : Pres R (pBinaryExpression self mp lhs) := by
  unfold PycModel.pBinaryExpression; pres
theorem Pres.pBinaryInner (p : Nat) (rhs : Val) : Pres R (pBinaryInner self p rhs) := by
  unfold PycModel.pBinaryInner; pres
theorem Pres.pCastExpression : Pres R (pCastExpression self) := by
  unfold PycModel.pCastExpression; pres
theorem Pres.pUnaryExpression : Pres R (pUnaryExpression self) := by
  unfold PycModel.pUnaryExpression; pres
theorem Pres.pPostfixExpression (ct : Option Val) : Pres R (pPostfixExpression self ct) := by
  unfold PycModel.pPostfixExpression; pres
theorem Pres.pPostfixLoop (e : Val) : Pres R (pPostfixLoop self e) := by
  unfold PycModel.pPostfixLoop; pres
theorem Pres.pArgListLoop (acc : List Val) : Pres R (pArgListLoop self acc) := by
  unfold PycModel.pArgListLoop; pres
theorem Pres.pPrimaryExpression : Pres R (pPrimaryExpression self) := by
  unfold PycModel.pPrimaryExpression; pres
theorem Pres.pOffsetofLoop (n : Val) : Pres R (pOffsetofLoop self n) := by
  unfold PycModel.pOffsetofLoop; pres
theorem Pres.pInitializer : Pres R (pInitializer self) := by
  unfold PycModel.pInitializer; pres
theorem Pres.pInitializerList : Pres R (pInitializerList self) := by
  unfold PycModel.pInitializerList; pres
theorem Pres.pInitListLoop (acc : List Val) : Pres R (pInitListLoop self acc) := by
  unfold PycModel.pInitListLoop; pres
theorem Pres.pInitializerItem : Pres R (pInitializerItem self) := by
  unfold PycModel.pInitializerItem; pres
theorem Pres.pDesignatorListLoop (acc : List Val) : Pres R (pDesignatorListLoop self acc) := by
  unfold PycModel.pDesignatorListLoop; pres

end Productions

end PycModel
