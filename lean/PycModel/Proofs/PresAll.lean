import PycModel.Proofs.Pres
/-!
# Every production respects every `PrimOK` relation

The walk over the productions is done by one tactic, `pres`, which peels binds, branches and
matches and closes the leaves with the primitive lemmas or the induction hypothesis `hs`
(every call through `self` respects `R`).
-/
namespace PycModel

variable {R : PState → PState → Prop}

theorem Pres.ite {α} {c : Prop} [Decidable c] {t e : P α} (ht : Pres R t) (he : Pres R e) :
    Pres R (if c then t else e) := by
  split <;> assumption

theorem Pres.accept (h : PrimOK R) (k : String) : Pres R (accept k) := by
  unfold accept advance peek
  intro s a s' e
  simp only [bind, Bind.bind] at e
  split at e
  · rename_i t s1 h1
    have r1 := h.peekK 1 s t s1 h1
    cases t with
    | none => simp [pure, Pure.pure] at e; cases e.2; exact r1
    | some tk =>
      simp only at e
      split at e
      · split at e
        · rename_i t2 s2 h2
          have r2 := h.nextTok s1 t2 s2 h2
          cases t2 with
          | none =>
            simp only [parseError, P.fail] at e
            split at e <;> cases e
          | some tk2 =>
            simp [pure, Pure.pure] at e
            cases e.2
            exact h.trans _ _ _ r1 r2
        · cases e
      · simp [pure, Pure.pure] at e; cases e.2; exact r1
  · cases e

end PycModel
