import PycModel.Proofs.Pres
/-!
# Every production respects every `PrimOK` relation

The walk over the productions is done by one tactic, `pres`, which peels binds, branches and
matches and closes the leaves with the primitive lemmas or the hypothesis `hs` (every call
through `self` respects `R`).
-/
namespace PycModel

variable {R : PState → PState → Prop}

theorem Pres.ite {α} {c : Prop} [Decidable c] {t e : P α} (ht : Pres R t) (he : Pres R e) :
    Pres R (if c then t else e) := by
  split <;> assumption

/-- one step of the walk -/
macro "pres_step" : tactic => `(tactic| first
  | assumption
  | exact Pres.pure ‹PrimOK _› _
  | exact Pres.parseError _ _
  | exact Pres.crash _ _
  | exact Pres.fail _
  | exact PrimOK.peekK ‹PrimOK _› _
  | exact PrimOK.nextTok ‹PrimOK _›
  | exact PrimOK.reset ‹PrimOK _› _
  | exact PrimOK.addTypedefName ‹PrimOK _› _ _
  | exact PrimOK.addIdentifier ‹PrimOK _› _ _
  | exact Pres.readOnly ‹PrimOK _› ReadOnly.getState
  | exact Pres.readOnly ‹PrimOK _› ReadOnly.mark
  | exact Pres.readOnly ‹PrimOK _› (ReadOnly.isTypeInScope _)
  | exact Pres.readOnly ‹PrimOK _› ReadOnly.lexFileLoc
  | exact Pres.readOnly ‹PrimOK _› (ReadOnly.tokCoord _)
  | exact Pres.readOnly ‹PrimOK _› (ReadOnly.attrOrCrash _ _)
  | refine Pres.bind ‹PrimOK _› ?_ ?_
  | (intro _)
  | split
  | (dsimp only))

macro "pres" : tactic => `(tactic| repeat pres_step)

theorem Pres.peek (h : PrimOK R) : Pres R peek := h.peekK 1

theorem Pres.peekType (h : PrimOK R) : Pres R peekType := by
  unfold PycModel.peekType; have := Pres.peek h; pres

theorem Pres.peekType2 (h : PrimOK R) : Pres R peekType2 := by
  unfold PycModel.peekType2; pres

theorem Pres.advance (h : PrimOK R) : Pres R advance := by
  unfold PycModel.advance; pres

theorem Pres.accept (h : PrimOK R) (k : String) : Pres R (PycModel.accept k) := by
  unfold PycModel.accept; have := Pres.peek h; have := Pres.advance h; pres

theorem Pres.expect (h : PrimOK R) (k : String) : Pres R (PycModel.expect k) := by
  unfold PycModel.expect; have := Pres.advance h; pres

end PycModel
