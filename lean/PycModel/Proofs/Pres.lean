import PycModel.Parser.Stmt
/-!
# A small program logic for the parser monad

`Pres R m` : whenever the action `m` succeeds, initial and final state are related by `R`.
For a reflexive, transitive `R` that every *primitive* respects (`PrimOK`), every production of
the parser respects it — proved once, by walking over the productions (`Proofs/PresAll.lean`).
-/
namespace PycModel

def Pres {α} (R : PState → PState → Prop) (m : P α) : Prop :=
  ∀ s a s', m s = .ok a s' → R s s'

structure PrimOK (R : PState → PState → Prop) : Prop where
  refl : ∀ s, R s s
  trans : ∀ a b c, R a b → R b c → R a c
  peekK : ∀ k, Pres R (PycModel.peekK k)
  nextTok : Pres R PycModel.nextTok
  reset : ∀ m, Pres R (PycModel.reset m)
  addTypedefName : ∀ n c, Pres R (PycModel.addTypedefName n c)
  addIdentifier : ∀ n c, Pres R (PycModel.addIdentifier n c)

variable {R : PState → PState → Prop}

theorem Pres.pure (h : PrimOK R) {α} (a : α) : Pres R (pure a : P α) := by
  intro s b s' e; cases e; exact h.refl s

theorem Pres.bind (h : PrimOK R) {α β} {m : P α} {f : α → P β}
    (hm : Pres R m) (hf : ∀ a, Pres R (f a)) : Pres R (m >>= f) := by
  intro s b s' e
  simp only [Bind.bind] at e
  split at e
  · rename_i a s1 h1
    exact h.trans _ _ _ (hm s a s1 h1) (hf a s1 b s' e)
  · cases e

theorem Pres.fail {α} (e : Err) : Pres R (P.fail e : P α) := by
  intro s a s' h; cases h

theorem Pres.parseError {α} (msg : String) (loc : Loc) : Pres R (parseError msg loc : P α) :=
  Pres.fail _

theorem Pres.crash {α} (k : Crash) (site : String) : Pres R (crash k site : P α) :=
  Pres.fail _

/-- an action that never changes the state -/
def ReadOnly {α} (m : P α) : Prop := ∀ s a s', m s = .ok a s' → s' = s

theorem Pres.readOnly (h : PrimOK R) {α} {m : P α} (hm : ReadOnly m) : Pres R m := by
  intro s a s' e; rw [hm s a s' e]; exact h.refl s

theorem ReadOnly.getState : ReadOnly getState := by intro s a s' e; cases e; rfl
theorem ReadOnly.mark : ReadOnly mark := by intro s a s' e; cases e; rfl
theorem ReadOnly.isTypeInScope (n : String) : ReadOnly (isTypeInScope n) := by intro s a s' e; cases e; rfl
theorem ReadOnly.lexFileLoc : ReadOnly lexFileLoc := by intro s a s' e; cases e; rfl
theorem ReadOnly.tokCoord (t : PTok) : ReadOnly (tokCoord t) := by intro s a s' e; cases e; rfl
theorem ReadOnly.attrOrCrash {α} (o : Option α) (site : String) : ReadOnly (attrOrCrash o site) := by
  intro s a s' e
  cases o with
  | none => cases e
  | some x => cases e; rfl

attribute [irreducible] Pres

end PycModel
