import PycModel.Proofs.ChainLemmas
/-!
# Type names: `specifier-qualifier-list pointer?` (C99 6.7.6)

`TN`: a non-empty list of type qualifiers, type keywords and (at most one, and only as first type
specifier) a typedef name of the environment, followed by any number of `*` with qualifiers - the
type names of casts and `sizeof ( type )` in everyday code: `unsigned char`, `const char * *`, `T *`.
`typeName_ok`: `_parse_type_name` returns `TN.val`: a `Typename` whose chain of `PtrDecl`s lists the
stars from the last (outermost) to the first around a nameless `TypeDecl` with the qualifiers and one
`IdentifierType` of the specifier names as spelled.  `tryParen_type`: `_try_parse_paren_type_name`
on `( type-name )`.
-/
namespace PycModel.TypeName
open PycModel PycModel.View PycModel.OperandId PycModel.FullExpr PycModel.TypeModify PycModel.DeclSkel PycModel.BuildDecl

variable {env : Env}

def quals3 : List String := ["CONST", "RESTRICT", "VOLATILE"]
def isTypeTok (t : Tk) : Bool := typeSpecSimple.contains t.1 || t.1 == "TYPEID"

/-- specifier-qualifier tokens of the fragment; a typedef name only while no type specifier has been seen -/
def SqToks : Bool → List Tk → Prop
  | _, [] => True
  | saw, t :: r => (t.1 ∈ quals3 ∨ t.1 ∈ typeSpecSimple ∨ (t.1 = "TYPEID" ∧ saw = false)) ∧ SqToks (saw || isTypeTok t) r

def addTok (n : Nat) (sp : DeclSpec) (t : Tk) : DeclSpec :=
  if typeQualifier.contains t.1 then { sp with qual := sp.qual ++ [.str t.2] }
  else { sp with type := sp.type ++ [identType (tc n) [t.2]] }

def foldSq : Nat → DeclSpec → List Tk → DeclSpec
  | _, sp, [] => sp
  | n, sp, t :: r => foldSq (n + 1) (addTok n sp t) r

def sawAfter : Bool → List Tk → Bool
  | saw, [] => saw
  | saw, t :: r => sawAfter (saw || isTypeTok t) r

def firstCoord (first : Option Coord) (n : Nat) : List Tk → Option Coord
  | [] => first
  | _ :: _ => match first with | some c => some c | none => tc n

theorem quals3_facts : ∀ k ∈ quals3, k ∈ typeQualifier ∧ k ≠ "_ALIGNAS" ∧ k ≠ "_ATOMIC" := by decide
theorem tkw_facts : ∀ k ∈ typeSpecSimple, k ∉ typeQualifier ∧ k ≠ "_ALIGNAS" ∧ k ≠ "_ATOMIC" := by decide
theorem typeid_facts : "TYPEID" ∉ typeQualifier ∧ "TYPEID" ∉ typeSpecSimple := by decide

/-- what follows the specifiers of a type name: a `*` or the closing parenthesis -/
def FollowSq (rest : List Tk) : Prop := ∃ k v r, rest = (k, v) :: r ∧ (k = "TIMES" ∨ k = "RPAREN")

/-- **`_parse_specifier_qualifier_list`** (its loop): qualifiers and type specifiers land in their
lists in source order -/
theorem sql_loop : ∀ (l : List Tk) (sp : DeclSpec) (isSome : Bool) (saw : Bool) (first : Option Coord)
    (s : PState) (rest : List Tk) (F : Nat), SqToks saw l → FollowSq rest → SeesT env s (l ++ rest) → l.length + 1 ≤ F →
    (isSome = false → sp = {}) →
    ∃ s', run F (.sqlLoop (if isSome then some sp else none) saw false first) s =
        .ok (if isSome || !l.isEmpty then some (foldSq s.idx sp l) else none, sawAfter saw l, false, firstCoord first s.idx l) s' ∧
      SeesT env s' rest ∧ s'.idx = s.idx + l.length
  | [], sp, isSome, saw, first, s, rest, F, _, hfo, hs, hF, _ => by
    obtain ⟨G, rfl⟩ : ∃ G, F = G + 1 := ⟨F - 1, by simp at hF; omega⟩
    have hs0 : SeesT env s rest := by simpa using hs
    obtain ⟨k, v, r, rfl, hk⟩ := hfo
    obtain ⟨s1, h1, hs1, _, hi1, _⟩ := peek_spec s k v r hs0
    refine ⟨s1, ?_, hs1, by simpa using hi1⟩
    show pSqlLoop (run G) _ saw false first s = _
    rcases hk with rfl | rfl <;>
      simp [pSqlLoop, DeclSkel.bnd, h1, DeclSkel.pur, foldSq, sawAfter, firstCoord, andM, typeQualifier, typeSpecSimple]
  | (k, v) :: l, sp, isSome, saw, first, s, rest, F, hl, hfo, hs, hF, hsp => by
    obtain ⟨G, rfl⟩ : ∃ G, F = G + 1 := ⟨F - 1, by simp at hF; omega⟩
    have hs0 : SeesT env s ((k, v) :: (l ++ rest)) := by simpa using hs
    obtain ⟨s1, h1, hs1, _, hi1, _⟩ := peek_spec s k v _ hs0
    obtain ⟨s2, h2, hs2, _, hi2, _⟩ := advance_spec s1 k v _ hs1
    obtain ⟨hk, hl'⟩ := hl
    obtain ⟨s3, h3, hs3, hi3⟩ := sql_loop l (addTok s.idx sp (k, v)) true (saw || isTypeTok (k, v))
      (firstCoord first s.idx ((k, v) :: l)) s2 rest G hl' hfo hs2 (by simp at hF ⊢; omega) (by intro h; cases h)
    refine ⟨s3, ?_, hs3, by simp; omega⟩
    have e2 : s2.idx = s.idx + 1 := by omega
    rw [e2] at h3
    have hfc : firstCoord (firstCoord first s.idx ((k, v) :: l)) (s.idx + 1) l = firstCoord first s.idx ((k, v) :: l) := by
      cases l <;> cases first <;> rfl
    rw [hfc] at h3
    have hfirst : ∀ st, firstOr first ⟨k, v, s.idx⟩ st = .ok (firstCoord first s.idx ((k, v) :: l)) st := by
      intro st
      cases first with
      | some c => rfl
      | none => rfl
    have hopt : (if (isSome || !((k, v) :: l).isEmpty) = true then some (foldSq s.idx sp ((k, v) :: l)) else none) =
        (if (true || !l.isEmpty) = true then some (foldSq (s.idx + 1) (addTok s.idx sp (k, v)) l) else none) := by
      simp [foldSq]
    rw [hopt]
    simp only [Bool.true_or, ↓reduceIte] at h3 ⊢
    show pSqlLoop (run G) _ saw false first s = _
    have hi1' : s1.idx = s.idx := hi1
    rw [hi1'] at h2
    rcases hk with h | h | h
    · obtain ⟨f1, na, nb⟩ := quals3_facts k h
      have hadd : addSpec (if isSome then some sp else none) (fun x => { x with qual := x.qual ++ [.str v] }) =
          some (addTok s.idx sp (k, v)) := by
        cases isSome with
        | true => simp [addSpec, addTok, f1]
        | false => rw [hsp rfl]; simp [addSpec, addTok, f1]
      have hsaw : (saw || isTypeTok (k, v)) = saw := by
        have : isTypeTok (k, v) = false := by
          revert h; simp only [isTypeTok, quals3]; intro h
          simp only [List.mem_cons, List.not_mem_nil, or_false] at h
          rcases h with rfl | rfl | rfl <;> decide
        simp [this]
      rw [hsaw] at h3
      simp [pSqlLoop, DeclSkel.bnd, h1, DeclSkel.pur, na, nb, andM, f1, hfirst, h2]
      rw [hadd]; simp only [sawAfter, hsaw]; exact h3
    · obtain ⟨f1, na, nb⟩ := tkw_facts k h
      have f4 := h
      have hadd : addSpec (if isSome then some sp else none)
          (fun x => { x with type := x.type ++ [mk .IdentifierType (some ⟨"", s.idx, some (s.idx + 1)⟩) [Val.strs [v]]] }) =
          some (addTok s.idx sp (k, v)) := by
        cases isSome with
        | true => simp [addSpec, addTok, f1, identType, tc]
        | false => rw [hsp rfl]; simp [addSpec, addTok, f1, identType, tc]
      have hsaw : (saw || isTypeTok (k, v)) = true := by simp [isTypeTok, f4]
      rw [hsaw] at h3
      simp [pSqlLoop, DeclSkel.bnd, h1, DeclSkel.pur, na, nb, andM, f1, f4, hfirst, h2, identTypeOf, tokCoord]
      rw [hadd]; simp only [sawAfter, hsaw]; exact h3
    · obtain ⟨rfl, hsawf⟩ := h
      obtain ⟨f1, f4⟩ := typeid_facts
      have hadd : addSpec (if isSome then some sp else none)
          (fun x => { x with type := x.type ++ [mk .IdentifierType (some ⟨"", s.idx, some (s.idx + 1)⟩) [Val.strs [v]]] }) =
          some (addTok s.idx sp ("TYPEID", v)) := by
        cases isSome with
        | true => simp [addSpec, addTok, f1, identType, tc]
        | false => rw [hsp rfl]; simp [addSpec, addTok, f1, identType, tc]
      have hsaw : (saw || isTypeTok ("TYPEID", v)) = true := by simp [isTypeTok]
      rw [hsaw] at h3
      subst hsawf
      simp [pSqlLoop, DeclSkel.bnd, h1, DeclSkel.pur, andM, f1, f4, hfirst, h2, identTypeOf, tokCoord]
      rw [hadd]; simp only [sawAfter, hsaw]; exact h3

/-! ## what the loop has collected -/

/-- names and coordinates of the type specifiers -/
def typeNames : Nat → List Tk → List (String × Option Coord)
  | _, [] => []
  | n, t :: r => if isTypeTok t then (t.2, tc n) :: typeNames (n + 1) r else typeNames (n + 1) r

/-- the qualifiers, as spelled, in source order -/
def tnQuals : List Tk → List Val
  | [] => []
  | t :: r => if typeQualifier.contains t.1 then .str t.2 :: tnQuals r else tnQuals r

theorem foldSq_eq : ∀ (l : List Tk) (n : Nat) (sp : DeclSpec) (saw : Bool), SqToks saw l →
    foldSq n sp l = { sp with qual := sp.qual ++ tnQuals l, type := sp.type ++ typeNodes (typeNames n l) }
  | [], n, sp, _, _ => by simp [foldSq, tnQuals, typeNames, typeNodes]
  | t :: r, n, sp, saw, h => by
    obtain ⟨hk, hr⟩ := h
    rw [foldSq, foldSq_eq r (n + 1) _ _ hr]
    rcases hk with h | h | h
    · have f1 := (quals3_facts t.1 h).1
      have f2 : isTypeTok t = false := by
        revert h; simp only [isTypeTok, quals3]; intro h
        simp only [List.mem_cons, List.not_mem_nil, or_false] at h
        rcases h with h | h | h <;> rw [h] <;> decide
      simp [addTok, f1, tnQuals, typeNames, f2]
    · have f1 := (tkw_facts t.1 h).1
      have f2 : isTypeTok t = true := by simp [isTypeTok, h]
      simp [addTok, f1, tnQuals, typeNames, f2, typeNodes]
    · have f1 : t.1 ∉ typeQualifier := by rw [h.1]; exact typeid_facts.1
      have f2 : isTypeTok t = true := by simp [isTypeTok, h.1]
      simp [addTok, f1, tnQuals, typeNames, f2, typeNodes]

theorem typeNames_ne : ∀ (l : List Tk) (n : Nat) (saw : Bool), sawAfter saw l = true → saw = false → typeNames n l ≠ []
  | [], _, saw, h, hs => by simp [sawAfter] at h; rw [hs] at h; cases h
  | t :: r, n, saw, h, hs => by
    subst hs
    simp only [sawAfter, Bool.false_or] at h
    cases ht : isTypeTok t with
    | true => simp [typeNames, ht]
    | false =>
      rw [ht] at h
      simp only [typeNames, ht, Bool.false_eq_true, ↓reduceIte]
      exact typeNames_ne r (n + 1) false h rfl

theorem sawAfter_ne_nil {l : List Tk} (h : sawAfter false l = true) : l ≠ [] := by
  intro e; rw [e] at h; cases h

/-! ## type names -/

/-- `specifier-qualifier-list {* qualifiers}` -/
structure TN where
  specs : List Tk
  stars : List (List Tk)

namespace TN
def flat (tn : TN) : List Tk := tn.specs ++ starsFlat tn.stars
def ntoks (tn : TN) : Nat := tn.specs.length + starsNtoks tn.stars
/-- the pointer derivations, outermost (the last star) first -/
def ms (n : Nat) (tn : TN) : List M := ((starPairs (n + tn.specs.length) tn.stars).map pairM).reverse
/-- the coordinate of the `Typename`: the outermost `*`, else the first type specifier -/
def coord (n : Nat) (tn : TN) (p0 : String × Option Coord) : Option Coord :=
  match tn.ms n with
  | [] => p0.2
  | m :: _ => m.coord
/-- **the AST of the type name** whose first token is at position `n` -/
def val (n : Nat) (tn : TN) : Val :=
  match typeNames n tn.specs with
  | [] => .none
  | p0 :: names =>
    PycModel.mk .Typename (tn.coord n p0) [.none, .list (tnQuals tn.specs), .none,
      chainVal (tn.ms n) (PycModel.mk .TypeDecl none [.none, .list (tnQuals tn.specs), .none,
        identType p0.2 ((p0 :: names).map (·.1))])]
end TN

structure WFTN (tn : TN) : Prop where
  sq : SqToks false tn.specs
  saw : sawAfter false tn.specs = true
  quals : ∀ q ∈ tn.stars, ∀ t ∈ q, t.1 ∈ typeQualifier

theorem TN.flat_length (tn : TN) : tn.flat.length = tn.ntoks := by
  simp [TN.flat, TN.ntoks, starsFlat_length]

theorem starsFlat_head : ∀ (stars : List (List Tk)) (v : String) (rest : List Tk),
    FollowSq (starsFlat stars ++ ("RPAREN", v) :: rest)
  | [], v, rest => ⟨_, _, _, rfl, .inr rfl⟩
  | q :: r, v, rest => ⟨"TIMES", "*", q ++ (starsFlat r ++ ("RPAREN", v) :: rest), by simp [starsFlat], .inl rfl⟩

theorem valCoord_mk (c : Cls) (co : Option Coord) (fs : List Val) (site : String) (s : PState) :
    valCoord (mk c co fs) site s = .ok co s := rfl

theorem valCoord_wrap (m : M) (t : Val) (site : String) (s : PState) : valCoord (m.wrap t) site s = .ok m.coord s := by
  cases m <;> rfl

theorem wrap_truthy (m : M) (t : Val) : (m.wrap t).truthy = true := by cases m <;> rfl
theorem wrap_isNone (m : M) (t : Val) : (m.wrap t).isNone = false := by cases m <;> rfl

/-- **`_parse_abstract_declarator_opt`** on `{* qualifiers}` followed by a token that ends the
abstract declarator (`)` of a type name or parameter list, `,` between parameters) -/
theorem abstractStars_end (stars : List (List Tk)) (hq : ∀ q ∈ stars, ∀ t ∈ q, t.1 ∈ typeQualifier)
    (s : PState) (k0 v : String) (rest : List Tk) (hk0 : k0 = "RPAREN" ∨ k0 = "COMMA")
    (hs : SeesT env s (starsFlat stars ++ (k0, v) :: rest))
    (F : Nat) (hF : starsNtoks stars + 5 ≤ F) :
    ∃ s', run F .abstractDeclaratorOpt s =
        .ok (match ((starPairs s.idx stars).map pairM).reverse with
             | [] => Val.none
             | m :: r => chainVal (m :: r) emptyTypeDecl) s' ∧
      SeesT env s' ((k0, v) :: rest) ∧ s'.idx = s.idx + starsNtoks stars := by
  obtain ⟨G, rfl⟩ : ∃ G, F = G + 1 := ⟨F - 1, by omega⟩
  have hk : k0 ≠ "TIMES" ∧ k0 ∉ typeQualifier ∧ k0 ≠ "LPAREN" ∧ k0 ≠ "LBRACKET" := by
    rcases hk0 with rfl | rfl <;> exact ⟨by decide, by decide, by decide, by decide⟩
  cases stars with
  | nil =>
    have hs0 : SeesT env s ((k0, v) :: rest) := by simpa [starsFlat] using hs
    obtain ⟨s1, h1, hs1, hi1, _⟩ := peekType_spec s _ hs0
    obtain ⟨s2, h2, hs2, hi2, _⟩ := peekType_spec s1 _ hs1
    refine ⟨s2, ?_, hs2, by simp only [starsNtoks]; omega⟩
    show pAbstractDeclaratorOpt (run G) s = _
    simp [pAbstractDeclaratorOpt, DeclSkel.bnd, h1, startsDirectAbstractDeclarator, h2, DeclSkel.pur, starPairs, hk.1, hk.2.2.1, hk.2.2.2]
  | cons q r =>
    have hs0 : SeesT env s (("TIMES", "*") :: (q ++ starsFlat r ++ (k0, v) :: rest)) := by
      simpa [starsFlat, List.append_assoc] using hs
    obtain ⟨s1, h1, hs1, hi1, _⟩ := peekType_spec s _ hs0
    have hs1' : SeesT env s1 (starsFlat (q :: r) ++ (k0, v) :: rest) := by
      simpa [starsFlat, List.append_assoc] using hs1
    obtain ⟨s2, h2, hs2, hi2⟩ := pointer_ok (q :: r) s1 _ G hq
      (by intro k v' r' h; cases h; exact ⟨hk.1, hk.2.1⟩) hs1' (by omega)
    obtain ⟨s3, h3, hs3, hi3, _⟩ := peekType_spec s2 _ hs2
    refine ⟨s3, ?_, hs3, by omega⟩
    rw [hi1] at h2
    have hne : ((starPairs s.idx (q :: r)).map pairM).reverse ≠ [] := by
      simp [starPairs]
    obtain ⟨m, ms', hms⟩ := List.exists_cons_of_ne_nil hne
    have htm := typeModify_chain [] (m :: ms') emptyTypeDecl (by simp) rfl s3
    simp only [chainVal, List.nil_append] at htm
    show pAbstractDeclaratorOpt (run G) s = _
    rw [hms] at h2 ⊢
    simp only [pAbstractDeclaratorOpt, DeclSkel.bnd, h1, beq_self_eq_true, ↓reduceIte, h2, startsDirectAbstractDeclarator,
      h3, DeclSkel.pur, List.head?_cons, Option.map_some]
    have hb1 : ((some k0 : Option String) == some "LPAREN") = false := by simpa using hk.2.2.1
    have hb2 : ((some k0 : Option String) == some "LBRACKET") = false := by simpa using hk.2.2.2
    simp only [hb1, hb2, Bool.or_self, Bool.false_eq_true, ↓reduceIte]
    simp only [chainVal, wrap_isNone, Bool.false_eq_true, ↓reduceIte] at htm ⊢
    exact htm

/-- **`_parse_abstract_declarator_opt`** on `{* qualifiers}` followed by `)` -/
theorem abstractStars_ok (stars : List (List Tk)) (hq : ∀ q ∈ stars, ∀ t ∈ q, t.1 ∈ typeQualifier)
    (s : PState) (v : String) (rest : List Tk) (hs : SeesT env s (starsFlat stars ++ ("RPAREN", v) :: rest))
    (F : Nat) (hF : starsNtoks stars + 5 ≤ F) :
    ∃ s', run F .abstractDeclaratorOpt s =
        .ok (match ((starPairs s.idx stars).map pairM).reverse with
             | [] => Val.none
             | m :: r => chainVal (m :: r) emptyTypeDecl) s' ∧
      SeesT env s' (("RPAREN", v) :: rest) ∧ s'.idx = s.idx + starsNtoks stars :=
  abstractStars_end stars hq s "RPAREN" v rest (.inl rfl) hs F hF

/-! ## `_fix_decl_name_type` on a `Typename` -/

def tnPre (co : Option Coord) (q : List Val) (ty : Val) : Val := mk .Typename co [.str "", .list q, .none, ty]
def tnPost (co : Option Coord) (q : List Val) (ty : Val) : Val := mk .Typename co [.none, .list q, .none, ty]
def tdAbs (q : Val) (ty : Val) : Val := mk .TypeDecl none [.none, q, .none, ty]

theorem tn_tlen (co : Option Coord) (a b c : Val) (ms : List M) (td : Val) :
    ms.length + 2 ≤ (mk .Typename co [a, b, c, chainVal ms td]).tlen := by
  have := chain_size ms td
  have h1 : 1 ≤ td.tlen := by cases td <;> simp [Val.tlen]
  have h2 := Val.tlen_getType (mk .Typename co [a, b, c, chainVal ms td]) (chainVal ms td) rfl
  omega

theorem mapInner_tn (f : Val → Option Val) (co : Option Coord) (a b c : Val) (ms : List M) (td : Val)
    (htd : td.isCls .TypeDecl = true) (F : Nat) (hF : ms.length < F) :
    mapInnerTypeDecl (F + 1) (mk .Typename co [a, b, c, chainVal ms td]) f =
      (f td).map fun td' => mk .Typename co [a, b, c, chainVal ms td'] := by
  have h1 : (mk .Typename co [a, b, c, chainVal ms td]).isCls .TypeDecl = false := rfl
  have h2 : (mk .Typename co [a, b, c, chainVal ms td]).getAttr "type" = some (chainVal ms td) := rfl
  simp only [mapInnerTypeDecl, h1, h2, Bool.false_eq_true, ↓reduceIte, mapInnerTypeDecl_chain f ms td F htd hF]
  cases f td with
  | none => rfl
  | some t' => rfl

/-- **`_fix_decl_name_type`** on the `Typename` of a type name: the name becomes `None`, the nameless
`TypeDecl` at the end of the pointer chain gets a copy of the qualifiers and one `IdentifierType`
with the specifier names in source order -/
theorem fixTypename_ok (co : Option Coord) (q : List Val) (ms : List M)
    (p0 : String × Option Coord) (names : List (String × Option Coord)) (s : PState) :
    fixDeclNameType (tnPre co q (chainVal ms emptyTypeDecl)) (typeNodes (p0 :: names)) s =
      .ok (tnPost co q (chainVal ms (tdAbs (.list q) (identType p0.2 ((p0 :: names).map (·.1)))))) s := by
  have hsz := tn_tlen co (.str "") (.list q) .none ms emptyTypeDecl
  have hinner : innerTypeDecl ((tnPre co q (chainVal ms emptyTypeDecl)).tlen + 1) (tnPre co q (chainVal ms emptyTypeDecl)) =
      some emptyTypeDecl := by
    have h1 : (tnPre co q (chainVal ms emptyTypeDecl)).isCls .TypeDecl = false := rfl
    have h2 : (tnPre co q (chainVal ms emptyTypeDecl)).getAttr "type" = some (chainVal ms emptyTypeDecl) := rfl
    simp only [innerTypeDecl, h1, h2, Bool.false_eq_true, ↓reduceIte, Option.bind_some]
    exact innerTypeDecl_chain ms _ _ rfl (by simp only [tnPre]; omega)
  have hdn : emptyTypeDecl.getAttr "declname" = some .none := rfl
  have hset : (tnPre co q (chainVal ms emptyTypeDecl)).setAttr "name" .none = some (tnPost co q (chainVal ms emptyTypeDecl)) := rfl
  have hq : (tnPost co q (chainVal ms emptyTypeDecl)).getAttr "quals" = some (.list q) := rfl
  have hF : ms.length < (tnPre co q (chainVal ms emptyTypeDecl)).tlen := by simp only [tnPre]; omega
  have hm1 : mapInnerTypeDecl ((tnPre co q (chainVal ms emptyTypeDecl)).tlen + 1)
      (tnPost co q (chainVal ms emptyTypeDecl)) (fun td => td.setAttr "quals" (.list q)) =
      some (tnPost co q (chainVal ms (tdAbs (.list q) .none))) := by
    rw [tnPost, mapInner_tn _ _ _ _ _ ms _ rfl _ hF]; rfl
  have hm2 : ∀ t, mapInnerTypeDecl ((tnPre co q (chainVal ms emptyTypeDecl)).tlen + 1)
      (tnPost co q (chainVal ms (tdAbs (.list q) .none))) (fun td => td.setAttr "type" t) =
      some (tnPost co q (chainVal ms (tdAbs (.list q) t))) := by
    intro t
    rw [tnPost, mapInner_tn _ _ _ _ _ ms _ rfl _ hF]; rfl
  have hhead : valCoord ((typeNodes (p0 :: names)).head!) "typename[0].coord" s = .ok p0.2 s := rfl
  have hne : (typeNodes (p0 :: names)).isEmpty = false := rfl
  simp only [fixDeclNameType, DeclSkel.bnd, hinner, attrOrCrash_some, DeclSkel.pur, hdn, hset, hq, copyList, hm1,
    typeNodes_find, hne, Bool.false_eq_true, ↓reduceIte]
  rw [mapP_typeNodes _ (fun co n s => rfl)]
  simp only [hhead, flatten_singletons, hm2, attrOrCrash_some, DeclSkel.pur]
  simp [identType, Val.strs, Function.comp_def]

/-- **`_parse_type_name`**: a type name of the fragment followed by `)` -/
theorem typeName_ok (tn : TN) (hwf : WFTN tn) (s : PState) (v : String) (rest : List Tk)
    (hs : SeesT env s (tn.flat ++ ("RPAREN", v) :: rest)) (F : Nat) (hF : tn.ntoks + 8 ≤ F) :
    ∃ s', run F .typeName s = .ok (tn.val s.idx) s' ∧ SeesT env s' (("RPAREN", v) :: rest) ∧
      s'.idx = s.idx + tn.ntoks := by
  obtain ⟨G, rfl⟩ : ∃ G, F = G + 1 := ⟨F - 1, by omega⟩
  simp only [TN.ntoks] at hF
  have hs0 : SeesT env s (tn.specs ++ (starsFlat tn.stars ++ ("RPAREN", v) :: rest)) := by
    simpa [TN.flat, List.append_assoc] using hs
  obtain ⟨s1, h1, hs1, hi1⟩ := sql_loop tn.specs {} false false none s _ G hwf.sq (starsFlat_head tn.stars v rest) hs0
    (by omega) (fun _ => rfl)
  have hne := sawAfter_ne_nil hwf.saw
  have hsome : (if (false || !tn.specs.isEmpty) = true then some (foldSq s.idx {} tn.specs) else none) =
      some (foldSq s.idx {} tn.specs) := by
    cases hsp : tn.specs with
    | nil => exact absurd hsp hne
    | cons t r => rfl
  rw [hsome, hwf.saw] at h1
  obtain ⟨s2, h2, hs2, hi2⟩ := abstractStars_ok tn.stars hwf.quals s1 v rest hs1 G (by omega)
  have hfold := foldSq_eq tn.specs s.idx {} false hwf.sq
  have htn := typeNames_ne tn.specs s.idx false hwf.saw rfl
  obtain ⟨p0, names, hp0⟩ := List.exists_cons_of_ne_nil htn
  refine ⟨s2, ?_, hs2, by simp only [TN.ntoks]; omega⟩
  have h1' : run G (.sqlLoop none false false none) s = .ok (some (foldSq s.idx {} tn.specs), true, false, firstCoord none s.idx tn.specs) s1 := h1
  rw [hi1] at h2
  have hms : ((starPairs (s.idx + tn.specs.length) tn.stars).map pairM).reverse = tn.ms s.idx := rfl
  rw [hms] at h2
  show pTypeName (run G) s = _
  simp only [pTypeName, pSpecifierQualifierList, DeclSkel.bnd, h1', Bool.not_true, Bool.false_eq_true, ↓reduceIte, DeclSkel.pur, h2]
  rw [hfold]
  simp only [List.nil_append, hp0]
  cases hm : tn.ms s.idx with
  | nil =>
    have hfix := fixTypename_ok p0.2 (tnQuals tn.specs) [] p0 names s2
    simp only [chainVal, tnPre, tnPost, tdAbs] at hfix
    simp only [Val.isNone, Bool.not_true, Bool.false_eq_true, ↓reduceIte, typeNodes, List.map_cons, valCoord_mk, identType,
      Val.truthy, DeclSkel.bnd, DeclSkel.pur]
    simp only [typeNodes, List.map_cons, identType] at hfix
    rw [hfix]
    simp [TN.val, hp0, TN.coord, hm, chainVal, identType]
  | cons m ms' =>
    have hfix := fixTypename_ok m.coord (tnQuals tn.specs) (m :: ms') p0 names s2
    simp only [tnPre, tnPost, tdAbs] at hfix
    simp only [chainVal, wrap_isNone, Bool.not_false, ↓reduceIte, valCoord_wrap, wrap_truthy, DeclSkel.bnd, DeclSkel.pur] at hfix ⊢
    rw [hfix]
    simp [TN.val, hp0, TN.coord, hm, chainVal]

/-- **`_try_parse_paren_type_name`** on `( type-name )`: the type name, the mark, the `(` token -/
theorem tryParen_type (tn : TN) (hwf : WFTN tn) (s : PState) (v1 v2 : String) (rest : List Tk)
    (hs : SeesT env s (("LPAREN", v1) :: (tn.flat ++ ("RPAREN", v2) :: rest))) (F : Nat) (hF : tn.ntoks + 9 ≤ F) :
    ∃ s', run F .tryParenTypeName s = .ok (some (tn.val (s.idx + 1), s.idx, ⟨"LPAREN", v1, s.idx⟩)) s' ∧
      SeesT env s' rest ∧ s'.idx = s.idx + tn.ntoks + 2 := by
  obtain ⟨G, rfl⟩ : ∃ G, F = G + 1 := ⟨F - 1, by omega⟩
  obtain ⟨s1, h1, hs1, hi1, _⟩ := accept_same s "LPAREN" v1 _ hs
  -- the first specifier starts a declaration
  have hne := sawAfter_ne_nil hwf.saw
  obtain ⟨t, r, hsp⟩ := List.exists_cons_of_ne_nil hne
  have hk : inSet (some t.1) declStart = true := by
    have h := hwf.sq
    rw [hsp] at h
    obtain ⟨hk, _⟩ := h
    apply DeclSkel.mem_inSet
    rcases hk with h | h | h
    · revert h; generalize t.1 = k; revert k; decide
    · revert h; generalize t.1 = k; revert k; decide
    · rw [h.1]; decide
  have hs1' : SeesT env s1 ((t.1, t.2) :: (r ++ starsFlat tn.stars ++ ("RPAREN", v2) :: rest)) := by
    simpa [TN.flat, hsp, List.append_assoc] using hs1
  obtain ⟨s2, h2, hs2, hi2, _⟩ := peekType_spec s1 _ hs1'
  have hs2' : SeesT env s2 (tn.flat ++ ("RPAREN", v2) :: rest) := by
    simpa [TN.flat, hsp, List.append_assoc] using hs2
  obtain ⟨s3, h3, hs3, hi3⟩ := typeName_ok tn hwf s2 v2 rest hs2' G (by omega)
  obtain ⟨s4, h4, hs4, hi4, _⟩ := accept_same s3 "RPAREN" v2 rest hs3
  refine ⟨s4, ?_, hs4, by omega⟩
  have e2 : s2.idx = s.idx + 1 := by omega
  rw [e2] at h3
  show pTryParenTypeName (run G) s = _
  simp [pTryParenTypeName, DeclSkel.bnd, mark, h1, startsDeclaration, h2, hk, h3, h4, DeclSkel.pur]

/-! ## no parentheses inside a type name of the fragment -/

theorem sqToks_kinds : ∀ (l : List Tk) (saw : Bool), SqToks saw l →
    ∀ t ∈ l, t.1 ∈ quals3 ∨ t.1 ∈ typeSpecSimple ∨ t.1 = "TYPEID"
  | [], _, _ => by intro t h; cases h
  | t :: r, saw, h => by
    intro t' ht'
    simp only [List.mem_cons] at ht'
    rcases ht' with rfl | ht'
    · rcases h.1 with h1 | h1 | h1
      · exact .inl h1
      · exact .inr (.inl h1)
      · exact .inr (.inr h1.1)
    · exact sqToks_kinds r _ h.2 t' ht'

theorem starsFlat_mem : ∀ (stars : List (List Tk)) (t : Tk), t ∈ starsFlat stars →
    t = ("TIMES", "*") ∨ ∃ q ∈ stars, t ∈ q
  | [], t, h => by simp [starsFlat] at h
  | q :: r, t, h => by
    simp only [starsFlat, List.mem_cons, List.mem_append] at h
    rcases h with h | h | h
    · exact .inl h
    · exact .inr ⟨q, List.mem_cons_self, h⟩
    · rcases starsFlat_mem r t h with h' | ⟨q', hq', ht⟩
      · exact .inl h'
      · exact .inr ⟨q', List.mem_cons_of_mem _ hq', ht⟩

theorem sqKinds_noParen : ∀ k, (k ∈ quals3 ∨ k ∈ typeSpecSimple ∨ k = "TYPEID") → k ≠ "LPAREN" ∧ k ≠ "RPAREN" := by
  intro k h
  rcases h with h | h | h
  · revert h; revert k; decide
  · revert h; revert k; decide
  · rw [h]; decide

theorem typeQualifier_noParen : ∀ k ∈ typeQualifier, k ≠ "LPAREN" ∧ k ≠ "RPAREN" := by decide

/-- no token of a type name of the fragment is a parenthesis -/
theorem tn_noParen {tn : TN} (h : WFTN tn) : ∀ t ∈ tn.flat, t.1 ≠ "LPAREN" ∧ t.1 ≠ "RPAREN" := by
  intro t ht
  simp only [TN.flat, List.mem_append] at ht
  rcases ht with ht | ht
  · exact sqKinds_noParen _ (sqToks_kinds _ _ h.sq t ht)
  · rcases starsFlat_mem _ t ht with rfl | ⟨q, hq, htq⟩
    · exact ⟨by decide, by decide⟩
    · exact typeQualifier_noParen _ (h.quals q hq t htq)

end PycModel.TypeName
