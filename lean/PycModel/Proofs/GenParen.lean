import PycModel.Proofs.ClimbSim
/-!
# The generator's parenthesisation rule is sufficient (binary operators)

`genP rp t` is the tree the parser sees when `CGenerator.visit_BinaryOp` has printed `t`:
an operand that the generator wraps in parentheses is a single operand (an `atom`) for the
binary-expression parser, with the value of the wrapped subtree.  Mirror of the rule
(`c_generator.py` `visit_BinaryOp`): a left operand that is a `BinaryOp` stays bare iff
`reduce_parentheses` and its level is >= the parent's; a right operand iff its level is > the
parent's; without `reduce_parentheses` every `BinaryOp` operand is wrapped.
-/
namespace PycModel.GenParen
open PycModel PycModel.Climb PycModel.ClimbSim

variable (prec : String → Option Nat)

def rootPrec : BT → Nat
  | .leaf _ => 0
  | .node k _ _ _ => (prec k).getD 0

def bareL (rp : Bool) (p : Nat) (l : BT) : Bool :=
  match l with
  | .leaf _ => true
  | .node kl _ _ _ => rp && decide ((prec kl).getD 0 ≥ p)

def bareR (rp : Bool) (p : Nat) (r : BT) : Bool :=
  match r with
  | .leaf _ => true
  | .node kr _ _ _ => rp && decide ((prec kr).getD 0 > p)

/-- the tree as re-read by the parser: wrapped operands are atoms carrying the subtree's AST -/
def genP (rp : Bool) : BT → BT
  | .leaf v => .leaf v
  | .node k v l r =>
    let p := (prec k).getD 0
    .node k v (if bareL prec rp p l then genP rp l else .leaf (toVal (genP rp l)))
              (if bareR prec rp p r then genP rp r else .leaf (toVal (genP rp r)))

/-- every operator of the tree is a binary operator of the table -/
def AllOps : BT → Prop
  | .leaf _ => True
  | .node k _ l r => (prec k).isSome = true ∧ AllOps l ∧ AllOps r

theorem WF.weaken {m m' : Nat} {t : BT} (h : WF prec m' t) (hm : m ≤ m') : WF prec m t := by
  cases h with
  | leaf => exact .leaf _ _
  | node _ p k v l r hp hle hl hr => exact .node _ p k v l r hp (Nat.le_trans hm hle) hl hr

/-- the re-read tree has the AST of the original -/
theorem toVal_genP (rp : Bool) : ∀ t : BT, toVal (genP prec rp t) = toVal t
  | .leaf _ => rfl
  | .node k v l r => by
    have hl := toVal_genP rp l
    have hr := toVal_genP rp r
    simp only [genP, toVal]
    split <;> split <;> simp [toVal, hl, hr]

/-- ... and is derivable from the grammar at the level of its root operator -/
theorem wf_genP (rp : Bool) : ∀ t : BT, AllOps prec t → WF prec (rootPrec prec t) (genP prec rp t)
  | .leaf v, _ => .leaf _ _
  | .node k v l r, h => by
    obtain ⟨hk, hl, hr⟩ := h
    obtain ⟨p, hp⟩ := Option.isSome_iff_exists.mp hk
    have ihl := wf_genP rp l hl
    have ihr := wf_genP rp r hr
    simp only [genP, rootPrec, hp, Option.getD_some]
    refine .node _ p k v _ _ hp (Nat.le_refl _) ?_ ?_
    · split
      · rename_i hb
        cases l with
        | leaf _ => exact .leaf _ _
        | node kl vl ll rl =>
          simp only [bareL, Bool.and_eq_true, decide_eq_true_eq] at hb
          exact WF.weaken prec ihl hb.2
      · exact .leaf _ _
    · split
      · rename_i hb
        cases r with
        | leaf _ => exact .leaf _ _
        | node kr vr lr rr =>
          simp only [bareR, Bool.and_eq_true, decide_eq_true_eq] at hb
          exact WF.weaken prec ihr hb.2
      · exact .leaf _ _

/-- **The parenthesisation rule is sufficient.** For every tree of binary operators - of any
shape, in particular right-nested or with looser operators below tighter ones - and both
generator configurations: the token list the generator's rule produces is parsed by the
precedence-climbing algorithm into a tree with exactly the original AST. -/
theorem generated_reparses (rp : Bool) (t : BT) (h : AllOps prec t) (k : List PT) (hk : StopAt prec 0 k) :
    ∀ f, 2 * (genP prec rp t).size ≤ f →
      ∃ t', climb prec f 0 none ((genP prec rp t).toks ++ k) = some (t', k) ∧ toVal t' = toVal t := by
  have hf0 := climb_correct prec (genP prec rp t) 0
    (WF.weaken prec (wf_genP prec rp t h) (Nat.zero_le _)) k hk
  exact fun f hf => ⟨_, hf0 f hf, toVal_genP prec rp t⟩

end PycModel.GenParen
