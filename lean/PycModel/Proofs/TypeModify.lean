import PycModel.Parser.Core
/-!
# `_type_modify_decl` appends a modifier chain at the tail of a declarator chain

A declarator under construction is a chain of modifiers (pointer / array / function nodes linked
through their `type` slot) ending in the `TypeDecl` that carries the declared name.
`typeModify_chain`: splicing a new modifier chain `ns` (whose own tail is still `None`) into a
declarator with chain `ms` gives the chain `ms ++ ns` - for chains of any length.  This is the
order-sensitive step the inside-out reading of C declarators rests on.
-/
namespace PycModel.TypeModify
open PycModel

/-- one type derivation as the parser builds it -/
inductive M where
  | ptr (quals : List Val) (co : Option Coord)
  | arr (co : Option Coord) (dim : Val) (dq : List Val)
  | fn (co : Option Coord) (args : Val)

def M.wrap : M → Val → Val
  | .ptr q co, t => mk .PtrDecl co [.list q, t]
  | .arr co dim dq, t => mk .ArrayDecl co [t, dim, .list dq]
  | .fn co args, t => mk .FuncDecl co [args, t]

def M.coord : M → Option Coord
  | .ptr _ co => co
  | .arr co _ _ => co
  | .fn co _ => co

/-- the chain `ms` (outermost modifier first) around `t` -/
def chainVal : List M → Val → Val
  | [], t => t
  | m :: ms, t => m.wrap (chainVal ms t)

theorem wrap_getType (m : M) (t : Val) : (m.wrap t).getAttr "type" = some t := by
  cases m <;> rfl

theorem wrap_setType (m : M) (t x : Val) : (m.wrap t).setAttr "type" x = some (m.wrap x) := by
  cases m <;> rfl

theorem wrap_notTypeDecl (m : M) (t : Val) : (m.wrap t).isCls .TypeDecl = false := by
  cases m <;> rfl

theorem wrap_truthy (m : M) (t : Val) : (m.wrap t).truthy = true := by
  cases m <;> rfl

theorem chainVal_append (ms ns : List M) (t : Val) : chainVal (ms ++ ns) t = chainVal ms (chainVal ns t) := by
  induction ms with
  | nil => rfl
  | cons m ms ih => simp [chainVal, ih]

theorem wrap_size (m : M) (t : Val) : t.tlen < (m.wrap t).tlen := by
  have := Val.tlen_getType (m.wrap t) t (wrap_getType m t)
  exact this

theorem chain_size (ms : List M) (t : Val) : ms.length + t.tlen ≤ (chainVal ms t).tlen := by
  induction ms with
  | nil => simp [chainVal]
  | cons m ms ih => have := wrap_size m (chainVal ms t); simp only [chainVal, List.length_cons]; omega

/-- walking a modifier chain whose tail is `None` and hooking `x` there -/
theorem setChainTail_chain : ∀ (ns : List M), ns ≠ [] → ∀ (x : Val) (fuel : Nat), ns.length ≤ fuel →
    setChainTail fuel (chainVal ns .none) x = some (chainVal ns x)
  | [], h, _, _, _ => absurd rfl h
  | [m], _, x, fuel, hf => by
    obtain ⟨f, rfl⟩ : ∃ f, fuel = f + 1 := ⟨fuel - 1, by simp at hf; omega⟩
    simp [setChainTail, chainVal, wrap_getType, Val.truthy, wrap_setType]
  | m :: m' :: ns, _, x, fuel, hf => by
    obtain ⟨f, rfl⟩ : ∃ f, fuel = f + 1 := ⟨fuel - 1, by simp at hf; omega⟩
    have ih := setChainTail_chain (m' :: ns) (by simp) x f (by simp at hf ⊢; omega)
    simp only [chainVal] at ih ⊢
    simp [setChainTail, wrap_getType, wrap_truthy, ih, wrap_setType]

/-- walking a declarator chain down to its `TypeDecl` and replacing that -/
theorem splice_chain : ∀ (ms : List M), ms ≠ [] → ∀ (td : Val), td.isCls .TypeDecl = true →
    ∀ (f : Val → Option Val) (fuel : Nat), ms.length ≤ fuel →
    spliceBeforeTypeDecl fuel (chainVal ms td) f = (f td).bind fun t' => some (chainVal ms t')
  | [], h, _, _, _, _, _ => absurd rfl h
  | [m], _, td, htd, f, fuel, hf => by
    obtain ⟨g, rfl⟩ : ∃ g, fuel = g + 1 := ⟨fuel - 1, by simp at hf; omega⟩
    simp only [spliceBeforeTypeDecl, chainVal, wrap_getType, htd, ↓reduceIte]
    cases f td <;> simp [wrap_setType]
  | m :: m' :: ms, _, td, htd, f, fuel, hf => by
    obtain ⟨g, rfl⟩ : ∃ g, fuel = g + 1 := ⟨fuel - 1, by simp at hf; omega⟩
    have ih := splice_chain (m' :: ms) (by simp) td htd f g (by simp at hf ⊢; omega)
    simp only [chainVal] at ih ⊢
    simp only [spliceBeforeTypeDecl, wrap_getType, wrap_notTypeDecl, Bool.false_eq_true, ↓reduceIte, ih]
    cases f td <;> simp [wrap_setType]

/-- **`_type_modify_decl` appends**: a declarator with modifier chain `ms` around the `TypeDecl` `td`,
modified by the chain `ns` (tail still `None`), becomes the declarator with chain `ms ++ ns` -/
theorem typeModify_chain (ms ns : List M) (td : Val) (hns : ns ≠ []) (htd : td.isCls .TypeDecl = true)
    (s : PState) :
    typeModifyDecl (chainVal ms td) (chainVal ns .none) s = .ok (chainVal (ms ++ ns) td) s := by
  have h1 := chain_size ms td
  have h2 := chain_size ns .none
  cases ms with
  | nil =>
    simp only [typeModifyDecl, chainVal, htd, ↓reduceIte, List.nil_append]
    rw [setChainTail_chain ns hns td _ (by simp only [chainVal] at h1; omega)]
    rfl
  | cons m ms =>
    have hnt : (chainVal (m :: ms) td).isCls .TypeDecl = false := wrap_notTypeDecl _ _
    simp only [typeModifyDecl, hnt, Bool.false_eq_true, ↓reduceIte]
    rw [splice_chain (m :: ms) (by simp) td htd _ _ (by omega)]
    rw [setChainTail_chain ns hns td _ (by omega)]
    simp only [Option.bind_some, chainVal_append]
    rfl

end PycModel.TypeModify
