import PycModel.Proofs.OperandId
import PycModel.Proofs.TypeModify
/-!
# Pointers: `_parse_type_qualifier_list` and `_parse_pointer`

Shared by named declarators (`Proofs/DeclSkel.lean`) and type names (`Proofs/TypeName.lean`).
-/
namespace PycModel.FullExpr
/-- the pseudo-coordinate of token number `n` (resolved by `finish`) -/
def tc (n : Nat) : Option Coord := some ⟨"", n, some (n + 1)⟩
end PycModel.FullExpr

namespace PycModel.DeclSkel
open PycModel PycModel.View PycModel.OperandId PycModel.TypeModify

variable {env : Env}

theorem bnd {α β} (m : P α) (f : α → P β) (s : PState) :
    (m >>= f) s = match m s with | .ok a s' => f a s' | .err e => .err e := rfl
theorem pur {α} (a : α) (s : PState) : (pure a : P α) s = .ok a s := rfl

def starsNtoks : List (List Tk) → Nat
  | [] => 0
  | q :: r => 1 + q.length + starsNtoks r

def starsFlat : List (List Tk) → List Tk
  | [] => []
  | q :: r => ("TIMES", "*") :: (q ++ starsFlat r)

/-- the stars as the parser collects them: qualifier spellings and the coordinate of the `*` -/
def starPairs (n : Nat) : List (List Tk) → List (List Val × Coord)
  | [] => []
  | q :: r => (q.map (fun t => Val.str t.2), ⟨"", n, some (n + 1)⟩) :: starPairs (n + 1 + q.length) r

def pairM (qc : List Val × Coord) : M := .ptr qc.1 (some qc.2)

theorem starsFlat_length : ∀ stars, (starsFlat stars).length = starsNtoks stars
  | [] => rfl
  | q :: r => by simp [starsFlat, starsNtoks, starsFlat_length r]; omega


theorem starPairs_ne_nil (n : Nat) : ∀ stars : List (List Tk), stars ≠ [] → starPairs n stars ≠ []
  | [], h => absurd rfl h
  | _ :: _, _ => by simp [starPairs]

/-! ## pointers -/

theorem not_mem_inSet {k : String} {l : List String} (h : k ∉ l) : inSet (some k) l = false := by
  simp [inSet, h]
theorem mem_inSet {k : String} {l : List String} (h : k ∈ l) : inSet (some k) l = true := by
  simp [inSet, h]

/-- `_parse_type_qualifier_list` -/
theorem quals_loop : ∀ (q : List Tk) (acc : List Val) (s : PState) (rest : List Tk) (F : Nat),
    (∀ t ∈ q, t.1 ∈ typeQualifier) → (∀ k v r, rest = (k, v) :: r → k ∉ typeQualifier) →
    SeesT env s (q ++ rest) → q.length + 1 ≤ F →
    ∃ s', run F (.typeQualifierListLoop acc) s = .ok (acc ++ q.map (fun t => Val.str t.2)) s' ∧
      SeesT env s' rest ∧ s'.idx = s.idx + q.length
  | [], acc, s, rest, F, _, hrest, hs, hF => by
    obtain ⟨G, rfl⟩ : ∃ G, F = G + 1 := ⟨F - 1, by simp at hF; omega⟩
    have hs0 : SeesT env s rest := by simpa using hs
    obtain ⟨s1, h1, hs1, hi1, _⟩ := peekType_spec s _ hs0
    have hset : inSet (rest.head?.map (·.1)) typeQualifier = false := by
      cases rest with
      | nil => rfl
      | cons t r => obtain ⟨k, v⟩ := t; exact not_mem_inSet (hrest k v r rfl)
    refine ⟨s1, ?_, hs1, by simpa using hi1⟩
    show pTypeQualifierListLoop (run G) acc s = _
    simp [pTypeQualifierListLoop, bnd, h1, hset, pur]
  | (k, v) :: q, acc, s, rest, F, hq, hrest, hs, hF => by
    obtain ⟨G, rfl⟩ : ∃ G, F = G + 1 := ⟨F - 1, by simp at hF; omega⟩
    have hs0 : SeesT env s ((k, v) :: (q ++ rest)) := by simpa using hs
    obtain ⟨s1, h1, hs1, hi1, _⟩ := peekType_spec s _ hs0
    obtain ⟨s2, h2, hs2, _, hi2, _⟩ := advance_spec s1 k v _ hs1
    have hset : inSet (some k) typeQualifier = true := mem_inSet (hq (k, v) List.mem_cons_self)
    obtain ⟨s3, h3, hs3, hi3⟩ := quals_loop q (acc ++ [.str v]) s2 rest G
      (fun t ht => hq t (List.mem_cons_of_mem _ ht)) hrest hs2 (by simp at hF ⊢; omega)
    refine ⟨s3, ?_, hs3, by simp; omega⟩
    show pTypeQualifierListLoop (run G) acc s = _
    simp [pTypeQualifierListLoop, bnd, h1, hset, h2, h3, pur]

/-- the star loop of `_parse_pointer` -/
theorem pointer_loop : ∀ (stars : List (List Tk)) (acc : List (List Val × Coord)) (s : PState) (rest : List Tk) (F : Nat),
    (∀ q ∈ stars, ∀ t ∈ q, t.1 ∈ typeQualifier) →
    (∀ k v r, rest = (k, v) :: r → k ≠ "TIMES" ∧ k ∉ typeQualifier) →
    SeesT env s (starsFlat stars ++ rest) → starsNtoks stars + 2 ≤ F →
    ∃ s', run F (.pointerLoop acc) s = .ok (acc ++ starPairs s.idx stars) s' ∧ SeesT env s' rest ∧
      s'.idx = s.idx + starsNtoks stars
  | [], acc, s, rest, F, _, hrest, hs, hF => by
    obtain ⟨G, rfl⟩ : ∃ G, F = G + 1 := ⟨F - 1, by omega⟩
    have hs0 : SeesT env s rest := by simpa [starsFlat] using hs
    obtain ⟨s1, h1, hs1, hi1⟩ := accept_other s rest "TIMES" hs0 (fun k v r h => (hrest k v r h).1)
    refine ⟨s1, ?_, hs1, by simpa [starsNtoks] using hi1⟩
    show pPointerLoop (run G) acc s = _
    simp [pPointerLoop, bnd, h1, pur, starPairs]
  | q :: r, acc, s, rest, F, hq, hrest, hs, hF => by
    obtain ⟨G, rfl⟩ : ∃ G, F = G + 1 := ⟨F - 1, by omega⟩
    simp only [starsNtoks] at hF
    have hs0 : SeesT env s (("TIMES", "*") :: (q ++ (starsFlat r ++ rest))) := by
      simpa [starsFlat, List.append_assoc] using hs
    obtain ⟨s1, h1, hs1, hi1, _⟩ := accept_same s "TIMES" "*" _ hs0
    have hnext : ∀ k v r', starsFlat r ++ rest = (k, v) :: r' → k ∉ typeQualifier := by
      intro k v r' h
      cases r with
      | nil => exact (hrest k v r' (by simpa [starsFlat] using h)).2
      | cons q' r'' =>
        simp only [starsFlat, List.cons_append, List.cons.injEq, Prod.mk.injEq] at h
        rw [← h.1.1]; decide
    obtain ⟨s2, h2, hs2, hi2⟩ := quals_loop q [] s1 _ G (hq q List.mem_cons_self) hnext hs1 (by omega)
    obtain ⟨s3, h3, hs3, hi3⟩ := pointer_loop r (acc ++ [(q.map (fun t => Val.str t.2), ⟨"", s.idx, some (s.idx + 1)⟩)]) s2 rest G
      (fun q' hq' => hq q' (List.mem_cons_of_mem _ hq')) hrest hs2 (by omega)
    refine ⟨s3, ?_, hs3, by simp only [starsNtoks]; omega⟩
    have e2 : s2.idx = s.idx + 1 + q.length := by omega
    rw [e2] at h3
    show pPointerLoop (run G) acc s = _
    simp [pPointerLoop, bnd, h1, h2, tokCoord, pur, h3, starPairs]

theorem foldl_ptr : ∀ (l : List (List Val × Coord)) (ms : List M),
    l.foldl (fun ptr (qc : List Val × Coord) => mk .PtrDecl (some qc.2) [.list qc.1, ptr]) (chainVal ms .none) =
      chainVal ((l.map pairM).reverse ++ ms) .none
  | [], ms => by simp
  | qc :: l, ms => by
    have : mk .PtrDecl (some qc.2) [.list qc.1, chainVal ms .none] = chainVal (pairM qc :: ms) .none := rfl
    simp only [List.foldl_cons, this, foldl_ptr l (pairM qc :: ms), List.map_cons, List.reverse_cons,
      List.append_assoc, List.singleton_append]

/-- `_parse_pointer` -/
theorem pointer_ok (stars : List (List Tk)) (s : PState) (rest : List Tk) (F : Nat)
    (hq : ∀ q ∈ stars, ∀ t ∈ q, t.1 ∈ typeQualifier)
    (hrest : ∀ k v r, rest = (k, v) :: r → k ≠ "TIMES" ∧ k ∉ typeQualifier)
    (hs : SeesT env s (starsFlat stars ++ rest)) (hF : starsNtoks stars + 3 ≤ F) :
    ∃ s', run F .pointer s = .ok (chainVal ((starPairs s.idx stars).map pairM).reverse .none) s' ∧ SeesT env s' rest ∧
      s'.idx = s.idx + starsNtoks stars := by
  obtain ⟨G, rfl⟩ : ∃ G, F = G + 1 := ⟨F - 1, by omega⟩
  obtain ⟨s1, h1, hs1, hi1⟩ := pointer_loop stars [] s rest G hq hrest hs (by omega)
  refine ⟨s1, ?_, hs1, hi1⟩
  have := foldl_ptr (starPairs s.idx stars) []
  simp only [chainVal, List.append_nil] at this
  show pPointer (run G) s = _
  simp [pPointer, bnd, h1, pur, this]


end PycModel.DeclSkel
