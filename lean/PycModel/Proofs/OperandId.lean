import PycModel.Proofs.ClimbConcrete
/-!
# An identifier is an operand (`OperandSpec` is satisfiable)

Symbolic execution of `castExpression → tryParenTypeName / unaryExpression → postfixExpression →
primaryExpression → identifier → postfixLoop` on a state that sees an `ID` token followed by
anything that is not a postfix operator.
-/
namespace PycModel.OperandId
open PycModel PycModel.View PycModel.ClimbConcrete

variable {env : Env}

def postfixStarters : List String := ["LPAREN", "LBRACKET", "PERIOD", "ARROW", "PLUSPLUS", "MINUSMINUS", "LBRACE"]

/-- the token after the operand does not continue it as a postfix expression -/
def FollowOp (rest : List Tk) : Prop := ∀ k v r, rest = (k, v) :: r → k ∉ postfixStarters

theorem bind_apply {α β} (m : P α) (f : α → P β) (s : PState) :
    (m >>= f) s = match m s with | .ok a s' => f a s' | .err e => .err e := rfl
theorem pure_apply {α} (a : α) (s : PState) : (pure a : P α) s = .ok a s := rfl

/-- `peekType` on any seen token list -/
theorem peekType_spec (s : PState) (toks : List Tk) (h : SeesT env s toks) :
    ∃ s', peekType s = .ok (toks.head?.map (·.1)) s' ∧ SeesT env s' toks ∧ s'.idx = s.idx ∧
      BufExt s s' ∧ s.buf.size ≤ s'.buf.size := by
  cases toks with
  | nil =>
    obtain ⟨s', hp, hs', _, hi, hb⟩ := peek_end s h
    exact ⟨s', by simp [peekType, bind_apply, hp, pure_apply], hs', hi, hb⟩
  | cons t r =>
    obtain ⟨k, v⟩ := t
    obtain ⟨s', hp, hs', _, hi, hb⟩ := peek_spec s k v r h
    exact ⟨s', by simp [peekType, bind_apply, hp, pure_apply], hs', hi, hb⟩

/-- `accept kind` when the next token (if any) is of another kind -/
theorem accept_other (s : PState) (toks : List Tk) (kind : String) (h : SeesT env s toks)
    (hk : ∀ k v r, toks = (k, v) :: r → k ≠ kind) :
    ∃ s', accept kind s = .ok none s' ∧ SeesT env s' toks ∧ s'.idx = s.idx := by
  cases toks with
  | nil =>
    obtain ⟨s', hp, hs', _, hi, _⟩ := peek_end s h
    exact ⟨s', by simp [accept, bind_apply, hp, pure_apply], hs', hi⟩
  | cons t r =>
    obtain ⟨k, v⟩ := t
    obtain ⟨s', hp, hs', _, hi, _⟩ := peek_spec s k v r h
    have := hk k v r rfl
    exact ⟨s', by simp [accept, bind_apply, hp, pure_apply, this], hs', hi⟩

/-- `accept k` when the next token is of kind `k`: consumes it (and it stays in the buffer) -/
theorem accept_same (s : PState) (k v : String) (toks : List Tk) (h : SeesT env s ((k, v) :: toks)) :
    ∃ s', accept k s = .ok (some ⟨k, v, s.idx⟩) s' ∧ SeesT env s' toks ∧ s'.idx = s.idx + 1 ∧
      s'.buf[s.idx]? = some (some ⟨k, v, s.idx⟩) := by
  obtain ⟨s1, hp, hs1, _, hi1, _, _⟩ := peek_spec s k v toks h
  obtain ⟨s2, ha, hs2, _, hi2, _, _, hb⟩ := advance_spec s1 k v toks hs1
  refine ⟨s2, ?_, hs2, by omega, by rw [← hi1]; exact hb⟩
  simp [accept, bind_apply, hp, ha, pure_apply, hi1]

/-- `expect k` when the next token is of kind `k` -/
theorem expect_same (s : PState) (k v : String) (toks : List Tk) (h : SeesT env s ((k, v) :: toks)) :
    ∃ s', expect k s = .ok ⟨k, v, s.idx⟩ s' ∧ SeesT env s' toks ∧ s'.idx = s.idx + 1 := by
  obtain ⟨s', hp, hs', _, hi, _⟩ := advance_spec s k v toks h
  exact ⟨s', by simp [expect, bind_apply, hp, pure_apply], hs', hi⟩


/-- `_try_parse_paren_type_name` when the next token is not `(` -/
theorem tryParen_none (F : Nat) (s : PState) (toks : List Tk) (h : SeesT env s toks)
    (hk : ∀ k v r, toks = (k, v) :: r → k ≠ "LPAREN") :
    ∃ s', run (F + 1) .tryParenTypeName s = .ok none s' ∧ SeesT env s' toks ∧ s'.idx = s.idx := by
  obtain ⟨s', ha, hs', hi⟩ := accept_other s toks "LPAREN" h hk
  refine ⟨s', ?_, hs', hi⟩
  show pTryParenTypeName (run F) s = _
  simp [pTryParenTypeName, bind_apply, mark, ha, pure_apply]

/-- the postfix loop stops at a token that is not a postfix operator -/
theorem postfixLoop_stop (F : Nat) (s : PState) (e : Val) (rest : List Tk) (h : SeesT env s rest) (hf : FollowOp rest) :
    ∃ s', run (F + 1) (.postfixLoop e) s = .ok e s' ∧ SeesT env s' rest ∧ s'.idx = s.idx := by
  have hne : ∀ kind ∈ postfixStarters, ∀ k v r, rest = (k, v) :: r → k ≠ kind := by
    intro kind hkind k v r hr hk
    exact hf k v r hr (hk ▸ hkind)
  obtain ⟨s1, h1, hs1, hi1⟩ := accept_other s rest "LBRACKET" h (hne _ (by decide))
  obtain ⟨s2, h2, hs2, hi2⟩ := accept_other s1 rest "LPAREN" hs1 (hne _ (by decide))
  obtain ⟨s3, h3, hs3, hi3, _⟩ := peekType_spec s2 rest hs2
  obtain ⟨s4, h4, hs4, hi4, _⟩ := peekType_spec s3 rest hs3
  have hset1 : inSet (rest.head?.map (·.1)) ["PERIOD", "ARROW"] = false := by
    cases rest with
    | nil => rfl
    | cons t r =>
      obtain ⟨k, v⟩ := t
      have a := hne "PERIOD" (by decide) k v r rfl
      have b := hne "ARROW" (by decide) k v r rfl
      simp [inSet, a, b]
  have hset2 : inSet (rest.head?.map (·.1)) ["PLUSPLUS", "MINUSMINUS"] = false := by
    cases rest with
    | nil => rfl
    | cons t r =>
      obtain ⟨k, v⟩ := t
      have a := hne "PLUSPLUS" (by decide) k v r rfl
      have b := hne "MINUSMINUS" (by decide) k v r rfl
      simp [inSet, a, b]
  refine ⟨s4, ?_, hs4, by omega⟩
  show pPostfixLoop (run F) e s = _
  simp [pPostfixLoop, bind_apply, h1, h2, h3, h4, hset1, hset2, pure_apply]

/-- a primary expression that is an identifier -/
theorem primary_id (F : Nat) (s : PState) (x : String) (rest : List Tk) (h : SeesT env s (("ID", x) :: rest)) :
    ∃ s', run (F + 1) .primaryExpression s = .ok (mk .ID (some ⟨"", s.idx, some (s.idx + 1)⟩) [.str x]) s' ∧
      SeesT env s' rest ∧ s'.idx = s.idx + 1 := by
  obtain ⟨s1, h1, hs1, hi1, _⟩ := peekType_spec s _ h
  obtain ⟨s2, h2, hs2, hi2⟩ := expect_same s1 "ID" x rest hs1
  refine ⟨s2, ?_, hs2, by omega⟩
  show pPrimaryExpression (run F) s = _
  simp [pPrimaryExpression, bind_apply, h1, pIdentifier, h2, mkID, tokCoord, pure_apply, hi1]


theorem id_not_lparen (x : String) (rest : List Tk) :
    ∀ k v r, (("ID", x) :: rest : List Tk) = (k, v) :: r → k ≠ "LPAREN" := by
  intro k v r h
  simp only [List.cons.injEq, Prod.mk.injEq] at h
  rw [← h.1.1]; decide

theorem postfix_id (F : Nat) (s : PState) (x : String) (rest : List Tk) (h : SeesT env s (("ID", x) :: rest))
    (hf : FollowOp rest) :
    ∃ s', run (F + 2) (.postfixExpression none) s = .ok (mk .ID (some ⟨"", s.idx, some (s.idx + 1)⟩) [.str x]) s' ∧
      SeesT env s' rest ∧ s'.idx = s.idx + 1 := by
  obtain ⟨s1, h1, hs1, hi1⟩ := tryParen_none F s _ h (id_not_lparen x rest)
  obtain ⟨s2, h2, hs2, hi2⟩ := primary_id F s1 x rest hs1
  obtain ⟨s3, h3, hs3, hi3⟩ := postfixLoop_stop F s2 (mk .ID (some ⟨"", s1.idx, some (s1.idx + 1)⟩) [.str x]) rest hs2 hf
  refine ⟨s3, ?_, hs3, by omega⟩
  rw [hi1] at h2 h3
  show pPostfixExpression (run (F + 1)) none s = _
  simp [pPostfixExpression, bind_apply, h1, h2, h3, pure_apply]

theorem unary_id (F : Nat) (s : PState) (x : String) (rest : List Tk) (h : SeesT env s (("ID", x) :: rest))
    (hf : FollowOp rest) :
    ∃ s', run (F + 3) .unaryExpression s = .ok (mk .ID (some ⟨"", s.idx, some (s.idx + 1)⟩) [.str x]) s' ∧
      SeesT env s' rest ∧ s'.idx = s.idx + 1 := by
  obtain ⟨s1, h1, hs1, hi1, _⟩ := peekType_spec s _ h
  obtain ⟨s2, h2, hs2, hi2⟩ := postfix_id F s1 x rest hs1 hf
  refine ⟨s2, ?_, hs2, by omega⟩
  rw [hi1] at h2
  show pUnaryExpression (run (F + 2)) s = _
  simp [pUnaryExpression, bind_apply, h1, inSet, h2]

theorem cast_id (F : Nat) (s : PState) (x : String) (rest : List Tk) (h : SeesT env s (("ID", x) :: rest))
    (hf : FollowOp rest) :
    ∃ s', run (F + 4) .castExpression s = .ok (mk .ID (some ⟨"", s.idx, some (s.idx + 1)⟩) [.str x]) s' ∧
      SeesT env s' rest ∧ s'.idx = s.idx + 1 := by
  obtain ⟨s1, h1, hs1, hi1⟩ := tryParen_none (F + 2) s _ h (id_not_lparen x rest)
  obtain ⟨s2, h2, hs2, hi2⟩ := unary_id F s1 x rest hs1 hf
  refine ⟨s2, ?_, hs2, by omega⟩
  rw [hi1] at h2
  show pCastExpression (run (F + 3)) s = _
  simp [pCastExpression, bind_apply, h1, h2]

end PycModel.OperandId
