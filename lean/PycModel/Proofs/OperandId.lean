import PycModel.Proofs.ClimbConcrete
import PycModel.Proofs.ClimbSim
/-!
# An identifier is an operand (`OperandSpec` is satisfiable)

Symbolic execution of `castExpression → tryParenTypeName / unaryExpression → postfixExpression →
primaryExpression → identifier → postfixLoop` on a state that sees an `ID` token followed by
anything that is not a postfix operator.
-/
namespace PycModel.OperandId
open PycModel PycModel.View PycModel.ClimbConcrete

def OpId (n : Nat) (a : Val) (ta : List Tk) : Prop :=
  ∃ x, ta = [("ID", x)] ∧ a = mk .ID (some ⟨"", n, some (n + 1)⟩) [.str x]

def postfixStarters : List String := ["LPAREN", "LBRACKET", "PERIOD", "ARROW", "PLUSPLUS", "MINUSMINUS"]

/-- the token after the operand does not continue it as a postfix expression -/
def FollowOp (rest : List Tk) : Prop := ∀ k v r, rest = (k, v) :: r → k ∉ postfixStarters

theorem bind_apply {α β} (m : P α) (f : α → P β) (s : PState) :
    (m >>= f) s = match m s with | .ok a s' => f a s' | .err e => .err e := rfl
theorem pure_apply {α} (a : α) (s : PState) : (pure a : P α) s = .ok a s := rfl

/-- `peekType` on any seen token list -/
theorem peekType_spec (s : PState) (toks : List Tk) (h : SeesT s toks) :
    ∃ s', peekType s = .ok (toks.head?.map (·.1)) s' ∧ SeesT s' toks ∧ s'.idx = s.idx := by
  cases toks with
  | nil =>
    obtain ⟨s', hp, hs', _, hi⟩ := peek_end s h
    exact ⟨s', by simp [peekType, bind_apply, hp, pure_apply], hs', hi⟩
  | cons t r =>
    obtain ⟨k, v⟩ := t
    obtain ⟨s', hp, hs', _, hi⟩ := peek_spec s k v r h
    exact ⟨s', by simp [peekType, bind_apply, hp, pure_apply], hs', hi⟩

/-- `accept kind` when the next token (if any) is of another kind -/
theorem accept_other (s : PState) (toks : List Tk) (kind : String) (h : SeesT s toks)
    (hk : ∀ k v r, toks = (k, v) :: r → k ≠ kind) :
    ∃ s', accept kind s = .ok none s' ∧ SeesT s' toks ∧ s'.idx = s.idx := by
  cases toks with
  | nil =>
    obtain ⟨s', hp, hs', _, hi⟩ := peek_end s h
    exact ⟨s', by simp [accept, bind_apply, hp, pure_apply], hs', hi⟩
  | cons t r =>
    obtain ⟨k, v⟩ := t
    obtain ⟨s', hp, hs', _, hi⟩ := peek_spec s k v r h
    have := hk k v r rfl
    exact ⟨s', by simp [accept, bind_apply, hp, pure_apply, this], hs', hi⟩

/-- `expect k` when the next token is of kind `k` -/
theorem expect_same (s : PState) (k v : String) (toks : List Tk) (h : SeesT s ((k, v) :: toks)) :
    ∃ s', expect k s = .ok ⟨k, v, s.idx⟩ s' ∧ SeesT s' toks ∧ s'.idx = s.idx + 1 := by
  obtain ⟨s', hp, hs', _, hi⟩ := advance_spec s k v toks h
  exact ⟨s', by simp [expect, bind_apply, hp, pure_apply], hs', hi⟩


/-- `_try_parse_paren_type_name` when the next token is not `(` -/
theorem tryParen_none (F : Nat) (s : PState) (toks : List Tk) (h : SeesT s toks)
    (hk : ∀ k v r, toks = (k, v) :: r → k ≠ "LPAREN") :
    ∃ s', run (F + 1) .tryParenTypeName s = .ok none s' ∧ SeesT s' toks ∧ s'.idx = s.idx := by
  obtain ⟨s', ha, hs', hi⟩ := accept_other s toks "LPAREN" h hk
  refine ⟨s', ?_, hs', hi⟩
  show pTryParenTypeName (run F) s = _
  simp [pTryParenTypeName, bind_apply, mark, ha, pure_apply]

/-- the postfix loop stops at a token that is not a postfix operator -/
theorem postfixLoop_stop (F : Nat) (s : PState) (e : Val) (rest : List Tk) (h : SeesT s rest) (hf : FollowOp rest) :
    ∃ s', run (F + 1) (.postfixLoop e) s = .ok e s' ∧ SeesT s' rest ∧ s'.idx = s.idx := by
  have hne : ∀ kind ∈ postfixStarters, ∀ k v r, rest = (k, v) :: r → k ≠ kind := by
    intro kind hkind k v r hr hk
    exact hf k v r hr (hk ▸ hkind)
  obtain ⟨s1, h1, hs1, hi1⟩ := accept_other s rest "LBRACKET" h (hne _ (by decide))
  obtain ⟨s2, h2, hs2, hi2⟩ := accept_other s1 rest "LPAREN" hs1 (hne _ (by decide))
  obtain ⟨s3, h3, hs3, hi3⟩ := peekType_spec s2 rest hs2
  obtain ⟨s4, h4, hs4, hi4⟩ := peekType_spec s3 rest hs3
  have hset1 : inSet (rest.head?.map (·.1)) ["PERIOD", "ARROW"] = false := by
    cases rest with
    | nil => rfl
    | cons t r =>
      obtain ⟨k, v⟩ := t
      have a := hne "PERIOD" (by decide) k v r rfl
      have b := hne "ARROW" (by decide) k v r rfl
      simp [inSet, a, b]
  have hset2 : inSet (rest.head?.map (·.1)) ["PLUSPLUS", "MINUSMINUS"] = false := by
    cases rest with
    | nil => rfl
    | cons t r =>
      obtain ⟨k, v⟩ := t
      have a := hne "PLUSPLUS" (by decide) k v r rfl
      have b := hne "MINUSMINUS" (by decide) k v r rfl
      simp [inSet, a, b]
  refine ⟨s4, ?_, hs4, by omega⟩
  show pPostfixLoop (run F) e s = _
  simp [pPostfixLoop, bind_apply, h1, h2, h3, h4, hset1, hset2, pure_apply]

/-- a primary expression that is an identifier -/
theorem primary_id (F : Nat) (s : PState) (x : String) (rest : List Tk) (h : SeesT s (("ID", x) :: rest)) :
    ∃ s', run (F + 1) .primaryExpression s = .ok (mk .ID (some ⟨"", s.idx, some (s.idx + 1)⟩) [.str x]) s' ∧
      SeesT s' rest ∧ s'.idx = s.idx + 1 := by
  obtain ⟨s1, h1, hs1, hi1⟩ := peekType_spec s _ h
  obtain ⟨s2, h2, hs2, hi2⟩ := expect_same s1 "ID" x rest hs1
  refine ⟨s2, ?_, hs2, by omega⟩
  show pPrimaryExpression (run F) s = _
  simp [pPrimaryExpression, bind_apply, h1, pIdentifier, h2, mkID, tokCoord, pure_apply, hi1]


theorem id_not_lparen (x : String) (rest : List Tk) :
    ∀ k v r, (("ID", x) :: rest : List Tk) = (k, v) :: r → k ≠ "LPAREN" := by
  intro k v r h
  simp only [List.cons.injEq, Prod.mk.injEq] at h
  rw [← h.1.1]; decide

theorem postfix_id (F : Nat) (s : PState) (x : String) (rest : List Tk) (h : SeesT s (("ID", x) :: rest))
    (hf : FollowOp rest) :
    ∃ s', run (F + 2) (.postfixExpression none) s = .ok (mk .ID (some ⟨"", s.idx, some (s.idx + 1)⟩) [.str x]) s' ∧
      SeesT s' rest ∧ s'.idx = s.idx + 1 := by
  obtain ⟨s1, h1, hs1, hi1⟩ := tryParen_none F s _ h (id_not_lparen x rest)
  obtain ⟨s2, h2, hs2, hi2⟩ := primary_id F s1 x rest hs1
  obtain ⟨s3, h3, hs3, hi3⟩ := postfixLoop_stop F s2 (mk .ID (some ⟨"", s1.idx, some (s1.idx + 1)⟩) [.str x]) rest hs2 hf
  refine ⟨s3, ?_, hs3, by omega⟩
  rw [hi1] at h2 h3
  show pPostfixExpression (run (F + 1)) none s = _
  simp [pPostfixExpression, bind_apply, h1, h2, h3, pure_apply]

theorem unary_id (F : Nat) (s : PState) (x : String) (rest : List Tk) (h : SeesT s (("ID", x) :: rest))
    (hf : FollowOp rest) :
    ∃ s', run (F + 3) .unaryExpression s = .ok (mk .ID (some ⟨"", s.idx, some (s.idx + 1)⟩) [.str x]) s' ∧
      SeesT s' rest ∧ s'.idx = s.idx + 1 := by
  obtain ⟨s1, h1, hs1, hi1⟩ := peekType_spec s _ h
  obtain ⟨s2, h2, hs2, hi2⟩ := postfix_id F s1 x rest hs1 hf
  refine ⟨s2, ?_, hs2, by omega⟩
  rw [hi1] at h2
  show pUnaryExpression (run (F + 2)) s = _
  simp [pUnaryExpression, bind_apply, h1, inSet, h2]

theorem cast_id (F : Nat) (s : PState) (x : String) (rest : List Tk) (h : SeesT s (("ID", x) :: rest))
    (hf : FollowOp rest) :
    ∃ s', run (F + 4) .castExpression s = .ok (mk .ID (some ⟨"", s.idx, some (s.idx + 1)⟩) [.str x]) s' ∧
      SeesT s' rest ∧ s'.idx = s.idx + 1 := by
  obtain ⟨s1, h1, hs1, hi1⟩ := tryParen_none (F + 2) s _ h (id_not_lparen x rest)
  obtain ⟨s2, h2, hs2, hi2⟩ := unary_id F s1 x rest hs1 hf
  refine ⟨s2, ?_, hs2, by omega⟩
  rw [hi1] at h2
  show pCastExpression (run (F + 3)) s = _
  simp [pCastExpression, bind_apply, h1, h2]

/-- **Identifiers are operands**: `OperandSpec` holds for them with fuel 4 -/
theorem operand_id : OperandSpec OpId FollowOp 4 := by
  intro fuel s a ta rest hfuel ⟨x, hta, ha⟩ hfo hs
  subst hta ha
  obtain ⟨F, rfl⟩ : ∃ F, fuel = F + 4 := ⟨fuel - 4, by omega⟩
  obtain ⟨s', hr, hs', hi⟩ := cast_id F s x rest hs hfo
  exact ⟨s', hr, hs', by simpa using hi⟩


/-! ## end to end: expressions of identifiers and binary operators -/
open PycModel.Climb PycModel.ClimbSim

/-- expression trees whose operands are identifiers -/
inductive IT where
  | leaf (x : String)
  | node (kind val : String) (l r : IT)

def IT.ntoks : IT → Nat
  | .leaf _ => 1
  | .node _ _ l r => l.ntoks + 1 + r.ntoks

def idNode (n : Nat) (x : String) : Val := mk .ID (some ⟨"", n, some (n + 1)⟩) [.str x]

/-- the tree with every identifier replaced by its `ID` node at its position in the token stream -/
def IT.toBT (n : Nat) : IT → BT
  | .leaf x => .leaf (idNode n x)
  | .node k v l r => .node k v (l.toBT n) (r.toBT (n + l.ntoks + 1))

def IT.flat : IT → List Tk
  | .leaf x => [("ID", x)]
  | .node k v l r => l.flat ++ [(k, v)] ++ r.flat

theorem binop_not_postfix (k : String) (p : Nat) (h : binPrec k = some p) : k ∉ postfixStarters := by
  intro hk
  simp only [postfixStarters, List.mem_cons, List.mem_nil_iff, or_false] at hk
  rcases hk with rfl | rfl | rfl | rfl | rfl | rfl <;> simp [binPrec, binaryPrecedence] at h

theorem nodes_toBT : ∀ (e : IT) (n : Nat), Nodes (e.toBT n)
  | .leaf _, _ => rfl
  | .node _ _ l r, n => ⟨nodes_toBT l n, nodes_toBT r _⟩

theorem denotes_tks : ∀ (n : Nat) (l : List Tk), Denotes OpId FollowOp n (l.map fun t => PT.tk t.1 t.2) l
  | n, [] => .nil n
  | n, (k, v) :: l => .tk n k v _ _ (denotes_tks (n + 1) l)

theorem denotes_tks_inv : ∀ (n : Nat) (l toks : List Tk),
    Denotes OpId FollowOp n (l.map fun t => PT.tk t.1 t.2) toks → toks = l
  | n, [], toks, h => by cases h; rfl
  | n, (k, v) :: l, toks, h => by
    cases h with
    | tk _ _ _ _ toks' h' => rw [denotes_tks_inv (n + 1) l toks' h']

theorem denotes_tree : ∀ (e : IT) (m n : Nat) (ts : List PT) (toks : List Tk),
    WF binPrec m (e.toBT n) → FollowOp toks → Denotes OpId FollowOp (n + e.ntoks) ts toks →
    Denotes OpId FollowOp n ((e.toBT n).toks ++ ts) (e.flat ++ toks)
  | .leaf x, m, n, ts, toks, _, hf, hd => by
    simp only [IT.toBT, BT.toks, IT.flat, List.cons_append, List.nil_append]
    exact .atom n _ [("ID", x)] ts toks ⟨x, rfl, rfl⟩ hf (by simpa [IT.ntoks] using hd)
  | .node k v l r, m, n, ts, toks, hwf, hf, hd => by
    cases hwf with
    | node _ p _ _ _ _ hp _ hl hr =>
      have h1 := denotes_tree r (p + 1) (n + l.ntoks + 1) ts toks hr hf
        (by simpa [IT.ntoks, Nat.add_assoc, Nat.add_comm, Nat.add_left_comm] using hd)
      have h2 : Denotes OpId FollowOp (n + l.ntoks) (PT.tk k v :: ((r.toBT (n + l.ntoks + 1)).toks ++ ts))
          ((k, v) :: (r.flat ++ toks)) := .tk _ k v _ _ h1
      have hfo : FollowOp ((k, v) :: (r.flat ++ toks)) := by
        intro k' v' r' heq
        simp only [List.cons.injEq, Prod.mk.injEq] at heq
        rw [← heq.1.1]
        exact binop_not_postfix k p hp
      have h3 := denotes_tree l p n _ _ hl hfo h2
      simpa [IT.toBT, BT.toks, IT.flat, List.append_assoc] using h3


/-- **End to end, no hypothesis about operands.** For every expression tree `e` of identifiers and
binary operators that the C grammar derives at level `m`, in every parser state that sees the
tokens of `e` followed by a token `stop` that is neither a binary nor a postfix operator (`;`, `)`,
`,`, `?`, `]`, `=` ...), the model's `_parse_binary_expression(m)` returns - for every
sufficient fuel - the `BinaryOp` / `ID` tree nested exactly like `e`, every `ID` at its own token,
every `BinaryOp` at its leftmost identifier, and stops in front of `stop`. -/
theorem identifier_expressions_parse (e : IT) (m : Nat) (s : PState)
    (hwf : WF binPrec m (e.toBT s.idx)) (stop : Tk) (hstop1 : binPrec stop.1 = none)
    (hstop2 : stop.1 ∉ postfixStarters) (rest : List Tk) (hs : SeesT s (e.flat ++ stop :: rest)) :
    ∃ F0, ∀ F, F0 ≤ F → ∃ s', run F (.binaryExpression m none) s = .ok (toVal (e.toBT s.idx)) s' ∧
      SeesT s' (stop :: rest) := by
  let k : List PT := (stop :: rest).map fun t => PT.tk t.1 t.2
  have hk : StopAt binPrec m k := by
    refine ⟨?_, ?_⟩
    · intro kk v r p heq hp
      simp only [k, List.map_cons, List.cons.injEq, PT.tk.injEq] at heq
      rw [← heq.1.1, hstop1] at hp; cases hp
    · intro a r heq; simp [k] at heq
  have hkt : ∀ x ∈ k, PTok' x := by
    intro x hx
    simp only [k, List.mem_map] at hx
    obtain ⟨t, _, rfl⟩ := hx
    trivial
  have hfo : FollowOp (stop :: rest) := by
    intro k' v' r' heq
    simp only [List.cons.injEq] at heq
    rw [heq.1] at hstop2; exact hstop2
  have hd := denotes_tree e m s.idx k (stop :: rest) hwf hfo (denotes_tks _ _)
  obtain ⟨F0, hF0⟩ := binary_expression_parses_grammar_tree (iface OpId FollowOp 4 operand_id)
    (e.toBT s.idx) m hwf (nodes_toBT e _) k hk hkt s ⟨_, hs, hd⟩
  refine ⟨F0, fun F hF => ?_⟩
  obtain ⟨s', hr, toks, hs', hd'⟩ := hF0 F hF
  have := denotes_tks_inv _ _ _ hd'
  subst this
  exact ⟨s', hr, hs'⟩


/-- the initial parser state sees the whole token list (brace-free: braces move the scope stack at lex time) -/
theorem seesT_init (toks : List Tk) (h : ∀ t ∈ toks, t.1 ≠ "LBRACE" ∧ t.1 ≠ "RBRACE") :
    SeesT (initState (toks.map (fun t => SEv.tok t.1 t.2) ++ [.eof])) toks := by
  refine ⟨⟨[], toks, false, by simp [initState], rfl, by simp, by simp, ?_, by intro _; rfl⟩, by simp [initState], ?_⟩
  · intro t ht
    exact ⟨(h t ht).1, (h t ht).2, fun _ => by simp [initState, isTypeInScopes, scopeLookup]⟩
  · intro j t hj; simp [initState] at hj

end PycModel.OperandId
