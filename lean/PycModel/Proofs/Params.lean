import PycModel.Proofs.DeclParse
/-!
# Parameter lists and function declarators with parameters

`_parse_parameter_declaration`, `_parse_parameter_type_list`, `_parse_function_decl` (with the
registration of the parameter names when a `{` follows) on prototype-style parameter lists

    name ( specifiers declarator {, specifiers declarator} )

a parameter is named - its declarator any `DeclSkel.D` (grouping parentheses included) - or unnamed
with an abstract declarator made of stars and qualifiers (`ParamU`; the parser looks ahead for a name,
finds none, resets and parses an abstract declarator; the result is a `Typename`).
-/
namespace PycModel.Params
open PycModel PycModel.View PycModel.OperandId PycModel.FullExpr PycModel.TypeModify PycModel.DeclSkel PycModel.BuildDecl
  PycModel.DeclParse

variable {env : Env}

/-- one named parameter -/
structure Param where
  specs : List Tk
  d : D

namespace Param
def flat (p : Param) : List Tk := p.specs ++ p.d.flat
def ntoks (p : Param) : Nat := p.specs.length + p.d.ntoks
def fuel (p : Param) : Nat := max (p.specs.length + 1) (p.d.fuel + p.d.ntoks + 5) + 2
def di (n : Nat) (p : Param) : DI :=
  { ms := p.d.chain (n + p.specs.length), x := dName p.d, tco := dTco (n + p.specs.length) p.d, init := .none }
/-- the `Decl` of the parameter -/
def val (n : Nat) (p : Param) : Val :=
  match typeNames n p.specs with
  | [] => .none
  | p0 :: names => declOut (foldSpec n {} p.specs) p0.2 (specNames p0 names) (p.di n)
end Param

structure WFParam (p : Param) : Prop where
  specToks : SpecToks false p.specs
  specVals : SpecVals p.specs
  sawType : sawAfter false p.specs = true
  wfd : WFD p.d

/-- what ends a parameter -/
def EndsParam (k : String) : Prop := k = "COMMA" ∨ k = "RPAREN"

theorem Param.flat_length (p : Param) : p.flat.length = p.ntoks := by
  simp [Param.flat, Param.ntoks, DeclSkel.flat_length]

theorem Param.val_isNode (p : Param) (n : Nat) (hsaw : sawAfter false p.specs = true) : (p.val n).isNode = true := by
  unfold Param.val
  cases htn : typeNames n p.specs with
  | nil => exact absurd htn (typeNames_ne_nil _ _ false hsaw rfl)
  | cons p0 names => rfl

/-- **`_parse_parameter_declaration`** -/
theorem param_ok (p : Param) (hwf : WFParam p) (s : PState) (stop : Tk) (rest : List Tk) (hstop : EndsParam stop.1)
    (hs : SeesT env s (p.flat ++ stop :: rest)) (F : Nat) (hF : p.fuel ≤ F) :
    ∃ s', run F .parameterDeclaration s = .ok (p.val s.idx) s' ∧ SeesT env s' (stop :: rest) ∧ s'.idx = s.idx + p.ntoks := by
  obtain ⟨G, rfl⟩ : ∃ G, F = G + 1 := ⟨F - 1, by simp only [Param.fuel] at hF; omega⟩
  simp only [Param.fuel] at hF
  obtain ⟨k0, v0⟩ := stop
  obtain ⟨k1, v1, r1, hd1, hkd⟩ := declarator_head hwf.wfd
  have hs0 : SeesT env s (p.specs ++ (p.d.flat ++ (k0, v0) :: rest)) := by simpa [Param.flat, List.append_assoc] using hs
  have hfo : FollowSpec (p.d.flat ++ (k0, v0) :: rest) := by
    intro k v r' h
    simp only [hd1, List.cons_append, List.cons.injEq, Prod.mk.injEq] at h
    rw [← h.1.1]
    rcases hkd with rfl | rfl | rfl <;> decide
  obtain ⟨s1, h1, hs1, hi1⟩ := specs_loop p.specs {} false false none s _ G hwf.specToks hfo hs0 (by omega) (fun _ => rfl)
  have hne := sawAfter_ne_nil hwf.sawType
  have hsome : (if (false || !p.specs.isEmpty) = true then some (foldSpec s.idx {} p.specs) else none) =
      some (foldSpec s.idx {} p.specs) := by
    cases hsp' : p.specs with
    | nil => exact absurd hsp' hne
    | cons t r => rfl
  rw [hsome, hwf.sawType] at h1
  have h1' : run G (.declSpecsLoop none false none) s = .ok (some (foldSpec s.idx {} p.specs), true, firstCoord none s.idx p.specs) s1 := h1
  have hs1' : SeesT env s1 ((k1, v1) :: (r1 ++ (k0, v0) :: rest)) := by simpa [hd1] using hs1
  obtain ⟨s2, h2, hs2, hi2, _⟩ := peekType_spec s1 _ hs1'
  have hs2' : SeesT env s2 (p.d.flat ++ (k0, v0) :: rest) := by simpa [hd1] using hs2
  obtain ⟨s3, h3, hs3, hi3⟩ := anyDeclarator_ok p.d hwf.wfd s2 _ hs2'
    (by intro k v r' h; simp only [List.cons.injEq, Prod.mk.injEq] at h
        rcases hstop with h' | h' <;> simp only at h' <;> rw [← h.1.1, h'] <;> exact ⟨by decide, by decide⟩) G (by omega) true true
  obtain ⟨p0, names, htn, hok⟩ := specOK_fold p.specs s.idx hwf.specToks hwf.specVals hwf.sawType
  refine ⟨s3, ?_, hs3, by simp only [Param.ntoks]; omega⟩
  have e2 : s2.idx = s.idx + p.specs.length := by omega
  rw [e2] at h3
  have hstart : startsDeclarator false s1 = .ok true s2 := by
    simp only [startsDeclarator, DeclSkel.bnd, h2, List.head?_cons, Option.map_some, DeclSkel.pur]
    rcases hkd with rfl | rfl | rfl <;> rfl
  have htyne : (foldSpec s.idx {} p.specs).type.isEmpty = false := by rw [hok.type_eq]; rfl
  have hinfo : ({ decl := chainVal (p.d.chain (s.idx + p.specs.length)) (p.d.td (s.idx + p.specs.length)) } : DeclInfo) =
      (p.di s.idx).info := by simp [DI.info, DI.raw, Param.di, td_eq]
  have hbd := buildDeclarations_one_noreg (foldSpec s.idx {} p.specs) p0 names hok (p.di s.idx) s3
  show pParameterDeclaration (run G) s = _
  simp only [pParameterDeclaration, pDeclSpecs, DeclSkel.bnd, h1', requireSpec, Bool.not_true, Bool.false_and,
    Bool.false_eq_true, ↓reduceIte, DeclSkel.pur, htyne, hstart, h3, hinfo, hbd, Param.val, htn]

/-! ## unnamed parameters: specifiers and an abstract pointer declarator -/

theorem foldSpec_qual : ∀ (l : List Tk) (n : Nat) (sp : DeclSpec), (foldSpec n sp l).qual = sp.qual ++ TypeName.tnQuals l
  | [], _, sp => by simp [foldSpec, TypeName.tnQuals]
  | t :: r, n, sp => by
    simp only [foldSpec, TypeName.tnQuals]
    rw [foldSpec_qual r]
    unfold addTok
    by_cases h1 : t.1 ∈ typeQualifier
    · simp [h1]
    · by_cases h2 : t.1 ∈ storageClass
      · simp [h1, h2]
      · by_cases h3 : t.1 ∈ functionSpec
        · simp [h1, h2, h3]
        · simp [h1, h2, h3]

/-- the spellings of the type specifiers, in source order -/
def tyWords (l : List Tk) : List String := (l.filter isTypeTok).map (·.2)

theorem typeNames_words : ∀ (l : List Tk) (n : Nat), (typeNames n l).map (·.1) = tyWords l
  | [], _ => rfl
  | t :: r, n => by
    have ih := typeNames_words r (n + 1)
    simp only [tyWords] at ih
    by_cases h : isTypeTok t = true
    · simp [typeNames, tyWords, h, List.filter_cons, ih]
    · simp [typeNames, tyWords, h, List.filter_cons, ih]

/-- `_build_parameter_declaration` for an unnamed parameter: the last type specifier is not a
typedef name in scope, so the declaration stays a `Typename` -/
theorem buildParam_abs (sp : DeclSpec) (p0 : String × Option Coord) (names : List (String × Option Coord))
    (htype : sp.type = typeNodes (p0 :: names))
    (hlast : names ≠ [] → ∀ x, ((p0 :: names).map (·.1)).getLast? = some x → env.ty x = false)
    (decl : Val) (co : Option Coord) (s : PState) (toks : List Tk) (hs : SeesT env s toks) :
    buildParameterDeclaration sp decl co s =
      fixDeclNameType (TypeName.tnPre co sp.qual (if decl.truthy then decl else emptyTypeDecl)) sp.type s := by
  cases names with
  | nil =>
    simp only [buildParameterDeclaration, htype, typeNodes, List.map_cons, List.map_nil, List.length_cons, List.length_nil,
      DeclSkel.bnd, DeclSkel.pur]
    rfl
  | cons a r =>
    obtain ⟨pl, hpl⟩ : ∃ pl, (p0 :: a :: r).getLast? = some pl := by
      cases h : (p0 :: a :: r).getLast? with
      | none => simp at h
      | some pl => exact ⟨pl, rfl⟩
    have hl1 : (typeNodes (p0 :: a :: r)).getLast? = some (identType pl.2 [pl.1]) := by
      simp only [typeNodes, List.getLast?_map, hpl, Option.map_some]
    have hl2 : (typeNodes (p0 :: a :: r)).getLast! = identType pl.2 [pl.1] := List.getLast!_of_getLast? hl1
    have hx : env.ty pl.1 = false := hlast (by simp) pl.1 (by simp only [List.getLast?_map, hpl, Option.map_some])
    have hlook : isTypeInScope pl.1 s = .ok false s := by
      show Res.ok (isTypeInScopes s.scopes pl.1) s = _
      rw [hs.agrees.lookup, hx]
    have hlen : decide ((typeNodes (p0 :: a :: r)).length > 1) = true := by simp [typeNodes]
    have hcls : (identType pl.2 [pl.1]).isCls .IdentifierType = true := rfl
    have hltn : lastTypeNames sp s = .ok [.str pl.1] s := by
      simp only [lastTypeNames, htype, hl1]
      rfl
    simp only [buildParameterDeclaration, DeclSkel.bnd, DeclSkel.pur]
    rw [htype]
    have e : (if (([Val.str pl.1] : List Val).length == 1) = true then isTypeInScope (strOf ([Val.str pl.1] : List Val).head!)
        else pure false) = isTypeInScope pl.1 := rfl
    simp only [hlen, hl2, hcls, Bool.and_self, ↓reduceIte, View.bind_apply, hltn, e, hlook, Bool.false_eq_true]
    rfl

/-- an unnamed parameter `specifiers {* qualifiers}` -/
structure ParamU where
  specs : List Tk
  stars : List (List Tk)

namespace ParamU
def flat (u : ParamU) : List Tk := u.specs ++ starsFlat u.stars
def ntoks (u : ParamU) : Nat := u.specs.length + starsNtoks u.stars
def fuel (u : ParamU) : Nat := max (u.specs.length + 1) (starsNtoks u.stars + 8) + 3
def ms (n : Nat) (u : ParamU) : List M := ((starPairs (n + u.specs.length) u.stars).map pairM).reverse
/-- the `Typename` of the parameter; its coordinate is the first specifier's -/
def val (n : Nat) (u : ParamU) : Val :=
  match typeNames n u.specs with
  | [] => .none
  | p0 :: names =>
    TypeName.tnPost (tc n) (TypeName.tnQuals u.specs)
      (chainVal (u.ms n) (TypeName.tdAbs (.list (TypeName.tnQuals u.specs)) (identType p0.2 ((p0 :: names).map (·.1)))))
end ParamU

structure WFParamU (ty : String → Bool) (u : ParamU) : Prop where
  specToks : SpecToks false u.specs
  sawType : sawAfter false u.specs = true
  quals : ∀ q ∈ u.stars, ∀ t ∈ q, t.1 ∈ typeQualifier
  /-- with several type specifiers, the last one is not a typedef name in scope (else the parser
  reads it as the parameter's name) -/
  lastWord : 2 ≤ (tyWords u.specs).length → ∀ x, (tyWords u.specs).getLast? = some x → ty x = false

/-- **`_parse_parameter_declaration`** on an unnamed parameter -/
theorem paramU_ok (u : ParamU) (hwf : WFParamU env.ty u) (s : PState) (stop : Tk) (rest : List Tk) (hstop : EndsParam stop.1)
    (hs : SeesT env s (u.flat ++ stop :: rest)) (F : Nat) (hF : u.fuel ≤ F) :
    ∃ s', run F .parameterDeclaration s = .ok (u.val s.idx) s' ∧ SeesT env s' (stop :: rest) ∧ s'.idx = s.idx + u.ntoks := by
  obtain ⟨G, rfl⟩ : ∃ G, F = G + 3 := ⟨F - 3, by simp only [ParamU.fuel] at hF; omega⟩
  simp only [ParamU.fuel] at hF
  obtain ⟨k0, v0⟩ := stop
  have hk0 : k0 = "RPAREN" ∨ k0 = "COMMA" := by rcases hstop with h | h <;> simp only at h <;> simp [h]
  have hs0 : SeesT env s (u.specs ++ (starsFlat u.stars ++ (k0, v0) :: rest)) := by
    simpa [ParamU.flat, List.append_assoc] using hs
  have hfo : FollowSpec (starsFlat u.stars ++ (k0, v0) :: rest) := by
    intro k v r' h
    cases hst : u.stars with
    | nil =>
      simp only [hst, starsFlat, List.nil_append, List.cons.injEq, Prod.mk.injEq] at h
      rw [← h.1.1]; rcases hk0 with rfl | rfl <;> decide
    | cons q r =>
      simp only [hst, starsFlat, List.cons_append, List.cons.injEq, Prod.mk.injEq] at h
      rw [← h.1.1]; decide
  obtain ⟨s1, h1, hs1, hi1⟩ := specs_loop u.specs {} false false none s _ (G + 2) hwf.specToks hfo hs0 (by omega) (fun _ => rfl)
  have hne := sawAfter_ne_nil hwf.sawType
  have hsome : (if (false || !u.specs.isEmpty) = true then some (foldSpec s.idx {} u.specs) else none) =
      some (foldSpec s.idx {} u.specs) := by
    cases hsp' : u.specs with
    | nil => exact absurd hsp' hne
    | cons t r => rfl
  have hfc : firstCoord none s.idx u.specs = tc s.idx := by
    cases hsp' : u.specs with
    | nil => exact absurd hsp' hne
    | cons t r => rfl
  rw [hsome, hwf.sawType, hfc] at h1
  have h1' : run (G + 2) (.declSpecsLoop none false none) s = .ok (some (foldSpec s.idx {} u.specs), true, tc s.idx) s1 := h1
  -- the specifiers
  obtain ⟨p0, names, htn⟩ : ∃ p0 names, typeNames s.idx u.specs = p0 :: names := by
    cases h : typeNames s.idx u.specs with
    | nil => exact absurd h (typeNames_ne_nil _ _ false hwf.sawType rfl)
    | cons p0 names => exact ⟨p0, names, rfl⟩
  have htype : (foldSpec s.idx {} u.specs).type = typeNodes (p0 :: names) := by
    rw [foldSpec_type u.specs s.idx {} false hwf.specToks, htn]; rfl
  have hqual : (foldSpec s.idx {} u.specs).qual = TypeName.tnQuals u.specs := by
    rw [foldSpec_qual]; rfl
  have hwords : (p0 :: names).map (·.1) = tyWords u.specs := by rw [← htn]; exact typeNames_words _ _
  have hlast : names ≠ [] → ∀ x, ((p0 :: names).map (·.1)).getLast? = some x → env.ty x = false := by
    intro hn x hx
    rw [hwords] at hx
    refine hwf.lastWord ?_ x hx
    rw [← hwords]
    cases names with
    | nil => exact absurd rfl hn
    | cons a r => simp
  have htyne : (foldSpec s.idx {} u.specs).type.isEmpty = false := by rw [htype]; rfl
  have hfix := TypeName.fixTypename_ok (tc s.idx) (TypeName.tnQuals u.specs) (u.ms s.idx) p0 names
  cases hst : u.stars with
  | nil =>
    have hs1' : SeesT env s1 ((k0, v0) :: rest) := by simpa [hst, starsFlat] using hs1
    obtain ⟨s2, h2, hs2, hi2, _⟩ := peekType_spec s1 _ hs1'
    obtain ⟨s3, h3, hs3, hi3⟩ := TypeName.abstractStars_end [] (by intro q h; cases h) s2 k0 v0 rest hk0
      (by simpa [starsFlat] using hs2) (G + 2) (by simp [starsNtoks]; omega)
    refine ⟨s3, ?_, hs3, by simp [ParamU.ntoks, hst, starsNtoks] at hi3 ⊢; omega⟩
    have hstart : startsDeclarator false s1 = .ok false s2 := by
      simp only [startsDeclarator, DeclSkel.bnd, h2, List.head?_cons, Option.map_some, DeclSkel.pur]
      rcases hk0 with rfl | rfl <;> rfl
    have hbp := buildParam_abs (foldSpec s.idx {} u.specs) p0 names htype hlast Val.none (tc s.idx) s3 _ hs3
    have hms : u.ms s.idx = [] := by simp [ParamU.ms, hst, starPairs]
    rw [hms] at hfix
    show pParameterDeclaration (run (G + 2)) s = _
    simp only [pParameterDeclaration, pDeclSpecs, DeclSkel.bnd, h1', requireSpec, Bool.not_true, Bool.false_and,
      Bool.false_eq_true, ↓reduceIte, DeclSkel.pur, htyne, hstart, h3, starPairs, List.map_nil, List.reverse_nil, hbp]
    simp only [Val.truthy, Bool.false_eq_true, ↓reduceIte, hqual, htype]
    rw [show TypeName.tnPre (tc s.idx) (TypeName.tnQuals u.specs) emptyTypeDecl =
        TypeName.tnPre (tc s.idx) (TypeName.tnQuals u.specs) (chainVal [] emptyTypeDecl) from rfl, hfix (s := s3)]
    simp only [ParamU.val, htn, hms]
  | cons q r =>
    rw [hst] at hF
    have hs1' : SeesT env s1 (starsFlat (q :: r) ++ (k0, v0) :: rest) := by simpa [hst] using hs1
    have hs1'' : SeesT env s1 (("TIMES", "*") :: (q ++ starsFlat r ++ (k0, v0) :: rest)) := by
      simpa [starsFlat, List.append_assoc] using hs1'
    obtain ⟨s2, h2, hs2, hi2, _⟩ := peekType_spec s1 _ hs1''
    have hq : ∀ q' ∈ q :: r, ∀ t ∈ q', t.1 ∈ typeQualifier := by rw [← hst]; exact hwf.quals
    have hs2' : SeesT env s2 (starsFlat (q :: r) ++ (k0, v0) :: rest) := by
      simpa [starsFlat, List.append_assoc] using hs2
    -- the look-ahead scan finds no name
    obtain ⟨sc, hc, hsc, hic⟩ := scanStars_loop (q :: r) s2 ((k0, v0) :: rest) G hq
      (by intro k v r' h; simp only [List.cons.injEq, Prod.mk.injEq] at h; rw [← h.1.1]
          rcases hk0 with rfl | rfl <;> exact ⟨by decide, by decide⟩)
      hs2' (by omega)
    obtain ⟨sd, hd, hsd, _, hid, _⟩ := peek_spec sc k0 v0 _ hsc
    have hscan : run (G + 1) .scanDeclaratorNameInfo s2 = .ok (none, false) sd := by
      show pScanDeclaratorNameInfo (run G) s2 = _
      rcases hk0 with rfl | rfl <;> simp [pScanDeclaratorNameInfo, DeclSkel.bnd, hc, hd, DeclSkel.pur]
    obtain ⟨s4, h4, hs4, hi4⟩ := reset_to s2 sd _ _ hs2' hsd (by omega)
    obtain ⟨s5, h5, hs5, hi5⟩ := TypeName.abstractStars_end (q :: r) hq s4 k0 v0 rest hk0 hs4 (G + 1) (by omega)
    refine ⟨s5, ?_, hs5, by simp only [ParamU.ntoks, hst]; omega⟩
    have hstart : startsDeclarator false s1 = .ok true s2 := by
      simp only [startsDeclarator, DeclSkel.bnd, h2, List.head?_cons, Option.map_some, DeclSkel.pur]
      rfl
    have e4 : s4.idx = s.idx + u.specs.length := by omega
    rw [e4] at h5
    have hms : ((starPairs (s.idx + u.specs.length) (q :: r)).map pairM).reverse = u.ms s.idx := by simp [ParamU.ms, hst]
    rw [hms] at h5
    have hne' : u.ms s.idx ≠ [] := by rw [← hms]; simp [starPairs]
    obtain ⟨m, ms', hmm⟩ := List.exists_cons_of_ne_nil hne'
    have hany : run (G + 2) (.anyDeclarator true true) s2 = .ok (chainVal (u.ms s.idx) emptyTypeDecl, false) s5 := by
      show pAnyDeclarator (run (G + 1)) true true s2 = _
      have hreset : reset s2.idx sd = .ok () s4 := h4
      rw [hmm] at h5
      simp only [pAnyDeclarator, DeclSkel.bnd, mark, DeclSkel.pur, hscan, hreset, Option.isNone_none, Bool.true_or, ↓reduceIte,
        Bool.not_true, Bool.false_eq_true, h5, hmm]
    have hbp := buildParam_abs (foldSpec s.idx {} u.specs) p0 names htype hlast (chainVal (u.ms s.idx) emptyTypeDecl) (tc s.idx) s5 _ hs5
    have htru : (chainVal (u.ms s.idx) emptyTypeDecl).truthy = true := by
      rw [hmm]; exact TypeName.wrap_truthy m _
    show pParameterDeclaration (run (G + 2)) s = _
    simp only [pParameterDeclaration, pDeclSpecs, DeclSkel.bnd, h1', requireSpec, Bool.not_true, Bool.false_and,
      Bool.false_eq_true, ↓reduceIte, DeclSkel.pur, htyne, hstart, hany]
    rw [hbp]
    simp only [htru, ↓reduceIte, hqual, htype, ParamU.val, htn]
    exact hfix s5

/-! ## a parameter: named or unnamed -/

inductive PItem where
  | named (p : Param)
  | unnamed (u : ParamU)

namespace PItem
def flat : PItem → List Tk
  | .named p => p.flat
  | .unnamed u => u.flat
def ntoks : PItem → Nat
  | .named p => p.ntoks
  | .unnamed u => u.ntoks
def fuel : PItem → Nat
  | .named p => p.fuel
  | .unnamed u => u.fuel
/-- the `Decl` of a named parameter, the `Typename` of an unnamed one -/
def val (n : Nat) : PItem → Val
  | .named p => p.val n
  | .unnamed u => u.val n
/-- the coordinate of the parameter's node -/
def coord (n : Nat) : PItem → Option Coord
  | .named p => (p.di n).coord
  | .unnamed _ => tc n
/-- the name a function definition registers in its body's scope -/
def name : PItem → Option String
  | .named p => some (dName p.d)
  | .unnamed _ => none
end PItem

def WFPItem (ty : String → Bool) : PItem → Prop
  | .named p => WFParam p
  | .unnamed u => WFParamU ty u

theorem PItem.flat_length (p : PItem) : p.flat.length = p.ntoks := by
  cases p with
  | named p => exact p.flat_length
  | unnamed u => simp [PItem.flat, PItem.ntoks, ParamU.flat, ParamU.ntoks, DeclSkel.starsFlat_length]

/-- **`_parse_parameter_declaration`** -/
theorem pitem_ok (p : PItem) (hwf : WFPItem env.ty p) (s : PState) (stop : Tk) (rest : List Tk) (hstop : EndsParam stop.1)
    (hs : SeesT env s (p.flat ++ stop :: rest)) (F : Nat) (hF : p.fuel ≤ F) :
    ∃ s', run F .parameterDeclaration s = .ok (p.val s.idx) s' ∧ SeesT env s' (stop :: rest) ∧ s'.idx = s.idx + p.ntoks := by
  cases p with
  | named p => exact param_ok p hwf s stop rest hstop hs F hF
  | unnamed u => exact paramU_ok u hwf s stop rest hstop hs F hF

/-! ## the list -/

def paramsRestFlat : List PItem → List Tk
  | [] => []
  | p :: r => ("COMMA", ",") :: (p.flat ++ paramsRestFlat r)
def paramsRestNtoks : List PItem → Nat
  | [] => 0
  | p :: r => 1 + p.ntoks + paramsRestNtoks r
def paramsRestFuel : List PItem → Nat
  | [] => 1
  | p :: r => max p.fuel (paramsRestFuel r) + 1
def paramsRestVals : Nat → List PItem → List Val
  | _, [] => []
  | n, p :: r => p.val (n + 1) :: paramsRestVals (n + 1 + p.ntoks) r

theorem paramsRest_head (ps : List PItem) (rest : List Tk) :
    ∃ k v r, paramsRestFlat ps ++ ("RPAREN", ")") :: rest = (k, v) :: r ∧ EndsParam k := by
  cases ps with
  | nil => exact ⟨_, _, _, rfl, .inr rfl⟩
  | cons p r => exact ⟨_, _, _, rfl, .inl rfl⟩

theorem param_head0 {p : Param} (hwf : WFParam p) : ∃ t r, p.flat = t :: r ∧ t.1 ∈ declStart ∧ t.1 ≠ "ELLIPSIS" ∧ t.1 ≠ "RPAREN" := by
  cases hsp : p.specs with
  | nil => exact absurd hsp (sawAfter_ne_nil hwf.sawType)
  | cons t r =>
    have h := hwf.specToks
    rw [hsp] at h
    obtain ⟨hk, _⟩ := h
    refine ⟨t, r ++ p.d.flat, by simp [Param.flat, hsp], ?_⟩
    rcases hk with h | h | h | h | h
    · revert h; generalize t.1 = k; revert k; decide
    · revert h; generalize t.1 = k; revert k; decide
    · revert h; generalize t.1 = k; revert k; decide
    · revert h; generalize t.1 = k; revert k; decide
    · rw [h.1]; decide

theorem paramU_head {ty : String → Bool} {u : ParamU} (hwf : WFParamU ty u) :
    ∃ t r, u.flat = t :: r ∧ t.1 ∈ declStart ∧ t.1 ≠ "ELLIPSIS" ∧ t.1 ≠ "RPAREN" := by
  cases hsp : u.specs with
  | nil => exact absurd hsp (sawAfter_ne_nil hwf.sawType)
  | cons t r =>
    have h := hwf.specToks
    rw [hsp] at h
    obtain ⟨hk, _⟩ := h
    refine ⟨t, r ++ starsFlat u.stars, by simp [ParamU.flat, hsp], ?_⟩
    rcases hk with h | h | h | h | h
    · revert h; generalize t.1 = k; revert k; decide
    · revert h; generalize t.1 = k; revert k; decide
    · revert h; generalize t.1 = k; revert k; decide
    · revert h; generalize t.1 = k; revert k; decide
    · rw [h.1]; decide

theorem pitem_head {ty : String → Bool} {p : PItem} (hwf : WFPItem ty p) :
    ∃ t r, p.flat = t :: r ∧ t.1 ∈ declStart ∧ t.1 ≠ "ELLIPSIS" ∧ t.1 ≠ "RPAREN" := by
  cases p with
  | named p => exact param_head0 hwf
  | unnamed u => exact paramU_head hwf

/-- the `while` of `_parse_parameter_list` -/
theorem params_loop : ∀ (ps : List PItem) (acc : List Val) (s : PState) (rest : List Tk) (F : Nat),
    (∀ p ∈ ps, WFPItem env.ty p) → SeesT env s (paramsRestFlat ps ++ ("RPAREN", ")") :: rest) → paramsRestFuel ps ≤ F →
    ∃ s', run F (.parameterListLoop acc) s = .ok (acc ++ paramsRestVals s.idx ps) s' ∧
      SeesT env s' (("RPAREN", ")") :: rest) ∧ s'.idx = s.idx + paramsRestNtoks ps
  | [], acc, s, rest, F, _, hs, hF => by
    obtain ⟨G, rfl⟩ : ∃ G, F = G + 1 := ⟨F - 1, by simp only [paramsRestFuel] at hF; omega⟩
    have hs0 : SeesT env s (("RPAREN", ")") :: rest) := by simpa [paramsRestFlat] using hs
    obtain ⟨s1, h1, hs1, hi1, _⟩ := peekType_spec s _ hs0
    refine ⟨s1, ?_, hs1, by simp only [paramsRestNtoks]; omega⟩
    show pParameterListLoop (run G) acc s = _
    simp [pParameterListLoop, andM, peekIs, DeclSkel.bnd, h1, DeclSkel.pur, paramsRestVals]
  | p :: ps, acc, s, rest, F, hwf, hs, hF => by
    obtain ⟨G, rfl⟩ : ∃ G, F = G + 1 := ⟨F - 1, by simp only [paramsRestFuel] at hF; omega⟩
    simp only [paramsRestFuel] at hF
    obtain ⟨t, r, hfl, _, hne, _⟩ := pitem_head (hwf p List.mem_cons_self)
    have hs0 : SeesT env s (("COMMA", ",") :: ((t.1, t.2) :: (r ++ (paramsRestFlat ps ++ ("RPAREN", ")") :: rest)))) := by
      simpa [paramsRestFlat, hfl, List.append_assoc] using hs
    obtain ⟨s1, h1, hs1, hi1, _⟩ := peekType_spec s _ hs0
    obtain ⟨s2, h2, hs2, _, hi2, _⟩ := peekK_spec 1 s1 _ (t.1, t.2) hs1 rfl
    obtain ⟨s3, h3, hs3, _, hi3, _⟩ := advance_spec s2 "COMMA" "," _ hs2
    obtain ⟨k, v, r', hhd, hend⟩ := paramsRest_head ps rest
    have hs3' : SeesT env s3 (p.flat ++ (k, v) :: r') := by rw [← hhd]; simpa [hfl, List.append_assoc] using hs3
    obtain ⟨s4, h4, hs4, hi4⟩ := pitem_ok p (hwf p List.mem_cons_self) s3 (k, v) r' hend hs3' G (by omega)
    rw [← hhd] at hs4
    obtain ⟨s5, h5, hs5, hi5⟩ := params_loop ps (acc ++ [p.val s3.idx]) s4 rest G
      (fun p' h' => hwf p' (List.mem_cons_of_mem _ h')) hs4 (by omega)
    refine ⟨s5, ?_, hs5, by simp only [paramsRestNtoks]; omega⟩
    have e3 : s3.idx = s.idx + 1 := by omega
    have e4 : s4.idx = s.idx + 1 + p.ntoks := by omega
    rw [e4] at h5
    rw [e3] at h4 h5
    have hpk2 : peekType2 s1 = .ok (some t.1) s2 := by
      simp [peekType2, DeclSkel.bnd, h2, DeclSkel.pur]
    have hne' : (some t.1 == some "ELLIPSIS") = false := by simpa using hne
    show pParameterListLoop (run G) acc s = _
    simp [pParameterListLoop, andM, peekIs, peek2Is, DeclSkel.bnd, h1, hpk2, hne', DeclSkel.pur, h3, h4, h5, paramsRestVals]

/-! ## `_parse_parameter_type_list`, `_parse_function_decl` -/

/-- a non-empty prototype parameter list -/
structure PL where
  first : PItem
  more : List PItem

namespace PL
def flat (l : PL) : List Tk := l.first.flat ++ paramsRestFlat l.more
def ntoks (l : PL) : Nat := l.first.ntoks + paramsRestNtoks l.more
def fuel (l : PL) : Nat := max l.first.fuel (paramsRestFuel l.more) + 2
/-- the parameter `Decl`s in source order -/
def decls (n : Nat) (l : PL) : List Val := l.first.val n :: paramsRestVals (n + l.first.ntoks) l.more
/-- the `ParamList`; its coordinate is the first parameter's -/
def val (n : Nat) (l : PL) : Val := PycModel.mk .ParamList (l.first.coord n) [.list (l.decls n)]
def names (l : PL) : List String := (l.first :: l.more).filterMap PItem.name
end PL

structure WFPL (ty : String → Bool) (l : PL) : Prop where
  first : WFPItem ty l.first
  more : ∀ p ∈ l.more, WFPItem ty p

theorem Param.val_coord (p : Param) (n : Nat) (hsaw : sawAfter false p.specs = true) (s : PState) :
    coordOf (p.val n) s = .ok (p.di n).coord s := by
  unfold Param.val
  cases htn : typeNames n p.specs with
  | nil => exact absurd htn (typeNames_ne_nil _ _ false hsaw rfl)
  | cons p0 names => rfl

theorem PItem.val_coord {ty : String → Bool} (p : PItem) (n : Nat) (hwf : WFPItem ty p) (s : PState) :
    coordOf (p.val n) s = .ok (p.coord n) s := by
  cases p with
  | named p => exact Param.val_coord p n (show WFParam p from hwf).sawType s
  | unnamed u =>
    have hw : WFParamU ty u := hwf
    show coordOf (u.val n) s = _
    unfold ParamU.val
    cases htn : typeNames n u.specs with
    | nil => exact absurd htn (typeNames_ne_nil _ _ false hw.sawType rfl)
    | cons p0 names => rfl

theorem paramTypeList_ok (l : PL) (hwf : WFPL env.ty l) (s : PState) (rest : List Tk)
    (hs : SeesT env s (l.flat ++ ("RPAREN", ")") :: rest)) (F : Nat) (hF : l.fuel ≤ F) :
    ∃ s', run F .parameterTypeList s = .ok (l.val s.idx) s' ∧ SeesT env s' (("RPAREN", ")") :: rest) ∧
      s'.idx = s.idx + l.ntoks := by
  obtain ⟨G, rfl⟩ : ∃ G, F = G + 1 := ⟨F - 1, by simp only [PL.fuel] at hF; omega⟩
  simp only [PL.fuel] at hF
  obtain ⟨k, v, r', hhd, hend⟩ := paramsRest_head l.more rest
  have hs0 : SeesT env s (l.first.flat ++ (k, v) :: r') := by rw [← hhd]; simpa [PL.flat, List.append_assoc] using hs
  obtain ⟨s1, h1, hs1, hi1⟩ := pitem_ok l.first hwf.first s (k, v) r' hend hs0 G (by omega)
  rw [← hhd] at hs1
  obtain ⟨s2, h2, hs2, hi2⟩ := params_loop l.more [l.first.val s.idx] s1 rest G hwf.more hs1 (by omega)
  obtain ⟨s3, h3, hs3, hi3, _⟩ := peekType_spec s2 _ hs2
  refine ⟨s3, ?_, hs3, by simp only [PL.ntoks]; omega⟩
  have e1 : s1.idx = s.idx + l.first.ntoks := hi1
  rw [e1] at h2
  have hco := PItem.val_coord l.first s.idx hwf.first
  show pParameterTypeList (run G) s = _
  simp [pParameterTypeList, DeclSkel.bnd, h1, hco, h2, andM, peekIs, h3, DeclSkel.pur, PL.val, PL.decls]

/-- the names `_parse_function_decl` registers when a `{` follows: every parameter's -/
theorem registerParams_ok : ∀ (ps : List PItem) (ns : List Nat), ps.length = ns.length →
    (∀ p ∈ ps, WFPItem env.ty p) → (∀ p ∈ ps, ∀ x, p.name = some x → env.ty x = false) →
    ∀ (s : PState) (toks : List Tk), SeesT env s toks →
    ∃ s', registerParams ((ps.zip ns).map fun pn => pn.1.val pn.2) s = .ok () s' ∧ SeesT env s' toks ∧ s'.idx = s.idx
  | [], _, _, _, _, s, toks, hs => ⟨s, rfl, hs, rfl⟩
  | p :: ps, [], h, _, _, _, _, _ => by simp at h
  | .unnamed u :: ps, n :: ns, hlen, hwf, hty, s, toks, hs => by
    have hw : WFParamU env.ty u := hwf _ List.mem_cons_self
    obtain ⟨s2, h2, hs2, hi2⟩ := registerParams_ok ps ns (by simpa using hlen)
      (fun q hq => hwf q (List.mem_cons_of_mem _ hq)) (fun q hq => hty q (List.mem_cons_of_mem _ hq)) s toks hs
    refine ⟨s2, ?_, hs2, hi2⟩
    have hname : (u.val n).getAttr "name" = some .none := by
      unfold ParamU.val
      cases htn : typeNames n u.specs with
      | nil => exact absurd htn (typeNames_ne_nil _ _ false hw.sawType rfl)
      | cons p0 names => rfl
    have hcls : (u.val n).isCls .EllipsisParam = false := by
      unfold ParamU.val
      cases htn : typeNames n u.specs with
      | nil => exact absurd htn (typeNames_ne_nil _ _ false hw.sawType rfl)
      | cons p0 names => rfl
    simp only [List.zip_cons_cons, List.map_cons, PItem.val, registerParams, hcls, Bool.false_eq_true, ↓reduceIte, hname]
    exact h2
  | .named p :: ps, n :: ns, hlen, hwf, hty, s, toks, hs => by
    have hw : WFParam p := hwf _ List.mem_cons_self
    have hsaw := hw.sawType
    have htyp : env.ty (dName p.d) = false := hty _ List.mem_cons_self _ rfl
    have hname : (p.val n).getAttr "name" = some (.str (dName p.d)) := by
      unfold Param.val
      cases htn : typeNames n p.specs with
      | nil => exact absurd htn (typeNames_ne_nil _ _ false hsaw rfl)
      | cons p0 names => rfl
    have hcls : (p.val n).isCls .EllipsisParam = false := by
      unfold Param.val
      cases htn : typeNames n p.specs with
      | nil => exact absurd htn (typeNames_ne_nil _ _ false hsaw rfl)
      | cons p0 names => rfl
    have hco : ∀ st, valCoord (p.val n) "param.coord" st = .ok (p.di n).coord st := by
      intro st
      unfold Param.val
      cases htn : typeNames n p.specs with
      | nil => exact absurd htn (typeNames_ne_nil _ _ false hsaw rfl)
      | cons p0 names => rfl
    by_cases hem : (dName p.d).isEmpty = true
    · obtain ⟨s2, h2, hs2, hi2⟩ := registerParams_ok ps ns (by simpa using hlen)
        (fun q hq => hwf q (List.mem_cons_of_mem _ hq)) (fun q hq => hty q (List.mem_cons_of_mem _ hq)) s toks hs
      refine ⟨s2, ?_, hs2, hi2⟩
      simp only [List.zip_cons_cons, List.map_cons, PItem.val, registerParams, hcls, Bool.false_eq_true, ↓reduceIte, hname, hem,
        Bool.not_true, DeclSkel.bnd, DeclSkel.pur]
      exact h2
    · obtain ⟨s1, h1, hs1, hi1, _⟩ := addIdentifier_spec s toks (dName p.d) (p.di n).coord hs htyp
      obtain ⟨s2, h2, hs2, hi2⟩ := registerParams_ok ps ns (by simpa using hlen)
        (fun q hq => hwf q (List.mem_cons_of_mem _ hq)) (fun q hq => hty q (List.mem_cons_of_mem _ hq)) s1 toks hs1
      refine ⟨s2, ?_, hs2, by omega⟩
      have hem' : (dName p.d).isEmpty = false := by simpa using hem
      simp only [List.zip_cons_cons, List.map_cons, PItem.val, registerParams, hcls, Bool.false_eq_true, ↓reduceIte, hname, hem',
        Bool.not_false, DeclSkel.bnd, hco, h1]
      exact h2

/-- the positions of the parameters of a list starting at `n` -/
def restPos : Nat → List PItem → List Nat
  | _, [] => []
  | n, p :: r => (n + 1) :: restPos (n + 1 + p.ntoks) r

theorem restPos_length : ∀ (n : Nat) (ps : List PItem), (restPos n ps).length = ps.length
  | _, [] => rfl
  | n, p :: r => by simp [restPos, restPos_length _ r]

theorem paramsRestVals_zip : ∀ (n : Nat) (ps : List PItem),
    paramsRestVals n ps = (ps.zip (restPos n ps)).map fun pn => pn.1.val pn.2
  | _, [] => rfl
  | n, p :: r => by simp [paramsRestVals, restPos, paramsRestVals_zip _ r]

/-- **`_parse_function_decl`** on `( parameters )` followed by the `{` of a function body: the
`FuncDecl` modifier with the `ParamList`, every parameter name registered in the body's scope -/
theorem functionDeclP_ok (l : PL) (hwf : WFPL env.ty l) (hty : ∀ x ∈ l.names, env.ty x = false) (base : Val)
    (hbase : base.isNode = true) (s : PState) (rest : List Tk)
    (hs : SeesT env s (("LPAREN", "(") :: (l.flat ++ ("RPAREN", ")") :: ("LBRACE", "{") :: rest))) (G : Nat)
    (hF : l.fuel + 1 ≤ G) :
    ∃ s', run (G + 1) (.functionDecl base) s =
        .ok (chainVal [.fn (X.coordOfVal base) (l.val (s.idx + 1))] .none) s' ∧
      SeesT env s' (("LBRACE", "{") :: rest) ∧ s'.idx = s.idx + l.ntoks + 2 := by
  obtain ⟨t, r, hfl, hds, _, hnr⟩ := pitem_head hwf.first
  obtain ⟨s1, h1, hs1, hi1⟩ := expect_same s "LPAREN" "(" _ hs
  have hs1' : SeesT env s1 ((t.1, t.2) :: (r ++ (paramsRestFlat l.more ++ ("RPAREN", ")") :: ("LBRACE", "{") :: rest))) := by
    simpa [PL.flat, hfl, List.append_assoc] using hs1
  obtain ⟨s2, h2, hs2, hi2⟩ := accept_other s1 _ "RPAREN" hs1' (by
    intro k v r' h; simp only [List.cons.injEq, Prod.mk.injEq] at h; rw [← h.1.1]; exact hnr)
  obtain ⟨s3, h3, hs3, hi3, _⟩ := peekType_spec s2 _ hs2
  have hs3' : SeesT env s3 (l.flat ++ ("RPAREN", ")") :: ("LBRACE", "{") :: rest) := by
    simpa [PL.flat, hfl, List.append_assoc] using hs3
  obtain ⟨s4, h4, hs4, hi4⟩ := paramTypeList_ok l hwf s3 _ hs3' G (by omega)
  obtain ⟨s5, h5, hs5, hi5⟩ := expect_same s4 "RPAREN" ")" _ hs4
  have hco := valCoord_node hbase "base_decl.coord" s5
  obtain ⟨s6, h6, hs6, hi6, _⟩ := peekType_spec s5 _ hs5
  have e3 : s3.idx = s.idx + 1 := by omega
  rw [e3] at h4
  -- registration
  have hdecls : l.decls (s.idx + 1) = ((l.first :: l.more).zip ((s.idx + 1) :: restPos (s.idx + 1 + l.first.ntoks) l.more)).map
      fun pn => pn.1.val pn.2 := by
    simp [PL.decls, paramsRestVals_zip]
  obtain ⟨s7, h7, hs7, hi7⟩ := registerParams_ok (l.first :: l.more) ((s.idx + 1) :: restPos (s.idx + 1 + l.first.ntoks) l.more)
    (by simp [restPos_length])
    (by intro p hp; simp only [List.mem_cons] at hp; rcases hp with rfl | hp; exact hwf.first; exact hwf.more p hp)
    (by intro p hp x hx; apply hty; simp only [PL.names, List.mem_filterMap]; exact ⟨p, hp, hx⟩)
    s6 _ hs6
  rw [← hdecls] at h7
  refine ⟨s7, ?_, hs7, by omega⟩
  have hin : inSet (some t.1) declStart = true := mem_inSet hds
  have hparams : (l.val (s.idx + 1)).getAttr "params" = some (.list (l.decls (s.idx + 1))) := rfl
  have hnn : (l.val (s.idx + 1)).isNone = false := rfl
  show pFunctionDecl (run G) base s = _
  simp only [pFunctionDecl, DeclSkel.bnd, h1, h2, Option.isSome_none, Bool.false_eq_true, ↓reduceIte, startsDeclaration, h3,
    List.head?_cons, Option.map_some, hin, DeclSkel.pur, h4, h5, hco, h6, beq_self_eq_true, hnn, Bool.not_false, hparams,
    attrOrCrash_some, h7]
  rfl

/-! ## the parameter list `( void )` -/

/-- the `Typename` of the unnamed parameter `void` at position `n` -/
def voidParam (n : Nat) : Val :=
  mk .Typename (tc n) [.none, .list [], .none, mk .TypeDecl none [.none, .list [], .none, identType (tc n) ["void"]]]

/-- the `ParamList` of `( void )` -/
def voidList (n : Nat) : Val := mk .ParamList (tc n) [.list [voidParam n]]

/-- **`_parse_parameter_declaration`** on the unnamed parameter `void` -/
theorem paramVoid_ok (s : PState) (rest : List Tk) (hs : SeesT env s (("VOID", "void") :: ("RPAREN", ")") :: rest))
    (F : Nat) (hF : 8 ≤ F) :
    ∃ s', run F .parameterDeclaration s = .ok (voidParam s.idx) s' ∧ SeesT env s' (("RPAREN", ")") :: rest) ∧
      s'.idx = s.idx + 1 := by
  obtain ⟨G, rfl⟩ : ∃ G, F = G + 1 := ⟨F - 1, by omega⟩
  have hsp : SpecToks false [("VOID", "void")] := by simp [SpecToks, typeSpecSimple]
  have hfo : FollowSpec (("RPAREN", ")") :: rest) := by intro k v r h; cases h; decide
  obtain ⟨s1, h1, hs1, hi1⟩ := specs_loop [("VOID", "void")] {} false false none s _ G hsp hfo hs (by simp; omega) (fun _ => rfl)
  have h1' : run G (.declSpecsLoop none false none) s =
      .ok (some (foldSpec s.idx {} [("VOID", "void")]), true, firstCoord none s.idx [("VOID", "void")]) s1 := h1
  obtain ⟨s2, h2, hs2, hi2, _⟩ := peekType_spec s1 _ hs1
  obtain ⟨s3, h3, hs3, hi3⟩ := TypeName.abstractStars_ok [] (by intro q h; cases h) s2 ")" rest
    (by simpa [starsFlat] using hs2) G (by simp [starsNtoks]; omega)
  refine ⟨s3, ?_, hs3, by simp [starsNtoks] at hi3; simp at hi1; omega⟩
  have hfix := TypeName.fixTypename_ok (tc s.idx) [] [] ("void", tc s.idx) [] s3
  simp only [chainVal, TypeName.tnPre, TypeName.tnPost, TypeName.tdAbs, typeNodes, List.map_cons, List.map_nil] at hfix
  have hstart : startsDeclarator false s1 = .ok false s2 := by
    simp only [startsDeclarator, DeclSkel.bnd, h2, List.head?_cons, Option.map_some, DeclSkel.pur]
    rfl
  have hfold : foldSpec s.idx {} [("VOID", "void")] = { type := [identType (tc s.idx) ["void"]] } := by
    simp [foldSpec, addTok, typeQualifier, storageClass, functionSpec]
  rw [hfold] at h1'
  have hbp : buildParameterDeclaration { type := [identType (tc s.idx) ["void"]] } Val.none (firstCoord none s.idx [("VOID", "void")]) s3 =
      .ok (voidParam s.idx) s3 := by
    simp only [buildParameterDeclaration, DeclSkel.bnd, DeclSkel.pur, List.length_cons, List.length_nil, Nat.lt_irrefl,
      decide_false, Bool.false_and, Bool.false_eq_true, ↓reduceIte, Val.truthy, firstCoord]
    exact hfix
  show pParameterDeclaration (run G) s = _
  simp only [pParameterDeclaration, pDeclSpecs, DeclSkel.bnd, h1', requireSpec, Bool.not_true, Bool.false_and,
    Bool.false_eq_true, ↓reduceIte, DeclSkel.pur, hstart, h3, starPairs, List.map_nil, List.reverse_nil]
  have hne : ([identType (tc s.idx) ["void"]] : List Val).isEmpty = false := rfl
  simp only [hne, Bool.false_eq_true, ↓reduceIte]
  exact hbp

/-- **`_parse_function_decl`** on `( void )` followed by the `{` of a function body -/
theorem functionDeclV_ok (base : Val) (hbase : base.isNode = true) (s : PState) (rest : List Tk)
    (hs : SeesT env s (("LPAREN", "(") :: ("VOID", "void") :: ("RPAREN", ")") :: ("LBRACE", "{") :: rest)) (G : Nat)
    (hF : 10 ≤ G) :
    ∃ s', run (G + 1) (.functionDecl base) s =
        .ok (chainVal [.fn (X.coordOfVal base) (voidList (s.idx + 1))] .none) s' ∧
      SeesT env s' (("LBRACE", "{") :: rest) ∧ s'.idx = s.idx + 3 := by
  obtain ⟨G', rfl⟩ : ∃ G', G = G' + 1 := ⟨G - 1, by omega⟩
  obtain ⟨s1, h1, hs1, hi1⟩ := expect_same s "LPAREN" "(" _ hs
  obtain ⟨s2, h2, hs2, hi2⟩ := accept_other s1 _ "RPAREN" hs1 (by
    intro k v r' h; simp only [List.cons.injEq, Prod.mk.injEq] at h; rw [← h.1.1]; decide)
  obtain ⟨s3, h3, hs3, hi3, _⟩ := peekType_spec s2 _ hs2
  -- the parameter list
  obtain ⟨s4, h4, hs4, hi4⟩ := paramVoid_ok s3 _ hs3 G' (by omega)
  obtain ⟨s5, h5, hs5, hi5, _⟩ := peekType_spec s4 _ hs4
  obtain ⟨s6, h6, hs6, hi6, _⟩ := peekType_spec s5 _ hs5
  obtain ⟨s7, h7, hs7, hi7⟩ := expect_same s6 "RPAREN" ")" _ hs6
  have hco := valCoord_node hbase "base_decl.coord" s7
  obtain ⟨s8, h8, hs8, hi8, _⟩ := peekType_spec s7 _ hs7
  refine ⟨s8, ?_, hs8, by omega⟩
  have e3 : s3.idx = s.idx + 1 := by omega
  rw [e3] at h4
  have hloop : run G' (.parameterListLoop [voidParam (s.idx + 1)]) s4 = .ok [voidParam (s.idx + 1)] s5 := by
    obtain ⟨G'', rfl⟩ : ∃ G'', G' = G'' + 1 := ⟨G' - 1, by omega⟩
    show pParameterListLoop (run G'') _ s4 = _
    simp [pParameterListLoop, andM, peekIs, DeclSkel.bnd, h5, DeclSkel.pur]
  have hptl : run (G' + 1) .parameterTypeList s3 = .ok (voidList (s.idx + 1)) s6 := by
    show pParameterTypeList (run G') s3 = _
    have hcf : ∀ st, coordOf (voidParam (s.idx + 1)) st = .ok (tc (s.idx + 1)) st := fun st => rfl
    simp [pParameterTypeList, DeclSkel.bnd, h4, hcf, hloop, andM, peekIs, h6, DeclSkel.pur, voidList]
  have hparams : (voidList (s.idx + 1)).getAttr "params" = some (.list [voidParam (s.idx + 1)]) := rfl
  have hnn : (voidList (s.idx + 1)).isNone = false := rfl
  have hreg : ∀ st, registerParams [voidParam (s.idx + 1)] st = .ok () st := fun st => rfl
  have hin : inSet (some "VOID") declStart = true := by decide
  show pFunctionDecl (run (G' + 1)) base s = _
  simp only [pFunctionDecl, DeclSkel.bnd, h1, h2, Option.isSome_none, Bool.false_eq_true, ↓reduceIte, startsDeclaration, h3,
    List.head?_cons, Option.map_some, hin, DeclSkel.pur, hptl, h7, hco, h8, beq_self_eq_true, hnn, Bool.not_false, hparams,
    attrOrCrash_some, hreg]
  rfl

/-- a prototype parameter list: named parameters, or `void` -/
inductive PLV where
  | named (l : PL)
  | void

namespace PLV
def flat : PLV → List Tk
  | .named l => l.flat
  | .void => [("VOID", "void")]
def ntoks : PLV → Nat
  | .named l => l.ntoks
  | .void => 1
def fuel : PLV → Nat
  | .named l => l.fuel
  | .void => 9
def val (n : Nat) : PLV → Val
  | .named l => l.val n
  | .void => voidList n
def names : PLV → List String
  | .named l => l.names
  | .void => []
end PLV

def WFPLV (ty : String → Bool) : PLV → Prop
  | .named l => WFPL ty l
  | .void => True

theorem PLV.flat_length (pv : PLV) (h : ∀ l, pv = .named l → l.flat.length = l.ntoks) : pv.flat.length = pv.ntoks := by
  cases pv with
  | named l => exact h l rfl
  | void => rfl

/-- **`_parse_function_decl`** on either form of parameter list in front of a function body -/
theorem functionDeclPV_ok (pv : PLV) (hwf : WFPLV env.ty pv) (hty : ∀ x ∈ pv.names, env.ty x = false) (base : Val)
    (hbase : base.isNode = true) (s : PState) (rest : List Tk)
    (hs : SeesT env s (("LPAREN", "(") :: (pv.flat ++ ("RPAREN", ")") :: ("LBRACE", "{") :: rest))) (G : Nat)
    (hF : pv.fuel + 1 ≤ G) :
    ∃ s', run (G + 1) (.functionDecl base) s =
        .ok (chainVal [.fn (X.coordOfVal base) (pv.val (s.idx + 1))] .none) s' ∧
      SeesT env s' (("LBRACE", "{") :: rest) ∧ s'.idx = s.idx + pv.ntoks + 2 := by
  cases pv with
  | named l => exact functionDeclP_ok l hwf hty base hbase s rest hs G hF
  | void =>
    obtain ⟨s', h, hs', hi⟩ := functionDeclV_ok base hbase s rest (by simpa [PLV.flat] using hs) G (by simpa [PLV.fuel] using hF)
    exact ⟨s', h, hs', by simp only [PLV.ntoks]; omega⟩

/-! ## the declarator of a function definition with parameters -/

/-- `name ( parameters )` -/
structure FD where
  x : String
  params : PLV

namespace FD
def flat (f : FD) : List Tk := ("ID", f.x) :: ("LPAREN", "(") :: (f.params.flat ++ [("RPAREN", ")")])
def ntoks (f : FD) : Nat := f.params.ntoks + 3
def fuel (f : FD) : Nat := f.params.fuel + 6
def di (n : Nat) (f : FD) : DI := { ms := [.fn (tc n) (f.params.val (n + 2))], x := f.x, tco := tc n, init := .none }
end FD

/-- **`_parse_declarator`** on `name ( parameters )` in front of a function body -/
theorem fdeclarator_ok (f : FD) (hwf : WFPLV env.ty f.params) (hty : ∀ x ∈ f.params.names, env.ty x = false) (s : PState) (rest : List Tk)
    (hs : SeesT env s (f.flat ++ ("LBRACE", "{") :: rest)) (F : Nat) (hF : f.fuel ≤ F) :
    ∃ s', run F (.declaratorKind .id true) s = .ok (f.di s.idx).raw s' ∧ SeesT env s' (("LBRACE", "{") :: rest) ∧
      s'.idx = s.idx + f.ntoks := by
  obtain ⟨G, rfl⟩ : ∃ G, F = G + 4 := ⟨F - 4, by simp only [FD.fuel] at hF; omega⟩
  simp only [FD.fuel] at hF
  have hs0 : SeesT env s (("ID", f.x) :: ("LPAREN", "(") :: (f.params.flat ++ ("RPAREN", ")") :: ("LBRACE", "{") :: rest)) := by
    simpa [FD.flat, List.append_assoc] using hs
  obtain ⟨s1, h1, hs1, hi1, _⟩ := peekType_spec s _ hs0
  obtain ⟨s2, h2, hs2, hi2⟩ := accept_other s1 _ "LPAREN" hs1 (by
    intro k v r h; simp only [List.cons.injEq, Prod.mk.injEq] at h; rw [← h.1.1]; decide)
  obtain ⟨s3, h3, hs3, hi3⟩ := expect_same s2 "ID" f.x _ hs2
  obtain ⟨s4, h4, hs4, hi4, _⟩ := peekType_spec s3 _ hs3
  obtain ⟨s5, h5, hs5, hi5, _⟩ := peekType_spec s4 _ hs4
  have hbase : (tdRaw f.x (tc s.idx)).isNode = true := rfl
  obtain ⟨s6, h6, hs6, hi6⟩ := functionDeclPV_ok f.params hwf hty (tdRaw f.x (tc s.idx)) hbase s5 rest hs5 G (by omega)
  obtain ⟨s7, h7, hs7, hi7, _⟩ := peekType_spec s6 _ hs6
  obtain ⟨s8, h8, hs8, hi8, _⟩ := peekType_spec s7 _ hs7
  refine ⟨s8, ?_, hs8, by simp only [FD.ntoks]; omega⟩
  have e5 : s5.idx = s.idx + 1 := by omega
  rw [e5] at h6
  have e2 : s2.idx = s.idx := by omega
  have hco : X.coordOfVal (tdRaw f.x (tc s.idx)) = tc s.idx := rfl
  rw [hco] at h6
  have htm := typeModify_chain [] [.fn (tc s.idx) (f.params.val (s.idx + 2))] (tdRaw f.x (tc s.idx)) (by simp) rfl s6
  simp only [chainVal, List.nil_append] at htm
  have hsuf2 : run (G + 1) (.declSuffixesLoop (chainVal [.fn (tc s.idx) (f.params.val (s.idx + 2))] (tdRaw f.x (tc s.idx)))) s6 =
      .ok (chainVal [.fn (tc s.idx) (f.params.val (s.idx + 2))] (tdRaw f.x (tc s.idx))) s8 := by
    show pDeclSuffixesLoop (run G) _ s6 = _
    simp [pDeclSuffixesLoop, DeclSkel.bnd, h7, h8, DeclSkel.pur]
  have hsuf1 : run (G + 2) (.declSuffixesLoop (tdRaw f.x (tc s.idx))) s3 =
      .ok (chainVal [.fn (tc s.idx) (f.params.val (s.idx + 2))] (tdRaw f.x (tc s.idx))) s8 := by
    show pDeclSuffixesLoop (run (G + 1)) _ s3 = _
    have h6' : run (G + 1) (.functionDecl (tdRaw f.x (tc s.idx))) s5 =
        .ok (M.wrap (.fn (tc s.idx) (f.params.val (s.idx + 1 + 1))) .none) s6 := h6
    have htm' : typeModifyDecl (tdRaw f.x (tc s.idx)) (M.wrap (.fn (tc s.idx) (f.params.val (s.idx + 1 + 1))) .none) s6 =
        .ok (M.wrap (.fn (tc s.idx) (f.params.val (s.idx + 2))) (tdRaw f.x (tc s.idx))) s6 := htm
    have hsuf2' : run (G + 1) (.declSuffixesLoop (M.wrap (.fn (tc s.idx) (f.params.val (s.idx + 2))) (tdRaw f.x (tc s.idx)))) s6 =
        .ok (chainVal [.fn (tc s.idx) (f.params.val (s.idx + 2))] (tdRaw f.x (tc s.idx))) s8 := hsuf2
    simp [pDeclSuffixesLoop, DeclSkel.bnd, h4, h5, h6', htm', hsuf2']
  have hdir : run (G + 3) (.directDeclarator .id true) s1 =
      .ok (chainVal [.fn (tc s.idx) (f.params.val (s.idx + 2))] (tdRaw f.x (tc s.idx))) s8 := by
    show pDirectDeclarator (run (G + 2)) .id true s1 = _
    simp only [pDirectDeclarator, ↓reduceIte, DeclSkel.bnd, h2, Option.isSome_none, Bool.false_eq_true, h3, tokCoord,
      DeclSkel.pur, e2]
    exact hsuf1
  show pDeclaratorKind (run (G + 3)) .id true s = _
  simp only [pDeclaratorKind, DeclSkel.bnd, h1, List.head?_cons, Option.map_some,
    show ((some "ID" : Option String) == some "TIMES") = false from rfl, Bool.false_eq_true, ↓reduceIte, hdir]
  rfl

/-! ## prototypes: a function declarator that is not followed by a body -/

/-- **`_parse_function_decl`** on `( parameters )` followed by anything but `{`: the same `FuncDecl`
modifier, and *no* parameter name is registered (the parameters of a prototype have prototype scope) -/
theorem functionDeclP_proto (l : PL) (hwf : WFPL env.ty l) (base : Val)
    (hbase : base.isNode = true) (s : PState) (stop : Tk) (rest : List Tk) (hstop : stop.1 ≠ "LBRACE")
    (hs : SeesT env s (("LPAREN", "(") :: (l.flat ++ ("RPAREN", ")") :: stop :: rest))) (G : Nat)
    (hF : l.fuel + 1 ≤ G) :
    ∃ s', run (G + 1) (.functionDecl base) s =
        .ok (chainVal [.fn (X.coordOfVal base) (l.val (s.idx + 1))] .none) s' ∧
      SeesT env s' (stop :: rest) ∧ s'.idx = s.idx + l.ntoks + 2 := by
  obtain ⟨k0, v0⟩ := stop
  obtain ⟨t, r, hfl, hds, _, hnr⟩ := pitem_head hwf.first
  obtain ⟨s1, h1, hs1, hi1⟩ := expect_same s "LPAREN" "(" _ hs
  have hs1' : SeesT env s1 ((t.1, t.2) :: (r ++ (paramsRestFlat l.more ++ ("RPAREN", ")") :: (k0, v0) :: rest))) := by
    simpa [PL.flat, hfl, List.append_assoc] using hs1
  obtain ⟨s2, h2, hs2, hi2⟩ := accept_other s1 _ "RPAREN" hs1' (by
    intro k v r' h; simp only [List.cons.injEq, Prod.mk.injEq] at h; rw [← h.1.1]; exact hnr)
  obtain ⟨s3, h3, hs3, hi3, _⟩ := peekType_spec s2 _ hs2
  have hs3' : SeesT env s3 (l.flat ++ ("RPAREN", ")") :: (k0, v0) :: rest) := by
    simpa [PL.flat, hfl, List.append_assoc] using hs3
  obtain ⟨s4, h4, hs4, hi4⟩ := paramTypeList_ok l hwf s3 _ hs3' G (by omega)
  obtain ⟨s5, h5, hs5, hi5⟩ := expect_same s4 "RPAREN" ")" _ hs4
  have hco := valCoord_node hbase "base_decl.coord" s5
  obtain ⟨s6, h6, hs6, hi6, _⟩ := peekType_spec s5 _ hs5
  have e3 : s3.idx = s.idx + 1 := by omega
  rw [e3] at h4
  refine ⟨s6, ?_, hs6, by omega⟩
  have hin : inSet (some t.1) declStart = true := mem_inSet hds
  have hnb : ((some k0 : Option String) == some "LBRACE") = false := by simpa using hstop
  show pFunctionDecl (run G) base s = _
  simp only [pFunctionDecl, DeclSkel.bnd, h1, h2, Option.isSome_none, Bool.false_eq_true, ↓reduceIte, startsDeclaration, h3,
    List.head?_cons, Option.map_some, hin, DeclSkel.pur, h4, h5, hco, h6, hnb]
  rfl

/-- **`_parse_function_decl`** on `( void )` followed by anything but `{` -/
theorem functionDeclV_proto (base : Val) (hbase : base.isNode = true) (s : PState) (stop : Tk) (rest : List Tk)
    (hstop : stop.1 ≠ "LBRACE")
    (hs : SeesT env s (("LPAREN", "(") :: ("VOID", "void") :: ("RPAREN", ")") :: stop :: rest)) (G : Nat)
    (hF : 10 ≤ G) :
    ∃ s', run (G + 1) (.functionDecl base) s =
        .ok (chainVal [.fn (X.coordOfVal base) (voidList (s.idx + 1))] .none) s' ∧
      SeesT env s' (stop :: rest) ∧ s'.idx = s.idx + 3 := by
  obtain ⟨k0, v0⟩ := stop
  obtain ⟨G', rfl⟩ : ∃ G', G = G' + 1 := ⟨G - 1, by omega⟩
  obtain ⟨s1, h1, hs1, hi1⟩ := expect_same s "LPAREN" "(" _ hs
  obtain ⟨s2, h2, hs2, hi2⟩ := accept_other s1 _ "RPAREN" hs1 (by
    intro k v r' h; simp only [List.cons.injEq, Prod.mk.injEq] at h; rw [← h.1.1]; decide)
  obtain ⟨s3, h3, hs3, hi3, _⟩ := peekType_spec s2 _ hs2
  obtain ⟨s4, h4, hs4, hi4⟩ := paramVoid_ok s3 _ hs3 G' (by omega)
  obtain ⟨s5, h5, hs5, hi5, _⟩ := peekType_spec s4 _ hs4
  obtain ⟨s6, h6, hs6, hi6, _⟩ := peekType_spec s5 _ hs5
  obtain ⟨s7, h7, hs7, hi7⟩ := expect_same s6 "RPAREN" ")" _ hs6
  have hco := valCoord_node hbase "base_decl.coord" s7
  obtain ⟨s8, h8, hs8, hi8, _⟩ := peekType_spec s7 _ hs7
  refine ⟨s8, ?_, hs8, by omega⟩
  have e3 : s3.idx = s.idx + 1 := by omega
  rw [e3] at h4
  have hloop : run G' (.parameterListLoop [voidParam (s.idx + 1)]) s4 = .ok [voidParam (s.idx + 1)] s5 := by
    obtain ⟨G'', rfl⟩ : ∃ G'', G' = G'' + 1 := ⟨G' - 1, by omega⟩
    show pParameterListLoop (run G'') _ s4 = _
    simp [pParameterListLoop, andM, peekIs, DeclSkel.bnd, h5, DeclSkel.pur]
  have hptl : run (G' + 1) .parameterTypeList s3 = .ok (voidList (s.idx + 1)) s6 := by
    show pParameterTypeList (run G') s3 = _
    have hcf : ∀ st, coordOf (voidParam (s.idx + 1)) st = .ok (tc (s.idx + 1)) st := fun st => rfl
    simp [pParameterTypeList, DeclSkel.bnd, h4, hcf, hloop, andM, peekIs, h6, DeclSkel.pur, voidList]
  have hin : inSet (some "VOID") declStart = true := by decide
  have hnb : ((some k0 : Option String) == some "LBRACE") = false := by simpa using hstop
  show pFunctionDecl (run (G' + 1)) base s = _
  simp only [pFunctionDecl, DeclSkel.bnd, h1, h2, Option.isSome_none, Bool.false_eq_true, ↓reduceIte, startsDeclaration, h3,
    List.head?_cons, Option.map_some, hin, DeclSkel.pur, hptl, h7, hco, h8, hnb]
  rfl

theorem functionDeclPV_proto (pv : PLV) (hwf : WFPLV env.ty pv) (base : Val)
    (hbase : base.isNode = true) (s : PState) (stop : Tk) (rest : List Tk) (hstop : stop.1 ≠ "LBRACE")
    (hs : SeesT env s (("LPAREN", "(") :: (pv.flat ++ ("RPAREN", ")") :: stop :: rest))) (G : Nat)
    (hF : pv.fuel + 1 ≤ G) :
    ∃ s', run (G + 1) (.functionDecl base) s =
        .ok (chainVal [.fn (X.coordOfVal base) (pv.val (s.idx + 1))] .none) s' ∧
      SeesT env s' (stop :: rest) ∧ s'.idx = s.idx + pv.ntoks + 2 := by
  cases pv with
  | named l => exact functionDeclP_proto l hwf base hbase s stop rest hstop hs G hF
  | void =>
    obtain ⟨s', h, hs', hi⟩ := functionDeclV_proto base hbase s stop rest hstop (by simpa [PLV.flat] using hs) G
      (by simpa [PLV.fuel] using hF)
    exact ⟨s', h, hs', by simp only [PLV.ntoks]; omega⟩

/-- what may follow the declarator of a prototype: the end of the declarator list item -/
def EndsProto (k : String) : Prop := k = "SEMI" ∨ k = "COMMA"

/-- **`_parse_declarator`** on `name ( parameters )` in a declaration (a prototype) -/
theorem fdeclarator_proto (f : FD) (hwf : WFPLV env.ty f.params) (s : PState) (stop : Tk) (rest : List Tk)
    (hstop : EndsProto stop.1)
    (hs : SeesT env s (f.flat ++ stop :: rest)) (F : Nat) (hF : f.fuel ≤ F) :
    ∃ s', run F (.declaratorKind .id true) s = .ok (f.di s.idx).raw s' ∧ SeesT env s' (stop :: rest) ∧
      s'.idx = s.idx + f.ntoks := by
  obtain ⟨k0, v0⟩ := stop
  have hk0 : k0 ≠ "LBRACE" ∧ k0 ≠ "LPAREN" ∧ k0 ≠ "LBRACKET" := by
    rcases hstop with h | h <;> simp only at h <;> subst h <;> exact ⟨by decide, by decide, by decide⟩
  obtain ⟨G, rfl⟩ : ∃ G, F = G + 4 := ⟨F - 4, by simp only [FD.fuel] at hF; omega⟩
  simp only [FD.fuel] at hF
  have hs0 : SeesT env s (("ID", f.x) :: ("LPAREN", "(") :: (f.params.flat ++ ("RPAREN", ")") :: (k0, v0) :: rest)) := by
    simpa [FD.flat, List.append_assoc] using hs
  obtain ⟨s1, h1, hs1, hi1, _⟩ := peekType_spec s _ hs0
  obtain ⟨s2, h2, hs2, hi2⟩ := accept_other s1 _ "LPAREN" hs1 (by
    intro k v r h; simp only [List.cons.injEq, Prod.mk.injEq] at h; rw [← h.1.1]; decide)
  obtain ⟨s3, h3, hs3, hi3⟩ := expect_same s2 "ID" f.x _ hs2
  obtain ⟨s4, h4, hs4, hi4, _⟩ := peekType_spec s3 _ hs3
  obtain ⟨s5, h5, hs5, hi5, _⟩ := peekType_spec s4 _ hs4
  have hbase : (tdRaw f.x (tc s.idx)).isNode = true := rfl
  obtain ⟨s6, h6, hs6, hi6⟩ := functionDeclPV_proto f.params hwf (tdRaw f.x (tc s.idx)) hbase s5 (k0, v0) rest hk0.1 hs5 G (by omega)
  obtain ⟨s7, h7, hs7, hi7, _⟩ := peekType_spec s6 _ hs6
  obtain ⟨s8, h8, hs8, hi8, _⟩ := peekType_spec s7 _ hs7
  refine ⟨s8, ?_, hs8, by simp only [FD.ntoks]; omega⟩
  have e5 : s5.idx = s.idx + 1 := by omega
  rw [e5] at h6
  have e2 : s2.idx = s.idx := by omega
  have hco : X.coordOfVal (tdRaw f.x (tc s.idx)) = tc s.idx := rfl
  rw [hco] at h6
  have htm := typeModify_chain [] [.fn (tc s.idx) (f.params.val (s.idx + 2))] (tdRaw f.x (tc s.idx)) (by simp) rfl s6
  simp only [chainVal, List.nil_append] at htm
  have hsuf2 : run (G + 1) (.declSuffixesLoop (chainVal [.fn (tc s.idx) (f.params.val (s.idx + 2))] (tdRaw f.x (tc s.idx)))) s6 =
      .ok (chainVal [.fn (tc s.idx) (f.params.val (s.idx + 2))] (tdRaw f.x (tc s.idx))) s8 := by
    show pDeclSuffixesLoop (run G) _ s6 = _
    simp [pDeclSuffixesLoop, DeclSkel.bnd, h7, h8, DeclSkel.pur, hk0.2.1, hk0.2.2]
  have hsuf1 : run (G + 2) (.declSuffixesLoop (tdRaw f.x (tc s.idx))) s3 =
      .ok (chainVal [.fn (tc s.idx) (f.params.val (s.idx + 2))] (tdRaw f.x (tc s.idx))) s8 := by
    show pDeclSuffixesLoop (run (G + 1)) _ s3 = _
    have h6' : run (G + 1) (.functionDecl (tdRaw f.x (tc s.idx))) s5 =
        .ok (M.wrap (.fn (tc s.idx) (f.params.val (s.idx + 1 + 1))) .none) s6 := h6
    have htm' : typeModifyDecl (tdRaw f.x (tc s.idx)) (M.wrap (.fn (tc s.idx) (f.params.val (s.idx + 1 + 1))) .none) s6 =
        .ok (M.wrap (.fn (tc s.idx) (f.params.val (s.idx + 2))) (tdRaw f.x (tc s.idx))) s6 := htm
    have hsuf2' : run (G + 1) (.declSuffixesLoop (M.wrap (.fn (tc s.idx) (f.params.val (s.idx + 2))) (tdRaw f.x (tc s.idx)))) s6 =
        .ok (chainVal [.fn (tc s.idx) (f.params.val (s.idx + 2))] (tdRaw f.x (tc s.idx))) s8 := hsuf2
    simp [pDeclSuffixesLoop, DeclSkel.bnd, h4, h5, h6', htm', hsuf2']
  have hdir : run (G + 3) (.directDeclarator .id true) s1 =
      .ok (chainVal [.fn (tc s.idx) (f.params.val (s.idx + 2))] (tdRaw f.x (tc s.idx))) s8 := by
    show pDirectDeclarator (run (G + 2)) .id true s1 = _
    simp only [pDirectDeclarator, ↓reduceIte, DeclSkel.bnd, h2, Option.isSome_none, Bool.false_eq_true, h3, tokCoord,
      DeclSkel.pur, e2]
    exact hsuf1
  show pDeclaratorKind (run (G + 3)) .id true s = _
  simp only [pDeclaratorKind, DeclSkel.bnd, h1, List.head?_cons, Option.map_some,
    show ((some "ID" : Option String) == some "TIMES") = false from rfl, Bool.false_eq_true, ↓reduceIte, hdir]
  rfl

end PycModel.Params
