import PycModel.Cpp
/-!
# Include guards work (helper development for `Properties/C19.lean`)

For every header tree in which every file with content has a file-level include guard, and every
list of `#include` lines (any order, any repetition, any nesting): the expansion never emits a
body twice and emits only bodies of files of the tree.
-/
namespace PycModel.Cpp

/-- every file with content of its own has a file-level include guard -/
def GuardedBodies (fs : FS) : Prop := ∀ fd ∈ fs, fd.hasBody = true → fd.guard.isSome = true

/-- what an expansion started with guards `d` may return: guards only grow; every emitted body
belongs to a guarded file whose guard was not yet defined and is defined afterwards; no body twice -/
structure Good (fs : FS) (d : List String) (r : List String × List String) : Prop where
  mono : ∀ g ∈ d, g ∈ r.2
  fresh : ∀ f ∈ r.1, ∃ fd g, lookup fs f = some fd ∧ fd.hasBody = true ∧ fd.guard = some g ∧ g ∈ r.2 ∧ g ∉ d
  nodup : r.1.Nodup

theorem lookup_mem {fs : FS} {f : String} {fd : FileDesc} (h : lookup fs f = some fd) : fd ∈ fs :=
  List.mem_of_find?_eq_some h

theorem good_nil (fs : FS) (d : List String) : Good fs d ([], d) :=
  ⟨fun _ h => h, by simp, by simp⟩

/-- sequencing two good expansions -/
theorem good_seq {fs : FS} {d : List String} {r1 r2 : List String × List String}
    (h1 : Good fs d r1) (h2 : Good fs r1.2 r2) : Good fs d (r1.1 ++ r2.1, r2.2) := by
  refine ⟨fun g hg => h2.mono g (h1.mono g hg), ?_, ?_⟩
  · intro f hf
    rcases List.mem_append.mp hf with hf | hf
    · obtain ⟨fd, g, hl, hb, hg, hin, hnot⟩ := h1.fresh f hf
      exact ⟨fd, g, hl, hb, hg, h2.mono g hin, hnot⟩
    · obtain ⟨fd, g, hl, hb, hg, hin, hnot⟩ := h2.fresh f hf
      exact ⟨fd, g, hl, hb, hg, hin, fun hd => hnot (h1.mono g hd)⟩
  · refine List.nodup_append.mpr ⟨h1.nodup, h2.nodup, ?_⟩
    intro a ha b hb hab
    subst hab
    obtain ⟨fd, g, hl, _, hg, hin, _⟩ := h1.fresh a ha
    obtain ⟨fd', g', hl', _, hg', _, hnot'⟩ := h2.fresh a hb
    rw [hl] at hl'; cases hl'
    rw [hg] at hg'; cases hg'
    exact hnot' hin

mutual
theorem expandFile_good {fs : FS} (hw : GuardedBodies fs) :
    ∀ (fuel : Nat) (d : List String) (f : String), Good fs d (expandFile fs fuel d f)
  | 0, d, f => by simp [expandFile]; exact good_nil fs d
  | fuel+1, d, f => by
    unfold expandFile
    split
    · exact good_nil fs d
    · rename_i fd hl
      split
      · rename_i g hg
        split
        · exact good_nil fs d
        · rename_i hc
          have hnot : g ∉ d := by simpa using hc
          have hi := expandList_good hw fuel (g :: d) fd.includes
          refine ⟨fun x hx => hi.mono x (by simp [hx]), ?_, ?_⟩
          · intro x hx
            rcases List.mem_append.mp hx with hx | hx
            · obtain ⟨fd', g', hl', hb', hg', hin', hnot'⟩ := hi.fresh x hx
              exact ⟨fd', g', hl', hb', hg', hin', fun hd => hnot' (by simp [hd])⟩
            · split at hx
              · rename_i hb
                simp only [List.mem_singleton] at hx
                subst hx
                exact ⟨fd, g, hl, hb, hg, hi.mono g (by simp), hnot⟩
              · simp at hx
          · refine List.nodup_append.mpr ⟨hi.nodup, by split <;> simp, ?_⟩
            intro a ha b hb hab
            subst hab
            split at hb
            · simp only [List.mem_singleton] at hb
              subst hb
              obtain ⟨fd', g', hl', _, hg', _, hnot'⟩ := hi.fresh a ha
              rw [hl] at hl'; cases hl'
              rw [hg] at hg'; cases hg'
              exact hnot' (by simp)
            · simp at hb
      · rename_i hg
        have hnb : fd.hasBody = false := by
          cases hb : fd.hasBody with
          | false => rfl
          | true =>
            have := hw fd (lookup_mem hl) hb
            rw [hg] at this; simp at this
        have hi := expandList_good hw fuel d fd.includes
        simpa [hnb] using hi
theorem expandList_good {fs : FS} (hw : GuardedBodies fs) :
    ∀ (fuel : Nat) (d : List String) (l : List String), Good fs d (expandList fs fuel d l)
  | 0, d, l => by simp [expandList]; exact good_nil fs d
  | fuel+1, d, [] => by simp [expandList]; exact good_nil fs d
  | fuel+1, d, f :: rest => by
    unfold expandList
    exact good_seq (expandFile_good hw fuel d f) (expandList_good hw fuel _ rest)
end

/-- **Include guards work, for every header list.** Whatever headers a file includes, in whatever
order and however often, no body is emitted twice and every emitted body is the content of a file
of the tree that has content. -/
theorem pp_nodup_bodies {fs : FS} (hw : GuardedBodies fs) (hs : List String) :
    (pp fs hs).Nodup ∧ ∀ f ∈ pp fs hs, ∃ fd ∈ fs, fd.name = f ∧ fd.hasBody = true := by
  have h := expandList_good hw (2 * hs.length + 8) [] hs
  refine ⟨h.nodup, ?_⟩
  intro f hf
  obtain ⟨fd, g, hl, hb, _, _, _⟩ := h.fresh f hf
  refine ⟨fd, lookup_mem hl, ?_, hb⟩
  have := List.find?_some hl
  simpa using this

end PycModel.Cpp
