import PycModel.Proofs.LexerTotal
/-!
# The scanner is position-exact (helper development for `Properties/C09.lean`, `C11.lean`)

Ghost relation `Inv text b o st` between the scanner state and the *whole* text (the model's state
only carries the unread suffix), preserved by every branch of the scanning loop that does not
report an error; consequence `scanLoop_exact`: every token returned before the first error report
has exactly the text at its offset as its value, its column counts from the character after the
last preceding newline, and its line is the base line (1, or the one set by the last obeyed
`#line`) plus the newlines since the base offset.
-/
namespace PycModel.LexPos
open PycModel

/-- the text between offsets `a` (inclusive) and `b` (exclusive) -/
def seg (text : List Char) (a b : Nat) : List Char := (text.drop a).take (b - a)

def nlCount (l : List Char) : Nat := l.count '\n'

theorem seg_self (text : List Char) (a : Nat) : seg text a a = [] := by simp [seg]

theorem seg_append (text : List Char) {a b c : Nat} (h1 : a ≤ b) (h2 : b ≤ c) :
    seg text a c = seg text a b ++ seg text b c := by
  unfold seg
  have : c - a = (b - a) + (c - b) := by omega
  rw [this, List.take_add, List.drop_drop]
  have e : a + (b - a) = b := by omega
  rw [e]

theorem seg_step (text : List Char) (p k : Nat) : seg text p (p + k) = (text.drop p).take k := by
  simp [seg]

/-- ghost relation between the scanner state and the whole text: `rest` is the text from `pos`
on; `lineStart` is the offset just after the last newline before `pos`; `lineno` counts the
newlines since offset `o`, which is on line `b` (start of text, or re-based by a `#line`). -/
structure Inv (text : List Char) (b o : Nat) (st : LexState) : Prop where
  rest : st.rest = text.drop st.pos
  ls_le : st.lineStart ≤ st.pos
  ls_nl : '\n' ∉ seg text st.lineStart st.pos
  ls_at : st.lineStart = 0 ∨ text[st.lineStart - 1]? = some '\n' ∨ text.length < st.lineStart
  o_le : o ≤ st.pos
  line : st.lineno = b + nlCount (seg text o st.pos)

/-- what "position-exact" means for a token reported at text offset `off` -/
structure Exact (text : List Char) (b o : Nat) (t : Token) (off : Nat) : Prop where
  /-- exact spelling: the token's value is the text at its offset -/
  spelling : (text.drop off).take t.val.length = t.val.toList
  /-- column: 1 + distance from the character after the last newline before `off` -/
  column : ∃ ls, ls ≤ off ∧ '\n' ∉ seg text ls off ∧ (ls = 0 ∨ text[ls - 1]? = some '\n') ∧
      t.col = off - ls + 1
  /-- line: the base line plus the newlines between the base offset and `off` -/
  line : o ≤ off ∧ t.line = b + nlCount (seg text o off)

theorem inv_init (text : List Char) (file : String) : Inv text 1 0 (LexState.init text file) := by
  constructor <;> simp [LexState.init, seg, nlCount]


theorem nlCount_of_not_mem {l : List Char} (h : '\n' ∉ l) : nlCount l = 0 := by
  simpa [nlCount, List.count_eq_zero] using h

theorem nlCount_append (l m : List Char) : nlCount (l ++ m) = nlCount l + nlCount m := by
  simp [nlCount]

/-- consuming `k` newline-free characters keeps the invariant -/
theorem inv_adv {text : List Char} {b o : Nat} {st : LexState} (h : Inv text b o st) (k : Nat)
    (hk : '\n' ∉ st.rest.take k) :
    Inv text b o { st with rest := st.rest.drop k, pos := st.pos + k } := by
  have hseg : seg text st.pos (st.pos + k) = st.rest.take k := by rw [seg_step, h.rest]
  constructor
  · simp [h.rest, List.drop_drop]
  · simp; have := h.ls_le; omega
  · show '\n' ∉ seg text st.lineStart (st.pos + k)
    rw [seg_append text h.ls_le (Nat.le_add_right _ _), hseg]
    simp only [List.mem_append, not_or]
    exact ⟨h.ls_nl, hk⟩
  · exact h.ls_at
  · show o ≤ st.pos + k; have := h.o_le; omega
  · show st.lineno = b + nlCount (seg text o (st.pos + k))
    rw [seg_append text h.o_le (Nat.le_add_right _ _), hseg, nlCount_append, nlCount_of_not_mem hk]
    simpa using h.line

theorem getElem?_of_drop_cons {text : List Char} {p : Nat} {c : Char} {tl : List Char}
    (h : text.drop p = c :: tl) : text[p]? = some c := by
  have := congrArg List.head? h
  simpa [List.head?_drop] using this

/-- consuming a newline: next line, column origin just after it -/
theorem inv_newline {text : List Char} {b o : Nat} {st : LexState} (h : Inv text b o st)
    {tl : List Char} (hr : st.rest = '\n' :: tl) :
    Inv text b o { st with rest := tl, pos := st.pos + 1, lineno := st.lineno + 1, lineStart := st.pos + 1 } := by
  have hd : text.drop st.pos = '\n' :: tl := by rw [← h.rest, hr]
  have hseg : seg text st.pos (st.pos + 1) = ['\n'] := by rw [seg_step, hd]; simp
  constructor
  · show tl = text.drop (st.pos + 1)
    rw [← List.drop_drop, hd]; simp
  · simp
  · simp [seg_self]
  · right; left; simpa using getElem?_of_drop_cons hd
  · show o ≤ st.pos + 1; have := h.o_le; omega
  · show st.lineno + 1 = b + nlCount (seg text o (st.pos + 1))
    rw [seg_append text h.o_le (Nat.le_add_right _ _), hseg, nlCount_append]
    have := h.line
    simp [nlCount] at *
    omega

/-- a token reported at the current position with the state's line and column is position-exact -/
theorem exact_here {text : List Char} {b o : Nat} {st : LexState} (h : Inv text b o st)
    (hne : st.rest ≠ []) (kind val : String) (hv : st.rest.take val.length = val.toList) :
    Exact text b o ⟨kind, val, st.lineno, st.col st.pos⟩ st.pos := by
  constructor
  · simpa [h.rest] using hv
  · refine ⟨st.lineStart, h.ls_le, h.ls_nl, ?_, rfl⟩
    rcases h.ls_at with h0 | h1 | h2
    · exact .inl h0
    · exact .inr h1
    · exfalso
      apply hne
      rw [h.rest]
      have := h.ls_le
      simp; omega
  · exact ⟨h.o_le, h.line⟩


def isErr : Ev → Bool
  | .err .. => true
  | _ => false

/-- the (line, offset) base in force after a list of events: the last obeyed `#line` re-bases it -/
def baseFrom : Nat × Nat → List Ev → Nat × Nat
  | bo, [] => bo
  | _, .dir n next :: r => baseFrom (n, next) r
  | bo, _ :: r => baseFrom bo r

/-- every token event of `evs` is position-exact (w.r.t. the base `b o`) -/
def ToksExact (text : List Char) (b o : Nat) (evs : List Ev) : Prop :=
  ∀ t off f, Ev.tok t off f ∈ evs → Exact text b o t off

theorem startsWith_take : ∀ (s p : List Char), startsWith s p = true → s.take p.length = p
  | _, [], _ => by simp
  | [], _ :: _, h => by simp [startsWith] at h
  | c :: s, d :: p, h => by
    simp only [startsWith, Bool.and_eq_true, beq_iff_eq] at h
    simp [h.1, startsWith_take s p h.2]

/-- `_match_token` at a state satisfying the invariant: unless it reports an error, it consumes
newline-free text and the token it returns is position-exact -/
theorem matchToken_exact {cfg : LexCfg} (hwf : cfg.wf = true) (isType : String → Bool)
    {text : List Char} {b o : Nat} {st : LexState} (h : Inv text b o st) (hne : st.rest ≠ [])
    (hok : ∀ e ∈ (matchToken cfg isType st).1, isErr e = false) :
    '\n' ∉ st.rest.take (matchToken cfg isType st).2 ∧
    ToksExact text b o (matchToken cfg isType st).1 := by
  unfold matchToken at hok ⊢
  split at hok
  · contradiction
  · rename_i c tl hrest
    have hs := matchBest_spec cfg st.rest
    split at hok
    · simp [isErr] at hok
    · rename_i f hbest
      rw [hbest] at hs
      cases hs with
      | fixed _ bk hb hf hsw =>
        have hw := wf_fixed hwf hb hf
        have ht := startsWith_take _ _ hsw
        refine ⟨by simpa [ht] using hw.2, ?_⟩
        intro t off fl hmem
        simp only [List.mem_singleton, Ev.tok.injEq] at hmem
        obtain ⟨rfl, rfl, rfl⟩ := hmem
        exact exact_here h hne _ _ (by simpa using ht)
    · rename_i r n hbest
      rw [hbest] at hs
      cases hs with
      | regex _ _ hr hn =>
        split at hok
        · rename_i ha
          have hw := wf_rule hwf hr (by rw [ha]; decide)
          refine ⟨ends_avoids _ _ _ hw.2 _ _ hn, ?_⟩
          intro t off fl hmem
          simp only [List.mem_singleton, Ev.tok.injEq] at hmem
          obtain ⟨rfl, rfl, rfl⟩ := hmem
          exact exact_here h hne _ _ (by simp)
        · simp [isErr] at hok
        · rename_i ha
          have hw := wf_rule hwf hr (by rw [ha]; decide)
          refine ⟨ends_avoids _ _ _ hw.2 _ _ hn, ?_⟩
          intro t off fl hmem
          simp only [List.mem_singleton, Ev.tok.injEq] at hmem
          obtain ⟨rfl, rfl, rfl⟩ := hmem
          exact exact_here h hne _ _ (by simp)


theorem matchToken_shape (cfg : LexCfg) (isType : String → Bool) (st : LexState) (hne : st.rest ≠ []) :
    (∃ t off f, (matchToken cfg isType st).1 = [.tok t off f]) ∨
    (∃ m l c off f, (matchToken cfg isType st).1 = [.err m l c off f]) := by
  unfold matchToken
  split
  · contradiction
  · split
    · exact .inr ⟨_, _, _, _, _, rfl⟩
    · exact .inl ⟨_, _, _, rfl⟩
    · split
      · exact .inl ⟨_, _, _, rfl⟩
      · exact .inr ⟨_, _, _, _, _, rfl⟩
      · exact .inl ⟨_, _, _, rfl⟩

theorem skipWs_no_nl : ∀ l : List Char, '\n' ∉ l.take (skipWs l)
  | [] => by simp [skipWs]
  | c :: s => by
    unfold skipWs
    split
    · rename_i hc
      have ih := skipWs_no_nl s
      simp only [List.take_succ_cons, List.mem_cons, not_or]
      refine ⟨?_, ih⟩
      rcases (by simpa using hc : c = ' ' ∨ c = '\t') with rfl | rfl <;> decide
    · simp

theorem lineLen_no_nl : ∀ l : List Char, '\n' ∉ l.take (lineLen l)
  | [] => by simp [lineLen]
  | c :: s => by
    unfold lineLen
    split
    · simp
    · rename_i hc
      have ih := lineLen_no_nl s
      simp only [List.take_succ_cons, List.mem_cons, not_or]
      exact ⟨fun e => hc (by simp [← e]), ih⟩

theorem lineLen_end : ∀ l : List Char, l.drop (lineLen l) = [] ∨ ∃ r, l.drop (lineLen l) = '\n' :: r
  | [] => by simp [lineLen]
  | c :: s => by
    unfold lineLen
    split
    · rename_i hc; right; exact ⟨s, by simp [show c = '\n' by simpa using hc]⟩
    · simpa using lineLen_end s

/-- outcome of one iteration of the scanning loop, relative to the text -/
inductive StepRes (text : List Char) (b o : Nat) (evs : List Ev) (st' : LexState) : Prop
  | clean : (∀ e ∈ evs, isErr e = false) → (∀ e ∈ evs, ∀ n x, e ≠ .dir n x) →
      ToksExact text b o evs → Inv text b o st' → StepRes text b o evs st'
  | error : (∃ e, evs = [e] ∧ isErr e = true) → StepRes text b o evs st'
  | rebased (n x : Nat) : evs = [.dir n x] → Inv text n x st' → StepRes text b o evs st'

theorem toksExact_nil (text b o) : ToksExact text b o [] := by intro _ _ _ h; simp at h

theorem stepLineDirective_res (cfg : LexCfg) {text : List Char} {b o : Nat} {st : LexState}
    (h : Inv text b o st) {tl : List Char} (hr : st.rest = '#' :: tl) :
    StepRes text b o (stepLineDirective cfg st tl).1 (stepLineDirective cfg st tl).2 := by
  have hd : text.drop st.pos = '#' :: tl := by rw [← h.rest, hr]
  have htl : tl = text.drop (st.pos + 1) := by rw [← List.drop_drop, hd]; simp
  unfold stepLineDirective
  simp only
  split
  · rename_i n f _
    refine .rebased n (st.pos + 1 + lineLen tl + 1) rfl ?_
    constructor
    · show tl.drop (lineLen tl + 1) = text.drop (st.pos + 1 + lineLen tl + 1)
      rw [htl, List.drop_drop]; congr 1
    · exact Nat.le_refl _
    · simp [seg_self]
    · right
      show text[st.pos + 1 + lineLen tl + 1 - 1]? = some '\n' ∨ text.length < st.pos + 1 + lineLen tl + 1
      rcases lineLen_end tl with he | ⟨r, he⟩
      · right
        have := congrArg List.length he
        rw [htl] at this
        simp at this
        have h2 : (lineLen tl) = lineLen (List.drop (st.pos + 1) text) := by rw [← htl]
        omega
      · left
        rw [htl, List.drop_drop] at he
        have := getElem?_of_drop_cons he
        rw [← htl] at this
        simpa using this
    · exact Nat.le_refl _
    · simp [seg_self, nlCount]
  · exact .error ⟨_, rfl, rfl⟩
  · exact .error ⟨_, rfl, rfl⟩
  · exact .error ⟨_, rfl, rfl⟩


theorem mem_take_cons_iff {c d : Char} {l : List Char} {k : Nat} :
    c ∈ (d :: l).take (k + 1) ↔ c = d ∨ c ∈ l.take k := by simp

theorem stepPragma_res {text : List Char} {b o : Nat} {st : LexState}
    (h : Inv text b o st) {tl : List Char} (hr : st.rest = '#' :: tl) :
    StepRes text b o (stepPragma st tl).1 (stepPragma st tl).2 := by
  -- state after '#' and the blanks
  have h1 : Inv text b o { st with rest := tl.drop (skipWs tl), pos := st.pos + 1 + skipWs tl } := by
    have := inv_adv h (skipWs tl + 1) (by
      rw [hr]
      simp only [List.take_succ_cons, List.mem_cons, not_or]
      exact ⟨by decide, skipWs_no_nl tl⟩)
    have e1 : st.rest.drop (skipWs tl + 1) = tl.drop (skipWs tl) := by rw [hr]; rfl
    have e2 : st.pos + (skipWs tl + 1) = st.pos + 1 + skipWs tl := by omega
    rw [e1, e2] at this; exact this
  unfold stepPragma
  simp only
  split
  · rename_i hemp
    refine .clean (by simp) (by simp) (toksExact_nil _ _ _) ?_
    simpa [show tl.drop (skipWs tl) = [] by simpa using hemp] using h1
  · rename_i hne1
    split
    · exact .error ⟨_, rfl, rfl⟩
    · rename_i hsw
      have hsw' : startsWith (tl.drop (skipWs tl)) "pragma".toList = true := by simpa using hsw
      have htk := startsWith_take _ _ hsw'
      have hne1' : (tl.drop (skipWs tl)) ≠ [] := by simpa using hne1
      -- PPPRAGMA is exact
      have hlen : "pragma".length = 6 := by decide
      have hx1 := exact_here h1 hne1' "PPPRAGMA" "pragma" (by rw [hlen]; simpa using htk)
      -- state after "pragma"
      have h2a := inv_adv h1 6 (by
        show '\n' ∉ (tl.drop (skipWs tl)).take 6
        have : (tl.drop (skipWs tl)).take 6 = "pragma".toList := by simpa using htk
        rw [this]; decide)
      -- state after the blanks that follow
      have h2 := inv_adv h2a (skipWs ((tl.drop (skipWs tl)).drop 6)) (skipWs_no_nl _)
      simp only at h2
      have hx1' : Exact text b o ⟨"PPPRAGMA", "pragma", st.lineno, st.col (st.pos + 1 + skipWs tl)⟩
          (st.pos + 1 + skipWs tl) := hx1
      clear hx1 h2a h1
      generalize List.drop (skipWs (List.drop 6 (List.drop (skipWs tl) tl))) (List.drop 6 (List.drop (skipWs tl) tl)) = r3 at h2 ⊢
      generalize st.pos + 1 + skipWs tl + 6 + skipWs (List.drop 6 (List.drop (skipWs tl) tl)) = start at h2 ⊢
      -- the pragma text
      have h3 := inv_adv h2 (lineLen r3) (lineLen_no_nl r3)
      simp only at h3
      have hx2 : trimLen (r3.take (lineLen r3)) > 0 → Exact text b o
          ⟨"PPPRAGMASTR", String.ofList (r3.take (trimLen (r3.take (lineLen r3)))), st.lineno, st.col start⟩ start := by
        intro hpos
        have hne3 : r3 ≠ [] := by intro e; rw [e] at hpos; simp [lineLen, trimLen] at hpos
        exact exact_here h2 hne3 _ _ (by simp)
      have hte : ∀ evs : List Ev,
          evs = (if trimLen (r3.take (lineLen r3)) > 0 then
            [Ev.tok ⟨"PPPRAGMA", "pragma", st.lineno, st.col (st.pos + 1 + skipWs tl)⟩ (st.pos + 1 + skipWs tl) st.file,
             Ev.tok ⟨"PPPRAGMASTR", String.ofList (r3.take (trimLen (r3.take (lineLen r3)))), st.lineno, st.col start⟩ start st.file]
          else [Ev.tok ⟨"PPPRAGMA", "pragma", st.lineno, st.col (st.pos + 1 + skipWs tl)⟩ (st.pos + 1 + skipWs tl) st.file]) →
          (∀ e ∈ evs, isErr e = false) ∧ (∀ e ∈ evs, ∀ n x, e ≠ .dir n x) ∧ ToksExact text b o evs := by
        intro evs he
        by_cases hpos : trimLen (r3.take (lineLen r3)) > 0
        · simp only [hpos, ↓reduceIte] at he
          subst he
          refine ⟨by simp [isErr], by simp, ?_⟩
          intro t off f hmem
          simp only [List.mem_cons, Ev.tok.injEq, List.mem_nil_iff, or_false] at hmem
          rcases hmem with ⟨rfl, rfl, rfl⟩ | ⟨rfl, rfl, rfl⟩
          · exact hx1'
          · exact hx2 hpos
        · simp only [hpos, ↓reduceIte] at he
          subst he
          refine ⟨by simp [isErr], by simp, ?_⟩
          intro t off f hmem
          simp only [List.mem_singleton, Ev.tok.injEq] at hmem
          obtain ⟨rfl, rfl, rfl⟩ := hmem
          exact hx1'
      cases hd : List.drop (lineLen r3) r3 with
      | nil =>
        simp only [hd] at h3 ⊢
        obtain ⟨a, b', c⟩ := hte _ rfl
        exact .clean a b' c h3
      | cons c0 r5 =>
        simp only
        rcases lineLen_end r3 with he | ⟨r, he⟩
        · rw [hd] at he; cases he
        · rw [hd] at he
          obtain ⟨rfl, rfl⟩ : c0 = '\n' ∧ r5 = r := by simpa using he
          have h4 := inv_newline h3 (tl := r5) hd
          simp only at h4
          obtain ⟨a, b', c⟩ := hte _ rfl
          exact .clean a b' c h4


/-- one iteration of the scanning loop keeps the text/state relation and reports only
position-exact tokens, unless it reports an error -/
theorem lexStep_res {cfg : LexCfg} (hwf : cfg.wf = true) (isType : String → Bool)
    {text : List Char} {b o : Nat} {st : LexState} (h : Inv text b o st) (hne : st.rest ≠ []) :
    StepRes text b o (lexStep cfg isType st).1 (lexStep cfg isType st).2 := by
  unfold lexStep
  split
  · contradiction
  · rename_i c tl hr
    split
    · rename_i hc
      refine .clean (by simp) (by simp) (toksExact_nil _ _ _) ?_
      have := inv_adv h 1 (by
        rw [hr]; simp only [List.take_succ_cons, List.take_zero, List.mem_singleton]
        rcases (by simpa using hc : c = ' ' ∨ c = '\t') with rfl | rfl <;> decide)
      simpa [hr] using this
    · split
      · rename_i hc
        have hc' : c = '\n' := by simpa using hc
        subst hc'
        exact .clean (by simp) (by simp) (toksExact_nil _ _ _) (inv_newline h hr)
      · split
        · rename_i hc
          have hc' : c = '#' := by simpa using hc
          subst hc'
          split
          · exact stepLineDirective_res cfg h hr
          · split
            · exact stepPragma_res h hr
            · refine .clean (by simp [isErr]) (by simp) ?_ ?_
              · intro t off f hmem
                simp only [List.mem_singleton, Ev.tok.injEq] at hmem
                obtain ⟨rfl, rfl, rfl⟩ := hmem
                exact exact_here h hne "PPHASH" "#" (by rw [hr]; rfl)
              · have := inv_adv h 1 (by rw [hr]; simp)
                simpa [hr] using this
        · rcases matchToken_shape cfg isType st hne with ⟨t, off, f, he⟩ | ⟨m, l, c', off, f, he⟩
          · have hok : ∀ e ∈ (matchToken cfg isType st).1, isErr e = false := by
              rw [he]; simp [isErr]
            obtain ⟨hnl, hex⟩ := matchToken_exact hwf isType h hne hok
            refine .clean hok (by rw [he]; simp) hex ?_
            exact inv_adv h _ hnl
          · exact .error ⟨_, he, rfl⟩

theorem baseFrom_clean (bo : Nat × Nat) (evs : List Ev) (h : ∀ e ∈ evs, ∀ n x, e ≠ .dir n x) :
    baseFrom bo evs = bo := by
  induction evs with
  | nil => rfl
  | cons e r ih =>
    have hr := ih (fun e' he' => h e' (by simp [he']))
    cases e with
    | dir n x => exact absurd rfl (h _ (by simp) n x)
    | _ => simpa [baseFrom] using hr

theorem baseFrom_append (bo : Nat × Nat) (l m : List Ev) :
    baseFrom bo (l ++ m) = baseFrom (baseFrom bo l) m := by
  induction l generalizing bo with
  | nil => rfl
  | cons e r ih => cases e <;> simp [baseFrom, ih]

/-- **Position exactness of the scanner, all texts.** In the event stream of the scanning loop
started in a state related to `text`, every token that is returned before the first error report
is position-exact with respect to the base established by the preceding `#line` directives. -/
theorem scanLoop_exact {cfg : LexCfg} (hwf : cfg.wf = true) (isType : String → Bool) (text : List Char) :
    ∀ (fuel : Nat) (st : LexState) (b o : Nat), Inv text b o st →
    ∀ (pre : List Ev) (t : Token) (off : Nat) (f : String) (post : List Ev),
      scanLoop cfg isType fuel st = pre ++ .tok t off f :: post →
      (∀ e ∈ pre, isErr e = false) →
      Exact text (baseFrom (b, o) pre).1 (baseFrom (b, o) pre).2 t off := by
  intro fuel
  induction fuel with
  | zero =>
    intro st b o _ pre t off f post heq _
    simp only [scanLoop] at heq
    have := congrArg List.length heq
    cases pre <;> simp at heq
  | succ n ih =>
    intro st b o hinv pre t off f post heq hpre
    unfold scanLoop at heq
    split at heq
    · cases pre <;> simp at heq
    · rename_i hne
      have hne' : st.rest ≠ [] := by simpa using hne
      have hres := lexStep_res hwf isType hinv hne'
      have hsh := lexStep_shrinks hwf isType st hne'
      simp only [hsh, ↓reduceIte] at heq
      generalize (lexStep cfg isType st).1 = evs at heq hres
      generalize (lexStep cfg isType st).2 = st' at heq hres
      -- where does the token sit: in this step's events or later?
      rcases List.append_eq_append_iff.mp heq with ⟨m, hm1, hm2⟩ | ⟨m, hm1, hm2⟩
      · -- pre = evs ++ m : the token comes from a later iteration
        subst hm1
        rw [baseFrom_append]
        cases hres with
        | clean _ hnd _ hinv' =>
          rw [baseFrom_clean _ _ hnd]
          exact ih st' b o hinv' m t off f post hm2 (fun e he => hpre e (by simp [he]))
        | error he =>
          obtain ⟨e, rfl, hee⟩ := he
          have := hpre e (by simp)
          rw [hee] at this; cases this
        | rebased n' x he hinv' =>
          subst he
          exact ih st' n' x hinv' m t off f post hm2 (fun e he => hpre e (by simp [he]))
      · -- evs = pre ++ m, m ++ tail = tok :: post
        cases m with
        | nil =>
          simp only [List.append_nil] at hm1
          subst hm1
          simp only [List.nil_append] at hm2
          cases hres with
          | clean _ hnd _ hinv' =>
            rw [baseFrom_clean _ _ hnd]
            exact ih st' b o hinv' [] t off f post hm2.symm (by simp)
          | error he =>
            obtain ⟨e, rfl, hee⟩ := he
            have := hpre e (by simp)
            rw [hee] at this; cases this
          | rebased n' x he hinv' =>
            subst he
            exact ih st' n' x hinv' [] t off f post hm2.symm (by simp)
        | cons e m' =>
          simp only [List.cons_append, List.cons.injEq] at hm2
          obtain ⟨rfl, _⟩ := hm2
          cases hres with
          | clean _ hnd hex _ =>
            have hnd' : ∀ e ∈ pre, ∀ n x, e ≠ .dir n x := fun e he => hnd e (by rw [hm1]; simp [he])
            rw [baseFrom_clean _ _ hnd']
            exact hex t off f (by rw [hm1]; simp)
          | error he =>
            obtain ⟨e, he1, hee⟩ := he
            rw [hm1] at he1
            cases pre with
            | nil => simp at he1; rw [← he1.1] at hee; simp [isErr] at hee
            | cons a r => simp at he1
          | rebased n' x he _ =>
            rw [hm1] at he
            cases pre with
            | nil => simp at he
            | cons a r => simp at he

end PycModel.LexPos
