import PycModel.Regex
/-! Generic facts about the backtracking matcher, for every pattern and every input. -/
namespace PycModel

theorem repEnds_le (body : List Char → List Nat)
    (hb : ∀ s n, n ∈ body s → n ≤ s.length) :
    ∀ fuel mn mx s n, n ∈ repEnds body fuel mn mx s → n ≤ s.length := by
  intro fuel
  induction fuel with
  | zero => intro mn mx s n h; simp only [repEnds] at h; split at h <;> simp_all
  | succ f ih =>
    intro mn mx s n h
    simp only [repEnds, List.mem_append] at h
    rcases h with h | h
    · split at h
      · simp at h
      · simp only [List.mem_flatMap, List.mem_filter, List.mem_map] at h
        obtain ⟨k, ⟨hk, _⟩, m, hm, rfl⟩ := h
        have h1 := hb s k hk
        have h2 := ih _ _ _ _ hm
        simp only [List.length_drop] at h2
        omega
    · split at h <;> simp_all

theorem ends_le (u : UniCfg) : ∀ (r : Re) (s : List Char) (n : Nat), n ∈ ends u r s → n ≤ s.length := by
  intro r
  induction r with
  | eps => intro s n h; simp [ends] at h; omega
  | fail => intro s n h; simp [ends] at h
  | cls neg items =>
    intro s n h
    cases s with
    | nil => simp [ends] at h
    | cons c t => simp only [ends] at h; split at h <;> simp_all
  | seq a b iha ihb =>
    intro s n h
    simp only [ends, List.mem_flatMap, List.mem_map] at h
    obtain ⟨k, hk, m, hm, rfl⟩ := h
    have h1 := iha s k hk
    have h2 := ihb _ m hm
    simp only [List.length_drop] at h2
    omega
  | alt a b iha ihb =>
    intro s n h
    simp only [ends, List.mem_append] at h
    rcases h with h | h
    · exact iha s n h
    · exact ihb s n h
  | rep mn mx r ih =>
    intro s n h
    simp only [ends] at h
    exact repEnds_le _ ih _ _ _ _ _ h
  | nla r _ => intro s n h; simp only [ends] at h; split at h <;> simp_all
  | eos => intro s n h; simp only [ends] at h; split at h <;> simp_all

theorem repEnds_ge (body : List Char → List Nat) (k : Nat)
    (hb : ∀ s n, n ∈ body s → k ≤ n) :
    ∀ fuel mn mx s n, n ∈ repEnds body fuel mn mx s → mn * k ≤ n := by
  intro fuel
  induction fuel with
  | zero =>
    intro mn mx s n h; simp only [repEnds] at h
    split at h
    · simp_all
    · simp at h
  | succ f ih =>
    intro mn mx s n h
    simp only [repEnds, List.mem_append] at h
    rcases h with h | h
    · split at h
      · simp at h
      · simp only [List.mem_flatMap, List.mem_filter, List.mem_map] at h
        obtain ⟨j, ⟨hj, _⟩, m, hm, rfl⟩ := h
        have h1 := hb s j hj
        have h2 := ih _ _ _ _ hm
        cases mn with
        | zero => simp
        | succ mn' =>
          simp only [Nat.add_sub_cancel] at h2
          rw [Nat.succ_mul]; omega
    · split at h
      · simp_all
      · simp at h

theorem ends_ge_minLen (u : UniCfg) : ∀ (r : Re) (s : List Char) (n : Nat), n ∈ ends u r s → r.minLen ≤ n := by
  intro r
  induction r with
  | eps => intro s n h; simp [Re.minLen]
  | fail => intro s n h; simp [ends] at h
  | cls neg items =>
    intro s n h
    cases s with
    | nil => simp [ends] at h
    | cons c t => simp only [ends] at h; split at h <;> simp_all [Re.minLen]
  | seq a b iha ihb =>
    intro s n h
    simp only [ends, List.mem_flatMap, List.mem_map] at h
    obtain ⟨k, hk, m, hm, rfl⟩ := h
    have h1 := iha s k hk
    have h2 := ihb _ m hm
    simp only [Re.minLen]; omega
  | alt a b iha ihb =>
    intro s n h
    simp only [ends, List.mem_append] at h
    simp only [Re.minLen]
    rcases h with h | h
    · have := iha s n h; omega
    · have := ihb s n h; omega
  | rep mn mx r ih =>
    intro s n h
    simp only [ends] at h
    simp only [Re.minLen]
    exact repEnds_ge _ _ ih _ _ _ _ _ h
  | nla r _ => intro s n h; simp [Re.minLen]
  | eos => intro s n h; simp [Re.minLen]

/-- a character the pattern avoids does not occur in the matched prefix -/
theorem repEnds_avoids (body : List Char → List Nat) (c : Char)
    (hb : ∀ s n, n ∈ body s → c ∉ s.take n) :
    ∀ fuel mn mx s n, n ∈ repEnds body fuel mn mx s → c ∉ s.take n := by
  intro fuel
  induction fuel with
  | zero => intro mn mx s n h; simp only [repEnds] at h; split at h <;> simp_all
  | succ f ih =>
    intro mn mx s n h
    simp only [repEnds, List.mem_append] at h
    rcases h with h | h
    · split at h
      · simp at h
      · simp only [List.mem_flatMap, List.mem_filter, List.mem_map] at h
        obtain ⟨j, ⟨hj, _⟩, m, hm, rfl⟩ := h
        have h1 := hb s j hj
        have h2 := ih _ _ _ _ hm
        rw [List.take_add]
        simp only [List.mem_append, not_or]
        exact ⟨h1, h2⟩
    · split at h <;> simp_all

theorem cc_excludes (u : UniCfg) (c : Char) (i : CC) (h : i.excludes u c = true) : i.test u c = false := by
  cases i <;> simp_all [CC.excludes, CC.test]
  case ch d => intro hcd; exact h hcd.symm
  case range lo hi =>
    intro h1
    rcases h with h | h
    · exact absurd h1 (UInt32.not_le.mpr h)
    · exact h

theorem ends_avoids (u : UniCfg) (c : Char) : ∀ (r : Re), r.avoids u c = true →
    ∀ (s : List Char) (n : Nat), n ∈ ends u r s → c ∉ s.take n := by
  intro r
  induction r with
  | eps => intro _ s n h; simp [ends] at h; simp [h]
  | fail => intro _ s n h; simp [ends] at h
  | cls neg items =>
    intro hav s n h
    cases s with
    | nil => simp [ends] at h
    | cons d t =>
      simp only [ends] at h
      split at h
      · rename_i ht
        simp only [List.mem_singleton] at h
        subst h
        simp only [List.take_succ_cons, List.take_zero, List.mem_singleton]
        intro hcd
        subst hcd
        cases neg with
        | false =>
          simp only [Re.avoids, List.all_eq_true] at hav
          simp only [clsTest, bne_iff_ne, ne_eq, Bool.not_eq_false, List.any_eq_true] at ht
          obtain ⟨i, hi, hti⟩ := ht
          have := cc_excludes u c i (hav i hi)
          simp_all
        | true =>
          simp only [Re.avoids, List.any_eq_true] at hav
          obtain ⟨i, hi, hic⟩ := hav
          have : i = .ch c := by simpa using hic
          subst this
          simp only [clsTest, bne_iff_ne, ne_eq, Bool.not_eq_true, List.any_eq_false] at ht
          have := ht _ hi
          simp [CC.test] at this
      · simp at h
  | seq a b iha ihb =>
    intro hav s n h
    simp only [Re.avoids, Bool.and_eq_true] at hav
    simp only [ends, List.mem_flatMap, List.mem_map] at h
    obtain ⟨k, hk, m, hm, rfl⟩ := h
    have h1 := iha hav.1 s k hk
    have h2 := ihb hav.2 _ m hm
    rw [List.take_add]
    simp only [List.mem_append, not_or]
    exact ⟨h1, h2⟩
  | alt a b iha ihb =>
    intro hav s n h
    simp only [Re.avoids, Bool.and_eq_true] at hav
    simp only [ends, List.mem_append] at h
    rcases h with h | h
    · exact iha hav.1 s n h
    · exact ihb hav.2 s n h
  | rep mn mx r ih =>
    intro hav s n h
    simp only [Re.avoids] at hav
    simp only [ends] at h
    exact repEnds_avoids _ c (ih hav) _ _ _ _ _ h
  | nla r _ => intro _ s n h; simp only [ends] at h; split at h <;> simp_all
  | eos => intro _ s n h; simp only [ends] at h; split at h <;> simp_all

theorem reMatch_mem (u : UniCfg) (r : Re) (s : List Char) (n : Nat) (h : reMatch u r s = some n) :
    n ∈ ends u r s := by
  simp only [reMatch] at h
  exact List.mem_of_head? h

end PycModel
