import PycModel.Proofs.BuildDecl
import PycModel.Proofs.Init
/-!
# Declarations, from tokens to `Decl` nodes

`_parse_declaration_specifiers`, `_parse_any_declarator` (with its look-ahead scan and `_reset`),
`_parse_init_declarator(_list)`, `_parse_decl_body` and `_parse_declaration`, symbolically executed
on the token view for declarations of the fragment

    specifiers  declarator [= assignment-expression] {, declarator [= assignment-expression]} ;

where the specifiers are type qualifiers, storage classes (not `typedef`), function specifiers,
type keywords and typedef names (at least one type specifier), and every declarator is a named
declarator of `DeclSkel.D` (pointers with qualifiers, grouping parentheses, array and `()`
suffixes, any length).  Typedef names of the static environment may be used as specifiers; the
declared names must not be typedef names.
-/
namespace PycModel.DeclParse
open PycModel PycModel.View PycModel.OperandId PycModel.FullExpr PycModel.TypeModify PycModel.DeclSkel PycModel.BuildDecl

variable {env : Env}

/-! ## declaration specifiers -/

def quals3 : List String := ["CONST", "RESTRICT", "VOLATILE"]
def storage5 : List String := ["AUTO", "REGISTER", "STATIC", "EXTERN", "_THREAD_LOCAL"]

/-- is this specifier token a type specifier (keyword or typedef name)? -/
def isTypeTok (t : Tk) : Bool := typeSpecSimple.contains t.1 || t.1 == "TYPEID"

/-- specifier tokens of the fragment; a typedef name is a specifier only while no type specifier
has been seen (`sawType`) -/
def SpecToks : Bool → List Tk → Prop
  | _, [] => True
  | saw, t :: r =>
    (t.1 ∈ quals3 ∨ t.1 ∈ storage5 ∨ t.1 ∈ functionSpec ∨ t.1 ∈ typeSpecSimple ∨ (t.1 = "TYPEID" ∧ saw = false)) ∧
      SpecToks (saw || isTypeTok t) r

/-- what one specifier token adds to `_DeclSpec` (`n`: its position) -/
def addTok (n : Nat) (sp : DeclSpec) (t : Tk) : DeclSpec :=
  if typeQualifier.contains t.1 then { sp with qual := sp.qual ++ [.str t.2] }
  else if storageClass.contains t.1 then { sp with storage := sp.storage ++ [.str t.2] }
  else if functionSpec.contains t.1 then { sp with function := sp.function ++ [.str t.2] }
  else { sp with type := sp.type ++ [identType (tc n) [t.2]] }

def foldSpec : Nat → DeclSpec → List Tk → DeclSpec
  | _, sp, [] => sp
  | n, sp, t :: r => foldSpec (n + 1) (addTok n sp t) r

def sawAfter : Bool → List Tk → Bool
  | saw, [] => saw
  | saw, t :: r => sawAfter (saw || isTypeTok t) r

theorem kinds_facts : ∀ k ∈ quals3 ++ storage5 ++ functionSpec ++ typeSpecSimple ++ ["TYPEID"],
    k ≠ "_ALIGNAS" ∧ k ≠ "_ATOMIC" := by decide

theorem quals3_facts : ∀ k ∈ quals3, k ∈ typeQualifier := by decide
theorem storage5_facts : ∀ k ∈ storage5, k ∉ typeQualifier ∧ k ∈ storageClass := by decide
theorem funcspec_facts : ∀ k ∈ functionSpec, k ∉ typeQualifier ∧ k ∉ storageClass := by decide
theorem tkw_facts : ∀ k ∈ typeSpecSimple, k ∉ typeQualifier ∧ k ∉ storageClass ∧ k ∉ functionSpec := by decide
theorem typeid_facts : "TYPEID" ∉ typeQualifier ∧ "TYPEID" ∉ storageClass ∧ "TYPEID" ∉ functionSpec ∧
    "TYPEID" ∉ typeSpecSimple := by decide

/-- what may follow the specifiers: nothing that the specifier loop would take -/
def FollowSpec (rest : List Tk) : Prop := ∀ k v r, rest = (k, v) :: r → k ∉ declStart

theorem notDeclStart_facts (k : String) (h : k ∉ declStart) :
    k ≠ "_ALIGNAS" ∧ k ≠ "_ATOMIC" ∧ k ∉ typeQualifier ∧ k ∉ storageClass ∧ k ∉ functionSpec ∧ k ∉ typeSpecSimple ∧
    k ≠ "TYPEID" ∧ k ≠ "STRUCT" ∧ k ≠ "UNION" ∧ k ≠ "ENUM" := by
  simp only [declStart, List.mem_append, not_or] at h
  obtain ⟨⟨⟨⟨h1, h2⟩, h3⟩, h4⟩, h5⟩ := h
  simp only [List.mem_cons, List.not_mem_nil, or_false, not_or] at h5
  exact ⟨h5.2.2.2.2.1, h5.2.2.2.2.2, h3, h1, h2, h4, h5.1, h5.2.1, h5.2.2.1, h5.2.2.2.1⟩

theorem firstOr_some (c : Coord) (tok : PTok) (s : PState) : firstOr (some c) tok s = .ok (some c) s := rfl
theorem firstOr_none (tok : PTok) (s : PState) : firstOr none tok s = .ok (some ⟨"", tok.idx, some (tok.idx + 1)⟩) s := rfl

/-- the coordinate `_parse_declaration_specifiers` reports: that of the first specifier -/
def firstCoord (first : Option Coord) (n : Nat) : List Tk → Option Coord
  | [] => first
  | _ :: _ => match first with | some c => some c | none => tc n

/-- **`_parse_declaration_specifiers`**: every specifier lands in its own list, in source order -/
theorem specs_loop : ∀ (l : List Tk) (sp : DeclSpec) (isSome : Bool) (saw : Bool) (first : Option Coord)
    (s : PState) (rest : List Tk) (F : Nat), SpecToks saw l → FollowSpec rest → SeesT env s (l ++ rest) → l.length + 1 ≤ F →
    (isSome = false → sp = {}) →
    ∃ s', run F (.declSpecsLoop (if isSome then some sp else none) saw first) s =
        .ok (if isSome || !l.isEmpty then some (foldSpec s.idx sp l) else none, sawAfter saw l, firstCoord first s.idx l) s' ∧
      SeesT env s' rest ∧ s'.idx = s.idx + l.length
  | [], sp, isSome, saw, first, s, rest, F, _, hfo, hs, hF, _ => by
    obtain ⟨G, rfl⟩ : ∃ G, F = G + 1 := ⟨F - 1, by simp at hF; omega⟩
    have hs0 : SeesT env s rest := by simpa using hs
    cases rest with
    | nil =>
      obtain ⟨s1, h1, hs1, _, hi1, _⟩ := peek_end s hs0
      refine ⟨s1, ?_, hs1, by simpa using hi1⟩
      show pDeclSpecsLoop (run G) _ saw first s = _
      simp [pDeclSpecsLoop, DeclSkel.bnd, h1, DeclSkel.pur, foldSpec, sawAfter, firstCoord]
    | cons t r =>
      obtain ⟨k, v⟩ := t
      obtain ⟨s1, h1, hs1, _, hi1, _⟩ := peek_spec s k v r hs0
      obtain ⟨n1, n2, n3, n4, n5, n6, n7, n8, n9, n10⟩ := notDeclStart_facts k (hfo k v r rfl)
      refine ⟨s1, ?_, hs1, by simpa using hi1⟩
      show pDeclSpecsLoop (run G) _ saw first s = _
      simp [pDeclSpecsLoop, DeclSkel.bnd, h1, DeclSkel.pur, foldSpec, sawAfter, firstCoord, n1, n2, n3, n4, n5, n6, n7, n8, n9, n10,
        andM]
  | (k, v) :: l, sp, isSome, saw, first, s, rest, F, hl, hfo, hs, hF, hsp => by
    obtain ⟨G, rfl⟩ : ∃ G, F = G + 1 := ⟨F - 1, by simp at hF; omega⟩
    have hs0 : SeesT env s ((k, v) :: (l ++ rest)) := by simpa using hs
    obtain ⟨s1, h1, hs1, _, hi1, _⟩ := peek_spec s k v _ hs0
    obtain ⟨s2, h2, hs2, _, hi2, _⟩ := advance_spec s1 k v _ hs1
    obtain ⟨hk, hl'⟩ := hl
    have hmem : k ∈ quals3 ++ storage5 ++ functionSpec ++ typeSpecSimple ++ ["TYPEID"] := by
      simp only [List.mem_append, List.mem_singleton]
      rcases hk with h | h | h | h | h
      · exact .inl (.inl (.inl (.inl h)))
      · exact .inl (.inl (.inl (.inr h)))
      · exact .inl (.inl (.inr h))
      · exact .inl (.inr h)
      · exact .inr h.1
    obtain ⟨na, nb⟩ := kinds_facts k hmem
    -- the state of the next round
    have hsp' : addSpec (if isSome then some sp else none) (fun x => x) = some sp := by
      cases isSome with
      | true => rfl
      | false => rw [hsp rfl]; rfl
    obtain ⟨s3, h3, hs3, hi3⟩ := specs_loop l (addTok s.idx sp (k, v)) true (saw || isTypeTok (k, v))
      (firstCoord first s.idx ((k, v) :: l)) s2 rest G hl' hfo hs2 (by simp at hF ⊢; omega) (by intro h; cases h)
    refine ⟨s3, ?_, hs3, by simp; omega⟩
    have e2 : s2.idx = s.idx + 1 := by omega
    rw [e2] at h3
    have hfc : firstCoord (firstCoord first s.idx ((k, v) :: l)) (s.idx + 1) l = firstCoord first s.idx ((k, v) :: l) := by
      cases l <;> cases first <;> rfl
    rw [hfc] at h3
    have hfirst : ∀ st, firstOr first ⟨k, v, s.idx⟩ st = .ok (firstCoord first s.idx ((k, v) :: l)) st := by
      intro st
      cases first with
      | some c => rfl
      | none => rfl
    have hopt : (if (isSome || !((k, v) :: l).isEmpty) = true then some (foldSpec s.idx sp ((k, v) :: l)) else none) =
        (if (true || !l.isEmpty) = true then some (foldSpec (s.idx + 1) (addTok s.idx sp (k, v)) l) else none) := by
      simp [foldSpec]
    rw [hopt]
    simp only [Bool.true_or, ↓reduceIte] at h3 ⊢
    show pDeclSpecsLoop (run G) _ saw first s = _
    have hi1' : s1.idx = s.idx := hi1
    rw [hi1'] at h2
    rcases hk with h | h | h | h | h
    · have f1 := quals3_facts k h
      have hadd : addSpec (if isSome then some sp else none) (fun x => { x with qual := x.qual ++ [.str v] }) =
          some (addTok s.idx sp (k, v)) := by
        cases isSome with
        | true => simp [addSpec, addTok, f1]
        | false => rw [hsp rfl]; simp [addSpec, addTok, f1]
      have hsaw : (saw || isTypeTok (k, v)) = saw := by
        have : isTypeTok (k, v) = false := by
          revert h; simp only [isTypeTok, quals3]; intro h
          simp only [List.mem_cons, List.not_mem_nil, or_false] at h
          rcases h with rfl | rfl | rfl <;> decide
        simp [this]
      rw [hsaw] at h3
      simp [pDeclSpecsLoop, DeclSkel.bnd, h1, DeclSkel.pur, na, nb, andM, f1, hfirst, h2]
      rw [hadd]; simp only [sawAfter, hsaw]; exact h3
    · obtain ⟨f1, f2⟩ := storage5_facts k h
      have hadd : addSpec (if isSome then some sp else none) (fun x => { x with storage := x.storage ++ [.str v] }) =
          some (addTok s.idx sp (k, v)) := by
        cases isSome with
        | true => simp [addSpec, addTok, f1, f2]
        | false => rw [hsp rfl]; simp [addSpec, addTok, f1, f2]
      have hsaw : (saw || isTypeTok (k, v)) = saw := by
        have : isTypeTok (k, v) = false := by
          revert h; simp only [isTypeTok, storage5]; intro h
          simp only [List.mem_cons, List.not_mem_nil, or_false] at h
          rcases h with rfl | rfl | rfl | rfl | rfl <;> decide
        simp [this]
      rw [hsaw] at h3
      simp [pDeclSpecsLoop, DeclSkel.bnd, h1, DeclSkel.pur, na, nb, andM, f1, f2, hfirst, h2]
      rw [hadd]; simp only [sawAfter, hsaw]; exact h3
    · obtain ⟨f1, f2⟩ := funcspec_facts k h
      have f3 := h
      have hadd : addSpec (if isSome then some sp else none) (fun x => { x with function := x.function ++ [.str v] }) =
          some (addTok s.idx sp (k, v)) := by
        cases isSome with
        | true => simp [addSpec, addTok, f1, f2, f3]
        | false => rw [hsp rfl]; simp [addSpec, addTok, f1, f2, f3]
      have hsaw : (saw || isTypeTok (k, v)) = saw := by
        have : isTypeTok (k, v) = false := by
          revert h; simp only [isTypeTok, functionSpec]; intro h
          simp only [List.mem_cons, List.not_mem_nil, or_false] at h
          rcases h with rfl | rfl <;> decide
        simp [this]
      rw [hsaw] at h3
      simp [pDeclSpecsLoop, DeclSkel.bnd, h1, DeclSkel.pur, na, nb, andM, f1, f2, f3, hfirst, h2]
      rw [hadd]; simp only [sawAfter, hsaw]; exact h3
    · obtain ⟨f1, f2, f3⟩ := tkw_facts k h
      have f4 := h
      have hadd : addSpec (if isSome then some sp else none)
          (fun x => { x with type := x.type ++ [mk .IdentifierType (some ⟨"", s.idx, some (s.idx + 1)⟩) [Val.strs [v]]] }) =
          some (addTok s.idx sp (k, v)) := by
        cases isSome with
        | true => simp [addSpec, addTok, f1, f2, f3, identType, tc]
        | false => rw [hsp rfl]; simp [addSpec, addTok, f1, f2, f3, identType, tc]
      have hsaw : (saw || isTypeTok (k, v)) = true := by simp [isTypeTok, f4]
      rw [hsaw] at h3
      simp [pDeclSpecsLoop, DeclSkel.bnd, h1, DeclSkel.pur, na, nb, andM, f1, f2, f3, f4, hfirst, h2, identTypeOf, tokCoord]
      rw [hadd]; simp only [sawAfter, hsaw]; exact h3
    · obtain ⟨rfl, hsawf⟩ := h
      obtain ⟨f1, f2, f3, f4⟩ := typeid_facts
      have hadd : addSpec (if isSome then some sp else none)
          (fun x => { x with type := x.type ++ [mk .IdentifierType (some ⟨"", s.idx, some (s.idx + 1)⟩) [Val.strs [v]]] }) =
          some (addTok s.idx sp ("TYPEID", v)) := by
        cases isSome with
        | true => simp [addSpec, addTok, f1, f2, f3, identType, tc]
        | false => rw [hsp rfl]; simp [addSpec, addTok, f1, f2, f3, identType, tc]
      have hsaw : (saw || isTypeTok ("TYPEID", v)) = true := by simp [isTypeTok]
      rw [hsaw] at h3
      subst hsawf
      simp [pDeclSpecsLoop, DeclSkel.bnd, h1, DeclSkel.pur, andM, f1, f2, f3, f4, hfirst, h2, identTypeOf, tokCoord]
      rw [hadd]; simp only [sawAfter, hsaw]; exact h3

/-! ## `_parse_any_declarator`: the look-ahead scan, the reset, the declarator -/

/-- declarators without grouping parentheses -/
def NoParen : D → Prop
  | .name _ => True
  | .paren _ => False
  | .ptr _ d => NoParen d
  | .arr d _ => NoParen d
  | .fn0 d => NoParen d

def dStars : D → List (List Tk)
  | .ptr st d => st ++ dStars d
  | .arr d _ => dStars d
  | .fn0 d => dStars d
  | _ => []

def dName : D → String
  | .name x => x
  | .paren d => dName d
  | .ptr _ d => dName d
  | .arr d _ => dName d
  | .fn0 d => dName d

def dPost : D → List Tk
  | .arr d dim => dPost d ++ ("LBRACKET", "[") :: (oflat dim ++ [("RBRACKET", "]")])
  | .fn0 d => dPost d ++ [("LPAREN", "("), ("RPAREN", ")")]
  | .ptr _ d => dPost d
  | _ => []

theorem starsFlat_append : ∀ a b : List (List Tk), starsFlat (a ++ b) = starsFlat a ++ starsFlat b
  | [], b => rfl
  | q :: a, b => by simp [starsFlat, starsFlat_append a b]

theorem starsNtoks_append : ∀ a b : List (List Tk), starsNtoks (a ++ b) = starsNtoks a + starsNtoks b
  | [], b => by simp [starsNtoks]
  | q :: a, b => by simp [starsNtoks, starsNtoks_append a b]; omega

/-- stars and qualifiers, then the name, then the suffixes -/
theorem flat_noParen {d : D} (hwf : WFD d) (hn : NoParen d) :
    d.flat = starsFlat (dStars d) ++ ("ID", dName d) :: dPost d := by
  induction hwf with
  | name x => rfl
  | paren d _ _ => exact absurd hn (by simp [NoParen])
  | ptr stars d _ _ hwd hdir ih =>
    have := ih hn
    simp only [D.flat, dStars, dName, dPost, starsFlat_append, this, List.append_assoc]
  | arr d dim hwd hdir _ ih =>
    have := ih hn
    have hst : dStars d = [] ∨ True := .inr trivial
    simp only [D.flat, dStars, dName, dPost, this, List.append_assoc, List.cons_append]
  | fn0 d hwd hdir ih =>
    have := ih hn
    simp only [D.flat, dStars, dName, dPost, this, List.append_assoc, List.cons_append]

theorem dStars_quals {d : D} (hwf : WFD d) : ∀ q ∈ dStars d, ∀ t ∈ q, t.1 ∈ typeQualifier := by
  induction hwf with
  | name x => intro q hq; simp [dStars] at hq
  | paren d _ _ => intro q hq; simp [dStars] at hq
  | ptr stars d _ hq' _ _ ih =>
    intro q hq
    simp only [dStars, List.mem_append] at hq
    rcases hq with h | h
    · exact hq' q h
    · exact ih q h
  | arr d dim _ _ _ ih => exact ih
  | fn0 d _ _ ih => exact ih

/-- `while tok is a type qualifier: advance` of the scan -/
theorem scanQuals_loop : ∀ (q : List Tk) (s : PState) (rest : List Tk) (F : Nat),
    (∀ t ∈ q, t.1 ∈ typeQualifier) → (∀ k v r, rest = (k, v) :: r → k ∉ typeQualifier) →
    SeesT env s (q ++ rest) → q.length + 1 ≤ F →
    ∃ s', run F .scanQuals s = .ok () s' ∧ SeesT env s' rest ∧ s'.idx = s.idx + q.length
  | [], s, rest, F, _, hrest, hs, hF => by
    obtain ⟨G, rfl⟩ : ∃ G, F = G + 1 := ⟨F - 1, by simp at hF; omega⟩
    have hs0 : SeesT env s rest := by simpa using hs
    obtain ⟨s1, h1, hs1, hi1, _⟩ := peekType_spec s _ hs0
    have hset : inSet (rest.head?.map (·.1)) typeQualifier = false := by
      cases rest with
      | nil => rfl
      | cons t r => obtain ⟨k, v⟩ := t; exact not_mem_inSet (hrest k v r rfl)
    refine ⟨s1, ?_, hs1, by simpa using hi1⟩
    show pScanQuals (run G) s = _
    simp [pScanQuals, DeclSkel.bnd, h1, hset, DeclSkel.pur]
  | (k, v) :: q, s, rest, F, hq, hrest, hs, hF => by
    obtain ⟨G, rfl⟩ : ∃ G, F = G + 1 := ⟨F - 1, by simp at hF; omega⟩
    have hs0 : SeesT env s ((k, v) :: (q ++ rest)) := by simpa using hs
    obtain ⟨s1, h1, hs1, hi1, _⟩ := peekType_spec s _ hs0
    obtain ⟨s2, h2, hs2, _, hi2, _⟩ := advance_spec s1 k v _ hs1
    have hset : inSet (some k) typeQualifier = true := mem_inSet (hq (k, v) List.mem_cons_self)
    obtain ⟨s3, h3, hs3, hi3⟩ := scanQuals_loop q s2 rest G (fun t ht => hq t (List.mem_cons_of_mem _ ht)) hrest hs2
      (by simp at hF ⊢; omega)
    refine ⟨s3, ?_, hs3, by simp; omega⟩
    show pScanQuals (run G) s = _
    simp [pScanQuals, DeclSkel.bnd, h1, hset, h2, h3, DeclSkel.pur]

/-- `while self._accept("TIMES")` of the scan -/
theorem scanStars_loop : ∀ (stars : List (List Tk)) (s : PState) (rest : List Tk) (F : Nat),
    (∀ q ∈ stars, ∀ t ∈ q, t.1 ∈ typeQualifier) →
    (∀ k v r, rest = (k, v) :: r → k ≠ "TIMES" ∧ k ∉ typeQualifier) →
    SeesT env s (starsFlat stars ++ rest) → starsNtoks stars + 2 ≤ F →
    ∃ s', run F .scanStars s = .ok () s' ∧ SeesT env s' rest ∧ s'.idx = s.idx + starsNtoks stars
  | [], s, rest, F, _, hrest, hs, hF => by
    obtain ⟨G, rfl⟩ : ∃ G, F = G + 1 := ⟨F - 1, by omega⟩
    have hs0 : SeesT env s rest := by simpa [starsFlat] using hs
    obtain ⟨s1, h1, hs1, hi1⟩ := accept_other s rest "TIMES" hs0 (fun k v r h => (hrest k v r h).1)
    refine ⟨s1, ?_, hs1, by simpa [starsNtoks] using hi1⟩
    show pScanStars (run G) s = _
    simp [pScanStars, DeclSkel.bnd, h1, DeclSkel.pur]
  | q :: r, s, rest, F, hq, hrest, hs, hF => by
    obtain ⟨G, rfl⟩ : ∃ G, F = G + 1 := ⟨F - 1, by omega⟩
    simp only [starsNtoks] at hF
    have hs0 : SeesT env s (("TIMES", "*") :: (q ++ (starsFlat r ++ rest))) := by
      simpa [starsFlat, List.append_assoc] using hs
    obtain ⟨s1, h1, hs1, hi1, _⟩ := accept_same s "TIMES" "*" _ hs0
    have hnext : ∀ k v r', starsFlat r ++ rest = (k, v) :: r' → k ∉ typeQualifier := by
      intro k v r' h
      cases r with
      | nil => exact (hrest k v r' (by simpa [starsFlat] using h)).2
      | cons q' r'' =>
        simp only [starsFlat, List.cons_append, List.cons.injEq, Prod.mk.injEq] at h
        rw [← h.1.1]; decide
    obtain ⟨s2, h2, hs2, hi2⟩ := scanQuals_loop q s1 _ G (hq q List.mem_cons_self) hnext hs1 (by omega)
    obtain ⟨s3, h3, hs3, hi3⟩ := scanStars_loop r s2 rest G (fun q' hq' => hq q' (List.mem_cons_of_mem _ hq')) hrest hs2 (by omega)
    refine ⟨s3, ?_, hs3, by simp only [starsNtoks]; omega⟩
    show pScanStars (run G) s = _
    simp [pScanStars, DeclSkel.bnd, h1, h2, h3, DeclSkel.pur]

/-! ## skipping to the matching parenthesis -/

/-- what `scanParenSkip depth` leaves: the tokens after the `)` that brings the depth to 0 -/
def skipF : Nat → List Tk → Option (List Tk)
  | _, [] => none
  | d, (k, _) :: r =>
    if k == "LPAREN" then skipF (d + 1) r
    else if k == "RPAREN" then (if d - 1 == 0 then some r else skipF (d - 1) r)
    else skipF d r

/-- parenthesis-balanced token lists -/
inductive Bal : List Tk → Prop
  | nil : Bal []
  | tok (t : Tk) (r : List Tk) : t.1 ≠ "LPAREN" → t.1 ≠ "RPAREN" → Bal r → Bal (t :: r)
  | paren (v v' : String) (a b : List Tk) : Bal a → Bal b → Bal (("LPAREN", v) :: (a ++ ("RPAREN", v') :: b))

theorem Bal.append {a b : List Tk} (ha : Bal a) (hb : Bal b) : Bal (a ++ b) := by
  induction ha with
  | nil => exact hb
  | tok t r h1 h2 _ ih => exact .tok t _ h1 h2 ih
  | paren v v' a' b' ha' _ _ ih2 =>
    have : ("LPAREN", v) :: (a' ++ ("RPAREN", v') :: b') ++ b = ("LPAREN", v) :: (a' ++ ("RPAREN", v') :: (b' ++ b)) := by simp
    rw [this]; exact .paren v v' a' _ ha' ih2

theorem Bal.single (t : Tk) (h1 : t.1 ≠ "LPAREN") (h2 : t.1 ≠ "RPAREN") : Bal [t] := .tok t [] h1 h2 .nil

/-- a balanced stretch is skipped without changing the depth -/
theorem skip_bal {a : List Tk} (ha : Bal a) : ∀ (d : Nat) (r : List Tk), skipF (d + 1) (a ++ r) = skipF (d + 1) r := by
  induction ha with
  | nil => intro d r; rfl
  | tok t r' h1 h2 _ ih =>
    intro d r
    obtain ⟨k, v⟩ := t
    have e1 : (k == "LPAREN") = false := by simpa using h1
    have e2 : (k == "RPAREN") = false := by simpa using h2
    simp only [List.cons_append, skipF, e1, e2, Bool.false_eq_true, ↓reduceIte]
    exact ih d r
  | paren v v' a' b' _ _ ih1 ih2 =>
    intro d r
    have : ("LPAREN", v) :: (a' ++ ("RPAREN", v') :: b') ++ r = ("LPAREN", v) :: (a' ++ (("RPAREN", v') :: (b' ++ r))) := by simp
    rw [this]
    simp only [skipF, beq_self_eq_true, ↓reduceIte]
    rw [ih1 (d + 1) _]
    simp only [skipF, show (("RPAREN" : String) == "LPAREN") = false from rfl, Bool.false_eq_true, ↓reduceIte,
      beq_self_eq_true, Nat.add_sub_cancel]
    have : (d + 1 == 0) = false := by simp
    simp only [this, Bool.false_eq_true, ↓reduceIte]
    exact ih2 d r

theorem skip_close (r : List Tk) (v : String) : skipF 1 (("RPAREN", v) :: r) = some r := by
  simp [skipF]

theorem skipF_len : ∀ (toks : List Tk) (d : Nat) (rest : List Tk), skipF d toks = some rest → rest.length < toks.length
  | [], _, _, h => by simp [skipF] at h
  | (k, v) :: r, d, rest, h => by
    simp only [skipF] at h
    split at h
    · have := skipF_len r _ rest h; simp; omega
    · split at h
      · split at h
        · simp only [Option.some.injEq] at h; subst h; simp
        · have := skipF_len r _ rest h; simp; omega
      · have := skipF_len r _ rest h; simp; omega

/-- the model's `scanParenSkip` computes `skipF` -/
theorem scanParenSkip_ok : ∀ (toks : List Tk) (depth : Nat) (rest : List Tk) (s : PState) (F : Nat),
    SeesT env s toks → skipF depth toks = some rest → toks.length - rest.length + 1 ≤ F →
    ∃ s', run F (.scanParenSkip depth) s = .ok true s' ∧ SeesT env s' rest ∧ s'.idx + rest.length = s.idx + toks.length
  | [], depth, rest, s, F, _, h, _ => by simp [skipF] at h
  | (k, v) :: r, depth, rest, s, F, hs, h, hF => by
    have hlen := skipF_len _ _ _ h
    obtain ⟨G, rfl⟩ : ∃ G, F = G + 1 := ⟨F - 1, by simp at hF hlen; omega⟩
    obtain ⟨s1, h1, hs1, _, hi1, _⟩ := peek_spec s k v r hs
    obtain ⟨s2, h2, hs2, _, hi2, _⟩ := advance_spec s1 k v r hs1
    simp only [List.length_cons] at hF hlen
    by_cases hl : k = "LPAREN"
    · subst hl
      simp only [skipF, beq_self_eq_true, ↓reduceIte] at h
      have hl2 := skipF_len _ _ _ h
      obtain ⟨s3, h3, hs3, hi3⟩ := scanParenSkip_ok r (depth + 1) rest s2 G hs2 h (by omega)
      refine ⟨s3, ?_, hs3, by simp; omega⟩
      show pScanParenSkip (run G) depth s = _
      simp [pScanParenSkip, DeclSkel.bnd, h1, h2, h3]
    · by_cases hr : k = "RPAREN"
      · subst hr
        simp only [skipF, show (("RPAREN" : String) == "LPAREN") = false from rfl, Bool.false_eq_true, ↓reduceIte,
          beq_self_eq_true] at h
        by_cases hd : (depth - 1 == 0) = true
        · simp only [hd, ↓reduceIte, Option.some.injEq] at h
          subst h
          refine ⟨s2, ?_, hs2, by simp; omega⟩
          show pScanParenSkip (run G) depth s = _
          simp [pScanParenSkip, DeclSkel.bnd, h1, h2, hd, DeclSkel.pur]
        · have hd' : (depth - 1 == 0) = false := by simpa using hd
          simp only [hd', Bool.false_eq_true, ↓reduceIte] at h
          have hl2 := skipF_len _ _ _ h
          obtain ⟨s3, h3, hs3, hi3⟩ := scanParenSkip_ok r (depth - 1) rest s2 G hs2 h (by omega)
          refine ⟨s3, ?_, hs3, by simp; omega⟩
          show pScanParenSkip (run G) depth s = _
          simp [pScanParenSkip, DeclSkel.bnd, h1, h2, hd', h3]
      · have e1 : (k == "LPAREN") = false := by simpa using hl
        have e2 : (k == "RPAREN") = false := by simpa using hr
        simp only [skipF, e1, e2, Bool.false_eq_true, ↓reduceIte] at h
        have hl2 := skipF_len _ _ _ h
        obtain ⟨s3, h3, hs3, hi3⟩ := scanParenSkip_ok r depth rest s2 G hs2 h (by omega)
        refine ⟨s3, ?_, hs3, by simp; omega⟩
        show pScanParenSkip (run G) depth s = _
        simp [pScanParenSkip, DeclSkel.bnd, h1, h2, hl, hr, h3]

/-! ## expressions are balanced -/

theorem notParen_of_mem {k : String} {l : List String} (h : k ∈ l) (h1 : "LPAREN" ∉ l) (h2 : "RPAREN" ∉ l) :
    k ≠ "LPAREN" ∧ k ≠ "RPAREN" :=
  ⟨fun e => h1 (e ▸ h), fun e => h2 (e ▸ h)⟩

theorem bal_noParen : ∀ (l : List Tk), (∀ t ∈ l, t.1 ≠ "LPAREN" ∧ t.1 ≠ "RPAREN") → Bal l
  | [], _ => .nil
  | t :: r, h => .tok t r (h t List.mem_cons_self).1 (h t List.mem_cons_self).2
      (bal_noParen r fun t' ht' => h t' (List.mem_cons_of_mem _ ht'))

theorem bal_flat {L : Nat} {e : X} (hw : WFX L e) : Bal e.flat := by
  induction hw with
  | id L x => exact Bal.single _ (by simp) (by simp)
  | const L k v t hc =>
    obtain ⟨h1, h2⟩ := notParen_of_mem (constType_kind hc) (by decide) (by decide)
    exact Bal.single _ h1 h2
  | paren L e _ ih => exact .paren _ _ _ [] ih .nil
  | pre L k v e _ hk _ _ ih =>
    obtain ⟨h1, h2⟩ := notParen_of_mem hk (by decide) (by decide)
    exact .tok _ _ h1 h2 ih
  | szof L e _ _ _ ih => exact .tok _ _ (by decide) (by decide) ih
  | cast L tn e _ ht _ ih => exact .paren _ _ _ _ (bal_noParen _ (TypeName.tn_noParen ht)) ih
  | szofT L tn _ ht =>
    exact .tok _ _ (by decide) (by decide) (.paren _ _ _ [] (bal_noParen _ (TypeName.tn_noParen ht)) .nil)
  | alignT L tn _ ht =>
    exact .tok _ _ (by decide) (by decide) (.paren _ _ _ [] (bal_noParen _ (TypeName.tn_noParen ht)) .nil)
  | post L k v e _ hk _ ih =>
    obtain ⟨h1, h2⟩ := notParen_of_mem hk (by decide) (by decide)
    exact ih.append (Bal.single _ h1 h2)
  | index L e i _ _ _ ih1 ih2 =>
    exact ih1.append (.tok _ _ (by decide) (by decide) (ih2.append (Bal.single _ (by decide) (by decide))))
  | member L k v e f _ hk _ ih =>
    obtain ⟨h1, h2⟩ := notParen_of_mem hk (by decide) (by decide)
    exact ih.append (.tok _ _ h1 h2 (Bal.single _ (by simp) (by simp)))
  | call0 L f _ _ ih => exact ih.append (.paren _ _ [] [] .nil .nil)
  | call L f a _ _ _ ih1 ih2 => exact ih1.append (.paren _ _ _ [] ih2 .nil)
  | bin L p k v l r hp _ _ _ ih1 ih2 =>
    have h1 : k ≠ "LPAREN" := by rintro rfl; simp [binPrec, binaryPrecedence] at hp
    have h2 : k ≠ "RPAREN" := by rintro rfl; simp [binPrec, binaryPrecedence] at hp
    simp only [X.flat]
    exact (ih1.append (Bal.single _ h1 h2)).append ih2
  | cond L c t f _ _ _ _ ih1 ih2 ih3 =>
    simp only [X.flat]
    exact (((ih1.append (Bal.single _ (by decide) (by decide))).append ih2).append (Bal.single _ (by decide) (by decide))).append ih3
  | assign L k v l r _ hk _ _ ih1 ih2 =>
    obtain ⟨h1, h2⟩ := notParen_of_mem hk (by decide) (by decide)
    simp only [X.flat]
    exact (ih1.append (Bal.single _ h1 h2)).append ih2
  | comma a b _ _ ih1 ih2 =>
    simp only [X.flat]
    exact (ih1.append (Bal.single _ (by decide) (by decide))).append ih2

/-! ## the scan on any declarator -/

/-- the tokens of a declarator the scan leaves unread (what follows the name outside any
parentheses the scan has closed) -/
def scanRest : D → List Tk
  | .name _ => []
  | .paren _ => []
  | .ptr _ d => scanRest d
  | .arr d dim => scanRest d ++ ("LBRACKET", "[") :: (oflat dim ++ [("RBRACKET", "]")])
  | .fn0 d => scanRest d ++ [("LPAREN", "("), ("RPAREN", ")")]

theorem bal_scanRest {d : D} (hwf : WFD d) : Bal (scanRest d) := by
  induction hwf with
  | name x => exact .nil
  | paren d _ _ => exact .nil
  | ptr stars d _ _ _ _ ih => exact ih
  | arr d dim _ _ hdim ih =>
    have hb : Bal (oflat dim) := by
      cases dim with
      | none => exact .nil
      | some e => exact bal_flat (hdim e rfl)
    exact ih.append (.tok _ _ (by decide) (by decide) (hb.append (Bal.single _ (by decide) (by decide))))
  | fn0 d _ _ ih => exact ih.append (.paren _ _ [] [] .nil .nil)

theorem scanRest_le : ∀ d : D, (scanRest d).length ≤ d.ntoks
  | .name _ => by simp [scanRest]
  | .paren d => by simp [scanRest]
  | .ptr st d => by have := scanRest_le d; simp only [scanRest, D.ntoks]; omega
  | .arr d dim => by
    have := scanRest_le d
    simp only [scanRest, D.ntoks, List.length_append, List.length_cons, DeclSkel.oflat_length, List.length_nil]; omega
  | .fn0 d => by have := scanRest_le d; simp [scanRest, D.ntoks]; omega

/-- the part of `_scan_declarator_name_info` after the stars -/
def scanBody (self : Self) : P (Option String × Bool) := do
  match ← peek with
  | none => pure (none, false)
  | some tok =>
    if tok.kind == "ID" || tok.kind == "TYPEID" then
      let _ ← advance
      pure (some tok.kind, false)
    else if tok.kind == "LPAREN" then
      let _ ← advance
      let (tokType, _) ← self .scanDeclaratorNameInfo
      if ← self (.scanParenSkip 1) then pure (tokType, true) else pure (none, true)
    else pure (none, false)

theorem scan_unfold (self : Self) : pScanDeclaratorNameInfo self = (do self .scanStars; scanBody self) := rfl

def sawParen : D → Bool
  | .name _ => false
  | .paren _ => true
  | .ptr _ d => sawParen d
  | .arr d _ => sawParen d
  | .fn0 d => sawParen d

/-- what the two parts of the scan do on a declarator -/
def ScanOK (env : Env) (d : D) : Prop :=
  ∀ (s : PState) (rest : List Tk) (F : Nat), SeesT env s (d.flat ++ rest) → d.ntoks + 3 ≤ F →
    ∃ s', run F .scanDeclaratorNameInfo s = .ok (some "ID", sawParen d) s' ∧ SeesT env s' (scanRest d ++ rest) ∧
      s'.idx + (scanRest d).length = s.idx + d.ntoks

def BodyOK (env : Env) (d : D) : Prop :=
  d.isDirect = true → ∀ (s : PState) (rest : List Tk) (G : Nat), SeesT env s (d.flat ++ rest) → d.ntoks + 2 ≤ G →
    ∃ s', scanBody (run G) s = .ok (some "ID", sawParen d) s' ∧ SeesT env s' (scanRest d ++ rest) ∧
      s'.idx + (scanRest d).length = s.idx + d.ntoks

theorem scan_of_body_direct (d : D) (hd : d.isDirect = true) (hwf : WFD d) (hb : BodyOK env d) : ScanOK env d := by
  intro s rest F hs hF
  obtain ⟨G, rfl⟩ : ∃ G, F = G + 1 := ⟨F - 1, by omega⟩
  obtain ⟨t, r, hfl, ht⟩ := direct_head hwf hd
  have hs0 : SeesT env s (starsFlat [] ++ ((t.1, t.2) :: (r ++ rest))) := by simpa [starsFlat, hfl] using hs
  obtain ⟨s1, h1, hs1, hi1⟩ := scanStars_loop [] s _ G (by intro q hq; cases hq)
    (by intro k v r' h; simp only [List.cons.injEq, Prod.mk.injEq] at h; rw [← h.1.1]
        rcases ht with h' | h' <;> rw [h'] <;> exact ⟨by decide, by decide⟩) hs0 (by simp [starsNtoks]; omega)
  have hs1' : SeesT env s1 (d.flat ++ rest) := by simpa [hfl] using hs1
  obtain ⟨s2, h2, hs2, hi2⟩ := hb hd s1 rest G hs1' (by omega)
  refine ⟨s2, ?_, hs2, by simp [starsNtoks] at hi1; omega⟩
  show pScanDeclaratorNameInfo (run G) s = _
  rw [scan_unfold]
  simp only [DeclSkel.bnd, h1, h2]

theorem all_scan : ∀ d : D, WFD d → ScanOK env d ∧ BodyOK env d := by
  intro d hwf
  induction hwf with
  | name x =>
    have hb : BodyOK env (.name x) := by
      intro _ s rest G hs hG
      have hs0 : SeesT env s (("ID", x) :: rest) := by simpa [D.flat] using hs
      obtain ⟨s1, h1, hs1, _, hi1, _⟩ := peek_spec s "ID" x rest hs0
      obtain ⟨s2, h2, hs2, _, hi2, _⟩ := advance_spec s1 "ID" x rest hs1
      refine ⟨s2, ?_, by simpa [scanRest] using hs2, by simp [scanRest, D.ntoks]; omega⟩
      simp [scanBody, DeclSkel.bnd, h1, h2, DeclSkel.pur, sawParen]
    exact ⟨scan_of_body_direct _ rfl (.name x) hb, hb⟩
  | paren d hwd ih =>
    have hb : BodyOK env (.paren d) := by
      intro _ s rest G hs hG
      obtain ⟨G', rfl⟩ : ∃ G', G = G' + 1 := ⟨G - 1, by omega⟩
      simp only [D.ntoks] at hG
      have hs0 : SeesT env s (("LPAREN", "(") :: (d.flat ++ ("RPAREN", ")") :: rest)) := by simpa [D.flat, List.append_assoc] using hs
      obtain ⟨s1, h1, hs1, _, hi1, _⟩ := peek_spec s "LPAREN" "(" _ hs0
      obtain ⟨s2, h2, hs2, _, hi2, _⟩ := advance_spec s1 "LPAREN" "(" _ hs1
      obtain ⟨s3, h3, hs3, hi3⟩ := ih.1 s2 _ (G' + 1) hs2 (by omega)
      have hsk : skipF 1 (scanRest d ++ ("RPAREN", ")") :: rest) = some rest := by
        rw [skip_bal (bal_scanRest hwd) 0, skip_close]
      have := scanRest_le d
      obtain ⟨s4, h4, hs4, hi4⟩ := scanParenSkip_ok _ 1 rest s3 (G' + 1) hs3 hsk (by simp; omega)
      refine ⟨s4, ?_, by simpa [scanRest] using hs4, by simp [scanRest, D.ntoks] at hi4 ⊢; omega⟩
      simp [scanBody, DeclSkel.bnd, h1, h2, h3, h4, DeclSkel.pur, sawParen]
    exact ⟨scan_of_body_direct _ rfl (.paren d hwd) hb, hb⟩
  | ptr stars d hne hq hwd hdir ih =>
    refine ⟨?_, by intro h; simp [D.isDirect] at h⟩
    intro s rest F hs hF
    obtain ⟨G, rfl⟩ : ∃ G, F = G + 1 := ⟨F - 1, by omega⟩
    simp only [D.ntoks] at hF
    obtain ⟨t, r, hfl, ht⟩ := direct_head hwd hdir
    have hs0 : SeesT env s (starsFlat stars ++ ((t.1, t.2) :: (r ++ rest))) := by simpa [D.flat, hfl, List.append_assoc] using hs
    obtain ⟨s1, h1, hs1, hi1⟩ := scanStars_loop stars s _ G hq
      (by intro k v r' h; simp only [List.cons.injEq, Prod.mk.injEq] at h; rw [← h.1.1]
          rcases ht with h' | h' <;> rw [h'] <;> exact ⟨by decide, by decide⟩) hs0 (by omega)
    have hs1' : SeesT env s1 (d.flat ++ rest) := by simpa [hfl] using hs1
    obtain ⟨s2, h2, hs2, hi2⟩ := ih.2 hdir s1 rest G hs1' (by omega)
    refine ⟨s2, ?_, by simpa [scanRest] using hs2, by simp only [scanRest, D.ntoks]; omega⟩
    show pScanDeclaratorNameInfo (run G) s = _
    rw [scan_unfold]
    simp only [DeclSkel.bnd, h1, h2, sawParen]
  | arr d dim hwd hdir hdim ih =>
    have hb : BodyOK env (.arr d dim) := by
      intro _ s rest G hs hG
      simp only [D.ntoks] at hG
      have hs0 : SeesT env s (d.flat ++ (("LBRACKET", "[") :: (oflat dim ++ [("RBRACKET", "]")]) ++ rest)) := by
        simpa [D.flat, List.append_assoc] using hs
      obtain ⟨s1, h1, hs1, hi1⟩ := ih.2 hdir s _ G hs0 (by omega)
      refine ⟨s1, by simpa [sawParen] using h1, by simpa [scanRest, List.append_assoc] using hs1, ?_⟩
      simp only [scanRest, D.ntoks, List.length_append, List.length_cons, DeclSkel.oflat_length, List.length_nil] at hi1 ⊢
      omega
    exact ⟨scan_of_body_direct _ rfl (.arr d dim hwd hdir hdim) hb, hb⟩
  | fn0 d hwd hdir ih =>
    have hb : BodyOK env (.fn0 d) := by
      intro _ s rest G hs hG
      simp only [D.ntoks] at hG
      have hs0 : SeesT env s (d.flat ++ ([("LPAREN", "("), ("RPAREN", ")")] ++ rest)) := by
        simpa [D.flat, List.append_assoc] using hs
      obtain ⟨s1, h1, hs1, hi1⟩ := ih.2 hdir s _ G hs0 (by omega)
      refine ⟨s1, by simpa [sawParen] using h1, by simpa [scanRest, List.append_assoc] using hs1, ?_⟩
      simp [scanRest, D.ntoks] at hi1 ⊢
      omega
    exact ⟨scan_of_body_direct _ rfl (.fn0 d hwd hdir) hb, hb⟩

/-- **the look-ahead scan and the reset, for every named declarator** (grouping parentheses
included): the scan finds the identifier, `_reset(mark)` goes back to the first token -/
theorem scan_ok (d : D) (hwf : WFD d) (s : PState) (rest : List Tk)
    (hs : SeesT env s (d.flat ++ rest)) (F : Nat) (hF : d.ntoks + 3 ≤ F) :
    ∃ s3 b, run F .scanDeclaratorNameInfo s = .ok (some "ID", b) s3 ∧
      ∃ s4, reset s.idx s3 = .ok () s4 ∧ SeesT env s4 (d.flat ++ rest) ∧ s4.idx = s.idx := by
  obtain ⟨s3, h3, hs3, hi3⟩ := (all_scan d hwf).1 s rest F hs hF
  have := scanRest_le d
  obtain ⟨s4, h4, hs4, hi4⟩ := reset_to s s3 _ _ hs hs3 (by omega)
  exact ⟨s3, _, h3, s4, h4, hs4, hi4⟩

/-- **`_parse_any_declarator`** on every named declarator -/
theorem anyDeclarator_ok (d : D) (hwf : WFD d) (s : PState) (rest : List Tk)
    (hs : SeesT env s (d.flat ++ rest)) (hfo : FollowD rest) (F : Nat) (hF : d.fuel + d.ntoks + 5 ≤ F)
    (allowAbstract typeidParenAsAbstract : Bool := false) :
    ∃ s', run F (.anyDeclarator allowAbstract typeidParenAsAbstract) s = .ok (chainVal (d.chain s.idx) (d.td s.idx), true) s' ∧
      SeesT env s' rest ∧ s'.idx = s.idx + d.ntoks := by
  obtain ⟨G, rfl⟩ : ∃ G, F = G + 1 := ⟨F - 1, by omega⟩
  obtain ⟨s3, b, hscan, s4, h4, hs4, hi4⟩ := scan_ok d hwf s rest hs G (by omega)
  obtain ⟨s5, h5, hs5, hi5⟩ := parse_declarator d hwf s4 rest hs4 hfo G (by omega)
  refine ⟨s5, ?_, hs5, by omega⟩
  rw [hi4] at h5
  show pAnyDeclarator (run G) allowAbstract typeidParenAsAbstract s = _
  simp [pAnyDeclarator, DeclSkel.bnd, mark, hscan, h4, h5, DeclSkel.pur]

/-! ## init-declarators -/

/-- the coordinate of the name-carrying `TypeDecl` -/
def dTco : Nat → D → Option Coord
  | n, .name _ => tc n
  | n, .paren d => dTco (n + 1) d
  | n, .ptr stars d => dTco (n + starsNtoks stars) d
  | n, .arr d _ => dTco n d
  | n, .fn0 d => dTco n d

theorem td_eq : ∀ (d : D) (n : Nat), d.td n = tdRaw (dName d) (dTco n d)
  | .name _, _ => rfl
  | .paren d, n => td_eq d (n + 1)
  | .ptr stars d, n => td_eq d (n + starsNtoks stars)
  | .arr d _, n => td_eq d n
  | .fn0 d, n => td_eq d n

/-- one init-declarator: a declarator and an optional `= assignment-expression` -/
structure IDc where
  d : D
  init : Option Init.I

def IDc.ntoks (it : IDc) : Nat := it.d.ntoks + (match it.init with | none => 0 | some e => 1 + e.ntoks)
def IDc.flat (it : IDc) : List Tk :=
  it.d.flat ++ (match it.init with | none => [] | some e => ("EQUALS", "=") :: e.flat)
/-- fuel of the optional initializer -/
def ifuel : Option Init.I → Nat | none => 0 | some i => i.fuel
def IDc.fuel (it : IDc) : Nat := it.d.fuel + it.d.ntoks + ifuel it.init + 8

structure WFI (it : IDc) : Prop where
  wfd : WFD it.d
  wfx : ∀ i, it.init = some i → Init.WFInit i

/-- the `_DeclInfo` the parser builds for it (`n`: position of its first token) -/
def IDc.di (n : Nat) (it : IDc) : DI :=
  { ms := it.d.chain n, x := dName it.d, tco := dTco n it.d,
    init := match it.init with | none => .none | some e => e.val (n + it.d.ntoks + 1) }

theorem IDc.flat_length (it : IDc) : it.flat.length = it.ntoks := by
  cases hi : it.init with
  | none => simp [IDc.flat, IDc.ntoks, hi, DeclSkel.flat_length]
  | some e => simp [IDc.flat, IDc.ntoks, hi, DeclSkel.flat_length, Init.I.flat_length]; omega

theorem stopA_comma : StopA "COMMA" := ⟨⟨⟨by decide, by decide⟩, by decide⟩, by decide⟩
theorem stopA_semi : StopA "SEMI" := ⟨⟨⟨by decide, by decide⟩, by decide⟩, by decide⟩

/-- the token that ends an init-declarator -/
def EndsItem (k : String) : Prop := k = "COMMA" ∨ k = "SEMI"

theorem EndsItem.stopA {k : String} (h : EndsItem k) : StopA k := by
  rcases h with rfl | rfl
  · exact stopA_comma
  · exact stopA_semi

/-- **`_parse_init_declarator`** -/
theorem initDeclarator_ok (it : IDc) (hwf : WFI it) (s : PState) (stop : Tk) (rest : List Tk) (hstop : EndsItem stop.1)
    (hs : SeesT env s (it.flat ++ stop :: rest)) (F : Nat) (hF : it.fuel ≤ F) :
    ∃ s', run F (.initDeclarator false) s = .ok (it.di s.idx).info s' ∧ SeesT env s' (stop :: rest) ∧
      s'.idx = s.idx + it.ntoks := by
  obtain ⟨G, rfl⟩ : ∃ G, F = G + 1 := ⟨F - 1, by simp only [IDc.fuel] at hF; omega⟩
  simp only [IDc.fuel] at hF
  obtain ⟨k0, v0⟩ := stop
  cases hi : it.init with
  | none =>
    have hs0 : SeesT env s (it.d.flat ++ (k0, v0) :: rest) := by simpa [IDc.flat, hi] using hs
    obtain ⟨s1, h1, hs1, hi1⟩ := anyDeclarator_ok it.d hwf.wfd s _ hs0
      (by intro k v r h; simp only [List.cons.injEq, Prod.mk.injEq] at h
          rcases hstop with h' | h' <;> simp only at h' <;> rw [← h.1.1, h'] <;> exact ⟨by decide, by decide⟩) G (by simp [ifuel, hi] at hF; omega)
    obtain ⟨s2, h2, hs2, hi2⟩ := accept_other s1 _ "EQUALS" hs1 (by
      intro k v r h; simp only [List.cons.injEq, Prod.mk.injEq] at h
      rcases hstop with h' | h' <;> simp only at h' <;> rw [← h.1.1, h'] <;> decide)
    refine ⟨s2, ?_, hs2, by simp only [IDc.ntoks, hi]; omega⟩
    have hnn : (chainVal (it.d.chain s.idx) (it.d.td s.idx)).isNone = false := by
      have := DeclSkel.val_isNode it.d s.idx
      simp only [D.val] at this
      cases h : chainVal (it.d.chain s.idx) (it.d.td s.idx) <;> simp_all [Val.isNode, Val.isNone]
    show pInitDeclarator (run G) false s = _
    simp only [pInitDeclarator, DeclSkel.bnd, h1, hnn, Bool.false_eq_true, ↓reduceIte, DeclSkel.pur, h2, Option.isSome_none]
    simp [IDc.di, DI.info, DI.raw, hi, td_eq]
  | some e =>
    have hwe := hwf.wfx e hi
    have hs0 : SeesT env s (it.d.flat ++ ("EQUALS", "=") :: (e.flat ++ (k0, v0) :: rest)) := by
      simpa [IDc.flat, hi, List.append_assoc] using hs
    obtain ⟨s1, h1, hs1, hi1⟩ := anyDeclarator_ok it.d hwf.wfd s _ hs0
      (by intro k v r h; simp only [List.cons.injEq, Prod.mk.injEq] at h; rw [← h.1.1]; exact ⟨by decide, by decide⟩) G
      (by simp [ifuel, hi] at hF; omega)
    obtain ⟨s2, h2, hs2, hi2, _⟩ := accept_same s1 "EQUALS" "=" _ hs1
    -- the initializer: an assignment expression or a brace list
    have hend : Init.EndsInit (k0, v0).1 := by
      rcases hstop with h' | h'
      · exact .inl h'
      · exact .inr (.inl h')
    obtain ⟨G', rfl⟩ : ∃ G', G = G' + 1 := ⟨G - 1, by simp [ifuel, hi] at hF; have := Init.I.fuel_ge e; omega⟩
    obtain ⟨s4, h4, hs4, hi4⟩ := Init.init_ok e hwe s2 (k0, v0) rest hend hs2 (G' + 1) (by simp [ifuel, hi] at hF; omega)
    refine ⟨s4, ?_, hs4, by simp only [IDc.ntoks, hi]; omega⟩
    have hnn : (chainVal (it.d.chain s.idx) (it.d.td s.idx)).isNone = false := by
      have := DeclSkel.val_isNode it.d s.idx
      simp only [D.val] at this
      cases h : chainVal (it.d.chain s.idx) (it.d.td s.idx) <;> simp_all [Val.isNode, Val.isNone]
    have e2 : s2.idx = s.idx + it.d.ntoks + 1 := by omega
    rw [e2] at h4
    have hinit : run (G' + 1) .initializer s2 = .ok (e.val (s.idx + it.d.ntoks + 1)) s4 := h4
    show pInitDeclarator (run (G' + 1)) false s = _
    simp only [pInitDeclarator, DeclSkel.bnd, h1, hnn, Bool.false_eq_true, ↓reduceIte, DeclSkel.pur, h2, Option.isSome_some, hinit]
    simp [IDc.di, DI.info, DI.raw, hi, td_eq]

/-! ## the init-declarator list -/

def restFlat : List IDc → List Tk
  | [] => []
  | it :: r => ("COMMA", ",") :: (it.flat ++ restFlat r)

def restNtoks : List IDc → Nat
  | [] => 0
  | it :: r => 1 + it.ntoks + restNtoks r

def restFuel : List IDc → Nat
  | [] => 1
  | it :: r => max it.fuel (restFuel r) + 1

/-- the `_DeclInfo`s of the declarators after the first (`n`: position of the first comma) -/
def restDIs : Nat → List IDc → List DI
  | _, [] => []
  | n, it :: r => it.di (n + 1) :: restDIs (n + 1 + it.ntoks) r

theorem restFlat_head (its : List IDc) (rest : List Tk) :
    ∃ k v r, restFlat its ++ ("SEMI", ";") :: rest = (k, v) :: r ∧ EndsItem k := by
  cases its with
  | nil => exact ⟨_, _, _, rfl, .inr rfl⟩
  | cons it r => exact ⟨_, _, _, rfl, .inl rfl⟩

/-- **`_parse_init_declarator_list`** (the part after the first declarator) -/
theorem initList_loop : ∀ (its : List IDc) (acc : List DeclInfo) (s : PState) (rest : List Tk) (F : Nat),
    (∀ it ∈ its, WFI it) → SeesT env s (restFlat its ++ ("SEMI", ";") :: rest) → restFuel its ≤ F →
    ∃ s', run F (.initDeclaratorListLoop acc false) s = .ok (acc ++ (restDIs s.idx its).map DI.info) s' ∧
      SeesT env s' (("SEMI", ";") :: rest) ∧ s'.idx = s.idx + restNtoks its
  | [], acc, s, rest, F, _, hs, hF => by
    obtain ⟨G, rfl⟩ : ∃ G, F = G + 1 := ⟨F - 1, by simp only [restFuel] at hF; omega⟩
    have hs0 : SeesT env s (("SEMI", ";") :: rest) := by simpa [restFlat] using hs
    obtain ⟨s1, h1, hs1, hi1⟩ := accept_other s _ "COMMA" hs0 (by
      intro k v r h; simp only [List.cons.injEq, Prod.mk.injEq] at h; rw [← h.1.1]; decide)
    refine ⟨s1, ?_, hs1, by simpa [restNtoks] using hi1⟩
    show pInitDeclaratorListLoop (run G) acc false s = _
    simp [pInitDeclaratorListLoop, DeclSkel.bnd, h1, DeclSkel.pur, restDIs]
  | it :: its, acc, s, rest, F, hwf, hs, hF => by
    obtain ⟨G, rfl⟩ : ∃ G, F = G + 1 := ⟨F - 1, by simp only [restFuel] at hF; omega⟩
    simp only [restFuel] at hF
    have hs0 : SeesT env s (("COMMA", ",") :: (it.flat ++ (restFlat its ++ ("SEMI", ";") :: rest))) := by
      simpa [restFlat, List.append_assoc] using hs
    obtain ⟨s1, h1, hs1, hi1, _⟩ := accept_same s "COMMA" "," _ hs0
    obtain ⟨k, v, r, hhd, hend⟩ := restFlat_head its rest
    rw [hhd] at hs1
    obtain ⟨s2, h2, hs2, hi2⟩ := initDeclarator_ok it (hwf it List.mem_cons_self) s1 (k, v) r hend hs1 G (by omega)
    rw [← hhd] at hs2
    obtain ⟨s3, h3, hs3, hi3⟩ := initList_loop its (acc ++ [(it.di s1.idx).info]) s2 rest G
      (fun it' h' => hwf it' (List.mem_cons_of_mem _ h')) hs2 (by omega)
    refine ⟨s3, ?_, hs3, by simp only [restNtoks]; omega⟩
    have e1 : s1.idx = s.idx + 1 := hi1
    have e2 : s2.idx = s.idx + 1 + it.ntoks := by omega
    rw [e2] at h3
    rw [e1] at h2 h3
    show pInitDeclaratorListLoop (run G) acc false s = _
    simp [pInitDeclaratorListLoop, DeclSkel.bnd, h1, h2, h3, DeclSkel.pur, restDIs]

/-! ## what the specifier loop has collected -/

def typeNames : Nat → List Tk → List (String × Option Coord)
  | _, [] => []
  | n, t :: r => if isTypeTok t then (t.2, tc n) :: typeNames (n + 1) r else typeNames (n + 1) r

theorem addTok_type (n : Nat) (sp : DeclSpec) (t : Tk) (saw : Bool)
    (h : t.1 ∈ quals3 ∨ t.1 ∈ storage5 ∨ t.1 ∈ functionSpec ∨ t.1 ∈ typeSpecSimple ∨ (t.1 = "TYPEID" ∧ saw = false)) :
    (addTok n sp t).type = sp.type ++ typeNodes (if isTypeTok t then [(t.2, tc n)] else []) := by
  obtain ⟨k, v⟩ := t
  rcases h with h | h | h | h | h
  · have f1 := quals3_facts k h
    have : isTypeTok (k, v) = false := by
      revert h; simp only [isTypeTok, quals3]; intro h
      simp only [List.mem_cons, List.not_mem_nil, or_false] at h
      rcases h with rfl | rfl | rfl <;> decide
    simp [addTok, f1, this, typeNodes]
  · obtain ⟨f1, f2⟩ := storage5_facts k h
    have : isTypeTok (k, v) = false := by
      revert h; simp only [isTypeTok, storage5]; intro h
      simp only [List.mem_cons, List.not_mem_nil, or_false] at h
      rcases h with rfl | rfl | rfl | rfl | rfl <;> decide
    simp [addTok, f1, f2, this, typeNodes]
  · obtain ⟨f1, f2⟩ := funcspec_facts k h
    have : isTypeTok (k, v) = false := by
      revert h; simp only [isTypeTok, functionSpec]; intro h
      simp only [List.mem_cons, List.not_mem_nil, or_false] at h
      rcases h with rfl | rfl <;> decide
    simp [addTok, f1, f2, h, this, typeNodes]
  · obtain ⟨f1, f2, f3⟩ := tkw_facts k h
    have : isTypeTok (k, v) = true := by simp [isTypeTok, h]
    simp [addTok, f1, f2, f3, this, typeNodes]
  · obtain ⟨rfl, _⟩ := h
    obtain ⟨f1, f2, f3, f4⟩ := typeid_facts
    simp [addTok, f1, f2, f3, isTypeTok, typeNodes]

theorem foldSpec_type : ∀ (l : List Tk) (n : Nat) (sp : DeclSpec) (saw : Bool), SpecToks saw l →
    (foldSpec n sp l).type = sp.type ++ typeNodes (typeNames n l)
  | [], n, sp, saw, _ => by simp [foldSpec, typeNames, typeNodes]
  | t :: r, n, sp, saw, h => by
    obtain ⟨h1, h2⟩ := h
    rw [foldSpec, foldSpec_type r (n + 1) _ _ h2, addTok_type n sp t saw h1]
    cases ht : isTypeTok t <;> simp [typeNames, ht, typeNodes]

theorem typeNames_ne_nil : ∀ (l : List Tk) (n : Nat) (saw : Bool), sawAfter saw l = true → saw = false → typeNames n l ≠ []
  | [], n, saw, h, hs => by simp [sawAfter] at h; rw [h] at hs; cases hs
  | t :: r, n, saw, h, hs => by
    subst hs
    simp only [sawAfter, Bool.false_or] at h
    cases ht : isTypeTok t with
    | true => simp [typeNames, ht]
    | false =>
      rw [ht] at h
      simp only [typeNames, ht, Bool.false_eq_true, ↓reduceIte]
      exact typeNames_ne_nil r (n + 1) false h rfl

/-- the spellings of the specifier tokens say nothing else than their classes: no `typedef`
storage class, no `_Atomic` qualifier (the fragment has neither) -/
def SpecVals (l : List Tk) : Prop :=
  ∀ t ∈ l, (t.1 ∈ storageClass → t.2 ≠ "typedef") ∧ (t.1 ∈ typeQualifier → t.2 ≠ "_Atomic")

theorem addTok_storage_mem (n : Nat) (sp : DeclSpec) (t : Tk) (v : Val) (h : v ∈ (addTok n sp t).storage) :
    v ∈ sp.storage ∨ (v = .str t.2 ∧ t.1 ∈ storageClass) := by
  unfold addTok at h
  split at h
  · exact .inl h
  · split at h
    · rename_i hc
      simp only [List.mem_append, List.mem_singleton] at h
      rcases h with h | h
      · exact .inl h
      · exact .inr ⟨h, by simpa using hc⟩
    · split at h <;> exact .inl h

theorem addTok_qual_mem (n : Nat) (sp : DeclSpec) (t : Tk) (v : Val) (h : v ∈ (addTok n sp t).qual) :
    v ∈ sp.qual ∨ (v = .str t.2 ∧ t.1 ∈ typeQualifier) := by
  unfold addTok at h
  split at h
  · rename_i hc
    simp only [List.mem_append, List.mem_singleton] at h
    rcases h with h | h
    · exact .inl h
    · exact .inr ⟨h, by simpa using hc⟩
  · split at h
    · exact .inl h
    · split at h <;> exact .inl h

theorem foldSpec_storage_mem : ∀ (l : List Tk) (n : Nat) (sp : DeclSpec) (v : Val), v ∈ (foldSpec n sp l).storage →
    v ∈ sp.storage ∨ ∃ t ∈ l, v = .str t.2 ∧ t.1 ∈ storageClass
  | [], _, _, _, h => .inl h
  | t :: r, n, sp, v, h => by
    rcases foldSpec_storage_mem r (n + 1) _ v h with h' | ⟨t', ht', hv⟩
    · rcases addTok_storage_mem n sp t v h' with h'' | h''
      · exact .inl h''
      · exact .inr ⟨t, List.mem_cons_self, h''⟩
    · exact .inr ⟨t', List.mem_cons_of_mem _ ht', hv⟩

theorem foldSpec_qual_mem : ∀ (l : List Tk) (n : Nat) (sp : DeclSpec) (v : Val), v ∈ (foldSpec n sp l).qual →
    v ∈ sp.qual ∨ ∃ t ∈ l, v = .str t.2 ∧ t.1 ∈ typeQualifier
  | [], _, _, _, h => .inl h
  | t :: r, n, sp, v, h => by
    rcases foldSpec_qual_mem r (n + 1) _ v h with h' | ⟨t', ht', hv⟩
    · rcases addTok_qual_mem n sp t v h' with h'' | h''
      · exact .inl h''
      · exact .inr ⟨t, List.mem_cons_self, h''⟩
    · exact .inr ⟨t', List.mem_cons_of_mem _ ht', hv⟩

/-- the collected specifiers meet what `_build_declarations` needs -/
theorem specOK_fold (l : List Tk) (n : Nat) (hl : SpecToks false l) (hv : SpecVals l) (hsaw : sawAfter false l = true) :
    ∃ p0 names, typeNames n l = p0 :: names ∧ SpecOK (foldSpec n {} l) p0 names := by
  cases htn : typeNames n l with
  | nil => exact absurd htn (typeNames_ne_nil l n false hsaw rfl)
  | cons p0 names =>
    refine ⟨p0, names, rfl, ?_, ?_, ?_⟩
    · rw [foldSpec_type l n {} false hl, htn]; rfl
    · simp only [specHasTypedef, List.any_eq_false]
      intro v hvm
      rcases foldSpec_storage_mem l n {} v hvm with h | ⟨t, ht, rfl, hk⟩
      · cases h
      · have := (hv t ht).1 hk
        rw [Val.beq_str]; simpa using this
    · simp only [List.any_eq_false]
      intro v hvm
      rcases foldSpec_qual_mem l n {} v hvm with h | ⟨t, ht, rfl, hk⟩
      · cases h
      · have := (hv t ht).2 hk
        rw [Val.beq_str]; simpa using this

/-! ## declarations -/

/-- `specifiers init-declarator {, init-declarator} ;` -/
structure Dcl where
  specs : List Tk
  first : IDc
  more : List IDc

namespace Dcl

def body (dc : Dcl) : List Tk := dc.specs ++ (dc.first.flat ++ restFlat dc.more)
def flat (dc : Dcl) : List Tk := dc.body ++ [("SEMI", ";")]
def ntoks (dc : Dcl) : Nat := dc.specs.length + dc.first.ntoks + restNtoks dc.more + 1
def fuel (dc : Dcl) : Nat := max (dc.specs.length + 1) (max dc.first.fuel (restFuel dc.more)) + 3

/-- the declared names, in source order -/
def names (dc : Dcl) : List String := dName dc.first.d :: dc.more.map fun it => dName it.d

/-- the `_DeclInfo`s (`n`: position of the first specifier) -/
def dis (n : Nat) (dc : Dcl) : List DI :=
  dc.first.di (n + dc.specs.length) :: restDIs (n + dc.specs.length + dc.first.ntoks) dc.more

/-- **the AST of the declaration**: one `Decl` per declarator -/
def vals (n : Nat) (dc : Dcl) : List Val :=
  match typeNames n dc.specs with
  | [] => []
  | p0 :: names => (dc.dis n).map (declOut (foldSpec n {} dc.specs) p0.2 (specNames p0 names))

end Dcl

structure WFDcl (dc : Dcl) : Prop where
  specToks : SpecToks false dc.specs
  specVals : SpecVals dc.specs
  sawType : sawAfter false dc.specs = true
  first : WFI dc.first
  more : ∀ it ∈ dc.more, WFI it

theorem restDIs_names : ∀ (its : List IDc) (n : Nat), (restDIs n its).map (·.x) = its.map fun it => dName it.d
  | [], _ => rfl
  | it :: r, n => by simp [restDIs, IDc.di, restDIs_names r]

theorem declarator_head {d : D} (hwf : WFD d) :
    ∃ k v r, d.flat = (k, v) :: r ∧ (k = "TIMES" ∨ k = "ID" ∨ k = "LPAREN") := by
  cases hwf with
  | ptr stars d hne _ _ _ =>
    cases stars with
    | nil => exact absurd rfl hne
    | cons q r => exact ⟨_, _, _, rfl, .inl rfl⟩
  | name x => exact ⟨_, _, _, rfl, .inr (.inl rfl)⟩
  | paren d h => exact ⟨_, _, _, rfl, .inr (.inr rfl)⟩
  | arr d dim h hd hx =>
    obtain ⟨t, r, hfl, ht⟩ := direct_head (.arr d dim h hd hx) rfl
    exact ⟨t.1, t.2, r, hfl, .inr ht⟩
  | fn0 d h hd =>
    obtain ⟨t, r, hfl, ht⟩ := direct_head (.fn0 d h hd) rfl
    exact ⟨t.1, t.2, r, hfl, .inr ht⟩

theorem sawAfter_ne_nil {l : List Tk} (h : sawAfter false l = true) : l ≠ [] := by
  rintro rfl; simp [sawAfter] at h

/-- **`_parse_decl_body`** -/
theorem parse_declBody (dc : Dcl) (hwf : WFDcl dc) (hty : ∀ x ∈ dc.names, env.ty x = false) (s : PState) (rest : List Tk)
    (hs : SeesT env s (dc.body ++ ("SEMI", ";") :: rest)) (F : Nat) (hF : dc.fuel ≤ F) :
    ∃ s', run F .declBody s = .ok (dc.vals s.idx) s' ∧ SeesT env s' (("SEMI", ";") :: rest) ∧
      s'.idx + 1 = s.idx + dc.ntoks := by
  obtain ⟨G, rfl⟩ : ∃ G, F = G + 1 := ⟨F - 1, by simp only [Dcl.fuel] at hF; omega⟩
  simp only [Dcl.fuel] at hF
  obtain ⟨k1, v1, r1, hd1, hk1⟩ := declarator_head hwf.first.wfd
  -- the specifiers
  have hs0 : SeesT env s (dc.specs ++ (dc.first.flat ++ (restFlat dc.more ++ ("SEMI", ";") :: rest))) := by
    simpa [Dcl.body, List.append_assoc] using hs
  have hfo : FollowSpec (dc.first.flat ++ (restFlat dc.more ++ ("SEMI", ";") :: rest)) := by
    intro k v r h
    simp only [IDc.flat, hd1, List.cons_append, List.append_assoc, List.cons.injEq, Prod.mk.injEq] at h
    rw [← h.1.1]
    rcases hk1 with rfl | rfl | rfl <;> decide
  obtain ⟨s1, h1, hs1, hi1⟩ := specs_loop dc.specs {} false false none s _ G hwf.specToks hfo hs0 (by omega) (fun _ => rfl)
  have hne := sawAfter_ne_nil hwf.sawType
  have hsome : (if (false || !dc.specs.isEmpty) = true then some (foldSpec s.idx {} dc.specs) else none) =
      some (foldSpec s.idx {} dc.specs) := by
    cases hsp : dc.specs with
    | nil => exact absurd hsp hne
    | cons t r => rfl
  rw [hsome, hwf.sawType] at h1
  -- the first init-declarator and the others
  obtain ⟨k2, v2, r2, hhd, hend⟩ := restFlat_head dc.more rest
  rw [hhd] at hs1
  have hs1' : SeesT env s1 ((k1, v1) :: (r1 ++ (match dc.first.init with | none => [] | some e => ("EQUALS", "=") :: e.flat) ++ (k2, v2) :: r2)) := by
    simpa [IDc.flat, hd1, List.append_assoc] using hs1
  obtain ⟨s2, h2, hs2, hi2, _⟩ := peekType_spec s1 _ hs1'
  have hs2' : SeesT env s2 (dc.first.flat ++ (k2, v2) :: r2) := by simpa [IDc.flat, hd1, List.append_assoc] using hs2
  obtain ⟨s3, h3, hs3, hi3⟩ := initDeclarator_ok dc.first hwf.first s2 (k2, v2) r2 hend hs2' G (by omega)
  rw [← hhd] at hs3
  obtain ⟨s4, h4, hs4, hi4⟩ := initList_loop dc.more [(dc.first.di s2.idx).info] s3 rest G hwf.more hs3 (by omega)
  -- `_build_declarations`
  obtain ⟨p0, names, htn, hok⟩ := specOK_fold dc.specs s.idx hwf.specToks hwf.specVals hwf.sawType
  have e2 : s2.idx = s.idx + dc.specs.length := by omega
  have e3 : s3.idx = s.idx + dc.specs.length + dc.first.ntoks := by omega
  rw [e2] at h3 h4
  rw [e3] at h4
  have hnames : ∀ d ∈ dc.dis s.idx, env.ty d.x = false := by
    intro d hd
    apply hty
    simp only [Dcl.dis, List.mem_cons] at hd
    rcases hd with rfl | hd
    · exact List.mem_cons_self
    · have : d.x ∈ (restDIs (s.idx + dc.specs.length + dc.first.ntoks) dc.more).map (·.x) := List.mem_map_of_mem hd
      rw [restDIs_names] at this
      exact List.mem_cons_of_mem _ this
  obtain ⟨s5, h5, hs5, hi5⟩ := buildDeclarations_ok (foldSpec s.idx {} dc.specs) p0 names hok
    (dc.first.di (s.idx + dc.specs.length)) (restDIs (s.idx + dc.specs.length + dc.first.ntoks) dc.more) hnames s4 _ hs4
  refine ⟨s5, ?_, hs5, by simp only [Dcl.ntoks]; omega⟩
  have hstart : startsDeclarator false s1 = .ok true s2 := by
    simp only [startsDeclarator, DeclSkel.bnd, h2, List.head?_cons, Option.map_some, DeclSkel.pur]
    rcases hk1 with rfl | rfl | rfl <;> rfl
  simp only [List.map_cons, List.singleton_append] at h4 h5
  show pDeclBody (run G) s = _
  simp only [pDeclBody, pDeclSpecs, DeclSkel.bnd]
  have h1' : run G (.declSpecsLoop none false none) s = .ok (some (foldSpec s.idx {} dc.specs), true, firstCoord none s.idx dc.specs) s1 := h1
  simp only [h1', requireSpec, Bool.not_true, Bool.false_and, Bool.false_eq_true, ↓reduceIte, DeclSkel.pur, pDeclBodyWithSpec,
    DeclSkel.bnd, hstart, h3, h4, h5, Dcl.vals, htn, Dcl.dis, List.map_cons]

/-- **`_parse_declaration`**: for every declaration of the fragment - any number of specifiers and of
declarators, declarators of any length - the parser returns one `Decl` per declared name, in
source order: the name, every specifier list complete and in order, the declarator's derivations
in inside-out order around a `TypeDecl` that carries the qualifiers and the type-specifier names
as spelled, the initializer; and consumes exactly the tokens of the declaration -/
theorem parse_declaration (dc : Dcl) (hwf : WFDcl dc) (hty : ∀ x ∈ dc.names, env.ty x = false) (s : PState) (rest : List Tk)
    (hs : SeesT env s (dc.flat ++ rest)) (F : Nat) (hF : dc.fuel + 1 ≤ F) :
    ∃ s', run F .declaration s = .ok (dc.vals s.idx) s' ∧ SeesT env s' rest ∧ s'.idx = s.idx + dc.ntoks := by
  obtain ⟨G, rfl⟩ : ∃ G, F = G + 1 := ⟨F - 1, by omega⟩
  have hs0 : SeesT env s (dc.body ++ ("SEMI", ";") :: rest) := by simpa [Dcl.flat, List.append_assoc] using hs
  obtain ⟨s1, h1, hs1, hi1⟩ := parse_declBody dc hwf hty s rest hs0 G (by omega)
  obtain ⟨s2, h2, hs2, hi2⟩ := expect_same s1 "SEMI" ";" rest hs1
  refine ⟨s2, ?_, hs2, by omega⟩
  show pDeclaration (run G) s = _
  simp [pDeclaration, DeclSkel.bnd, h1, h2, DeclSkel.pur]

theorem Dcl.flat_length (dc : Dcl) : dc.flat.length = dc.ntoks := by
  have h1 := dc.first.flat_length
  have h2 : ∀ l : List IDc, (restFlat l).length = restNtoks l := by
    intro l
    induction l with
    | nil => rfl
    | cons it r ih => simp [restFlat, restNtoks, ih, it.flat_length]; omega
  simp [Dcl.flat, Dcl.body, Dcl.ntoks, h1, h2]; omega

/-- the first token of a declaration is a specifier -/
theorem Dcl.head {dc : Dcl} (hwf : WFDcl dc) : ∃ t r, dc.flat = t :: r ∧ t.1 ∈ declStart ∧ t.1 ≠ "ELSE" ∧ t.1 ≠ "RBRACE" := by
  cases hsp : dc.specs with
  | nil => exact absurd hsp (sawAfter_ne_nil hwf.sawType)
  | cons t r =>
    have h := hwf.specToks
    rw [hsp] at h
    obtain ⟨hk, _⟩ := h
    refine ⟨t, r ++ (dc.first.flat ++ restFlat dc.more) ++ [("SEMI", ";")], by simp [Dcl.flat, Dcl.body, hsp], ?_⟩
    rcases hk with h | h | h | h | h
    · revert h; generalize t.1 = k; revert k; decide
    · revert h; generalize t.1 = k; revert k; decide
    · revert h; generalize t.1 = k; revert k; decide
    · revert h; generalize t.1 = k; revert k; decide
    · rw [h.1]; decide

/-- every value of a declaration is a `Decl` node -/
theorem Dcl.vals_decl (dc : Dcl) (n : Nat) : ∀ v ∈ dc.vals n, ∃ co fs, v = .node .Decl co fs := by
  intro v hv
  unfold Dcl.vals at hv
  split at hv
  · cases hv
  · simp only [List.mem_map] at hv
    obtain ⟨d, _, rfl⟩ := hv
    exact ⟨_, _, rfl⟩

end PycModel.DeclParse
