import PycModel.Proofs.BuildDecl
/-!
# Declarations, from tokens to `Decl` nodes

`_parse_declaration_specifiers`, `_parse_any_declarator` (with its look-ahead scan and `_reset`),
`_parse_init_declarator(_list)`, `_parse_decl_body` and `_parse_declaration`, symbolically executed
on the token view for declarations of the fragment

    specifiers  declarator [= assignment-expression] {, declarator [= assignment-expression]} ;

where the specifiers are type qualifiers, storage classes (not `typedef`), function specifiers,
type keywords and typedef names (at least one type specifier), and every declarator is a named
declarator of `DeclSkel.D` without grouping parentheses (pointers with qualifiers, array and `()`
suffixes, any length).  Typedef names of the static environment may be used as specifiers; the
declared names must not be typedef names.
-/
namespace PycModel.DeclParse
open PycModel PycModel.View PycModel.OperandId PycModel.FullExpr PycModel.TypeModify PycModel.DeclSkel PycModel.BuildDecl

variable {env : Env}

/-! ## declaration specifiers -/

def quals3 : List String := ["CONST", "RESTRICT", "VOLATILE"]
def storage5 : List String := ["AUTO", "REGISTER", "STATIC", "EXTERN", "_THREAD_LOCAL"]

/-- is this specifier token a type specifier (keyword or typedef name)? -/
def isTypeTok (t : Tk) : Bool := typeSpecSimple.contains t.1 || t.1 == "TYPEID"

/-- specifier tokens of the fragment; a typedef name is a specifier only while no type specifier
has been seen (`sawType`) -/
def SpecToks : Bool → List Tk → Prop
  | _, [] => True
  | saw, t :: r =>
    (t.1 ∈ quals3 ∨ t.1 ∈ storage5 ∨ t.1 ∈ functionSpec ∨ t.1 ∈ typeSpecSimple ∨ (t.1 = "TYPEID" ∧ saw = false)) ∧
      SpecToks (saw || isTypeTok t) r

/-- what one specifier token adds to `_DeclSpec` (`n`: its position) -/
def addTok (n : Nat) (sp : DeclSpec) (t : Tk) : DeclSpec :=
  if typeQualifier.contains t.1 then { sp with qual := sp.qual ++ [.str t.2] }
  else if storageClass.contains t.1 then { sp with storage := sp.storage ++ [.str t.2] }
  else if functionSpec.contains t.1 then { sp with function := sp.function ++ [.str t.2] }
  else { sp with type := sp.type ++ [identType (tc n) [t.2]] }

def foldSpec : Nat → DeclSpec → List Tk → DeclSpec
  | _, sp, [] => sp
  | n, sp, t :: r => foldSpec (n + 1) (addTok n sp t) r

def sawAfter : Bool → List Tk → Bool
  | saw, [] => saw
  | saw, t :: r => sawAfter (saw || isTypeTok t) r

theorem kinds_facts : ∀ k ∈ quals3 ++ storage5 ++ functionSpec ++ typeSpecSimple ++ ["TYPEID"],
    k ≠ "_ALIGNAS" ∧ k ≠ "_ATOMIC" := by decide

theorem quals3_facts : ∀ k ∈ quals3, k ∈ typeQualifier := by decide
theorem storage5_facts : ∀ k ∈ storage5, k ∉ typeQualifier ∧ k ∈ storageClass := by decide
theorem funcspec_facts : ∀ k ∈ functionSpec, k ∉ typeQualifier ∧ k ∉ storageClass := by decide
theorem tkw_facts : ∀ k ∈ typeSpecSimple, k ∉ typeQualifier ∧ k ∉ storageClass ∧ k ∉ functionSpec := by decide
theorem typeid_facts : "TYPEID" ∉ typeQualifier ∧ "TYPEID" ∉ storageClass ∧ "TYPEID" ∉ functionSpec ∧
    "TYPEID" ∉ typeSpecSimple := by decide

/-- what may follow the specifiers: nothing that the specifier loop would take -/
def FollowSpec (rest : List Tk) : Prop := ∀ k v r, rest = (k, v) :: r → k ∉ declStart

theorem notDeclStart_facts (k : String) (h : k ∉ declStart) :
    k ≠ "_ALIGNAS" ∧ k ≠ "_ATOMIC" ∧ k ∉ typeQualifier ∧ k ∉ storageClass ∧ k ∉ functionSpec ∧ k ∉ typeSpecSimple ∧
    k ≠ "TYPEID" ∧ k ≠ "STRUCT" ∧ k ≠ "UNION" ∧ k ≠ "ENUM" := by
  simp only [declStart, List.mem_append, not_or] at h
  obtain ⟨⟨⟨⟨h1, h2⟩, h3⟩, h4⟩, h5⟩ := h
  simp only [List.mem_cons, List.not_mem_nil, or_false, not_or] at h5
  exact ⟨h5.2.2.2.2.1, h5.2.2.2.2.2, h3, h1, h2, h4, h5.1, h5.2.1, h5.2.2.1, h5.2.2.2.1⟩

theorem firstOr_some (c : Coord) (tok : PTok) (s : PState) : firstOr (some c) tok s = .ok (some c) s := rfl
theorem firstOr_none (tok : PTok) (s : PState) : firstOr none tok s = .ok (some ⟨"", tok.idx, some (tok.idx + 1)⟩) s := rfl

/-- the coordinate `_parse_declaration_specifiers` reports: that of the first specifier -/
def firstCoord (first : Option Coord) (n : Nat) : List Tk → Option Coord
  | [] => first
  | _ :: _ => match first with | some c => some c | none => tc n

/-- **`_parse_declaration_specifiers`**: every specifier lands in its own list, in source order -/
theorem specs_loop : ∀ (l : List Tk) (sp : DeclSpec) (isSome : Bool) (saw : Bool) (first : Option Coord)
    (s : PState) (rest : List Tk) (F : Nat), SpecToks saw l → FollowSpec rest → SeesT env s (l ++ rest) → l.length + 1 ≤ F →
    (isSome = false → sp = {}) →
    ∃ s', run F (.declSpecsLoop (if isSome then some sp else none) saw first) s =
        .ok (if isSome || !l.isEmpty then some (foldSpec s.idx sp l) else none, sawAfter saw l, firstCoord first s.idx l) s' ∧
      SeesT env s' rest ∧ s'.idx = s.idx + l.length
  | [], sp, isSome, saw, first, s, rest, F, _, hfo, hs, hF, _ => by
    obtain ⟨G, rfl⟩ : ∃ G, F = G + 1 := ⟨F - 1, by simp at hF; omega⟩
    have hs0 : SeesT env s rest := by simpa using hs
    cases rest with
    | nil =>
      obtain ⟨s1, h1, hs1, _, hi1, _⟩ := peek_end s hs0
      refine ⟨s1, ?_, hs1, by simpa using hi1⟩
      show pDeclSpecsLoop (run G) _ saw first s = _
      simp [pDeclSpecsLoop, DeclSkel.bnd, h1, DeclSkel.pur, foldSpec, sawAfter, firstCoord]
    | cons t r =>
      obtain ⟨k, v⟩ := t
      obtain ⟨s1, h1, hs1, _, hi1, _⟩ := peek_spec s k v r hs0
      obtain ⟨n1, n2, n3, n4, n5, n6, n7, n8, n9, n10⟩ := notDeclStart_facts k (hfo k v r rfl)
      refine ⟨s1, ?_, hs1, by simpa using hi1⟩
      show pDeclSpecsLoop (run G) _ saw first s = _
      simp [pDeclSpecsLoop, DeclSkel.bnd, h1, DeclSkel.pur, foldSpec, sawAfter, firstCoord, n1, n2, n3, n4, n5, n6, n7, n8, n9, n10,
        andM]
  | (k, v) :: l, sp, isSome, saw, first, s, rest, F, hl, hfo, hs, hF, hsp => by
    obtain ⟨G, rfl⟩ : ∃ G, F = G + 1 := ⟨F - 1, by simp at hF; omega⟩
    have hs0 : SeesT env s ((k, v) :: (l ++ rest)) := by simpa using hs
    obtain ⟨s1, h1, hs1, _, hi1, _⟩ := peek_spec s k v _ hs0
    obtain ⟨s2, h2, hs2, _, hi2, _⟩ := advance_spec s1 k v _ hs1
    obtain ⟨hk, hl'⟩ := hl
    have hmem : k ∈ quals3 ++ storage5 ++ functionSpec ++ typeSpecSimple ++ ["TYPEID"] := by
      simp only [List.mem_append, List.mem_singleton]
      rcases hk with h | h | h | h | h
      · exact .inl (.inl (.inl (.inl h)))
      · exact .inl (.inl (.inl (.inr h)))
      · exact .inl (.inl (.inr h))
      · exact .inl (.inr h)
      · exact .inr h.1
    obtain ⟨na, nb⟩ := kinds_facts k hmem
    -- the state of the next round
    have hsp' : addSpec (if isSome then some sp else none) (fun x => x) = some sp := by
      cases isSome with
      | true => rfl
      | false => rw [hsp rfl]; rfl
    obtain ⟨s3, h3, hs3, hi3⟩ := specs_loop l (addTok s.idx sp (k, v)) true (saw || isTypeTok (k, v))
      (firstCoord first s.idx ((k, v) :: l)) s2 rest G hl' hfo hs2 (by simp at hF ⊢; omega) (by intro h; cases h)
    refine ⟨s3, ?_, hs3, by simp; omega⟩
    have e2 : s2.idx = s.idx + 1 := by omega
    rw [e2] at h3
    have hfc : firstCoord (firstCoord first s.idx ((k, v) :: l)) (s.idx + 1) l = firstCoord first s.idx ((k, v) :: l) := by
      cases l <;> cases first <;> rfl
    rw [hfc] at h3
    have hfirst : ∀ st, firstOr first ⟨k, v, s.idx⟩ st = .ok (firstCoord first s.idx ((k, v) :: l)) st := by
      intro st
      cases first with
      | some c => rfl
      | none => rfl
    have hopt : (if (isSome || !((k, v) :: l).isEmpty) = true then some (foldSpec s.idx sp ((k, v) :: l)) else none) =
        (if (true || !l.isEmpty) = true then some (foldSpec (s.idx + 1) (addTok s.idx sp (k, v)) l) else none) := by
      simp [foldSpec]
    rw [hopt]
    simp only [Bool.true_or, ↓reduceIte] at h3 ⊢
    show pDeclSpecsLoop (run G) _ saw first s = _
    have hi1' : s1.idx = s.idx := hi1
    rw [hi1'] at h2
    rcases hk with h | h | h | h | h
    · have f1 := quals3_facts k h
      have hadd : addSpec (if isSome then some sp else none) (fun x => { x with qual := x.qual ++ [.str v] }) =
          some (addTok s.idx sp (k, v)) := by
        cases isSome with
        | true => simp [addSpec, addTok, f1]
        | false => rw [hsp rfl]; simp [addSpec, addTok, f1]
      have hsaw : (saw || isTypeTok (k, v)) = saw := by
        have : isTypeTok (k, v) = false := by
          revert h; simp only [isTypeTok, quals3]; intro h
          simp only [List.mem_cons, List.not_mem_nil, or_false] at h
          rcases h with rfl | rfl | rfl <;> decide
        simp [this]
      rw [hsaw] at h3
      simp [pDeclSpecsLoop, DeclSkel.bnd, h1, DeclSkel.pur, na, nb, andM, f1, hfirst, h2]
      rw [hadd]; simp only [sawAfter, hsaw]; exact h3
    · obtain ⟨f1, f2⟩ := storage5_facts k h
      have hadd : addSpec (if isSome then some sp else none) (fun x => { x with storage := x.storage ++ [.str v] }) =
          some (addTok s.idx sp (k, v)) := by
        cases isSome with
        | true => simp [addSpec, addTok, f1, f2]
        | false => rw [hsp rfl]; simp [addSpec, addTok, f1, f2]
      have hsaw : (saw || isTypeTok (k, v)) = saw := by
        have : isTypeTok (k, v) = false := by
          revert h; simp only [isTypeTok, storage5]; intro h
          simp only [List.mem_cons, List.not_mem_nil, or_false] at h
          rcases h with rfl | rfl | rfl | rfl | rfl <;> decide
        simp [this]
      rw [hsaw] at h3
      simp [pDeclSpecsLoop, DeclSkel.bnd, h1, DeclSkel.pur, na, nb, andM, f1, f2, hfirst, h2]
      rw [hadd]; simp only [sawAfter, hsaw]; exact h3
    · obtain ⟨f1, f2⟩ := funcspec_facts k h
      have f3 := h
      have hadd : addSpec (if isSome then some sp else none) (fun x => { x with function := x.function ++ [.str v] }) =
          some (addTok s.idx sp (k, v)) := by
        cases isSome with
        | true => simp [addSpec, addTok, f1, f2, f3]
        | false => rw [hsp rfl]; simp [addSpec, addTok, f1, f2, f3]
      have hsaw : (saw || isTypeTok (k, v)) = saw := by
        have : isTypeTok (k, v) = false := by
          revert h; simp only [isTypeTok, functionSpec]; intro h
          simp only [List.mem_cons, List.not_mem_nil, or_false] at h
          rcases h with rfl | rfl <;> decide
        simp [this]
      rw [hsaw] at h3
      simp [pDeclSpecsLoop, DeclSkel.bnd, h1, DeclSkel.pur, na, nb, andM, f1, f2, f3, hfirst, h2]
      rw [hadd]; simp only [sawAfter, hsaw]; exact h3
    · obtain ⟨f1, f2, f3⟩ := tkw_facts k h
      have f4 := h
      have hadd : addSpec (if isSome then some sp else none)
          (fun x => { x with type := x.type ++ [mk .IdentifierType (some ⟨"", s.idx, some (s.idx + 1)⟩) [Val.strs [v]]] }) =
          some (addTok s.idx sp (k, v)) := by
        cases isSome with
        | true => simp [addSpec, addTok, f1, f2, f3, identType, tc]
        | false => rw [hsp rfl]; simp [addSpec, addTok, f1, f2, f3, identType, tc]
      have hsaw : (saw || isTypeTok (k, v)) = true := by simp [isTypeTok, f4]
      rw [hsaw] at h3
      simp [pDeclSpecsLoop, DeclSkel.bnd, h1, DeclSkel.pur, na, nb, andM, f1, f2, f3, f4, hfirst, h2, identTypeOf, tokCoord]
      rw [hadd]; simp only [sawAfter, hsaw]; exact h3
    · obtain ⟨rfl, hsawf⟩ := h
      obtain ⟨f1, f2, f3, f4⟩ := typeid_facts
      have hadd : addSpec (if isSome then some sp else none)
          (fun x => { x with type := x.type ++ [mk .IdentifierType (some ⟨"", s.idx, some (s.idx + 1)⟩) [Val.strs [v]]] }) =
          some (addTok s.idx sp ("TYPEID", v)) := by
        cases isSome with
        | true => simp [addSpec, addTok, f1, f2, f3, identType, tc]
        | false => rw [hsp rfl]; simp [addSpec, addTok, f1, f2, f3, identType, tc]
      have hsaw : (saw || isTypeTok ("TYPEID", v)) = true := by simp [isTypeTok]
      rw [hsaw] at h3
      subst hsawf
      simp [pDeclSpecsLoop, DeclSkel.bnd, h1, DeclSkel.pur, andM, f1, f2, f3, f4, hfirst, h2, identTypeOf, tokCoord]
      rw [hadd]; simp only [sawAfter, hsaw]; exact h3

end PycModel.DeclParse
