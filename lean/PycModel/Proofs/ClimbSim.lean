import PycModel.Parser.Stmt
import PycModel.Proofs.Climb
/-!
# The model's `_parse_binary_expression` computes `Climb.climb`

Simulation of `pBinaryExpression` / `pBinaryInner` (as dispatched by `run`) by the pure algorithm
of `Proofs/Climb.lean`, relative to an abstract view `Sees s ts` of the parser state as the list of
upcoming operands and operator tokens.  What is assumed of the view (`Iface`) are the specifications of
`peek` and `advance` on it and that `run _ .castExpression` parses one operand.
-/
namespace PycModel.ClimbSim
open PycModel PycModel.Climb

/-- the AST of a tree: `BinaryOp(op, left, right)` at the coordinate of its left operand -/
def toVal : BT → Val
  | .leaf v => v
  | .node _ v l r => mk .BinaryOp ((toVal l).coord?.getD none) [.str v, toVal l, toVal r]

/-- every operand value is a node (so that `.coord` exists) -/
def Nodes : BT → Prop
  | .leaf v => v.isNode = true
  | .node _ _ l r => Nodes l ∧ Nodes r

def PTok' (x : PT) : Prop := match x with | .atom v => v.isNode = true | .tk .. => True

theorem toVal_isNode {t : BT} (h : Nodes t) : (toVal t).isNode = true := by
  cases t with
  | leaf v => exact h
  | node k v l r => rfl

theorem coordOf_node {v : Val} (h : v.isNode = true) (s : PState) :
    coordOf v s = .ok (v.coord?.getD none) s := by
  cases v <;> simp [Val.isNode] at h
  simp [coordOf, valCoord, Val.coord?, attrOrCrash]
  rfl

/-- what the simulation needs of the state view -/
structure Iface (Sees : PState → List PT → Prop) (fuel0 : Nat) : Prop where
  peek_tk : ∀ s k v ts, Sees s (.tk k v :: ts) →
    ∃ s' i, peek s = .ok (some ⟨k, v, i⟩) s' ∧ Sees s' (.tk k v :: ts)
  peek_nil : ∀ s, Sees s [] → ∃ s', peek s = .ok none s' ∧ Sees s' []
  adv_tk : ∀ s k v ts, Sees s (.tk k v :: ts) →
    ∃ s' i, advance s = .ok ⟨k, v, i⟩ s' ∧ Sees s' ts
  operand : ∀ fuel s a ts, fuel0 ≤ fuel → Sees s (.atom a :: ts) →
    ∃ s', run fuel .castExpression s = .ok a s' ∧ Sees s' ts

theorem bind_apply {α β} (m : P α) (f : α → P β) (s : PState) :
    (m >>= f) s = match m s with | .ok a s' => f a s' | .err e => .err e := rfl
theorem pure_apply {α} (a : α) (s : PState) : (pure a : P α) s = .ok a s := rfl

theorem run_binExpr (F m l) : run (F + 1) (.binaryExpression m l) = pBinaryExpression (run F) m l := rfl
theorem run_binInner (F p r) : run (F + 1) (.binaryInner p r) = pBinaryInner (run F) p r := rfl


variable {Sees : PState → List PT → Prop} {fuel0 : Nat}

def ClimbSim (Sees : PState → List PT → Prop) (fuel0 f : Nat) : Prop :=
  ∀ F m lhs ts t ts' s, f + fuel0 ≤ F → climb binPrec f m lhs ts = some (t, ts') →
    (∀ l, lhs = some l → Nodes l) → (∀ x ∈ ts, PTok' x) → Sees s ts →
    ∃ s', run F (.binaryExpression m (lhs.map toVal)) s = .ok (toVal t) s' ∧ Sees s' ts' ∧ Nodes t ∧
      ∀ x ∈ ts', PTok' x

def InnerSim (Sees : PState → List PT → Prop) (fuel0 f : Nat) : Prop :=
  ∀ F p rhs ts t ts' s, f + fuel0 ≤ F → inner binPrec f p rhs ts = some (t, ts') →
    Nodes rhs → (∀ x ∈ ts, PTok' x) → Sees s ts →
    ∃ s', run F (.binaryInner p (toVal rhs)) s = .ok (toVal t) s' ∧ Sees s' ts' ∧ Nodes t ∧
      ∀ x ∈ ts', PTok' x

theorem inner_sim_step (hI : Iface Sees fuel0) (f : Nat) (ihc : ClimbSim Sees fuel0 f) (ihi : InnerSim Sees fuel0 f) :
    InnerSim Sees fuel0 (f + 1) := by
  intro F p rhs ts t ts' s hF hc hn hts hsees
  obtain ⟨F', rfl⟩ : ∃ F', F = F' + 1 := ⟨F - 1, by omega⟩
  rw [inner_succ] at hc
  rw [run_binInner]
  cases ts with
  | nil =>
    simp only at hc
    obtain ⟨rfl, rfl⟩ : rhs = t ∧ [] = ts' := by simpa using hc
    obtain ⟨s', hp, hs'⟩ := hI.peek_nil s hsees
    exact ⟨s', by simp [pBinaryInner, bind_apply, hp, pure_apply], hs', hn, hts⟩
  | cons x r =>
    cases x with
    | atom a => simp at hc
    | tk k v =>
      simp only at hc
      obtain ⟨s1, i, hp, hs1⟩ := hI.peek_tk s k v r hsees
      cases hprec : binPrec k with
      | none =>
        simp only [hprec] at hc
        obtain ⟨rfl, rfl⟩ : rhs = t ∧ PT.tk k v :: r = ts' := by simpa using hc
        exact ⟨s1, by simp [pBinaryInner, bind_apply, hp, hprec, pure_apply], hs1, hn, hts⟩
      | some np =>
        simp only [hprec] at hc
        by_cases hgt : np > p
        · rw [if_pos hgt] at hc
          cases hcl : climb binPrec f np (some rhs) (PT.tk k v :: r) with
          | none => simp [hcl] at hc
          | some x =>
            obtain ⟨rhs', r'⟩ := x
            simp only [hcl] at hc
            obtain ⟨s2, h2, hs2, hn2, hts2⟩ := ihc F' np (some rhs) _ rhs' r' s1 (by omega) hcl
              (by intro l hl; cases hl; exact hn) hts hs1
            obtain ⟨s3, h3, hs3, hn3, hts3⟩ := ihi F' p rhs' r' t ts' s2 (by omega) hc hn2 hts2 hs2
            refine ⟨s3, ?_, hs3, hn3, hts3⟩
            simp only [Option.map_some] at h2
            simp [pBinaryInner, bind_apply, hp, hprec, hgt, h2, h3]
        · rw [if_neg hgt] at hc
          obtain ⟨rfl, rfl⟩ : rhs = t ∧ PT.tk k v :: r = ts' := by simpa using hc
          exact ⟨s1, by simp [pBinaryInner, bind_apply, hp, hprec, hgt, pure_apply], hs1, hn, hts⟩


/-- the part of the outer loop after the left operand is known (pure side) -/
def tailStep (f m : Nat) (lhs : BT) (ts1 : List PT) : Option (BT × List PT) :=
  match ts1 with
  | .tk k v :: r =>
    match binPrec k with
    | none => some (lhs, ts1)
    | some p =>
      if p < m then some (lhs, ts1) else
      match r with
      | .atom a :: r2 =>
        match inner binPrec f p (.leaf a) r2 with
        | some (rhs, r3) => climb binPrec f m (some (.node k v lhs rhs)) r3
        | none => none
      | _ => none
  | .atom _ :: _ => none
  | [] => some (lhs, [])

theorem climb_some (f m : Nat) (l : BT) (ts : List PT) :
    climb binPrec (f + 1) m (some l) ts = tailStep f m l ts := by
  rw [climb_succ]; rfl

theorem climb_none (f m : Nat) (ts : List PT) :
    climb binPrec (f + 1) m none ts =
      match ts with
      | .atom a :: r => tailStep f m (.leaf a) r
      | _ => none := by
  rw [climb_succ]
  cases ts with
  | nil => rfl
  | cons x r => cases x <;> rfl

/-- the same part of the model (monadic side) -/
def tailM (F' m : Nat) (lhs : Val) : P Val := do
  match ← peek with
  | none => pure lhs
  | some tok =>
    match binPrec tok.kind with
    | none => pure lhs
    | some prec =>
      if prec < m then pure lhs else do
      let op := tok.val
      let _ ← advance
      let rhs ← run F' .castExpression
      let rhs ← run F' (.binaryInner prec rhs)
      let lhs' := mk .BinaryOp (← coordOf lhs) [.str op, lhs, rhs]
      run F' (.binaryExpression m (some lhs'))

theorem model_some (F' m : Nat) (l : Val) :
    run (F' + 1) (.binaryExpression m (some l)) = tailM F' m l := by
  show pBinaryExpression (run F') m (some l) = _
  unfold pBinaryExpression tailM
  rfl

theorem model_none (F' m : Nat) :
    run (F' + 1) (.binaryExpression m none) = (run F' .castExpression >>= tailM F' m : P Val) := by
  show pBinaryExpression (run F') m none = _
  unfold pBinaryExpression tailM
  rfl

theorem climb_sim_tail (hI : Iface Sees fuel0) (f : Nat) (ihc : ClimbSim Sees fuel0 f) (ihi : InnerSim Sees fuel0 f)
    (F' m : Nat) (hF : f + fuel0 ≤ F') (lhs : BT) (ts1 : List PT) (t : BT) (ts' : List PT)
    (hc : tailStep f m lhs ts1 = some (t, ts')) (hl : Nodes lhs) (hts : ∀ x ∈ ts1, PTok' x)
    (s1 : PState) (hsees : Sees s1 ts1) :
    ∃ s', tailM F' m (toVal lhs) s1 = .ok (toVal t) s' ∧ Sees s' ts' ∧ Nodes t ∧ ∀ x ∈ ts', PTok' x := by
  unfold tailStep at hc
  cases ts1 with
  | nil =>
    obtain ⟨rfl, rfl⟩ : lhs = t ∧ [] = ts' := by simpa using hc
    obtain ⟨s', hp, hs'⟩ := hI.peek_nil s1 hsees
    exact ⟨s', by simp [tailM, bind_apply, hp, pure_apply], hs', hl, hts⟩
  | cons x r =>
    cases x with
    | atom a => simp at hc
    | tk k v =>
      simp only at hc
      obtain ⟨s2, i, hp, hs2⟩ := hI.peek_tk s1 k v r hsees
      cases hprec : binPrec k with
      | none =>
        simp only [hprec] at hc
        obtain ⟨rfl, rfl⟩ : lhs = t ∧ PT.tk k v :: r = ts' := by simpa using hc
        exact ⟨s2, by simp [tailM, bind_apply, hp, hprec, pure_apply], hs2, hl, hts⟩
      | some p =>
        simp only [hprec] at hc
        by_cases hlt : p < m
        · rw [if_pos hlt] at hc
          obtain ⟨rfl, rfl⟩ : lhs = t ∧ PT.tk k v :: r = ts' := by simpa using hc
          exact ⟨s2, by simp [tailM, bind_apply, hp, hprec, hlt, pure_apply], hs2, hl, hts⟩
        · rw [if_neg hlt] at hc
          obtain ⟨s3, j, ha, hs3⟩ := hI.adv_tk s2 k v r hs2
          cases r with
          | nil => simp at hc
          | cons y r2 =>
            cases y with
            | tk _ _ => simp at hc
            | atom a =>
              simp only at hc
              have hnode_a : a.isNode = true := hts (.atom a) (by simp)
              obtain ⟨s4, hop, hs4⟩ := hI.operand F' s3 a r2 (by omega) hs3
              cases hin : inner binPrec f p (.leaf a) r2 with
              | none => simp [hin] at hc
              | some x =>
                obtain ⟨rhs, r3⟩ := x
                simp only [hin] at hc
                obtain ⟨s5, h5, hs5, hn5, hts5⟩ := ihi F' p (.leaf a) r2 rhs r3 s4 hF hin hnode_a
                  (fun x hx => hts x (by simp [hx])) hs4
                obtain ⟨s6, h6, hs6, hn6, hts6⟩ := ihc F' m (some (.node k v lhs rhs)) r3 t ts' s5 hF hc
                  (by intro l hl'; cases hl'; exact ⟨hl, hn5⟩) hts5 hs5
                refine ⟨s6, ?_, hs6, hn6, hts6⟩
                have hco := coordOf_node (toVal_isNode hl) s5
                simp only [toVal] at h5
                simp only [Option.map_some, toVal] at h6
                simp [tailM, bind_apply, hp, hprec, hlt, ha, hop, h5, hco, h6]

theorem climb_sim_step (hI : Iface Sees fuel0) (f : Nat) (ihc : ClimbSim Sees fuel0 f) (ihi : InnerSim Sees fuel0 f) :
    ClimbSim Sees fuel0 (f + 1) := by
  intro F m lhs ts t ts' s hF hc hn hts hsees
  obtain ⟨F', rfl⟩ : ∃ F', F = F' + 1 := ⟨F - 1, by omega⟩
  cases lhs with
  | some l =>
    rw [climb_some] at hc
    obtain ⟨s', h, rest⟩ := climb_sim_tail hI f ihc ihi F' m (by omega) l ts t ts' hc (hn l rfl) hts s hsees
    refine ⟨s', ?_, rest⟩
    rw [Option.map_some, model_some]
    exact h
  | none =>
    rw [climb_none] at hc
    cases ts with
    | nil => simp at hc
    | cons x r =>
      cases x with
      | tk _ _ => simp at hc
      | atom a =>
        simp only at hc
        have hnode_a : a.isNode = true := hts (.atom a) (by simp)
        obtain ⟨s1, hop, hs1⟩ := hI.operand F' s a r (by omega) hsees
        obtain ⟨s', h, rest⟩ := climb_sim_tail hI f ihc ihi F' m (by omega) (.leaf a) r t ts' hc hnode_a
          (fun x hx => hts x (by simp [hx])) s1 hs1
        refine ⟨s', ?_, rest⟩
        rw [Option.map_none, model_none, bind_apply, hop]
        exact h

/-- **Simulation.** Whenever the pure algorithm succeeds, the model's binary-expression parser
(every sufficient fuel) returns the AST of the same tree and leaves the same tokens. -/
theorem sim (hI : Iface Sees fuel0) : ∀ f, ClimbSim Sees fuel0 f ∧ InnerSim Sees fuel0 f := by
  intro f
  induction f with
  | zero =>
    exact ⟨fun _ _ _ _ _ _ _ _ h => by simp [climb] at h, fun _ _ _ _ _ _ _ _ h => by simp [inner] at h⟩
  | succ f ih => exact ⟨climb_sim_step hI f ih.1 ih.2, inner_sim_step hI f ih.1 ih.2⟩


theorem toks_ok : ∀ (t : BT), Nodes t → ∀ x ∈ t.toks, PTok' x
  | .leaf v, h, x, hx => by
    simp only [BT.toks, List.mem_singleton] at hx
    subst hx; exact h
  | .node k v l r, h, x, hx => by
    simp only [BT.toks, List.mem_append, List.mem_singleton] at hx
    rcases hx with (hx | hx) | hx
    · exact toks_ok l h.1 x hx
    · subst hx; trivial
    · exact toks_ok r h.2 x hx

/-- **The model's binary-expression parser returns the grammar's tree** (relative to `Iface`):
for every tree `t` of the level-`m` nonterminal whose operands are nodes, in any state that sees
the tokens of `t` followed by a continuation `k` that does not start with an operand or with a
binary operator of level `m` or tighter, `run F (.binaryExpression m none)` returns the AST of `t`
and leaves exactly `k`, for every fuel >= 2 * (nodes of `t`) + the operands' fuel. -/
theorem binary_expression_parses_grammar_tree (hI : Iface Sees fuel0) (t : BT) (m : Nat)
    (hwf : WF binPrec m t) (hn : Nodes t) (k : List PT) (hk : StopAt binPrec m k) (hkt : ∀ x ∈ k, PTok' x)
    (s : PState) (hs : Sees s (t.toks ++ k)) :
    ∀ F, 2 * t.size + fuel0 ≤ F → ∃ s', run F (.binaryExpression m none) s = .ok (toVal t) s' ∧ Sees s' k := by
  have hf0 := climb_correct binPrec t m hwf k hk
  intro F hF
  obtain ⟨s', h, hs', _, _⟩ := (sim hI (2 * t.size)).1 F m none (t.toks ++ k) t k s hF (hf0 _ (Nat.le_refl _))
    (by intro l hl; cases hl)
    (by intro x hx; rcases List.mem_append.mp hx with hx | hx; exact toks_ok t hn x hx; exact hkt x hx) hs
  exact ⟨s', h, hs'⟩

end PycModel.ClimbSim
