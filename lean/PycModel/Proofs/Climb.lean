import PycModel.Ast
/-!
# Precedence climbing is correct (pure mirror of `_parse_binary_expression`)

`climb` / `inner` mirror the two nested `while True` loops of `CParser._parse_binary_expression`
(model: `pBinaryExpression` / `pBinaryInner`) on an abstract token list in which every operand
(cast-expression) is a single `atom`.  `BT` is the tree the C grammar's ten-level expression
productions assign; `WF m t` says `t` is derivable from the level-`m` nonterminal
(`E_m ::= E_m op_m E_{m+1} | E_{m+1}`): left operands of the same level, right operands strictly
tighter.  `climb_correct`: on the in-order token list of *any* well-formed tree the algorithm
returns exactly that tree and stops at the first token that is not a binary operator.
-/
namespace PycModel.Climb

inductive BT where
  | leaf (v : Val)
  | node (kind val : String) (l r : BT)
  deriving Inhabited

inductive PT where
  | atom (v : Val)
  | tk (kind val : String)
  deriving Inhabited

def BT.toks : BT → List PT
  | .leaf v => [.atom v]
  | .node k v l r => l.toks ++ [.tk k v] ++ r.toks

variable (prec : String → Option Nat)

/-- derivable from the level-`m` expression nonterminal -/
inductive WF : Nat → BT → Prop
  | leaf (m v) : WF m (.leaf v)
  | node (m p k v l r) : prec k = some p → m ≤ p → WF p l → WF (p + 1) r → WF m (.node k v l r)

mutual
/-- outer loop of `_parse_binary_expression` (entered with or without a left operand) -/
def climb : Nat → Nat → Option BT → List PT → Option (BT × List PT)
  | 0, _, _, _ => none
  | f+1, m, lhs?, ts =>
    let start : Option (BT × List PT) := match lhs? with
      | some l => some (l, ts)
      | none => match ts with
        | .atom v :: r => some (.leaf v, r)
        | _ => none
    match start with
    | none => none
    | some (lhs, ts1) =>
      match ts1 with
      | .tk k v :: r =>
        match prec k with
        | none => some (lhs, ts1)
        | some p =>
          if p < m then some (lhs, ts1) else
          match r with
          | .atom a :: r2 =>
            match inner f p (.leaf a) r2 with
            | some (rhs, r3) => climb f m (some (.node k v lhs rhs)) r3
            | none => none
          | _ => none
      | .atom _ :: _ => none
      | [] => some (lhs, [])
/-- inner loop: extend the right operand while the next operator binds tighter -/
def inner : Nat → Nat → BT → List PT → Option (BT × List PT)
  | 0, _, _, _ => none
  | f+1, p, rhs, ts =>
    match ts with
    | .tk k _ :: _ =>
      match prec k with
      | none => some (rhs, ts)
      | some np =>
        if np > p then
          match climb f np (some rhs) ts with
          | some (rhs', r) => inner f p rhs' r
          | none => none
        else some (rhs, ts)
    | .atom _ :: _ => none
    | [] => some (rhs, [])
end


/-! ## more fuel never changes a result -/

theorem climb_succ (f m : Nat) (l : Option BT) (ts : List PT) :
    climb prec (f + 1) m l ts =
      match (match l with
        | some l => some (l, ts)
        | none => match ts with
          | .atom v :: r => some (BT.leaf v, r)
          | _ => none : Option (BT × List PT)) with
      | none => none
      | some (lhs, ts1) =>
        match ts1 with
        | .tk k v :: r =>
          match prec k with
          | none => some (lhs, ts1)
          | some p =>
            if p < m then some (lhs, ts1) else
            match r with
            | .atom a :: r2 =>
              match inner prec f p (.leaf a) r2 with
              | some (rhs, r3) => climb prec f m (some (.node k v lhs rhs)) r3
              | none => none
            | _ => none
        | .atom _ :: _ => none
        | [] => some (lhs, []) := by
  rw [climb.eq_def]

theorem inner_succ (f p : Nat) (b : BT) (ts : List PT) :
    inner prec (f + 1) p b ts =
      match ts with
      | .tk k _ :: _ =>
        match prec k with
        | none => some (b, ts)
        | some np =>
          if np > p then
            match climb prec f np (some b) ts with
            | some (rhs', r) => inner prec f p rhs' r
            | none => none
          else some (b, ts)
      | .atom _ :: _ => none
      | [] => some (b, []) := by
  rw [inner.eq_def]

theorem mono_step : ∀ f : Nat,
    (∀ m l ts r, climb prec f m l ts = some r → climb prec (f + 1) m l ts = some r) ∧
    (∀ p b ts r, inner prec f p b ts = some r → inner prec (f + 1) p b ts = some r) := by
  intro f
  induction f with
  | zero => exact ⟨fun _ _ _ _ h => by simp [climb] at h, fun _ _ _ _ h => by simp [inner] at h⟩
  | succ f ih =>
    obtain ⟨ihc, ihi⟩ := ih
    refine ⟨?_, ?_⟩
    · intro m l ts r h
      rw [climb_succ] at h ⊢
      revert h
      cases hst : (match l with
        | some l => some (l, ts)
        | none => match ts with
          | .atom v :: r => some (BT.leaf v, r)
          | _ => none : Option (BT × List PT)) with
      | none => simp
      | some st =>
        obtain ⟨lhs, ts1⟩ := st
        simp only
        cases ts1 with
        | nil => simp
        | cons t r1 =>
          cases t with
          | atom a => simp
          | tk k v =>
            simp only
            cases prec k with
            | none => simp
            | some p =>
              simp only
              split
              · simp
              · cases r1 with
                | nil => simp
                | cons t2 r2 =>
                  cases t2 with
                  | tk _ _ => simp
                  | atom a =>
                    simp only
                    cases hi : inner prec f p (.leaf a) r2 with
                    | none => simp
                    | some x =>
                      obtain ⟨rhs, r3⟩ := x
                      rw [ihi _ _ _ _ hi]
                      simp only
                      exact ihc _ _ _ _
    · intro p b ts r h
      rw [inner_succ] at h ⊢
      revert h
      cases ts with
      | nil => simp
      | cons t r1 =>
        cases t with
        | atom a => simp
        | tk k v =>
          simp only
          cases prec k with
          | none => simp
          | some np =>
            simp only
            split
            · cases hc : climb prec f np (some b) (PT.tk k v :: r1) with
              | none => simp
              | some x =>
                obtain ⟨rhs', r⟩ := x
                rw [ihc _ _ _ _ hc]
                simp only
                exact ihi _ _ _ _
            · simp

theorem climb_mono {f g : Nat} (h : f ≤ g) {m l ts r} (hc : climb prec f m l ts = some r) :
    climb prec g m l ts = some r := by
  induction h with
  | refl => exact hc
  | step _ ih => exact (mono_step prec _).1 _ _ _ _ ih

theorem inner_mono {f g : Nat} (h : f ≤ g) {p b ts r} (hc : inner prec f p b ts = some r) :
    inner prec g p b ts = some r := by
  induction h with
  | refl => exact hc
  | step _ ih => exact (mono_step prec _).2 _ _ _ _ ih


/-! ## left spines -/

abbrev Spine := List (String × String × BT)

def foldSp (lhs : BT) : Spine → BT
  | [] => lhs
  | (k, v, r) :: sp => foldSp (.node k v lhs r) sp

def flatSp : Spine → List PT
  | [] => []
  | (k, v, r) :: sp => .tk k v :: (r.toks ++ flatSp sp)

def BT.size : BT → Nat
  | .leaf _ => 1
  | .node _ _ l r => 1 + l.size + r.size

def spSize : Spine → Nat
  | [] => 0
  | (_, _, r) :: sp => 1 + r.size + spSize sp

/-- operator of a spine entry binds at least as tightly as level `m` -/
def geP (m : Nat) (e : String × String × BT) : Bool :=
  match prec e.1 with
  | some p => decide (m ≤ p)
  | none => false

/-- precedences do not increase along the spine (bottom-up), right operands one level tighter -/
inductive SpOK : Nat → Spine → Prop
  | nil (u) : SpOK u []
  | cons (u k v r sp p) : prec k = some p → p ≤ u → WF prec (p + 1) r → SpOK p sp → SpOK u ((k, v, r) :: sp)

theorem foldSp_append (lhs : BT) (a b : Spine) : foldSp lhs (a ++ b) = foldSp (foldSp lhs a) b := by
  induction a generalizing lhs with
  | nil => rfl
  | cons e a ih => obtain ⟨k, v, r⟩ := e; simp [foldSp, ih]

theorem flatSp_append (a b : Spine) : flatSp (a ++ b) = flatSp a ++ flatSp b := by
  induction a with
  | nil => rfl
  | cons e a ih => obtain ⟨k, v, r⟩ := e; simp [flatSp, ih]

theorem spSize_append (a b : Spine) : spSize (a ++ b) = spSize a + spSize b := by
  induction a with
  | nil => simp [spSize]
  | cons e a ih => obtain ⟨k, v, r⟩ := e; simp [spSize, ih]; omega

theorem SpOK.weaken {u u' : Nat} {sp : Spine} (h : SpOK prec u sp) (hu : u ≤ u') : SpOK prec u' sp := by
  cases h with
  | nil => exact .nil _
  | cons _ k v r sp p hp hle hw hs => exact .cons _ k v r sp p hp (Nat.le_trans hle hu) hw hs

theorem SpOK.snoc {u : Nat} {sp : Spine} (h : SpOK prec u sp) {k v : String} {r : BT} {p : Nat}
    (hp : prec k = some p) (hu : p ≤ u) (hw : WF prec (p + 1) r) (hall : ∀ e ∈ sp, geP prec p e = true) :
    SpOK prec u (sp ++ [(k, v, r)]) := by
  induction h with
  | nil u => exact .cons _ k v r [] p hp hu hw (.nil _)
  | cons u k' v' r' sp' p' hp' hle' hw' hs' ih =>
    have hge : p ≤ p' := by
      have := hall (k', v', r') (by simp)
      simpa [geP, hp'] using this
    exact .cons _ k' v' r' _ p' hp' hle' hw' (ih hge (fun e he => hall e (by simp [he])))

/-- every well-formed tree is its leftmost leaf folded with its left spine -/
theorem spine_of_tree : ∀ (t : BT) (m : Nat), WF prec m t →
    ∃ a sp u, t = foldSp (.leaf a) sp ∧ t.toks = .atom a :: flatSp sp ∧ SpOK prec u sp ∧
      (∀ e ∈ sp, geP prec m e = true) ∧ spSize sp + 1 = t.size := by
  intro t
  induction t with
  | leaf v => intro m _; exact ⟨v, [], 0, rfl, rfl, .nil _, by simp, by simp [spSize, BT.size]⟩
  | node k v l r ihl _ =>
    intro m h
    cases h with
    | node _ p _ _ _ _ hp hmp hl hr =>
      obtain ⟨a, sp, u, hfold, htoks, hok, hall, hsz⟩ := ihl p hl
      refine ⟨a, sp ++ [(k, v, r)], max u p, ?_, ?_, ?_, ?_, ?_⟩
      · rw [foldSp_append, ← hfold]; rfl
      · simp [BT.toks, htoks, flatSp_append, flatSp]
      · exact (hok.weaken prec (Nat.le_max_left u p)).snoc prec hp (Nat.le_max_right u p) hr hall
      · intro e he
        rcases List.mem_append.mp he with he | he
        · have := hall e he
          unfold geP at this ⊢
          cases hq : prec e.1 with
          | none => simp [hq] at this
          | some q => simp [hq] at this ⊢; omega
        · simp only [List.mem_singleton] at he
          subst he
          simp [geP, hp, hmp]
      · simp [spSize_append, spSize, BT.size]; omega


/-! ## the two loops on spines -/

/-- the token list does not continue with a binary operator of level `m` or tighter -/
def StopAt (m : Nat) (k : List PT) : Prop :=
  (∀ kk v r p, k = .tk kk v :: r → prec kk = some p → p < m) ∧ ∀ a r, k ≠ .atom a :: r

theorem SpOK.dropWhile {u : Nat} {sp : Spine} (h : SpOK prec u sp) (P : String × String × BT → Bool) :
    SpOK prec u (sp.dropWhile P) := by
  induction h with
  | nil u => exact .nil _
  | cons u k v r sp p hp hle hw hs ih =>
    simp only [List.dropWhile_cons]
    split
    · exact ih.weaken prec hle
    · exact .cons _ k v r sp p hp hle hw hs

theorem spSize_dropWhile_le (sp : Spine) (P : String × String × BT → Bool) :
    spSize (sp.dropWhile P) ≤ spSize sp := by
  induction sp with
  | nil => simp
  | cons e sp ih =>
    obtain ⟨k, v, r⟩ := e
    simp only [List.dropWhile_cons]
    split
    · simp only [spSize]; omega
    · exact Nat.le_refl _

/-- the outer loop on a spine, with an explicit (linear) fuel bound -/
def ClimbOK (sp : Spine) : Prop :=
  ∀ (u : Nat) (lhs : BT) (m : Nat) (k : List PT), SpOK prec u sp → StopAt prec m k →
    ∀ f, 2 * spSize sp + 1 ≤ f → climb prec f m (some lhs) (flatSp sp ++ k) =
      some (foldSp lhs (sp.takeWhile (geP prec m)), flatSp (sp.dropWhile (geP prec m)) ++ k)

def InnerOK (sp : Spine) : Prop :=
  ∀ (u : Nat) (lhs : BT) (q : Nat) (k : List PT), SpOK prec u sp → (∀ e ∈ sp, geP prec (q + 1) e = true) →
    StopAt prec (q + 1) k →
    ∀ f, 2 * spSize sp + 2 ≤ f → inner prec f q lhs (flatSp sp ++ k) = some (foldSp lhs sp, k)

theorem BT.size_pos (t : BT) : 1 ≤ t.size := by cases t <;> simp [BT.size] <;> omega

theorem both_ok : ∀ (n : Nat) (sp : Spine), spSize sp ≤ n → ClimbOK prec sp ∧ InnerOK prec sp := by
  intro n
  induction n with
  | zero =>
    intro sp hsz
    have : sp = [] := by
      cases sp with
      | nil => rfl
      | cons e sp => obtain ⟨k, v, r⟩ := e; simp [spSize] at hsz
    subst this
    refine ⟨?_, ?_⟩
    · intro u lhs m k _ hstop f hf
      obtain ⟨f', rfl⟩ : ∃ f', f = f' + 1 := ⟨f - 1, by omega⟩
      rw [climb_succ]
      simp only [flatSp, List.nil_append, List.takeWhile_nil, List.dropWhile_nil, foldSp]
      cases k with
      | nil => rfl
      | cons t r =>
        cases t with
        | atom a => exact absurd rfl (hstop.2 a r)
        | tk kk v =>
          simp only
          cases hp : prec kk with
          | none => rfl
          | some p => simp [hstop.1 kk v r p rfl hp]
    · intro u lhs q k _ _ hstop f hf
      obtain ⟨f', rfl⟩ : ∃ f', f = f' + 1 := ⟨f - 1, by omega⟩
      rw [inner_succ]
      simp only [flatSp, List.nil_append, foldSp]
      cases k with
      | nil => rfl
      | cons t r =>
        cases t with
        | atom a => exact absurd rfl (hstop.2 a r)
        | tk kk v =>
          simp only
          cases hp : prec kk with
          | none => rfl
          | some p =>
            have := hstop.1 kk v r p rfl hp
            simp only
            rw [if_neg (by omega)]
  | succ n ih =>
    intro sp hsz
    cases sp with
    | nil => exact ih [] (by simp [spSize])
    | cons e sp' =>
      obtain ⟨k1, v1, r1⟩ := e
      have hsz' : spSize sp' + r1.size ≤ n := by simp [spSize] at hsz; omega
      have hr1 := BT.size_pos r1
      -- the outer loop
      have hclimb : ClimbOK prec ((k1, v1, r1) :: sp') := by
        intro u lhs m k hok hstop f hf
        obtain ⟨f', rfl⟩ : ∃ f', f = f' + 1 := ⟨f - 1, by omega⟩
        simp only [spSize] at hf
        cases hok with
        | cons _ _ _ _ _ p1 hp1 hle hw hs =>
          by_cases hlt : p1 < m
          · rw [climb_succ]
            have hg : geP prec m (k1, v1, r1) = false := by simp [geP, hp1]; omega
            simp [flatSp, hp1, hlt, hg, foldSp]
          · have hg : geP prec m (k1, v1, r1) = true := by simp [geP, hp1]; omega
            obtain ⟨a, spR, uR, hfold, htoks, hokR, hallR, hszR⟩ := spine_of_tree prec r1 (p1 + 1) hw
            -- the right operand, by the inner loop on its own spine
            have hstop2 : StopAt prec (p1 + 1) (flatSp sp' ++ k) := by
              refine ⟨?_, ?_⟩
              · intro kk v r p heq hp
                cases hs with
                | nil =>
                  simp only [flatSp, List.nil_append] at heq
                  have := hstop.1 kk v r p heq hp
                  omega
                | cons _ k2 v2 r2 sp2 p2 hp2 hle2 _ _ =>
                  simp only [flatSp, List.cons_append, List.cons.injEq, PT.tk.injEq] at heq
                  obtain ⟨⟨rfl, _⟩, _⟩ := heq
                  rw [hp2] at hp; cases hp
                  omega
              · intro a r heq
                cases hs with
                | nil => exact hstop.2 a r (by simpa [flatSp] using heq)
                | cons _ k2 v2 r2 sp2 p2 _ _ _ _ => simp [flatSp] at heq
            have hfi := (ih spR (by omega)).2 uR (.leaf a) p1 (flatSp sp' ++ k) hokR hallR hstop2
            have hfc := (ih sp' (by omega)).1 p1 (.node k1 v1 lhs r1) m k hs hstop
            rw [climb_succ]
            simp only [flatSp, List.cons_append, hp1, hlt, ↓reduceIte, htoks]
            simp only [List.append_assoc]
            rw [hfi f' (by omega)]
            simp only [← hfold]
            rw [hfc f' (by omega)]
            simp [hg, foldSp]
      refine ⟨hclimb, ?_⟩
      -- the inner loop
      intro u lhs q k hok hall hstop f hf
      obtain ⟨f', rfl⟩ : ∃ f', f = f' + 1 := ⟨f - 1, by omega⟩
      have hok' := hok
      cases hok with
      | cons _ _ _ _ _ p1 hp1 hle hw hs =>
        have hgt : q < p1 := by
          have := hall (k1, v1, r1) (by simp)
          simp [geP, hp1] at this; omega
        have hstop1 : StopAt prec p1 k := by
          refine ⟨?_, hstop.2⟩
          intro kk v r p heq hp
          have := hstop.1 kk v r p heq hp
          omega
        have hfc := hclimb u lhs p1 k hok' hstop1
        have hg : geP prec p1 (k1, v1, r1) = true := by simp [geP, hp1]
        -- what is left after the outer loop took the operators of level p1 and tighter
        have hdle := spSize_dropWhile_le sp' (geP prec p1)
        have hdsz : spSize (((k1, v1, r1) :: sp').dropWhile (geP prec p1)) ≤ n := by
          simp only [List.dropWhile_cons, hg, ↓reduceIte]
          omega
        have hdall : ∀ e ∈ ((k1, v1, r1) :: sp').dropWhile (geP prec p1), geP prec (q + 1) e = true :=
          fun e he => hall e (List.dropWhile_subset _ he)
        have hfi := (ih _ hdsz).2 u (foldSp lhs (((k1, v1, r1) :: sp').takeWhile (geP prec p1))) q k
          (hok'.dropWhile prec _) hdall hstop
        simp only [spSize] at hf
        rw [inner_succ]
        simp only [flatSp, List.cons_append, hp1]
        rw [if_pos (by omega)]
        have := hfc f' (by simp only [spSize]; omega)
        simp only [flatSp, List.cons_append] at this
        rw [this]
        simp only
        rw [hfi f' (by simp only [List.dropWhile_cons, hg, ↓reduceIte]; omega), ← foldSp_append,
          List.takeWhile_append_dropWhile]

/-! ## the theorems -/

theorem climb_none_atom (f m : Nat) (a : Val) (ts : List PT) :
    climb prec f m none (.atom a :: ts) = climb prec f m (some (.leaf a)) ts := by
  cases f with
  | zero => simp [climb]
  | succ f => rw [climb_succ, climb_succ]

theorem takeWhile_all {α} (P : α → Bool) (l : List α) (h : ∀ e ∈ l, P e = true) :
    l.takeWhile P = l ∧ l.dropWhile P = [] := by
  induction l with
  | nil => simp
  | cons e l ih =>
    have he := h e (by simp)
    have := ih (fun x hx => h x (by simp [hx]))
    simp [List.takeWhile_cons, List.dropWhile_cons, he, this]

/-- **Precedence climbing returns the grammar's tree.** For every tree `t` derivable from the
level-`m` expression nonterminal and every continuation `k` that does not start with a binary
operator of level `m` or tighter, the algorithm run at level `m` on the in-order tokens of `t`
followed by `k` returns exactly `t` and leaves exactly `k`, with fuel (recursion depth + loop
iterations) at most twice the number of nodes of `t`: linear in the number of tokens. -/
theorem climb_correct (t : BT) (m : Nat) (h : WF prec m t) (k : List PT) (hk : StopAt prec m k) :
    ∀ f, 2 * t.size ≤ f → climb prec f m none (t.toks ++ k) = some (t, k) := by
  obtain ⟨a, sp, u, hfold, htoks, hok, hall, hsz⟩ := spine_of_tree prec t m h
  have hf0 := (both_ok prec (spSize sp) sp (Nat.le_refl _)).1 u (.leaf a) m k hok hk
  intro f hf
  have ht := takeWhile_all (geP prec m) sp hall
  rw [htoks, List.cons_append, climb_none_atom, hf0 f (by omega), ht.1, ht.2, ← hfold]
  rfl

/-- **The tree is unique**: two well-formed trees with the same tokens are the same tree -/
theorem wf_tree_unique (t1 t2 : BT) (m : Nat) (h1 : WF prec m t1) (h2 : WF prec m t2)
    (h : t1.toks = t2.toks) : t1 = t2 := by
  have hs : StopAt prec m [] := by
    refine ⟨?_, ?_⟩
    · intro _ _ _ _ h; cases h
    · intro _ _ h; cases h
  have a := climb_correct prec t1 m h1 [] hs (max (2 * t1.size) (2 * t2.size)) (Nat.le_max_left _ _)
  have b := climb_correct prec t2 m h2 [] hs (max (2 * t1.size) (2 * t2.size)) (Nat.le_max_right _ _)
  rw [h, b] at a
  simpa using a.symm

end PycModel.Climb
