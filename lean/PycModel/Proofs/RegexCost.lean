import PycModel.Regex
/-!
# Syntactic cost and shape analyses of the (regenerated) lexer regexes

`starHeight`: nesting depth of *unbounded* repetitions.  Python's backtracking matcher can take
exponential time on patterns such as `(x+)*y`; every rule of `c_lexer.py` has star height <= 1
(obligation `C16.impl_star_height`).  `reEq`: decidable structural equality of patterns, used to
pin the two directive-dispatch patterns (`C18.impl_directive_patterns`).
-/
namespace PycModel

def Re.starHeight : Re → Nat
  | .eps => 0 | .fail => 0 | .eos => 0 | .cls _ _ => 0
  | .seq a b => max a.starHeight b.starHeight
  | .alt a b => max a.starHeight b.starHeight
  | .rep _ none r => r.starHeight + 1
  | .rep _ (some _) r => r.starHeight
  | .nla r => r.starHeight

def reEq : Re → Re → Bool
  | .eps, .eps => true
  | .fail, .fail => true
  | .eos, .eos => true
  | .cls n i, .cls n' i' => n == n' && decide (i = i')
  | .seq a b, .seq a' b' => reEq a a' && reEq b b'
  | .alt a b, .alt a' b' => reEq a a' && reEq b b'
  | .rep m x r, .rep m' x' r' => m == m' && x == x' && reEq r r'
  | .nla r, .nla r' => reEq r r'
  | _, _ => false

/-- the literal word `w` as a pattern -/
def reWord : List Char → Re
  | [] => .eps
  | [c] => .cls false [.ch c]
  | c :: cs => .seq (.cls false [.ch c]) (reWord cs)

def reBlanks : Re := .rep 0 none (.cls false [.ch ' ', .ch '\t'])

/-- `[ \t]*pragma\W` -/
def expectedPragmaPat : Re := .seq reBlanks (reWord ("pragma".toList ++ []) |> fun w => appendNotWord w)
where appendNotWord : Re → Re
  | .seq a b => .seq a (appendNotWord b)
  | r => .seq r (.cls false [.notWord])

/-- `([ \t]*line\W)|([ \t]*\d+)` -/
def expectedLinePat : Re :=
  .alt (.seq reBlanks (expectedPragmaPat.appendNotWord (reWord "line".toList)))
       (.seq reBlanks (.rep 1 none (.cls false [.digit])))

/-- documented bound on the nesting of unbounded repetitions, per rule: 1 everywhere, except the
`UNMATCHED_QUOTE` error rule (a `*` over alternatives one of which is `\\x[0-9a-fA-F]+`: the inner
`+` is delimited by its `\\x` prefix) -/
def starBound (ruleName : String) : Nat := if ruleName == "UNMATCHED_QUOTE" then 2 else 1

end PycModel
