import PycModel.Spec.Stmt
import PycModel.Parser.Core
/-!
# `fix_switch_cases` (model) refines the regrouping specification

Helper lemmas for `Properties/C05.lean`: on switch-block items of the shape the parser builds
(`LabelChain`: every `case`/`default` node owns exactly one statement, which may again be a label),
`_extract_nested_case` computes the specification's label peeling and the main loop of
`fix_switch_cases` keeps the invariant "accumulator = closed groups ++ [open group]".
-/
namespace PycModel.SwitchRefine
open PycModel PycModel.Spec

theorem peel_nonlabel (fuel : Nat) (v : Val) (h : isLabelV v = false) :
    peelLabelsV fuel v = ([], [v]) := by
  cases fuel <;> simp [peelLabelsV, h]

/-- the shape the parser gives a `case`/`default` statement: exactly one statement under each
label; `n` = number of labels in the chain -/
inductive LabelChain : Nat → Val → Prop
  | caseLeaf (co e inner) : isLabelV inner = false → LabelChain 1 (.node .Case co [e, .list [inner]])
  | defLeaf (co inner) : isLabelV inner = false → LabelChain 1 (.node .Default co [.list [inner]])
  | caseStep (co e inner n) : LabelChain n inner → LabelChain (n+1) (.node .Case co [e, .list [inner]])
  | defStep (co inner n) : LabelChain n inner → LabelChain (n+1) (.node .Default co [.list [inner]])

def IsLabelNode (l : Val) : Prop :=
  (∃ co e r, l = .node .Case co (e :: r)) ∨ (∃ co r, l = .node .Default co r)

theorem chain_isLabel {n v} (h : LabelChain n v) : isLabelV v = true := by
  cases h <;> rfl

theorem chain_labelNode {n v} (h : LabelChain n v) : IsLabelNode v := by
  cases h
  · exact .inl ⟨_, _, _, rfl⟩
  · exact .inr ⟨_, _, rfl⟩
  · exact .inl ⟨_, _, _, rfl⟩
  · exact .inr ⟨_, _, rfl⟩

theorem chain_size {n v} (h : LabelChain n v) : n ≤ v.size := by
  induction h with
  | caseLeaf co e inner _ => (simp [Val.size, Val.sizeL]; try omega)
  | defLeaf co inner _ => (simp [Val.size, Val.sizeL]; try omega)
  | caseStep co e inner n _ ih => (simp [Val.size, Val.sizeL]; try omega)
  | defStep co inner n _ ih => (simp [Val.size, Val.sizeL]; try omega)

theorem bind_apply {α β} (m : P α) (f : α → P β) (s : PState) :
    (m >>= f) s = match m s with | .ok a s' => f a s' | .err e => .err e := rfl

theorem pure_apply {α} (a : α) (s : PState) : (pure a : P α) s = .ok a s := rfl


@[simp] theorem isLabel_case (co fs) : isLabelV (.node .Case co fs) = true := rfl
@[simp] theorem isLabel_default (co fs) : isLabelV (.node .Default co fs) = true := rfl
@[simp] theorem labelStmts_case (co e ss) : labelStmts (.node .Case co [e, .list ss]) = ss := rfl
@[simp] theorem labelStmts_default (co ss) : labelStmts (.node .Default co [.list ss]) = ss := rfl
@[simp] theorem getStmts_case (co e x) : (Val.node .Case co [e, x]).getAttr "stmts" = some x := rfl
@[simp] theorem getStmts_default (co x) : (Val.node .Default co [x]).getAttr "stmts" = some x := rfl
@[simp] theorem setStmts_case (co e x y) : (Val.node .Case co [e, x]).setAttr "stmts" y = some (.node .Case co [e, y]) := rfl
@[simp] theorem setStmts_default (co x y) : (Val.node .Default co [x]).setAttr "stmts" y = some (.node .Default co [y]) := rfl
@[simp] theorem getStmt_switch (co c b) : (Val.node .Switch co [c, b]).getAttr "stmt" = some b := rfl
@[simp] theorem setStmt_switch (co c b y) : (Val.node .Switch co [c, b]).setAttr "stmt" y = some (.node .Switch co [c, y]) := rfl
@[simp] theorem getItems_compound (co x) : (Val.node .Compound co [x]).getAttr "block_items" = some x := rfl
@[simp] theorem isCls_node (c co fs d) : (Val.node c co fs).isCls d = (c == d) := by
  simp [Val.isCls, Val.cls?]
theorem isCaseOrDefault_eq (v : Val) : isCaseOrDefault v = isLabelV v := rfl

theorem relabel_get {l : Val} (h : IsLabelNode l) (ss : List Val) :
    (relabel' l ss).getAttr "stmts" = some (.list ss) := by
  rcases h with ⟨co, e, r, rfl⟩ | ⟨co, r, rfl⟩ <;> rfl

theorem relabel_set {l : Val} (h : IsLabelNode l) (ss ss' : List Val) :
    (relabel' l ss).setAttr "stmts" (.list ss') = some (relabel' l ss') := by
  rcases h with ⟨co, e, r, rfl⟩ | ⟨co, r, rfl⟩ <;> rfl

theorem appendToLast_relabel {l : Val} (h : IsLabelNode l) (done ss : List Val) (child : Val) (s : PState) :
    appendToLast (done ++ [relabel' l ss]) child s = .ok (done ++ [relabel' l (ss ++ [child])]) s := by
  simp [appendToLast, bind_apply, relabel_get h, relabel_set h, attrOrCrash, pure_apply]

/-- on a parser-shaped label chain, `_extract_nested_case` and the specification's label peeling
describe the same list of sibling labels -/
theorem peel_extract {n v} (h : LabelChain n v) : ∀ fuel, n ≤ fuel →
    ∃ ls body, ls ≠ [] ∧ peelLabelsV fuel v = (ls, body) ∧ IsLabelNode (ls.getLast!) ∧
      ∀ s, extractNestedCase fuel v s
        = .ok (ls.dropLast.map (fun l => relabel' l []) ++ [relabel' (ls.getLast!) body]) s := by
  induction h with
  | caseLeaf co e inner hi =>
    intro fuel hf
    obtain ⟨f, rfl⟩ : ∃ f, fuel = f + 1 := ⟨fuel - 1, by omega⟩
    refine ⟨[.node .Case co [e, .list [inner]]], [inner], by simp, ?_, ?_, ?_⟩
    · simp [peelLabelsV, hi]
    · exact .inl ⟨_, _, _, rfl⟩
    · intro s
      simp [extractNestedCase, bind_apply, attrOrCrash, pure_apply, isCaseOrDefault_eq, hi, relabel']
  | defLeaf co inner hi =>
    intro fuel hf
    obtain ⟨f, rfl⟩ : ∃ f, fuel = f + 1 := ⟨fuel - 1, by omega⟩
    refine ⟨[.node .Default co [.list [inner]]], [inner], by simp, ?_, ?_, ?_⟩
    · simp [peelLabelsV, hi]
    · exact .inr ⟨_, _, rfl⟩
    · intro s
      simp [extractNestedCase, bind_apply, attrOrCrash, pure_apply, isCaseOrDefault_eq, hi, relabel']
  | caseStep co e inner n hc ih =>
    intro fuel hf
    obtain ⟨f, rfl⟩ : ∃ f, fuel = f + 1 := ⟨fuel - 1, by omega⟩
    obtain ⟨ls, body, hne, hp, hl, hx⟩ := ih f (by omega)
    obtain ⟨a, t, rfl⟩ : ∃ a t, ls = a :: t := by cases ls <;> simp_all
    refine ⟨.node .Case co [e, .list [inner]] :: a :: t, body, by simp, ?_, ?_, ?_⟩
    · simp [peelLabelsV, chain_isLabel hc, hp]
    · simpa using hl
    · intro s
      simp [extractNestedCase, bind_apply, attrOrCrash, pure_apply, isCaseOrDefault_eq, chain_isLabel hc, hx, relabel']
  | defStep co inner n hc ih =>
    intro fuel hf
    obtain ⟨f, rfl⟩ : ∃ f, fuel = f + 1 := ⟨fuel - 1, by omega⟩
    obtain ⟨ls, body, hne, hp, hl, hx⟩ := ih f (by omega)
    obtain ⟨a, t, rfl⟩ : ∃ a t, ls = a :: t := by cases ls <;> simp_all
    refine ⟨.node .Default co [.list [inner]] :: a :: t, body, by simp, ?_, ?_, ?_⟩
    · simp [peelLabelsV, chain_isLabel hc, hp]
    · simpa using hl
    · intro s
      simp [extractNestedCase, bind_apply, attrOrCrash, pure_apply, isCaseOrDefault_eq, chain_isLabel hc, hx, relabel']


/-- items of a switch block as the parser builds them: every `case`/`default` item is a label chain -/
def ParserShaped (items : List Val) : Prop :=
  ∀ v ∈ items, isLabelV v = true → ∃ n, LabelChain n v

theorem loop_refines (items : List Val) (hwf : ParserShaped items) (s : PState) : ∀ done : List Val,
    fixSwitchLoop items done false s = .ok (regroupGo items done none) s ∧
    ∀ l ss, IsLabelNode l →
      fixSwitchLoop items (done ++ [relabel' l ss]) true s = .ok (regroupGo items done (some (l, ss))) s := by
  induction items with
  | nil => intro done; simp [fixSwitchLoop, regroupGo, pure_apply]
  | cons v r ih =>
    have hr : ParserShaped r := fun w hw => hwf w (by simp [hw])
    intro done
    cases hv : isLabelV v with
    | false =>
      refine ⟨?_, ?_⟩
      · rw [fixSwitchLoop, regroupGo]
        simp only [isCaseOrDefault_eq, hv, peel_nonlabel _ v hv]
        simpa using (ih hr (done ++ [v])).1
      · intro l ss hl
        rw [fixSwitchLoop, regroupGo]
        simp only [isCaseOrDefault_eq, hv, peel_nonlabel _ v hv]
        simp [bind_apply, appendToLast_relabel hl]
        exact (ih hr done).2 l (ss ++ [v]) hl
    | true =>
      obtain ⟨n, hc⟩ := hwf v (by simp) hv
      obtain ⟨ls, body, hne, hp, hl, hx⟩ := peel_extract hc (v.size + 1) (by have := chain_size hc; omega)
      obtain ⟨a, t, rfl⟩ : ∃ a t, ls = a :: t := by cases ls <;> simp_all
      refine ⟨?_, ?_⟩
      · rw [fixSwitchLoop, regroupGo]
        simp only [isCaseOrDefault_eq, hv, hp]
        simp [bind_apply, hx]
        have := (ih hr (done ++ List.map (fun l => relabel' l []) (a :: t).dropLast)).2 _ body hl
        simpa using this
      · intro l ss hl'
        rw [fixSwitchLoop, regroupGo]
        simp only [isCaseOrDefault_eq, hv, hp]
        simp [bind_apply, hx]
        have := (ih hr (done ++ [relabel' l ss] ++ List.map (fun l => relabel' l []) (a :: t).dropLast)).2 _ body hl
        simpa using this

/-! ## the whole transform on a `Switch` node -/

theorem fixSwitch_block (co bco : Option Coord) (cond : Val) (items : List Val)
    (hwf : ParserShaped items) (s : PState) :
    fixSwitchCases (.node .Switch co [cond, .node .Compound bco [.list items]]) s
      = .ok (.node .Switch co [cond, switchBodyV (.node .Compound bco [.list items])]) s := by
  have h := (loop_refines items hwf s []).1
  simp [fixSwitchCases, bind_apply, pure_apply, attrOrCrash, valCoord, Val.coord?, h, switchBodyV, mk, regroup]

theorem fixSwitch_empty (co bco : Option Coord) (cond : Val) (s : PState) :
    fixSwitchCases (.node .Switch co [cond, .node .Compound bco [.none]]) s
      = .ok (.node .Switch co [cond, switchBodyV (.node .Compound bco [.none])]) s := by
  simp [fixSwitchCases, bind_apply, pure_apply, attrOrCrash, valCoord, Val.coord?, switchBodyV, mk, fixSwitchLoop]

/-- a switch body that is not a block is left alone (and the specification says the same) -/
theorem fixSwitch_other (co : Option Coord) (cond body : Val) (hb : body.isCls .Compound = false) (s : PState) :
    fixSwitchCases (.node .Switch co [cond, body]) s = .ok (.node .Switch co [cond, switchBodyV body]) s := by
  have hsb : switchBodyV body = body := by
    unfold switchBodyV
    split
    · simp [Val.isCls, Val.cls?] at hb
    · simp [Val.isCls, Val.cls?] at hb
    · rfl
  rw [hsb]
  simp [fixSwitchCases, bind_apply, pure_apply, attrOrCrash, hb]

end PycModel.SwitchRefine
