import PycModel.Proofs.Pointer
/-!
# Walking a modifier chain down to its `TypeDecl`; the specifier names

Shared by `_build_declarations` (`Proofs/BuildDecl.lean`) and type names (`Proofs/TypeName.lean`).
-/
namespace PycModel.BuildDecl
open PycModel PycModel.View PycModel.OperandId PycModel.TypeModify PycModel.DeclSkel

variable {env : Env}

/-! ## walking a modifier chain -/

theorem innerTypeDecl_chain : ∀ (ms : List M) (td : Val) (fuel : Nat), td.isCls .TypeDecl = true → ms.length < fuel →
    innerTypeDecl fuel (chainVal ms td) = some td
  | [], td, fuel, htd, hf => by
    obtain ⟨g, rfl⟩ : ∃ g, fuel = g + 1 := ⟨fuel - 1, by simp at hf; omega⟩
    simp [innerTypeDecl, chainVal, htd]
  | m :: ms, td, fuel, htd, hf => by
    obtain ⟨g, rfl⟩ : ∃ g, fuel = g + 1 := ⟨fuel - 1, by simp at hf; omega⟩
    simp only [innerTypeDecl, chainVal, wrap_notTypeDecl, Bool.false_eq_true, ↓reduceIte, wrap_getType, Option.bind_some]
    exact innerTypeDecl_chain ms td g htd (by simp at hf; omega)

theorem mapInnerTypeDecl_chain (f : Val → Option Val) : ∀ (ms : List M) (td : Val) (fuel : Nat),
    td.isCls .TypeDecl = true → ms.length < fuel →
    mapInnerTypeDecl fuel (chainVal ms td) f = (f td).map (chainVal ms)
  | [], td, fuel, htd, hf => by
    obtain ⟨g, rfl⟩ : ∃ g, fuel = g + 1 := ⟨fuel - 1, by simp at hf; omega⟩
    simp [mapInnerTypeDecl, chainVal, htd]
  | m :: ms, td, fuel, htd, hf => by
    obtain ⟨g, rfl⟩ : ∃ g, fuel = g + 1 := ⟨fuel - 1, by simp at hf; omega⟩
    simp only [mapInnerTypeDecl, chainVal, wrap_notTypeDecl, Bool.false_eq_true, ↓reduceIte, wrap_getType]
    rw [mapInnerTypeDecl_chain f ms td g htd (by simp at hf; omega)]
    cases f td with
    | none => rfl
    | some t' => simp [wrap_setType, chainVal]

/-- the completed `TypeDecl` -/
def tdFull (x : String) (co : Option Coord) (quals : List Val) (ty : Val) : Val :=
  mk .TypeDecl co [.str x, .list quals, .none, ty]

def identType (co : Option Coord) (names : List String) : Val := mk .IdentifierType co [Val.strs names]

/-- the specifier names, as `_parse_declaration_specifiers` stores them: one `IdentifierType` per keyword -/
def typeNodes (names : List (String × Option Coord)) : List Val := names.map fun p => identType p.2 [p.1]

theorem typeNodes_find (names : List (String × Option Coord)) :
    (typeNodes names).find? (fun tn => !tn.isCls .IdentifierType) = none := by
  induction names with
  | nil => rfl
  | cons p r ih => simp only [typeNodes, List.map_cons, List.find?_cons] at ih ⊢; exact ih

theorem attrOrCrash_some {α} (a : α) (site : String) : attrOrCrash (some a) site = pure a := rfl

theorem mapP_typeNodes (g : Val → P (List Val)) (hg : ∀ co n s, g (identType co [n]) s = .ok [Val.str n] s)
    (names : List (String × Option Coord)) (s : PState) :
    mapP g (typeNodes names) s = .ok (names.map fun p => [Val.str p.1]) s := by
  induction names with
  | nil => rfl
  | cons p r ih =>
    simp only [typeNodes, List.map_cons] at ih ⊢
    simp only [mapP, DeclSkel.bnd, hg, DeclSkel.pur, ih]

theorem flatten_singletons (names : List (String × Option Coord)) :
    (names.map fun p => [Val.str p.1]).flatten = names.map fun p => Val.str p.1 := by
  induction names with
  | nil => rfl
  | cons p r ih => simp [ih]

end PycModel.BuildDecl
