import PycModel.Proofs.PresAll
/-! `Pres` for the declaration / declarator helpers and productions. -/
namespace PycModel

variable {R : PState → PState → Prop}

theorem Pres.lastTypeNames (h : PrimOK R) (spec : DeclSpec) : Pres R (lastTypeNames spec) := by
  unfold PycModel.lastTypeNames; pres
register_pres Pres.lastTypeNames

theorem Pres.bdFirstFix (h : PrimOK R) (spec : DeclSpec) (ds : List DeclInfo) (d0 : DeclInfo) :
    Pres R (bdFirstFix spec ds d0) := by
  unfold PycModel.bdFirstFix; pres
register_pres Pres.bdFirstFix

set_option maxHeartbeats 2000000 in
theorem Pres.bdOne (h : PrimOK R) (spec : DeclSpec) (a b : Bool) (d : DeclInfo) (q : List Val) :
    Pres R (bdOne spec a b d q) := by
  unfold PycModel.bdOne; pres
register_pres Pres.bdOne

theorem Pres.bdLoop (h : PrimOK R) (spec : DeclSpec) (a b : Bool) :
    ∀ (ds : List DeclInfo) (q acc : List Val), Pres R (bdLoop spec a b ds q acc) := by
  intro ds
  induction ds with
  | nil => intro q acc; unfold PycModel.bdLoop; pres
  | cons d r ih => intro q acc; unfold PycModel.bdLoop; pres; all_goals exact ih _ _
register_pres Pres.bdLoop

theorem Pres.buildDeclarations (h : PrimOK R) (spec : DeclSpec) (ds : List DeclInfo) (tns : Bool) :
    Pres R (buildDeclarations spec ds tns) := by
  unfold PycModel.buildDeclarations
  pres
register_pres Pres.buildDeclarations

theorem Pres.buildFunctionDefinition (h : PrimOK R) (spec : DeclSpec) (d p b : Val) :
    Pres R (buildFunctionDefinition spec d p b) := by
  unfold PycModel.buildFunctionDefinition; pres
register_pres Pres.buildFunctionDefinition

theorem Pres.structDeclOnly (h : PrimOK R) (spec : DeclSpec) (t : Val) : Pres R (structDeclOnly spec t) := by
  unfold PycModel.structDeclOnly; pres
register_pres Pres.structDeclOnly

theorem Pres.requireSpec (h : PrimOK R) (r : Option DeclSpec × Bool × Option Coord) (b : Bool) :
    Pres R (requireSpec r b) := by
  unfold PycModel.requireSpec; pres
register_pres Pres.requireSpec

theorem Pres.firstOr (h : PrimOK R) (f : Option Coord) (t : PTok) : Pres R (firstOr f t) := by
  unfold PycModel.firstOr; pres
register_pres Pres.firstOr

theorem Pres.identTypeOf (h : PrimOK R) (t : PTok) : Pres R (identTypeOf t) := by
  unfold PycModel.identTypeOf; pres
register_pres Pres.identTypeOf

theorem Pres.registerParams (h : PrimOK R) : ∀ l : List Val, Pres R (registerParams l) := by
  intro l
  induction l with
  | nil => unfold PycModel.registerParams; pres
  | cons p r ih => unfold PycModel.registerParams; pres; all_goals exact ih
register_pres Pres.registerParams

section Productions
variable (h : PrimOK R) (self : Self) (hs : SelfOK R self)
include h hs

theorem Pres.pDeclaration : Pres R (pDeclaration self) := by
  unfold PycModel.pDeclaration; pres
theorem Pres.pDeclBodyWithSpec (spec : DeclSpec) (b : Bool) : Pres R (pDeclBodyWithSpec self spec b) := by
  unfold PycModel.pDeclBodyWithSpec; pres
theorem Pres.pDeclSpecs (b : Bool) : Pres R (pDeclSpecs self b) := by
  unfold PycModel.pDeclSpecs; pres
end Productions
register_prod Pres.pDeclBodyWithSpec
register_prod Pres.pDeclSpecs
section Productions
variable (h : PrimOK R) (self : Self) (hs : SelfOK R self)
include h hs
theorem Pres.pDeclBody : Pres R (pDeclBody self) := by
  unfold PycModel.pDeclBody; pres
theorem Pres.pDeclarationListLoop (acc : List Val) : Pres R (pDeclarationListLoop self acc) := by
  unfold PycModel.pDeclarationListLoop; pres
set_option maxHeartbeats 4000000 in
theorem Pres.pDeclSpecsLoop (s : Option DeclSpec) (t : Bool) (f : Option Coord) :
    Pres R (pDeclSpecsLoop self s t f) := by
  unfold PycModel.pDeclSpecsLoop; pres
set_option maxHeartbeats 4000000 in
theorem Pres.pSqlLoop (s : Option DeclSpec) (t a : Bool) (f : Option Coord) :
    Pres R (pSqlLoop self s t a f) := by
  unfold PycModel.pSqlLoop; pres
theorem Pres.pSpecifierQualifierList : Pres R (pSpecifierQualifierList self) := by
  unfold PycModel.pSpecifierQualifierList; pres
end Productions
register_prod Pres.pSpecifierQualifierList
section Productions
variable (h : PrimOK R) (self : Self) (hs : SelfOK R self)
include h hs
theorem Pres.pTypeQualifierListLoop (acc : List Val) : Pres R (pTypeQualifierListLoop self acc) := by
  unfold PycModel.pTypeQualifierListLoop; pres
theorem Pres.pAlignmentSpecifier : Pres R (pAlignmentSpecifier self) := by
  unfold PycModel.pAlignmentSpecifier; pres
theorem Pres.pAtomicSpecifier : Pres R (pAtomicSpecifier self) := by
  unfold PycModel.pAtomicSpecifier; pres
theorem Pres.pInitDeclaratorListLoop (acc : List DeclInfo) (b : Bool) :
    Pres R (pInitDeclaratorListLoop self acc b) := by
  unfold PycModel.pInitDeclaratorListLoop; pres
theorem Pres.pInitDeclarator (b : Bool) : Pres R (pInitDeclarator self b) := by
  unfold PycModel.pInitDeclarator; pres
theorem Pres.pStructOrUnionSpecifier : Pres R (pStructOrUnionSpecifier self) := by
  unfold PycModel.pStructOrUnionSpecifier; pres
theorem Pres.pStructDeclListLoop (acc : List Val) : Pres R (pStructDeclListLoop self acc) := by
  unfold PycModel.pStructDeclListLoop; pres
theorem Pres.pStructDeclaration : Pres R (pStructDeclaration self) := by
  unfold PycModel.pStructDeclaration; pres
theorem Pres.pStructDeclaratorListLoop (acc : List DeclInfo) : Pres R (pStructDeclaratorListLoop self acc) := by
  unfold PycModel.pStructDeclaratorListLoop; pres
theorem Pres.pStructDeclarator : Pres R (pStructDeclarator self) := by
  unfold PycModel.pStructDeclarator; pres
theorem Pres.pEnumSpecifier : Pres R (pEnumSpecifier self) := by
  unfold PycModel.pEnumSpecifier; pres
theorem Pres.pEnumeratorListLoop (acc : List Val) : Pres R (pEnumeratorListLoop self acc) := by
  unfold PycModel.pEnumeratorListLoop; pres
theorem Pres.pEnumerator : Pres R (pEnumerator self) := by
  unfold PycModel.pEnumerator; pres

end Productions

end PycModel
